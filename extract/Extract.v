(* Extraction of the executable model.  Directives used: ExtrOcamlBasic only
   (bool, option, unit, prod, list, sumbool mapped to OCaml's); Z/positive/string/ascii
   stay Coq datatypes. *)
From Coq Require Import Extraction ExtrOcamlBasic.
From MP Require Import Algo.Dispatch.
Extraction Language OCaml.
Extraction "model.ml" dispatch.
