(* driver: one request per line "fname hexint hexint ..." -> one line of hex ints.
   Only glue: hex <-> Coq positive/Z, OCaml string -> Coq string. *)
open Model

let hexval c = match c with
  | '0'..'9' -> Stdlib.Char.code c - 48 | 'a'..'f' -> Stdlib.Char.code c - 87
  | 'A'..'F' -> Stdlib.Char.code c - 55 | _ -> failwith "hex"

(* bits, most significant first, of a hex string *)
let pos_of_hex s : positive option =
  let acc = ref None in
  Stdlib.String.iter (fun c ->
    let v = hexval c in
    for i = 3 downto 0 do
      let b = (v lsr i) land 1 = 1 in
      acc := (match !acc with
        | None -> if b then Some XH else None
        | Some p -> Some (if b then XI p else XO p))
    done) s;
  !acc

let z_of_string s : z =
  let neg = Stdlib.String.length s > 0 && s.[0] = '-' in
  let body = if neg then Stdlib.String.sub s 1 (Stdlib.String.length s - 1) else s in
  match pos_of_hex body with
  | None -> Z0
  | Some p -> if neg then Zneg p else Zpos p

let hex_of_pos p =
  (* collect bits lsb first *)
  let buf = Stdlib.Buffer.create 64 in
  let rec bits p acc = match p with
    | XH -> true :: acc
    | XO q -> bits q (false :: acc)
    | XI q -> bits q (true :: acc) in
  (* bits returns msb-first list *)
  let l = bits p [] in
  let n = Stdlib.List.length l in
  let pad = (4 - n mod 4) mod 4 in
  let l = (Stdlib.List.init pad (fun _ -> false)) @ l in
  let rec go l = match l with
    | a :: b :: c :: d :: rest ->
        let v = (if a then 8 else 0) + (if b then 4 else 0) + (if c then 2 else 0) + (if d then 1 else 0) in
        Stdlib.Buffer.add_char buf "0123456789abcdef".[v]; go rest
    | _ -> () in
  go l; Stdlib.Buffer.contents buf

let string_of_z x = match x with
  | Z0 -> "0" | Zpos p -> hex_of_pos p | Zneg p -> "-" ^ hex_of_pos p

let ascii_of_char (c : char) : ascii =
  let n = Stdlib.Char.code c in
  let b i = (n lsr i) land 1 = 1 in
  Ascii (b 0, b 1, b 2, b 3, b 4, b 5, b 6, b 7)

let coqstring s =
  let r = ref EmptyString in
  for i = Stdlib.String.length s - 1 downto 0 do r := String (ascii_of_char s.[i], !r) done; !r

let () =
  try
    while true do
      let line = input_line stdin in
      match Stdlib.String.split_on_char ' ' (Stdlib.String.trim line) with
      | [] | [""] -> print_newline ()
      | f :: args ->
          let args = Stdlib.List.filter (fun s -> s <> "") args in
          let out = dispatch (coqstring f) (Stdlib.List.map z_of_string args) in
          print_endline (Stdlib.String.concat " " (Stdlib.List.map string_of_z out))
    done
  with End_of_file -> ()
