(* Memo.v -- Gallina model of mpmath.libmp.libelefun.constant_memo as a state machine over request lists.

     def constant_memo(f):
         f.memo_prec = -1
         f.memo_val = None
         def g(prec, **kwargs):
             memo_prec = f.memo_prec
             if prec <= memo_prec:
                 return f.memo_val >> (memo_prec-prec)
             newprec = int(prec*1.05+10)
             f.memo_val = f(newprec, **kwargs)
             f.memo_prec = newprec
             return f.memo_val >> (newprec-prec)

   The state is `None` (memo_prec = -1, memo_val = None) or `Some (memo_prec, memo_val)`.  Requests are
   non-negative precisions.  `f` is the undecorated fixed-point function, `np` the map prec |-> newprec
   (the concrete double-precision expression int(prec*1.05+10) is modelled exactly by [np105] in Check.v and
   compared with the live expression by the driver for every request of the stated domain).

   Theorems (by induction over ANY request list):
     memo_inv            the invariant  memo_val = f memo_prec  /\  memo_prec = np q0 for an earlier request q0
     memo_served         every answer is  f m >> (m - q)  for a memo precision m >= q reached by the history or by q
     memo_history_independent
                         (forall m, f m = floor (c * 2^m))  ->  forall history q, answer = floor (c * 2^q)
                         for an abstract real c (via floor (floor x / 2^k) = floor (x / 2^k)). *)
From Coq Require Import ZArith List Bool Lia Reals Lra.
From Flocq Require Import Core.
Import ListNotations.
Open Scope Z_scope.

Section Memo.
Variable f : Z -> Z.
Variable np : Z -> Z.

Definition state := option (Z * Z).

Definition step (st : state) (q : Z) : state * Z :=
  match st with
  | Some (m, v) =>
      if q <=? m then (st, Z.shiftr v (m - q))
      else let m' := np q in let v' := f m' in (Some (m', v'), Z.shiftr v' (m' - q))
  | None => let m' := np q in let v' := f m' in (Some (m', v'), Z.shiftr v' (m' - q))
  end.

Definition run (h : list Z) : state := fold_left (fun st q => fst (step st q)) h None.

(* the integer returned to a request q made after the history h *)
Definition answer (h : list Z) (q : Z) : Z := snd (step (run h) q).

(* the full trace (answer, memo_prec, memo_val after the request) -- used by the correspondence check *)
Fixpoint trace_from (st : state) (h : list Z) : list (Z * Z * Z) :=
  match h with
  | [] => []
  | q :: t => let '(st', a) := step st q in
              match st' with
              | Some (m, v) => (a, m, v) :: trace_from st' t
              | None => (a, -1, 0) :: trace_from st' t
              end
  end.
Definition trace (h : list Z) := trace_from None h.

Definition inv_from (qs : list Z) (st : state) : Prop :=
  match st with
  | None => True
  | Some (m, v) => v = f m /\ exists q0, In q0 qs /\ m = np q0
  end.

Lemma run_app h q : run (h ++ [q]) = fst (step (run h) q).
Proof. unfold run. rewrite fold_left_app. reflexivity. Qed.

Lemma step_inv qs st q : inv_from qs st -> inv_from (q :: qs) (fst (step st q)).
Proof.
  destruct st as [[m v]|]; unfold step; cbn [inv_from].
  - intros [Hv [q0 [Hin Hm]]]. destruct (q <=? m); cbn [fst inv_from].
    + split; [exact Hv|]. exists q0. split; [right; exact Hin|exact Hm].
    + split; [reflexivity|]. exists q. split; [left; reflexivity|reflexivity].
  - intros _. cbn [fst inv_from]. split; [reflexivity|]. exists q. split; [left; reflexivity|reflexivity].
Qed.

Lemma inv_from_incl qs qs' st : (forall x, In x qs -> In x qs') -> inv_from qs st -> inv_from qs' st.
Proof.
  intros Hi. destruct st as [[m v]|]; cbn [inv_from]; [|trivial].
  intros [Hv [q0 [Hin Hm]]]. split; [exact Hv|]. exists q0. split; [apply Hi; exact Hin|exact Hm].
Qed.

(* invariant: the cached value is always f at the cached precision, and the cached precision is np of an
   earlier request *)
Theorem memo_inv h : inv_from h (run h).
Proof.
  induction h as [|q h IH] using rev_ind.
  - exact I.
  - rewrite run_app. apply inv_from_incl with (q :: h).
    + intros x [->|Hx]; apply in_or_app; [right; left; reflexivity|left; exact Hx].
    + apply step_inv. exact IH.
Qed.

(* every answer is a right shift, by a non-negative amount, of f at a reached memo precision
   (q <= np q : the freshly computed value has at least the requested precision; true of int(q*1.05+10)) *)
Theorem memo_served h q : q <= np q ->
  exists m, (exists q0, In q0 (q :: h) /\ m = np q0) /\ q <= m /\ answer h q = Z.shiftr (f m) (m - q).
Proof.
  intros Hq. unfold answer. pose proof (memo_inv h) as Hinv.
  destruct (run h) as [[m v]|]; unfold step; cbn [inv_from] in Hinv.
  - destruct Hinv as [Hv [q0 [Hin Hm]]]. destruct (Z.leb_spec q m) as [Hle|Hgt]; cbn [snd].
    + exists m. split; [exists q0; split; [right; exact Hin|exact Hm]|]. split; [exact Hle|]. rewrite Hv. reflexivity.
    + exists (np q). split; [exists q; split; [left; reflexivity|reflexivity]|]. split; [exact Hq|reflexivity].
  - cbn [snd]. exists (np q). split; [exists q; split; [left; reflexivity|reflexivity]|]. split; [exact Hq|reflexivity].
Qed.

End Memo.

(* ------------------------------------------------------------------------------------------------------------
   floor facts over the reals *)

Lemma IZR_pow2' n : 0 <= n -> IZR (2 ^ n) = bpow radix2 n.
Proof. intros H. rewrite (IZR_Zpower radix2) by lia. reflexivity. Qed.

(* floor (floor x / d) = floor (x / d)  for an integer d > 0 *)
Lemma floor_floor_div x d : 0 < d -> (Zfloor x / d) = Zfloor (x / IZR d).
Proof.
  intros Hd. symmetry. apply Zfloor_imp.
  assert (HdR : (0 < IZR d)%R) by (apply IZR_lt; lia).
  pose proof (Zfloor_lb x) as Hlb. pose proof (Zfloor_ub x) as Hub.
  set (n := Zfloor x) in *.
  pose proof (Z.div_mod n d ltac:(lia)) as Hdm. pose proof (Z.mod_pos_bound n d Hd) as Hr.
  set (k := n / d) in *. set (r := n mod d) in *.
  assert (Hn : IZR n = (IZR d * IZR k + IZR r)%R) by (rewrite Hdm, plus_IZR, mult_IZR; reflexivity).
  assert (Hr0 : (0 <= IZR r)%R) by (apply IZR_le; lia).
  assert (Hr1 : (IZR r + 1 <= IZR d)%R) by (rewrite <- plus_IZR; apply IZR_le; lia).
  rewrite plus_IZR. simpl (IZR 1). split.
  - apply Rmult_le_reg_r with (IZR d); [exact HdR|]. unfold Rdiv. rewrite Rmult_assoc, Rinv_l by lra. nra.
  - apply Rmult_lt_reg_r with (IZR d); [exact HdR|]. unfold Rdiv. rewrite Rmult_assoc, Rinv_l by lra. nra.
Qed.

(* floor (floor x >> k) = floor (x / 2^k) *)
Lemma floor_floor_shift x k : 0 <= k -> Z.shiftr (Zfloor x) k = Zfloor (x * bpow radix2 (- k)).
Proof.
  intros Hk. rewrite Z.shiftr_div_pow2 by lia.
  rewrite floor_floor_div by (apply Z.pow_pos_nonneg; lia).
  rewrite IZR_pow2' by lia. rewrite bpow_opp. reflexivity.
Qed.

Section HistoryIndependence.
Variable f : Z -> Z.
Variable np : Z -> Z.
Variable c : R.
Variable dom : Z -> Prop.            (* the requests considered, e.g. 0 <= q <= Q *)
Hypothesis np_ge : forall q, dom q -> q <= np q.

(* the exact-floor hypothesis is only needed at reachable memo precisions *)
Hypothesis f_floor : forall q0, dom q0 -> f (np q0) = Zfloor (c * bpow radix2 (np q0)).

Theorem memo_history_independent h q :
  Forall dom h -> dom q -> answer f np h q = Zfloor (c * bpow radix2 q).
Proof.
  intros Hh Hq. destruct (memo_served f np h q (np_ge q Hq)) as [m [[q0 [Hin Hm]] [Hle Ha]]].
  rewrite Ha. assert (Hq0 : dom q0).
  { destruct Hin as [<-|Hin]; [exact Hq|]. rewrite Forall_forall in Hh. apply Hh. exact Hin. }
  subst m. rewrite f_floor by exact Hq0. rewrite floor_floor_shift by lia.
  f_equal. rewrite Rmult_assoc, <- bpow_plus. f_equal. f_equal. lia.
Qed.
End HistoryIndependence.

(* ------------------------------------------------------------------------------------------------------------
   one enclosure  A < c * 2^K < A + 1  determines floor (c * 2^m) for every m <= K, and c * 2^m is never an
   integer *)
Section Enclosure.
Variables (c : R) (A K : Z).
Hypothesis HK : 0 <= K.
Hypothesis Henc : (IZR A < c * bpow radix2 K < IZR (A + 1))%R.

Lemma encl_floor_K : Zfloor (c * bpow radix2 K) = A.
Proof. apply Zfloor_imp. destruct Henc. split; lra. Qed.

Lemma encl_floor m : 0 <= m <= K -> Zfloor (c * bpow radix2 m) = Z.shiftr A (K - m).
Proof.
  intros Hm. rewrite <- encl_floor_K. rewrite floor_floor_shift by lia.
  f_equal. rewrite Rmult_assoc, <- bpow_plus. f_equal. f_equal. lia.
Qed.

(* c * 2^m = floor + theta with 0 < theta < 1 *)
Lemma encl_frac m : 0 <= m <= K ->
  (IZR (Z.shiftr A (K - m)) < c * bpow radix2 m < IZR (Z.shiftr A (K - m)) + 1)%R.
Proof.
  intros Hm. rewrite <- (encl_floor m Hm).
  pose proof (Zfloor_lb (c * bpow radix2 m)) as Hlb. pose proof (Zfloor_ub (c * bpow radix2 m)) as Hub.
  split; [|exact Hub].
  destruct Hlb as [Hlt|Heq]; [exact Hlt|exfalso].
  (* c * 2^m integer => c * 2^K integer, contradicting the strict enclosure *)
  assert (E : (c * bpow radix2 K = IZR (Zfloor (c * bpow radix2 m) * 2 ^ (K - m)))%R).
  { rewrite mult_IZR, IZR_pow2' by lia. rewrite Heq. rewrite Rmult_assoc, <- bpow_plus. f_equal. f_equal. lia. }
  destruct Henc as [H1 H2]. rewrite E in H1, H2. apply lt_IZR in H1. apply lt_IZR in H2. lia.
Qed.
End Enclosure.
