(* Check.v -- the finite-domain checker for C17 and its soundness theorem.

   Each run the driver reads the LIVE fixed-point tables (m, X_fixed(m)) of a constant for every reachable memo
   precision m <= M through the undecorated function and emits, per constant,
       - an enclosure  IZR A < c * 2^K < IZR (A+1)        (proved by the Interval tactic, K >= M + 32),
       - the table as a Gallina list,
       - Lemma chk : check_const D A K Q table = true.     (vm_compute)
   and instantiates [const_all_histories] below:  for EVERY request history with precisions in 0..Q, every
   public precision p in 1..Q-20 and every rounding mode, the model of mpf_X returns RND r p (c / D).
   (D = 1 except for degree = pi/180, where degree_fixed(prec) = pi_fixed(prec) // 180 shares pi's memo.)

   A table value that is not the exact floor (the live ln2/ln10/pi tables contain floor-1 values) does not
   break the checker: [bad_ok] walks the finitely many requests q = m, m-1, ... whose served value
   f m >> (m-q) differs from floor(c 2^q) (once the shifted values agree they agree for all smaller q) and
   compares the FINAL results of def_mpf_constant for the five modes. *)
From Coq Require Import ZArith List Bool Lia Reals Lra.
From Flocq Require Import Core.
From MP Require Import Algo.Base Algo.Libmpf Spec.Mpf Spec.Round Proofs.Bits.
From CONST Require Import Memo DefConst.
Import ListNotations.
Open Scope Z_scope.

(* ------------------------------------------------------------------------------------------------------------
   int(prec*1.05+10) in IEEE double arithmetic, modelled exactly on integers:
   1.05 is the double C105 * 2^-52; the product and the sum are rounded to nearest-even at 53 bits; int()
   truncates.  Valid for 0 <= prec < 2^52 (the driver compares it with the live expression on 0..Q). *)
Definition C105 : Z := 4728779608739021.

Definition rne53 (m : Z) : Z * Z :=
  let b := bitcount m in
  if b <=? 53 then (m, 0) else (round_nearest_shift m (b - 53), b - 53).

Definition np105 (q : Z) : Z :=
  let '(m1, s1) := rne53 (q * C105) in
  let e1 := s1 - 52 in
  let '(m2, s2) := rne53 (m1 + Z.shiftl 10 (- e1)) in
  let e2 := e1 + s2 in
  if 0 <=? e2 then Z.shiftl m2 e2 else Z.shiftr m2 (- e2).

(* ------------------------------------------------------------------------------------------------------------
   tables *)
Definition lookup (t : list (Z * Z)) (m : Z) : Z :=
  match find (fun e => fst e =? m) t with Some e => snd e | None => 0 end.

Fixpoint zrange_nat (lo : Z) (n : nat) : list Z :=
  match n with O => [] | S k => lo :: zrange_nat (lo + 1) k end.
Definition zrange (lo n : Z) : list Z := zrange_nat lo (Z.to_nat n).

Lemma In_zrange_nat x n : forall lo, lo <= x < lo + Z.of_nat n -> In x (zrange_nat lo n).
Proof.
  induction n as [|n IH]; intros lo H; [lia|]. cbn [zrange_nat].
  destruct (Z.eq_dec lo x) as [->|NE]; [left; reflexivity|right]. apply IH. lia.
Qed.

Lemma In_zrange x lo n : lo <= x < lo + n -> In x (zrange lo n).
Proof. intros H. apply In_zrange_nat. rewrite Z2Nat.id by lia. exact H. Qed.

Lemma lookup_in t m : existsb (fun e => fst e =? m) t = true -> In (m, lookup t m) t.
Proof.
  unfold lookup. induction t as [|[a b] t IH]; cbn [existsb find fst snd]; [discriminate|].
  destruct (Z.eqb_spec a m) as [->|NE]; cbn [orb].
  - intros _. left. reflexivity.
  - intros H. right. apply IH. exact H.
Qed.

(* ------------------------------------------------------------------------------------------------------------
   the checker *)
Definition modes := [RN; RF; RC; RD; RU].

Lemma in_modes r : In r modes.
Proof. destruct r; cbn; tauto. Qed.

Definition final_eq (D g fl q : Z) : bool :=
  forallb (fun r => mpf_eqb (mpf_const_v (g / D) (q - 20) r) (mpf_const_v (fl / D) (q - 20) r)) modes.

(* v = table value at memo precision m, fl = floor(c 2^m); k = m - q walks the requests served from m *)
Fixpoint bad_ok (fuel : nat) (D Q v fl m k : Z) : bool :=
  if Z.shiftr v k =? Z.shiftr fl k then true else
  match fuel with
  | O => false
  | S fu => ((m - k <? 21) || (Q <? m - k) || final_eq D (Z.shiftr v k) (Z.shiftr fl k) (m - k))
            && bad_ok fu D Q v fl m (k + 1)
  end.

Definition entry_ok (D Q A K : Z) (e : Z * Z) : bool :=
  let '(m, v) := e in
  (0 <=? m) && (m <=? K) &&
  (let fl := Z.shiftr A (K - m) in (v =? fl) || bad_ok 64 D Q v fl m 0).

(* side conditions of def_constant_round at public precision p *)
Definition prec_ok (D A K p : Z) : bool :=
  let fl := Z.shiftr A (K - (p + 20)) / D in
  (2 ^ p <=? fl) && negb (fl mod 2 ^ (bitcount fl - p) =? 2 ^ (bitcount fl - p - 1)).

Definition np_ok (t : list (Z * Z)) (q : Z) : bool :=
  let n := np105 q in (q <=? n) && existsb (fun e => fst e =? n) t.

Definition check_const (D A K Q : Z) (t : list (Z * Z)) : bool :=
  (0 <? D) && (Q <=? K) &&
  forallb (entry_ok D Q A K) t &&
  forallb (np_ok t) (zrange 0 (Q + 1)) &&
  forallb (prec_ok D A K) (zrange 1 (Q - 20)).

(* ------------------------------------------------------------------------------------------------------------
   soundness *)
Lemma shiftr_shiftr_add a i j : 0 <= i -> 0 <= j -> Z.shiftr (Z.shiftr a i) j = Z.shiftr a (i + j).
Proof. intros. apply Z.shiftr_shiftr. lia. Qed.

Lemma bad_ok_spec fuel D Q v fl m : forall k0, 0 <= k0 -> bad_ok fuel D Q v fl m k0 = true ->
  forall k, k0 <= k ->
    Z.shiftr v k = Z.shiftr fl k \/
    ((m - k <? 21) || (Q <? m - k) || final_eq D (Z.shiftr v k) (Z.shiftr fl k) (m - k)) = true.
Proof.
  induction fuel as [|fu IH]; intros k0 Hk0; cbn [bad_ok].
  - destruct (Z.eqb_spec (Z.shiftr v k0) (Z.shiftr fl k0)) as [E|NE]; [|discriminate].
    intros _ k Hk. left. replace k with (k0 + (k - k0)) by lia.
    rewrite <- !shiftr_shiftr_add by lia. rewrite E. reflexivity.
  - destruct (Z.eqb_spec (Z.shiftr v k0) (Z.shiftr fl k0)) as [E|NE].
    + intros _ k Hk. left. replace k with (k0 + (k - k0)) by lia.
      rewrite <- !shiftr_shiftr_add by lia. rewrite E. reflexivity.
    + rewrite andb_true_iff. intros [H1 H2] k Hk.
      destruct (Z.eq_dec k k0) as [->|NE'].
      * right. exact H1.
      * apply (IH (k0 + 1)); [lia|exact H2|lia].
Qed.

(* x in (n, n+1), n = D k + r  =>  x / D in (k, k+1) *)
Lemma div_frac x n D : 0 < D -> (IZR n < x < IZR n + 1)%R ->
  (IZR (n / D) < x / IZR D < IZR (n / D) + 1)%R.
Proof.
  intros HD [H1 H2].
  assert (HdR : (0 < IZR D)%R) by (apply IZR_lt; lia).
  pose proof (Z.div_mod n D ltac:(lia)) as Hdm. pose proof (Z.mod_pos_bound n D HD) as Hr.
  set (k := n / D) in *. set (r := n mod D) in *.
  assert (Hn : IZR n = (IZR D * IZR k + IZR r)%R) by (rewrite Hdm, plus_IZR, mult_IZR; reflexivity).
  assert (Hr0 : (0 <= IZR r)%R) by (apply IZR_le; lia).
  assert (Hr1 : (IZR r + 1 <= IZR D)%R) by (rewrite <- plus_IZR; apply IZR_le; lia).
  split.
  - apply Rmult_lt_reg_r with (IZR D); [exact HdR|]. unfold Rdiv. rewrite Rmult_assoc, Rinv_l by lra. nra.
  - apply Rmult_lt_reg_r with (IZR D); [exact HdR|]. unfold Rdiv. rewrite Rmult_assoc, Rinv_l by lra. nra.
Qed.

Section Sound.
Variables (c : R) (D A K Q : Z) (t : list (Z * Z)).
Hypothesis Henc : (IZR A < c * bpow radix2 K < IZR (A + 1))%R.
Hypothesis Hchk : check_const D A K Q t = true.

Local Lemma HD : 0 < D.
Proof. unfold check_const in Hchk. rewrite !andb_true_iff in Hchk. destruct Hchk as [[[[H _] _] _] _]. apply Z.ltb_lt. exact H. Qed.
Local Lemma HQK : Q <= K.
Proof. unfold check_const in Hchk. rewrite !andb_true_iff in Hchk. destruct Hchk as [[[[_ H] _] _] _]. apply Z.leb_le. exact H. Qed.
Local Lemma Hent : forall e, In e t -> entry_ok D Q A K e = true.
Proof. unfold check_const in Hchk. rewrite !andb_true_iff in Hchk. destruct Hchk as [[[_ H] _] _]. rewrite forallb_forall in H. exact H. Qed.
Local Lemma Hnp : forall q, 0 <= q <= Q -> np_ok t q = true.
Proof.
  unfold check_const in Hchk. rewrite !andb_true_iff in Hchk. destruct Hchk as [[_ H] _]. rewrite forallb_forall in H.
  intros q Hq. apply H. apply In_zrange. lia.
Qed.
Local Lemma Hprec : forall p, 1 <= p <= Q - 20 -> prec_ok D A K p = true.
Proof.
  unfold check_const in Hchk. rewrite !andb_true_iff in Hchk. destruct Hchk as [_ H]. rewrite forallb_forall in H.
  intros p Hp. apply H. apply In_zrange. lia.
Qed.

Definition floor_at (q : Z) : Z := Z.shiftr A (K - q).

(* the value the model of mpf_X computes from the exact floor is the correct rounding *)
Lemma from_floor_correct p r : 1 <= p <= Q - 20 ->
  rv (mpf_const_v (floor_at (p + 20) / D) p r) = RND r p (c / IZR D).
Proof.
  intros Hp. pose proof HQK as HQK'. pose proof HD as HD'. pose proof (Hprec p Hp) as Hok. unfold prec_ok in Hok. cbv zeta in Hok.
  rewrite andb_true_iff, negb_true_iff in Hok. destruct Hok as [H1 H2].
  apply Z.leb_le in H1. apply Z.eqb_neq in H2.
  apply def_constant_round; [lia| |exact H1|intros _; exact H2].
  assert (HK : 0 <= K) by lia.
  pose proof (encl_frac c A K Henc (p + 20) ltac:(lia)) as Hf.
  pose proof (div_frac _ _ D HD Hf) as Hd. unfold floor_at.
  replace (c / IZR D * bpow radix2 (p + 20))%R with (c * bpow radix2 (p + 20) / IZR D)%R by (unfold Rdiv; ring).
  exact Hd.
Qed.

(* X_fixed as seen by def_mpf_constant after the request history h (D = 180 for degree_fixed = pi_fixed // 180) *)
Definition served (h : list Z) : Z -> Z := fun wp => answer (lookup t) np105 h wp / D.

(* main theorem: every history, every public precision, every rounding mode *)
Theorem const_all_histories h p r :
  Forall (fun x => 0 <= x <= Q) h -> 1 <= p <= Q - 20 ->
  rv (mpf_const (served h) p r) = RND r p (c / IZR D).
Proof.
  intros Hh Hp. pose proof HQK as HQK'. pose proof HD as HD'. unfold mpf_const, served. set (q := p + 20).
  assert (Hq : 0 <= q <= Q) by (unfold q; lia).
  pose proof (Hnp q Hq) as Hq'. unfold np_ok in Hq'. rewrite andb_true_iff in Hq'. destruct Hq' as [Hge _].
  apply Z.leb_le in Hge.
  destruct (memo_served (lookup t) np105 h q Hge) as [m [[q0 [Hin Hm]] [Hle Ha]]].
  assert (Hq0 : 0 <= q0 <= Q).
  { destruct Hin as [<-|Hin]; [exact Hq|]. rewrite Forall_forall in Hh. apply Hh. exact Hin. }
  pose proof (Hnp q0 Hq0) as H0. unfold np_ok in H0. rewrite andb_true_iff in H0. destruct H0 as [_ Hex].
  rewrite <- Hm in Hex. pose proof (Hent _ (lookup_in t m Hex)) as He. unfold entry_ok in He. cbv zeta in He.
  rewrite !andb_true_iff in He. destruct He as [[Hm0 HmK] Hv]. apply Z.leb_le in Hm0. apply Z.leb_le in HmK.
  rewrite <- (from_floor_correct p r Hp). fold q.
  assert (Hfl : Z.shiftr (Z.shiftr A (K - m)) (m - q) = floor_at q).
  { unfold floor_at. rewrite shiftr_shiftr_add by lia. f_equal. lia. }
  rewrite Ha. rewrite orb_true_iff in Hv. destruct Hv as [Hv|Hv].
  - apply Z.eqb_eq in Hv. rewrite Hv, Hfl. reflexivity.
  - destruct (bad_ok_spec _ _ _ _ _ _ 0 ltac:(lia) Hv (m - q) ltac:(lia)) as [E|E].
    + rewrite E, Hfl. reflexivity.
    + replace (m - (m - q)) with q in E by lia.
      destruct (Z.ltb_spec q 21) as [?|_]; [unfold q in *; lia|].
      destruct (Z.ltb_spec Q q) as [?|_]; [lia|]. cbn [orb] in E.
      unfold final_eq in E. rewrite forallb_forall in E. specialize (E r (in_modes r)).
      apply mpf_eqb_eq in E. rewrite Hfl in E. unfold q in E. replace (p + 20 - 20) with p in E by lia.
      fold q in E. rewrite E. reflexivity.
Qed.

(* directed results bracket the constant: what the interval context relies on *)
Corollary const_brackets h p :
  Forall (fun x => 0 <= x <= Q) h -> 1 <= p <= Q - 20 ->
  (rv (mpf_const (served h) p RF) <= c / IZR D <= rv (mpf_const (served h) p RC))%R.
Proof.
  intros Hh Hp. rewrite !const_all_histories by assumption.
  unfold RND, Zrnd_of. split.
  - apply round_DN_pt. apply FLX_exp_valid. unfold Prec_gt_0. lia.
  - apply round_UP_pt. apply FLX_exp_valid. unfold Prec_gt_0. lia.
Qed.
End Sound.

(* ------------------------------------------------------------------------------------------------------------
   constants without a formal definition (euler, catalan, ...): only history CONSISTENCY is established.
   If every table value agrees within one unit with the top value V = f mtop shifted down, then so does every
   answer served to any request after any history. *)
Definition near1 (a b : Z) : bool := (a - b <=? 1) && (b - a <=? 1).

Definition consistent_entry (V mtop : Z) (e : Z * Z) : bool :=
  let '(m, v) := e in (0 <=? m) && (m <=? mtop) && near1 v (Z.shiftr V (mtop - m)).

Definition check_consistent (V mtop Q : Z) (t : list (Z * Z)) : bool :=
  forallb (consistent_entry V mtop) t && forallb (np_ok t) (zrange 0 (Q + 1)).

Lemma near1_shift a b k : 0 <= k -> near1 a b = true -> near1 (Z.shiftr a k) (Z.shiftr b k) = true.
Proof.
  intros Hk. unfold near1. rewrite !andb_true_iff, !Z.leb_le. intros [H1 H2].
  rewrite !Z.shiftr_div_pow2 by lia.
  assert (Hd : 0 < 2 ^ k) by (apply Z.pow_pos_nonneg; lia).
  set (d := 2 ^ k) in *.
  assert (Hm : forall x y, x <= y + 1 -> x / d <= y / d + 1).
  { intros x y Hxy. apply Z.le_trans with ((y + 1 * d) / d).
    - apply Z.div_le_mono; nia.
    - rewrite Z.div_add by lia. lia. }
  split; [pose proof (Hm a b)|pose proof (Hm b a)]; lia.
Qed.

Theorem memo_consistent V mtop Q t :
  check_consistent V mtop Q t = true ->
  forall h q, Forall (fun x => 0 <= x <= Q) h -> 0 <= q <= Q ->
    near1 (answer (lookup t) np105 h q) (Z.shiftr V (mtop - q)) = true.
Proof.
  unfold check_consistent. rewrite andb_true_iff, !forallb_forall. intros [Hent Hnp] h q Hh Hq.
  assert (Hnp' : forall x, 0 <= x <= Q -> np_ok t x = true) by (intros x Hx; apply Hnp, In_zrange; lia).
  pose proof (Hnp' q Hq) as Hq'. unfold np_ok in Hq'. rewrite andb_true_iff in Hq'. destruct Hq' as [Hge _].
  apply Z.leb_le in Hge.
  destruct (memo_served (lookup t) np105 h q Hge) as [m [[q0 [Hin Hm]] [Hle Ha]]].
  assert (Hq0 : 0 <= q0 <= Q).
  { destruct Hin as [<-|Hin]; [exact Hq|]. rewrite Forall_forall in Hh. apply Hh. exact Hin. }
  pose proof (Hnp' q0 Hq0) as H0. unfold np_ok in H0. rewrite andb_true_iff in H0. destruct H0 as [_ Hex].
  rewrite <- Hm in Hex. pose proof (Hent _ (lookup_in t m Hex)) as He. unfold consistent_entry in He.
  rewrite !andb_true_iff in He. destruct He as [[Hm0 HmK] Hv]. apply Z.leb_le in Hm0. apply Z.leb_le in HmK.
  rewrite Ha. replace (Z.shiftr V (mtop - q)) with (Z.shiftr (Z.shiftr V (mtop - m)) (m - q))
    by (rewrite shiftr_shiftr_add by lia; f_equal; lia).
  apply near1_shift; [lia|exact Hv].
Qed.

(* D = 1: the statement about c itself *)
Corollary const_all_histories_1 c A K Q t :
  (IZR A < c * bpow radix2 K < IZR (A + 1))%R -> check_const 1 A K Q t = true ->
  forall h p r, Forall (fun x => 0 <= x <= Q) h -> 1 <= p <= Q - 20 ->
    rv (mpf_const (served 1 t h) p r) = RND r p c.
Proof.
  intros Henc Hchk h p r Hh Hp. rewrite (const_all_histories c 1 A K Q t Henc Hchk h p r Hh Hp).
  f_equal. unfold Rdiv. rewrite Rinv_1. ring.
Qed.

(* the enclosure in the form proved by the Interval tactic *)
Lemma encl_of_diffs c A K : 0 <= K ->
  (0 < c - IZR A * / IZR (2 ^ K))%R -> (c - IZR (A + 1) * / IZR (2 ^ K) < 0)%R ->
  (IZR A < c * bpow radix2 K < IZR (A + 1))%R.
Proof.
  intros HK H1 H2. rewrite IZR_pow2' in H1, H2 by lia.
  assert (Hb : (0 < bpow radix2 K)%R) by apply bpow_gt_0.
  assert (Hi : (/ bpow radix2 K * bpow radix2 K = 1)%R) by (apply Rinv_l; lra).
  split.
  - replace (IZR A) with (IZR A * / bpow radix2 K * bpow radix2 K)%R by (rewrite Rmult_assoc, Hi; ring).
    apply Rmult_lt_compat_r; [exact Hb|lra].
  - replace (IZR (A + 1)) with (IZR (A + 1) * / bpow radix2 K * bpow radix2 K)%R by (rewrite Rmult_assoc, Hi; ring).
    apply Rmult_lt_compat_r; [exact Hb|lra].
Qed.
