(* Summary.v -- the theorems of the C17 development and their assumptions (output captured by harness/props/c17.py). *)
From CONST Require Import Memo DefConst Check.
Print Assumptions memo_inv.
Print Assumptions memo_served.
Print Assumptions memo_history_independent.
Print Assumptions encl_floor.
Print Assumptions encl_frac.
Print Assumptions def_constant_round.
Print Assumptions def_constant_brackets.
Print Assumptions const_all_histories.
Print Assumptions const_brackets.
Print Assumptions memo_consistent.
