(* DefConst.v -- model of mpmath.libmp.libelefun.def_mpf_constant and its rounding theorem.

     def def_mpf_constant(fixed):
         def f(prec, rnd=round_fast):
             wp = prec + 20
             v = fixed(wp)
             if rnd in (round_up, round_ceiling):
                 v += 1
             return normalize(0, v, -wp, bitcount(v), prec, rnd)

   [normalize] is the Gallina transliteration MP.Algo.Libmpf.normalize (tied to the live code by the Engine-A
   correspondence runs); RND is Flocq's  round radix2 (FLX_exp p)  with the five integer roundings
   (MP.Spec.Round).

   def_constant_round:  if v = floor (c * 2^(p+20)), c * 2^(p+20) is not an integer and v has at least p+1 bits
   (c >= 2^-20), then the value returned for rounding mode r is RND r p c  -- for r = 'n' under the additional
   hypothesis that the bits of v below the p-th are not exactly 100...0.  (Without it the statement is false:
   normalize sees a tie and rounds to even, whereas c lies strictly above the midpoint.  The hypothesis is
   decided by computation for every precision of the finite domain, see Check.v.) *)
From Coq Require Import ZArith Reals Bool Lia Lra.
From Flocq Require Import Core.
From MP Require Import Algo.Base Algo.Libmpf Spec.Mpf Spec.Round Proofs.Bits Proofs.Nearest Proofs.Normalize
  Proofs.NormRound Proofs.Sticky.
Open Scope Z_scope.

Definition bump (r : rnd) (v : Z) : Z := match r with RU | RC => v + 1 | _ => v end.

(* the body of f after `v = fixed(wp)` *)
Definition mpf_const_v (v prec : Z) (r : rnd) : mpf :=
  let wp := prec + 20 in
  let v' := bump r v in
  normalize 0 v' (- wp) (bitcount v') prec r.

Definition mpf_const (fixed : Z -> Z) (prec : Z) (r : rnd) : mpf := mpf_const_v (fixed (prec + 20)) prec r.

(* the tie pattern excluded for round-to-nearest *)
Definition not_tie (v prec : Z) : Prop :=
  v mod 2 ^ (bitcount v - prec) <> 2 ^ (bitcount v - prec - 1).

Lemma sval_pow2 e k : 0 <= k -> sval 0 (2 ^ k) e = sval 0 1 (e + k).
Proof.
  intros Hk. unfold sval. f_equal. unfold F2R; simpl Fnum; simpl Fexp.
  rewrite IZR_pow2 by lia. rewrite bpow_plus. simpl (IZR 1). ring.
Qed.

Lemma bitcount_2N1 N : 0 < N -> bitcount (2 * N + 1) = bitcount N + 1.
Proof.
  intros HN. pose proof (bitcount_spec N HN) as [B1 B2]. pose proof (bitcount_pos N HN) as Hb.
  set (b := bitcount N) in *.
  apply bitcount_unique; [lia|]. replace (b + 1 - 1) with b by lia.
  replace (2 ^ (b + 1)) with (2 * 2 ^ b) by (rewrite Z.pow_add_r by lia; ring).
  replace b with (1 + (b - 1)) at 1 by lia. rewrite Z.pow_add_r by lia. change (2 ^ 1) with 2. lia.
Qed.

(* the purely dyadic half: rounding v (or v+1 for the upward modes) at exponent e equals rounding the sticky
   representative (2v+1) at exponent e-1 *)
Lemma bump_sticky v e prec r :
  0 < prec -> 2 ^ prec <= v -> (r = RN -> not_tie v prec) ->
  RND r prec (sval 0 (bump r v) e) = RND r prec (sval 0 (2 * v + 1) (e - 1)).
Proof.
  intros Hp Hv Htie.
  assert (Hv0 : 0 < v) by (pose proof (Z.pow_pos_nonneg 2 prec ltac:(lia) ltac:(lia)); lia).
  pose proof (bitcount_spec v Hv0) as [B1 B2]. set (b := bitcount v) in *.
  assert (Hbp : prec + 1 <= b).
  { destruct (Z.lt_ge_cases prec b) as [H|H]; [lia|exfalso].
    assert (2 ^ b <= 2 ^ prec) by (apply Z.pow_le_mono_r; lia). lia. }
  set (n := b - prec). assert (Hn : 1 <= n) by (unfold n; lia).
  assert (Hd : 0 < 2 ^ n) by (apply Z.pow_pos_nonneg; lia).
  set (q := v / 2 ^ n). set (rr := v mod 2 ^ n).
  assert (Hdm : v = 2 ^ n * q + rr) by (apply Z.div_mod; lia).
  assert (Hrr : 0 <= rr < 2 ^ n) by (apply Z.mod_pos_bound; lia).
  (* right-hand side *)
  rewrite (RND_round_mant r prec 0 (2 * v + 1) (e - 1) (n + 1))
    by first [lia | (left; reflexivity) | (rewrite bitcount_2N1 by lia; fold b; unfold n; lia)].
  replace (e - 1 + (n + 1)) with (e + n) by lia.
  destruct r; cbn [bump].
  - (* RN *)
    rewrite (RND_round_mant RN prec 0 v e n) by first [lia | (left; reflexivity) | (fold b; unfold n; lia)].
    f_equal. cbn [round_mant].
    rewrite sticky_nearest' by lia. rewrite round_nearest_shift_spec by lia. unfold nearest_even_qr.
    fold q rr. specialize (Htie eq_refl). unfold not_tie in Htie. fold b n rr in Htie.
    replace (b - prec - 1) with (n - 1) in Htie by (unfold n; lia).
    destruct (Z.ltb_spec (2 ^ (n - 1)) rr); destruct (Z.eqb_spec rr (2 ^ (n - 1)));
      destruct (Z.leb_spec (2 ^ (n - 1)) rr); cbn [orb andb]; try lia; reflexivity.
  - (* RF *)
    rewrite (RND_round_mant RF prec 0 v e n) by first [lia | (left; reflexivity) | (fold b; unfold n; lia)].
    f_equal. cbn [round_mant shifts_down Z.eqb]. rewrite sticky_floor' by lia.
    rewrite Z.shiftr_div_pow2 by lia. reflexivity.
  - (* RC : v + 1 *)
    cbn [round_mant shifts_down Z.eqb negb]. rewrite sticky_ceil' by lia. fold q.
    destruct (Z.eq_dec (v + 1) (2 ^ b)) as [E|NE].
    + (* carry: v + 1 = 2^b is a power of two, hence representable *)
      rewrite E. rewrite sval_pow2 by lia. rewrite RND_exact by (cbn; lia).
      assert (Hq : q + 1 = 2 ^ prec).
      { assert (2 ^ b = 2 ^ n * 2 ^ prec) by (rewrite <- Z.pow_add_r by lia; f_equal; unfold n; lia). nia. }
      rewrite Hq. rewrite sval_pow2 by lia. f_equal. unfold n. lia.
    + assert (Hbc : bitcount (v + 1) = b) by (apply bitcount_unique; lia).
      rewrite (RND_round_mant RC prec 0 (v + 1) e n) by first [lia | (left; reflexivity) | (rewrite Hbc; unfold n; lia)].
      f_equal. cbn [round_mant shifts_down Z.eqb negb]. rewrite ceil_shift_eq by lia.
      replace (v + 1 + 2 ^ n - 1) with (2 ^ n * (q + 1) + rr) by lia.
      rewrite Z.mul_comm, Z.div_add_l by lia. rewrite Z.div_small by lia. lia.
  - (* RD *)
    rewrite (RND_round_mant RD prec 0 v e n) by first [lia | (left; reflexivity) | (fold b; unfold n; lia)].
    f_equal. cbn [round_mant shifts_down]. rewrite sticky_floor' by lia.
    rewrite Z.shiftr_div_pow2 by lia. reflexivity.
  - (* RU : v + 1 *)
    cbn [round_mant shifts_down]. rewrite sticky_ceil' by lia. fold q.
    destruct (Z.eq_dec (v + 1) (2 ^ b)) as [E|NE].
    + rewrite E. rewrite sval_pow2 by lia. rewrite RND_exact by (cbn; lia).
      assert (Hq : q + 1 = 2 ^ prec).
      { assert (2 ^ b = 2 ^ n * 2 ^ prec) by (rewrite <- Z.pow_add_r by lia; f_equal; unfold n; lia). nia. }
      rewrite Hq. rewrite sval_pow2 by lia. f_equal. unfold n. lia.
    + assert (Hbc : bitcount (v + 1) = b) by (apply bitcount_unique; lia).
      rewrite (RND_round_mant RU prec 0 (v + 1) e n) by first [lia | (left; reflexivity) | (rewrite Hbc; unfold n; lia)].
      f_equal. cbn [round_mant shifts_down]. rewrite ceil_shift_eq by lia.
      replace (v + 1 + 2 ^ n - 1) with (2 ^ n * (q + 1) + rr) by lia.
      rewrite Z.mul_comm, Z.div_add_l by lia. rewrite Z.div_small by lia. lia.
Qed.

(* the value produced from the exact floor v of c*2^(p+20) is the correct rounding of c, all five modes *)
Theorem def_constant_round c v prec r :
  0 < prec ->
  (IZR v < c * bpow radix2 (prec + 20) < IZR v + 1)%R ->
  2 ^ prec <= v ->
  (r = RN -> not_tie v prec) ->
  rv (mpf_const_v v prec r) = RND r prec c.
Proof.
  intros Hp Hc Hv Htie. unfold mpf_const_v. cbv zeta.
  assert (Hv0 : 0 < v) by (pose proof (Z.pow_pos_nonneg 2 prec ltac:(lia) ltac:(lia)); lia).
  rewrite normalize_round by first [lia | (left; reflexivity) | reflexivity | (destruct r; cbn [bump]; lia)].
  rewrite bump_sticky by assumption.
  set (wp := prec + 20) in *.
  set (theta := (c * bpow radix2 wp - IZR v)%R).
  assert (Hth : (0 < theta < 1)%R) by (unfold theta; lra).
  assert (Ec : c = (sgn 0 * ((IZR v + theta) * bpow radix2 (- wp)))%R).
  { unfold theta, sgn. cbn [Z.eqb]. replace (IZR v + (c * bpow radix2 wp - IZR v))%R with (c * bpow radix2 wp)%R by ring.
    rewrite Rmult_assoc, <- bpow_plus. replace (wp + - wp) with 0 by lia. simpl (bpow radix2 0). ring. }
  rewrite Ec at 1. symmetry.
  apply RND_sticky; [lia|left; reflexivity|lia| |exact Hth].
  pose proof (bitcount_spec v Hv0) as [B1 B2].
  destruct (Z.lt_ge_cases prec (bitcount v)) as [H|H]; [lia|exfalso].
  assert (2 ^ bitcount v <= 2 ^ prec) by (apply Z.pow_le_mono_r; lia). lia.
Qed.

(* consequence used for the interval constants: the floor/ceiling results bracket c *)
Corollary def_constant_brackets c v prec :
  0 < prec -> (IZR v < c * bpow radix2 (prec + 20) < IZR v + 1)%R -> 2 ^ prec <= v ->
  (rv (mpf_const_v v prec RF) <= c <= rv (mpf_const_v v prec RC))%R.
Proof.
  intros Hp Hc Hv.
  rewrite !def_constant_round with (c := c) by (try assumption; discriminate).
  unfold RND, Zrnd_of. split.
  - apply round_DN_pt. apply FLX_exp_valid. exact Hp.
  - apply round_UP_pt. apply FLX_exp_valid. exact Hp.
Qed.
