(** * Qmat: list-of-lists matrices over an abstract ring-like carrier.

    Matrices are [list (list R)] (row major).  Nothing here assumes ring axioms: the
    specification lemmas say that +, -, *, transpose, identity, diag of the model are exactly
    the elementwise ([nth]-based) textbook definitions; the [Hom] section says that every
    operation commutes with a map [phi] that commutes with the scalar operations (used to
    transport the fast [BigZ] computation to plain [Z]). *)
Require Import ZArith List Lia Bool Arith.
Import ListNotations.
Set Implicit Arguments.

Lemma nth_map_seq : forall (A : Type) (f : nat -> A) n j d, (j < n)%nat ->
  nth j (map f (seq 0 n)) d = f j.
Proof.
  intros A f n j d H.
  rewrite (nth_indep _ d (f 0%nat)) by (rewrite map_length, seq_length; exact H).
  rewrite (map_nth f (seq 0 n) 0%nat j). rewrite seq_nth by exact H. reflexivity.
Qed.

Section Mat.
  Variable R : Type.
  Variables (r0 r1 : R) (radd rsub rmul : R -> R -> R).

  Definition rsum (l : list R) : R := fold_right radd r0 l.
  Definition zipw (f : R -> R -> R) (u v : list R) : list R :=
    map (fun p => f (fst p) (snd p)) (combine u v).
  Definition dot (u v : list R) : R := rsum (zipw rmul u v).
  Definition col (j : nat) (M : list (list R)) : list R := map (fun r => nth j r r0) M.
  Definition ncols (M : list (list R)) : nat := length (hd [] M).
  Definition entry (M : list (list R)) (i j : nat) : R := nth j (nth i M []) r0.
  Definition mtransp (M : list (list R)) : list (list R) :=
    map (fun j => col j M) (seq 0 (ncols M)).
  Definition mmul (A B : list (list R)) : list (list R) :=
    map (fun r => map (fun j => dot r (col j B)) (seq 0 (ncols B))) A.
  Definition mzip (f : R -> R -> R) (A B : list (list R)) : list (list R) :=
    map (fun p => zipw f (fst p) (snd p)) (combine A B).
  Definition madd := mzip radd.
  Definition msub := mzip rsub.
  Definition mmap (f : R -> R) (M : list (list R)) : list (list R) := map (map f) M.
  Definition mid (n : nat) : list (list R) :=
    map (fun i => map (fun j => if Nat.eqb i j then r1 else r0) (seq 0 n)) (seq 0 n).
  Definition mdiag (v : list R) : list (list R) :=
    map (fun i => map (fun j => if Nat.eqb i j then nth i v r0 else r0) (seq 0 (length v)))
        (seq 0 (length v)).
  Fixpoint mpow (M : list (list R)) (k : nat) : list (list R) :=
    match k with O => mid (length M) | S k' => mmul M (mpow M k') end.
  (** rectangular r x c *)
  Definition is_rect (r c : nat) (M : list (list R)) : bool :=
    Nat.eqb (length M) r && forallb (fun row => Nat.eqb (length row) c) M.

  (** determinant by cofactor (Laplace) expansion along the first row;
      [alt_sum [x0;x1;x2;...] = x0 - (x1 - (x2 - ...)) = x0 - x1 + x2 - ...] *)
  Fixpoint drop_nth (j : nat) (l : list R) : list R :=
    match l with
    | [] => []
    | x :: t => match j with O => t | S j' => x :: drop_nth j' t end
    end.
  Definition alt_sum (l : list R) : R := fold_right rsub r0 l.
  Fixpoint det_fuel (fuel : nat) (M : list (list R)) : R :=
    match fuel with
    | O => r1
    | S f =>
      match M with
      | [] => r1
      | row :: rest =>
        alt_sum (map (fun j => rmul (nth j row r0) (det_fuel f (map (drop_nth j) rest)))
                     (seq 0 (length row)))
      end
    end.
  Definition det (M : list (list R)) : R := det_fuel (length M) M.

  (** ** Elementwise specifications *)

  Lemma nth_col : forall j M i, nth i (col j M) r0 = entry M i j.
  Proof.
    intros j M i. unfold col, entry.
    set (f := fun r : list R => nth j r r0).
    assert (H : r0 = f []) by (unfold f; destruct j; reflexivity).
    rewrite H at 1. apply map_nth.
  Qed.

  Lemma length_col : forall j M, length (col j M) = length M.
  Proof. intros; unfold col; apply map_length. Qed.

  (** transpose: (M^T)[j][i] = M[i][j] *)
  Theorem entry_mtransp : forall M i j, (j < ncols M)%nat ->
    entry (mtransp M) j i = entry M i j.
  Proof.
    intros M i j Hj. unfold entry at 1. unfold mtransp.
    rewrite nth_map_seq by exact Hj. apply nth_col.
  Qed.

  Lemma length_mtransp : forall M, length (mtransp M) = ncols M.
  Proof. intros; unfold mtransp. rewrite map_length, seq_length. reflexivity. Qed.

  (** product: (A*B)[i][j] = dot (row i of A) (column j of B) *)
  Theorem entry_mmul : forall A B i j, (i < length A)%nat -> (j < ncols B)%nat ->
    entry (mmul A B) i j = dot (nth i A []) (col j B).
  Proof.
    intros A B i j Hi Hj. unfold entry, mmul.
    rewrite (nth_indep _ [] ((fun r => map (fun j0 => dot r (col j0 B)) (seq 0 (ncols B))) []))
      by (rewrite map_length; exact Hi).
    rewrite (map_nth (fun r => map (fun j0 => dot r (col j0 B)) (seq 0 (ncols B))) A [] i).
    apply nth_map_seq. exact Hj.
  Qed.

  Lemma rsum_map_seq_shift : forall (f : nat -> R) n,
    rsum (map f (seq 1 n)) = rsum (map (fun k => f (S k)) (seq 0 n)).
  Proof. intros f n. rewrite <- seq_shift, map_map. reflexivity. Qed.

  (** dot product: sum over k < min(|u|,|v|) of u[k]*v[k] *)
  Theorem dot_spec : forall u v,
    dot u v = rsum (map (fun k => rmul (nth k u r0) (nth k v r0))
                        (seq 0 (Nat.min (length u) (length v)))).
  Proof.
    induction u as [|a u IH]; intros v.
    - reflexivity.
    - destruct v as [|b v].
      + reflexivity.
      + unfold dot, zipw in *. simpl combine. simpl map at 1. simpl length.
        simpl Nat.min. simpl seq. simpl map. simpl rsum.
        f_equal. rewrite IH. symmetry. apply rsum_map_seq_shift.
  Qed.

  (** (A*B)[i][j] = sum_k A[i][k]*B[k][j] *)
  Corollary entry_mmul_sum : forall A B i j, (i < length A)%nat -> (j < ncols B)%nat ->
    entry (mmul A B) i j =
    rsum (map (fun k => rmul (entry A i k) (entry B k j))
              (seq 0 (Nat.min (length (nth i A [])) (length B)))).
  Proof.
    intros. rewrite entry_mmul by assumption. rewrite dot_spec, length_col.
    f_equal. apply map_ext. intros k. rewrite nth_col. reflexivity.
  Qed.

  Lemma nth_zipw : forall f u v k, length u = length v -> (k < length u)%nat ->
    nth k (zipw f u v) r0 = f (nth k u r0) (nth k v r0).
  Proof.
    intros f u v k Hl Hk. unfold zipw.
    rewrite (nth_indep _ r0 ((fun p => f (fst p) (snd p)) (r0, r0)))
      by (rewrite map_length, combine_length; lia).
    rewrite (map_nth (fun p => f (fst p) (snd p)) (combine u v) (r0, r0) k).
    rewrite combine_nth by exact Hl. reflexivity.
  Qed.

  (** elementwise operations: (A op B)[i][j] = A[i][j] op B[i][j] *)
  Theorem entry_mzip : forall f A B i j, length A = length B -> (i < length A)%nat ->
    length (nth i A []) = length (nth i B []) -> (j < length (nth i A []))%nat ->
    entry (mzip f A B) i j = f (entry A i j) (entry B i j).
  Proof.
    intros f A B i j Hl Hi Hr Hj. unfold entry, mzip.
    rewrite (nth_indep _ [] ((fun p => zipw f (fst p) (snd p)) ([], [])))
      by (rewrite map_length, combine_length; lia).
    rewrite (map_nth (fun p => zipw f (fst p) (snd p)) (combine A B) ([], []) i).
    rewrite combine_nth by exact Hl. simpl fst; simpl snd.
    apply nth_zipw; assumption.
  Qed.

  Corollary entry_madd : forall A B i j, length A = length B -> (i < length A)%nat ->
    length (nth i A []) = length (nth i B []) -> (j < length (nth i A []))%nat ->
    entry (madd A B) i j = radd (entry A i j) (entry B i j).
  Proof. intros; apply entry_mzip; assumption. Qed.

  Corollary entry_msub : forall A B i j, length A = length B -> (i < length A)%nat ->
    length (nth i A []) = length (nth i B []) -> (j < length (nth i A []))%nat ->
    entry (msub A B) i j = rsub (entry A i j) (entry B i j).
  Proof. intros; apply entry_mzip; assumption. Qed.

  Theorem entry_mid : forall n i j, (i < n)%nat -> (j < n)%nat ->
    entry (mid n) i j = if Nat.eqb i j then r1 else r0.
  Proof.
    intros n i j Hi Hj. unfold entry, mid.
    rewrite nth_map_seq by exact Hi. apply nth_map_seq. exact Hj.
  Qed.

  Theorem entry_mdiag : forall v i j, (i < length v)%nat -> (j < length v)%nat ->
    entry (mdiag v) i j = if Nat.eqb i j then nth i v r0 else r0.
  Proof.
    intros v i j Hi Hj. unfold entry, mdiag.
    rewrite nth_map_seq by exact Hi. apply nth_map_seq. exact Hj.
  Qed.

  Theorem entry_mmap : forall f M i j, (i < length M)%nat -> (j < length (nth i M []))%nat ->
    entry (mmap f M) i j = f (entry M i j).
  Proof.
    intros f M i j Hi Hj. unfold entry, mmap.
    rewrite (nth_indep _ [] (map f [])) by (rewrite map_length; exact Hi).
    rewrite (map_nth (map f) M [] i).
    rewrite (nth_indep _ r0 (f r0)) by (rewrite map_length; exact Hj).
    apply map_nth.
  Qed.

  (** integer powers: A^0 = I, A^(k+1) = A * A^k (definitional) *)
  Theorem mpow_0 : forall M, mpow M 0 = mid (length M).
  Proof. reflexivity. Qed.
  Theorem mpow_S : forall M k, mpow M (S k) = mmul M (mpow M k).
  Proof. reflexivity. Qed.

  (** determinant: cofactor expansion; 1x1 and 2x2 closed forms need ring laws and are
      stated over Z in QZ.v *)
  Theorem det_cons : forall row rest,
    det (row :: rest) =
    alt_sum (map (fun j => rmul (nth j row r0) (det_fuel (length rest) (map (drop_nth j) rest)))
                 (seq 0 (length row))).
  Proof. reflexivity. Qed.

End Mat.

(** ** Homomorphisms: every matrix operation commutes with a scalar map *)
Section Hom.
  Variables (A B : Type).
  Variables (a0 a1 : A) (aadd asub amul : A -> A -> A).
  Variables (b0 b1 : B) (badd bsub bmul : B -> B -> B).
  Variable phi : A -> B.
  Hypothesis phi0 : phi a0 = b0.
  Hypothesis phi1 : phi a1 = b1.
  Hypothesis phi_add : forall x y, phi (aadd x y) = badd (phi x) (phi y).
  Hypothesis phi_sub : forall x y, phi (asub x y) = bsub (phi x) (phi y).
  Hypothesis phi_mul : forall x y, phi (amul x y) = bmul (phi x) (phi y).

  Definition mmapg (M : list (list A)) : list (list B) := map (map phi) M.

  Lemma rsum_hom : forall l, phi (rsum a0 aadd l) = rsum b0 badd (map phi l).
  Proof. induction l; simpl; [exact phi0 | rewrite phi_add, IHl; reflexivity]. Qed.

  Lemma alt_sum_hom : forall l, phi (alt_sum a0 asub l) = alt_sum b0 bsub (map phi l).
  Proof. induction l; simpl; [exact phi0 | rewrite phi_sub, IHl; reflexivity]. Qed.

  Lemma zipw_hom : forall (f : A -> A -> A) (g : B -> B -> B),
    (forall x y, phi (f x y) = g (phi x) (phi y)) ->
    forall u v, map phi (zipw f u v) = zipw g (map phi u) (map phi v).
  Proof.
    intros f g Hfg. induction u as [|x u IH]; intros [|y v]; simpl; try reflexivity.
    unfold zipw in *. simpl. rewrite Hfg, IH. reflexivity.
  Qed.

  Lemma dot_hom : forall u v,
    phi (dot a0 aadd amul u v) = dot b0 badd bmul (map phi u) (map phi v).
  Proof. intros. unfold dot. rewrite rsum_hom, (zipw_hom amul bmul phi_mul). reflexivity. Qed.

  Lemma nth_hom : forall j (r : list A), phi (nth j r a0) = nth j (map phi r) b0.
  Proof. intros. rewrite <- phi0. symmetry. apply map_nth. Qed.

  Lemma col_hom : forall j M, map phi (col a0 j M) = col b0 j (mmapg M).
  Proof.
    intros. unfold col, mmapg. rewrite !map_map. apply map_ext. intros r. apply nth_hom.
  Qed.

  Lemma ncols_hom : forall M, ncols (mmapg M) = ncols M.
  Proof. intros [|r M]; simpl; [reflexivity | unfold ncols; simpl; apply map_length]. Qed.

  Lemma length_mmapg : forall M, length (mmapg M) = length M.
  Proof. intros; apply map_length. Qed.

  Lemma mtransp_hom : forall M, mmapg (mtransp a0 M) = mtransp b0 (mmapg M).
  Proof.
    intros. unfold mtransp. rewrite ncols_hom. unfold mmapg at 1. rewrite map_map.
    apply map_ext. intros j. apply col_hom.
  Qed.

  Lemma mmul_hom : forall M N,
    mmapg (mmul a0 aadd amul M N) = mmul b0 badd bmul (mmapg M) (mmapg N).
  Proof.
    intros. unfold mmul. rewrite ncols_hom. unfold mmapg at 1 3. rewrite !map_map.
    apply map_ext. intros r. rewrite map_map. apply map_ext. intros j.
    rewrite dot_hom, col_hom. reflexivity.
  Qed.

  Lemma mzip_hom : forall (f : A -> A -> A) (g : B -> B -> B),
    (forall x y, phi (f x y) = g (phi x) (phi y)) ->
    forall M N, mmapg (mzip f M N) = mzip g (mmapg M) (mmapg N).
  Proof.
    intros f g Hfg. induction M as [|r M IH]; intros [|s N]; simpl; try reflexivity.
    unfold mzip, mmapg in *. simpl. rewrite (zipw_hom f g Hfg). f_equal. apply IH.
  Qed.

  Lemma madd_hom : forall M N, mmapg (madd aadd M N) = madd badd (mmapg M) (mmapg N).
  Proof. apply mzip_hom; exact phi_add. Qed.
  Lemma msub_hom : forall M N, mmapg (msub asub M N) = msub bsub (mmapg M) (mmapg N).
  Proof. apply mzip_hom; exact phi_sub. Qed.

  Lemma mid_hom : forall n, mmapg (mid a0 a1 n) = mid b0 b1 n.
  Proof.
    intros. unfold mid, mmapg. rewrite map_map. apply map_ext. intros i.
    rewrite map_map. apply map_ext. intros j. destruct (Nat.eqb i j); assumption.
  Qed.

  Lemma mdiag_hom : forall v, mmapg (mdiag a0 v) = mdiag b0 (map phi v).
  Proof.
    intros. unfold mdiag, mmapg. rewrite map_length, map_map. apply map_ext. intros i.
    rewrite map_map. apply map_ext. intros j. destruct (Nat.eqb i j);
      [apply nth_hom | exact phi0].
  Qed.

  Lemma mpow_hom : forall M k,
    mmapg (mpow a0 a1 aadd amul M k) = mpow b0 b1 badd bmul (mmapg M) k.
  Proof.
    intros M k. induction k; simpl.
    - rewrite length_mmapg. apply mid_hom.
    - rewrite mmul_hom, IHk. reflexivity.
  Qed.

  Lemma mmap_hom : forall (f : A -> A) (g : B -> B), (forall x, phi (f x) = g (phi x)) ->
    forall M, mmapg (mmap f M) = mmap g (mmapg M).
  Proof.
    intros f g Hfg M. unfold mmap, mmapg. rewrite !map_map. apply map_ext. intros r.
    rewrite !map_map. apply map_ext. exact Hfg.
  Qed.

  Lemma drop_nth_hom : forall j l, map phi (drop_nth j l) = drop_nth j (map phi l).
  Proof.
    intros j l; revert j. induction l as [|x l IH]; intros [|j]; simpl; try reflexivity.
    rewrite IH. reflexivity.
  Qed.

  Lemma det_fuel_hom : forall fuel M,
    phi (det_fuel a0 a1 asub amul fuel M) = det_fuel b0 b1 bsub bmul fuel (mmapg M).
  Proof.
    induction fuel as [|f IH]; intros M; simpl; [exact phi1|].
    destruct M as [|row rest]; simpl; [exact phi1|].
    rewrite alt_sum_hom, map_map, map_length. f_equal. apply map_ext. intros j.
    rewrite phi_mul, nth_hom, IH. f_equal. f_equal. unfold mmapg.
    rewrite !map_map. apply map_ext. intros r. apply drop_nth_hom.
  Qed.

  Lemma det_hom : forall M, phi (det a0 a1 asub amul M) = det b0 b1 bsub bmul (mmapg M).
  Proof. intros. unfold det. rewrite length_mmapg. apply det_fuel_hom. Qed.

  Lemma is_rect_hom : forall r c M, is_rect r c (mmapg M) = is_rect r c M.
  Proof.
    intros. unfold is_rect. rewrite length_mmapg. f_equal. unfold mmapg.
    induction M as [|x M IH]; simpl; [reflexivity|]. rewrite map_length, IH. reflexivity.
  Qed.
End Hom.
