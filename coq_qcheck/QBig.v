(** * QBig: the fast carrier (Bignums' BigZ, 63-bit machine words) and its agreement with Z. *)
Require Import ZArith List Lia Bool Arith.
From Bignums Require Import BigZ.
Require Import QC.Qmat QC.Qexpr QC.QZ.
Import ListNotations.

Definition BOps : Ops bigZ :=
  mkOps BigZ.zero BigZ.one BigZ.add BigZ.sub BigZ.mul BigZ.abs
        (fun x d => BigZ.shiftl x (BigZ.of_Z d)) BigZ.leb BigZ.eqb.

Lemma BHom : Hom BOps ZOps BigZ.to_Z.
Proof.
  constructor; simpl; intros.
  - apply BigZ.spec_0.
  - apply BigZ.spec_1.
  - apply BigZ.spec_add.
  - apply BigZ.spec_sub.
  - apply BigZ.spec_mul.
  - apply BigZ.spec_abs.
  - rewrite BigZ.spec_shiftl, BigZ.spec_of_Z. reflexivity.
  - apply BigZ.spec_leb.
  - apply BigZ.spec_eqb.
Qed.

Definition bcheck : env bigZ -> pred bigZ -> option bool := check BOps.
Definition toZ_env : env bigZ -> env Z := phiE BigZ.to_Z.
Definition toZ_pred : pred bigZ -> pred Z := pred_map BigZ.to_Z.

(** Every verdict computed on BigZ is the verdict of the reference checker over Z on the
    integer values denoted by the BigZ literals. *)
Theorem bcheck_sound : forall E p, bcheck E p = check ZOps (toZ_env E) (toZ_pred p).
Proof. intros. symmetry. apply (check_hom BHom). Qed.

(** literals of the generated instance files: Z numerals (parsed natively) injected by [of_Z] *)
Definition zb : Z -> bigZ := BigZ.of_Z.
Definition zc (a b : Z) : C bigZ := (BigZ.of_Z a, BigZ.of_Z b).
Definition zr (a : Z) : C bigZ := (BigZ.of_Z a, BigZ.zero).

Lemma zb_sound : forall a, BigZ.to_Z (zb a) = a.
Proof. intros. apply BigZ.spec_of_Z. Qed.
Lemma zc_sound : forall a b, phiC BigZ.to_Z (zc a b) = (a, b).
Proof. intros. unfold phiC, zc; simpl. rewrite !BigZ.spec_of_Z. reflexivity. Qed.
Lemma zr_sound : forall a, phiC BigZ.to_Z (zr a) = (a, 0%Z).
Proof. intros. unfold phiC, zr; simpl. rewrite BigZ.spec_of_Z. reflexivity. Qed.

Print Assumptions bcheck_sound.
