(** * Qexpr: dyadic complex matrices, an expression language for residual/identity statements,
      and a boolean checker.  Everything is parametrised by a carrier [T] of integers with
      operations [Ops T] so that the same checker runs on [BigZ] (fast, [vm_compute]) and on
      [Z] (reference); [check_hom] transports results between carriers. *)
Require Import ZArith List Lia Bool Arith.
Require Import QC.Qmat.
Import ListNotations.
Set Implicit Arguments.

Record Ops (T : Type) := mkOps {
  t0 : T; t1 : T;
  tadd : T -> T -> T; tsub : T -> T -> T; tmul : T -> T -> T;
  tabs : T -> T;
  tshl : T -> Z -> T;           (* x * 2^d, used with d >= 0 only *)
  tleb : T -> T -> bool; teqb : T -> T -> bool }.

(** ** Syntax (shared by all carriers up to the type of literals) *)
Inductive mexpr (T : Type) : Type :=
| MVar (i : nat)                       (* i-th matrix of the environment *)
| MId (n : nat)                        (* identity *)
| MAdd (a b : mexpr T) | MSub (a b : mexpr T) | MMul (a b : mexpr T)
| MT (a : mexpr T)                     (* transpose *)
| MH (a : mexpr T)                     (* conjugate transpose *)
| MConj (a : mexpr T)
| MDiag (a : mexpr T)                  (* n x 1 column -> diagonal matrix *)
| MPow (a : mexpr T) (k : nat)
| MScal (re im : T) (k : Z) (a : mexpr T)   (* multiply by the scalar (re + i im) * 2^-k *)
| MAbs (a : mexpr T)                   (* entrywise (|re|, |im|) *)
| MRe (a : mexpr T) | MIm (a : mexpr T)
| MDet (a : mexpr T).                  (* 1 x 1 matrix holding the determinant *)

Inductive sexpr (T : Type) : Type :=
| SFrob2 (m : mexpr T)                 (* squared Frobenius norm: sum of re^2 + im^2 *)
| SNorm1 (m : mexpr T)                 (* max column sum of |entries|; real matrices only *)
| SNormInf (m : mexpr T)               (* max row sum of |entries|; real matrices only *)
| SConst (t : T) (k : Z)               (* t * 2^-k *)
| SMul (a b : sexpr T) | SAdd (a b : sexpr T).

Inductive skind : Set :=
| KUpper | KLower | KUnitLower | KPerm | KPosDiag | KHess | KReal | KDiagonal
| KNonnegDesc | KAsc | KNonzero.

Inductive pred (T : Type) : Type :=
| PLe (a b : sexpr T) | PLt (a b : sexpr T)
| PMatEq (a b : mexpr T)
| PKind (k : skind) (m : mexpr T)
| PAnd (p q : pred T).

Arguments MVar {T}. Arguments MId {T}.

Section Expr.
  Variable T : Type.
  Variable O : Ops T.
  Local Notation zero := (t0 O).
  Local Notation one := (t1 O).
  Local Notation add := (tadd O).
  Local Notation sub := (tsub O).
  Local Notation mul := (tmul O).
  Local Notation abs := (tabs O).
  Local Notation shl := (tshl O).
  Local Notation leb := (tleb O).
  Local Notation eqb := (teqb O).

  (** Gaussian integers over T *)
  Definition C : Type := (T * T)%type.
  Definition c0 : C := (zero, zero).
  Definition c1 : C := (one, zero).
  Definition cadd (x y : C) : C := (add (fst x) (fst y), add (snd x) (snd y)).
  Definition csub (x y : C) : C := (sub (fst x) (fst y), sub (snd x) (snd y)).
  Definition cmul (x y : C) : C :=
    (sub (mul (fst x) (fst y)) (mul (snd x) (snd y)),
     add (mul (fst x) (snd y)) (mul (snd x) (fst y))).
  Definition cconj (x : C) : C := (fst x, sub zero (snd x)).
  Definition cnorm2 (x : C) : T := add (mul (fst x) (fst x)) (mul (snd x) (snd x)).
  Definition cshl (d : Z) (x : C) : C := (shl (fst x) d, shl (snd x) d).
  Definition cabs (x : C) : C := (abs (fst x), abs (snd x)).
  Definition cre (x : C) : C := (fst x, zero).
  Definition cim (x : C) : C := (snd x, zero).
  Definition ceqb (x y : C) : bool := eqb (fst x) (fst y) && eqb (snd x) (snd y).
  Definition czero (x : C) : bool := ceqb x c0.

  Definition mat : Type := list (list C).
  Definition smat : Type := (Z * mat)%type.      (* (k, M) denotes M * 2^-k *)
  Definition sval : Type := (T * Z)%type.        (* (t, k) denotes t * 2^-k *)

  Definition tsum (l : list T) : T := fold_right add zero l.
  Definition tmax (a b : T) : T := if leb a b then b else a.
  Definition tmaxl (l : list T) : T := fold_right tmax zero l.
  Definition tltb (a b : T) : bool := negb (leb b a).

  Definition frob2 (M : mat) : T := tsum (map (fun r => tsum (map cnorm2 r)) M).
  Definition rowabs (r : list C) : T := tsum (map (fun x => abs (fst x)) r).
  Definition norminf (M : mat) : T := tmaxl (map rowabs M).
  Definition norm1 (M : mat) : T := norminf (mtransp c0 M).

  Definition all_entries (P : nat -> nat -> C -> bool) (M : mat) : bool :=
    forallb (fun i => forallb (fun j => P i j (entry c0 M i j)) (seq 0 (ncols M)))
            (seq 0 (length M)).
  Definition is_real (M : mat) : bool := all_entries (fun _ _ x => eqb (snd x) zero) M.
  Definition same_dims (A B : mat) : bool :=
    Nat.eqb (length A) (length B) && Nat.eqb (ncols A) (ncols B).
  Definition shiftm (d : Z) (M : mat) : mat := mmap (cshl d) M.

  Fixpoint meqb_row (u v : list C) : bool :=
    match u, v with
    | [], [] => true
    | x :: u', y :: v' => ceqb x y && meqb_row u' v'
    | _, _ => false
    end.
  Fixpoint meqb (A B : mat) : bool :=
    match A, B with
    | [], [] => true
    | r :: A', s :: B' => meqb_row r s && meqb A' B'
    | _, _ => false
    end.

  Fixpoint descb (l : list T) : bool :=
    match l with
    | x :: t => match t with y :: _ => leb y x && descb t | [] => true end
    | [] => true
    end.
  Fixpoint ascb (l : list T) : bool :=
    match l with
    | x :: t => match t with y :: _ => leb x y && ascb t | [] => true end
    | [] => true
    end.

  Definition kind_check (kd : skind) (k : Z) (M : mat) : bool :=
    let uno : C := (shl one k, zero) in
    match kd with
    | KUpper => all_entries (fun i j x => Nat.leb i j || czero x) M
    | KLower => all_entries (fun i j x => Nat.leb j i || czero x) M
    | KUnitLower =>
        Nat.eqb (length M) (ncols M) &&
        all_entries (fun i j x => if Nat.ltb j i then true
                                  else if Nat.eqb i j then ceqb x uno else czero x) M
    | KPerm =>
        Nat.eqb (length M) (ncols M) &&
        all_entries (fun _ _ x => czero x || ceqb x uno) M &&
        forallb (fun r => ceqb (rsum c0 cadd r) uno) M &&
        forallb (fun r => ceqb (rsum c0 cadd r) uno) (mtransp c0 M)
    | KPosDiag =>
        all_entries (fun i j x => negb (Nat.eqb i j) || (eqb (snd x) zero && tltb zero (fst x))) M
    | KHess => all_entries (fun i j x => Nat.leb i (S j) || czero x) M
    | KReal => is_real M
    | KDiagonal => all_entries (fun i j x => Nat.eqb i j || czero x) M
    | KNonnegDesc =>
        Nat.eqb (ncols M) 1 && is_real M &&
        forallb (fun x => leb zero (fst x)) (col c0 0 M) && descb (map (@fst T T) (col c0 0 M))
    | KAsc =>
        Nat.eqb (ncols M) 1 && is_real M && ascb (map (@fst T T) (col c0 0 M))
    | KNonzero => negb (all_entries (fun _ _ x => czero x) M)
    end.

  Definition env : Type := list smat.

  Fixpoint meval (E : env) (e : mexpr T) : option smat :=
    match e with
    | MVar i =>
        match nth_error E i with
        | Some (k, M) => if is_rect (length M) (ncols M) M then Some (k, M) else None
        | None => None
        end
    | MId n => Some (0%Z, mid c0 c1 n)
    | MAdd a b =>
        match meval E a, meval E b with
        | Some (ka, A), Some (kb, B) =>
            if same_dims A B then
              let k := Z.max ka kb in
              Some (k, madd cadd (shiftm (k - ka) A) (shiftm (k - kb) B))
            else None
        | _, _ => None
        end
    | MSub a b =>
        match meval E a, meval E b with
        | Some (ka, A), Some (kb, B) =>
            if same_dims A B then
              let k := Z.max ka kb in
              Some (k, msub csub (shiftm (k - ka) A) (shiftm (k - kb) B))
            else None
        | _, _ => None
        end
    | MMul a b =>
        match meval E a, meval E b with
        | Some (ka, A), Some (kb, B) =>
            if Nat.eqb (ncols A) (length B) then Some ((ka + kb)%Z, mmul c0 cadd cmul A B)
            else None
        | _, _ => None
        end
    | MT a => match meval E a with Some (k, A) => Some (k, mtransp c0 A) | None => None end
    | MH a => match meval E a with
              | Some (k, A) => Some (k, mmap cconj (mtransp c0 A)) | None => None end
    | MConj a => match meval E a with Some (k, A) => Some (k, mmap cconj A) | None => None end
    | MDiag a =>
        match meval E a with
        | Some (k, A) => if Nat.eqb (ncols A) 1 then Some (k, mdiag c0 (col c0 0 A)) else None
        | None => None
        end
    | MPow a n =>
        match meval E a with
        | Some (k, A) =>
            if Nat.eqb (length A) (ncols A)
            then Some ((Z.of_nat n * k)%Z, mpow c0 c1 cadd cmul A n) else None
        | None => None
        end
    | MScal re im kz a =>
        match meval E a with
        | Some (k, A) => Some ((k + kz)%Z, mmap (cmul (re, im)) A)
        | None => None
        end
    | MAbs a => match meval E a with Some (k, A) => Some (k, mmap cabs A) | None => None end
    | MRe a => match meval E a with Some (k, A) => Some (k, mmap cre A) | None => None end
    | MIm a => match meval E a with Some (k, A) => Some (k, mmap cim A) | None => None end
    | MDet a =>
        match meval E a with
        | Some (k, A) =>
            if Nat.eqb (length A) (ncols A)
            then Some ((Z.of_nat (length A) * k)%Z, [[det c0 c1 csub cmul A]]) else None
        | None => None
        end
    end.

  Fixpoint seval (E : env) (s : sexpr T) : option sval :=
    match s with
    | SFrob2 m => match meval E m with Some (k, A) => Some (frob2 A, (2 * k)%Z) | None => None end
    | SNorm1 m =>
        match meval E m with
        | Some (k, A) => if is_real A then Some (norm1 A, k) else None
        | None => None
        end
    | SNormInf m =>
        match meval E m with
        | Some (k, A) => if is_real A then Some (norminf A, k) else None
        | None => None
        end
    | SConst t k => Some (t, k)
    | SMul a b =>
        match seval E a, seval E b with
        | Some (ta, ka), Some (tb, kb) => Some (mul ta tb, (ka + kb)%Z)
        | _, _ => None
        end
    | SAdd a b =>
        match seval E a, seval E b with
        | Some (ta, ka), Some (tb, kb) =>
            let k := Z.max ka kb in Some (add (shl ta (k - ka)) (shl tb (k - kb)), k)
        | _, _ => None
        end
    end.

  (** (ta,ka) <= (tb,kb)  iff  ta * 2^(k-ka) <= tb * 2^(k-kb),  k = max ka kb *)
  Definition sle (x y : sval) : bool :=
    let k := Z.max (snd x) (snd y) in leb (shl (fst x) (k - snd x)) (shl (fst y) (k - snd y)).
  Definition slt (x y : sval) : bool := negb (sle y x).

  Fixpoint check (E : env) (p : pred T) : option bool :=
    match p with
    | PLe a b => match seval E a, seval E b with
                 | Some x, Some y => Some (sle x y) | _, _ => None end
    | PLt a b => match seval E a, seval E b with
                 | Some x, Some y => Some (slt x y) | _, _ => None end
    | PMatEq a b =>
        match meval E a, meval E b with
        | Some (ka, A), Some (kb, B) =>
            let k := Z.max ka kb in
            Some (meqb (shiftm (k - ka) A) (shiftm (k - kb) B))
        | _, _ => None
        end
    | PKind kd m => match meval E m with Some (k, A) => Some (kind_check kd k A) | None => None end
    | PAnd p q => match check E p, check E q with
                  | Some x, Some y => Some (x && y) | _, _ => None end
    end.
End Expr.

(** ** Transport along a homomorphism of carriers *)
Record Hom (T1 T2 : Type) (O1 : Ops T1) (O2 : Ops T2) (phi : T1 -> T2) : Prop := mkHom {
  h0 : phi (t0 O1) = t0 O2;
  h1 : phi (t1 O1) = t1 O2;
  hadd : forall x y, phi (tadd O1 x y) = tadd O2 (phi x) (phi y);
  hsub : forall x y, phi (tsub O1 x y) = tsub O2 (phi x) (phi y);
  hmul : forall x y, phi (tmul O1 x y) = tmul O2 (phi x) (phi y);
  habs : forall x, phi (tabs O1 x) = tabs O2 (phi x);
  hshl : forall x d, phi (tshl O1 x d) = tshl O2 (phi x) d;
  hleb : forall x y, tleb O1 x y = tleb O2 (phi x) (phi y);
  heqb : forall x y, teqb O1 x y = teqb O2 (phi x) (phi y) }.

Fixpoint mexpr_map (T1 T2 : Type) (phi : T1 -> T2) (e : mexpr T1) : mexpr T2 :=
  match e with
  | MVar i => MVar i
  | MId n => MId n
  | MAdd a b => MAdd (mexpr_map phi a) (mexpr_map phi b)
  | MSub a b => MSub (mexpr_map phi a) (mexpr_map phi b)
  | MMul a b => MMul (mexpr_map phi a) (mexpr_map phi b)
  | MT a => MT (mexpr_map phi a)
  | MH a => MH (mexpr_map phi a)
  | MConj a => MConj (mexpr_map phi a)
  | MDiag a => MDiag (mexpr_map phi a)
  | MPow a k => MPow (mexpr_map phi a) k
  | MScal re im k a => MScal (phi re) (phi im) k (mexpr_map phi a)
  | MAbs a => MAbs (mexpr_map phi a)
  | MRe a => MRe (mexpr_map phi a)
  | MIm a => MIm (mexpr_map phi a)
  | MDet a => MDet (mexpr_map phi a)
  end.

Fixpoint sexpr_map (T1 T2 : Type) (phi : T1 -> T2) (s : sexpr T1) : sexpr T2 :=
  match s with
  | SFrob2 m => SFrob2 (mexpr_map phi m)
  | SNorm1 m => SNorm1 (mexpr_map phi m)
  | SNormInf m => SNormInf (mexpr_map phi m)
  | SConst t k => SConst (phi t) k
  | SMul a b => SMul (sexpr_map phi a) (sexpr_map phi b)
  | SAdd a b => SAdd (sexpr_map phi a) (sexpr_map phi b)
  end.

Fixpoint pred_map (T1 T2 : Type) (phi : T1 -> T2) (p : pred T1) : pred T2 :=
  match p with
  | PLe a b => PLe (sexpr_map phi a) (sexpr_map phi b)
  | PLt a b => PLt (sexpr_map phi a) (sexpr_map phi b)
  | PMatEq a b => PMatEq (mexpr_map phi a) (mexpr_map phi b)
  | PKind k m => PKind k (mexpr_map phi m)
  | PAnd p q => PAnd (pred_map phi p) (pred_map phi q)
  end.

Lemma forallb_ext' : forall (A : Type) (f g : A -> bool) (l : list A),
  (forall x, f x = g x) -> forallb f l = forallb g l.
Proof. intros A f g l Hfg. induction l; simpl; [reflexivity | rewrite Hfg, IHl; reflexivity]. Qed.

Section ExprHom.
  Variables (T1 T2 : Type) (O1 : Ops T1) (O2 : Ops T2) (phi : T1 -> T2).
  Hypothesis H : Hom O1 O2 phi.

  Definition phiC (x : C T1) : C T2 := (phi (fst x), phi (snd x)).
  Definition phiM (M : mat T1) : mat T2 := mmapg phiC M.
  Definition phiSM (x : smat T1) : smat T2 := (fst x, phiM (snd x)).
  Definition phiE (E : env T1) : env T2 := map phiSM E.
  Definition phiS (x : sval T1) : sval T2 := (phi (fst x), snd x).

  Lemma c0_hom : phiC (c0 O1) = c0 O2.
  Proof. unfold phiC, c0; simpl. rewrite (h0 H). reflexivity. Qed.
  Lemma c1_hom : phiC (c1 O1) = c1 O2.
  Proof. unfold phiC, c1; simpl. rewrite (h0 H), (h1 H). reflexivity. Qed.
  Lemma cadd_hom : forall x y, phiC (cadd O1 x y) = cadd O2 (phiC x) (phiC y).
  Proof. intros. unfold phiC, cadd; simpl. rewrite !(hadd H). reflexivity. Qed.
  Lemma csub_hom : forall x y, phiC (csub O1 x y) = csub O2 (phiC x) (phiC y).
  Proof. intros. unfold phiC, csub; simpl. rewrite !(hsub H). reflexivity. Qed.
  Lemma cmul_hom : forall x y, phiC (cmul O1 x y) = cmul O2 (phiC x) (phiC y).
  Proof.
    intros. unfold phiC, cmul; simpl. rewrite (hsub H), (hadd H), !(hmul H). reflexivity.
  Qed.
  Lemma cconj_hom : forall x, phiC (cconj O1 x) = cconj O2 (phiC x).
  Proof. intros. unfold phiC, cconj; simpl. rewrite (hsub H), (h0 H). reflexivity. Qed.
  Lemma cnorm2_hom : forall x, phi (cnorm2 O1 x) = cnorm2 O2 (phiC x).
  Proof. intros. unfold phiC, cnorm2; simpl. rewrite (hadd H), !(hmul H). reflexivity. Qed.
  Lemma cshl_hom : forall d x, phiC (cshl O1 d x) = cshl O2 d (phiC x).
  Proof. intros. unfold phiC, cshl; simpl. rewrite !(hshl H). reflexivity. Qed.
  Lemma cabs_hom : forall x, phiC (cabs O1 x) = cabs O2 (phiC x).
  Proof. intros. unfold phiC, cabs; simpl. rewrite !(habs H). reflexivity. Qed.
  Lemma cre_hom : forall x, phiC (cre O1 x) = cre O2 (phiC x).
  Proof. intros. unfold phiC, cre; simpl. rewrite (h0 H). reflexivity. Qed.
  Lemma cim_hom : forall x, phiC (cim O1 x) = cim O2 (phiC x).
  Proof. intros. unfold phiC, cim; simpl. rewrite (h0 H). reflexivity. Qed.
  Lemma ceqb_hom : forall x y, ceqb O1 x y = ceqb O2 (phiC x) (phiC y).
  Proof. intros. unfold phiC, ceqb; simpl. rewrite !(heqb H). reflexivity. Qed.
  Lemma czero_hom : forall x, czero O1 x = czero O2 (phiC x).
  Proof. intros. unfold czero. rewrite ceqb_hom, c0_hom. reflexivity. Qed.

  Lemma tsum_hom : forall l, phi (tsum O1 l) = tsum O2 (map phi l).
  Proof. induction l; simpl; [apply (h0 H) | rewrite (hadd H), IHl; reflexivity]. Qed.
  Lemma tmax_hom : forall a b, phi (tmax O1 a b) = tmax O2 (phi a) (phi b).
  Proof. intros. unfold tmax. rewrite <- (hleb H). destruct (tleb O1 a b); reflexivity. Qed.
  Lemma tmaxl_hom : forall l, phi (tmaxl O1 l) = tmaxl O2 (map phi l).
  Proof. induction l; simpl; [apply (h0 H) | rewrite tmax_hom, IHl; reflexivity]. Qed.
  Lemma tltb_hom : forall a b, tltb O1 a b = tltb O2 (phi a) (phi b).
  Proof. intros. unfold tltb. rewrite (hleb H). reflexivity. Qed.

  Lemma frob2_hom : forall M, phi (frob2 O1 M) = frob2 O2 (phiM M).
  Proof.
    intros. unfold frob2, phiM, mmapg. rewrite tsum_hom, !map_map. f_equal.
    apply map_ext. intros r. rewrite tsum_hom, !map_map. f_equal.
    apply map_ext. intros x. apply cnorm2_hom.
  Qed.
  Lemma rowabs_hom : forall r, phi (rowabs O1 r) = rowabs O2 (map phiC r).
  Proof.
    intros. unfold rowabs. rewrite tsum_hom, !map_map. f_equal. apply map_ext.
    intros x. apply (habs H).
  Qed.
  Lemma norminf_hom : forall M, phi (norminf O1 M) = norminf O2 (phiM M).
  Proof.
    intros. unfold norminf, phiM, mmapg. rewrite tmaxl_hom, !map_map. f_equal.
    apply map_ext. intros r. apply rowabs_hom.
  Qed.
  Lemma mtransp_phiM : forall M, phiM (mtransp (c0 O1) M) = mtransp (c0 O2) (phiM M).
  Proof. intros. unfold phiM. apply mtransp_hom. apply c0_hom. Qed.
  Lemma norm1_hom : forall M, phi (norm1 O1 M) = norm1 O2 (phiM M).
  Proof. intros. unfold norm1. rewrite norminf_hom, mtransp_phiM. reflexivity. Qed.

  Lemma length_phiM : forall M, length (phiM M) = length M.
  Proof. intros. apply length_mmapg. Qed.
  Lemma ncols_phiM : forall M, ncols (phiM M) = ncols M.
  Proof. intros. apply ncols_hom. Qed.

  Lemma entry_phiM : forall M i j, entry (c0 O2) (phiM M) i j = phiC (entry (c0 O1) M i j).
  Proof.
    intros. unfold entry, phiM, mmapg.
    change (@nil (C T2)) with (map phiC []).
    rewrite (map_nth (map phiC) M [] i). rewrite <- c0_hom. apply map_nth.
  Qed.

  Lemma all_entries_hom : forall (P1 : nat -> nat -> C T1 -> bool) (P2 : nat -> nat -> C T2 -> bool),
    (forall i j x, P1 i j x = P2 i j (phiC x)) ->
    forall M, all_entries O1 P1 M = all_entries O2 P2 (phiM M).
  Proof.
    intros P1 P2 HP M. unfold all_entries. rewrite length_phiM, ncols_phiM.
    apply forallb_ext'. intros i. apply forallb_ext'. intros j.
    rewrite entry_phiM. apply HP.
  Qed.

  Lemma is_real_hom : forall M, is_real O1 M = is_real O2 (phiM M).
  Proof.
    intros. unfold is_real. apply all_entries_hom. intros. unfold phiC; simpl.
    rewrite (heqb H), (h0 H). reflexivity.
  Qed.

  Lemma same_dims_hom : forall A B, same_dims (phiM A) (phiM B) = same_dims A B.
  Proof. intros. unfold same_dims. rewrite !length_phiM, !ncols_phiM. reflexivity. Qed.

  Lemma shiftm_hom : forall d M, phiM (shiftm O1 d M) = shiftm O2 d (phiM M).
  Proof. intros. unfold shiftm, phiM. apply mmap_hom. intros. apply cshl_hom. Qed.

  Lemma meqb_row_hom : forall u v, meqb_row O1 u v = meqb_row O2 (map phiC u) (map phiC v).
  Proof.
    induction u as [|x u IH]; destruct v as [|y v]; simpl; try reflexivity.
    rewrite ceqb_hom, IH. reflexivity.
  Qed.
  Lemma meqb_hom : forall A B, meqb O1 A B = meqb O2 (phiM A) (phiM B).
  Proof.
    induction A as [|r A IH]; destruct B as [|s B]; simpl; try reflexivity.
    rewrite meqb_row_hom, IH. reflexivity.
  Qed.

  Lemma descb_hom : forall l, descb O1 l = descb O2 (map phi l).
  Proof.
    induction l as [|x t IH]; [reflexivity|].
    destruct t as [|y t']; [reflexivity|].
    change (tleb O1 y x && descb O1 (y :: t') = tleb O2 (phi y) (phi x) && descb O2 (map phi (y :: t'))).
    rewrite (hleb H), IH. reflexivity.
  Qed.
  Lemma ascb_hom : forall l, ascb O1 l = ascb O2 (map phi l).
  Proof.
    induction l as [|x t IH]; [reflexivity|].
    destruct t as [|y t']; [reflexivity|].
    change (tleb O1 x y && ascb O1 (y :: t') = tleb O2 (phi x) (phi y) && ascb O2 (map phi (y :: t'))).
    rewrite (hleb H), IH. reflexivity.
  Qed.

  Lemma forallb_map' : forall (A B : Type) (f : B -> bool) (g : A -> B) l,
    forallb f (map g l) = forallb (fun x => f (g x)) l.
  Proof. induction l; simpl; [reflexivity | rewrite IHl; reflexivity]. Qed.

  Lemma rsumC_hom : forall r, phiC (rsum (c0 O1) (cadd O1) r) = rsum (c0 O2) (cadd O2) (map phiC r).
  Proof. intros. apply rsum_hom; [apply c0_hom | apply cadd_hom]. Qed.

  Lemma col_phiM : forall j M, map phiC (col (c0 O1) j M) = col (c0 O2) j (phiM M).
  Proof. intros. unfold phiM. apply col_hom. apply c0_hom. Qed.

  Lemma uno_hom : forall k, phiC (tshl O1 (t1 O1) k, t0 O1) = (tshl O2 (t1 O2) k, t0 O2).
  Proof. intros. unfold phiC; simpl. rewrite (hshl H), (h1 H), (h0 H). reflexivity. Qed.

  Lemma rowsum_check_hom : forall k M,
    forallb (fun r => ceqb O1 (rsum (c0 O1) (cadd O1) r) (tshl O1 (t1 O1) k, t0 O1)) M =
    forallb (fun r => ceqb O2 (rsum (c0 O2) (cadd O2) r) (tshl O2 (t1 O2) k, t0 O2)) (phiM M).
  Proof.
    intros. unfold phiM, mmapg. rewrite forallb_map'. apply forallb_ext'. intros r.
    rewrite ceqb_hom, rsumC_hom, uno_hom. reflexivity.
  Qed.

  Lemma kind_check_hom : forall kd k M, kind_check O1 kd k M = kind_check O2 kd k (phiM M).
  Proof.
    intros kd k M. destruct kd; unfold kind_check.
    - apply all_entries_hom. intros. rewrite czero_hom. reflexivity.
    - apply all_entries_hom. intros. rewrite czero_hom. reflexivity.
    - rewrite length_phiM, ncols_phiM. f_equal. apply all_entries_hom. intros.
      rewrite czero_hom, ceqb_hom, uno_hom. reflexivity.
    - rewrite length_phiM, ncols_phiM. rewrite <- mtransp_phiM, <- !rowsum_check_hom.
      f_equal. f_equal. f_equal. apply all_entries_hom. intros.
      rewrite czero_hom, ceqb_hom, uno_hom. reflexivity.
    - apply all_entries_hom. intros. unfold phiC; simpl.
      rewrite (heqb H), tltb_hom, (h0 H). reflexivity.
    - apply all_entries_hom. intros. rewrite czero_hom. reflexivity.
    - apply is_real_hom.
    - apply all_entries_hom. intros. rewrite czero_hom. reflexivity.
    - rewrite ncols_phiM, <- is_real_hom, <- col_phiM. rewrite forallb_map'.
      rewrite descb_hom. rewrite !map_map. simpl. f_equal. f_equal.
      apply forallb_ext'. intros x. rewrite (hleb H), (h0 H). reflexivity.
    - rewrite ncols_phiM, <- is_real_hom, <- col_phiM.
      rewrite ascb_hom. rewrite !map_map. reflexivity.
    - f_equal. apply all_entries_hom. intros. rewrite czero_hom. reflexivity.
  Qed.

  Lemma nth_error_phiE : forall E i, nth_error (phiE E) i = option_map phiSM (nth_error E i).
  Proof. intros. unfold phiE. apply nth_error_map. Qed.

  Lemma meval_hom : forall E e,
    meval O2 (phiE E) (mexpr_map phi e) = option_map phiSM (meval O1 E e).
  Proof.
    intros E e. induction e; simpl.
    - rewrite nth_error_phiE. destruct (nth_error E i) as [[k M]|]; simpl; [|reflexivity].
      rewrite length_phiM, ncols_phiM. unfold phiM at 1. rewrite is_rect_hom.
      destruct (is_rect (length M) (ncols M) M); reflexivity.
    - unfold phiSM; simpl. unfold phiM. rewrite (@mid_hom _ _ _ _ _ _ phiC c0_hom c1_hom). reflexivity.
    - rewrite IHe1, IHe2. destruct (meval O1 E e1) as [[ka A]|]; simpl; [|reflexivity].
      destruct (meval O1 E e2) as [[kb B]|]; simpl; [|reflexivity].
      rewrite same_dims_hom. destruct (same_dims A B); simpl; [|reflexivity].
      unfold phiSM; simpl. rewrite <- !shiftm_hom. unfold phiM.
      rewrite (@madd_hom _ _ _ _ phiC cadd_hom). reflexivity.
    - rewrite IHe1, IHe2. destruct (meval O1 E e1) as [[ka A]|]; simpl; [|reflexivity].
      destruct (meval O1 E e2) as [[kb B]|]; simpl; [|reflexivity].
      rewrite same_dims_hom. destruct (same_dims A B); simpl; [|reflexivity].
      unfold phiSM; simpl. rewrite <- !shiftm_hom. unfold phiM.
      rewrite (@msub_hom _ _ _ _ phiC csub_hom). reflexivity.
    - rewrite IHe1, IHe2. destruct (meval O1 E e1) as [[ka A]|]; simpl; [|reflexivity].
      destruct (meval O1 E e2) as [[kb B]|]; simpl; [|reflexivity].
      rewrite ncols_phiM, length_phiM. destruct (Nat.eqb (ncols A) (length B)); simpl; [|reflexivity].
      unfold phiSM; simpl. unfold phiM.
      rewrite (@mmul_hom _ _ _ _ _ _ _ _ phiC c0_hom cadd_hom cmul_hom). reflexivity.
    - rewrite IHe. destruct (meval O1 E e) as [[k A]|]; simpl; [|reflexivity].
      unfold phiSM; simpl. rewrite mtransp_phiM. reflexivity.
    - rewrite IHe. destruct (meval O1 E e) as [[k A]|]; simpl; [|reflexivity].
      unfold phiSM; simpl. rewrite <- mtransp_phiM. unfold phiM.
      rewrite (@mmap_hom _ _ phiC _ _ cconj_hom). reflexivity.
    - rewrite IHe. destruct (meval O1 E e) as [[k A]|]; simpl; [|reflexivity].
      unfold phiSM; simpl. unfold phiM. rewrite (@mmap_hom _ _ phiC _ _ cconj_hom). reflexivity.
    - rewrite IHe. destruct (meval O1 E e) as [[k A]|]; simpl; [|reflexivity].
      rewrite ncols_phiM. destruct (Nat.eqb (ncols A) 1); simpl; [|reflexivity].
      unfold phiSM; simpl. rewrite <- col_phiM. unfold phiM.
      rewrite (@mdiag_hom _ _ _ _ phiC c0_hom). reflexivity.
    - rewrite IHe. destruct (meval O1 E e) as [[kk A]|]; simpl; [|reflexivity].
      rewrite ncols_phiM, length_phiM. destruct (Nat.eqb (length A) (ncols A)); simpl; [|reflexivity].
      unfold phiSM; simpl. unfold phiM.
      rewrite (@mpow_hom _ _ _ _ _ _ _ _ _ _ phiC c0_hom c1_hom cadd_hom cmul_hom). reflexivity.
    - rewrite IHe. destruct (meval O1 E e) as [[kk A]|]; simpl; [|reflexivity].
      unfold phiSM; simpl. unfold phiM.
      rewrite (@mmap_hom _ _ phiC (cmul O1 (re, im)) (cmul O2 (phi re, phi im))); [reflexivity|].
      intros x. rewrite cmul_hom. reflexivity.
    - rewrite IHe. destruct (meval O1 E e) as [[k A]|]; simpl; [|reflexivity].
      unfold phiSM; simpl. unfold phiM. rewrite (@mmap_hom _ _ phiC _ _ cabs_hom). reflexivity.
    - rewrite IHe. destruct (meval O1 E e) as [[k A]|]; simpl; [|reflexivity].
      unfold phiSM; simpl. unfold phiM. rewrite (@mmap_hom _ _ phiC _ _ cre_hom). reflexivity.
    - rewrite IHe. destruct (meval O1 E e) as [[k A]|]; simpl; [|reflexivity].
      unfold phiSM; simpl. unfold phiM. rewrite (@mmap_hom _ _ phiC _ _ cim_hom). reflexivity.
    - rewrite IHe. destruct (meval O1 E e) as [[k A]|]; simpl; [|reflexivity].
      rewrite ncols_phiM, length_phiM. destruct (Nat.eqb (length A) (ncols A)); simpl; [|reflexivity].
      unfold phiSM; simpl. unfold phiM.
      rewrite (@det_hom _ _ _ _ _ _ _ _ _ _ phiC c0_hom c1_hom csub_hom cmul_hom). reflexivity.
  Qed.

  Lemma seval_hom : forall E s,
    seval O2 (phiE E) (sexpr_map phi s) = option_map phiS (seval O1 E s).
  Proof.
    intros E s. induction s; simpl.
    - rewrite meval_hom. destruct (meval O1 E m) as [[k A]|]; simpl; [|reflexivity].
      unfold phiS; simpl. rewrite frob2_hom. reflexivity.
    - rewrite meval_hom. destruct (meval O1 E m) as [[k A]|]; simpl; [|reflexivity].
      rewrite <- is_real_hom. destruct (is_real O1 A); simpl; [|reflexivity].
      unfold phiS; simpl. rewrite norm1_hom. reflexivity.
    - rewrite meval_hom. destruct (meval O1 E m) as [[k A]|]; simpl; [|reflexivity].
      rewrite <- is_real_hom. destruct (is_real O1 A); simpl; [|reflexivity].
      unfold phiS; simpl. rewrite norminf_hom. reflexivity.
    - reflexivity.
    - rewrite IHs1, IHs2. destruct (seval O1 E s1) as [[ta ka]|]; simpl; [|reflexivity].
      destruct (seval O1 E s2) as [[tb kb]|]; simpl; [|reflexivity].
      unfold phiS; simpl. rewrite (hmul H). reflexivity.
    - rewrite IHs1, IHs2. destruct (seval O1 E s1) as [[ta ka]|]; simpl; [|reflexivity].
      destruct (seval O1 E s2) as [[tb kb]|]; simpl; [|reflexivity].
      unfold phiS; simpl. rewrite (hadd H), !(hshl H). reflexivity.
  Qed.

  Lemma sle_hom : forall x y, sle O1 x y = sle O2 (phiS x) (phiS y).
  Proof. intros [ta ka] [tb kb]. unfold sle, phiS; simpl. rewrite (hleb H), !(hshl H). reflexivity. Qed.
  Lemma slt_hom : forall x y, slt O1 x y = slt O2 (phiS x) (phiS y).
  Proof. intros. unfold slt. rewrite sle_hom. reflexivity. Qed.

  (** Main transport theorem: the checker gives the same verdict on both carriers. *)
  Theorem check_hom : forall E p, check O2 (phiE E) (pred_map phi p) = check O1 E p.
  Proof.
    intros E p. induction p; simpl.
    - rewrite !seval_hom. destruct (seval O1 E a) as [x|]; simpl; [|reflexivity].
      destruct (seval O1 E b) as [y|]; simpl; [|reflexivity]. rewrite sle_hom. reflexivity.
    - rewrite !seval_hom. destruct (seval O1 E a) as [x|]; simpl; [|reflexivity].
      destruct (seval O1 E b) as [y|]; simpl; [|reflexivity]. rewrite slt_hom. reflexivity.
    - rewrite !meval_hom. destruct (meval O1 E a) as [[ka A]|]; simpl; [|reflexivity].
      destruct (meval O1 E b) as [[kb B]|]; simpl; [|reflexivity].
      rewrite meqb_hom, !shiftm_hom. reflexivity.
    - rewrite meval_hom. destruct (meval O1 E m) as [[kk A]|]; simpl; [|reflexivity].
      rewrite kind_check_hom. reflexivity.
    - rewrite IHp1, IHp2. reflexivity.
  Qed.
End ExprHom.
