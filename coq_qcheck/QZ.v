(** * QZ: the reference carrier Z, and what the checker's verdicts mean over Z. *)
Require Import ZArith List Lia Bool Arith.
Require Import QC.Qmat QC.Qexpr.
Import ListNotations.
Open Scope Z_scope.

Definition ZOps : Ops Z := mkOps 0 1 Z.add Z.sub Z.mul Z.abs Z.shiftl Z.leb Z.eqb.

Definition zsum (l : list Z) : Z := fold_right Z.add 0 l.
Notation CZ := (C Z).
Definition sq2 (x : CZ) : Z := fst x * fst x + snd x * snd x.

Lemma tsum_Z : forall l, tsum ZOps l = zsum l.
Proof. reflexivity. Qed.

Lemma zsum_app : forall l m, zsum (l ++ m) = zsum l + zsum m.
Proof. induction l; intros; simpl; [reflexivity | rewrite IHl; lia]. Qed.

Lemma map_seq_nth : forall (A : Type) (l : list A) d,
  map (fun i => nth i l d) (seq 0 (length l)) = l.
Proof.
  induction l as [|x l IH]; intros d; [reflexivity|].
  simpl. f_equal. rewrite <- seq_shift, map_map. apply IH.
Qed.

Arguments map_seq_nth {A}.
(** ** Frobenius norm squared = sum of squares of all entries *)
Theorem frob2_spec : forall M : list (list CZ),
  frob2 ZOps M = zsum (map sq2 (concat M)).
Proof.
  induction M as [|r M IH]; [reflexivity|].
  unfold frob2 in *. simpl. rewrite map_app, zsum_app. rewrite <- IH. reflexivity.
Qed.

(** indexed form: sum_i sum_j re(M[i][j])^2 + im(M[i][j])^2 *)
Theorem frob2_entries : forall M : list (list CZ),
  frob2 ZOps M =
  zsum (map (fun i => zsum (map (fun j => sq2 (entry (0, 0) M i j))
                                (seq 0 (length (nth i M [])))))
            (seq 0 (length M))).
Proof.
  intros M. unfold frob2. rewrite tsum_Z.
  rewrite <- (map_seq_nth M []) at 1. rewrite map_map. f_equal.
  apply map_ext. intros i. rewrite tsum_Z. unfold entry.
  rewrite <- (map_seq_nth (nth i M []) (0, 0)) at 1. rewrite map_map. reflexivity.
Qed.

Lemma sq2_nonneg : forall x, 0 <= sq2 x.
Proof. intros [a b]. unfold sq2; simpl. nia. Qed.

Lemma zsum_nonneg : forall l, (forall x, In x l -> 0 <= x) -> 0 <= zsum l.
Proof.
  induction l; intros Hl; simpl; [lia|].
  assert (0 <= a) by (apply Hl; left; reflexivity).
  assert (0 <= zsum l) by (apply IHl; intros; apply Hl; right; assumption). lia.
Qed.

Theorem frob2_nonneg : forall M : list (list CZ), 0 <= frob2 ZOps M.
Proof.
  intros. rewrite frob2_spec. apply zsum_nonneg. intros x Hx.
  apply in_map_iff in Hx. destruct Hx as [y [<- _]]. apply sq2_nonneg.
Qed.

(** squared comparison decides the comparison of the (irrational) norms *)
Theorem sq_le_iff : forall a b, 0 <= a -> 0 <= b -> (a * a <= b * b <-> a <= b).
Proof. intros; split; intros; nia. Qed.

(** ** inf-norm and 1-norm (real matrices): max row sum / max column sum of |entries| *)
Lemma rowabs_spec : forall r : list CZ, rowabs ZOps r = zsum (map (fun x => Z.abs (fst x)) r).
Proof. reflexivity. Qed.

Lemma rowabs_nonneg : forall r : list CZ, 0 <= rowabs ZOps r.
Proof.
  intros. rewrite rowabs_spec. apply zsum_nonneg. intros x Hx.
  apply in_map_iff in Hx. destruct Hx as [y [<- _]]. apply Z.abs_nonneg.
Qed.

Lemma tmax_Z : forall a b, tmax ZOps a b = Z.max a b.
Proof. intros. unfold tmax; simpl. destruct (Z.leb_spec a b); lia. Qed.

Theorem norminf_upper : forall (M : list (list CZ)) r, In r M -> rowabs ZOps r <= norminf ZOps M.
Proof.
  unfold norminf. induction M as [|s M IH]; intros r Hr; [destruct Hr|].
  simpl. rewrite tmax_Z. destruct Hr as [->|Hr]; [lia|]. specialize (IH r Hr). lia.
Qed.

Theorem norminf_attained : forall M : list (list CZ), M <> [] ->
  exists r, In r M /\ norminf ZOps M = rowabs ZOps r.
Proof.
  unfold norminf. induction M as [|s M IH]; intros Hne; [congruence|].
  simpl. rewrite tmax_Z. destruct M as [|s' M'].
  - exists s. split; [left; reflexivity|]. simpl. pose proof (rowabs_nonneg s). lia.
  - destruct IH as [r [Hin Heq]]; [discriminate|].
    destruct (Z_le_gt_dec (rowabs ZOps s) (tmaxl ZOps (map (rowabs ZOps) (s' :: M')))).
    + exists r. split; [right; exact Hin|]. rewrite <- Heq. lia.
    + exists s. split; [left; reflexivity|]. lia.
Qed.

Theorem norm1_is_norminf_transpose : forall M : list (list CZ),
  norm1 ZOps M = norminf ZOps (mtransp (0, 0) M).
Proof. reflexivity. Qed.

(** ** comparison of dyadic scalars: (ta,ka) <= (tb,kb) decides ta/2^ka <= tb/2^kb,
    i.e. the cross-multiplied integer inequality *)
Theorem sle_spec : forall ta ka tb kb, 0 <= ka -> 0 <= kb ->
  (sle ZOps (ta, ka) (tb, kb) = true <-> ta * 2 ^ kb <= tb * 2 ^ ka).
Proof.
  intros ta ka tb kb Ha Hb. unfold sle; simpl.
  rewrite Z.leb_le. rewrite !Z.shiftl_mul_pow2 by lia.
  destruct (Z.max_spec ka kb) as [[Hlt ->]|[Hge ->]].
  - replace (kb - kb) with 0 by lia. rewrite Z.pow_0_r, Z.mul_1_r.
    replace (2 ^ kb) with (2 ^ (kb - ka) * 2 ^ ka) by (rewrite <- Z.pow_add_r by lia; f_equal; lia).
    rewrite Z.mul_assoc. assert (0 < 2 ^ ka) by (apply Z.pow_pos_nonneg; lia).
    split; intros; nia.
  - replace (ka - ka) with 0 by lia. rewrite Z.pow_0_r, Z.mul_1_r.
    replace (2 ^ ka) with (2 ^ (ka - kb) * 2 ^ kb) by (rewrite <- Z.pow_add_r by lia; f_equal; lia).
    rewrite Z.mul_assoc. assert (0 < 2 ^ kb) by (apply Z.pow_pos_nonneg; lia).
    split; intros; nia.
Qed.

Theorem slt_spec : forall ta ka tb kb, 0 <= ka -> 0 <= kb ->
  (slt ZOps (ta, ka) (tb, kb) = true <-> ta * 2 ^ kb < tb * 2 ^ ka).
Proof.
  intros. unfold slt. rewrite negb_true_iff.
  pose proof (sle_spec tb kb ta ka) as Hs.
  destruct (sle ZOps (tb, kb) (ta, ka)).
  - split; [discriminate|]. intros. assert (tb * 2 ^ ka <= ta * 2 ^ kb) by (apply Hs; auto). lia.
  - split; [|reflexivity]. intros _.
    destruct (Z_lt_le_dec (ta * 2 ^ kb) (tb * 2 ^ ka)); [assumption|].
    assert (false = true) by (apply Hs; auto). discriminate.
Qed.

(** ** exact equality of matrices is decided exactly *)
Lemma ceqb_spec : forall x y : CZ, ceqb ZOps x y = true <-> x = y.
Proof.
  intros [a b] [c d]. unfold ceqb; simpl. rewrite andb_true_iff, !Z.eqb_eq.
  split; [intros [-> ->]; reflexivity | intros Heq; inversion Heq; auto].
Qed.

Lemma meqb_row_spec : forall u v : list CZ, meqb_row ZOps u v = true <-> u = v.
Proof.
  induction u as [|x u IH]; destruct v as [|y v]; simpl; try (split; [discriminate|congruence]).
  - split; reflexivity.
  - rewrite andb_true_iff, ceqb_spec, IH. split; [intros [-> ->]; reflexivity|].
    intros Heq; inversion Heq; auto.
Qed.

Theorem meqb_spec : forall A B : list (list CZ), meqb ZOps A B = true <-> A = B.
Proof.
  induction A as [|r A IH]; destruct B as [|s B]; simpl; try (split; [discriminate|congruence]).
  - split; reflexivity.
  - rewrite andb_true_iff, meqb_row_spec, IH. split; [intros [-> ->]; reflexivity|].
    intros Heq; inversion Heq; auto.
Qed.

(** the exact-solution check:  a passing [PMatEq] means the two sides, brought to the common
    scale 2^-k, are equal as integer matrices *)
Theorem check_mateq_sound : forall E a b,
  check ZOps E (PMatEq a b) = Some true ->
  exists ka A kb B, meval ZOps E a = Some (ka, A) /\ meval ZOps E b = Some (kb, B) /\
    shiftm ZOps (Z.max ka kb - ka) A = shiftm ZOps (Z.max ka kb - kb) B.
Proof.
  intros E a b Hc. simpl in Hc.
  destruct (meval ZOps E a) as [[ka A]|]; [|discriminate].
  destruct (meval ZOps E b) as [[kb B]|]; [|discriminate].
  exists ka, A, kb, B. repeat split; try reflexivity.
  apply meqb_spec. inversion Hc. reflexivity.
Qed.

(** ** algebraic core of the certificates *)

Lemma rect_row_length : forall (r c : nat) (M : list (list CZ)) i,
  is_rect r c M = true -> (i < r)%nat -> length (nth i M []) = c.
Proof.
  intros r c M i Hr Hi. unfold is_rect in Hr. apply andb_true_iff in Hr. destruct Hr as [Hl Hf].
  apply Nat.eqb_eq in Hl. rewrite forallb_forall in Hf.
  apply Nat.eqb_eq. apply Hf. apply nth_In. lia.
Qed.

Lemma rect_ncols : forall (r c : nat) (M : list (list CZ)),
  is_rect r c M = true -> (0 < r)%nat -> ncols M = c.
Proof.
  intros r c M Hr Hpos. unfold ncols. rewrite <- (rect_row_length r c M 0 Hr Hpos).
  destruct M; reflexivity.
Qed.

Definition csumZ (l : list CZ) : CZ := rsum (c0 ZOps) (cadd ZOps) l.

(** inverse certificate: if the checker accepted A*Y = d*I (as integer matrices) then, entry by
    entry, sum_k A[i][k]*Y[k][j] = d*delta(i,j): Y/d is a right inverse of A *)
Theorem right_inverse_entries : forall (n : nat) (A Y : list (list CZ)) (d : Z),
  is_rect n n A = true -> is_rect n n Y = true ->
  mmul (c0 ZOps) (cadd ZOps) (cmul ZOps) A Y = mmap (cmul ZOps (d, 0)) (mid (c0 ZOps) (c1 ZOps) n) ->
  forall i j, (i < n)%nat -> (j < n)%nat ->
  csumZ (map (fun k => cmul ZOps (entry (c0 ZOps) A i k) (entry (c0 ZOps) Y k j)) (seq 0 n))
  = if Nat.eqb i j then (d, 0) else (0, 0).
Proof.
  intros n A Y d HA HY Heq i j Hi Hj.
  assert (HlA : length A = n).
  { unfold is_rect in HA. apply andb_true_iff in HA. apply Nat.eqb_eq. apply HA. }
  assert (HlY : length Y = n).
  { unfold is_rect in HY. apply andb_true_iff in HY. apply Nat.eqb_eq. apply HY. }
  assert (HcY : ncols Y = n) by (apply (rect_ncols n n); [assumption | lia]).
  assert (Hi' : (i < length A)%nat) by (rewrite HlA; exact Hi).
  assert (Hj' : (j < ncols Y)%nat) by (rewrite HcY; exact Hj).
  pose proof (@entry_mmul_sum _ (c0 ZOps) (cadd ZOps) (cmul ZOps) A Y i j Hi' Hj') as Hm.
  rewrite (rect_row_length n n A i HA Hi), HlY, Nat.min_id in Hm.
  unfold csumZ. rewrite <- Hm. rewrite Heq.
  rewrite entry_mmap.
  - rewrite entry_mid by assumption. destruct (Nat.eqb i j); unfold cmul, c1, c0; simpl; f_equal; ring.
  - unfold mid. rewrite map_length, seq_length. exact Hi.
  - unfold mid. rewrite nth_map_seq by exact Hi. rewrite map_length, seq_length. exact Hj.
Qed.

(** residual form of the inverse certificate: R = I - A*X  ==>  I - R = A*X
    (elementwise subtraction on equal shapes) *)
Lemma csub_csub : forall x y : CZ, csub ZOps x (csub ZOps x y) = y.
Proof. intros [a b] [c d]. unfold csub; simpl. f_equal; ring. Qed.

Lemma zipw_csub_csub : forall u v : list CZ, length u = length v ->
  zipw (csub ZOps) u (zipw (csub ZOps) u v) = v.
Proof.
  induction u as [|x u IH]; destruct v as [|y v]; simpl; intros Hl; try discriminate; [reflexivity|].
  unfold zipw in *. simpl. rewrite csub_csub. f_equal. apply IH. lia.
Qed.

Theorem msub_msub : forall I P : list (list CZ),
  Forall2 (fun r s => length r = length s) I P ->
  msub (csub ZOps) I (msub (csub ZOps) I P) = P.
Proof.
  intros I P HF. induction HF as [|r s I P Hrs HF IH]; [reflexivity|].
  unfold msub, mzip in *. simpl. rewrite zipw_csub_csub by exact Hrs. f_equal. exact IH.
Qed.

Corollary residual_identity : forall I AX R : list (list CZ),
  Forall2 (fun r s => length r = length s) I AX ->
  R = msub (csub ZOps) I AX -> msub (csub ZOps) I R = AX.
Proof. intros I AX R HF ->. apply msub_msub. exact HF. Qed.

(** determinant (cofactor expansion along the first row): closed forms for n = 1, 2 *)
Theorem det_1 : forall a : CZ, det (c0 ZOps) (c1 ZOps) (csub ZOps) (cmul ZOps) [[a]] = a.
Proof. intros [a b]. unfold det; simpl. unfold alt_sum, csub, cmul, c1, c0; simpl. f_equal; ring. Qed.

Theorem det_2 : forall a b c d : CZ,
  det (c0 ZOps) (c1 ZOps) (csub ZOps) (cmul ZOps) [[a; b]; [c; d]] =
  csub ZOps (cmul ZOps a d) (cmul ZOps b c).
Proof.
  intros [a a'] [b b'] [c c'] [d d']. unfold det; simpl.
  unfold alt_sum, csub, cmul, c1, c0; simpl. f_equal; ring.
Qed.

(** complex multiplication / conjugation are the textbook ones *)
Theorem cmul_spec : forall a b c d : Z, cmul ZOps (a, b) (c, d) = (a * c - b * d, a * d + b * c).
Proof. reflexivity. Qed.
Theorem cconj_spec : forall a b : Z, cconj ZOps (a, b) = (a, - b).
Proof. intros. unfold cconj; simpl. f_equal. Qed.

(** ** structure tests: what a passing [kind_check] means *)
Lemma forallb_seq : forall (f : nat -> bool) n,
  forallb f (seq 0 n) = true <-> (forall i, (i < n)%nat -> f i = true).
Proof.
  intros f n. rewrite forallb_forall. split.
  - intros Hf i Hi. apply Hf. apply in_seq. lia.
  - intros Hf i Hi. apply in_seq in Hi. apply Hf. lia.
Qed.

Theorem all_entries_spec : forall (P : nat -> nat -> CZ -> bool) (M : list (list CZ)),
  all_entries ZOps P M = true <->
  (forall i j, (i < length M)%nat -> (j < ncols M)%nat -> P i j (entry (c0 ZOps) M i j) = true).
Proof.
  intros P M. unfold all_entries. rewrite forallb_seq. split.
  - intros Hf i j Hi Hj. specialize (Hf i Hi). rewrite forallb_seq in Hf. apply Hf. exact Hj.
  - intros Hf i Hi. rewrite forallb_seq. intros j Hj. apply Hf; assumption.
Qed.

Lemma czero_spec : forall x : CZ, czero ZOps x = true <-> x = (0, 0).
Proof. intros. unfold czero. apply ceqb_spec. Qed.

(** upper triangular: every entry strictly below the diagonal is exactly 0 *)
Theorem is_upper_spec : forall k (M : list (list CZ)),
  kind_check ZOps KUpper k M = true ->
  forall i j, (i < length M)%nat -> (j < ncols M)%nat -> (j < i)%nat -> entry (c0 ZOps) M i j = (0, 0).
Proof.
  intros k M Hk i j Hi Hj Hlt. simpl in Hk. rewrite all_entries_spec in Hk.
  specialize (Hk i j Hi Hj). apply orb_true_iff in Hk. destruct Hk as [Hk|Hk].
  - apply Nat.leb_le in Hk. lia.
  - apply czero_spec. exact Hk.
Qed.

Theorem is_lower_spec : forall k (M : list (list CZ)),
  kind_check ZOps KLower k M = true ->
  forall i j, (i < length M)%nat -> (j < ncols M)%nat -> (i < j)%nat -> entry (c0 ZOps) M i j = (0, 0).
Proof.
  intros k M Hk i j Hi Hj Hlt. simpl in Hk. rewrite all_entries_spec in Hk.
  specialize (Hk i j Hi Hj). apply orb_true_iff in Hk. destruct Hk as [Hk|Hk].
  - apply Nat.leb_le in Hk. lia.
  - apply czero_spec. exact Hk.
Qed.

(** unit lower triangular at scale 2^-k: square, zero above the diagonal, diagonal entries = 2^k (i.e. 1) *)
Theorem is_unit_lower_spec : forall k (M : list (list CZ)),
  kind_check ZOps KUnitLower k M = true ->
  length M = ncols M /\
  forall i j, (i < length M)%nat -> (j < ncols M)%nat ->
    ((i < j)%nat -> entry (c0 ZOps) M i j = (0, 0)) /\
    (i = j -> entry (c0 ZOps) M i j = (Z.shiftl 1 k, 0)).
Proof.
  intros k M Hk. simpl in Hk. apply andb_true_iff in Hk. destruct Hk as [Hsq Hk].
  split; [apply Nat.eqb_eq; exact Hsq|].
  rewrite all_entries_spec in Hk. intros i j Hi Hj. specialize (Hk i j Hi Hj). split.
  - intros Hlt. destruct (Nat.ltb j i) eqn:E1; [apply Nat.ltb_lt in E1; lia|].
    destruct (Nat.eqb i j) eqn:E2; [apply Nat.eqb_eq in E2; lia|]. apply czero_spec. exact Hk.
  - intros ->. rewrite Nat.ltb_irrefl, Nat.eqb_refl in Hk. apply ceqb_spec in Hk. exact Hk.
Qed.

(** permutation matrix at scale 2^-k: square, entries 0 or 2^k, every row and every column sums to 2^k *)
Theorem is_perm_matrix_spec : forall k (M : list (list CZ)),
  kind_check ZOps KPerm k M = true ->
  length M = ncols M /\
  (forall i j, (i < length M)%nat -> (j < ncols M)%nat ->
     entry (c0 ZOps) M i j = (0, 0) \/ entry (c0 ZOps) M i j = (Z.shiftl 1 k, 0)) /\
  (forall r, In r M -> csumZ r = (Z.shiftl 1 k, 0)) /\
  (forall r, In r (mtransp (c0 ZOps) M) -> csumZ r = (Z.shiftl 1 k, 0)).
Proof.
  intros k M Hk. simpl in Hk.
  apply andb_true_iff in Hk. destruct Hk as [Hk Hcols].
  apply andb_true_iff in Hk. destruct Hk as [Hk Hrows].
  apply andb_true_iff in Hk. destruct Hk as [Hsq Hent].
  split; [apply Nat.eqb_eq; exact Hsq|]. split; [|split].
  - rewrite all_entries_spec in Hent. intros i j Hi Hj. specialize (Hent i j Hi Hj).
    apply orb_true_iff in Hent. destruct Hent as [Hz|Ho].
    + left. apply czero_spec. exact Hz.
    + right. apply ceqb_spec. exact Ho.
  - rewrite forallb_forall in Hrows. intros r Hr. apply ceqb_spec. apply Hrows. exact Hr.
  - rewrite forallb_forall in Hcols. intros r Hr. apply ceqb_spec. apply Hcols. exact Hr.
Qed.

(** positive real diagonal *)
Theorem pos_diag_spec : forall k (M : list (list CZ)),
  kind_check ZOps KPosDiag k M = true ->
  forall i, (i < length M)%nat -> (i < ncols M)%nat ->
  snd (entry (c0 ZOps) M i i) = 0 /\ 0 < fst (entry (c0 ZOps) M i i).
Proof.
  intros k M Hk i Hi Hj. simpl in Hk. rewrite all_entries_spec in Hk. specialize (Hk i i Hi Hj).
  rewrite Nat.eqb_refl in Hk. simpl in Hk. apply andb_true_iff in Hk. destruct Hk as [H1 H2].
  split; [apply Z.eqb_eq; exact H1|]. unfold tltb in H2. simpl in H2.
  apply negb_true_iff in H2. apply Z.leb_gt in H2. exact H2.
Qed.

(** [orthonormal_le]: the statement certified for Q is  ||Q^H Q - I||_F^2 <= 4^(10-p); with the checker's
    semantics this is the integer inequality below (frob2 at scale 2k against 2^(2(10-p))) *)
Theorem frob_le_pow2_spec : forall (F k e : Z), 0 <= k -> 0 <= e ->
  (sle ZOps (F, 2 * k) (1, e) = true <-> F * 2 ^ e <= 2 ^ (2 * k)).
Proof.
  intros F k e Hk He. rewrite sle_spec by lia. rewrite Z.mul_1_l. reflexivity.
Qed.

Print Assumptions frob2_spec.
Print Assumptions frob2_entries.
Print Assumptions sq_le_iff.
Print Assumptions norminf_upper.
Print Assumptions norminf_attained.
Print Assumptions sle_spec.
Print Assumptions slt_spec.
Print Assumptions meqb_spec.
Print Assumptions check_mateq_sound.
Print Assumptions right_inverse_entries.
Print Assumptions residual_identity.
Print Assumptions det_2.
Print Assumptions entry_mmul_sum.
Print Assumptions entry_mtransp.
Print Assumptions entry_madd.
Print Assumptions entry_msub.
Print Assumptions check_hom.
Print Assumptions all_entries_spec.
Print Assumptions is_upper_spec.
Print Assumptions is_unit_lower_spec.
Print Assumptions is_perm_matrix_spec.
Print Assumptions pos_diag_spec.
Print Assumptions frob_le_pow2_spec.
