Qmat.vo Qmat.glob Qmat.v.beautified Qmat.required_vo: Qmat.v 
Qmat.vio: Qmat.v 
Qmat.vos Qmat.vok Qmat.required_vos: Qmat.v 
Qexpr.vo Qexpr.glob Qexpr.v.beautified Qexpr.required_vo: Qexpr.v Qmat.vo
Qexpr.vio: Qexpr.v Qmat.vio
Qexpr.vos Qexpr.vok Qexpr.required_vos: Qexpr.v Qmat.vos
QZ.vo QZ.glob QZ.v.beautified QZ.required_vo: QZ.v Qmat.vo Qexpr.vo
QZ.vio: QZ.v Qmat.vio Qexpr.vio
QZ.vos QZ.vok QZ.required_vos: QZ.v Qmat.vos Qexpr.vos
QBig.vo QBig.glob QBig.v.beautified QBig.required_vo: QBig.v Qmat.vo Qexpr.vo QZ.vo
QBig.vio: QBig.v Qmat.vio Qexpr.vio QZ.vio
QBig.vos QBig.vok QBig.required_vos: QBig.v Qmat.vos Qexpr.vos QZ.vos
