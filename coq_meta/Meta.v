(* Soundness lemmas of the "metamorphic" certificates of the Engine-B checks C18-C23.

   The installed libraries define no Gamma / Bessel / Airy function, so a value y returned by mpmath for such a
   function cannot be compared with "the" reference value inside Coq.  What can be done: take SEVERAL returned values
   that are tied together by a functional equation of the (unknown to Coq) function and show that the exact rational
   residual of the equation is larger than what the claimed tolerance allows.  The lemmas below are the (complete)
   proofs that such a residual refutes the conjunction "every involved value is within relative error e of the true
   value": they are stated for an arbitrary function G : R -> R for which the functional equation holds AT THE POINT
   USED (a per-point hypothesis: the true Gamma function satisfies it at every non-pole, whereas a universally
   quantified recurrence would be unsatisfiable because of the poles and the lemmas would be vacuous).

   "y is within e of g" is written out as  Rabs (y - g) <= e * Rabs g  everywhere (no definitions to unfold). *)
From Coq Require Import Reals Lra ZArith.
#[local] Open Scope R_scope.

(* ------------------------------------------------------------------------------------------------ basic facts *)

Lemma within_lower : forall e y g, Rabs (y - g) <= e * Rabs g -> (1 - e) * Rabs g <= Rabs y.
Proof.
  intros e y g H.
  assert (T : Rabs g <= Rabs y + Rabs (y - g)).
  { replace g with (y + - (y - g)) at 1 by ring.
    eapply Rle_trans; [apply Rabs_triang|]. rewrite Rabs_Ropp. lra. }
  lra.
Qed.

Lemma within_upper : forall e y g, Rabs (y - g) <= e * Rabs g -> Rabs y <= (1 + e) * Rabs g.
Proof.
  intros e y g H.
  replace y with (g + (y - g)) at 1 by ring.
  eapply Rle_trans; [apply Rabs_triang|]. lra.
Qed.

(* |g| <= |y| / (1 - e), in product form *)
Lemma scale_le : forall e a y g, 0 <= e < 1 -> 0 <= a -> Rabs (y - g) <= e * Rabs g ->
  (1 - e) * (a * Rabs g) <= a * Rabs y.
Proof.
  intros e a y g He Ha H. pose proof (within_lower e y g H) as L.
  replace ((1 - e) * (a * Rabs g)) with (a * ((1 - e) * Rabs g)) by ring.
  apply Rmult_le_compat_l; assumption.
Qed.

(* ------------------------------------------------------------------------------- linear three-term identities *)
(* a0*g0 + a1*g1 + a2*g2 = c with an exactly known c (recurrences: Gamma, digamma, Bessel, Legendre ...) *)

Lemma lin3_consistent : forall e c a0 a1 a2 g0 g1 g2 y0 y1 y2, 0 <= e < 1 ->
  a0 * g0 + a1 * g1 + a2 * g2 = c ->
  Rabs (y0 - g0) <= e * Rabs g0 -> Rabs (y1 - g1) <= e * Rabs g1 -> Rabs (y2 - g2) <= e * Rabs g2 ->
  (1 - e) * Rabs (a0 * y0 + a1 * y1 + a2 * y2 - c) <= e * (Rabs a0 * Rabs y0 + Rabs a1 * Rabs y1 + Rabs a2 * Rabs y2).
Proof.
  intros e c a0 a1 a2 g0 g1 g2 y0 y1 y2 He Hid H0 H1 H2.
  assert (R : Rabs (a0 * y0 + a1 * y1 + a2 * y2 - c)
              <= e * (Rabs a0 * Rabs g0 + Rabs a1 * Rabs g1 + Rabs a2 * Rabs g2)).
  { replace (a0 * y0 + a1 * y1 + a2 * y2 - c) with (a0 * (y0 - g0) + a1 * (y1 - g1) + a2 * (y2 - g2))
      by (rewrite <- Hid; ring).
    eapply Rle_trans; [apply Rabs_triang|].
    eapply Rle_trans; [apply Rplus_le_compat_r; apply Rabs_triang|].
    rewrite !Rabs_mult.
    pose proof (Rabs_pos a0); pose proof (Rabs_pos a1); pose proof (Rabs_pos a2).
    assert (Rabs a0 * Rabs (y0 - g0) <= Rabs a0 * (e * Rabs g0)) by (apply Rmult_le_compat_l; assumption).
    assert (Rabs a1 * Rabs (y1 - g1) <= Rabs a1 * (e * Rabs g1)) by (apply Rmult_le_compat_l; assumption).
    assert (Rabs a2 * Rabs (y2 - g2) <= Rabs a2 * (e * Rabs g2)) by (apply Rmult_le_compat_l; assumption).
    lra. }
  pose proof (scale_le e (Rabs a0) y0 g0 He (Rabs_pos a0) H0).
  pose proof (scale_le e (Rabs a1) y1 g1 He (Rabs_pos a1) H1).
  pose proof (scale_le e (Rabs a2) y2 g2 He (Rabs_pos a2) H2).
  pose proof (Rabs_pos (a0 * y0 + a1 * y1 + a2 * y2 - c)).
  assert (0 <= 1 - e) by lra.
  assert ((1 - e) * Rabs (a0 * y0 + a1 * y1 + a2 * y2 - c)
          <= (1 - e) * (e * (Rabs a0 * Rabs g0 + Rabs a1 * Rabs g1 + Rabs a2 * Rabs g2)))
    by (apply Rmult_le_compat_l; assumption).
  assert (e * ((1 - e) * (Rabs a0 * Rabs g0)) <= e * (Rabs a0 * Rabs y0)) by (apply Rmult_le_compat_l; lra).
  assert (e * ((1 - e) * (Rabs a1 * Rabs g1)) <= e * (Rabs a1 * Rabs y1)) by (apply Rmult_le_compat_l; lra).
  assert (e * ((1 - e) * (Rabs a2 * Rabs g2)) <= e * (Rabs a2 * Rabs y2)) by (apply Rmult_le_compat_l; lra).
  lra.
Qed.

Lemma lin3_violation : forall e c a0 a1 a2 g0 g1 g2 y0 y1 y2, 0 <= e < 1 ->
  a0 * g0 + a1 * g1 + a2 * g2 = c ->
  e * (Rabs a0 * Rabs y0 + Rabs a1 * Rabs y1 + Rabs a2 * Rabs y2) < (1 - e) * Rabs (a0 * y0 + a1 * y1 + a2 * y2 - c) ->
  ~ (Rabs (y0 - g0) <= e * Rabs g0 /\ Rabs (y1 - g1) <= e * Rabs g1 /\ Rabs (y2 - g2) <= e * Rabs g2).
Proof.
  intros e c a0 a1 a2 g0 g1 g2 y0 y1 y2 He Hid Hres [H0 [H1 H2]].
  pose proof (lin3_consistent e c a0 a1 a2 g0 g1 g2 y0 y1 y2 He Hid H0 H1 H2). lra.
Qed.

(* two-term form (the third term is absent) *)
Lemma lin2_violation : forall e c a0 a1 g0 g1 y0 y1, 0 <= e < 1 ->
  a0 * g0 + a1 * g1 = c ->
  e * (Rabs a0 * Rabs y0 + Rabs a1 * Rabs y1) < (1 - e) * Rabs (a0 * y0 + a1 * y1 - c) ->
  ~ (Rabs (y0 - g0) <= e * Rabs g0 /\ Rabs (y1 - g1) <= e * Rabs g1).
Proof.
  intros e c a0 a1 g0 g1 y0 y1 He Hid Hres [H0 H1].
  assert (Hid3 : a0 * g0 + a1 * g1 + 0 * 0 = c) by (rewrite <- Hid; ring).
  assert (Hz : Rabs (0 - 0) <= e * Rabs 0) by (rewrite Rminus_0_r, Rabs_R0; lra).
  pose proof (lin3_consistent e c a0 a1 0 g0 g1 0 y0 y1 0 He Hid3 H0 H1 Hz) as L.
  rewrite Rabs_R0 in L.
  replace (a0 * y0 + a1 * y1 + 0 * 0 - c) with (a0 * y0 + a1 * y1 - c) in L by ring. lra.
Qed.

(* --------------------------------------------------------------------------------- products: g1 * g2 = c * g3 *)
(* reflection (g3 = 1, c = PI / sin (PI x)) and duplication (c = 2^(1-2x) sqrt PI, g3 = G (2x)) *)

Lemma prod_err : forall e y1 y2 g1 g2, 0 <= e ->
  Rabs (y1 - g1) <= e * Rabs g1 -> Rabs (y2 - g2) <= e * Rabs g2 ->
  Rabs (y1 * y2 - g1 * g2) <= (2 * e + e * e) * (Rabs g1 * Rabs g2).
Proof.
  intros e y1 y2 g1 g2 He H1 H2.
  replace (y1 * y2 - g1 * g2) with ((y1 - g1) * g2 + g1 * (y2 - g2) + (y1 - g1) * (y2 - g2)) by ring.
  eapply Rle_trans; [apply Rabs_triang|].
  eapply Rle_trans; [apply Rplus_le_compat_r; apply Rabs_triang|].
  rewrite !Rabs_mult.
  pose proof (Rabs_pos g1); pose proof (Rabs_pos g2); pose proof (Rabs_pos (y1 - g1)); pose proof (Rabs_pos (y2 - g2)).
  assert (Rabs (y1 - g1) * Rabs g2 <= e * Rabs g1 * Rabs g2) by (apply Rmult_le_compat_r; assumption).
  assert (Rabs g1 * Rabs (y2 - g2) <= Rabs g1 * (e * Rabs g2)) by (apply Rmult_le_compat_l; assumption).
  assert (Rabs (y1 - g1) * Rabs (y2 - g2) <= (e * Rabs g1) * (e * Rabs g2)).
  { apply Rmult_le_compat; assumption. }
  lra.
Qed.

Lemma prod3_consistent : forall e c g1 g2 g3 y1 y2 y3, 0 <= e < 1 ->
  g1 * g2 = c * g3 ->
  Rabs (y1 - g1) <= e * Rabs g1 -> Rabs (y2 - g2) <= e * Rabs g2 -> Rabs (y3 - g3) <= e * Rabs g3 ->
  (1 - e) * Rabs (y1 * y2 - c * y3) <= (3 * e + e * e) * (Rabs c * Rabs y3).
Proof.
  intros e c g1 g2 g3 y1 y2 y3 He Hid H1 H2 H3.
  assert (He0 : 0 <= e) by lra.
  pose proof (prod_err e y1 y2 g1 g2 He0 H1 H2) as P.
  assert (Q : Rabs g1 * Rabs g2 = Rabs c * Rabs g3) by (rewrite <- !Rabs_mult; rewrite Hid; reflexivity).
  rewrite Q in P.
  assert (R : Rabs (y1 * y2 - c * y3) <= (3 * e + e * e) * (Rabs c * Rabs g3)).
  { replace (y1 * y2 - c * y3) with ((y1 * y2 - g1 * g2) + - (c * (y3 - g3))) by (rewrite Hid; ring).
    eapply Rle_trans; [apply Rabs_triang|]. rewrite Rabs_Ropp, Rabs_mult.
    assert (Rabs c * Rabs (y3 - g3) <= Rabs c * (e * Rabs g3)) by (apply Rmult_le_compat_l; [apply Rabs_pos | assumption]).
    lra. }
  pose proof (scale_le e (Rabs c) y3 g3 He (Rabs_pos c) H3) as S.
  assert (0 <= 1 - e) by lra.
  assert (0 <= 3 * e + e * e) by (assert (0 <= e * e) by (apply Rmult_le_pos; lra); lra).
  assert ((1 - e) * Rabs (y1 * y2 - c * y3) <= (1 - e) * ((3 * e + e * e) * (Rabs c * Rabs g3)))
    by (apply Rmult_le_compat_l; assumption).
  assert ((3 * e + e * e) * ((1 - e) * (Rabs c * Rabs g3)) <= (3 * e + e * e) * (Rabs c * Rabs y3))
    by (apply Rmult_le_compat_l; assumption).
  lra.
Qed.

Lemma prod3_violation : forall e c g1 g2 g3 y1 y2 y3, 0 <= e < 1 ->
  g1 * g2 = c * g3 ->
  (3 * e + e * e) * (Rabs c * Rabs y3) < (1 - e) * Rabs (y1 * y2 - c * y3) ->
  ~ (Rabs (y1 - g1) <= e * Rabs g1 /\ Rabs (y2 - g2) <= e * Rabs g2 /\ Rabs (y3 - g3) <= e * Rabs g3).
Proof.
  intros e c g1 g2 g3 y1 y2 y3 He Hid Hres [H1 [H2 H3]].
  pose proof (prod3_consistent e c g1 g2 g3 y1 y2 y3 He Hid H1 H2 H3). lra.
Qed.

(* two-factor form with a known right-hand side: g1 * g2 = c *)
Lemma prod2_consistent : forall e c g1 g2 y1 y2, 0 <= e ->
  g1 * g2 = c ->
  Rabs (y1 - g1) <= e * Rabs g1 -> Rabs (y2 - g2) <= e * Rabs g2 ->
  Rabs (y1 * y2 - c) <= (2 * e + e * e) * Rabs c.
Proof.
  intros e c g1 g2 y1 y2 He Hid H1 H2.
  pose proof (prod_err e y1 y2 g1 g2 He H1 H2) as P.
  rewrite <- Rabs_mult, Hid in P. exact P.
Qed.

Lemma prod2_violation : forall e c g1 g2 y1 y2, 0 <= e ->
  g1 * g2 = c ->
  (2 * e + e * e) * Rabs c < Rabs (y1 * y2 - c) ->
  ~ (Rabs (y1 - g1) <= e * Rabs g1 /\ Rabs (y2 - g2) <= e * Rabs g2).
Proof.
  intros e c g1 g2 y1 y2 He Hid Hres [H1 H2].
  pose proof (prod2_consistent e c g1 g2 y1 y2 He Hid H1 H2). lra.
Qed.

(* --------------------------------------------------------------------------- Wronskian: g1*g4 - g2*g3 = c *)

Lemma wronskian_consistent : forall e c g1 g2 g3 g4 y1 y2 y3 y4, 0 <= e < 1 ->
  g1 * g4 - g2 * g3 = c ->
  Rabs (y1 - g1) <= e * Rabs g1 -> Rabs (y2 - g2) <= e * Rabs g2 ->
  Rabs (y3 - g3) <= e * Rabs g3 -> Rabs (y4 - g4) <= e * Rabs g4 ->
  (1 - e) * (1 - e) * Rabs (y1 * y4 - y2 * y3 - c)
    <= (2 * e + e * e) * (Rabs y1 * Rabs y4 + Rabs y2 * Rabs y3).
Proof.
  intros e c g1 g2 g3 g4 y1 y2 y3 y4 He Hid H1 H2 H3 H4.
  assert (He0 : 0 <= e) by lra.
  pose proof (prod_err e y1 y4 g1 g4 He0 H1 H4) as P.
  pose proof (prod_err e y2 y3 g2 g3 He0 H2 H3) as Q.
  assert (R : Rabs (y1 * y4 - y2 * y3 - c) <= (2 * e + e * e) * (Rabs g1 * Rabs g4 + Rabs g2 * Rabs g3)).
  { replace (y1 * y4 - y2 * y3 - c) with ((y1 * y4 - g1 * g4) + - (y2 * y3 - g2 * g3)) by (rewrite <- Hid; ring).
    eapply Rle_trans; [apply Rabs_triang|]. rewrite Rabs_Ropp. lra. }
  pose proof (within_lower e y1 g1 H1) as L1. pose proof (within_lower e y2 g2 H2) as L2.
  pose proof (within_lower e y3 g3 H3) as L3. pose proof (within_lower e y4 g4 H4) as L4.
  assert (E : 0 <= 1 - e) by lra.
  assert (A : ((1 - e) * Rabs g1) * ((1 - e) * Rabs g4) <= Rabs y1 * Rabs y4).
  { apply Rmult_le_compat; try assumption; apply Rmult_le_pos; try assumption; apply Rabs_pos. }
  assert (B : ((1 - e) * Rabs g2) * ((1 - e) * Rabs g3) <= Rabs y2 * Rabs y3).
  { apply Rmult_le_compat; try assumption; apply Rmult_le_pos; try assumption; apply Rabs_pos. }
  assert (K : 0 <= 2 * e + e * e) by (assert (0 <= e * e) by (apply Rmult_le_pos; lra); lra).
  assert (EE : 0 <= (1 - e) * (1 - e)) by (apply Rmult_le_pos; assumption).
  assert ((1 - e) * (1 - e) * Rabs (y1 * y4 - y2 * y3 - c)
          <= (1 - e) * (1 - e) * ((2 * e + e * e) * (Rabs g1 * Rabs g4 + Rabs g2 * Rabs g3)))
    by (apply Rmult_le_compat_l; assumption).
  assert ((2 * e + e * e) * (((1 - e) * Rabs g1) * ((1 - e) * Rabs g4) + ((1 - e) * Rabs g2) * ((1 - e) * Rabs g3))
          <= (2 * e + e * e) * (Rabs y1 * Rabs y4 + Rabs y2 * Rabs y3))
    by (apply Rmult_le_compat_l; lra).
  lra.
Qed.

Lemma wronskian_violation : forall e c g1 g2 g3 g4 y1 y2 y3 y4, 0 <= e < 1 ->
  g1 * g4 - g2 * g3 = c ->
  (2 * e + e * e) * (Rabs y1 * Rabs y4 + Rabs y2 * Rabs y3) < (1 - e) * (1 - e) * Rabs (y1 * y4 - y2 * y3 - c) ->
  ~ (Rabs (y1 - g1) <= e * Rabs g1 /\ Rabs (y2 - g2) <= e * Rabs g2 /\
     Rabs (y3 - g3) <= e * Rabs g3 /\ Rabs (y4 - g4) <= e * Rabs g4).
Proof.
  intros e c g1 g2 g3 g4 y1 y2 y3 y4 He Hid Hres [H1 [H2 [H3 H4]]].
  pose proof (wronskian_consistent e c g1 g2 g3 g4 y1 y2 y3 y4 He Hid H1 H2 H3 H4). lra.
Qed.

(* ------------------------------------------------------------------------------------ the Gamma-shaped forms *)

Section GammaLike.
  Variable G : R -> R.

  (* recurrence G(x+1) = x G(x) at the point x *)
  Lemma gamma_rec_consistent : forall x y1 y2 e, 0 <= e < 1 ->
    G (x + 1) = x * G x ->
    Rabs (y1 - G x) <= e * Rabs (G x) -> Rabs (y2 - G (x + 1)) <= e * Rabs (G (x + 1)) ->
    (1 - e) * Rabs (y2 - x * y1) <= e * (Rabs y2 + Rabs x * Rabs y1).
  Proof.
    intros x y1 y2 e He Hrec H1 H2.
    pose proof (lin3_consistent e 0 1 (- x) 0 (G (x + 1)) (G x) 0 y2 y1 0 He) as L.
    assert (Hid : 1 * G (x + 1) + - x * G x + 0 * 0 = 0) by (rewrite Hrec; ring).
    assert (H0 : Rabs (0 - 0) <= e * Rabs 0) by (rewrite Rminus_0_r, Rabs_R0; lra).
    specialize (L Hid H2 H1 H0).
    replace (1 * y2 + - x * y1 + 0 * 0 - 0) with (y2 - x * y1) in L by ring.
    rewrite Rabs_R1, Rabs_Ropp, Rabs_R0 in L. lra.
  Qed.

  Lemma gamma_rec_violation : forall x y1 y2 e, 0 <= e < 1 ->
    G (x + 1) = x * G x ->
    e * (Rabs y2 + Rabs x * Rabs y1) < (1 - e) * Rabs (y2 - x * y1) ->
    ~ (Rabs (y1 - G x) <= e * Rabs (G x) /\ Rabs (y2 - G (x + 1)) <= e * Rabs (G (x + 1))).
  Proof.
    intros x y1 y2 e He Hrec Hres [H1 H2].
    pose proof (gamma_rec_consistent x y1 y2 e He Hrec H1 H2). lra.
  Qed.

  (* reflection G(x) G(1-x) = PI / sin (PI x) at the point x *)
  Lemma gamma_reflection_violation : forall x y1 y2 e, 0 <= e ->
    G x * G (1 - x) = PI / sin (PI * x) ->
    (2 * e + e * e) * Rabs (PI / sin (PI * x)) < Rabs (y1 * y2 - PI / sin (PI * x)) ->
    ~ (Rabs (y1 - G x) <= e * Rabs (G x) /\ Rabs (y2 - G (1 - x)) <= e * Rabs (G (1 - x))).
  Proof.
    intros x y1 y2 e He Hid Hres. exact (prod2_violation e _ _ _ y1 y2 He Hid Hres).
  Qed.

  (* duplication G(x) G(x+1/2) = c G(2x) with c = 2^(1-2x) sqrt PI written as exp ((1-2x) ln 2) * sqrt PI *)
  Lemma gamma_duplication_violation : forall x y1 y2 y3 e, 0 <= e < 1 ->
    G x * G (x + / 2) = (exp ((1 - 2 * x) * ln 2) * sqrt PI) * G (2 * x) ->
    (3 * e + e * e) * (Rabs (exp ((1 - 2 * x) * ln 2) * sqrt PI) * Rabs y3)
      < (1 - e) * Rabs (y1 * y2 - (exp ((1 - 2 * x) * ln 2) * sqrt PI) * y3) ->
    ~ (Rabs (y1 - G x) <= e * Rabs (G x) /\ Rabs (y2 - G (x + / 2)) <= e * Rabs (G (x + / 2)) /\
       Rabs (y3 - G (2 * x)) <= e * Rabs (G (2 * x))).
  Proof.
    intros x y1 y2 y3 e He Hid Hres. exact (prod3_violation e _ _ _ _ y1 y2 y3 He Hid Hres).
  Qed.
End GammaLike.

(* ---------------------------------------------------------------------------------- exact factorial over Z *)
(* zprod fuel lo hi = (lo+1) * (lo+2) * ... * hi by binary splitting (fuel 64 suffices for hi - lo < 2^64). *)
#[local] Open Scope Z_scope.
Fixpoint zprod (fuel : nat) (lo hi : Z) : Z :=
  match fuel with
  | O => 1
  | S f => if hi - lo <=? 1 then (if hi <=? lo then 1 else hi)
           else zprod f lo ((lo + hi) / 2) * zprod f ((lo + hi) / 2) hi
  end.
Definition zfact (n : Z) : Z := zprod 64 0 n.

Lemma zfact_small : (zfact 0 = 1 /\ zfact 1 = 1 /\ zfact 5 = 120 /\ zfact 10 = 3628800 /\ zfact 20 = 2432902008176640000).
Proof. vm_compute. repeat split. Qed.

(* zfact is the factorial: tied to the unary Coq.Arith factorial `fact` *)
From Coq Require Import Lia Arith.
Lemma zprod_spec : forall fuel lo hi, 0 <= lo <= hi -> 2 * (hi - lo) <= 2 ^ Z.of_nat fuel ->
  Z.of_nat (fact (Z.to_nat lo)) * zprod fuel lo hi = Z.of_nat (fact (Z.to_nat hi)).
Proof.
  induction fuel as [|f IH]; intros lo hi Hl Hd.
  - change (2 ^ Z.of_nat 0) with 1 in Hd. assert (hi = lo) by lia. subst. cbn [zprod]. lia.
  - cbn [zprod].
    destruct (Z.leb_spec (hi - lo) 1) as [H1|H1].
    + destruct (Z.leb_spec hi lo) as [H2|H2].
      * assert (hi = lo) by lia. subst. lia.
      * assert (hi = lo + 1) by lia. subst hi.
        replace (Z.to_nat (lo + 1)) with (S (Z.to_nat lo)) by lia.
        change (fact (S (Z.to_nat lo))) with (S (Z.to_nat lo) * fact (Z.to_nat lo))%nat.
        rewrite Nat2Z.inj_mul. lia.
    + assert (P2 : 2 ^ Z.of_nat (S f) = 2 * 2 ^ Z.of_nat f) by (rewrite Nat2Z.inj_succ, Z.pow_succ_r; lia).
      rewrite P2 in Hd.
      assert (Hm : lo <= (lo + hi) / 2 <= hi /\ 2 * ((lo + hi) / 2 - lo) <= 2 ^ Z.of_nat f
                   /\ 2 * (hi - (lo + hi) / 2) <= 2 ^ Z.of_nat f).
      { pose proof (Z.div_mod (lo + hi) 2 ltac:(lia)) as D.
        pose proof (Z.mod_pos_bound (lo + hi) 2 ltac:(lia)) as B.
        destruct f as [|f'].
        - change (2 ^ Z.of_nat 0) with 1 in Hd. lia.
        - assert (P3 : 2 ^ Z.of_nat (S f') = 2 * 2 ^ Z.of_nat f') by (rewrite Nat2Z.inj_succ, Z.pow_succ_r; lia).
          rewrite P3 in *. clear IH P2 P3.
          generalize dependent ((lo + hi) / 2). generalize dependent ((lo + hi) mod 2).
          generalize dependent (2 ^ Z.of_nat f'). intros. lia. }
      destruct Hm as [Hm1 [Hm2 Hm3]].
      rewrite Z.mul_assoc, (IH lo ((lo + hi) / 2)) by lia. apply IH; lia.
Qed.

Theorem zfact_is_factorial : forall n : nat, Z.of_nat n < 2 ^ 63 -> zfact (Z.of_nat n) = Z.of_nat (fact n).
Proof.
  intros n H. unfold zfact.
  pose proof (zprod_spec 64 0 (Z.of_nat n) ltac:(lia)) as S.
  assert (P : 2 ^ Z.of_nat 64 = 2 * 2 ^ 63) by reflexivity.
  rewrite P in S. specialize (S ltac:(lia)).
  rewrite Nat2Z.id in S. change (Z.to_nat 0) with 0%nat in S. simpl fact in S. lia.
Qed.

Print Assumptions lin3_violation.
Print Assumptions lin2_violation.
Print Assumptions prod2_violation.
Print Assumptions prod3_violation.
Print Assumptions wronskian_violation.
Print Assumptions gamma_rec_violation.
Print Assumptions gamma_reflection_violation.
Print Assumptions gamma_duplication_violation.
Print Assumptions zfact_is_factorial.
