(* Isqrt.v — model of the pure-Python integer square roots of mpmath/libmp/libintmath.py
   (isqrt_small_python, isqrt_fast_python, sqrtrem_python, isqrt_python).  Model only, no proofs.

   The three places where the Python code leaves integer arithmetic (a double-precision x**0.5 that seeds each
   iteration) are inputs of the model (arguments r0 / approx): the harness evaluates exactly those source expressions of the
   live module (extracted from its AST) and passes the integers in; the theorems of Proofs/IsqrtP.v quantify over them.  *)
From Coq Require Import ZArith List Bool.
From MP Require Import Algo.Base.
Import ListNotations.
Open Scope Z_scope.

(* while 1: y = (r + x//r) >> 1; if y >= r: return r; r = y *)
Fixpoint newton (fuel : nat) (r x : Z) : option Z :=
  match fuel with
  | O => None
  | S f => let y := Z.shiftr (r + x / r) 1 in if r <=? y then Some r else newton f y x
  end.

Definition newton_fuel (r0 : Z) : nat := Z.to_nat (Z.log2 r0) + 3.

(* isqrt_small_python for 2^50 <= x: r0 is the start value computed in floating point
   (x < 2^800: int(x**0.5 * 1.00000000000001) + 1; otherwise int((x >> (2n-100))**0.5 + 2) << (n-50)) *)
Definition isqrt_small_newton (x r0 : Z) : option Z := newton (newton_fuel r0) r0 x.

(* the start value of the x >= 2^800 branch, from the integer f = int((x >> (2n-100))**0.5 + 2) *)
Definition small_big_start (x f : Z) : Z := let n := bitcount x / 2 in Z.shiftl f (n - 50).
Definition small_big_arg (x : Z) : Z := let n := bitcount x / 2 in Z.shiftr x (2 * n - 100).

(* isqrt_fast_python, x < 2^800: y = int(x**0.5) followed by up to three Newton steps *)
Definition nstep (y x : Z) : Z := Z.shiftr (y + x / y) 1.
Definition isqrt_fast_smallx (x y0 : Z) : Z :=
  if x <? 2 ^ 100 then y0 else
  let y := nstep y0 x in
  if x <? 2 ^ 200 then y else
  let y := nstep y x in
  if x <? 2 ^ 400 then y else nstep y x.

(* giant_steps(start, target) with n = 2 *)
Fixpoint gsteps (fuel : nat) (start last : Z) (acc : list Z) : list Z :=
  match fuel with
  | O => acc
  | S f => if start * 2 <? last then gsteps f start (last / 2 + 2) (last / 2 + 2 :: acc) else acc
  end.
Definition giant_steps2 (start target : Z) : list Z := gsteps (Z.to_nat (Z.log2 target) + 2) start target [target].

(* isqrt_fast_python, x >= 2^800: division-free Newton iteration for 1/sqrt(x); r0 is the floating-point start
   int(2.0**(2*startprec) * (x >> (bc-2*startprec)) ** -0.5) *)
Definition fast_prep (x : Z) : Z * Z * Z * Z :=       (* (x << 20, bc, hbc, startprec) *)
  let bc := bitcount x + 20 in
  let bc := bc + Z.land bc 1 in
  let hbc := bc / 2 in
  (Z.shiftl x 20, bc, hbc, Z.min 50 hbc).
Definition fast_start_arg (x : Z) : Z := let '(x2, bc, hbc, sp) := fast_prep x in Z.shiftr x2 (bc - 2 * sp).

Fixpoint fast_loop (ps : list Z) (x bc r pp : Z) : Z * Z :=
  match ps with
  | [] => (r, pp)
  | p :: rest =>
      let r2 := Z.shiftr (r * r) (2 * pp - p) in
      let xr2 := Z.shiftr (Z.shiftr x (bc - p) * r2) p in
      let r' := Z.shiftr (r * (Z.shiftl 3 p - xr2)) (pp + 1) in
      fast_loop rest x bc r' p
  end.
Definition isqrt_fast_bigx (x r0 : Z) : Z :=
  let '(x2, bc, hbc, sp) := fast_prep x in
  let '(r, p) := fast_loop (giant_steps2 sp hbc) x2 bc r0 sp in
  Z.shiftr (r * Z.shiftr x2 hbc) (p + 10).

(* sqrtrem_python for x >= 2^600, given approx = isqrt_fast(x):
     y = approx + 1; rem = x - y*y
     while rem < 0: y -= 1; rem += 1 + 2*y
     else:                                   (a while-else: runs whenever the loop ends without break, i.e. always)
         if rem: while rem > 2*(1+y): y += 1; rem -= 1 + 2*y                                                      *)
Fixpoint fix_down (fuel : nat) (y rem : Z) : option (Z * Z) :=
  match fuel with
  | O => None
  | S f => if rem <? 0 then fix_down f (y - 1) (rem + (1 + 2 * (y - 1))) else Some (y, rem)
  end.
Fixpoint fix_up (fuel : nat) (y rem : Z) : option (Z * Z) :=
  match fuel with
  | O => None
  | S f => if 2 * (1 + y) <? rem then fix_up f (y + 1) (rem - (1 + 2 * (y + 1))) else Some (y, rem)
  end.
Definition sqrtrem_fix (fuel : nat) (x approx : Z) : option (Z * Z) :=
  let y := approx + 1 in
  match fix_down fuel y (x - y * y) with
  | None => None
  | Some (y, rem) => if rem =? 0 then Some (y, rem) else fix_up fuel y rem
  end.

(* sqrtrem_python for x < 2^600: y = isqrt_small(x); (y, x - y*y) *)
Definition sqrtrem_small (y x : Z) : Z * Z := (y, x - y * y).
