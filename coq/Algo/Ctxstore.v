(* Ctxstore.v — model of the precision state of several contexts (mp, clones of mp, iv; fp is constant):
   each context owns (prec, dps); setting one through prec or dps follows Str.prec_to_dps / dps_to_prec;
   cloning copies the precision into a NEW context.  Model only. *)
From Coq Require Import ZArith List Bool.
From MP Require Import Algo.Str.
Import ListNotations.
Open Scope Z_scope.

Definition cstate := (Z * Z)%type.                (* (prec, dps) *)
Definition store := list cstate.

Inductive cop :=
| CSetPrec (i : nat) (n : Z)
| CSetDps (i : nat) (n : Z)
| CClone (i : nat)
| CCompute (i : nat).                              (* any evaluation inside context i *)

Fixpoint upd (s : store) (i : nat) (v : cstate) : store :=
  match s, i with
  | [], _ => []
  | _ :: r, O => v :: r
  | x :: r, S j => x :: upd r j v
  end.

Definition cstep (s : store) (o : cop) : store :=
  match o with
  | CSetPrec i n => upd s i (Z.max 1 n, prec_to_dps n)
  | CSetDps i n => upd s i (dps_to_prec n, Z.max 1 n)
  | CClone i => s ++ [let '(p, _) := nth i s (53, 15) in (Z.max 1 p, prec_to_dps p)]
  | CCompute _ => s
  end.

Definition crun (s : store) (ops : list cop) : store := fold_left cstep ops s.

(* integer encoding for the correspondence driver: [kind; i; n] triples *)
Fixpoint dec_ops (fuel : nat) (l : list Z) : list cop :=
  match fuel with O => [] | S f =>
  match l with
  | k :: i :: n :: r =>
      (match k with 0 => CSetPrec (Z.to_nat i) n | 1 => CSetDps (Z.to_nat i) n | 2 => CClone (Z.to_nat i) | _ => CCompute (Z.to_nat i) end)
      :: dec_ops f r
  | _ => []
  end end.
Definition ctx_run (l : list Z) : list Z :=
  flat_map (fun c => [fst c; snd c]) (crun [(53, 15); (53, 15)] (dec_ops (length l) l)).
