(* Intfun.v — reference definitions (over Z) of the integer-valued functions of property C25 and Gallina models
   of the memoised ifac / ifac2 of libintmath.py.  Model only. *)
From Coq Require Import ZArith List Bool.
Import ListNotations.
Open Scope Z_scope.

(* ---- reference definitions ---- *)
Fixpoint fact_nat (n : nat) : Z := match n with O => 1 | S k => Z.of_nat n * fact_nat k end.
Definition zfact (n : Z) : Z := fact_nat (Z.to_nat n).

Fixpoint fact2_fuel (fuel : nat) (n : Z) : Z :=
  match fuel with O => 1 | S f => if n <=? 1 then 1 else n * fact2_fuel f (n - 2) end.
Definition zfact2 (n : Z) : Z := fact2_fuel (Z.to_nat n) n.     (* n!! for n >= 0 *)

Fixpoint fib_pair (n : nat) : Z * Z := match n with O => (0, 1) | S k => let '(a, b) := fib_pair k in (b, a + b) end.
Definition zfib (n : Z) : Z := fst (fib_pair (Z.to_nat n)).

(* Pascal rows *)
Fixpoint next_row (r : list Z) : list Z :=
  match r with [] => [] | a :: t => match t with [] => [a] | b :: _ => (a + b) :: next_row t end end.
Fixpoint pascal (n : nat) : list Z := match n with O => [1] | S k => 1 :: next_row (pascal k) end.
Definition binom (n k : Z) : Z := nth (Z.to_nat k) (pascal (Z.to_nat n)) 0.

(* Stirling numbers by their defining recurrences: rows indexed by k = 0..n *)
Fixpoint s2_row (n : nat) : list Z :=        (* S(n,k) = k S(n-1,k) + S(n-1,k-1) *)
  match n with O => [1] | S m =>
    let r := s2_row m in
    map (fun k => Z.of_nat k * nth k r 0 + (match k with O => 0 | S j => nth j r 0 end)) (seq 0 (S (S m))) end.
Definition stirling2_ref (n k : Z) : Z := nth (Z.to_nat k) (s2_row (Z.to_nat n)) 0.
Fixpoint s1_row (n : nat) : list Z :=        (* signed: s(n,k) = s(n-1,k-1) - (n-1) s(n-1,k) *)
  match n with O => [1] | S m =>
    let r := s1_row m in
    map (fun k => (match k with O => 0 | S j => nth j r 0 end) - Z.of_nat m * nth k r 0) (seq 0 (S (S m))) end.
Definition stirling1_ref (n k : Z) : Z := nth (Z.to_nat k) (s1_row (Z.to_nat n)) 0.
Definition bell_ref (n : Z) : Z := fold_left Z.add (s2_row (Z.to_nat n)) 0.

(* trial-division primality and Moebius function (definitional) *)
Fixpoint no_divisor (fuel : nat) (d n : Z) : bool :=
  match fuel with O => true | S f => if n <? d * d then true else if n mod d =? 0 then false else no_divisor f (d + 1) n end.
Definition isprime_ref (n : Z) : bool := (2 <=? n) && no_divisor (Z.to_nat (Z.sqrt n)) 2 n.
Fixpoint mu_loop (fuel : nat) (d n : Z) (acc : Z) : Z :=
  match fuel with
  | O => if n =? 1 then acc else - acc
  | S f =>
    if n =? 1 then acc else
    if n <? d * d then - acc else
    if n mod d =? 0 then (if (n / d) mod d =? 0 then 0 else mu_loop f (d + 1) (n / d) (- acc))
    else mu_loop f (d + 1) n acc
  end.
Definition moebius_ref (n : Z) : Z := if n =? 0 then 0 else mu_loop (Z.to_nat (Z.sqrt (Z.abs n)) + 1) 2 (Z.abs n) 1.

(* Bernoulli numbers as reduced fractions via B_m = -1/(m+1) * sum_{k<m} C(m+1,k) B_k, kept as (num, den) *)
Definition qadd (a b : Z * Z) : Z * Z := (fst a * snd b + fst b * snd a, snd a * snd b).
Definition qnorm (a : Z * Z) : Z * Z :=
  let g := Z.gcd (fst a) (snd a) in if g =? 0 then (0, 1) else
  let s := if snd a <? 0 then -1 else 1 in (s * (fst a / g), s * (snd a / g)).
Fixpoint bern_list (n : nat) : list (Z * Z) :=     (* [B_0; ...; B_n] *)
  match n with
  | O => [(1, 1)]
  | S m =>
    let prev := bern_list m in
    let mm := Z.of_nat (S m) in
    let row := pascal (S (S m)) in
    let s := fold_left qadd (map (fun k => let b := nth k prev (0, 1) in (nth k row 0 * fst b, snd b)) (seq 0 (S m))) (0, 1) in
    prev ++ [qnorm (- fst s, snd s * (mm + 1))]
  end.

(* Euler numbers: sum_{k=0}^{n} C(2n,2k) E_{2k} = 0 *)
Fixpoint euler_list (n : nat) : list Z :=        (* [E_0; E_2; ...; E_2n] *)
  match n with
  | O => [1]
  | S m =>
    let prev := euler_list m in
    let row := pascal (2 * S m) in
    prev ++ [- fold_left Z.add (map (fun k => nth (2 * k) row 0 * nth k prev 0) (seq 0 (S m))) 0]
  end.

(* ---- the memoised factorial of libintmath.ifac: memo holds 0!..(k-1)! (the cache is only extended up to MAX) ---- *)
Record fmemo := { fm_len : Z; fm_last : Z }.      (* len(memo) = k, memo[k-1] *)
(* the while loop: p *= k for k = len .. n *)
Fixpoint ifac_loop (fuel : nat) (k n p : Z) : Z :=
  match fuel with O => p | S f => if k <=? n then ifac_loop f (k + 1) n (p * k) else p end.
(* a call ifac(n) against a cache that currently holds 0!..(len-1)!, with cache limit MAX:
   returns the value and the new cache length/last entry *)
Definition ifac_call (maxc : Z) (m : fmemo) (n : Z) : Z * fmemo :=
  if n <? fm_len m then (zfact n, m)       (* memo.get(n) hit: value stored earlier *)
  else
    let v := ifac_loop (Z.to_nat (n - fm_len m + 1)) (fm_len m) n (fm_last m) in
    let newlen := Z.max (fm_len m) (Z.min (n + 1) (maxc + 1)) in
    (v, {| fm_len := newlen; fm_last := ifac_loop (Z.to_nat (newlen - fm_len m)) (fm_len m) (newlen - 1) (fm_last m) |}).

(* ---- model of libintmath.ifib (Dijkstra's logarithmic algorithm) with its cache of the values below 250 ----
   a, b, p, q = 1, 0, 0, 1;  while n: if n & 1: (a, b) := T_pq(a, b); n -= 1  else: (p, q) := (p^2+q^2, q^2+2pq); n >>= 1;  return b *)
Definition fibT (p q : Z) (ab : Z * Z) : Z * Z := let '(a, b) := ab in (b * q + a * q + a * p, b * p + a * q).
Fixpoint ifib_loop (n : positive) (a b p q : Z) : Z :=
  match n with
  | xH => snd (fibT p q (a, b))
  | xO n' => ifib_loop n' a b (p * p + q * q) (q * q + 2 * p * q)
  | xI n' => let '(a', b') := fibT p q (a, b) in ifib_loop n' a' b' (p * p + q * q) (q * q + 2 * p * q)
  end.
Definition ifib_nonneg (n : Z) : Z := match n with Zpos k => ifib_loop k 1 0 0 1 | _ => 0 end.

(* the cache: association list n -> value; a computed value is stored when n < 250 *)
Definition fcache := list (Z * Z).
Fixpoint fc_get (c : fcache) (n : Z) : option Z :=
  match c with [] => None | (k, v) :: r => if k =? n then Some v else fc_get r n end.
Definition ifib_call_nonneg (c : fcache) (n : Z) : Z * fcache :=
  match fc_get c n with
  | Some v => (v, c)
  | None => let b := ifib_nonneg n in (b, if n <? 250 then (n, b) :: c else c)
  end.
Definition ifib_call (c : fcache) (n : Z) : Z * fcache :=
  if n <? 0 then let '(v, c') := ifib_call_nonneg c (- n) in ((-1) ^ (- n + 1) * v, c') else ifib_call_nonneg c n.
(* a sequence of calls threading the cache *)
Fixpoint fib_calls (c : fcache) (ns : list Z) : list Z :=
  match ns with [] => [] | n :: r => let '(v, c') := ifib_call c n in v :: fib_calls c' r end.

(* ---- model of libintmath.ifac2 (double factorial) with its two memo dictionaries (one per parity) ----
   memo = memo_pair[n & 1]; f = memo.get(n); if f: return f; k = max(memo); p = memo[k];
   while k < n: k += 2; p *= k; if k <= MAX: memo[k] = p;  return p *)
Fixpoint fc_maxkey (c : fcache) (best : Z) : Z :=
  match c with [] => best | (k, _) :: r => fc_maxkey r (Z.max best k) end.
Fixpoint ifac2_loop (fuel : nat) (maxc k n p : Z) (c : fcache) : Z * fcache :=
  match fuel with
  | O => (p, c)
  | S f => if k <? n then
             let k' := k + 2 in let p' := p * k' in
             ifac2_loop f maxc k' n p' (if k' <=? maxc then (k', p') :: c else c)
           else (p, c)
  end.
Definition ifac2_memo_call (maxc : Z) (c : fcache) (n : Z) : Z * fcache :=
  match fc_get c n with
  | Some v => if v =? 0 then (0, c) else (v, c)       (* `if f:` — a stored 0 would fall through; values are never 0 *)
  | None =>
      let k := fc_maxkey c 0 in
      match fc_get c k with
      | Some p => ifac2_loop (Z.to_nat n) maxc k n p c
      | None => (0, c)                                  (* unreachable: max(memo) is a key *)
      end
  end.
(* the pair of dictionaries *)
Definition ifac2_call (maxc : Z) (cs : fcache * fcache) (n : Z) : Z * (fcache * fcache) :=
  if Z.odd n then let '(v, c') := ifac2_memo_call maxc (snd cs) n in (v, (fst cs, c'))
  else let '(v, c') := ifac2_memo_call maxc (fst cs) n in (v, (c', snd cs)).
Fixpoint fac2_calls (maxc : Z) (cs : fcache * fcache) (ns : list Z) : list Z :=
  match ns with [] => [] | n :: r => let '(v, cs') := ifac2_call maxc cs n in v :: fac2_calls maxc cs' r end.
