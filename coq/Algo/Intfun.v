(* Intfun.v — reference definitions (over Z) of the integer-valued functions of property C25 and Gallina models
   of the memoised ifac / ifac2 of libintmath.py.  Model only. *)
From Coq Require Import ZArith List Bool.
Import ListNotations.
Open Scope Z_scope.

(* ---- reference definitions ---- *)
Fixpoint fact_nat (n : nat) : Z := match n with O => 1 | S k => Z.of_nat n * fact_nat k end.
Definition zfact (n : Z) : Z := fact_nat (Z.to_nat n).

Fixpoint fact2_fuel (fuel : nat) (n : Z) : Z :=
  match fuel with O => 1 | S f => if n <=? 1 then 1 else n * fact2_fuel f (n - 2) end.
Definition zfact2 (n : Z) : Z := fact2_fuel (Z.to_nat n) n.     (* n!! for n >= 0 *)

Fixpoint fib_pair (n : nat) : Z * Z := match n with O => (0, 1) | S k => let '(a, b) := fib_pair k in (b, a + b) end.
Definition zfib (n : Z) : Z := fst (fib_pair (Z.to_nat n)).

(* Pascal rows *)
Fixpoint next_row (r : list Z) : list Z :=
  match r with [] => [] | a :: t => match t with [] => [a] | b :: _ => (a + b) :: next_row t end end.
Fixpoint pascal (n : nat) : list Z := match n with O => [1] | S k => 1 :: next_row (pascal k) end.
Definition binom (n k : Z) : Z := nth (Z.to_nat k) (pascal (Z.to_nat n)) 0.

(* Stirling numbers by their defining recurrences: rows indexed by k = 0..n *)
Fixpoint s2_row (n : nat) : list Z :=        (* S(n,k) = k S(n-1,k) + S(n-1,k-1) *)
  match n with O => [1] | S m =>
    let r := s2_row m in
    map (fun k => Z.of_nat k * nth k r 0 + (match k with O => 0 | S j => nth j r 0 end)) (seq 0 (S (S m))) end.
Definition stirling2_ref (n k : Z) : Z := nth (Z.to_nat k) (s2_row (Z.to_nat n)) 0.
Fixpoint s1_row (n : nat) : list Z :=        (* signed: s(n,k) = s(n-1,k-1) - (n-1) s(n-1,k) *)
  match n with O => [1] | S m =>
    let r := s1_row m in
    map (fun k => (match k with O => 0 | S j => nth j r 0 end) - Z.of_nat m * nth k r 0) (seq 0 (S (S m))) end.
Definition stirling1_ref (n k : Z) : Z := nth (Z.to_nat k) (s1_row (Z.to_nat n)) 0.
Definition bell_ref (n : Z) : Z := fold_left Z.add (s2_row (Z.to_nat n)) 0.

(* trial-division primality and Moebius function (definitional) *)
Fixpoint no_divisor (fuel : nat) (d n : Z) : bool :=
  match fuel with O => true | S f => if n <? d * d then true else if n mod d =? 0 then false else no_divisor f (d + 1) n end.
Definition isprime_ref (n : Z) : bool := (2 <=? n) && no_divisor (Z.to_nat (Z.sqrt n)) 2 n.
Fixpoint mu_loop (fuel : nat) (d n : Z) (acc : Z) : Z :=
  match fuel with
  | O => if n =? 1 then acc else - acc
  | S f =>
    if n =? 1 then acc else
    if n <? d * d then - acc else
    if n mod d =? 0 then (if (n / d) mod d =? 0 then 0 else mu_loop f (d + 1) (n / d) (- acc))
    else mu_loop f (d + 1) n acc
  end.
Definition moebius_ref (n : Z) : Z := if n =? 0 then 0 else mu_loop (Z.to_nat (Z.sqrt (Z.abs n)) + 1) 2 (Z.abs n) 1.

(* Bernoulli numbers as reduced fractions via B_m = -1/(m+1) * sum_{k<m} C(m+1,k) B_k, kept as (num, den) *)
Definition qadd (a b : Z * Z) : Z * Z := (fst a * snd b + fst b * snd a, snd a * snd b).
Definition qnorm (a : Z * Z) : Z * Z :=
  let g := Z.gcd (fst a) (snd a) in if g =? 0 then (0, 1) else
  let s := if snd a <? 0 then -1 else 1 in (s * (fst a / g), s * (snd a / g)).
Fixpoint bern_list (n : nat) : list (Z * Z) :=     (* [B_0; ...; B_n] *)
  match n with
  | O => [(1, 1)]
  | S m =>
    let prev := bern_list m in
    let mm := Z.of_nat (S m) in
    let row := pascal (S (S m)) in
    let s := fold_left qadd (map (fun k => let b := nth k prev (0, 1) in (nth k row 0 * fst b, snd b)) (seq 0 (S m))) (0, 1) in
    prev ++ [qnorm (- fst s, snd s * (mm + 1))]
  end.

(* Euler numbers: sum_{k=0}^{n} C(2n,2k) E_{2k} = 0 *)
Fixpoint euler_list (n : nat) : list Z :=        (* [E_0; E_2; ...; E_2n] *)
  match n with
  | O => [1]
  | S m =>
    let prev := euler_list m in
    let row := pascal (2 * S m) in
    prev ++ [- fold_left Z.add (map (fun k => nth (2 * k) row 0 * nth k prev 0) (seq 0 (S m))) 0]
  end.

(* ---- the memoised factorial of libintmath.ifac: memo holds 0!..(k-1)! (the cache is only extended up to MAX) ---- *)
Record fmemo := { fm_len : Z; fm_last : Z }.      (* len(memo) = k, memo[k-1] *)
(* the while loop: p *= k for k = len .. n *)
Fixpoint ifac_loop (fuel : nat) (k n p : Z) : Z :=
  match fuel with O => p | S f => if k <=? n then ifac_loop f (k + 1) n (p * k) else p end.
(* a call ifac(n) against a cache that currently holds 0!..(len-1)!, with cache limit MAX:
   returns the value and the new cache length/last entry *)
Definition ifac_call (maxc : Z) (m : fmemo) (n : Z) : Z * fmemo :=
  if n <? fm_len m then (zfact n, m)       (* memo.get(n) hit: value stored earlier *)
  else
    let v := ifac_loop (Z.to_nat (n - fm_len m + 1)) (fm_len m) n (fm_last m) in
    let newlen := Z.max (fm_len m) (Z.min (n + 1) (maxc + 1)) in
    (v, {| fm_len := newlen; fm_last := ifac_loop (Z.to_nat (newlen - fm_len m)) (fm_len m) (newlen - 1) (fm_last m) |}).
