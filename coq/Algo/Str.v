(* Str.v — Gallina model of libmpf.to_digits_exp / to_str (decimal printing) on digit lists, and of
   prec_to_dps / repr_dps.  Model only.  Strings are lists of character codes.
   Float glue: bitprec = int(dps*math.log(10,2))+10 and fixdps = int(fixprec/math.log(10,2)+0.5) are double
   computations; they are inputs of the model (computed by the harness with the same expressions). *)
From Coq Require Import ZArith List Bool.
From MP Require Import Algo.Base Algo.Libmpf.
Import ListNotations.
Open Scope Z_scope.

(* decimal digits of n >= 0, most significant first ("0" for 0) *)
Fixpoint dec_digits_fuel (fuel : nat) (n : Z) (acc : list Z) : list Z :=
  match fuel with
  | O => acc
  | S f => if n <? 10 then n :: acc else dec_digits_fuel f (n / 10) (n mod 10 :: acc)
  end.
Definition dec_digits (n : Z) : list Z := dec_digits_fuel (S (Z.to_nat (Z.log2 n))) n [].
Definition zlen {A} (l : list A) : Z := Z.of_nat (length l).

(* exactly k digits of n (zero padded on the left), k >= 0 *)
Fixpoint digits_k (k : nat) (n : Z) (acc : list Z) : list Z :=
  match k with O => acc | S k' => digits_k k' (n / 10) (n mod 10 :: acc) end.

Definition ch (d : Z) : Z := 48 + d.                (* '0' + d *)
Definition c_dot := 46. Definition c_e := 101. Definition c_plus := 43. Definition c_minus := 45.
Definition int_chars (n : Z) : list Z :=
  (if n <? 0 then [c_minus] else []) ++ map ch (dec_digits (Z.abs n)).

(* to_digits_exp for a positive value on the fixed-point path: returns (sd, exponent) *)
Definition to_digits_core (man exp bc bitprec fixdps : Z) : Z * Z :=
  let fixprec := Z.max (bitprec - exp - bc) 0 in
  let sf := to_fixed (Mpf 0 man exp bc) fixprec in
  let sd := Z.shiftr (sf * 10 ^ fixdps) fixprec in
  (sd, zlen (dec_digits sd) - fixdps - 1).

Fixpoint rstrip0 (rev_l : list Z) : list Z :=
  match rev_l with 48 :: r => rstrip0 r | _ => rev_l end.

Definition repeat0 (k : Z) : list Z := repeat 48 (Z.to_nat k).

(* the decimal rounding step of to_str: keep dps digits of sd, rounding half up on the digit that follows
   (the Python code increments the kept digit string, carrying through trailing nines) *)
Definition round_digits (sd dps exponent : Z) : list Z * Z :=
  let all := dec_digits sd in
  let L := zlen all in
  if (dps <? L) && (5 <=? nth (Z.to_nat dps) all 0) then
    let P := sd / 10 ^ (L - dps) + 1 in
    if P =? 10 ^ dps then (1 :: repeat 0 (Z.to_nat (dps - 1)), exponent + 1)
    else (digits_k (Z.to_nat dps) P [], exponent)
  else (firstn (Z.to_nat dps) all, exponent).

(* to_str for a finite nonzero s, given the float-glue values for dps+3 digits *)
Definition to_str_finite (s : mpf) (dps : Z) (strip_zeros : bool) (min_fixed max_fixed : Z)
                         (show_zero_exponent : bool) (bitprec fixdps : Z) : list Z :=
  let signc := if msign s =? 0 then [] else [c_minus] in
  let '(sd, exponent) := to_digits_core (mman s) (mexp s) (mbc s) bitprec fixdps in
  let all := dec_digits sd in
  let L := zlen all in
  let '(digits, exponent) :=
    if dps =? 0 then
      ([c_dot; 48], if 5 <=? hd 0 all then exponent + 1 else exponent)
    else
      let '(dg, exponent) := round_digits sd dps exponent in
      let dgc := map ch dg in
      let '(dgc, split, exponent) :=
        if (min_fixed <? exponent) && (exponent <? max_fixed) then
          if exponent <? 0 then (repeat0 (- exponent) ++ dgc, 1, 0)
          else
            let split := exponent + 1 in
            ((if dps <? split then dgc ++ repeat0 (split - dps) else dgc), split, 0)
        else (dgc, 1, exponent) in
      let withdot := firstn (Z.to_nat split) dgc ++ [c_dot] ++ skipn (Z.to_nat split) dgc in
      let out :=
        if strip_zeros then
          let r := rev (rstrip0 (rev withdot)) in
          if (last r 0 =? c_dot) then r ++ [48] else r
        else withdot in
      (out, exponent) in
  if (exponent =? 0) && negb (dps =? 0) && negb show_zero_exponent then signc ++ digits
  else if 0 <=? exponent then signc ++ digits ++ [c_e; c_plus] ++ int_chars exponent
  else signc ++ digits ++ [c_e] ++ int_chars exponent.

Definition to_str (s : mpf) (dps : Z) (strip_zeros : bool) (min_fixed max_fixed : Z)
                  (show_zero_exponent : bool) (bitprec fixdps : Z) : list Z :=
  if mman s =? 0 then
    if mpf_eqb s fzero then
      (if dps =? 0 then [c_dot; 48] else [48; c_dot; 48]) ++ (if show_zero_exponent then [c_e; c_plus; 48] else [])
    else if mpf_eqb s finf then [c_plus; 105; 110; 102]
    else if mpf_eqb s fninf then [c_minus; 105; 110; 102]
    else [110; 97; 110]
  else to_str_finite s dps strip_zeros min_fixed max_fixed show_zero_exponent bitprec fixdps.

(* ---- prec_to_dps / dps_to_prec / repr_dps: the double constant 3.3219280948873626 = CN/2^50 exactly;
   Python's round() is round-half-even; quotient modelled as the exact rational ---- *)
Definition CN : Z := 3740158532571577.
Definition CD : Z := 1125899906842624.
Definition rhe (num den : Z) : Z :=
  let q := num / den in let r := num mod den in
  if 2 * r <? den then q else if den <? 2 * r then q + 1 else if Z.even q then q else q + 1.
Definition prec_to_dps (n : Z) : Z := Z.max 1 (rhe (n * CD) CN - 1).
Definition dps_to_prec (n : Z) : Z := Z.max 1 (rhe ((n + 1) * CN) CD).
Definition repr_dps (n : Z) : Z := let d := prec_to_dps n in if (d =? 15) && (n <=? 53) then 17 else d + 3.
