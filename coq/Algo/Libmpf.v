(* Libmpf.v — branch-for-branch Gallina transliteration of mpmath/libmp/libmpf.py
   (pure-Python backend).  Model only: no proofs here.

   Conventions: prec = 0 encodes Python's "prec=0/None" (exact).  Functions that can raise
   return [res].  Loops: trailing-zero stripping is [trailing]; the mpf_pow_int loop is
   structural recursion on the bits of n.  isqrt/sqrtrem are Z.sqrt/Z.sqrtrem (their
   Newton implementations in libintmath are specified by the defining inequalities and tied
   by the correspondence check). *)
From Coq Require Import ZArith List Bool.
From MP Require Import Algo.Base.
Import ListNotations.
Open Scope Z_scope.

(* ------------------------------------------------------------------ rounding *)

(* the nearest-even bit test shared by round_int/normalize/normalize1:
   t = x >> (n-1); if t & 1 and ((t & 2) or (x & h_mask[n])): (t>>1)+1 else t>>1 *)
Definition round_nearest_shift (x n : Z) : Z :=
  let t := Z.shiftr x (n - 1) in
  if Z.odd t && (Z.testbit t 1 || negb (Z.land x (Z.shiftl 1 (n - 1) - 1) =? 0))
  then Z.shiftr t 1 + 1 else Z.shiftr t 1.

Definition round_int (x n : Z) (r : rnd) : Z :=
  match r with
  | RN => if 0 <=? x then round_nearest_shift x n else - round_nearest_shift (- x) n
  | RF => Z.shiftr x n
  | RC => - Z.shiftr (- x) n
  | RD => if 0 <=? x then Z.shiftr x n else - Z.shiftr (- x) n
  | RU => if 0 <=? x then - Z.shiftr (- x) n else Z.shiftr x n
  end.

(* the inline rounding of a positive mantissa by n > 0 bits in normalize/normalize1 *)
Definition round_mant (sign man n : Z) (r : rnd) : Z :=
  match r with
  | RN => round_nearest_shift man n
  | _ => if shifts_down r sign then Z.shiftr man n else - Z.shiftr (- man) n
  end.

Definition strip_trailing (man exp bc : Z) : Z * Z * Z :=
  if Z.even man then
    let t := trailing man in (Z.shiftr man t, exp + t, bc - t)
  else (man, exp, bc).

Definition finish (sign man exp bc : Z) : mpf :=
  let '(man, exp, bc) := strip_trailing man exp bc in
  Mpf sign man exp (if man =? 1 then 1 else bc).

Definition normalize (sign man exp bc prec : Z) (r : rnd) : mpf :=
  if man =? 0 then fzero else
  let n := bc - prec in
  if 0 <? n then finish sign (round_mant sign man n r) (exp + n) prec
  else finish sign man exp bc.

Definition normalize1 (sign man exp bc prec : Z) (r : rnd) : mpf :=
  if man =? 0 then fzero else
  if bc <=? prec then Mpf sign man exp bc else
  let n := bc - prec in
  finish sign (round_mant sign man n r) (exp + n) prec.

(* ------------------------------------------------------------------ conversions *)

Definition from_man_exp (man exp prec : Z) (r : rnd) : mpf :=
  let sign := if man <? 0 then 1 else 0 in
  let man := Z.abs man in
  let bc := bitcount man in
  if prec =? 0 then
    if man =? 0 then fzero else
    let '(man, exp, bc) := strip_trailing man exp bc in Mpf sign man exp bc
  else normalize sign man exp bc prec r.

Definition from_int (n prec : Z) (r : rnd) : mpf := from_man_exp n 0 prec r.

(* to_int(s, rnd=None) *)
Definition to_int (s : mpf) (r : option rnd) : res Z :=
  let '(Mpf sign man exp bc) := s in
  if is_special s then Err VE else
  if 0 <=? exp then Ok (if sign =? 0 then Z.shiftl man exp else Z.shiftl (- man) exp) else
  match r with
  | None => Ok (if sign =? 0 then Z.shiftr man (- exp) else - Z.shiftr man (- exp))
  | Some r => Ok (if sign =? 0 then round_int man (- exp) r else round_int (- man) (- exp) r)
  end.

Definition mpf_pos (s : mpf) (prec : Z) (r : rnd) : mpf :=
  if prec =? 0 then s else
  if is_special s then s else
  normalize1 (msign s) (mman s) (mexp s) (mbc s) prec r.

Definition mpf_neg (s : mpf) (prec : Z) (r : rnd) : mpf :=
  let '(Mpf sign man exp bc) := s in
  if man =? 0 then
    if negb (exp =? 0) then
      if mpf_eqb s finf then fninf else if mpf_eqb s fninf then finf else s
    else s
  else if prec =? 0 then Mpf (1 - sign) man exp bc
  else normalize1 (1 - sign) man exp bc prec r.

Definition mpf_abs (s : mpf) (prec : Z) (r : rnd) : mpf :=
  let '(Mpf sign man exp bc) := s in
  if is_special s then (if mpf_eqb s fninf then finf else s) else
  if prec =? 0 then (if sign =? 0 then s else Mpf 0 man exp bc)
  else normalize1 0 man exp bc prec r.

Definition mpf_sign (s : mpf) : Z :=
  if mman s =? 0 then
    if mpf_eqb s finf then 1 else if mpf_eqb s fninf then -1 else 0
  else if msign s =? 0 then 1 else -1.

Definition mpf_round_int (s : mpf) (r : rnd) : res mpf :=
  let '(Mpf sign man exp bc) := s in
  if is_special s then Ok s else
  if 0 <=? exp then Ok s else
  let mag := exp + bc in
  if mag <? 1 then
    match r with
    | RC => Ok (if sign =? 0 then fone else fzero)
    | RF => Ok (if sign =? 0 then fzero else fnone)
    | RN => if (mag <? 0) || (man =? 1) then Ok fzero
            else Ok (if sign =? 0 then fone else fnone)
    | _ => Err NIE
    end
  else Ok (mpf_pos s (Z.min bc mag) r).

(* ------------------------------------------------------------------ addition *)

Definition prec_or (prec bc : Z) : Z := if prec =? 0 then bc else prec.

Definition mpf_add_gen (s t : mpf) (prec : Z) (r : rnd) (sub : bool) : mpf :=
  let '(Mpf ssign sman sexp sbc) := s in
  let '(Mpf tsign0 tman texp tbc) := t in
  let tsign := if sub then 1 - tsign0 else tsign0 in   (* tsign ^= _sub on {0,1} *)
  if negb (sman =? 0) && negb (tman =? 0) then
    let offset := sexp - texp in
    if 0 <? offset then
      if (100 <? offset) && negb (prec =? 0) && (prec + 4 <? sbc + sexp - tbc - texp) && (tbc <=? offset) then
        let off := prec + 4 in
        let m := if tsign =? ssign then Z.shiftl sman off + 1 else Z.shiftl sman off - 1 in
        normalize1 ssign m (sexp - off) (bitcount m) prec r
      else
        (* Add / Subtract with s shifted *)
        if ssign =? tsign then
          let man := tman + Z.shiftl sman offset in
          normalize1 ssign man texp (bitcount man) (prec_or prec (bitcount man)) r
        else
          let man := if ssign =? 0 then Z.shiftl sman offset - tman else tman - Z.shiftl sman offset in
          let sg := if 0 <=? man then 0 else 1 in
          let man := Z.abs man in
          normalize1 sg man texp (bitcount man) (prec_or prec (bitcount man)) r
    else if offset <? 0 then
      if (offset <? -100) && negb (prec =? 0) && (prec + 4 <? tbc + texp - sbc - sexp) && (sbc <=? - offset) then
        let off := prec + 4 in
        let m := if ssign =? tsign then Z.shiftl tman off + 1 else Z.shiftl tman off - 1 in
        normalize1 tsign m (texp - off) (bitcount m) prec r
      else
        if ssign =? tsign then
          let man := sman + Z.shiftl tman (- offset) in
          normalize1 ssign man sexp (bitcount man) (prec_or prec (bitcount man)) r
        else
          let man := if tsign =? 0 then Z.shiftl tman (- offset) - sman else sman - Z.shiftl tman (- offset) in
          let sg := if 0 <=? man then 0 else 1 in
          let man := Z.abs man in
          normalize1 sg man sexp (bitcount man) (prec_or prec (bitcount man)) r
    else
      (* equal exponents *)
      if ssign =? tsign then
        let man := tman + sman in
        normalize ssign man texp (bitcount man) (prec_or prec (bitcount man)) r
      else
        let man := if ssign =? 0 then sman - tman else tman - sman in
        let sg := if 0 <=? man then 0 else 1 in
        let man := Z.abs man in
        normalize sg man texp (bitcount man) (prec_or prec (bitcount man)) r
  else
    (* zeros and special numbers *)
    let t' := if sub then mpf_neg t 0 RD else t in
    if sman =? 0 then
      if negb (sexp =? 0) then
        if mpf_eqb s t' || negb (tman =? 0) || (texp =? 0) then s else fnan
      else if negb (tman =? 0) then normalize1 tsign tman texp tbc (prec_or prec tbc) r
      else t'
    else if negb (texp =? 0) then t'
    else normalize1 ssign sman sexp sbc (prec_or prec sbc) r.

Definition mpf_add (s t : mpf) (prec : Z) (r : rnd) : mpf := mpf_add_gen s t prec r false.
Definition mpf_sub (s t : mpf) (prec : Z) (r : rnd) : mpf := mpf_add_gen s t prec r true.

(* ------------------------------------------------------------------ sum *)

Record sumst := { sman_ : Z; sexp_ : Z; sspecial : option mpf }.

Definition mpf_sum_step (maxextra : Z) (absolute : bool) (st : sumst) (x : mpf) : sumst :=
  let '(Mpf xsign xman0 xexp xbc) := x in
  let man := sman_ st in let exp := sexp_ st in
  if negb (xman0 =? 0) then
    let xman := if negb (xsign =? 0) && negb absolute then - xman0 else xman0 in
    let delta := xexp - exp in
    if exp <=? xexp then
      if (maxextra <? delta) && ((man =? 0) || (maxextra <? delta - bitcount (Z.abs man))) then
        {| sman_ := xman; sexp_ := xexp; sspecial := sspecial st |}
      else {| sman_ := man + Z.shiftl xman delta; sexp_ := exp; sspecial := sspecial st |}
    else
      let delta := - delta in
      if maxextra <? delta - xbc then
        if man =? 0 then {| sman_ := xman; sexp_ := xexp; sspecial := sspecial st |} else st
      else {| sman_ := Z.shiftl man delta + xman; sexp_ := xexp; sspecial := sspecial st |}
  else if negb (xexp =? 0) then
    let x' := if absolute then mpf_abs x 0 RD else x in
    let acc := match sspecial st with Some a => a | None => fzero end in
    {| sman_ := man; sexp_ := exp; sspecial := Some (mpf_add acc x' 1 RD) |}
  else st.

Definition mpf_sum (xs : list mpf) (prec : Z) (r : rnd) (absolute : bool) : mpf :=
  let maxextra := if prec * 2 =? 0 then 1000000 else prec * 2 in
  let st := fold_left (mpf_sum_step maxextra absolute) xs {| sman_ := 0; sexp_ := 0; sspecial := None |} in
  match sspecial st with
  | Some sp => sp
  | None => from_man_exp (sman_ st) (sexp_ st) prec r
  end.

(* ------------------------------------------------------------------ multiplication *)

Definition mul_special (s t : mpf) : mpf :=
  let s_special := is_special s in
  let t_special := is_special t in
  if negb s_special && negb t_special then fzero else
  if mpf_eqb s fnan || mpf_eqb t fnan then fnan else
  let '(s, t) := if t_special then (t, s) else (s, t) in
  if mpf_eqb t fzero then fnan else
  if mpf_sign s * mpf_sign t =? 1 then finf else fninf.

Definition python_mpf_mul (s t : mpf) (prec : Z) (r : rnd) : mpf :=
  let sign := Z.lxor (msign s) (msign t) in
  let man := mman s * mman t in
  if negb (man =? 0) then
    let bc := mbc s + mbc t - 1 in
    let bc := bc + Z.shiftr man bc in
    if negb (prec =? 0) then normalize1 sign man (mexp s + mexp t) bc prec r
    else Mpf sign man (mexp s + mexp t) bc
  else mul_special s t.

Definition gmpy_mpf_mul (s t : mpf) (prec : Z) (r : rnd) : mpf :=
  let sign := Z.lxor (msign s) (msign t) in
  let man := mman s * mman t in
  if negb (man =? 0) then
    let bc := bitcount man in
    if negb (prec =? 0) then normalize1 sign man (mexp s + mexp t) bc prec r
    else Mpf sign man (mexp s + mexp t) bc
  else mul_special s t.

Definition mpf_mul := python_mpf_mul.

Definition python_mpf_mul_int (s : mpf) (n prec : Z) (r : rnd) : mpf :=
  let '(Mpf sign man exp bc) := s in
  if man =? 0 then mpf_mul s (from_int n 0 RD) prec r else
  if n =? 0 then fzero else
  let sign := if n <? 0 then Z.lxor sign 1 else sign in
  let n := Z.abs n in
  let man := man * n in
  let bc := bc + bitcount n - 1 in
  let bc := bc + Z.shiftr man bc in
  normalize sign man exp bc prec r.

Definition gmpy_mpf_mul_int (s : mpf) (n prec : Z) (r : rnd) : mpf :=
  let '(Mpf sign man exp bc) := s in
  if man =? 0 then mpf_mul s (from_int n 0 RD) prec r else
  if n =? 0 then fzero else
  let sign := if n <? 0 then Z.lxor sign 1 else sign in
  let n := Z.abs n in
  let man := man * n in
  normalize sign man exp (bitcount man) prec r.

Definition mpf_mul_int := python_mpf_mul_int.

Definition mpf_shift (s : mpf) (n : Z) : mpf :=
  if mman s =? 0 then s else Mpf (msign s) (mman s) (mexp s + n) (mbc s).

Definition mpf_frexp (x : mpf) : res (mpf * Z) :=
  if mman x =? 0 then (if mpf_eqb x fzero then Ok (fzero, 0) else Err VE)
  else Ok (mpf_shift x (- mbc x - mexp x), mbc x + mexp x).

(* ------------------------------------------------------------------ division *)

Definition mpf_div (s t : mpf) (prec : Z) (r : rnd) : res mpf :=
  let '(Mpf ssign sman sexp sbc) := s in
  let '(Mpf tsign tman texp tbc) := t in
  if (sman =? 0) || (tman =? 0) then
    if mpf_eqb s fzero then
      if mpf_eqb t fzero then Err ZDE
      else if mpf_eqb t fnan then Ok fnan else Ok fzero
    else if mpf_eqb t fzero then Err ZDE
    else
      let s_special := is_special s in
      let t_special := is_special t in
      if s_special && t_special then Ok fnan
      else if mpf_eqb s fnan || mpf_eqb t fnan then Ok fnan
      else if negb t_special then
        Ok (if mpf_sign s * mpf_sign t =? 1 then finf else fninf)
      else Ok fzero
  else
    let sign := Z.lxor ssign tsign in
    if tman =? 1 then Ok (normalize1 sign sman (sexp - texp) sbc prec r) else
    let extra := prec - sbc + tbc + 5 in
    let extra := if extra <? 5 then 5 else extra in
    let num := Z.shiftl sman extra in
    let quot := num / tman in
    let rem := num mod tman in
    if negb (rem =? 0) then
      let quot := Z.shiftl quot 1 + 1 in
      Ok (normalize1 sign quot (sexp - texp - (extra + 1)) (bitcount quot) prec r)
    else Ok (normalize sign quot (sexp - texp - extra) (bitcount quot) prec r).

Definition mpf_rdiv_int (n : Z) (t : mpf) (prec : Z) (r : rnd) : res mpf :=
  let '(Mpf sign man exp bc) := t in
  if (n =? 0) || (man =? 0) then mpf_div (from_int n 0 RD) t prec r else
  let sign := if n <? 0 then Z.lxor sign 1 else sign in
  let n := Z.abs n in
  let extra := prec + bc + 5 in
  let num := Z.shiftl n extra in
  let quot := num / man in
  let rem := num mod man in
  if negb (rem =? 0) then
    let quot := Z.shiftl quot 1 + 1 in
    Ok (normalize1 sign quot (- exp - (extra + 1)) (bitcount quot) prec r)
  else Ok (normalize sign quot (- exp - extra) (bitcount quot) prec r).

Definition from_rational (p q prec : Z) (r : rnd) : res mpf :=
  mpf_div (from_int p 0 RD) (from_int q 0 RD) prec r.

Definition mpf_mod (s t : mpf) (prec : Z) (r : rnd) : res mpf :=
  let '(Mpf ssign sman sexp sbc) := s in
  let '(Mpf tsign tman texp tbc) := t in
  if is_special s || is_special t then Ok fnan else
  if (ssign =? tsign) && (sexp + sbc <? texp) then Ok (mpf_pos s prec r) else
  if (tman =? 1) && (texp + tbc <? sexp) then Ok fzero else
  let base := Z.min sexp texp in
  let sm := if ssign =? 0 then sman else - sman in
  let tm := if tsign =? 0 then tman else - tman in
  let d := Z.shiftl tm (texp - base) in
  if d =? 0 then Err ZDE else
  let man := (Z.shiftl sm (sexp - base)) mod d in
  let sign := if 0 <=? man then 0 else 1 in
  let man := Z.abs man in
  Ok (normalize sign man base (bitcount man) prec r).

(* ------------------------------------------------------------------ integer powers *)

Definition trunc_work (rounds_down : bool) (m e bc wp : Z) : Z * Z * Z :=
  if wp <? bc then
    let sh := bc - wp in
    ((if rounds_down then Z.shiftr m sh else - Z.shiftr (- m) sh), e + sh, wp)
  else (m, e, bc).

Fixpoint pow_loop (n : positive) (rd : bool) (wp pm pe pbc man exp bc : Z) : Z * Z * Z :=
  let mulin :=
    let pm' := pm * man in
    let pe' := pe + exp in
    let pbc' := pbc + bc - 2 in
    let pbc' := pbc' + bitcount (Z.shiftr pm' pbc') in
    trunc_work rd pm' pe' pbc' wp in
  let sq :=
    let man' := man * man in
    let exp' := exp + exp in
    let bc' := bc + bc - 2 in
    let bc' := bc' + bitcount (Z.shiftr man' bc') in
    trunc_work rd man' exp' bc' wp in
  match n with
  | xH => mulin
  | xO n' => let '(man', exp', bc') := sq in pow_loop n' rd wp pm pe pbc man' exp' bc'
  | xI n' => let '(pm', pe', pbc') := mulin in
             let '(man', exp', bc') := sq in pow_loop n' rd wp pm' pe' pbc' man' exp' bc'
  end.

(* n > 0 *)
Definition mpf_pow_int_pos (s : mpf) (n : positive) (prec : Z) (r : rnd) : mpf :=
  let '(Mpf sign man exp bc) := s in
  let nz := Zpos n in
  if nz =? 1 then mpf_pos s prec r else
  if nz =? 2 then
    if man =? 0 then fzero else
    let man := man * man in
    if man =? 1 then Mpf 0 1 (exp + exp) 1 else
    let bc := bc + bc - 2 in
    let bc := bc + bitcount (Z.shiftr man bc) in
    normalize1 0 man (exp + exp) bc prec r
  else
  let result_sign := Z.land sign nz in
  if man =? 1 then Mpf result_sign 1 (exp * nz) 1 else
  if bc * nz <? 1000 then
    let man := Z.pow man nz in
    normalize1 result_sign man (exp * nz) (bitcount man) prec r
  else
  let rounds_down := rnd_eqb r RN || shifts_down r result_sign in
  let wp := prec + 4 * bitcount nz + 4 in
  let '(pm, pe, pbc) := pow_loop n rounds_down wp 1 0 1 man exp bc in
  normalize result_sign pm pe pbc prec r.

Definition mpf_pow_int (s : mpf) (n prec : Z) (r : rnd) : res mpf :=
  if is_special s then
    if mpf_eqb s finf then
      Ok (if 0 <? n then s else if n =? 0 then fnan else fzero)
    else if mpf_eqb s fninf then
      Ok (if 0 <? n then (if Z.odd n then fninf else finf) else if n =? 0 then fnan else fzero)
    else Ok fnan
  else
  match n with
  | Z0 => Ok fone
  | Zpos p => Ok (mpf_pow_int_pos s p prec r)
  | Zneg p =>
      if Zpos p =? 1 then mpf_div fone s prec r else
      let inverse := mpf_pow_int_pos s p (prec + 5) (reciprocal_rnd r) in
      mpf_div fone inverse prec r
  end.

Definition mpf_perturb (x : mpf) (eps_sign prec : Z) (r : rnd) : mpf :=
  match r with
  | RN => mpf_pos x prec r
  | _ =>
    let '(Mpf sign man exp bc) := x in
    let eps := Mpf eps_sign 1 (exp + bc - prec - 1) 1 in
    let dir := if negb (sign =? 0) then (match r with RD | RC => true | _ => false end)
               else (match r with RU | RC => true | _ => false end) in
    let away := xorb dir (negb (eps_sign =? 0)) in
    if away then mpf_add x eps prec r else mpf_pos x prec r
  end.

(* ------------------------------------------------------------------ square root *)

Definition mpf_sqrt (s : mpf) (prec : Z) (r : rnd) : res mpf :=
  let '(Mpf sign man exp bc) := s in
  if negb (sign =? 0) then Err CR else
  if man =? 0 then Ok s else
  let odd_exp := Z.odd exp in
  if negb odd_exp && (man =? 1) then Ok (normalize1 sign man (exp / 2) bc prec r) else
  let '(man, exp, bc) := if odd_exp then (Z.shiftl man 1, exp - 1, bc + 1) else (man, exp, bc) in
  let shift := Z.max 4 (2 * prec - bc + 4) in
  let shift := shift + Z.land shift 1 in
  match r with
  | RF | RD =>
      let m := Z.sqrt (Z.shiftl man shift) in
      Ok (from_man_exp m ((exp - shift) / 2) prec r)
  | _ =>
      let '(m, rem) := Z.sqrtrem (Z.shiftl man shift) in
      if negb (rem =? 0) then
        Ok (from_man_exp (Z.shiftl m 1 + 1) ((exp - (shift + 2)) / 2) prec r)
      else Ok (from_man_exp m ((exp - shift) / 2) prec r)
  end.

Definition mpf_hypot (x y : mpf) (prec : Z) (r : rnd) : res mpf :=
  if mpf_eqb y fzero then Ok (mpf_abs x prec r) else
  if mpf_eqb x fzero then Ok (mpf_abs y prec r) else
  let h2 := mpf_add (mpf_mul x x 0 RD) (mpf_mul y y 0 RD) (prec + 4) RD in
  mpf_sqrt h2 prec r.

(* ------------------------------------------------------------------ floor/ceil/nint/frac *)

Definition mpf_floor (s : mpf) (prec : Z) (r : rnd) : res mpf :=
  do v <- mpf_round_int s RF; Ok (if prec =? 0 then v else mpf_pos v prec r).
Definition mpf_ceil (s : mpf) (prec : Z) (r : rnd) : res mpf :=
  do v <- mpf_round_int s RC; Ok (if prec =? 0 then v else mpf_pos v prec r).
Definition mpf_nint (s : mpf) (prec : Z) (r : rnd) : res mpf :=
  do v <- mpf_round_int s RN; Ok (if prec =? 0 then v else mpf_pos v prec r).
Definition mpf_frac (s : mpf) (prec : Z) (r : rnd) : res mpf :=
  do v <- mpf_floor s 0 RD; Ok (mpf_sub s v prec r).

(* ------------------------------------------------------------------ comparison, hashing *)

Definition mpf_eq (s t : mpf) : bool :=
  if (mman s =? 0) || (mman t =? 0) then
    if mpf_eqb s fnan || mpf_eqb t fnan then false else mpf_eqb s t
  else mpf_eqb s t.

Definition mpf_cmp (s t : mpf) : Z :=
  let '(Mpf ssign sman sexp sbc) := s in
  let '(Mpf tsign tman texp tbc) := t in
  if (sman =? 0) || (tman =? 0) then
    if mpf_eqb s fzero then - mpf_sign t else
    if mpf_eqb t fzero then mpf_sign s else
    if mpf_eqb s t then 0 else
    if mpf_eqb t fnan then 1 else
    if mpf_eqb s finf then 1 else
    if mpf_eqb t fninf then 1 else -1
  else
  if negb (ssign =? tsign) then (if ssign =? 0 then 1 else -1) else
  if sexp =? texp then
    if sman =? tman then 0
    else if tman <? sman then (if ssign =? 0 then 1 else -1)
    else (if ssign =? 0 then -1 else 1)
  else
  let a := sbc + sexp in
  let b := tbc + texp in
  if a <? b then (if ssign =? 0 then -1 else 1) else
  if b <? a then (if ssign =? 0 then 1 else -1) else
  let delta := mpf_sub s t 5 RF in
  if negb (msign delta =? 0) then -1 else 1.

Definition mpf_lt (s t : mpf) : bool :=
  if mpf_eqb s fnan || mpf_eqb t fnan then false else mpf_cmp s t <? 0.
Definition mpf_le (s t : mpf) : bool :=
  if mpf_eqb s fnan || mpf_eqb t fnan then false else mpf_cmp s t <=? 0.
Definition mpf_gt (s t : mpf) : bool :=
  if mpf_eqb s fnan || mpf_eqb t fnan then false else 0 <? mpf_cmp s t.
Definition mpf_ge (s t : mpf) : bool :=
  if mpf_eqb s fnan || mpf_eqb t fnan then false else 0 <=? mpf_cmp s t.

Definition HASH_MODULUS : Z := 2 ^ 61 - 1.
Definition HASH_BITS : Z := 61.
Definition HASH_INF : Z := 314159.
Definition HASH_NAN : Z := 0.

(* value returned by libmpf.mpf_hash (before CPython's own -1 -> -2 post-processing) *)
Definition mpf_hash (s : mpf) : Z :=
  let '(Mpf ssign sman sexp sbc) := s in
  if (sman =? 0) && mpf_eqb s fnan then HASH_NAN else
  if (sman =? 0) && mpf_eqb s finf then HASH_INF else
  if (sman =? 0) && mpf_eqb s fninf then - HASH_INF else
  let h := sman mod HASH_MODULUS in
  let e := if 0 <=? sexp then sexp mod HASH_BITS
           else HASH_BITS - 1 - ((-1 - sexp) mod HASH_BITS) in
  let h := (Z.shiftl h e) mod HASH_MODULUS in
  let h := if negb (ssign =? 0) then - h else h in
  if h =? -1 then -2 else h.

(* what the builtin hash() reports for an object whose __hash__ returned h
   (h already fits Py_ssize_t here): -1 is reserved *)
Definition py_hash_post (h : Z) : Z := if h =? -1 then -2 else h.

(* ------------------------------------------------------------------ fixed point, rationals *)

Definition to_fixed (s : mpf) (prec : Z) : Z :=
  let '(Mpf sign man exp bc) := s in
  let offset := exp + prec in
  let m := if sign =? 0 then man else - man in
  if 0 <=? offset then Z.shiftl m offset else Z.shiftr m (- offset).

Definition to_rational (s : mpf) : res (Z * Z) :=
  let '(Mpf sign man exp bc) := s in
  let man := if sign =? 0 then man else - man in
  if bc =? -1 then Err VE else
  if 0 <=? exp then Ok (man * Z.shiftl 1 exp, 1) else Ok (man, Z.shiftl 1 (- exp)).

(* ------------------------------------------------------------------ decimal strings (on the parsed pair) *)

(* from_str after str_to_man_exp: value man * 10^exp *)
Definition from_str_parts (man exp prec : Z) (r : rnd) : res mpf :=
  if 400 <? Z.abs exp then
    let s := from_int man (prec + 10) RD in
    do pw <- mpf_pow_int ften exp (prec + 10) RD;
    Ok (mpf_mul s pw prec r)
  else if 0 <=? exp then Ok (from_int (man * 10 ^ exp) prec r)
  else from_rational man (10 ^ (- exp)) prec r.
