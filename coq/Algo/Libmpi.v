(* Libmpi.v — Gallina transliteration of the arithmetic/comparison part of mpmath/libmp/libmpi.py.
   Model only.  An interval is a pair (a, b) of raw mpfs. *)
From Coq Require Import ZArith List Bool.
From MP Require Import Algo.Base Algo.Libmpf.
Import ListNotations.
Open Scope Z_scope.

Definition mpi := (mpf * mpf)%type.
Definition mpi_zero : mpi := (fzero, fzero).
Definition mpi_one : mpi := (fone, fone).

Definition mpi_eq (s t : mpi) : bool := mpf_eqb (fst s) (fst t) && mpf_eqb (snd s) (snd t).

(* three-valued comparisons: Some true / Some false / None *)
Definition mpi_lt (s t : mpi) : option bool :=
  if mpf_lt (snd s) (fst t) then Some true else if mpf_ge (fst s) (snd t) then Some false else None.
Definition mpi_le (s t : mpi) : option bool :=
  if mpf_le (snd s) (fst t) then Some true else if mpf_gt (fst s) (snd t) then Some false else None.
Definition mpi_gt (s t : mpi) := mpi_lt t s.
Definition mpi_ge (s t : mpi) := mpi_le t s.

Definition nan_to (x d : mpf) : mpf := if mpf_eqb x fnan then d else x.

Definition mpi_add (s t : mpi) (prec : Z) : mpi :=
  (nan_to (mpf_add (fst s) (fst t) prec RF) fninf, nan_to (mpf_add (snd s) (snd t) prec RC) finf).
Definition mpi_sub (s t : mpi) (prec : Z) : mpi :=
  (nan_to (mpf_sub (fst s) (snd t) prec RF) fninf, nan_to (mpf_sub (snd s) (fst t) prec RC) finf).
Definition mpi_delta (s : mpi) (prec : Z) : mpf := mpf_sub (snd s) (fst s) prec RU.
Definition mpi_mid (s : mpi) (prec : Z) : mpf := mpf_shift (mpf_add (fst s) (snd s) prec RN) (-1).
Definition mpi_pos (s : mpi) (prec : Z) : mpi := (mpf_pos (fst s) prec RF, mpf_pos (snd s) prec RC).
Definition mpi_neg (s : mpi) (prec : Z) : mpi := (mpf_neg (snd s) prec RF, mpf_neg (fst s) prec RC).
Definition mpi_shift (s : mpi) (n : Z) : mpi := (mpf_shift (fst s) n, mpf_shift (snd s) n).

Definition mpi_abs (s : mpi) (prec : Z) : mpi :=
  let '(sa, sb) := s in
  if 0 <=? mpf_sign sa then (mpf_pos sa prec RF, mpf_pos sb prec RC)
  else if 0 <=? mpf_sign sb then
    let negsa := mpf_neg sa 0 RD in
    (fzero, if mpf_lt negsa sb then mpf_pos sb prec RC else mpf_pos negsa prec RC)
  else (mpf_neg sb prec RF, mpf_neg sa prec RC).

(* mpf_min_max over a non-empty list *)
Fixpoint min_max_loop (xs : list mpf) (mn mx : mpf) : mpf * mpf :=
  match xs with
  | [] => (mn, mx)
  | x :: r => min_max_loop r (if mpf_lt x mn then x else mn) (if mpf_gt x mx then x else mx)
  end.
Definition mpf_min_max (xs : list mpf) : mpf * mpf :=
  match xs with [] => (fnan, fnan) | x :: r => min_max_loop r x x end.

Definition mpi_mul (s t : mpi) (prec : Z) : mpi :=
  let '(sa, sb) := s in let '(ta, tb) := t in
  let sas := mpf_sign sa in let sbs := mpf_sign sb in
  let tas := mpf_sign ta in let tbs := mpf_sign tb in
  if (sas =? 0) && (sbs =? 0) then
    (if mpf_eqb ta fninf || mpf_eqb tb finf then (fninf, finf) else (fzero, fzero))
  else if (tas =? 0) && (tbs =? 0) then
    (if mpf_eqb sa fninf || mpf_eqb sb finf then (fninf, finf) else (fzero, fzero))
  else if 0 <=? sas then
    if 0 <=? tas then (nan_to (mpf_mul sa ta prec RF) fzero, nan_to (mpf_mul sb tb prec RC) finf)
    else if tbs <=? 0 then (nan_to (mpf_mul sb ta prec RF) fninf, nan_to (mpf_mul sa tb prec RC) fzero)
    else (nan_to (mpf_mul sb ta prec RF) fninf, nan_to (mpf_mul sb tb prec RC) finf)
  else if sbs <=? 0 then
    if 0 <=? tas then (nan_to (mpf_mul sa tb prec RF) fninf, nan_to (mpf_mul sb ta prec RC) fzero)
    else if tbs <=? 0 then (nan_to (mpf_mul sb tb prec RF) fzero, nan_to (mpf_mul sa ta prec RC) finf)
    else (nan_to (mpf_mul sa tb prec RF) fninf, nan_to (mpf_mul sa ta prec RC) finf)
  else
    let cases := [mpf_mul sa ta 0 RD; mpf_mul sa tb 0 RD; mpf_mul sb ta 0 RD; mpf_mul sb tb 0 RD] in
    if existsb (fun x => mpf_eqb x fnan) cases then (fninf, finf)
    else let '(a, b) := mpf_min_max cases in (mpf_pos a prec RF, mpf_pos b prec RC).

Definition mpi_square (s : mpi) (prec : Z) : mpi :=
  let '(sa, sb) := s in
  if mpf_ge sa fzero then (mpf_mul sa sa prec RF, mpf_mul sb sb prec RC)
  else if mpf_le sb fzero then (mpf_mul sb sb prec RF, mpf_mul sa sa prec RC)
  else
    let sa' := mpf_neg sa 0 RD in
    let '(_, mx) := mpf_min_max [sa'; sb] in
    (fzero, mpf_mul mx mx prec RC).

Definition rnan (x : res mpf) (d : mpf) : res mpf := do v <- x; Ok (nan_to v d).

(* the part of mpi_div after the denominator has been made nonnegative *)
Definition mpi_div_core (s t : mpi) (prec : Z) : res mpi :=
  let '(sa, sb) := s in let '(ta, tb) := t in
  let sas := mpf_sign sa in let sbs := mpf_sign sb in
  let tas := mpf_sign ta in let tbs := mpf_sign tb in
  if tas =? 0 then
    if (sas <? 0) && (0 <? sbs) then Ok (fninf, finf) else
    if tas =? tbs then Ok (fninf, finf) else
    (* "if sas >= 0: a = sa/tb; b = inf"  then  "if sbs <= 0: a = -inf; b = sb/tb" (second overrides) *)
    if sbs <=? 0 then do b <- mpf_div sb tb prec RC;
                      (if 0 <=? sas then do _ <- mpf_div sa tb prec RF; Ok (fninf, b) else Ok (fninf, b))
    else if 0 <=? sas then do a <- mpf_div sa tb prec RF; Ok (a, finf)
    else Err IE
  else
    if 0 <=? sas then
      do a <- rnan (mpf_div sa tb prec RF) fzero; do b <- rnan (mpf_div sb ta prec RC) finf; Ok (a, b)
    else if sbs <=? 0 then
      do a <- rnan (mpf_div sa ta prec RF) fninf; do b <- rnan (mpf_div sb tb prec RC) fzero; Ok (a, b)
    else
      do a <- rnan (mpf_div sa ta prec RF) fninf; do b <- rnan (mpf_div sb ta prec RC) finf; Ok (a, b).

Definition mpi_div (s t : mpi) (prec : Z) : res mpi :=
  let '(sa, sb) := s in let '(ta, tb) := t in
  let sas := mpf_sign sa in let sbs := mpf_sign sb in
  let tas := mpf_sign ta in let tbs := mpf_sign tb in
  if (sas =? 0) && (sbs =? 0) then
    (if ((tas <? 0) && (0 <? tbs)) || ((tas =? 0) || (tbs =? 0)) then Ok (fninf, finf) else Ok (fzero, fzero))
  else if (tas <? 0) && (0 <? tbs) then Ok (fninf, finf)
  else if tas <? 0 then mpi_div_core (mpi_neg s 0) (mpi_neg t 0) prec
  else mpi_div_core s t prec.

Definition mpi_sqrt (s : mpi) (prec : Z) : res mpi :=
  do a <- mpf_sqrt (fst s) prec RF; do b <- mpf_sqrt (snd s) prec RC; Ok (a, b).

(* n > 0 *)
Definition mpi_pow_int_pos (s : mpi) (n prec : Z) : res mpi :=
  let '(sa, sb) := s in
  if n =? 1 then Ok s else
  if n =? 2 then Ok (mpi_square s prec) else
  if Z.odd n then
    do a <- mpf_pow_int sa n prec RF; do b <- mpf_pow_int sb n prec RC; Ok (a, b)
  else
    let sas := mpf_sign sa in let sbs := mpf_sign sb in
    if 0 <=? sas then do a <- mpf_pow_int sa n prec RF; do b <- mpf_pow_int sb n prec RC; Ok (a, b)
    else if sbs <=? 0 then do a <- mpf_pow_int sb n prec RF; do b <- mpf_pow_int sa n prec RC; Ok (a, b)
    else
      let sa' := mpf_neg sa 0 RD in
      do b <- (if mpf_ge sa' sb then mpf_pow_int sa' n prec RC else mpf_pow_int sb n prec RC);
      Ok (fzero, b).

Definition mpi_pow_int (s : mpi) (n prec : Z) : res mpi :=
  if n =? 0 then Ok mpi_one else
  if 0 <? n then mpi_pow_int_pos s n prec else
  do w <- mpi_pow_int_pos s (- n) (prec + 20); mpi_div mpi_one w prec.

(* _mpi_outward(f, x, prec, rounding): v = f(x, prec+20, rounding) is an input of the model (the elementary function is not
   modelled); the value is moved outward by a factor 1 +- 2^(10-wp) before the final directed rounding *)
Definition mpi_outward (v : mpf) (prec : Z) (r : rnd) : mpf :=
  let wp := prec + 20 in
  if mman v =? 0 then v else
  let p := if Bool.eqb (negb (msign v =? 0)) (rnd_eqb r RF)
           then from_man_exp (Z.shiftl 1 wp + Z.shiftl 1 10) (- wp) 0 RD
           else from_man_exp (Z.shiftl 1 wp - Z.shiftl 1 10) (- wp) 0 RD in
  mpf_mul v p prec r.
(* mpi_exp / mpi_log from the point values va = mpf_exp(sa, prec+20, 'f'), vb = mpf_exp(sb, prec+20, 'c') *)
Definition mpi_exp_from (s : mpi) (va vb : mpf) (prec : Z) : mpi :=
  ((if mpf_eqb (fst s) fzero then fone else mpi_outward va prec RF),
   (if mpf_eqb (snd s) fzero then fone else mpi_outward vb prec RC)).
Definition mpi_log_from (va vb : mpf) (prec : Z) : mpi := (mpi_outward va prec RF, mpi_outward vb prec RC).

(* mpi_cos_sin(x, prec) from the two values of cos_sin_quadrant at the end points (working precision prec + 20):
   qa = (cos a, sin a, na), qb = (cos b, sin b, nb) with n the index of the quadrant [n pi/2, (n+1) pi/2] holding the point.
   These are inputs of the model (mpf_cos_sin and mod_pi2 are not modelled). *)
Definition mpi_finalize (v : mpf) (prec : Z) (r : rnd) : mpf :=
  let wp := prec + 20 in
  let p := if Bool.eqb (negb (msign v =? 0)) (rnd_eqb r RF)
           then from_man_exp (Z.shiftl 1 wp + Z.shiftl 1 10) (- wp) 0 RD
           else from_man_exp (Z.shiftl 1 wp - Z.shiftl 1 10) (- wp) 0 RD in
  let w := mpf_mul v p prec r in
  if 1 <=? mexp w + mbc w then (if negb (msign w =? 0) then fnone else fone) else w.

Definition mpi_full : mpi := (fnone, fone).

Definition mpi_cos_sin_from (x : mpi) (qa qb : mpf * mpf * Z) (prec : Z) : mpi * mpi :=
  let '(a, b) := x in
  if mpf_eqb a fzero && mpf_eqb b fzero then ((fone, fone), (fzero, fzero)) else
  if mpf_eqb a finf || mpf_eqb b finf || mpf_eqb a fninf || mpf_eqb b fninf then (mpi_full, mpi_full) else
  let '(ca, sa, na) := qa in
  let '(cb, sb, nb) := qb in
  let '(ca, cb) := mpf_min_max [ca; cb] in
  let '(sa, sb) := mpf_min_max [sa; sb] in
  if negb (na =? nb) && (4 <=? nb - na) then (mpi_full, mpi_full) else
  let same := na =? nb in
  let cb := if negb same && negb (na / 4 =? nb / 4) then fone else cb in
  let ca := if negb same && negb ((na - 2) / 4 =? (nb - 2) / 4) then fnone else ca in
  let sb := if negb same && negb ((na - 1) / 4 =? (nb - 1) / 4) then fone else sb in
  let sa := if negb same && negb ((na - 3) / 4 =? (nb - 3) / 4) then fnone else sa in
  ((mpi_finalize ca prec RF, mpi_finalize cb prec RC), (mpi_finalize sa prec RF, mpi_finalize sb prec RC)).

(* mpi_tan / mpi_cot: cos, sin = mpi_cos_sin(x, prec + 20); mpi_div(sin, cos, prec) (resp. cos / sin) *)
Definition mpi_tan_from (x : mpi) (qa qb : mpf * mpf * Z) (prec : Z) : res mpi :=
  let '(c, s) := mpi_cos_sin_from x qa qb (prec + 20) in mpi_div s c prec.
Definition mpi_cot_from (x : mpi) (qa qb : mpf * mpf * Z) (prec : Z) : res mpi :=
  let '(c, s) := mpi_cos_sin_from x qa qb (prec + 20) in mpi_div c s prec.

(* mpi_pow(s, t, prec), general branch (t not a point integer / one half): exp(t * log s).
   la, lb = mpf_log at the end points of s (working precision prec + 40), ea, eb = mpf_exp at the end points of the
   product interval (working precision prec + 20): inputs of the model *)
Definition mpi_pow_v (t : mpi) (la lb : mpf) (prec : Z) : mpi :=
  mpi_mul (mpi_log_from la lb (prec + 20)) t (prec + 20).
Definition mpi_pow_from (t : mpi) (la lb ea eb : mpf) (prec : Z) : mpi :=
  mpi_exp_from (mpi_pow_v t la lb prec) ea eb prec.

(* mpi_cosh_sinh(x, prec) from va, vb = mpf_exp at the end points of x (working precision prec + 40) *)
Definition mpi_cosh_sinh_from (x : mpi) (va vb : mpf) (prec : Z) : res (mpi * mpi) :=
  let wp := prec + 20 in
  let e1 := mpi_exp_from x va vb wp in
  do e2 <- mpi_div mpi_one e1 wp;
  Ok (mpi_shift (mpi_add e1 e2 prec) (-1), mpi_shift (mpi_sub e1 e2 prec) (-1)).

(* mpi_atan2(y, x, prec): the end points are mpf_atan2 (not modelled) at two corners of the rectangle, chosen by sign tests;
   the plan says which (corners are (y, x) argument pairs; lower end point first) *)
Inductive at2 := AtZero | AtPi | AtZeroPi | AtCorners (ca cb : mpf * mpf) | AtOrigin.
Definition mpi_atan2_plan (y x : mpi) : at2 :=
  let '(ya, yb) := y in let '(xa, xb) := x in
  if mpf_eqb ya fzero && mpf_eqb yb fzero then
    (if mpf_ge xa fzero then AtZero else if mpf_lt xb fzero then AtPi else AtZeroPi) else
  if mpf_ge xa fzero then
    AtCorners (if mpf_ge ya fzero then (ya, xb) else (ya, xa)) (if mpf_ge yb fzero then (yb, xa) else (yb, xb))
  else if mpf_ge ya fzero then
    AtCorners (if mpf_le xb fzero then (yb, xb) else (ya, xb)) (ya, xa)
  else if mpf_lt yb fzero then
    AtCorners (yb, xa) (if mpf_le xb fzero then (ya, xb) else (yb, xb))
  else AtOrigin.

(* ---- complex intervals ---- *)
Definition mpci := (mpi * mpi)%type.
Definition mpci_add (x y : mpci) (prec : Z) : mpci := (mpi_add (fst x) (fst y) prec, mpi_add (snd x) (snd y) prec).
Definition mpci_sub (x y : mpci) (prec : Z) : mpci := (mpi_sub (fst x) (fst y) prec, mpi_sub (snd x) (snd y) prec).
Definition mpci_neg (x : mpci) (prec : Z) : mpci := (mpi_neg (fst x) prec, mpi_neg (snd x) prec).
Definition mpci_pos (x : mpci) (prec : Z) : mpci := (mpi_pos (fst x) prec, mpi_pos (snd x) prec).
Definition mpci_mul (x y : mpci) (prec : Z) : mpci :=
  let '(a, b) := x in let '(c, d) := y in
  (mpi_sub (mpi_mul a c 0) (mpi_mul b d 0) prec, mpi_add (mpi_mul a d 0) (mpi_mul b c 0) prec).
Definition mpci_square (x : mpci) (prec : Z) : mpci :=
  let '(a, b) := x in
  (mpi_sub (mpi_square a 0) (mpi_square b 0) prec, mpi_shift (mpi_mul a b prec) 1).
Definition mpci_div (x y : mpci) (prec : Z) : res mpci :=
  let '(a, b) := x in let '(c, d) := y in
  let wp := prec + 20 in
  let m := mpi_add (mpi_square c 0) (mpi_square d 0) wp in
  let re := mpi_add (mpi_mul a c 0) (mpi_mul b d 0) wp in
  let im := mpi_sub (mpi_mul b c 0) (mpi_mul a d 0) wp in
  do re' <- mpi_div re m prec; do im' <- mpi_div im m prec; Ok (re', im').

Fixpoint mpci_pow_loop (n : positive) (result x : mpci) (wp : Z) : mpci :=
  match n with
  | xH => mpci_mul result x wp
  | xO n' => mpci_pow_loop n' result (mpci_square x wp) wp
  | xI n' => mpci_pow_loop n' (mpci_mul result x wp) (mpci_square x wp) wp
  end.

Definition mpci_pow_int_pos (x : mpci) (n : positive) (prec : Z) : mpci :=
  if Zpos n =? 1 then mpci_pos x prec else
  if Zpos n =? 2 then mpci_square x prec else
  mpci_pos (mpci_pow_loop n (mpi_one, mpi_zero) x (prec + 20)) prec.

Definition mpci_pow_int (x : mpci) (n prec : Z) : res mpci :=
  match n with
  | Z0 => Ok (mpi_one, mpi_zero)
  | Zpos p => Ok (mpci_pow_int_pos x p prec)
  | Zneg p => mpci_div (mpi_one, mpi_zero) (mpci_pow_int_pos x p (prec + 20)) prec
  end.

(* mpci_abs(x, prec) *)
Definition mpci_abs (x : mpci) (prec : Z) : res mpi :=
  let '(a, b) := x in
  if mpi_eq a mpi_zero then Ok (mpi_abs b 0) else
  if mpi_eq b mpi_zero then Ok (mpi_abs a 0) else
  mpi_sqrt (mpi_add (mpi_square a 0) (mpi_square b 0) (prec + 20)) prec.

(* mpci_exp(x, prec) from the exp values at the end points of the real part and the quadrant values at the end points of
   the imaginary part (working precision prec + 40) *)
Definition mpci_exp_from (x : mpci) (va vb : mpf) (qa qb : mpf * mpf * Z) (prec : Z) : mpci :=
  let wp := prec + 20 in
  let r := mpi_exp_from (fst x) va vb wp in
  let '(c, s) := mpi_cos_sin_from (snd x) qa qb wp in
  (mpi_mul r c prec, mpi_mul r s prec).

(* mpci_cos / mpci_sin (x = a + i b, working precision prec + 10) from the quadrant values of a and the exp values of b *)
Definition mpci_cos_from (x : mpci) (qa qb : mpf * mpf * Z) (va vb : mpf) (prec : Z) : res mpci :=
  let wp := prec + 10 in
  let '(c, s) := mpi_cos_sin_from (fst x) qa qb wp in
  do chsh <- mpi_cosh_sinh_from (snd x) va vb wp;
  let '(ch, sh) := chsh in
  Ok (mpi_mul c ch prec, mpi_neg (mpi_mul s sh prec) 0).
Definition mpci_sin_from (x : mpci) (qa qb : mpf * mpf * Z) (va vb : mpf) (prec : Z) : res mpci :=
  let wp := prec + 10 in
  let '(c, s) := mpi_cos_sin_from (fst x) qa qb wp in
  do chsh <- mpi_cosh_sinh_from (snd x) va vb wp;
  let '(ch, sh) := chsh in
  Ok (mpi_mul s ch prec, mpi_mul c sh prec).
