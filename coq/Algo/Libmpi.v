(* Libmpi.v — Gallina transliteration of the arithmetic/comparison part of mpmath/libmp/libmpi.py.
   Model only.  An interval is a pair (a, b) of raw mpfs. *)
From Coq Require Import ZArith List Bool.
From MP Require Import Algo.Base Algo.Libmpf.
Import ListNotations.
Open Scope Z_scope.

Definition mpi := (mpf * mpf)%type.
Definition mpi_zero : mpi := (fzero, fzero).
Definition mpi_one : mpi := (fone, fone).

Definition mpi_eq (s t : mpi) : bool := mpf_eqb (fst s) (fst t) && mpf_eqb (snd s) (snd t).

(* three-valued comparisons: Some true / Some false / None *)
Definition mpi_lt (s t : mpi) : option bool :=
  if mpf_lt (snd s) (fst t) then Some true else if mpf_ge (fst s) (snd t) then Some false else None.
Definition mpi_le (s t : mpi) : option bool :=
  if mpf_le (snd s) (fst t) then Some true else if mpf_gt (fst s) (snd t) then Some false else None.
Definition mpi_gt (s t : mpi) := mpi_lt t s.
Definition mpi_ge (s t : mpi) := mpi_le t s.

Definition nan_to (x d : mpf) : mpf := if mpf_eqb x fnan then d else x.

Definition mpi_add (s t : mpi) (prec : Z) : mpi :=
  (nan_to (mpf_add (fst s) (fst t) prec RF) fninf, nan_to (mpf_add (snd s) (snd t) prec RC) finf).
Definition mpi_sub (s t : mpi) (prec : Z) : mpi :=
  (nan_to (mpf_sub (fst s) (snd t) prec RF) fninf, nan_to (mpf_sub (snd s) (fst t) prec RC) finf).
Definition mpi_delta (s : mpi) (prec : Z) : mpf := mpf_sub (snd s) (fst s) prec RU.
Definition mpi_mid (s : mpi) (prec : Z) : mpf := mpf_shift (mpf_add (fst s) (snd s) prec RN) (-1).
Definition mpi_pos (s : mpi) (prec : Z) : mpi := (mpf_pos (fst s) prec RF, mpf_pos (snd s) prec RC).
Definition mpi_neg (s : mpi) (prec : Z) : mpi := (mpf_neg (snd s) prec RF, mpf_neg (fst s) prec RC).
Definition mpi_shift (s : mpi) (n : Z) : mpi := (mpf_shift (fst s) n, mpf_shift (snd s) n).

Definition mpi_abs (s : mpi) (prec : Z) : mpi :=
  let '(sa, sb) := s in
  if 0 <=? mpf_sign sa then (mpf_pos sa prec RF, mpf_pos sb prec RC)
  else if 0 <=? mpf_sign sb then
    let negsa := mpf_neg sa 0 RD in
    (fzero, if mpf_lt negsa sb then mpf_pos sb prec RC else mpf_pos negsa prec RC)
  else (mpf_neg sb prec RF, mpf_neg sa prec RC).

(* mpf_min_max over a non-empty list *)
Fixpoint min_max_loop (xs : list mpf) (mn mx : mpf) : mpf * mpf :=
  match xs with
  | [] => (mn, mx)
  | x :: r => min_max_loop r (if mpf_lt x mn then x else mn) (if mpf_gt x mx then x else mx)
  end.
Definition mpf_min_max (xs : list mpf) : mpf * mpf :=
  match xs with [] => (fnan, fnan) | x :: r => min_max_loop r x x end.

Definition mpi_mul (s t : mpi) (prec : Z) : mpi :=
  let '(sa, sb) := s in let '(ta, tb) := t in
  let sas := mpf_sign sa in let sbs := mpf_sign sb in
  let tas := mpf_sign ta in let tbs := mpf_sign tb in
  if (sas =? 0) && (sbs =? 0) then
    (if mpf_eqb ta fninf || mpf_eqb tb finf then (fninf, finf) else (fzero, fzero))
  else if (tas =? 0) && (tbs =? 0) then
    (if mpf_eqb sa fninf || mpf_eqb sb finf then (fninf, finf) else (fzero, fzero))
  else if 0 <=? sas then
    if 0 <=? tas then (nan_to (mpf_mul sa ta prec RF) fzero, nan_to (mpf_mul sb tb prec RC) finf)
    else if tbs <=? 0 then (nan_to (mpf_mul sb ta prec RF) fninf, nan_to (mpf_mul sa tb prec RC) fzero)
    else (nan_to (mpf_mul sb ta prec RF) fninf, nan_to (mpf_mul sb tb prec RC) finf)
  else if sbs <=? 0 then
    if 0 <=? tas then (nan_to (mpf_mul sa tb prec RF) fninf, nan_to (mpf_mul sb ta prec RC) fzero)
    else if tbs <=? 0 then (nan_to (mpf_mul sb tb prec RF) fzero, nan_to (mpf_mul sa ta prec RC) finf)
    else (nan_to (mpf_mul sa tb prec RF) fninf, nan_to (mpf_mul sa ta prec RC) finf)
  else
    let cases := [mpf_mul sa ta 0 RD; mpf_mul sa tb 0 RD; mpf_mul sb ta 0 RD; mpf_mul sb tb 0 RD] in
    if existsb (fun x => mpf_eqb x fnan) cases then (fninf, finf)
    else let '(a, b) := mpf_min_max cases in (mpf_pos a prec RF, mpf_pos b prec RC).

Definition mpi_square (s : mpi) (prec : Z) : mpi :=
  let '(sa, sb) := s in
  if mpf_ge sa fzero then (mpf_mul sa sa prec RF, mpf_mul sb sb prec RC)
  else if mpf_le sb fzero then (mpf_mul sb sb prec RF, mpf_mul sa sa prec RC)
  else
    let sa' := mpf_neg sa 0 RD in
    let '(_, mx) := mpf_min_max [sa'; sb] in
    (fzero, mpf_mul mx mx prec RC).

Definition rnan (x : res mpf) (d : mpf) : res mpf := do v <- x; Ok (nan_to v d).

(* the part of mpi_div after the denominator has been made nonnegative *)
Definition mpi_div_core (s t : mpi) (prec : Z) : res mpi :=
  let '(sa, sb) := s in let '(ta, tb) := t in
  let sas := mpf_sign sa in let sbs := mpf_sign sb in
  let tas := mpf_sign ta in let tbs := mpf_sign tb in
  if tas =? 0 then
    if (sas <? 0) && (0 <? sbs) then Ok (fninf, finf) else
    if tas =? tbs then Ok (fninf, finf) else
    (* "if sas >= 0: a = sa/tb; b = inf"  then  "if sbs <= 0: a = -inf; b = sb/tb" (second overrides) *)
    if sbs <=? 0 then do b <- mpf_div sb tb prec RC;
                      (if 0 <=? sas then do _ <- mpf_div sa tb prec RF; Ok (fninf, b) else Ok (fninf, b))
    else if 0 <=? sas then do a <- mpf_div sa tb prec RF; Ok (a, finf)
    else Err IE
  else
    if 0 <=? sas then
      do a <- rnan (mpf_div sa tb prec RF) fzero; do b <- rnan (mpf_div sb ta prec RC) finf; Ok (a, b)
    else if sbs <=? 0 then
      do a <- rnan (mpf_div sa ta prec RF) fninf; do b <- rnan (mpf_div sb tb prec RC) fzero; Ok (a, b)
    else
      do a <- rnan (mpf_div sa ta prec RF) fninf; do b <- rnan (mpf_div sb ta prec RC) finf; Ok (a, b).

Definition mpi_div (s t : mpi) (prec : Z) : res mpi :=
  let '(sa, sb) := s in let '(ta, tb) := t in
  let sas := mpf_sign sa in let sbs := mpf_sign sb in
  let tas := mpf_sign ta in let tbs := mpf_sign tb in
  if (sas =? 0) && (sbs =? 0) then
    (if ((tas <? 0) && (0 <? tbs)) || ((tas =? 0) || (tbs =? 0)) then Ok (fninf, finf) else Ok (fzero, fzero))
  else if (tas <? 0) && (0 <? tbs) then Ok (fninf, finf)
  else if tas <? 0 then mpi_div_core (mpi_neg s 0) (mpi_neg t 0) prec
  else mpi_div_core s t prec.

Definition mpi_sqrt (s : mpi) (prec : Z) : res mpi :=
  do a <- mpf_sqrt (fst s) prec RF; do b <- mpf_sqrt (snd s) prec RC; Ok (a, b).

(* n > 0 *)
Definition mpi_pow_int_pos (s : mpi) (n prec : Z) : res mpi :=
  let '(sa, sb) := s in
  if n =? 1 then Ok s else
  if n =? 2 then Ok (mpi_square s prec) else
  if Z.odd n then
    do a <- mpf_pow_int sa n prec RF; do b <- mpf_pow_int sb n prec RC; Ok (a, b)
  else
    let sas := mpf_sign sa in let sbs := mpf_sign sb in
    if 0 <=? sas then do a <- mpf_pow_int sa n prec RF; do b <- mpf_pow_int sb n prec RC; Ok (a, b)
    else if sbs <=? 0 then do a <- mpf_pow_int sb n prec RF; do b <- mpf_pow_int sa n prec RC; Ok (a, b)
    else
      let sa' := mpf_neg sa 0 RD in
      do b <- (if mpf_ge sa' sb then mpf_pow_int sa' n prec RC else mpf_pow_int sb n prec RC);
      Ok (fzero, b).

Definition mpi_pow_int (s : mpi) (n prec : Z) : res mpi :=
  if n =? 0 then Ok mpi_one else
  if 0 <? n then mpi_pow_int_pos s n prec else
  do w <- mpi_pow_int_pos s (- n) (prec + 20); mpi_div mpi_one w prec.

(* ---- complex intervals ---- *)
Definition mpci := (mpi * mpi)%type.
Definition mpci_add (x y : mpci) (prec : Z) : mpci := (mpi_add (fst x) (fst y) prec, mpi_add (snd x) (snd y) prec).
Definition mpci_sub (x y : mpci) (prec : Z) : mpci := (mpi_sub (fst x) (fst y) prec, mpi_sub (snd x) (snd y) prec).
Definition mpci_neg (x : mpci) (prec : Z) : mpci := (mpi_neg (fst x) prec, mpi_neg (snd x) prec).
Definition mpci_pos (x : mpci) (prec : Z) : mpci := (mpi_pos (fst x) prec, mpi_pos (snd x) prec).
Definition mpci_mul (x y : mpci) (prec : Z) : mpci :=
  let '(a, b) := x in let '(c, d) := y in
  (mpi_sub (mpi_mul a c 0) (mpi_mul b d 0) prec, mpi_add (mpi_mul a d 0) (mpi_mul b c 0) prec).
Definition mpci_square (x : mpci) (prec : Z) : mpci :=
  let '(a, b) := x in
  (mpi_sub (mpi_square a 0) (mpi_square b 0) prec, mpi_shift (mpi_mul a b prec) 1).
Definition mpci_div (x y : mpci) (prec : Z) : res mpci :=
  let '(a, b) := x in let '(c, d) := y in
  let wp := prec + 20 in
  let m := mpi_add (mpi_square c 0) (mpi_square d 0) wp in
  let re := mpi_add (mpi_mul a c 0) (mpi_mul b d 0) wp in
  let im := mpi_sub (mpi_mul b c 0) (mpi_mul a d 0) wp in
  do re' <- mpi_div re m prec; do im' <- mpi_div im m prec; Ok (re', im').

Fixpoint mpci_pow_loop (n : positive) (result x : mpci) (wp : Z) : mpci :=
  match n with
  | xH => mpci_mul result x wp
  | xO n' => mpci_pow_loop n' result (mpci_square x wp) wp
  | xI n' => mpci_pow_loop n' (mpci_mul result x wp) (mpci_square x wp) wp
  end.

Definition mpci_pow_int_pos (x : mpci) (n : positive) (prec : Z) : mpci :=
  if Zpos n =? 1 then mpci_pos x prec else
  if Zpos n =? 2 then mpci_square x prec else
  mpci_pos (mpci_pow_loop n (mpi_one, mpi_zero) x (prec + 20)) prec.

Definition mpci_pow_int (x : mpci) (n prec : Z) : res mpci :=
  match n with
  | Z0 => Ok (mpi_one, mpi_zero)
  | Zpos p => Ok (mpci_pow_int_pos x p prec)
  | Zneg p => mpci_div (mpi_one, mpi_zero) (mpci_pow_int_pos x p (prec + 20)) prec
  end.
