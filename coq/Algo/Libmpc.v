(* Libmpc.v — Gallina transliteration of the arithmetic part of mpmath/libmp/libmpc.py. Model only. *)
From Coq Require Import ZArith List Bool.
From MP Require Import Algo.Base Algo.Libmpf.
Import ListNotations.
Open Scope Z_scope.

Definition mpc := (mpf * mpf)%type.
Definition mpc_zero : mpc := (fzero, fzero).
Definition mpc_one : mpc := (fone, fzero).

Definition mpc_eqb (z w : mpc) : bool := mpf_eqb (fst z) (fst w) && mpf_eqb (snd z) (snd w).
Definition mpc_is_nonzero (z : mpc) : bool := negb (mpc_eqb z mpc_zero).

Definition mpc_hash (z : mpc) : Z :=
  let h := mpf_hash (fst z) + 1000003 * mpf_hash (snd z) in
  let h := h mod 2 ^ 64 in
  let h := if 2 ^ 63 <=? h then h - 2 ^ 64 else h in
  if h =? -1 then -2 else h.

Definition mpc_conjugate (z : mpc) (prec : Z) (r : rnd) : mpc := (fst z, mpf_neg (snd z) prec r).
Definition mpc_add (z w : mpc) (prec : Z) (r : rnd) : mpc :=
  (mpf_add (fst z) (fst w) prec r, mpf_add (snd z) (snd w) prec r).
Definition mpc_add_mpf (z : mpc) (x : mpf) (prec : Z) (r : rnd) : mpc := (mpf_add (fst z) x prec r, snd z).
Definition mpc_sub (z w : mpc) (prec : Z) (r : rnd) : mpc :=
  (mpf_sub (fst z) (fst w) prec r, mpf_sub (snd z) (snd w) prec r).
Definition mpc_sub_mpf (z : mpc) (x : mpf) (prec : Z) (r : rnd) : mpc := (mpf_sub (fst z) x prec r, snd z).
Definition mpc_pos (z : mpc) (prec : Z) (r : rnd) : mpc := (mpf_pos (fst z) prec r, mpf_pos (snd z) prec r).
Definition mpc_neg (z : mpc) (prec : Z) (r : rnd) : mpc := (mpf_neg (fst z) prec r, mpf_neg (snd z) prec r).
Definition mpc_shift (z : mpc) (n : Z) : mpc := (mpf_shift (fst z) n, mpf_shift (snd z) n).
Definition mpc_abs (z : mpc) (prec : Z) (r : rnd) : res mpf := mpf_hypot (fst z) (snd z) prec r.

Definition lift2 (f : mpf -> Z -> rnd -> res mpf) (z : mpc) (prec : Z) (r : rnd) : res mpc :=
  do a <- f (fst z) prec r; do b <- f (snd z) prec r; Ok (a, b).
Definition mpc_floor := lift2 mpf_floor.
Definition mpc_ceil := lift2 mpf_ceil.
Definition mpc_nint := lift2 mpf_nint.
Definition mpc_frac := lift2 mpf_frac.

Definition mpc_mul (z w : mpc) (prec : Z) (r : rnd) : mpc :=
  let '(a, b) := z in let '(c, d) := w in
  let p := mpf_mul a c 0 RD in
  let q := mpf_mul b d 0 RD in
  let rr := mpf_mul a d 0 RD in
  let s := mpf_mul b c 0 RD in
  (mpf_sub p q prec r, mpf_add rr s prec r).

Definition mpc_square (z : mpc) (prec : Z) (r : rnd) : mpc :=
  let '(a, b) := z in
  let p := mpf_mul a a 0 RD in
  let q := mpf_mul b b 0 RD in
  let rr := mpf_mul a b prec r in
  (mpf_sub p q prec r, mpf_shift rr 1).

Definition mpc_mul_mpf (z : mpc) (p : mpf) (prec : Z) (r : rnd) : mpc :=
  (mpf_mul (fst z) p prec r, mpf_mul (snd z) p prec r).
Definition mpc_mul_imag_mpf (z : mpc) (x : mpf) (prec : Z) (r : rnd) : mpc :=
  (mpf_neg (mpf_mul (snd z) x prec r) 0 RD, mpf_mul (fst z) x prec r).
Definition mpc_mul_int (z : mpc) (n prec : Z) (r : rnd) : mpc :=
  (mpf_mul_int (fst z) n prec r, mpf_mul_int (snd z) n prec r).

Definition mpc_div (z w : mpc) (prec : Z) (r : rnd) : res mpc :=
  let '(a, b) := z in let '(c, d) := w in
  let wp := prec + 10 in
  let mag := mpf_add (mpf_mul c c 0 RD) (mpf_mul d d 0 RD) wp RD in
  let t := mpf_add (mpf_mul a c 0 RD) (mpf_mul b d 0 RD) wp RD in
  let u := mpf_sub (mpf_mul b c 0 RD) (mpf_mul a d 0 RD) wp RD in
  do re <- mpf_div t mag prec r; do im <- mpf_div u mag prec r; Ok (re, im).

Definition mpc_div_mpf (z : mpc) (p : mpf) (prec : Z) (r : rnd) : res mpc :=
  do re <- mpf_div (fst z) p prec r; do im <- mpf_div (snd z) p prec r; Ok (re, im).

Definition mpc_reciprocal (z : mpc) (prec : Z) (r : rnd) : res mpc :=
  let '(a, b) := z in
  let m := mpf_add (mpf_mul a a 0 RD) (mpf_mul b b 0 RD) (prec + 10) RD in
  do re <- mpf_div a m prec r; do im <- mpf_div b m prec r; Ok (re, mpf_neg im 0 RD).

Definition mpc_mpf_div (p : mpf) (z : mpc) (prec : Z) (r : rnd) : res mpc :=
  let '(a, b) := z in
  let m := mpf_add (mpf_mul a a 0 RD) (mpf_mul b b 0 RD) (prec + 10) RD in
  do re <- mpf_div (mpf_mul a p 0 RD) m prec r;
  do im <- mpf_div (mpf_neg (mpf_mul b p 0 RD) 0 RD) m prec r; Ok (re, im).

(* complex_int_pow(a, b, n): (a+bi)^n over Z[i], n > 0, loop on the bits of n *)
Fixpoint cip_loop (n : positive) (wre wim a b : Z) : Z * Z :=
  let mulin := (wre * a - wim * b, wim * a + wre * b) in
  let sq := (a * a - b * b, 2 * a * b) in
  match n with
  | xH => mulin
  | xO n' => cip_loop n' wre wim (fst sq) (snd sq)
  | xI n' => cip_loop n' (fst mulin) (snd mulin) (fst sq) (snd sq)
  end.
Definition complex_int_pow (a b n : Z) : Z * Z :=
  match n with Zpos p => cip_loop p 1 0 a b | _ => (1, 0) end.

(* mpc_pow_int for n >= 0 except the exp/log fallback, which is not modelled (Err IE) *)
Definition mpc_pow_int_nonneg (z : mpc) (n prec : Z) (r : rnd) : res mpc :=
  let '(a, b) := z in
  if mpf_eqb b fzero then do v <- mpf_pow_int a n prec r; Ok (v, fzero) else
  if mpf_eqb a fzero then
    do v <- mpf_pow_int b n prec r;
    let k := n mod 4 in
    Ok (if k =? 0 then (v, fzero) else if k =? 1 then (fzero, v)
        else if k =? 2 then (mpf_neg v 0 RD, fzero) else (fzero, mpf_neg v 0 RD))
  else
  if n =? 0 then Ok mpc_one else
  if n =? 1 then Ok (mpc_pos z prec r) else
  if n =? 2 then Ok (mpc_square z prec r) else
  let aman := if msign a =? 0 then mman a else - mman a in
  let bman := if msign b =? 0 then mman b else - mman b in
  let de := mexp a - mexp b in
  let exact_size := n * (Z.abs de + Z.max (mbc a) (mbc b)) in
  if exact_size <? 10000 then
    let '(aman, aexp, bman, bexp) :=
      if 0 <? de then (Z.shiftl aman de, mexp b, bman, mexp b)
      else (aman, mexp a, Z.shiftl bman (- de), mexp a) in
    let '(re, im) := complex_int_pow aman bman n in
    Ok (from_man_exp re (n * aexp) prec r, from_man_exp im (n * bexp) prec r)
  else Err IE.

Definition mpc_pow_int (z : mpc) (n prec : Z) (r : rnd) : res mpc :=
  let '(a, b) := z in
  if mpf_eqb b fzero || mpf_eqb a fzero then mpc_pow_int_nonneg z n prec r  (* these branches accept any n *)
  else if 0 <=? n then mpc_pow_int_nonneg z n prec r
  else if n =? -1 then mpc_reciprocal z prec r
  else do w <- mpc_pow_int_nonneg z (- n) (prec + 4) RD; mpc_reciprocal w prec r.

Definition mpc_sqrt (z : mpc) (prec : Z) (r : rnd) : res mpc :=
  let '(a, b) := z in
  if mpf_eqb b fzero then
    if mpf_eqb a fzero then Ok (a, b) else
    if negb (msign a =? 0) then do im <- mpf_sqrt (mpf_neg a 0 RD) prec r; Ok (fzero, im)
    else do re <- mpf_sqrt a prec r; Ok (re, fzero)
  else
  let wp := prec + 20 in
  do ab <- mpf_hypot a b wp RD;
  if msign a =? 0 then
    let t := mpf_add ab a wp RD in
    let u := mpf_shift t (-1) in
    do re <- mpf_sqrt u prec r;
    let v := mpf_shift t 1 in
    do w <- mpf_sqrt v wp RD;
    do im <- mpf_div b w prec r; Ok (re, im)
  else
    let t := mpf_sub ab a wp RD in
    let u := mpf_shift t (-1) in
    do im <- mpf_sqrt u prec r;
    let v := mpf_shift t 1 in
    do w <- mpf_sqrt v wp RD;
    do re <- mpf_div b w prec r;
    if negb (msign b =? 0) then Ok (mpf_neg re 0 RD, mpf_neg im 0 RD) else Ok (re, im).
