(* Dispatch.v — uniform entry point of the extracted model used by the correspondence
   check: [dispatch name args] with everything encoded as lists of Z.
   Encodings: mpf = 4 ints; rnd = 0..4 for n f c d u; bool = 0/1;
   result = 0 :: payload for a normal return, 1 :: [code] for a Python exception,
   2 :: [] for "unknown function / malformed arguments" (harness bug, never a verdict). *)
From Coq Require Import ZArith List Bool String.
From MP Require Import Algo.Base Algo.Libmpf Algo.Libmpc Algo.Libmpi Algo.Ctxfun Algo.Str Algo.Caches Algo.Ctxstore Algo.Isqrt.
Import ListNotations.
Open Scope Z_scope.

Definition rnd_of_Z (z : Z) : rnd :=
  match z with 0 => RN | 1 => RF | 2 => RC | 3 => RD | _ => RU end.

Definition err_code (e : err) : Z :=
  match e with ZDE => 1 | VE => 2 | CR => 3 | NIE => 4 | TE => 5 | OVF => 6 | IE => 7 end.

Definition enc_mpf (x : mpf) : list Z := [msign x; mman x; mexp x; mbc x].
Definition out_mpf (x : mpf) : list Z := 0 :: enc_mpf x.
Definition out_res {A} (enc : A -> list Z) (x : res A) : list Z :=
  match x with Ok a => 0 :: enc a | Err e => [1; err_code e] end.
Definition enc_bool (b : bool) : list Z := [if b then 1 else 0].
Definition bad : list Z := [2].

Fixpoint dec_mpfs (l : list Z) : list mpf :=
  match l with
  | a :: b :: c :: d :: rest => Mpf a b c d :: dec_mpfs rest
  | _ => []
  end.

Definition handler := list Z -> option (list Z).

Definition table_mpf : list (string * handler) := [
  ("normalize"%string, fun a => match a with [s; m; e; b; p; r] => Some (out_mpf (normalize s m e b p (rnd_of_Z r))) | _ => None end);
  ("normalize1"%string, fun a => match a with [s; m; e; b; p; r] => Some (out_mpf (normalize1 s m e b p (rnd_of_Z r))) | _ => None end);
  ("from_man_exp"%string, fun a => match a with [m; e; p; r] => Some (out_mpf (from_man_exp m e p (rnd_of_Z r))) | _ => None end);
  ("from_int"%string, fun a => match a with [n; p; r] => Some (out_mpf (from_int n p (rnd_of_Z r))) | _ => None end);
  ("to_int"%string, fun a => match a with [s; m; e; b; r] => Some (out_res (fun z => [z]) (to_int (Mpf s m e b) (if r <? 0 then None else Some (rnd_of_Z r)))) | _ => None end);
  ("round_int"%string, fun a => match a with [x; n; r] => Some [0; round_int x n (rnd_of_Z r)] | _ => None end);
  ("mpf_pos"%string, fun a => match a with [s; m; e; b; p; r] => Some (out_mpf (mpf_pos (Mpf s m e b) p (rnd_of_Z r))) | _ => None end);
  ("mpf_neg"%string, fun a => match a with [s; m; e; b; p; r] => Some (out_mpf (mpf_neg (Mpf s m e b) p (rnd_of_Z r))) | _ => None end);
  ("mpf_abs"%string, fun a => match a with [s; m; e; b; p; r] => Some (out_mpf (mpf_abs (Mpf s m e b) p (rnd_of_Z r))) | _ => None end);
  ("mpf_sign"%string, fun a => match a with [s; m; e; b] => Some [0; mpf_sign (Mpf s m e b)] | _ => None end);
  ("mpf_round_int"%string, fun a => match a with [s; m; e; b; r] => Some (out_res enc_mpf (mpf_round_int (Mpf s m e b) (rnd_of_Z r))) | _ => None end);
  ("mpf_floor"%string, fun a => match a with [s; m; e; b; p; r] => Some (out_res enc_mpf (mpf_floor (Mpf s m e b) p (rnd_of_Z r))) | _ => None end);
  ("mpf_ceil"%string, fun a => match a with [s; m; e; b; p; r] => Some (out_res enc_mpf (mpf_ceil (Mpf s m e b) p (rnd_of_Z r))) | _ => None end);
  ("mpf_nint"%string, fun a => match a with [s; m; e; b; p; r] => Some (out_res enc_mpf (mpf_nint (Mpf s m e b) p (rnd_of_Z r))) | _ => None end);
  ("mpf_frac"%string, fun a => match a with [s; m; e; b; p; r] => Some (out_res enc_mpf (mpf_frac (Mpf s m e b) p (rnd_of_Z r))) | _ => None end);
  ("mpf_add"%string, fun a => match a with [s; m; e; b; s2; m2; e2; b2; p; r] => Some (out_mpf (mpf_add (Mpf s m e b) (Mpf s2 m2 e2 b2) p (rnd_of_Z r))) | _ => None end);
  ("mpf_sub"%string, fun a => match a with [s; m; e; b; s2; m2; e2; b2; p; r] => Some (out_mpf (mpf_sub (Mpf s m e b) (Mpf s2 m2 e2 b2) p (rnd_of_Z r))) | _ => None end);
  ("mpf_mul"%string, fun a => match a with [s; m; e; b; s2; m2; e2; b2; p; r] => Some (out_mpf (python_mpf_mul (Mpf s m e b) (Mpf s2 m2 e2 b2) p (rnd_of_Z r))) | _ => None end);
  ("gmpy_mpf_mul"%string, fun a => match a with [s; m; e; b; s2; m2; e2; b2; p; r] => Some (out_mpf (gmpy_mpf_mul (Mpf s m e b) (Mpf s2 m2 e2 b2) p (rnd_of_Z r))) | _ => None end);
  ("mpf_mul_int"%string, fun a => match a with [s; m; e; b; n; p; r] => Some (out_mpf (python_mpf_mul_int (Mpf s m e b) n p (rnd_of_Z r))) | _ => None end);
  ("gmpy_mpf_mul_int"%string, fun a => match a with [s; m; e; b; n; p; r] => Some (out_mpf (gmpy_mpf_mul_int (Mpf s m e b) n p (rnd_of_Z r))) | _ => None end);
  ("mpf_shift"%string, fun a => match a with [s; m; e; b; n] => Some (out_mpf (mpf_shift (Mpf s m e b) n)) | _ => None end);
  ("mpf_frexp"%string, fun a => match a with [s; m; e; b] => Some (out_res (fun p => enc_mpf (fst p) ++ [snd p]) (mpf_frexp (Mpf s m e b))) | _ => None end);
  ("mpf_div"%string, fun a => match a with [s; m; e; b; s2; m2; e2; b2; p; r] => Some (out_res enc_mpf (mpf_div (Mpf s m e b) (Mpf s2 m2 e2 b2) p (rnd_of_Z r))) | _ => None end);
  ("mpf_rdiv_int"%string, fun a => match a with [n; s; m; e; b; p; r] => Some (out_res enc_mpf (mpf_rdiv_int n (Mpf s m e b) p (rnd_of_Z r))) | _ => None end);
  ("from_rational"%string, fun a => match a with [p0; q0; p; r] => Some (out_res enc_mpf (from_rational p0 q0 p (rnd_of_Z r))) | _ => None end);
  ("mpf_mod"%string, fun a => match a with [s; m; e; b; s2; m2; e2; b2; p; r] => Some (out_res enc_mpf (mpf_mod (Mpf s m e b) (Mpf s2 m2 e2 b2) p (rnd_of_Z r))) | _ => None end);
  ("mpf_pow_int"%string, fun a => match a with [s; m; e; b; n; p; r] => Some (out_res enc_mpf (mpf_pow_int (Mpf s m e b) n p (rnd_of_Z r))) | _ => None end);
  ("mpf_perturb"%string, fun a => match a with [s; m; e; b; es; p; r] => Some (out_mpf (mpf_perturb (Mpf s m e b) es p (rnd_of_Z r))) | _ => None end);
  ("mpf_sqrt"%string, fun a => match a with [s; m; e; b; p; r] => Some (out_res enc_mpf (mpf_sqrt (Mpf s m e b) p (rnd_of_Z r))) | _ => None end);
  ("mpf_hypot"%string, fun a => match a with [s; m; e; b; s2; m2; e2; b2; p; r] => Some (out_res enc_mpf (mpf_hypot (Mpf s m e b) (Mpf s2 m2 e2 b2) p (rnd_of_Z r))) | _ => None end);
  ("mpf_eq"%string, fun a => match a with [s; m; e; b; s2; m2; e2; b2] => Some (0 :: enc_bool (mpf_eq (Mpf s m e b) (Mpf s2 m2 e2 b2))) | _ => None end);
  ("mpf_cmp"%string, fun a => match a with [s; m; e; b; s2; m2; e2; b2] => Some [0; mpf_cmp (Mpf s m e b) (Mpf s2 m2 e2 b2)] | _ => None end);
  ("mpf_lt"%string, fun a => match a with [s; m; e; b; s2; m2; e2; b2] => Some (0 :: enc_bool (mpf_lt (Mpf s m e b) (Mpf s2 m2 e2 b2))) | _ => None end);
  ("mpf_le"%string, fun a => match a with [s; m; e; b; s2; m2; e2; b2] => Some (0 :: enc_bool (mpf_le (Mpf s m e b) (Mpf s2 m2 e2 b2))) | _ => None end);
  ("mpf_gt"%string, fun a => match a with [s; m; e; b; s2; m2; e2; b2] => Some (0 :: enc_bool (mpf_gt (Mpf s m e b) (Mpf s2 m2 e2 b2))) | _ => None end);
  ("mpf_ge"%string, fun a => match a with [s; m; e; b; s2; m2; e2; b2] => Some (0 :: enc_bool (mpf_ge (Mpf s m e b) (Mpf s2 m2 e2 b2))) | _ => None end);
  ("mpf_hash"%string, fun a => match a with [s; m; e; b] => Some [0; mpf_hash (Mpf s m e b)] | _ => None end);
  ("to_fixed"%string, fun a => match a with [s; m; e; b; p] => Some [0; to_fixed (Mpf s m e b) p] | _ => None end);
  ("bitcount"%string, fun a => match a with [n] => Some [0; bitcount n] | _ => None end);
  ("from_str_parts"%string, fun a => match a with [m; e; p; r] => Some (out_res enc_mpf (from_str_parts m e p (rnd_of_Z r))) | _ => None end);
  ("isqrt"%string, fun a => match a with [n] => Some [0; Z.sqrt n] | _ => None end);
  ("sqrtrem"%string, fun a => match a with [n] => Some (let '(q, r) := Z.sqrtrem n in [0; q; r]) | _ => None end);
  ("isqrt_small_newton"%string, fun a => match a with [x; r0] => Some (match isqrt_small_newton x r0 with Some v => [0; v] | None => [2] end) | _ => None end);
  ("isqrt_fast_smallx"%string, fun a => match a with [x; y0] => Some [0; isqrt_fast_smallx x y0] | _ => None end);
  ("isqrt_fast_bigx"%string, fun a => match a with [x; r0] => Some [0; isqrt_fast_bigx x r0] | _ => None end);
  ("sqrtrem_fix"%string, fun a => match a with [x; ap] => Some (match sqrtrem_fix 200 x ap with Some (y, r) => [0; y; r] | None => [2] end) | _ => None end);
  ("trailing"%string, fun a => match a with [n] => Some [0; trailing n] | _ => None end);
  ("mpf_sum"%string, fun a => match a with (p :: r :: ab :: rest)%list => Some (out_mpf (mpf_sum (dec_mpfs rest) p (rnd_of_Z r) (negb (ab =? 0)))) | _ => None end)
].


(* ---- complex and interval entry points: mpc / mpi = 8 ints, mpci = 16 ints ---- *)
Definition enc_pair (z : mpf * mpf) : list Z := (enc_mpf (fst z) ++ enc_mpf (snd z))%list.
Definition enc_mpci (z : mpci) : list Z := (enc_pair (fst z) ++ enc_pair (snd z))%list.
Definition enc_ob (o : option bool) : list Z := match o with Some true => [1] | Some false => [0] | None => [-1] end.
Definition P8 (a b c d e f g h : Z) : mpf * mpf := (Mpf a b c d, Mpf e f g h).

Definition table_cplx : list (string * handler) := [
  ("mpc_add"%string, fun a => match a with [a1;a2;a3;a4;a5;a6;a7;a8;b1;b2;b3;b4;b5;b6;b7;b8;p;r] =>
      Some (0 :: enc_pair (mpc_add (P8 a1 a2 a3 a4 a5 a6 a7 a8) (P8 b1 b2 b3 b4 b5 b6 b7 b8) p (rnd_of_Z r))) | _ => None end);
  ("mpc_sub"%string, fun a => match a with [a1;a2;a3;a4;a5;a6;a7;a8;b1;b2;b3;b4;b5;b6;b7;b8;p;r] =>
      Some (0 :: enc_pair (mpc_sub (P8 a1 a2 a3 a4 a5 a6 a7 a8) (P8 b1 b2 b3 b4 b5 b6 b7 b8) p (rnd_of_Z r))) | _ => None end);
  ("mpc_mul"%string, fun a => match a with [a1;a2;a3;a4;a5;a6;a7;a8;b1;b2;b3;b4;b5;b6;b7;b8;p;r] =>
      Some (0 :: enc_pair (mpc_mul (P8 a1 a2 a3 a4 a5 a6 a7 a8) (P8 b1 b2 b3 b4 b5 b6 b7 b8) p (rnd_of_Z r))) | _ => None end);
  ("mpc_div"%string, fun a => match a with [a1;a2;a3;a4;a5;a6;a7;a8;b1;b2;b3;b4;b5;b6;b7;b8;p;r] =>
      Some (out_res enc_pair (mpc_div (P8 a1 a2 a3 a4 a5 a6 a7 a8) (P8 b1 b2 b3 b4 b5 b6 b7 b8) p (rnd_of_Z r))) | _ => None end);
  ("mpc_square"%string, fun a => match a with [a1;a2;a3;a4;a5;a6;a7;a8;p;r] =>
      Some (0 :: enc_pair (mpc_square (P8 a1 a2 a3 a4 a5 a6 a7 a8) p (rnd_of_Z r))) | _ => None end);
  ("mpc_pos"%string, fun a => match a with [a1;a2;a3;a4;a5;a6;a7;a8;p;r] =>
      Some (0 :: enc_pair (mpc_pos (P8 a1 a2 a3 a4 a5 a6 a7 a8) p (rnd_of_Z r))) | _ => None end);
  ("mpc_neg"%string, fun a => match a with [a1;a2;a3;a4;a5;a6;a7;a8;p;r] =>
      Some (0 :: enc_pair (mpc_neg (P8 a1 a2 a3 a4 a5 a6 a7 a8) p (rnd_of_Z r))) | _ => None end);
  ("mpc_conjugate"%string, fun a => match a with [a1;a2;a3;a4;a5;a6;a7;a8;p;r] =>
      Some (0 :: enc_pair (mpc_conjugate (P8 a1 a2 a3 a4 a5 a6 a7 a8) p (rnd_of_Z r))) | _ => None end);
  ("mpc_reciprocal"%string, fun a => match a with [a1;a2;a3;a4;a5;a6;a7;a8;p;r] =>
      Some (out_res enc_pair (mpc_reciprocal (P8 a1 a2 a3 a4 a5 a6 a7 a8) p (rnd_of_Z r))) | _ => None end);
  ("mpc_sqrt"%string, fun a => match a with [a1;a2;a3;a4;a5;a6;a7;a8;p;r] =>
      Some (out_res enc_pair (mpc_sqrt (P8 a1 a2 a3 a4 a5 a6 a7 a8) p (rnd_of_Z r))) | _ => None end);
  ("mpc_abs"%string, fun a => match a with [a1;a2;a3;a4;a5;a6;a7;a8;p;r] =>
      Some (out_res enc_mpf (mpc_abs (P8 a1 a2 a3 a4 a5 a6 a7 a8) p (rnd_of_Z r))) | _ => None end);
  ("mpc_floor"%string, fun a => match a with [a1;a2;a3;a4;a5;a6;a7;a8;p;r] =>
      Some (out_res enc_pair (mpc_floor (P8 a1 a2 a3 a4 a5 a6 a7 a8) p (rnd_of_Z r))) | _ => None end);
  ("mpc_ceil"%string, fun a => match a with [a1;a2;a3;a4;a5;a6;a7;a8;p;r] =>
      Some (out_res enc_pair (mpc_ceil (P8 a1 a2 a3 a4 a5 a6 a7 a8) p (rnd_of_Z r))) | _ => None end);
  ("mpc_nint"%string, fun a => match a with [a1;a2;a3;a4;a5;a6;a7;a8;p;r] =>
      Some (out_res enc_pair (mpc_nint (P8 a1 a2 a3 a4 a5 a6 a7 a8) p (rnd_of_Z r))) | _ => None end);
  ("mpc_frac"%string, fun a => match a with [a1;a2;a3;a4;a5;a6;a7;a8;p;r] =>
      Some (out_res enc_pair (mpc_frac (P8 a1 a2 a3 a4 a5 a6 a7 a8) p (rnd_of_Z r))) | _ => None end);
  ("mpc_hash"%string, fun a => match a with [a1;a2;a3;a4;a5;a6;a7;a8] =>
      Some [0; mpc_hash (P8 a1 a2 a3 a4 a5 a6 a7 a8)] | _ => None end);
  ("mpc_mul_mpf"%string, fun a => match a with [a1;a2;a3;a4;a5;a6;a7;a8;b1;b2;b3;b4;p;r] =>
      Some (0 :: enc_pair (mpc_mul_mpf (P8 a1 a2 a3 a4 a5 a6 a7 a8) (Mpf b1 b2 b3 b4) p (rnd_of_Z r))) | _ => None end);
  ("mpc_add_mpf"%string, fun a => match a with [a1;a2;a3;a4;a5;a6;a7;a8;b1;b2;b3;b4;p;r] =>
      Some (0 :: enc_pair (mpc_add_mpf (P8 a1 a2 a3 a4 a5 a6 a7 a8) (Mpf b1 b2 b3 b4) p (rnd_of_Z r))) | _ => None end);
  ("mpc_sub_mpf"%string, fun a => match a with [a1;a2;a3;a4;a5;a6;a7;a8;b1;b2;b3;b4;p;r] =>
      Some (0 :: enc_pair (mpc_sub_mpf (P8 a1 a2 a3 a4 a5 a6 a7 a8) (Mpf b1 b2 b3 b4) p (rnd_of_Z r))) | _ => None end);
  ("mpc_div_mpf"%string, fun a => match a with [a1;a2;a3;a4;a5;a6;a7;a8;b1;b2;b3;b4;p;r] =>
      Some (out_res enc_pair (mpc_div_mpf (P8 a1 a2 a3 a4 a5 a6 a7 a8) (Mpf b1 b2 b3 b4) p (rnd_of_Z r))) | _ => None end);
  ("mpc_mpf_div"%string, fun a => match a with [b1;b2;b3;b4;a1;a2;a3;a4;a5;a6;a7;a8;p;r] =>
      Some (out_res enc_pair (mpc_mpf_div (Mpf b1 b2 b3 b4) (P8 a1 a2 a3 a4 a5 a6 a7 a8) p (rnd_of_Z r))) | _ => None end);
  ("mpc_mul_imag_mpf"%string, fun a => match a with [a1;a2;a3;a4;a5;a6;a7;a8;b1;b2;b3;b4;p;r] =>
      Some (0 :: enc_pair (mpc_mul_imag_mpf (P8 a1 a2 a3 a4 a5 a6 a7 a8) (Mpf b1 b2 b3 b4) p (rnd_of_Z r))) | _ => None end);
  ("mpc_mul_int"%string, fun a => match a with [a1;a2;a3;a4;a5;a6;a7;a8;n;p;r] =>
      Some (0 :: enc_pair (mpc_mul_int (P8 a1 a2 a3 a4 a5 a6 a7 a8) n p (rnd_of_Z r))) | _ => None end);
  ("mpc_pow_int"%string, fun a => match a with [a1;a2;a3;a4;a5;a6;a7;a8;n;p;r] =>
      Some (out_res enc_pair (mpc_pow_int (P8 a1 a2 a3 a4 a5 a6 a7 a8) n p (rnd_of_Z r))) | _ => None end);
  ("complex_int_pow"%string, fun a => match a with [x;y;n] =>
      Some (let '(u, v) := complex_int_pow x y n in [0; u; v]) | _ => None end);
  ("mpi_add"%string, fun a => match a with [a1;a2;a3;a4;a5;a6;a7;a8;b1;b2;b3;b4;b5;b6;b7;b8;p] =>
      Some (0 :: enc_pair (mpi_add (P8 a1 a2 a3 a4 a5 a6 a7 a8) (P8 b1 b2 b3 b4 b5 b6 b7 b8) p)) | _ => None end);
  ("mpi_sub"%string, fun a => match a with [a1;a2;a3;a4;a5;a6;a7;a8;b1;b2;b3;b4;b5;b6;b7;b8;p] =>
      Some (0 :: enc_pair (mpi_sub (P8 a1 a2 a3 a4 a5 a6 a7 a8) (P8 b1 b2 b3 b4 b5 b6 b7 b8) p)) | _ => None end);
  ("mpi_mul"%string, fun a => match a with [a1;a2;a3;a4;a5;a6;a7;a8;b1;b2;b3;b4;b5;b6;b7;b8;p] =>
      Some (0 :: enc_pair (mpi_mul (P8 a1 a2 a3 a4 a5 a6 a7 a8) (P8 b1 b2 b3 b4 b5 b6 b7 b8) p)) | _ => None end);
  ("mpi_div"%string, fun a => match a with [a1;a2;a3;a4;a5;a6;a7;a8;b1;b2;b3;b4;b5;b6;b7;b8;p] =>
      Some (out_res enc_pair (mpi_div (P8 a1 a2 a3 a4 a5 a6 a7 a8) (P8 b1 b2 b3 b4 b5 b6 b7 b8) p)) | _ => None end);
  ("mpi_neg"%string, fun a => match a with [a1;a2;a3;a4;a5;a6;a7;a8;p] => Some (0 :: enc_pair (mpi_neg (P8 a1 a2 a3 a4 a5 a6 a7 a8) p)) | _ => None end);
  ("mpi_pos"%string, fun a => match a with [a1;a2;a3;a4;a5;a6;a7;a8;p] => Some (0 :: enc_pair (mpi_pos (P8 a1 a2 a3 a4 a5 a6 a7 a8) p)) | _ => None end);
  ("mpi_abs"%string, fun a => match a with [a1;a2;a3;a4;a5;a6;a7;a8;p] => Some (0 :: enc_pair (mpi_abs (P8 a1 a2 a3 a4 a5 a6 a7 a8) p)) | _ => None end);
  ("mpi_square"%string, fun a => match a with [a1;a2;a3;a4;a5;a6;a7;a8;p] => Some (0 :: enc_pair (mpi_square (P8 a1 a2 a3 a4 a5 a6 a7 a8) p)) | _ => None end);
  ("mpi_outward"%string, fun a => match a with [s; m; e; b; p; r] => Some (out_mpf (mpi_outward (Mpf s m e b) p (rnd_of_Z r))) | _ => None end);
  ("mpi_exp_from"%string, fun a => match a with [a1;a2;a3;a4;a5;a6;a7;a8;b1;b2;b3;b4;b5;b6;b7;b8;p] =>
      Some (0 :: enc_pair (mpi_exp_from (P8 a1 a2 a3 a4 a5 a6 a7 a8) (Mpf b1 b2 b3 b4) (Mpf b5 b6 b7 b8) p)) | _ => None end);
  ("mpi_log_from"%string, fun a => match a with [b1;b2;b3;b4;b5;b6;b7;b8;p] =>
      Some (0 :: enc_pair (mpi_log_from (Mpf b1 b2 b3 b4) (Mpf b5 b6 b7 b8) p)) | _ => None end);
  ("mpi_finalize"%string, fun a => match a with [s; m; e; b; p; r] => Some (out_mpf (mpi_finalize (Mpf s m e b) p (rnd_of_Z r))) | _ => None end);
  ("mpi_cos_sin_from"%string, fun a => match a with [a1;a2;a3;a4;a5;a6;a7;a8; c1;c2;c3;c4; s1;s2;s3;s4; na; d1;d2;d3;d4; t1;t2;t3;t4; nb; p] =>
      Some (let '(c, s) := mpi_cos_sin_from (P8 a1 a2 a3 a4 a5 a6 a7 a8) (Mpf c1 c2 c3 c4, Mpf s1 s2 s3 s4, na) (Mpf d1 d2 d3 d4, Mpf t1 t2 t3 t4, nb) p in
            0 :: enc_pair c ++ enc_pair s)%list | _ => None end);
  ("mpi_tan_from"%string, fun a => match a with [a1;a2;a3;a4;a5;a6;a7;a8; c1;c2;c3;c4; s1;s2;s3;s4; na; d1;d2;d3;d4; t1;t2;t3;t4; nb; p] =>
      Some (out_res enc_pair (mpi_tan_from (P8 a1 a2 a3 a4 a5 a6 a7 a8) (Mpf c1 c2 c3 c4, Mpf s1 s2 s3 s4, na) (Mpf d1 d2 d3 d4, Mpf t1 t2 t3 t4, nb) p)) | _ => None end);
  ("mpi_cot_from"%string, fun a => match a with [a1;a2;a3;a4;a5;a6;a7;a8; c1;c2;c3;c4; s1;s2;s3;s4; na; d1;d2;d3;d4; t1;t2;t3;t4; nb; p] =>
      Some (out_res enc_pair (mpi_cot_from (P8 a1 a2 a3 a4 a5 a6 a7 a8) (Mpf c1 c2 c3 c4, Mpf s1 s2 s3 s4, na) (Mpf d1 d2 d3 d4, Mpf t1 t2 t3 t4, nb) p)) | _ => None end);
  ("mpci_abs"%string, fun a => match a with [a1;a2;a3;a4;a5;a6;a7;a8;b1;b2;b3;b4;b5;b6;b7;b8;p] =>
      Some (out_res enc_pair (mpci_abs (P8 a1 a2 a3 a4 a5 a6 a7 a8, P8 b1 b2 b3 b4 b5 b6 b7 b8) p)) | _ => None end);
  ("mpi_pow_from"%string, fun a => match a with [t1;t2;t3;t4;t5;t6;t7;t8; l1;l2;l3;l4; m1;m2;m3;m4; e1;e2;e3;e4; f1;f2;f3;f4; p] =>
      Some (0 :: enc_pair (mpi_pow_from (P8 t1 t2 t3 t4 t5 t6 t7 t8) (Mpf l1 l2 l3 l4) (Mpf m1 m2 m3 m4) (Mpf e1 e2 e3 e4) (Mpf f1 f2 f3 f4) p)) | _ => None end);
  ("mpi_cosh_sinh_from"%string, fun a => match a with [a1;a2;a3;a4;a5;a6;a7;a8; e1;e2;e3;e4; f1;f2;f3;f4; p] =>
      Some (out_res (fun cs => enc_pair (fst cs) ++ enc_pair (snd cs))%list
                    (mpi_cosh_sinh_from (P8 a1 a2 a3 a4 a5 a6 a7 a8) (Mpf e1 e2 e3 e4) (Mpf f1 f2 f3 f4) p)) | _ => None end);
  ("mpci_exp_from"%string, fun a => match a with [a1;a2;a3;a4;a5;a6;a7;a8;b1;b2;b3;b4;b5;b6;b7;b8; e1;e2;e3;e4; f1;f2;f3;f4;
                                                  c1;c2;c3;c4; s1;s2;s3;s4; na; d1;d2;d3;d4; t1;t2;t3;t4; nb; p] =>
      Some (0 :: enc_mpci (mpci_exp_from (P8 a1 a2 a3 a4 a5 a6 a7 a8, P8 b1 b2 b3 b4 b5 b6 b7 b8) (Mpf e1 e2 e3 e4) (Mpf f1 f2 f3 f4)
                                         (Mpf c1 c2 c3 c4, Mpf s1 s2 s3 s4, na) (Mpf d1 d2 d3 d4, Mpf t1 t2 t3 t4, nb) p)) | _ => None end);
  ("mpci_cos_from"%string, fun a => match a with [a1;a2;a3;a4;a5;a6;a7;a8;b1;b2;b3;b4;b5;b6;b7;b8;
                                                  c1;c2;c3;c4; s1;s2;s3;s4; na; d1;d2;d3;d4; t1;t2;t3;t4; nb; e1;e2;e3;e4; f1;f2;f3;f4; p] =>
      Some (out_res enc_mpci (mpci_cos_from (P8 a1 a2 a3 a4 a5 a6 a7 a8, P8 b1 b2 b3 b4 b5 b6 b7 b8)
                                            (Mpf c1 c2 c3 c4, Mpf s1 s2 s3 s4, na) (Mpf d1 d2 d3 d4, Mpf t1 t2 t3 t4, nb) (Mpf e1 e2 e3 e4) (Mpf f1 f2 f3 f4) p)) | _ => None end);
  ("mpci_sin_from"%string, fun a => match a with [a1;a2;a3;a4;a5;a6;a7;a8;b1;b2;b3;b4;b5;b6;b7;b8;
                                                  c1;c2;c3;c4; s1;s2;s3;s4; na; d1;d2;d3;d4; t1;t2;t3;t4; nb; e1;e2;e3;e4; f1;f2;f3;f4; p] =>
      Some (out_res enc_mpci (mpci_sin_from (P8 a1 a2 a3 a4 a5 a6 a7 a8, P8 b1 b2 b3 b4 b5 b6 b7 b8)
                                            (Mpf c1 c2 c3 c4, Mpf s1 s2 s3 s4, na) (Mpf d1 d2 d3 d4, Mpf t1 t2 t3 t4, nb) (Mpf e1 e2 e3 e4) (Mpf f1 f2 f3 f4) p)) | _ => None end);
  ("mpi_atan2_plan"%string, fun a => match a with [a1;a2;a3;a4;a5;a6;a7;a8;b1;b2;b3;b4;b5;b6;b7;b8] =>
      Some (match mpi_atan2_plan (P8 a1 a2 a3 a4 a5 a6 a7 a8) (P8 b1 b2 b3 b4 b5 b6 b7 b8) with
            | AtZero => [0; 0] | AtPi => [0; 1] | AtOrigin => [0; 3] | AtZeroPi => [0; 4]
            | AtCorners ca cb => (0 :: 2 :: enc_pair ca ++ enc_pair cb)%list end) | _ => None end);
  ("mpi_sqrt"%string, fun a => match a with [a1;a2;a3;a4;a5;a6;a7;a8;p] => Some (out_res enc_pair (mpi_sqrt (P8 a1 a2 a3 a4 a5 a6 a7 a8) p)) | _ => None end);
  ("mpi_delta"%string, fun a => match a with [a1;a2;a3;a4;a5;a6;a7;a8;p] => Some (out_mpf (mpi_delta (P8 a1 a2 a3 a4 a5 a6 a7 a8) p)) | _ => None end);
  ("mpi_mid"%string, fun a => match a with [a1;a2;a3;a4;a5;a6;a7;a8;p] => Some (out_mpf (mpi_mid (P8 a1 a2 a3 a4 a5 a6 a7 a8) p)) | _ => None end);
  ("mpi_pow_int"%string, fun a => match a with [a1;a2;a3;a4;a5;a6;a7;a8;n;p] => Some (out_res enc_pair (mpi_pow_int (P8 a1 a2 a3 a4 a5 a6 a7 a8) n p)) | _ => None end);
  ("mpi_lt"%string, fun a => match a with [a1;a2;a3;a4;a5;a6;a7;a8;b1;b2;b3;b4;b5;b6;b7;b8] =>
      Some (0 :: enc_ob (mpi_lt (P8 a1 a2 a3 a4 a5 a6 a7 a8) (P8 b1 b2 b3 b4 b5 b6 b7 b8))) | _ => None end);
  ("mpi_le"%string, fun a => match a with [a1;a2;a3;a4;a5;a6;a7;a8;b1;b2;b3;b4;b5;b6;b7;b8] =>
      Some (0 :: enc_ob (mpi_le (P8 a1 a2 a3 a4 a5 a6 a7 a8) (P8 b1 b2 b3 b4 b5 b6 b7 b8))) | _ => None end);
  ("mpi_gt"%string, fun a => match a with [a1;a2;a3;a4;a5;a6;a7;a8;b1;b2;b3;b4;b5;b6;b7;b8] =>
      Some (0 :: enc_ob (mpi_gt (P8 a1 a2 a3 a4 a5 a6 a7 a8) (P8 b1 b2 b3 b4 b5 b6 b7 b8))) | _ => None end);
  ("mpi_ge"%string, fun a => match a with [a1;a2;a3;a4;a5;a6;a7;a8;b1;b2;b3;b4;b5;b6;b7;b8] =>
      Some (0 :: enc_ob (mpi_ge (P8 a1 a2 a3 a4 a5 a6 a7 a8) (P8 b1 b2 b3 b4 b5 b6 b7 b8))) | _ => None end);
  ("mpi_eq"%string, fun a => match a with [a1;a2;a3;a4;a5;a6;a7;a8;b1;b2;b3;b4;b5;b6;b7;b8] =>
      Some (0 :: enc_bool (mpi_eq (P8 a1 a2 a3 a4 a5 a6 a7 a8) (P8 b1 b2 b3 b4 b5 b6 b7 b8))) | _ => None end);
  ("mpci_op"%string, fun a => match a with
      [op; a1;a2;a3;a4;a5;a6;a7;a8;a9;a10;a11;a12;a13;a14;a15;a16; b1;b2;b3;b4;b5;b6;b7;b8;b9;b10;b11;b12;b13;b14;b15;b16; p] =>
      let x := (P8 a1 a2 a3 a4 a5 a6 a7 a8, P8 a9 a10 a11 a12 a13 a14 a15 a16) in
      let y := (P8 b1 b2 b3 b4 b5 b6 b7 b8, P8 b9 b10 b11 b12 b13 b14 b15 b16) in
      Some (match op with
            | 0 => 0 :: enc_mpci (mpci_add x y p)
            | 1 => 0 :: enc_mpci (mpci_sub x y p)
            | 2 => 0 :: enc_mpci (mpci_mul x y p)
            | 3 => out_res enc_mpci (mpci_div x y p)
            | 4 => 0 :: enc_mpci (mpci_square x p)
            | 5 => 0 :: enc_mpci (mpci_neg x p)
            | _ => out_res enc_mpci (mpci_pow_int x (msign (fst (fst y))) p)
            end) | _ => None end)
].

Definition enc_xint (x : xint) : list Z := match x with XFin z => [0; z] | XNinf => [1; 0] | XPinf => [2; 0] | XNan => [3; 0] end.
Definition table_ctx : list (string * handler) := [
  ("mpf_mag"%string, fun a => match a with [s;m;e;b] => Some (0 :: enc_xint (mpf_mag (Mpf s m e b))) | _ => None end);
  ("mpc_mag"%string, fun a => match a with [s;m;e;b;s2;m2;e2;b2] => Some (0 :: enc_xint (mpc_mag (Mpf s m e b) (Mpf s2 m2 e2 b2))) | _ => None end);
  ("int_mag"%string, fun a => match a with [n] => Some (0 :: enc_xint (int_mag n)) | _ => None end);
  ("mpq_mag"%string, fun a => match a with [p;q] => Some (0 :: enc_xint (mpq_mag p q)) | _ => None end);
  ("nint_distance_mpf"%string, fun a => match a with [s;m;e;b] =>
      Some (out_res (fun r => (fst r :: enc_xint (snd r))%list) (nint_distance_mpf (Mpf s m e b))) | _ => None end);
  ("nint_distance_mpc"%string, fun a => match a with [s;m;e;b;s2;m2;e2;b2] =>
      Some (out_res (fun r => (fst r :: enc_xint (snd r))%list) (nint_distance_mpc (Mpf s m e b) (Mpf s2 m2 e2 b2))) | _ => None end);
  ("nint_distance_mpq"%string, fun a => match a with [p;q] =>
      Some (let r := nint_distance_mpq p q in (0 :: fst r :: enc_xint (snd r))%list) | _ => None end);
  ("mpf_isint"%string, fun a => match a with [s;m;e;b] => Some (0 :: enc_bool (mpf_isint (Mpf s m e b))) | _ => None end);
  ("mpc_isint"%string, fun a => match a with [s;m;e;b;s2;m2;e2;b2;g] => Some (0 :: enc_bool (mpc_isint (Mpf s m e b) (Mpf s2 m2 e2 b2) (negb (g =? 0)))) | _ => None end);
  ("mpf_isnpint"%string, fun a => match a with [s;m;e;b] => Some (0 :: enc_bool (mpf_isnpint (Mpf s m e b))) | _ => None end);
  ("mpf_class"%string, fun a => match a with [s;m;e;b] =>
      let x := Mpf s m e b in Some (0 :: enc_bool (mpf_isnan x) ++ enc_bool (mpf_isinf x) ++ enc_bool (mpf_isnormal x) ++ enc_bool (mpf_isfinite x))%list | _ => None end);
  ("pickle_roundtrip"%string, fun a => match a with [s;m;e;b] =>
      let p := to_pickable (Mpf s m e b) in
      Some (0 :: enc_mpf (from_pickable p) ++ snd (fst (fst p)))%list | _ => None end);
  ("to_str"%string, fun a => match a with [s;m;e;b;dps;strip;mn;mx;sz;bitprec;fixdps] =>
      Some (0 :: to_str (Mpf s m e b) dps (negb (strip =? 0)) mn mx (negb (sz =? 0)) bitprec fixdps) | _ => None end);
  ("prec_dps"%string, fun a => match a with [n] => Some [0; prec_to_dps n; dps_to_prec n; repr_dps n] | _ => None end);
  ("lu_run"%string, fun a => Some (0 :: lu_run a));
  ("memo_run"%string, fun a => Some (0 :: memo_run a));
  ("ctx_run"%string, fun a => Some (0 :: ctx_run a));
  ("from_float_parts"%string, fun a => match a with [m;e;p;r] => Some (out_mpf (from_float_parts m e p (rnd_of_Z r))) | _ => None end);
  ("to_float_parts"%string, fun a => match a with [s;m;e;b;r] =>
      Some (let '(mm, ee) := to_float_parts (Mpf s m e b) (rnd_of_Z r) in [0; mm; ee]) | _ => None end)
].

Fixpoint lookup (f : string) (t : list (string * handler)) : option handler :=
  match t with
  | [] => None
  | (n, h) :: r => if String.eqb f n then Some h else lookup f r
  end.

Definition dispatch_in (t : list (string * handler)) (f : string) (a : list Z) : list Z :=
  match lookup f t with
  | Some h => match h a with Some l => l | None => bad end
  | None => bad
  end.

Definition dispatch (f : string) (a : list Z) : list Z := dispatch_in (table_mpf ++ table_cplx ++ table_ctx)%list f a.
