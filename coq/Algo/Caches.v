(* Caches.v — Gallina state machines of two caches of property C33: ctx.memoize (ctx_base.py) and the matrix
   LU cache (matrices/linalg.py LU_decomp + matrices.py invalidation).  Model only. *)
From Coq Require Import ZArith List Bool.
Import ListNotations.
Open Scope Z_scope.

Section Memoize.
  (* oracle: the wrapped function evaluated for a key at a working precision; rnd: unary plus at a precision *)
  Variable f : Z -> Z -> Z.
  Variable rnd : Z -> Z -> Z.

  Definition mcache := list (Z * (Z * Z)).       (* key -> (cprec, cvalue), most recent first *)
  Fixpoint mlookup (c : mcache) (k : Z) : option (Z * Z) :=
    match c with [] => None | (k', e) :: r => if k =? k' then Some e else mlookup r k end.

  (* f_cached(key) at working precision prec *)
  Definition mcall (c : mcache) (k prec : Z) : Z * mcache :=
    match mlookup c k with
    | Some (cprec, cvalue) => if prec <=? cprec then (rnd cvalue prec, c) else (f k prec, (k, (prec, f k prec)) :: c)
    | None => (f k prec, (k, (prec, f k prec)) :: c)
    end.
End Memoize.

(* matrix object: a data version counter and an optional cached decomposition tagged with the version and the
   precision it was computed at *)
Record mstate := { mver : Z; mlu : option (Z * Z) }.
Inductive mop := MSetItem | MResize | MLU (prec : Z) | MPrecOnly.

(* returns the new state and, for MLU, the (version, precision) of the decomposition handed to the caller *)
Definition mstep (s : mstate) (o : mop) : mstate * option (Z * Z) :=
  match o with
  | MSetItem | MResize => ({| mver := mver s + 1; mlu := None |}, None)
  | MPrecOnly => (s, None)
  | MLU prec =>
      match mlu s with
      | Some (v, p) => if prec <=? p then (s, Some (v, p))
                       else ({| mver := mver s; mlu := Some (mver s, prec) |}, Some (mver s, prec))
      | None => ({| mver := mver s; mlu := Some (mver s, prec) |}, Some (mver s, prec))
      end
  end.

(* drivers used by the correspondence check: operation lists encoded as integers *)
Fixpoint lu_run_go (fuel : nat) (s : mstate) (l : list Z) {struct fuel} : list Z :=
  match fuel with O => [] | S f =>
  match l with
  | [] => []
  | 0 :: r => lu_run_go f (fst (mstep s MSetItem)) r
  | 1 :: r => lu_run_go f (fst (mstep s MResize)) r
  | 2 :: r => lu_run_go f (fst (mstep s MPrecOnly)) r
  | _ :: prec :: r => let '(s', o) := mstep s (MLU prec) in
                      (match o with Some (v, p) => [v; p] | None => [-1; -1] end) ++ lu_run_go f s' r
  | _ => []
  end end.
Definition lu_run (l : list Z) : list Z := lu_run_go (length l) {| mver := 0; mlu := None |} l.

Fixpoint memo_run_go (fuel : nat) (c : mcache) (l : list Z) {struct fuel} : list Z :=
  match fuel with O => [] | S fu =>
  match l with
  | k :: p :: r => let '(v, c') := mcall (fun k p => k * 1000000 + p) (fun v _ => v) c k p in v :: memo_run_go fu c' r
  | _ => []
  end end.
Definition memo_run (l : list Z) : list Z := memo_run_go (length l) [] l.
