(* Base.v — shared datatypes of the Gallina model of mpmath's libmp layer.
   Model only: no proofs in this file (so the model still runs when a proof breaks).

   An mpf is the Python tuple (sign, man, exp, bc) of unbounded ints.
   Python's >>, <<, //, % on ints coincide with Z.shiftr, Z.shiftl, Z.div, Z.modulo
   (floor semantics, sign of divisor), so no adapter is needed.  *)
From Coq Require Import ZArith List Bool.
Import ListNotations.
Open Scope Z_scope.

Inductive rnd := RN | RF | RC | RD | RU.   (* 'n' 'f' 'c' 'd' 'u' *)

Definition rnd_eqb (a b : rnd) : bool :=
  match a, b with RN,RN | RF,RF | RC,RC | RD,RD | RU,RU => true | _,_ => false end.

Record mpf := Mpf { msign : Z; mman : Z; mexp : Z; mbc : Z }.

Definition mpf_eqb (a b : mpf) : bool :=
  (msign a =? msign b) && (mman a =? mman b) && (mexp a =? mexp b) && (mbc a =? mbc b).

Definition fzero  := Mpf 0 0 0 0.
Definition fnzero := Mpf 1 0 0 0.
Definition fone   := Mpf 0 1 0 1.
Definition fnone  := Mpf 1 1 0 1.
Definition ftwo   := Mpf 0 1 1 1.
Definition ften   := Mpf 0 5 1 3.
Definition fhalf  := Mpf 0 1 (-1) 1.
Definition fnan   := Mpf 0 0 (-123) (-1).
Definition finf   := Mpf 0 0 (-456) (-2).
Definition fninf  := Mpf 1 0 (-789) (-3).

(* Python exceptions that the modelled code can raise *)
Inductive err := ZDE | VE | CR | NIE | TE | OVF | IE.
(* ZeroDivisionError ValueError ComplexResult NotImplementedError TypeError OverflowError IndexError/internal *)

Inductive res (A : Type) := Ok (a : A) | Err (e : err).
Arguments Ok {A} a.
Arguments Err {A} e.

Definition bind {A B} (x : res A) (f : A -> res B) : res B :=
  match x with Ok a => f a | Err e => Err e end.
Notation "'do' x <- a ; b" := (bind a (fun x => b)) (at level 200, x name, a at level 100, b at level 200).

(* libintmath.bitcount on a non-negative int: number of binary digits (0 for 0).
   python_bitcount's bisect/math.log implementation is specified by this value; the
   tie is the correspondence check plus Tables.v (bctable n = bitcount n for n < 1024). *)
Definition bitcount (n : Z) : Z :=
  match n with Z0 => 0 | Zpos p => Zpos (Pos.size p) | Zneg p => Zpos (Pos.size p) end.

(* number of trailing zero bits of a positive number *)
Fixpoint ctz_pos (p : positive) : Z :=
  match p with xO q => 1 + ctz_pos q | _ => 0 end.
Definition trailing (n : Z) : Z :=
  match n with Z0 => 0 | Zpos p => ctz_pos p | Zneg p => ctz_pos p end.

(* shifts_down[rnd][sign]: does ">>" (floor) round in the right direction *)
Definition shifts_down (r : rnd) (sign : Z) : bool :=
  match r with
  | RF => (sign =? 0)      (* (1,0) *)
  | RC => negb (sign =? 0) (* (0,1) *)
  | RD => true             (* (1,1) *)
  | RU => false            (* (0,0) *)
  | RN => true             (* not in the Python dict; never consulted for 'n' *)
  end.

Definition reciprocal_rnd (r : rnd) : rnd :=
  match r with RD => RU | RU => RD | RF => RC | RC => RF | RN => RN end.
Definition negative_rnd (r : rnd) : rnd :=
  match r with RD => RD | RU => RU | RF => RC | RC => RF | RN => RN end.

Definition zbit (x : Z) (k : Z) : bool := Z.testbit x k.
Definition zodd (x : Z) : bool := Z.odd x.
Definition is_special (s : mpf) : bool := (mman s =? 0) && negb (mexp s =? 0).
