(* Ctxfun.v — Gallina model of the context-level helper functions of ctx_mp_python.py / ctx_mp.py that
   work on raw tuples: mag, nint_distance, isint, isnpint, isinf/isnan/isnormal/isfinite, ldexp, frexp,
   and the (hex) pickling encoding of libmpf.to_pickable / from_pickable.  Model only. *)
From Coq Require Import ZArith List Bool.
From MP Require Import Algo.Base Algo.Libmpf.
Import ListNotations.
Open Scope Z_scope.

(* an int, or one of ctx.ninf / ctx.inf / ctx.nan *)
Inductive xint := XFin (z : Z) | XNinf | XPinf | XNan.

(* Python's max(a, b): returns b only if b > a; comparisons with nan are False *)
Definition xgt (b a : xint) : bool :=
  match b, a with
  | XNan, _ | _, XNan => false
  | XPinf, XPinf => false | XPinf, _ => true
  | _, XPinf => false
  | XNinf, _ => false
  | XFin _, XNinf => true
  | XFin q, XFin p => p <? q
  end.
Definition xmax (a b : xint) : xint := if xgt b a then b else a.
Definition xsucc (a : xint) : xint := match a with XFin z => XFin (1 + z) | x => x end.

Definition mpf_mag (x : mpf) : xint :=
  if negb (mman x =? 0) then XFin (mexp x + mbc x)
  else if mpf_eqb x fzero then XNinf
  else if mpf_eqb x finf || mpf_eqb x fninf then XPinf
  else XNan.

Definition mpc_mag (re im : mpf) : xint :=
  if mpf_eqb re fzero then mpf_mag im
  else if mpf_eqb im fzero then mpf_mag re
  else xsucc (xmax (mpf_mag re) (mpf_mag im)).

Definition int_mag (n : Z) : xint := if n =? 0 then XNinf else XFin (bitcount (Z.abs n)).
Definition mpq_mag (p q : Z) : xint := if p =? 0 then XNinf else XFin (1 + bitcount (Z.abs p) - bitcount q).

(* nint_distance on a raw real part; returns (n, re_dist) or an error for inf/nan *)
Definition nint_distance_mpf (re : mpf) : res (Z * xint) :=
  let '(Mpf sign man exp bc) := re in
  let mag := exp + bc in
  if mag <? 0 then Ok (0, XFin mag) else
  if negb (man =? 0) then
    let '(n, d) :=
      if 0 <=? exp then (Z.shiftl man exp, XNinf)
      else if exp =? -1 then (Z.shiftr man 1 + 1, XFin 0)
      else
        let d := - exp - 1 in
        let t := Z.shiftr man d in
        let '(t, man') := if Z.odd t then (t + 1, Z.shiftl (t + 1) d - man) else (t, man - Z.shiftl t d) in
        (Z.shiftr t 1, XFin (exp + bitcount man')) in
    Ok (if negb (sign =? 0) then - n else n, d)
  else if mpf_eqb re fzero then Ok (0, XNinf)
  else Err VE.

Definition nint_distance_mpc (re im : mpf) : res (Z * xint) :=
  do imd <- (if negb (mman im =? 0) then Ok (XFin (mexp im + mbc im))
             else if mpf_eqb im fzero then Ok XNinf else Err VE);
  do r <- nint_distance_mpf re;
  Ok (fst r, xmax (snd r) imd).

Definition nint_distance_mpq (p q : Z) : Z * xint :=
  let n := p / q in let r := p mod q in
  if q <=? 2 * r then (n + 1, XFin (bitcount (Z.abs (p - (n + 1) * q)) - bitcount q))
  else if r =? 0 then (n, XNinf)
  else (n, XFin (bitcount (Z.abs (p - n * q)) - bitcount q)).

Definition mpf_isint (x : mpf) : bool := (negb (mman x =? 0) && (0 <=? mexp x)) || mpf_eqb x fzero.
Definition mpc_isint (re im : mpf) (gaussian : bool) : bool :=
  if gaussian then mpf_isint re && mpf_isint im else mpf_isint re && mpf_eqb im fzero.
Definition mpf_isnpint (x : mpf) : bool :=
  if mpf_eqb x fzero then true else negb (msign x =? 0) && (0 <=? mexp x).
Definition mpf_isnan (x : mpf) : bool := mpf_eqb x fnan.
Definition mpf_isinf (x : mpf) : bool := mpf_eqb x finf || mpf_eqb x fninf.
Definition mpf_isnormal (x : mpf) : bool := negb (mman x =? 0).
Definition mpf_isfinite (x : mpf) : bool := negb (mpf_isinf x || mpf_isnan x).

Definition ctx_ldexp (x : mpf) (n : Z) : mpf := mpf_shift x n.
(* ctx.frexp = libmpf.mpf_frexp *)

(* ---- pickling: to_pickable = (sign, hex(man)[2:], exp, bc); from_pickable parses base 16 ---- *)
Fixpoint hex_digits_pos (fuel : nat) (n : Z) (acc : list Z) : list Z :=
  match fuel with
  | O => acc
  | S f => if n <? 16 then n :: acc else hex_digits_pos f (n / 16) (n mod 16 :: acc)
  end.
(* digits of hex(n)[2:], most significant first, n >= 0 *)
Definition to_hex (n : Z) : list Z := hex_digits_pos (S (Z.to_nat (Z.log2 n))) n [].
Definition of_hex (ds : list Z) : Z := fold_left (fun acc d => acc * 16 + d) ds 0.

Definition to_pickable (x : mpf) : Z * list Z * Z * Z := (msign x, to_hex (mman x), mexp x, mbc x).
Definition from_pickable (p : Z * list Z * Z * Z) : mpf :=
  let '(s, h, e, b) := p in Mpf s (of_hex h) e b.

(* ---- machine floats: from_float works on math.frexp's (m, e) with m*2^53 an integer ---- *)
Definition from_float_parts (m53 e prec : Z) (r : rnd) : mpf := from_man_exp m53 (e - 53) prec r.
(* to_float: round to 53 bits then ldexp; returns the (man, exp) handed to math.ldexp *)
Definition to_float_parts (s : mpf) (r : rnd) : Z * Z :=
  let x := if 53 <? mbc s then normalize1 (msign s) (mman s) (mexp s) (mbc s) 53 r else s in
  (if msign x =? 0 then mman x else - mman x, mexp x).
