(* PowErr.v — C03 (nearest mode, loop branch): the truncating binary exponentiation loses at most n * 2^(1-wp) relative
   accuracy (wp = prec + 4*bitcount(n) + 4), so the nearest-mode result is within 3/4 ulp of x^n.  Lower-bound invariant by
   induction on the bits of the exponent, multiplicative error bookkeeping (1 - tau)^k. *)
From Coq Require Import ZArith Reals Bool Lia Lra Psatz PArith.
From Flocq Require Import Core.
From MP Require Import Algo.Base Algo.Libmpf Spec.Mpf Spec.Round Proofs.Bits Proofs.Normalize Proofs.NormRound Proofs.Ops Proofs.DivRound Proofs.Pow.
Open Scope Z_scope.

Definition tau_of (wp : Z) : R := bpow radix2 (1 - wp).
Definition q_of (wp : Z) : R := (1 - tau_of wp)%R.

Section Err.
Variable wp : Z.
Hypothesis Hwp : 1 <= wp.
Notation tau := (tau_of wp).
Notation q := (q_of wp).

Lemma tau_range : (0 < tau <= 1)%R.
Proof.
  unfold tau_of. split; [apply bpow_gt_0|]. change 1%R with (bpow radix2 0). apply bpow_le. lia.
Qed.
Lemma q_range : (0 <= q <= 1)%R.
Proof. unfold q_of. pose proof tau_range. lra. Qed.

(* one downward truncation loses at most the factor q *)
Lemma trunc_work_lower m e : 0 < m ->
  let '(m', e', bc') := trunc_work true m e (bitcount m) wp in
  (F2R (Float radix2 m e) * q <= F2R (Float radix2 m' e'))%R.
Proof.
  intros Hm. unfold trunc_work. pose proof q_range as Q. pose proof tau_range as T.
  assert (Fm : (0 < F2R (Float radix2 m e))%R) by (apply F2R_gt_0; exact Hm).
  destruct (Z.ltb_spec wp (bitcount m)) as [L|G]; [|cbv beta iota; nra].
  remember (bitcount m - wp) as sh eqn:Esh.
  assert (Hsh : 0 < sh) by lia.
  pose proof (bitcount_spec m Hm) as [B1 _].
  assert (P2 : 0 < 2 ^ sh) by (apply Z.pow_pos_nonneg; lia).
  rewrite Z.shiftr_div_pow2 by lia.
  pose proof (Z.div_mod m (2 ^ sh) ltac:(lia)) as D. pose proof (Z.mod_pos_bound m (2 ^ sh) P2) as Mb.
  (* (m / 2^sh) * 2^sh > m - 2^sh >= m (1 - 2^sh / m) and m >= 2^(wp+sh-1) *)
  unfold F2R; cbn [Fnum Fexp]. rewrite bpow_plus. rewrite <- (IZR_pow2 sh) by lia.
  assert (Be : (0 < bpow radix2 e)%R) by apply bpow_gt_0.
  rewrite (Rmult_comm (bpow radix2 e)), <- Rmult_assoc, <- mult_IZR.
  rewrite (Rmult_comm (IZR m * bpow radix2 e)), <- Rmult_assoc.
  apply Rmult_le_compat_r; [lra|].
  (* q * m <= (m / 2^sh) * 2^sh *)
  assert (Hlow : (IZR m - IZR (2 ^ sh) <= IZR (m / 2 ^ sh * 2 ^ sh))%R).
  { rewrite <- minus_IZR. apply IZR_le. lia. }
  assert (Hrel : (IZR (2 ^ sh) <= tau * IZR m)%R).
  { unfold tau_of. replace (1 - wp) with (sh - (bitcount m - 1)) by lia.
    unfold Zminus at 1. rewrite bpow_plus, bpow_opp. rewrite <- !IZR_pow2 by lia.
    assert (Pm : (0 < IZR (2 ^ (bitcount m - 1)))%R) by (apply IZR_lt; apply Z.pow_pos_nonneg; lia).
    assert (Lm : (IZR (2 ^ (bitcount m - 1)) <= IZR m)%R) by (apply IZR_le; exact B1).
    assert (P2r : (0 < IZR (2 ^ sh))%R) by (apply IZR_lt; exact P2).
    rewrite Rmult_assoc. rewrite <- (Rmult_1_r (IZR (2 ^ sh))) at 1.
    apply Rmult_le_compat_l; [lra|]. apply Rmult_le_reg_l with (IZR (2 ^ (bitcount m - 1))); [exact Pm|].
    rewrite <- Rmult_assoc, Rinv_r by lra. lra. }
  unfold q_of. lra.
Qed.

Lemma mulstep_lower a ea ba b eb bb : good a ba -> good b bb ->
  let '(m', e', bc') := mulstep true wp a ea ba b eb bb in
  (F2R (Float radix2 a ea) * F2R (Float radix2 b eb) * q <= F2R (Float radix2 m' e'))%R.
Proof.
  intros [Ha [Hba _]] [Hb [Hbb _]]. unfold mulstep. rewrite mul_bc_exact by assumption.
  assert (Hab : 0 < a * b) by nia.
  pose proof (trunc_work_lower (a * b) (ea + eb) Hab) as T.
  destruct (trunc_work true (a * b) (ea + eb) (bitcount (a * b)) wp) as [[m' e'] bc'].
  rewrite F2R_mul. exact T.
Qed.

(* the lower-bound invariant of the loop *)
Theorem pow_loop_lower : forall n pm pe pbc man exp bc P B (a b : nat),
  good pm pbc -> good man bc -> (0 < P)%R -> (0 < B)%R ->
  (P * q ^ b <= F2R (Float radix2 pm pe))%R -> (B * q ^ a <= F2R (Float radix2 man exp))%R ->
  let '(m', e', bc') := pow_loop n true wp pm pe pbc man exp bc in
  (P * B ^ Pos.to_nat n * q ^ (b + S a * Pos.to_nat n) <= F2R (Float radix2 m' e'))%R.
Proof.
  pose proof q_range as Q.
  induction n as [n IH|n IH|]; intros pm pe pbc man exp bc P B a b Gp Gm HP HB LP LB; rewrite pow_loop_unfold.
  - pose proof (mulstep_spec true wp pm pe pbc man exp bc Hwp Gp Gm) as S1. pose proof (mulstep_lower pm pe pbc man exp bc Gp Gm) as L1.
    destruct (mulstep true wp pm pe pbc man exp bc) as [[pm' pe'] pbc']. destruct S1 as [G1 _].
    pose proof (mulstep_spec true wp man exp bc man exp bc Hwp Gm Gm) as S2. pose proof (mulstep_lower man exp bc man exp bc Gm Gm) as L2.
    destruct (mulstep true wp man exp bc man exp bc) as [[man' exp'] bc']. destruct S2 as [G2 _].
    assert (Fp : (0 < F2R (Float radix2 pm pe))%R) by (apply F2R_pos, Gp).
    assert (Fm : (0 < F2R (Float radix2 man exp))%R) by (apply F2R_pos, Gm).
    assert (Qb : (0 <= q ^ b)%R) by (apply pow_le; lra). assert (Qa : (0 <= q ^ a)%R) by (apply pow_le; lra).
    assert (E1 : ((P * B) * q ^ (b + a + 1) <= F2R (Float radix2 pm' pe'))%R).
    { eapply Rle_trans; [|exact L1]. rewrite !pow_add, pow_1.
      replace (P * B * (q ^ b * q ^ a * q))%R with ((P * q ^ b) * (B * q ^ a) * q)%R by ring.
      apply Rmult_le_compat_r; [lra|]. apply Rmult_le_compat; try nra. }
    assert (E2 : ((B * B) * q ^ (a + a + 1) <= F2R (Float radix2 man' exp'))%R).
    { eapply Rle_trans; [|exact L2]. rewrite !pow_add, pow_1.
      replace (B * B * (q ^ a * q ^ a * q))%R with ((B * q ^ a) * (B * q ^ a) * q)%R by ring.
      apply Rmult_le_compat_r; [lra|]. apply Rmult_le_compat; try nra. }
    specialize (IH pm' pe' pbc' man' exp' bc' (P * B)%R (B * B)%R (a + a + 1)%nat (b + a + 1)%nat G1 G2 ltac:(nra) ltac:(nra) E1 E2).
    destruct (pow_loop n true wp pm' pe' pbc' man' exp' bc') as [[m' e'] b']. eapply Rle_trans; [|exact IH].
    rewrite Pos2Nat.inj_xI.
    replace (b + S a * S (2 * Pos.to_nat n))%nat with (b + a + 1 + S (a + a + 1) * Pos.to_nat n)%nat by lia.
    rewrite <- tech_pow_Rmult, pow_mult. replace (B ^ 2)%R with (B * B)%R by ring. apply Req_le. ring.
  - pose proof (mulstep_spec true wp man exp bc man exp bc Hwp Gm Gm) as S2. pose proof (mulstep_lower man exp bc man exp bc Gm Gm) as L2.
    destruct (mulstep true wp man exp bc man exp bc) as [[man' exp'] bc']. destruct S2 as [G2 _].
    assert (Fm : (0 < F2R (Float radix2 man exp))%R) by (apply F2R_pos, Gm).
    assert (Qa : (0 <= q ^ a)%R) by (apply pow_le; lra).
    assert (E2 : ((B * B) * q ^ (a + a + 1) <= F2R (Float radix2 man' exp'))%R).
    { eapply Rle_trans; [|exact L2]. rewrite !pow_add, pow_1.
      replace (B * B * (q ^ a * q ^ a * q))%R with ((B * q ^ a) * (B * q ^ a) * q)%R by ring.
      apply Rmult_le_compat_r; [lra|]. apply Rmult_le_compat; try nra. }
    specialize (IH pm pe pbc man' exp' bc' P (B * B)%R (a + a + 1)%nat b Gp G2 HP ltac:(nra) LP E2).
    destruct (pow_loop n true wp pm pe pbc man' exp' bc') as [[m' e'] b']. eapply Rle_trans; [|exact IH].
    rewrite Pos2Nat.inj_xO.
    replace (b + S a * (2 * Pos.to_nat n))%nat with (b + S (a + a + 1) * Pos.to_nat n)%nat by lia.
    rewrite pow_mult. replace (B ^ 2)%R with (B * B)%R by ring. apply Req_le. ring.
  - pose proof (mulstep_lower pm pe pbc man exp bc Gp Gm) as L1.
    destruct (mulstep true wp pm pe pbc man exp bc) as [[pm' pe'] pbc'].
    assert (Fp : (0 < F2R (Float radix2 pm pe))%R) by (apply F2R_pos, Gp).
    assert (Fm : (0 < F2R (Float radix2 man exp))%R) by (apply F2R_pos, Gm).
    assert (Qb : (0 <= q ^ b)%R) by (apply pow_le; lra). assert (Qa : (0 <= q ^ a)%R) by (apply pow_le; lra).
    eapply Rle_trans; [|exact L1]. change (Pos.to_nat 1) with 1%nat.
    replace (b + S a * 1)%nat with (b + a + 1)%nat by lia. rewrite !pow_add, !pow_1.
    replace (P * B * (q ^ b * q ^ a * q))%R with ((P * q ^ b) * (B * q ^ a) * q)%R by ring.
    apply Rmult_le_compat_r; [lra|]. apply Rmult_le_compat; try nra.
Qed.

(* Bernoulli: (1 - tau)^k >= 1 - k tau *)
Lemma q_pow_ge k : (1 - INR k * tau <= q ^ k)%R.
Proof.
  pose proof tau_range as T. pose proof q_range as Q. induction k as [|k IH]; [simpl; lra|].
  rewrite S_INR. simpl pow. unfold q_of in *. pose proof (pos_INR k) as Kp.
  destruct (Rle_dec (1 - INR k * tau) 0) as [Neg|Pos].
  - assert (0 <= (1 - tau) ^ k)%R by (apply pow_le; lra). nra.
  - nra.
Qed.
End Err.

(* ---- the loop branch in nearest mode ---- *)
Lemma pos_lt_pow2_bitcount n : Zpos n < 2 ^ bitcount (Zpos n).
Proof. apply (bitcount_spec (Zpos n)). reflexivity. Qed.

Lemma pow_general_bounds s n prec : regular s -> 0 < prec ->
  let wp := prec + 4 * bitcount (Zpos n) + 4 in
  exists c, (0 < c)%R /\
    rv (pow_general s n prec RN) = RND RN prec (sgn (Z.land (msign s) (Zpos n)) * c) /\
    (c <= Rabs (rv s) ^ Pos.to_nat n)%R /\
    (Rabs (rv s) ^ Pos.to_nat n * (1 - IZR (Zpos n) * tau_of wp) <= c)%R.
Proof.
  intros [S1 [S2 [S3 S4]]] Hp wp. unfold pow_general. fold wp.
  set (rs := Z.land (msign s) (Zpos n)).
  assert (Hwp : 1 <= wp) by (unfold wp; pose proof (bitcount_nonneg (Zpos n)); lia).
  assert (G1 : good 1 1).
  { unfold good. change (bitcount 1) with 1. split; [lia|]. split; [lia|]. left; reflexivity. }
  assert (Gm : good (mman s) (mbc s)).
  { pose proof (bitcount_pos (mman s) S2). unfold good. split; [lia|]. split; [lia|]. left; exact S4. }
  assert (B0 : (0 < F2R (Float radix2 (mman s) (mexp s)))%R) by (apply F2R_pos; exact S2).
  assert (F1 : F2R (Float radix2 1 0) = 1%R) by (unfold F2R; simpl; ring).
  cbn [rnd_eqb orb].
  pose proof (pow_loop_dir true wp Hwp n 1 0 1 (mman s) (mexp s) (mbc s) 1%R _ G1 Gm Rlt_0_1 B0) as L.
  pose proof (pow_loop_lower wp Hwp n 1 0 1 (mman s) (mexp s) (mbc s) 1%R _ 0%nat 0%nat G1 Gm Rlt_0_1 B0) as Lo.
  assert (D1 : Rdir true (F2R (Float radix2 1 0)) 1) by (rewrite F1; apply Rle_refl).
  assert (D2 : Rdir true (F2R (Float radix2 (mman s) (mexp s))) (F2R (Float radix2 (mman s) (mexp s)))) by apply Rle_refl.
  specialize (L D1 D2). specialize (Lo ltac:(rewrite F1; simpl; lra) ltac:(simpl; lra)).
  destruct (pow_loop n true wp 1 0 1 (mman s) (mexp s) (mbc s)) as [[pm pe] pbc].
  destruct L as [[Gp [Gb Gk]] D]. cbn [Rdir] in D. rewrite Rmult_1_l in D, Lo.
  assert (EA : Rabs (rv s) = F2R (Float radix2 (mman s) (mexp s))).
  { unfold rv. rewrite Rabs_mult. rewrite (Rabs_pos_eq (F2R _)) by lra. rewrite sgn_abs by exact S1. ring. }
  exists (F2R (Float radix2 pm pe)). split; [apply F2R_pos; exact Gp|]. split.
  - apply normalize_round_bcok; auto. apply land_sign_01; exact S1.
  - rewrite EA. split; [exact D|].
    eapply Rle_trans; [|exact Lo]. replace (0 + 1 * Pos.to_nat n)%nat with (Pos.to_nat n) by lia.
    apply Rmult_le_compat_l; [apply pow_le; lra|].
    pose proof (q_pow_ge wp Hwp (Pos.to_nat n)) as QB.
    rewrite INR_IZR_INZ, positive_nat_Z in QB. exact QB.
Qed.

Lemma n_tau_small n prec : 0 < prec ->
  (IZR (Zpos n) * tau_of (prec + 4 * bitcount (Zpos n) + 4) <= bpow radix2 (- prec - 2))%R.
Proof.
  intros Hp. pose proof (pos_lt_pow2_bitcount n) as Hn. pose proof (bitcount_pos (Zpos n) ltac:(reflexivity)) as Hk.
  set (k := bitcount (Zpos n)) in *. unfold tau_of.
  apply Rle_trans with (bpow radix2 k * bpow radix2 (1 - (prec + 4 * k + 4)))%R.
  - apply Rmult_le_compat_r; [apply bpow_ge_0|]. rewrite <- IZR_pow2 by lia. apply IZR_le. lia.
  - rewrite <- bpow_plus. apply bpow_le. lia.
Qed.

Theorem pow_general_nearest s n prec : regular s -> 0 < prec ->
  (Rabs (rv (pow_general s n prec RN) - rv s ^ Pos.to_nat n) <=
   3 / 4 * ulp radix2 (FLX_exp prec) (rv s ^ Pos.to_nat n))%R.
Proof.
  intros Hs Hp. assert (HP : Prec_gt_0 prec) by exact Hp.
  destruct (pow_general_bounds s n prec Hs Hp) as [c [Hc [E [Up Lo]]]].
  set (rs := Z.land (msign s) (Zpos n)) in *. set (A := (Rabs (rv s) ^ Pos.to_nat n)%R) in *.
  assert (HA : (0 < A)%R) by (apply pow_lt, Rabs_rv_pos; exact Hs).
  assert (Hrs : rs = 0 \/ rs = 1) by (apply land_sign_01, Hs).
  rewrite E, rv_pow_abs by exact Hs. fold rs A.
  set (U := ulp radix2 (FLX_exp prec) (sgn rs * A)).
  (* rounding error *)
  assert (R1 : (Rabs (RND RN prec (sgn rs * c) - sgn rs * c) <= / 2 * U)%R).
  { eapply Rle_trans; [apply (error_le_half_ulp radix2 (FLX_exp prec) (fun x => negb (Z.even x)))|].
    apply Rmult_le_compat_l; [lra|]. apply ulp_le; try typeclasses eauto.
    rewrite !Rabs_mult, sgn_abs by exact Hrs. rewrite !Rabs_pos_eq by lra. lra. }
  (* truncation error of the loop *)
  pose proof (n_tau_small n prec Hp) as NT.
  assert (R2 : (Rabs (sgn rs * c - sgn rs * A) <= / 4 * U)%R).
  { replace (sgn rs * c - sgn rs * A)%R with (sgn rs * (c - A))%R by ring.
    rewrite Rabs_mult, sgn_abs by exact Hrs. rewrite Rmult_1_l, Rabs_left1 by lra.
    pose proof (ulp_FLX_ge radix2 prec (sgn rs * A)) as UG. fold U in UG.
    rewrite Rabs_mult, sgn_abs, Rmult_1_l, (Rabs_pos_eq A) in UG by (auto; lra).
    assert (B2 : (bpow radix2 (- prec - 2) = bpow radix2 (- prec) / 4)%R).
    { unfold Zminus. rewrite bpow_plus. replace (bpow radix2 (- (2))) with (/ 4)%R by (simpl; lra). unfold Rdiv. ring. }
    assert (Pb : (0 < bpow radix2 (- prec))%R) by apply bpow_gt_0.
    nra. }
  replace (RND RN prec (sgn rs * c) - sgn rs * A)%R with ((RND RN prec (sgn rs * c) - sgn rs * c) + (sgn rs * c - sgn rs * A))%R by ring.
  eapply Rle_trans; [apply Rabs_triang|]. lra.
Qed.

(* every branch of the positive-exponent power in nearest mode: within 3/4 ulp of x^n *)
Theorem mpf_pow_int_pos_nearest s n prec : regular s -> 0 < prec ->
  (Rabs (rv (mpf_pow_int_pos s n prec RN) - rv s ^ Pos.to_nat n) <=
   3 / 4 * ulp radix2 (FLX_exp prec) (rv s ^ Pos.to_nat n))%R.
Proof.
  intros Hs Hp. assert (HP : Prec_gt_0 prec) by exact Hp.
  destruct (mpf_pow_int_pos_cases s n prec RN Hs Hp) as [E|[_ [_ [_ [_ E]]]]]; rewrite E.
  - eapply Rle_trans; [apply (error_le_half_ulp radix2 (FLX_exp prec) (fun x => negb (Z.even x)))|].
    pose proof (ulp_ge_0 radix2 (FLX_exp prec) (rv s ^ Pos.to_nat n)). lra.
  - apply pow_general_nearest; assumption.
Qed.
