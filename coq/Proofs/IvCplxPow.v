(* IvCplxPow.v — C14/C15: negative integer powers of real intervals; division and positive integer powers of rectangular
   complex intervals contain every exact result (by composition of the containment theorems; the power loop by induction on
   the bits of the exponent). *)
From Coq Require Import ZArith Reals Bool List Lia Lra Psatz PArith.
From Flocq Require Import Core.
From MP Require Import Algo.Base Algo.Libmpf Algo.Libmpi Spec.Mpf Spec.Round Proofs.NormRound Proofs.Ops Proofs.AddRound
  Proofs.Fin Proofs.Cmp Proofs.IvCmp Proofs.IvContain Proofs.IvMul Proofs.IvDiv Proofs.IvPow Proofs.IvCplx Proofs.CplxPow.
Open Scope Z_scope.

Lemma rv_fone' : rv fone = 1%R.
Proof. unfold rv, fone, sgn, F2R; simpl. ring. Qed.

Lemma one_iv : valid_iv mpi_one /\ in_iv mpi_one 1.
Proof.
  unfold mpi_one, valid_iv, in_iv; cbn [fst snd]. rewrite rv_fone'.
  assert (fincanon fone) by (right; unfold regular, fone; cbn [msign mman mexp mbc]; split; [auto|]; split; [lia|]; split; reflexivity).
  repeat split; auto; lra.
Qed.

(* ---- real intervals: x^(-n) ---- *)
Theorem mpi_pow_int_neg_contains s p prec x : valid_iv s -> 0 < prec -> in_iv s x ->
  forall w, mpi_pow_int_pos s (Zpos p) (prec + 20) = Ok w -> ((0 < rv (fst w))%R \/ (rv (snd w) < 0)%R) ->
  exists r, mpi_pow_int s (Zneg p) prec = Ok r /\ in_iv r (1 / x ^ Pos.to_nat p) /\ valid_iv r.
Proof.
  intros Vs Hp Ix w Ew Hnz.
  destruct (mpi_pow_int_pos_contains s p (prec + 20) x Vs ltac:(lia) Ix) as [w' [Ew' [Iw Vw]]].
  rewrite Ew in Ew'. injection Ew' as <-.
  unfold mpi_pow_int. cbn [Z.eqb Z.ltb Z.compare Z.opp]. rewrite Ew. cbn [bind].
  destruct one_iv as [V1 I1].
  apply (mpi_div_contains mpi_one w prec 1 (x ^ Pos.to_nat p)); auto.
Qed.

(* ---- complex rectangles ---- *)
Theorem mpci_div_contains z w prec a b c d : valid_civ z -> valid_civ w -> 0 < prec -> in_civ z a b -> in_civ w c d ->
  let m := mpi_add (mpi_square (fst w) 0) (mpi_square (snd w) 0) (prec + 20) in
  (0 < rv (fst m))%R ->
  exists q, mpci_div z w prec = Ok q /\ valid_civ q /\
    in_civ q ((a * c + b * d) / (c * c + d * d)) ((b * c - a * d) / (c * c + d * d)).
Proof.
  intros [Z1 Z2] [W1 W2] Hp [A B] [C D]. destruct z as [za zb], w as [wa wb]. cbn [fst snd] in *.
  cbv zeta. intros Hm. set (m := mpi_add (mpi_square wa 0) (mpi_square wb 0) (prec + 20)) in *. unfold mpci_div. fold m.
  destruct (mpi_square_contains wa 0 c W1 ltac:(lia) C) as [I1 V1].
  destruct (mpi_square_contains wb 0 d W2 ltac:(lia) D) as [I2 V2].
  destruct (mpi_add_contains _ _ (prec + 20) _ _ V1 V2 ltac:(lia) I1 I2) as [Im Vm]. fold m in Im, Vm.
  destruct (mpi_mul_contains za wa 0 a c Z1 W1 ltac:(lia) A C) as [J1 U1].
  destruct (mpi_mul_contains zb wb 0 b d Z2 W2 ltac:(lia) B D) as [J2 U2].
  destruct (mpi_mul_contains zb wa 0 b c Z2 W1 ltac:(lia) B C) as [J3 U3].
  destruct (mpi_mul_contains za wb 0 a d Z1 W2 ltac:(lia) A D) as [J4 U4].
  destruct (mpi_add_contains _ _ (prec + 20) _ _ U1 U2 ltac:(lia) J1 J2) as [Ire Vre].
  destruct (mpi_sub_contains _ _ (prec + 20) _ _ U3 U4 ltac:(lia) J3 J4) as [Iim Vim].
  destruct (mpi_div_contains _ m prec _ _ Vre Vm Hp (or_introl Hm) Ire Im) as [qr [Er [Ir Vr]]].
  destruct (mpi_div_contains _ m prec _ _ Vim Vm Hp (or_introl Hm) Iim Im) as [qi [Ei [Ii Vi]]].
  exists (qr, qi). rewrite Er. cbn [bind]. rewrite Ei. cbn [bind]. split; [reflexivity|].
  split; [split; assumption|]. split; assumption.
Qed.

Lemma rmul_assoc x y z : rmul x (rmul y z) = rmul (rmul x y) z.
Proof. unfold rmul; cbn [fst snd]. f_equal; ring. Qed.
Lemma rmul_1_r x : rmul x (1, 0)%R = x.
Proof. destruct x. unfold rmul; cbn [fst snd]. f_equal; ring. Qed.
Lemma rmul_1_l x : rmul (1, 0)%R x = x.
Proof. destruct x. unfold rmul; cbn [fst snd]. f_equal; ring. Qed.
Lemma rpow_sq B k : rpow (rmul B B) k = rpow B (2 * k).
Proof.
  induction k as [|k IH]; [reflexivity|]. replace (2 * S k)%nat with (S (S (2 * k))) by lia.
  cbn [rpow]. rewrite IH. symmetry. apply rmul_assoc.
Qed.

(* the power loop: result contains P * B^n *)
Lemma one_civ : valid_civ (mpi_one, mpi_zero) /\ in_civ (mpi_one, mpi_zero) 1 0.
Proof.
  destruct one_iv as [V1 I1]. unfold valid_civ, in_civ; cbn [fst snd].
  assert (Z0 : in_iv mpi_zero 0 /\ valid_iv mpi_zero) by (apply zero_iv; reflexivity).
  destruct Z0. auto.
Qed.

Lemma mpci_pow_loop_contains wp : 0 <= wp -> forall n res x P B,
  valid_civ res -> valid_civ x -> in_civ res (fst P) (snd P) -> in_civ x (fst B) (snd B) ->
  let r := mpci_pow_loop n res x wp in
  valid_civ r /\ in_civ r (fst (rmul P (rpow B (Pos.to_nat n)))) (snd (rmul P (rpow B (Pos.to_nat n)))).
Proof.
  intros Hwp. induction n as [n IH|n IH|]; intros res x P B Vr Vx Ir Ix; cbn [mpci_pow_loop].
  - destruct (mpci_mul_contains res x wp _ _ _ _ Vr Vx Hwp Ir Ix) as [I1 V1].
    destruct (mpci_square_contains x wp _ _ Vx Hwp Ix) as [I2 V2].
    specialize (IH (mpci_mul res x wp) (mpci_square x wp) (rmul P B) (rmul B B) V1 V2).
    cbv zeta in IH. destruct IH as [V I].
    + unfold rmul; cbn [fst snd]. exact I1.
    + unfold rmul; cbn [fst snd]. replace (fst B * snd B + snd B * fst B)%R with (2 * (fst B * snd B))%R by ring. exact I2.
    + split; [exact V|]. rewrite Pos2Nat.inj_xI.
      replace (rmul P (rpow B (S (2 * Pos.to_nat n)))) with (rmul (rmul P B) (rpow (rmul B B) (Pos.to_nat n))); [exact I|].
      rewrite rpow_sq. cbn [rpow]. symmetry. apply rmul_assoc.
  - destruct (mpci_square_contains x wp _ _ Vx Hwp Ix) as [I2 V2].
    specialize (IH res (mpci_square x wp) P (rmul B B) Vr V2 Ir).
    cbv zeta in IH. destruct IH as [V I].
    + unfold rmul; cbn [fst snd]. replace (fst B * snd B + snd B * fst B)%R with (2 * (fst B * snd B))%R by ring. exact I2.
    + split; [exact V|]. rewrite Pos2Nat.inj_xO.
      rewrite <- rpow_sq. exact I.
  - destruct (mpci_mul_contains res x wp _ _ _ _ Vr Vx Hwp Ir Ix) as [I1 V1].
    split; [exact V1|]. change (Pos.to_nat 1) with 1%nat. cbn [rpow].
    rewrite rmul_1_r. unfold rmul; cbn [fst snd]. exact I1.
Qed.

Theorem mpci_pow_int_pos_contains z n prec a b : valid_civ z -> 0 < prec -> in_civ z a b -> 3 <= Zpos n ->
  let r := mpci_pow_int_pos z n prec in
  valid_civ r /\ in_civ r (fst (rpow (a, b) (Pos.to_nat n))) (snd (rpow (a, b) (Pos.to_nat n))).
Proof.
  intros Vz Hp Iz Hn. cbv zeta. unfold mpci_pow_int_pos.
  destruct (Z.eqb_spec (Zpos n) 1); [lia|]. destruct (Z.eqb_spec (Zpos n) 2); [lia|].
  destruct one_civ as [V1 I1].
  destruct (mpci_pow_loop_contains (prec + 20) ltac:(lia) n (mpi_one, mpi_zero) z (1, 0)%R (a, b) V1 Vz I1 Iz) as [V I].
  destruct (mpci_pos_contains _ prec _ _ V ltac:(lia) I) as [I' V']. split; [exact V'|].
  rewrite rmul_1_l in I'. exact I'.
Qed.
