(* FloatConv.v — C09: from_float is exact for every finite double (its frexp parts m*2^53 = integer with |.| < 2^53)
   whenever prec >= 53, and correctly rounded below; to_float rounds to 53 bits correctly before the exact ldexp. *)
From Coq Require Import ZArith Reals Bool Lia Lra.
From Flocq Require Import Core.
From MP Require Import Algo.Base Algo.Libmpf Algo.Ctxfun Spec.Mpf Spec.Round Proofs.Bits Proofs.Normalize Proofs.NormRound Proofs.Ops.
Open Scope Z_scope.

Theorem from_float_round m53 e prec r : 0 < prec ->
  rv (from_float_parts m53 e prec r) = RND r prec (F2R (Float radix2 m53 (e - 53))).
Proof. intros Hp. unfold from_float_parts. apply from_man_exp_round. exact Hp. Qed.

Theorem from_float_exact m53 e prec r : Z.abs m53 < 2 ^ 53 -> 53 <= prec ->
  rv (from_float_parts m53 e prec r) = F2R (Float radix2 m53 (e - 53)).
Proof.
  intros Hm Hp. rewrite from_float_round by lia. unfold RND.
  assert (HP : Prec_gt_0 prec) by (unfold Prec_gt_0; lia).
  apply round_generic; [typeclasses eauto|].
  apply generic_format_FLX. exists (Float radix2 m53 (e - 53)); [reflexivity|].
  simpl. apply Z.lt_le_trans with (1 := Hm). change (Zpower radix2 prec) with (2 ^ prec). apply Z.pow_le_mono_r; lia.
Qed.

(* to_float: the (mantissa, exponent) pair handed to math.ldexp is the 53-bit rounding of the value *)
Theorem to_float_round s r : regular s ->
  let '(m, e) := to_float_parts s r in F2R (Float radix2 m e) = RND r 53 (rv s).
Proof.
  intros Hs. pose proof Hs as [S1 [S2 [S3 S4]]]. unfold to_float_parts.
  destruct (Z.ltb_spec 53 (mbc s)) as [L|G].
  - set (x := normalize1 (msign s) (mman s) (mexp s) (mbc s) 53 r).
    assert (Hx : rv x = RND r 53 (rv s)) by (apply normalize1_round; auto; lia).
    assert (Fx : fincanon x) by (apply normalize1_fincanon; auto; lia).
    rewrite <- Hx. unfold rv, sgn.
    destruct Fx as [->|[X1 _]]; [simpl; rewrite !F2R_0; ring|].
    destruct X1 as [E|E]; rewrite E; simpl.
    + ring. + rewrite F2R_Zopp. ring.
  - assert (E0 : rv s = sval (msign s) (mman s) (mexp s)) by reflexivity.
    rewrite E0, RND_exact by (auto; lia). unfold sval, sgn.
    destruct S1 as [E|E]; rewrite E; simpl; [ring|rewrite F2R_Zopp; ring].
Qed.
