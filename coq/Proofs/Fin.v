(* Fin.v — finite canonical operands give finite canonical results (no inf/nan) for add/sub/div/sqrt;
   with Format.rounded_bc_le and the rounding theorems this yields C10 for these operations. *)
From Coq Require Import ZArith Reals List Bool Lia.
From Flocq Require Import Core.
From MP Require Import Algo.Base Algo.Libmpf Spec.Mpf Spec.Round Proofs.Bits Proofs.Normalize Proofs.Canon Proofs.NormRound
  Proofs.Ops Proofs.Sticky Proofs.DivRound Proofs.SqrtRound Proofs.AddRound Proofs.Format.
Open Scope Z_scope.

Lemma normalize_por_fin sign man exp prec r :
  (sign = 0 \/ sign = 1) -> 0 <= man -> 0 <= prec ->
  fincanon (normalize sign man exp (bitcount man) (prec_or prec (bitcount man)) r).
Proof.
  intros Hs Hm Hp. destruct (Z.eq_dec man 0) as [->|Hne]; [left; reflexivity|].
  apply normalize_fincanon; auto. unfold prec_or.
  pose proof (bitcount_pos man ltac:(lia)). destruct (Z.eqb_spec prec 0); lia.
Qed.

Lemma normalize1_por_fin sign man exp prec r :
  (sign = 0 \/ sign = 1) -> 0 <= man -> (man = 0 \/ Z.odd man = true) -> 0 <= prec ->
  fincanon (normalize1 sign man exp (bitcount man) (prec_or prec (bitcount man)) r).
Proof.
  intros Hs Hm Ho Hp. destruct (Z.eq_dec man 0) as [->|Hne]; [left; reflexivity|].
  apply normalize1_fincanon; auto. unfold prec_or.
  pose proof (bitcount_pos man ltac:(lia)). destruct (Z.eqb_spec prec 0); lia.
Qed.

Lemma add_regular_fincanon s t prec r sub : regular s -> regular t -> 0 <= prec ->
  fincanon (mpf_add_gen s t prec r sub).
Proof.
  intros [S1 [S2 [S3 S4]]] [T1 [T2 [T3 T4]]] Hp.
  destruct s as [ssign sman sexp sbc], t as [tsign0 tman texp tbc]; cbn [msign mman mexp mbc] in *.
  unfold mpf_add_gen.
  set (tsign := if sub then 1 - tsign0 else tsign0).
  assert (Ts : tsign = 0 \/ tsign = 1) by (apply flip_bit; auto).
  destruct (Z.eqb_spec sman 0); [lia|]. destruct (Z.eqb_spec tman 0); [lia|]. cbn [negb andb].
  destruct (Z.ltb_spec 0 (sexp - texp)) as [Hoff|Hoff].
  - (* s has the larger exponent *)
    destruct ((100 <? sexp - texp) && negb (prec =? 0) && (prec + 4 <? sbc + sexp - tbc - texp) && (tbc <=? sexp - texp)) eqn:Hc.
    + (* perturbation *)
      apply andb_prop in Hc as [Hc _]. apply andb_prop in Hc as [Hc _]. apply andb_prop in Hc as [_ Hc].
      destruct (Z.eqb_spec prec 0); [discriminate|].
      destruct (odd_shift_pm1 sman (prec + 4) ltac:(lia)) as [O1 O2].
      pose proof (shiftl_pos sman (prec + 4) S2 ltac:(lia)).
      destruct (tsign =? ssign); apply normalize1_fincanon; auto; lia.
    + destruct (ssign =? tsign).
      * apply normalize1_por_fin; auto.
        -- pose proof (shiftl_pos sman (sexp - texp) S2 ltac:(lia)). lia.
        -- right. apply odd_add_shift; auto.
      * apply normalize1_por_fin; auto; try apply sign_ite; try lia.
        right. rewrite odd_abs. destruct (odd_sub_shift tman sman (sexp - texp) T3 Hoff).
        destruct (ssign =? 0); assumption.
  - destruct (Z.ltb_spec (sexp - texp) 0) as [Hoff2|Hoff2].
    + destruct ((sexp - texp <? -100) && negb (prec =? 0) && (prec + 4 <? tbc + texp - sbc - sexp) && (sbc <=? - (sexp - texp))) eqn:Hc.
      * apply andb_prop in Hc as [Hc _]. apply andb_prop in Hc as [Hc _]. apply andb_prop in Hc as [_ Hc].
        destruct (Z.eqb_spec prec 0); [discriminate|].
        destruct (odd_shift_pm1 tman (prec + 4) ltac:(lia)) as [O1 O2].
        pose proof (shiftl_pos tman (prec + 4) T2 ltac:(lia)).
        destruct (ssign =? tsign); apply normalize1_fincanon; auto; lia.
      * destruct (ssign =? tsign).
        -- apply normalize1_por_fin; auto.
           ++ pose proof (shiftl_pos tman (- (sexp - texp)) T2 ltac:(lia)). lia.
           ++ right. apply odd_add_shift; auto. lia.
        -- apply normalize1_por_fin; auto; try apply sign_ite; try lia.
           right. rewrite odd_abs. destruct (odd_sub_shift sman tman (- (sexp - texp)) S3 ltac:(lia)).
           destruct (tsign =? 0); assumption.
    + (* equal exponents *)
      destruct (ssign =? tsign).
      * apply normalize_por_fin; auto; lia.
      * apply normalize_por_fin; auto; try apply sign_ite; lia.
Qed.

Theorem mpf_add_gen_fincanon s t prec r sub : fincanon s -> fincanon t -> 0 <= prec ->
  fincanon (mpf_add_gen s t prec r sub).
Proof.
  intros Hs Ht Hp.
  destruct Hs as [->|Rs]; [|destruct Ht as [->|Rt]; [|apply add_regular_fincanon; auto]].
  - destruct Ht as [->|Rt].
    + unfold mpf_add_gen. cbn [fzero Z.eqb negb andb mman mexp]. destruct sub; left; reflexivity.
    + destruct t as [tsign0 tman texp tbc]. destruct Rt as [T1 [T2 [T3 T4]]]; cbn [msign mman mexp mbc] in *.
      unfold mpf_add_gen. cbn [fzero Z.eqb negb andb].
      destruct (Z.eqb_spec tman 0); [lia|]. cbn [negb]. subst tbc.
      apply normalize1_por_fin; auto; try lia. destruct T1 as [-> | ->]; destruct sub; simpl; auto.
  - destruct s as [ssign sman sexp sbc]. destruct Rs as [S1 [S2 [S3 S4]]]; cbn [msign mman mexp mbc] in *.
    unfold mpf_add_gen. cbn [fzero Z.eqb negb andb].
    destruct (Z.eqb_spec sman 0); [lia|]. cbn [negb andb]. subst sbc.
    apply normalize1_por_fin; auto; lia.
Qed.

Theorem mpf_add_bc_le s t prec r : fincanon s -> fincanon t -> 0 < prec -> mbc (mpf_add s t prec r) <= prec.
Proof.
  intros Hs Ht Hp. apply (rounded_bc_le _ r prec (rv s + rv t)); auto.
  - apply mpf_add_gen_fincanon; auto; lia.
  - apply mpf_add_round; auto.
Qed.

Theorem mpf_sub_bc_le s t prec r : fincanon s -> fincanon t -> 0 < prec -> mbc (mpf_sub s t prec r) <= prec.
Proof.
  intros Hs Ht Hp. apply (rounded_bc_le _ r prec (rv s - rv t)); auto.
  - apply mpf_add_gen_fincanon; auto; lia.
  - apply mpf_sub_round; auto.
Qed.

Lemma div_fincanon s t prec r y : fincanon s -> regular t -> 0 < prec -> mpf_div s t prec r = Ok y -> fincanon y.
Proof.
  intros Hs Ht Hp. unfold mpf_div.
  destruct s as [ssign sman sexp sbc], t as [tsign tman texp tbc].
  destruct Ht as [T1 [T2 [T3 T4]]]; cbn [msign mman mexp mbc] in *.
  destruct (Z.eqb_spec tman 0); [lia|]. rewrite orb_false_r.
  destruct (fincanon_cases _ Hs) as [E|[S1 [S2 [S3 S4]]]]; cbn [msign mman mexp mbc] in *.
  - injection E as -> -> -> ->. cbn [Z.eqb]. change (Mpf 0 0 0 0) with fzero.
    assert (mpf_eqb fzero fzero = true) as -> by reflexivity.
    destruct (mpf_eqb _ fzero); [discriminate|].
    destruct (mpf_eqb (Mpf tsign tman texp tbc) fnan) eqn:Hn; [apply mpf_eqb_eq in Hn; inversion Hn; lia|].
    intros [= <-]. left; reflexivity.
  - destruct (Z.eqb_spec sman 0); [lia|].
    pose proof (lxor_bit _ _ S1 T1) as Hx.
    destruct (tman =? 1).
    + intros [= <-]. apply normalize1_fincanon; auto; lia.
    + set (extra := if prec - sbc + tbc + 5 <? 5 then 5 else prec - sbc + tbc + 5).
      assert (He : 0 <= extra) by (unfold extra; destruct (Z.ltb_spec (prec - sbc + tbc + 5) 5); lia).
      pose proof (shiftl_pos sman extra S2 He) as Hn.
      assert (Hq : 0 <= Z.shiftl sman extra / tman) by (apply Z.div_pos; lia).
      destruct (Z.shiftl sman extra mod tman =? 0); cbn [negb]; intros [= <-].
      * apply normalize_fincanon; auto.
      * destruct (odd_shift_pm1 (Z.shiftl sman extra / tman) 1 ltac:(lia)) as [O1 _].
        apply normalize1_fincanon; auto.
        clear O1. destruct (Z.shiftl sman extra / tman); lia.
Qed.

Theorem mpf_div_bc_le s t prec r y : fincanon s -> regular t -> 0 < prec -> mpf_div s t prec r = Ok y -> mbc y <= prec.
Proof.
  intros Hs Ht Hp E. destruct (mpf_div_round s t prec r Hs Ht Hp) as [y' [E' V]].
  rewrite E in E'. injection E' as <-.
  apply (rounded_bc_le y r prec (rv s / rv t)); auto. eapply div_fincanon; eauto.
Qed.

Theorem mpf_sqrt_bc_le s prec r y : regular s -> msign s = 0 -> 0 < prec -> mpf_sqrt s prec r = Ok y -> mbc y <= prec.
Proof.
  intros Hs Hsg Hp E. destruct (mpf_sqrt_round s prec r Hs Hsg Hp) as [y' [E' V]].
  rewrite E in E'. injection E' as <-.
  apply (rounded_bc_le y r prec (sqrt (rv s))); auto.
  (* the result is finite: it is produced by from_man_exp / normalize1 *)
  revert E. unfold mpf_sqrt. destruct s as [sign man exp bc]. destruct Hs as [S1 [S2 [S3 S4]]]; cbn [msign mman mexp mbc] in *.
  subst sign. cbn [Z.eqb negb]. destruct (Z.eqb_spec man 0); [lia|].
  destruct (negb (Z.odd exp) && (man =? 1)).
  - intros [= <-]. apply normalize1_fincanon; auto; lia.
  - destruct (if Z.odd exp then (Z.shiftl man 1, exp - 1, bc + 1) else (man, exp, bc)) as [[m e] b].
    destruct r; try destruct (Z.sqrtrem _) as [q rem]; try destruct (negb (rem =? 0));
      intros [= <-]; apply from_man_exp_fincanon; lia.
Qed.
