(* IvBc.v — C10 for intervals: the end points returned by interval add/sub/mul/neg/pos/square carry at most prec bits. *)
From Coq Require Import ZArith Reals Bool List Lia Lra.
From Flocq Require Import Core.
From MP Require Import Algo.Base Algo.Libmpf Algo.Libmpi Spec.Mpf Spec.Round Proofs.NormRound Proofs.Ops Proofs.AddRound
  Proofs.Fin Proofs.Format Proofs.SqrtRound Proofs.Cmp Proofs.IvCmp Proofs.IvContain Proofs.IvMul.
Import ListNotations.
Open Scope Z_scope.

Definition ibc_le (s : mpi) (p : Z) : Prop := mbc (fst s) <= p /\ mbc (snd s) <= p.

Lemma bc_of_roe y r p x : fincanon y -> 0 < p -> rv y = rnd_or_exact r p x -> mbc y <= p.
Proof.
  intros Fy Hp E. unfold rnd_or_exact in E. destruct (Z.eqb_spec p 0); [lia|]. eapply rounded_bc_le; eauto.
Qed.

Theorem mpi_add_bc s t prec : valid_iv s -> valid_iv t -> 0 < prec -> ibc_le (mpi_add s t prec) prec.
Proof.
  intros [Sa [Sb _]] [Ta [Tb _]] Hp. unfold mpi_add, ibc_le; cbn [fst snd].
  rewrite !nan_to_fin by (apply mpf_add_gen_fincanon; auto; lia). split; apply mpf_add_bc_le; auto.
Qed.

Theorem mpi_sub_bc s t prec : valid_iv s -> valid_iv t -> 0 < prec -> ibc_le (mpi_sub s t prec) prec.
Proof.
  intros [Sa [Sb _]] [Ta [Tb _]] Hp. unfold mpi_sub, ibc_le; cbn [fst snd].
  rewrite !nan_to_fin by (apply mpf_add_gen_fincanon; auto; lia). split; apply mpf_sub_bc_le; auto.
Qed.

Theorem mpi_pos_bc s prec : valid_iv s -> 0 < prec -> ibc_le (mpi_pos s prec) prec.
Proof. intros [Sa [Sb _]] Hp. unfold mpi_pos, ibc_le; cbn [fst snd]. split; apply mpf_pos_bc_le; auto. Qed.

(* multiplication: every end point is a rounded product, a rounded copy of an exact product, or zero *)
Theorem mpi_mul_bc s t prec x y : valid_iv s -> valid_iv t -> 0 < prec -> in_iv s x -> in_iv t y -> ibc_le (mpi_mul s t prec) prec.
Proof.
  intros Vs Vt Hp Ix Iy.
  destruct (mpi_mul_contains s t prec x y Vs Vt ltac:(lia) Ix Iy) as [_ [Fa [Fb _]]].
  (* both end points are finite; each equals some rounding to prec bits: read it off the definition *)
  pose proof Vs as [Sa [Sb _]]. pose proof Vt as [Ta [Tb _]].
  destruct s as [sa sb], t as [ta tb]. cbn [fst snd] in *. unfold ibc_le.
  assert (MB : forall p q r d, fincanon p -> fincanon q -> mbc (nan_to (mpf_mul p q prec r) d) <= prec).
  { intros p q r d Fp Fq. destruct (mul_roe p q prec r Fp Fq ltac:(lia)) as [E G]. rewrite nan_to_fin by exact G.
    unfold mpf_mul. apply python_mpf_mul_bc_le; auto. }
  assert (Z0 : mbc fzero <= prec) by (cbn; lia).
  assert (I0 : mbc fninf <= prec /\ mbc finf <= prec) by (cbn; lia).
  unfold mpi_mul in *.
  repeat match goal with
  | |- context [if ?c then _ else _] => destruct c
  end; cbn [fst snd]; try (split; first [apply MB; assumption | exact Z0 | apply I0]).
  (* mixed case *)
  all: destruct (mpf_min_max _) as [a b] eqn:EM; cbn [fst snd] in *.
  all: assert (HF : Forall fincanon [mpf_mul sa ta 0 RD; mpf_mul sa tb 0 RD; mpf_mul sb ta 0 RD; mpf_mul sb tb 0 RD])
         by (repeat (constructor; [apply (mul_roe _ _ 0 RD); auto; lia|]); constructor).
  all: pose proof (min_max_spec _ _ HF) as MM; rewrite EM in MM; destruct MM as [Fa' [Fb' _]].
  all: split; apply mpf_pos_bc_le; auto.
Qed.

(* a representable exact result is returned exactly by every correctly rounded operation (C02 "exact when it fits", C13) *)
Lemma RND_id_format r p x : 0 < p -> generic_format radix2 (FLX_exp p) x -> RND r p x = x.
Proof. intros Hp H. unfold RND. apply round_generic; [typeclasses eauto|exact H]. Qed.

Lemma sqrt_exact_square s prec r : regular s -> msign s = 0 -> 0 < prec ->
  generic_format radix2 (FLX_exp prec) (sqrt (rv s)) -> exists y, mpf_sqrt s prec r = Ok y /\ rv y = sqrt (rv s).
Proof.
  intros Hs Hsg Hp Hf. destruct (mpf_sqrt_round s prec r Hs Hsg Hp) as [y [E V]].
  exists y. split; [exact E|]. rewrite V. apply RND_id_format; assumption.
Qed.
