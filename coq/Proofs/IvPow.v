(* IvPow.v — C14: containment for positive integer powers of intervals (finite endpoints), built on the directed
   theorems for mpf_pow_int (Pow.v): odd powers are increasing, even powers are decided by the sign case. *)
From Coq Require Import ZArith Reals Bool List Lia Lra Psatz PArith.
From Flocq Require Import Core.
From MP Require Import Algo.Base Algo.Libmpf Algo.Libmpi Spec.Mpf Spec.Round Proofs.Bits Proofs.Normalize Proofs.NormRound Proofs.Ops
  Proofs.AddRound Proofs.Fin Proofs.Cmp Proofs.IvCmp Proofs.IvContain Proofs.IvMul Proofs.Pow.
Open Scope Z_scope.

Lemma pow_fzero p prec r : 0 < prec -> mpf_pow_int_pos fzero p prec r = fzero.
Proof.
  intros Hp. unfold mpf_pow_int_pos, fzero.
  destruct (Z.eqb_spec (Zpos p) 1).
  - unfold mpf_pos. destruct (Z.eqb_spec prec 0); [lia|]. reflexivity.
  - destruct (Z.eqb_spec (Zpos p) 2); [reflexivity|].
    cbn [Z.eqb Z.land Z.mul Z.ltb Z.compare]. rewrite Z.pow_0_l by lia. reflexivity.
Qed.

(* every finite base: the power exists, is finite, and lies on the requested side of the exact power *)
Lemma pow_endpoint a p prec r : fincanon a -> 0 < prec ->
  exists y, mpf_pow_int a (Zpos p) prec r = Ok y /\ fincanon y /\ side r (rv y) (rv a ^ Pos.to_nat p).
Proof.
  intros Fa Hp. unfold mpf_pow_int. rewrite (fincanon_not_special a Fa).
  eexists. split; [reflexivity|]. destruct Fa as [->|Ra].
  - rewrite pow_fzero by exact Hp. split; [left; reflexivity|]. rewrite rv_fzero.
    rewrite pow_i by (apply Pos2Nat.is_pos).
    destruct r; cbn [side]; auto; lra.
  - split; [right; apply mpf_pow_int_pos_regular; auto|]. apply mpf_pow_int_pos_directed; auto.
Qed.

(* ---- monotonicity of real powers ---- *)
Lemma pow_opp_even x k : ((- x) ^ (2 * k) = x ^ (2 * k))%R.
Proof. rewrite !pow_mult. f_equal. ring. Qed.
Lemma pow_opp_odd x k : ((- x) ^ S (2 * k) = - x ^ S (2 * k))%R.
Proof. rewrite <- !tech_pow_Rmult, pow_opp_even. ring. Qed.

Lemma pow_odd_incr x y k : (x <= y)%R -> (x ^ S (2 * k) <= y ^ S (2 * k))%R.
Proof.
  intros H. destruct (Rle_dec 0 x) as [Px|Nx].
  - apply pow_incr; split; lra.
  - destruct (Rle_dec 0 y) as [Py|Ny].
    + apply Rle_trans with 0%R; [|apply pow_le; exact Py].
      replace x with (- (- x))%R by ring. rewrite (pow_opp_odd (- x)). assert (0 <= (- x) ^ S (2 * k))%R by (apply pow_le; lra). lra.
    + replace x with (- (- x))%R by ring. replace y with (- (- y))%R by ring. rewrite (pow_opp_odd (- x)), (pow_opp_odd (- y)).
      assert ((- y) ^ S (2 * k) <= (- x) ^ S (2 * k))%R by (apply pow_incr; split; lra). lra.
Qed.

Lemma pow_even_abs x y k : (Rabs x <= y)%R -> (x ^ (2 * k) <= y ^ (2 * k))%R.
Proof.
  intros H. destruct (Rle_dec 0 x) as [Px|Nx].
  - apply pow_incr. rewrite Rabs_pos_eq in H by lra. split; lra.
  - replace x with (- (- x))%R by ring. rewrite (pow_opp_even (- x)). apply pow_incr. rewrite Rabs_left in H by lra. split; lra.
Qed.

Lemma pos_parity p : (exists k, Pos.to_nat p = S (2 * k) /\ Z.odd (Zpos p) = true) \/ (exists k, Pos.to_nat p = (2 * k)%nat /\ Z.odd (Zpos p) = false).
Proof.
  destruct p as [q|q|].
  - left. exists (Pos.to_nat q). rewrite Pos2Nat.inj_xI. auto.
  - right. exists (Pos.to_nat q). rewrite Pos2Nat.inj_xO. auto.
  - left. exists O. auto.
Qed.

Lemma mk_iv_side a b z P Q : fincanon a -> fincanon b -> side RF (rv a) P -> side RC (rv b) Q -> (P <= z <= Q)%R ->
  in_iv (a, b) z /\ valid_iv (a, b).
Proof.
  intros Fa Fb Sa Sb [H1 H2]. cbn [side] in *. unfold in_iv, valid_iv; cbn [fst snd]. repeat split; auto; lra.
Qed.

Theorem mpi_pow_int_pos_contains s p prec x : valid_iv s -> 0 < prec -> in_iv s x ->
  exists r, mpi_pow_int_pos s (Zpos p) prec = Ok r /\ in_iv r (x ^ Pos.to_nat p) /\ valid_iv r.
Proof.
  intros Vs Hp Ix. pose proof Vs as [Sa [Sb Sv]]. pose proof Ix as [X1 X2].
  destruct s as [sa sb]. cbn [fst snd] in *. unfold mpi_pow_int_pos.
  destruct (Z.eqb_spec (Zpos p) 1) as [N1|N1].
  { exists (sa, sb). split; [reflexivity|]. replace p with 1%positive by lia. simpl. rewrite Rmult_1_r. auto. }
  destruct (Z.eqb_spec (Zpos p) 2) as [N2|N2].
  { eexists. split; [reflexivity|]. replace p with 2%positive by lia.
    replace (x ^ Pos.to_nat 2)%R with (x * x)%R by (simpl; ring). apply mpi_square_contains; auto; lia. }
  assert (PW : forall a b P Q, fincanon a -> fincanon b ->
     (rv a ^ Pos.to_nat p <= P)%R -> (Q <= rv b ^ Pos.to_nat p)%R -> (P <= x ^ Pos.to_nat p <= Q)%R ->
     exists r, (do a' <- mpf_pow_int a (Zpos p) prec RF; do b' <- mpf_pow_int b (Zpos p) prec RC; Ok (a', b')) = Ok r /\
       in_iv r (x ^ Pos.to_nat p) /\ valid_iv r).
  { intros a b P Q Fa Fb HP HQ Hz.
    destruct (pow_endpoint a p prec RF Fa Hp) as [ya [Ea [Fya Sya]]].
    destruct (pow_endpoint b p prec RC Fb Hp) as [yb [Eb [Fyb Syb]]].
    exists (ya, yb). rewrite Ea. cbn [bind]. rewrite Eb. cbn [bind]. split; [reflexivity|].
    cbn [side] in *. unfold in_iv, valid_iv; cbn [fst snd]. repeat split; auto; lra. }
  destruct (pos_parity p) as [[k [Ek Eo]]|[k [Ek Eo]]]; rewrite Eo.
  - (* odd: increasing *)
    apply (PW sa sb (rv sa ^ Pos.to_nat p)%R (rv sb ^ Pos.to_nat p)%R); auto; try lra.
    rewrite Ek. split; apply pow_odd_incr; assumption.
  - (* even *)
    destruct (mpf_sign_spec sa Sa) as [[Ea Ra]|[[Ea Za]|[Ea Ra]]]; rewrite Ea;
      match goal with |- context [(0 <=? ?b)] => let v := eval vm_compute in (0 <=? b) in change (0 <=? b) with v end; cbv iota.
    + apply (PW sa sb (rv sa ^ Pos.to_nat p)%R (rv sb ^ Pos.to_nat p)%R); auto; try lra.
      split; apply pow_incr; split; lra.
    + subst sa. rewrite rv_fzero in *.
      apply (PW fzero sb (rv fzero ^ Pos.to_nat p)%R (rv sb ^ Pos.to_nat p)%R); auto; try lra.
      rewrite rv_fzero. split; apply pow_incr; split; lra.
    + destruct (mpf_sign_spec sb Sb) as [[Eb Rb]|[[Eb Zb]|[Eb Rb]]]; rewrite Eb;
        match goal with |- context [(?a <=? 0)] => let v := eval vm_compute in (a <=? 0) in change (a <=? 0) with v end; cbv iota.
      * (* mixed: [0, max(-sa, sb)^n] *)
        assert (Fn : fincanon (mpf_neg sa 0 RD)) by (apply mpf_neg_fincanon; auto; lia).
        assert (En : rv (mpf_neg sa 0 RD) = (- rv sa)%R) by (apply mpf_neg_exact; auto).
        set (m := if mpf_ge (mpf_neg sa 0 RD) sb then mpf_neg sa 0 RD else sb).
        assert (Fm : fincanon m) by (unfold m; destruct (mpf_ge _ _); auto).
        assert (Bm : (Rabs x <= rv m)%R).
        { unfold m. destruct (mpf_ge (mpf_neg sa 0 RD) sb) eqn:G.
          - apply mpf_ge_spec in G; auto. rewrite En in *. apply Rabs_le. lra.
          - assert (~ (rv sb <= rv (mpf_neg sa 0 RD))%R) by (intros C; apply mpf_ge_spec in C; auto; congruence).
            rewrite En in *. apply Rabs_le. lra. }
        destruct (pow_endpoint m p prec RC Fm Hp) as [yb [Eyb [Fyb Syb]]].
        exists (fzero, yb).
        replace (if mpf_ge (mpf_neg sa 0 RD) sb then mpf_pow_int (mpf_neg sa 0 RD) (Z.pos p) prec RC else mpf_pow_int sb (Z.pos p) prec RC)
          with (mpf_pow_int m (Zpos p) prec RC) by (unfold m; destruct (mpf_ge _ _); reflexivity).
        rewrite Eyb. cbn [bind]. split; [reflexivity|].
        cbn [side] in Syb. unfold in_iv, valid_iv; cbn [fst snd]. rewrite rv_fzero.
        assert (0 <= x ^ Pos.to_nat p)%R by (rewrite Ek, pow_mult; apply pow_le; nra).
        assert (x ^ Pos.to_nat p <= rv m ^ Pos.to_nat p)%R by (rewrite Ek; apply pow_even_abs; exact Bm).
        repeat split; auto using fincanon_fzero; lra.
      * subst sb. rewrite rv_fzero in *.
        apply (PW fzero sa (rv fzero ^ Pos.to_nat p)%R (rv sa ^ Pos.to_nat p)%R); auto using fincanon_fzero; try lra.
        rewrite rv_fzero, Ek. split.
        -- replace x with (- (- x))%R by ring. rewrite (pow_opp_even (- x)). apply pow_incr; split; lra.
        -- replace x with (- (- x))%R by ring. replace (rv sa) with (- (- rv sa))%R by ring. rewrite (pow_opp_even (- x)), (pow_opp_even (- rv sa)). apply pow_incr; split; lra.
      * apply (PW sb sa (rv sb ^ Pos.to_nat p)%R (rv sa ^ Pos.to_nat p)%R); auto; try lra.
        rewrite Ek. split.
        -- replace x with (- (- x))%R by ring. replace (rv sb) with (- (- rv sb))%R by ring. rewrite (pow_opp_even (- x)), (pow_opp_even (- rv sb)). apply pow_incr; split; lra.
        -- replace x with (- (- x))%R by ring. replace (rv sa) with (- (- rv sa))%R by ring. rewrite (pow_opp_even (- x)), (pow_opp_even (- rv sa)). apply pow_incr; split; lra.
Qed.
