(* DivRound.v — mpf_div, mpf_rdiv_int and from_rational return the correctly rounded quotient (C02). *)
From Coq Require Import ZArith Reals Bool Lia Lra.
From Flocq Require Import Core.
From MP Require Import Algo.Base Algo.Libmpf Spec.Mpf Spec.Round Proofs.Bits Proofs.Normalize Proofs.Canon
  Proofs.NormRound Proofs.Ops Proofs.Sticky.
Open Scope Z_scope.

Lemma F2R_pos m e : 0 < m -> (0 < F2R (Float radix2 m e))%R.
Proof. intros. apply F2R_gt_0. exact H. Qed.

Lemma sgn_nz a : (a = 0 \/ a = 1) -> sgn a <> 0%R.
Proof. intros [-> | ->]; unfold sgn; simpl; lra. Qed.

Lemma sgn_div a b : (a = 0 \/ a = 1) -> (b = 0 \/ b = 1) -> (sgn a / sgn b = sgn (Z.lxor a b))%R.
Proof. intros [-> | ->] [-> | ->]; unfold sgn; simpl; field. Qed.

(* the exact quotient written with an integer division: sman*2^extra = quot*tman + rem *)
Lemma quotient_decomp sman tman sexp texp extra quot rem :
  0 < tman -> 0 <= extra -> sman * 2 ^ extra = tman * quot + rem ->
  (F2R (Float radix2 sman sexp) / F2R (Float radix2 tman texp) =
   (IZR quot + IZR rem / IZR tman) * bpow radix2 (sexp - texp - extra))%R.
Proof.
  intros Ht He E. unfold F2R; simpl Fnum; simpl Fexp.
  assert (IZR tman <> 0)%R by (apply IZR_neq; lia).
  replace (sexp - texp - extra) with (sexp + (- texp) + (- extra)) by lia.
  rewrite !bpow_plus, !bpow_opp.
  assert (Hs : (IZR sman = (IZR tman * IZR quot + IZR rem) * / bpow radix2 extra)%R).
  { rewrite <- mult_IZR, <- plus_IZR, <- E, mult_IZR, IZR_pow2 by lia. field. apply Rgt_not_eq, bpow_gt_0. }
  rewrite Hs. field. repeat split; try assumption; apply Rgt_not_eq, bpow_gt_0.
Qed.

Lemma quot_bits sman tman extra : 0 < sman -> 0 < tman -> 0 <= extra ->
  bitcount sman + extra - bitcount tman <= bitcount (Z.shiftl sman extra / tman) /\ 0 < Z.shiftl sman extra / tman
  \/ bitcount sman + extra - bitcount tman <= 0.
Proof.
  intros Hs Ht He.
  destruct (Z_le_gt_dec (bitcount sman + extra - bitcount tman) 0) as [L|G]; [right; exact L|left].
  rewrite Z.shiftl_mul_pow2 by lia.
  pose proof (bitcount_spec sman Hs) as [S1 S2]. pose proof (bitcount_spec tman Ht) as [T1 T2].
  pose proof (bitcount_pos sman Hs). pose proof (bitcount_pos tman Ht).
  set (j := bitcount sman + extra - bitcount tman) in *.
  assert (Hq : 2 ^ (j - 1) <= sman * 2 ^ extra / tman).
  { apply Z.div_le_lower_bound; [lia|].
    apply Z.le_trans with (2 ^ bitcount tman * 2 ^ (j - 1)).
    - apply Z.mul_le_mono_nonneg_r; [apply Z.pow_nonneg; lia|lia].
    - rewrite <- Z.pow_add_r by lia. replace (bitcount tman + (j - 1)) with ((bitcount sman - 1) + extra) by (unfold j; lia).
      rewrite Z.pow_add_r by lia. apply Z.mul_le_mono_nonneg_r; [apply Z.pow_nonneg; lia|lia]. }
  assert (0 < 2 ^ (j - 1)) by (apply Z.pow_pos_nonneg; lia).
  split; [|lia].
  destruct (Z_lt_le_dec (bitcount (sman * 2 ^ extra / tman)) j) as [Hlt|]; [|lia].
  exfalso. pose proof (bitcount_spec (sman * 2 ^ extra / tman) ltac:(lia)) as [_ B2].
  assert (2 ^ bitcount (sman * 2 ^ extra / tman) <= 2 ^ (j - 1)) by (apply Z.pow_le_mono_r; lia). lia.
Qed.

Theorem mpf_div_round s t prec r : fincanon s -> regular t -> 0 < prec ->
  exists y, mpf_div s t prec r = Ok y /\ rv y = RND r prec (rv s / rv t).
Proof.
  intros Hs Ht Hp. unfold mpf_div.
  destruct s as [ssign sman sexp sbc], t as [tsign tman texp tbc].
  destruct Ht as [T1 [T2 [T3 T4]]]; cbn [msign mman mexp mbc] in *.
  destruct (Z.eqb_spec tman 0); [lia|]. rewrite orb_false_r.
  destruct (fincanon_cases _ Hs) as [E|[S1 [S2 [S3 S4]]]]; cbn [msign mman mexp mbc] in *.
  - (* s = 0 *)
    injection E as -> -> -> ->. cbn [Z.eqb]. change (Mpf 0 0 0 0) with fzero.
    assert (mpf_eqb fzero fzero = true) as -> by reflexivity.
    assert (mpf_eqb (Mpf tsign tman texp tbc) fzero = false) as ->.
    { apply Bool.not_true_is_false. rewrite mpf_eqb_eq. intros H. inversion H. lia. }
    assert (mpf_eqb (Mpf tsign tman texp tbc) fnan = false) as ->.
    { apply Bool.not_true_is_false. rewrite mpf_eqb_eq. intros H. inversion H. lia. }
    exists fzero. split; [reflexivity|]. rewrite rv_fzero. unfold Rdiv. rewrite Rmult_0_l, RND_0. reflexivity.
  - destruct (Z.eqb_spec sman 0); [lia|].
    pose proof (lxor_bit _ _ S1 T1) as Hx.
    assert (Hval : (rv (Mpf ssign sman sexp sbc) / rv (Mpf tsign tman texp tbc) =
                    sgn (Z.lxor ssign tsign) * (F2R (Float radix2 sman sexp) / F2R (Float radix2 tman texp)))%R).
    { unfold rv; cbn [msign mman mexp]. rewrite <- sgn_div by auto.
      pose proof (F2R_pos tman texp T2). pose proof (sgn_nz tsign T1). field. split; lra. }
    rewrite Hval.
    destruct (Z.eqb_spec tman 1) as [->|Hne].
    + (* power-of-two divisor *)
      eexists. split; [reflexivity|]. rewrite normalize1_round; auto; try lia.
      f_equal. unfold sval. f_equal. unfold F2R; simpl Fnum; simpl Fexp.
      replace (sexp - texp) with (sexp + - texp) by lia. rewrite bpow_plus, bpow_opp. field.
      apply Rgt_not_eq, bpow_gt_0.
    + set (extra := if prec - sbc + tbc + 5 <? 5 then 5 else prec - sbc + tbc + 5).
      assert (He : 5 <= extra /\ prec - sbc + tbc + 5 <= extra).
      { unfold extra. destruct (Z.ltb_spec (prec - sbc + tbc + 5) 5); lia. }
      set (num := Z.shiftl sman extra).
      assert (Hnum : num = sman * 2 ^ extra) by (unfold num; apply Z.shiftl_mul_pow2; lia).
      assert (Hdm : num = tman * (num / tman) + num mod tman) by (apply Z.div_mod; lia).
      assert (Hmod : 0 <= num mod tman < tman) by (apply Z.mod_pos_bound; lia).
      destruct (quot_bits sman tman extra S2 T2 ltac:(lia)) as [[Hqb Hqpos]|Hbad]; [|subst sbc tbc; lia].
      fold num in Hqb, Hqpos.
      rewrite (quotient_decomp sman tman sexp texp extra (num / tman) (num mod tman)) by (try lia; rewrite <- Hnum; exact Hdm).
      destruct (Z.eqb_spec (num mod tman) 0) as [E0|N0]; cbn [negb].
      * (* exact quotient *)
        eexists. split; [reflexivity|]. rewrite normalize_round; auto; try lia.
        f_equal. unfold sval. f_equal. rewrite E0. unfold F2R, Rdiv; simpl Fnum; simpl Fexp. rewrite Rmult_0_l, Rplus_0_r. reflexivity.
      * eexists. split; [reflexivity|].
        assert (Hq1 : Z.shiftl (num / tman) 1 + 1 = 2 * (num / tman) + 1).
        { rewrite Z.shiftl_mul_pow2 by lia. change (2 ^ 1) with 2. lia. }
        rewrite Hq1.
        rewrite normalize1_round; auto; try lia.
        symmetry. replace (sexp - texp - (extra + 1)) with (sexp - texp - extra - 1) by lia.
        apply RND_sticky; auto; try lia.
        assert (0 < IZR tman)%R by (apply IZR_lt; lia).
        assert (0 < IZR (num mod tman))%R by (apply IZR_lt; lia).
        assert (IZR (num mod tman) < IZR tman)%R by (apply IZR_lt; lia).
        split; [apply Rdiv_lt_0_compat; lra|].
        apply Rmult_lt_reg_r with (IZR tman); [lra|]. unfold Rdiv. rewrite Rmult_assoc, Rinv_l by lra. lra.
Qed.

Theorem mpf_div_zero s prec r : mpf_div s fzero prec r = Err ZDE.
Proof.
  unfold mpf_div. destruct s as [a b c d]. cbn [mman fzero Z.eqb]. rewrite orb_true_r.
  destruct (mpf_eqb (Mpf a b c d) fzero); reflexivity.
Qed.

Theorem from_rational_round p q prec r : q <> 0 -> 0 < prec ->
  exists y, from_rational p q prec r = Ok y /\ rv y = RND r prec (IZR p / IZR q).
Proof.
  intros Hq Hp. unfold from_rational.
  assert (Hs : fincanon (from_int p 0 RD)) by (apply from_man_exp_fincanon; lia).
  assert (Ht : regular (from_int q 0 RD)).
  { destruct (from_man_exp_fincanon q 0 0 RD ltac:(lia)) as [E|R]; [|exact R].
    exfalso. pose proof (from_int_exact q RD) as H. unfold from_int in H. rewrite E, rv_fzero in H.
    apply Hq. apply eq_IZR. simpl. lra. }
  destruct (mpf_div_round _ _ prec r Hs Ht Hp) as [y [E V]].
  exists y. split; [exact E|]. rewrite V, !from_int_exact. reflexivity.
Qed.
