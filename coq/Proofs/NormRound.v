(* NormRound.v — normalize/normalize1 return the correctly rounded value (core of C02).
   Uses Flocq; depends on the standard real-number axioms only. *)
From Coq Require Import ZArith Reals Bool Lia Lra.
From Flocq Require Import Core Calc.Bracket Calc.Round.
From MP Require Import Algo.Base Algo.Libmpf Spec.Mpf Spec.Round Proofs.Bits Proofs.Nearest Proofs.Normalize.
Open Scope Z_scope.

Lemma Zdigits_bitcount m : 0 < m -> Zdigits radix2 m = bitcount m.
Proof.
  intros Hm. apply Zdigits_unique. rewrite Z.abs_eq by lia.
  pose proof (bitcount_spec m Hm) as [H1 H2].
  pose proof (bitcount_pos m Hm).
  change (radix_val radix2) with 2. lia.
Qed.

Lemma IZR_pow2 n : 0 <= n -> IZR (2 ^ n) = bpow radix2 n.
Proof. intros H. rewrite (IZR_Zpower radix2) by lia. reflexivity. Qed.

(* the generic step: rounding a positive m*2^e to p bits rounds m / 2^n, n = digits m - p *)
Lemma round_shift rnd {Hr : Valid_rnd rnd} m e p n :
  0 < m -> n = bitcount m - p ->
  round radix2 (FLX_exp p) rnd (F2R (Float radix2 m e)) =
  F2R (Float radix2 (rnd (IZR m * bpow radix2 (- n))%R) (e + n)).
Proof.
  intros Hm Hn. unfold round.
  assert (Hc : cexp radix2 (FLX_exp p) (F2R (Float radix2 m e)) = e + n).
  { unfold cexp, FLX_exp. rewrite mag_F2R_Zdigits by lia. rewrite Zdigits_bitcount by lia. lia. }
  rewrite Hc. f_equal. f_equal. f_equal.
  unfold scaled_mantissa. rewrite Hc. unfold F2R; simpl Fnum; simpl Fexp.
  rewrite Rmult_assoc, <- bpow_plus. f_equal. f_equal. lia.
Qed.

Lemma scaled_div m n : 0 <= n -> (IZR m * bpow radix2 (- n) = IZR m / IZR (2 ^ n))%R.
Proof. intros H. rewrite bpow_opp, IZR_pow2 by lia. reflexivity. Qed.

Lemma pow2_neq0 n : 0 <= n -> 2 ^ n <> 0.
Proof. intros; apply Z.pow_nonzero; lia. Qed.

Lemma floor_shift m n : 0 <= n -> Zfloor (IZR m * bpow radix2 (- n))%R = Z.shiftr m n.
Proof.
  intros Hn. rewrite scaled_div by lia. rewrite Zfloor_div by (apply pow2_neq0; lia).
  rewrite Z.shiftr_div_pow2 by lia. reflexivity.
Qed.

Lemma ceil_shift m n : 0 <= n -> Zceil (IZR m * bpow radix2 (- n))%R = - Z.shiftr (- m) n.
Proof.
  intros Hn. unfold Zceil. f_equal.
  replace (- (IZR m * bpow radix2 (- n)))%R with (IZR (- m) * bpow radix2 (- n))%R
    by (rewrite opp_IZR; ring).
  apply floor_shift. lia.
Qed.

Lemma nearest_shift m n : 0 < n -> 0 <= m ->
  ZnearestE (IZR m * bpow radix2 (- n))%R = round_nearest_shift m n.
Proof.
  intros Hn Hm. rewrite round_nearest_shift_spec by lia. unfold nearest_even_qr.
  rewrite scaled_div by lia.
  set (d := 2 ^ n). set (h := 2 ^ (n - 1)).
  assert (Hh : 0 < h) by (apply Z.pow_pos_nonneg; lia).
  assert (Hd : d = 2 * h).
  { unfold d, h. replace n with (1 + (n - 1)) at 1 by lia. rewrite Z.pow_add_r by lia. reflexivity. }
  set (q := m / d). set (rr := m mod d).
  assert (Hdm : m = d * q + rr) by (apply Z.div_mod; lia).
  assert (Hrr : 0 <= rr < d) by (apply Z.mod_pos_bound; lia).
  assert (HdR : (0 < IZR d)%R) by (apply IZR_lt; lia).
  assert (Hx : (IZR m / IZR d = IZR q + IZR rr / IZR d)%R).
  { rewrite Hdm at 1. rewrite plus_IZR, mult_IZR. field. lra. }
  destruct (Z.eq_dec rr 0) as [E0|N0].
  - (* exact *)
    rewrite (inbetween_int_NE _ q loc_Exact).
    + simpl. destruct (Z.ltb_spec h rr); [lia|]. destruct (Z.eqb_spec rr h); [lia|]. reflexivity.
    + apply inbetween_Exact. rewrite Hx, E0. unfold Rdiv. rewrite Rmult_0_l. ring.
  - assert (Hfr : (0 < IZR rr / IZR d < 1)%R).
    { split.
      - apply Rdiv_lt_0_compat; [apply IZR_lt; lia|lra].
      - apply Rmult_lt_reg_r with (IZR d); [lra|]. unfold Rdiv. rewrite Rmult_assoc, Rinv_l by lra.
        rewrite Rmult_1_r, Rmult_1_l. apply IZR_lt; lia. }
    set (c := Rcompare (IZR m / IZR d) ((IZR q + IZR (q + 1)) / 2)).
    rewrite (inbetween_int_NE _ q (loc_Inexact c)).
    2:{ apply inbetween_Inexact; [|reflexivity]. rewrite Hx, plus_IZR. simpl (IZR 1). lra. }
    (* relate c to compare rr h *)
    assert (Hc : c = Z.compare rr h).
    { unfold c. rewrite Hx, plus_IZR. simpl (IZR 1).
      replace ((IZR q + (IZR q + 1)) / 2)%R with (IZR q + / 2)%R by field.
      rewrite Rcompare_plus_l.
      replace (/ 2)%R with (IZR h / IZR d)%R.
      2:{ rewrite Hd, mult_IZR. simpl (IZR 2). field. apply IZR_neq. lia. }
      unfold Rdiv. rewrite Rcompare_mult_r by (apply Rinv_0_lt_compat; lra).
      apply Rcompare_IZR. }
    rewrite Hc. unfold round_N, cond_incr.
    destruct (Z.compare_spec rr h) as [E|L|G].
    + subst rr. rewrite E. rewrite Z.ltb_irrefl, Z.eqb_refl. cbn [orb andb].
      rewrite Z.negb_even. reflexivity.
    + destruct (Z.ltb_spec h rr); [lia|]. destruct (Z.eqb_spec rr h); [lia|]. reflexivity.
    + destruct (Z.ltb_spec h rr); [|lia]. reflexivity.
Qed.

(* magnitude rounding used for a number of the given sign *)
Definition magrnd (r : rnd) (sign : Z) : R -> Z :=
  match r with
  | RN => ZnearestE
  | RD => Zfloor
  | RU => Zceil
  | RF => if sign =? 0 then Zfloor else Zceil
  | RC => if sign =? 0 then Zceil else Zfloor
  end.

#[export] Instance valid_magrnd r s : Valid_rnd (magrnd r s).
Proof. destruct r; simpl; try destruct (s =? 0); typeclasses eauto. Qed.

#[export] Instance valid_Zrnd_of r : Valid_rnd (Zrnd_of r).
Proof. destruct r; simpl; typeclasses eauto. Qed.

Lemma round_mant_magrnd sign man n r : 0 < n -> 0 < man ->
  magrnd r sign (IZR man * bpow radix2 (- n))%R = round_mant sign man n r.
Proof.
  intros Hn Hm. unfold magrnd, round_mant, shifts_down.
  destruct r; try destruct (sign =? 0); cbn [negb];
    first [apply nearest_shift; lia | apply floor_shift; lia | apply ceil_shift; lia].
Qed.

(* rounding a signed value = sign times the magnitude rounding *)
Lemma RND_sgn r p sign y : (0 <= y)%R -> (sign = 0 \/ sign = 1) -> 0 < p ->
  RND r p (sgn sign * y) = (sgn sign * round radix2 (FLX_exp p) (magrnd r sign) y)%R.
Proof.
  intros Hy Hs Hp. unfold RND, sgn.
  assert (HP : Prec_gt_0 p) by exact Hp.
  destruct Hs as [-> | ->]; cbn [Z.eqb].
  - rewrite !Rmult_1_l. destruct r; unfold Zrnd_of, magrnd; cbn [Z.eqb]; try reflexivity.
    + apply round_ZR_DN. exact Hy.
    + apply round_AW_UP. exact Hy.
  - replace (-1 * y)%R with (- y)%R by ring.
    destruct r; unfold Zrnd_of, magrnd; cbn [Z.eqb].
    + rewrite round_NE_opp. ring.
    + rewrite round_DN_opp. ring.
    + rewrite round_UP_opp. ring.
    + rewrite round_ZR_opp, round_ZR_DN by exact Hy. ring.
    + rewrite round_AW_opp, round_AW_UP by exact Hy. ring.
Qed.

Lemma F2R_nonneg m e : 0 <= m -> (0 <= F2R (Float radix2 m e))%R.
Proof. intros H. apply F2R_ge_0. exact H. Qed.

(* stripping trailing zeros keeps the value *)
Lemma finish_rv sign man exp bc : 0 < man -> rv (finish sign man exp bc) = sval sign man exp.
Proof.
  intros Hm. unfold finish.
  pose proof (strip_trailing_spec man exp bc Hm) as H.
  destruct (strip_trailing man exp bc) as [[m' e'] b'].
  destruct H as [t [Ht [Hman [Hodd [Hpos [He Hb]]]]]].
  unfold rv, sval; cbn [msign mman mexp]. f_equal.
  subst e'. rewrite Hman. unfold F2R; simpl Fnum; simpl Fexp.
  rewrite mult_IZR, IZR_pow2 by lia. rewrite bpow_plus. ring.
Qed.

Lemma small_is_format m e p : 0 < m -> bitcount m <= p ->
  generic_format radix2 (FLX_exp p) (F2R (Float radix2 m e)).
Proof.
  intros Hm Hb. apply generic_format_FLX. exists (Float radix2 m e); [reflexivity|].
  simpl. rewrite Z.abs_eq by lia.
  pose proof (bitcount_spec m Hm) as [_ H2].
  apply Z.lt_le_trans with (1 := H2). apply Z.pow_le_mono_r; lia.
Qed.

Lemma RND_exact r p sign m e : 0 < m -> (sign = 0 \/ sign = 1) -> 0 < p -> bitcount m <= p ->
  RND r p (sval sign m e) = sval sign m e.
Proof.
  intros Hm Hs Hp Hb. unfold sval. rewrite RND_sgn; auto; [|apply F2R_nonneg; lia].
  f_equal. apply round_generic; [typeclasses eauto|]. apply small_is_format; auto.
Qed.

Lemma RND_0 r p : RND r p 0 = 0%R.
Proof. unfold RND. apply round_0. typeclasses eauto. Qed.

Lemma sval_0 sign e : sval sign 0 e = 0%R.
Proof. unfold sval. rewrite F2R_0. ring. Qed.

Lemma rv_fzero : rv fzero = 0%R.
Proof. unfold rv; simpl. rewrite F2R_0. ring. Qed.

Lemma RND_round_mant r p sign man exp n :
  0 < man -> (sign = 0 \/ sign = 1) -> 0 < p -> n = bitcount man - p -> 0 < n ->
  RND r p (sval sign man exp) = sval sign (round_mant sign man n r) (exp + n).
Proof.
  intros Hm Hs Hp Hn Hn0. unfold sval. rewrite RND_sgn; auto; [|apply F2R_nonneg; lia].
  f_equal. rewrite (round_shift _ man exp p n) by auto.
  rewrite round_mant_magrnd by lia. reflexivity.
Qed.

Theorem normalize_round sign man exp bc prec r :
  (sign = 0 \/ sign = 1) -> 0 <= man -> bc = bitcount man -> 0 < prec ->
  rv (normalize sign man exp bc prec r) = RND r prec (sval sign man exp).
Proof.
  intros Hs Hm Hbc Hp. unfold normalize.
  destruct (Z.eqb_spec man 0) as [->|Hne].
  - rewrite sval_0, RND_0. apply rv_fzero.
  - assert (Hm' : 0 < man) by lia.
    destruct (Z.ltb_spec 0 (bc - prec)) as [Hn|Hn].
    + destruct (round_mant_bc_ok sign man (bc - prec) prec r) as [_ Hpos]; try lia.
      rewrite finish_rv by exact Hpos.
      symmetry. apply RND_round_mant; auto; lia.
    + rewrite finish_rv by exact Hm'. symmetry. apply RND_exact; auto; lia.
Qed.

Theorem normalize1_round sign man exp bc prec r :
  (sign = 0 \/ sign = 1) -> 0 <= man -> bc = bitcount man -> 0 < prec ->
  rv (normalize1 sign man exp bc prec r) = RND r prec (sval sign man exp).
Proof.
  intros Hs Hm Hbc Hp. unfold normalize1.
  destruct (Z.eqb_spec man 0) as [->|Hne].
  - rewrite sval_0, RND_0. apply rv_fzero.
  - assert (Hm' : 0 < man) by lia.
    destruct (Z.leb_spec bc prec) as [Hn|Hn].
    + symmetry. unfold rv; cbn [msign mman mexp]. apply RND_exact; auto; lia.
    + destruct (round_mant_bc_ok sign man (bc - prec) prec r) as [_ Hpos]; try lia.
      rewrite finish_rv by exact Hpos.
      symmetry. apply RND_round_mant; auto; lia.
Qed.
Print Assumptions normalize_round.
