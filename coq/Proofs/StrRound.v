(* StrRound.v — the exact branch of from_str (|decimal exponent| <= 400) is correctly rounded (C07). *)
From Coq Require Import ZArith Reals Bool Lia Lra.
From Flocq Require Import Core.
From MP Require Import Algo.Base Algo.Libmpf Spec.Mpf Spec.Round Proofs.Bits Proofs.Normalize Proofs.Canon
  Proofs.NormRound Proofs.Ops Proofs.Sticky Proofs.DivRound.
Open Scope Z_scope.

(* the exact decimal value man * 10^exp *)
Definition dec_value (man exp : Z) : R :=
  if 0 <=? exp then IZR (man * 10 ^ exp) else (IZR man / IZR (10 ^ (- exp)))%R.

Theorem from_str_exact_branch man exp prec r : Z.abs exp <= 400 -> 0 < prec ->
  exists y, from_str_parts man exp prec r = Ok y /\ rv y = RND r prec (dec_value man exp).
Proof.
  intros He Hp. unfold from_str_parts, dec_value.
  destruct (Z.ltb_spec 400 (Z.abs exp)); [lia|].
  destruct (Z.leb_spec 0 exp).
  - eexists. split; [reflexivity|]. apply from_int_round. exact Hp.
  - apply from_rational_round; [|exact Hp]. apply Z.pow_nonzero; lia.
Qed.

(* dec_value is the mathematical value: man * 10^exp as a real power *)
Lemma dec_value_spec man exp : dec_value man exp = (IZR man * powerRZ 10 exp)%R.
Proof.
  unfold dec_value. destruct (Z.leb_spec 0 exp).
  - rewrite mult_IZR. f_equal. rewrite <- (Z2Nat.id exp) at 1 by lia.
    rewrite <- pow_IZR. rewrite <- (Z2Nat.id exp) at 2 by lia. rewrite <- pow_powerRZ. reflexivity.
  - unfold Rdiv. f_equal.
    replace exp with (- (- exp)) at 2 by lia. rewrite powerRZ_neg' by lra.
    f_equal. rewrite <- (Z2Nat.id (- exp)) at 1 by lia. rewrite <- pow_IZR.
    rewrite <- (Z2Nat.id (- exp)) at 2 by lia. rewrite <- pow_powerRZ. reflexivity.
Qed.
