(* IvAtan2.v — C14/C15: mpi_atan2 (the argument of a complex rectangle).  mpf_atan2 is not modelled; the model says at which
   corners of the rectangle it is evaluated (mpi_atan2_plan, compared with the arguments of the live calls).  Proved: in the
   open right, upper and lower half-planes the angle of every member point lies between the angles of the two chosen corners
   (angle = atan(y/x), pi/2 - atan(x/y), -pi/2 - atan(x/y) respectively), for every sign configuration of the other
   coordinate.  Hence, if the two mpf_atan2 values bracket the angles at their corners (the directed-rounding claim of
   mpf_atan2, monitored per call), the result contains the angle of every member point. *)
From Coq Require Import ZArith Reals Bool Lia Lra Psatz.
From Flocq Require Import Core.
From MP Require Import Algo.Base Algo.Libmpf Algo.Libmpi Spec.Mpf Spec.Round Proofs.NormRound Proofs.Cmp Proofs.IvCmp.
Open Scope R_scope.

Lemma atan_le x y : x <= y -> atan x <= atan y.
Proof. intros [H| ->]; [left; apply atan_increasing; exact H|right; reflexivity]. Qed.

Lemma div_le_cross a b c d : 0 < b -> 0 < d -> a * d <= c * b -> a / b <= c / d.
Proof.
  intros Hb Hd H. apply Rmult_le_reg_r with (b * d); [nra|].
  replace (a / b * (b * d)) with (a * d) by (field; lra). replace (c / d * (b * d)) with (c * b) by (field; lra). exact H.
Qed.

Lemma cross_gen a b c d : a <= c -> 0 < b -> 0 < d -> (0 < a -> d <= b) -> (c < 0 -> b <= d) -> a * d <= c * b.
Proof.
  intros H Hb Hd P N. destruct (Rlt_dec 0 a) as [Pa|Na].
  - specialize (P Pa). apply Rle_trans with (a * b); [apply Rmult_le_compat_l; lra|apply Rmult_le_compat_r; lra].
  - destruct (Rlt_dec c 0) as [Nc|Pc].
    + specialize (N Nc). apply Rle_trans with (c * d); [apply Rmult_le_compat_r; lra|].
      replace (c * d) with (- ((- c) * d)) by ring. replace (c * b) with (- ((- c) * b)) by ring.
      apply Ropp_le_contravar. apply Rmult_le_compat_l; lra.
    + apply Rle_trans with 0.
      * replace (a * d) with (- ((- a) * d)) by ring. assert (0 <= - a * d) by (apply Rmult_le_pos; lra). lra.
      * apply Rmult_le_pos; lra.
Qed.

Lemma ratio_le a b c d : a <= c -> 0 < b -> 0 < d -> (0 < a -> d <= b) -> (c < 0 -> b <= d) -> a / b <= c / d.
Proof. intros. apply div_le_cross; auto. apply cross_gen; auto. Qed.

(* angles *)
Definition ang_right (y x : R) : R := atan (y / x).            (* x > 0 *)
Definition ang_upper (y x : R) : R := PI / 2 - atan (x / y).   (* y > 0 *)
Definition ang_lower (y x : R) : R := - (PI / 2) - atan (x / y). (* y < 0 *)

Definition corner_ang (f : R -> R -> R) (c : mpf * mpf) : R := f (rv (fst c)) (rv (snd c)).

Lemma ge0 s : fincanon s -> (mpf_ge s fzero = true <-> 0 <= rv s).
Proof. intros H. rewrite (mpf_ge_spec s fzero H (or_introl eq_refl)). rewrite rv_fzero. tauto. Qed.
Lemma le0 s : fincanon s -> (mpf_le s fzero = true <-> rv s <= 0).
Proof. intros H. rewrite (mpf_le_spec s fzero H (or_introl eq_refl)). rewrite rv_fzero. tauto. Qed.

Lemma lt0 s : fincanon s -> (mpf_lt s fzero = true <-> rv s < 0).
Proof. intros H. rewrite (mpf_lt_spec s fzero H (or_introl eq_refl)). rewrite rv_fzero. tauto. Qed.

Lemma not_both_zero ya yb : fincanon ya -> fincanon yb -> (rv ya <> 0 \/ rv yb <> 0) -> mpf_eqb ya fzero && mpf_eqb yb fzero = false.
Proof.
  intros Fa Fb H. apply andb_false_iff. destruct H as [H|H]; [left|right]; apply not_true_is_false; rewrite mpf_eqb_eq; intros ->; apply H, rv_fzero.
Qed.

(* ---- right half-plane ---- *)
Theorem atan2_right y x v u : valid_iv y -> valid_iv x -> in_iv y v -> in_iv x u -> 0 < rv (fst x) ->
  (rv (fst y) <> 0 \/ rv (snd y) <> 0) ->
  exists ca cb, mpi_atan2_plan y x = AtCorners ca cb /\
    corner_ang ang_right ca <= ang_right v u <= corner_ang ang_right cb.
Proof.
  intros [Ya [Yb Yv]] [Xa [Xb Xv]] [V1 V2] [U1 U2] Px NZ. destruct y as [ya yb], x as [xa xb]. cbn [fst snd] in *.
  unfold mpi_atan2_plan. rewrite (not_both_zero ya yb Ya Yb NZ).
  assert (G : mpf_ge xa fzero = true) by (apply ge0; auto; lra). rewrite G.
  eexists _, _. split; [reflexivity|]. unfold corner_ang, ang_right.
  split; apply atan_le.
  - destruct (mpf_ge ya fzero) eqn:E; cbn [fst snd].
    + apply ge0 in E; auto. apply ratio_le; lra.
    + assert (rv ya < 0) by (destruct (Rlt_dec (rv ya) 0); auto; exfalso; assert (mpf_ge ya fzero = true) by (apply ge0; auto; lra); congruence).
      apply ratio_le; lra.
  - destruct (mpf_ge yb fzero) eqn:E; cbn [fst snd].
    + apply ge0 in E; auto. apply ratio_le; lra.
    + assert (rv yb < 0) by (destruct (Rlt_dec (rv yb) 0); auto; exfalso; assert (mpf_ge yb fzero = true) by (apply ge0; auto; lra); congruence).
      apply ratio_le; lra.
Qed.

(* ---- upper half-plane (the rectangle reaches into x < 0) ---- *)
Theorem atan2_upper y x v u : valid_iv y -> valid_iv x -> in_iv y v -> in_iv x u -> rv (fst x) < 0 -> 0 < rv (fst y) ->
  exists ca cb, mpi_atan2_plan y x = AtCorners ca cb /\
    corner_ang ang_upper ca <= ang_upper v u <= corner_ang ang_upper cb.
Proof.
  intros [Ya [Yb Yv]] [Xa [Xb Xv]] [V1 V2] [U1 U2] Nx Py. destruct y as [ya yb], x as [xa xb]. cbn [fst snd] in *.
  assert (NZ : rv ya <> 0 \/ rv yb <> 0) by (left; apply Rgt_not_eq; lra).
  unfold mpi_atan2_plan. rewrite (not_both_zero ya yb Ya Yb NZ).
  assert (G : mpf_ge xa fzero = false).
  { apply not_true_is_false. intros H. apply ge0 in H; auto. lra. }
  rewrite G. assert (G2 : mpf_ge ya fzero = true) by (apply ge0; auto; lra). rewrite G2.
  eexists _, _. split; [reflexivity|]. unfold corner_ang, ang_upper.
  split.
  - (* lower end: largest x/y *)
    assert (atan (u / v) <= atan (rv (snd (if mpf_le xb fzero then (yb, xb) else (ya, xb))) / rv (fst (if mpf_le xb fzero then (yb, xb) else (ya, xb))))); [|lra].
    apply atan_le. destruct (mpf_le xb fzero) eqn:E; cbn [fst snd].
    + apply le0 in E; auto. apply ratio_le; lra.
    + assert (0 < rv xb) by (destruct (Rlt_dec 0 (rv xb)); auto; exfalso; assert (mpf_le xb fzero = true) by (apply le0; auto; lra); congruence).
      apply ratio_le; lra.
  - assert (atan (rv xa / rv ya) <= atan (u / v)); [|cbn [fst snd]; lra].
    apply atan_le. apply ratio_le; lra.
Qed.

(* ---- lower half-plane ---- *)
Theorem atan2_lower y x v u : valid_iv y -> valid_iv x -> in_iv y v -> in_iv x u -> rv (fst x) < 0 -> rv (snd y) < 0 ->
  exists ca cb, mpi_atan2_plan y x = AtCorners ca cb /\
    corner_ang ang_lower ca <= ang_lower v u <= corner_ang ang_lower cb.
Proof.
  intros [Ya [Yb Yv]] [Xa [Xb Xv]] [V1 V2] [U1 U2] Nx Ny. destruct y as [ya yb], x as [xa xb]. cbn [fst snd] in *.
  assert (NZ : rv ya <> 0 \/ rv yb <> 0) by (left; apply Rlt_not_eq; lra).
  unfold mpi_atan2_plan. rewrite (not_both_zero ya yb Ya Yb NZ).
  assert (G : mpf_ge xa fzero = false).
  { apply not_true_is_false. intros H. apply ge0 in H; auto. lra. }
  rewrite G. assert (G2 : mpf_ge ya fzero = false).
  { apply not_true_is_false. intros H. apply ge0 in H; auto. lra. }
  rewrite G2. assert (G3 : mpf_lt yb fzero = true) by (apply lt0; auto; lra). rewrite G3.
  eexists _, _. split; [reflexivity|]. unfold corner_ang, ang_lower.
  (* x / y for y < 0: write it as (-x) / (-y) with a positive denominator *)
  assert (NEG : forall p q, q < 0 -> p / q = (- p) / (- q)) by (intros p q Hq; field; lra).
  split.
  - assert (atan (u / v) <= atan (rv xa / rv yb)); [|cbn [fst snd]; lra].
    apply atan_le. rewrite (NEG u v), (NEG (rv xa) (rv yb)) by lra. apply ratio_le; lra.
  - assert (atan (rv (snd (if mpf_le xb fzero then (ya, xb) else (yb, xb))) / rv (fst (if mpf_le xb fzero then (ya, xb) else (yb, xb)))) <= atan (u / v)); [|lra].
    apply atan_le. destruct (mpf_le xb fzero) eqn:E; cbn [fst snd].
    + apply le0 in E; auto. rewrite (NEG (rv xb) (rv ya)), (NEG u v) by lra. apply ratio_le; lra.
    + assert (0 < rv xb) by (destruct (Rlt_dec 0 (rv xb)); auto; exfalso; assert (mpf_le xb fzero = true) by (apply le0; auto; lra); congruence).
      rewrite (NEG (rv xb) (rv yb)), (NEG u v) by lra. apply ratio_le; lra.
Qed.

(* the real axis and the origin *)
Theorem atan2_axis_plan x : valid_iv x ->
  mpi_atan2_plan (fzero, fzero) x =
    if Rle_dec 0 (rv (fst x)) then AtZero else if Rlt_dec (rv (snd x)) 0 then AtPi else AtZeroPi.
Proof.
  intros [Xa [Xb _]]. destruct x as [xa xb]. cbn [fst snd] in *. unfold mpi_atan2_plan. cbn [mpf_eqb fzero msign mman mexp mbc Z.eqb andb].
  destruct (Rle_dec 0 (rv xa)) as [H|H].
  - assert (mpf_ge xa fzero = true) as -> by (apply ge0; auto). reflexivity.
  - assert (mpf_ge xa fzero = false) as -> by (apply not_true_is_false; intros G; apply ge0 in G; auto).
    destruct (Rlt_dec (rv xb) 0) as [L|L].
    + assert (mpf_lt xb fzero = true) as -> by (apply lt0; auto). reflexivity.
    + assert (mpf_lt xb fzero = false) as -> by (apply not_true_is_false; intros G; apply lt0 in G; auto). reflexivity.
Qed.

(* a rectangle reaching into x < 0 whose y range has a negative lower end and a non-negative upper end (it contains the
   origin or touches the negative real axis from below) gets the full range [-pi, pi] *)
Theorem atan2_origin_plan y x : valid_iv y -> valid_iv x -> rv (fst y) < 0 <= rv (snd y) -> rv (fst x) < 0 ->
  mpi_atan2_plan y x = AtOrigin.
Proof.
  intros [Ya [Yb _]] [Xa _] [H1 H2] Hx. destruct y as [ya yb], x as [xa xb]. cbn [fst snd] in *. unfold mpi_atan2_plan.
  assert (NZ : rv ya <> 0 \/ rv yb <> 0) by (left; apply Rlt_not_eq; lra).
  rewrite (not_both_zero ya yb Ya Yb NZ).
  assert (mpf_ge xa fzero = false) as -> by (apply not_true_is_false; intros G; apply ge0 in G; auto; lra).
  assert (mpf_ge ya fzero = false) as -> by (apply not_true_is_false; intros G; apply ge0 in G; auto; lra).
  assert (mpf_lt yb fzero = false) as -> by (apply not_true_is_false; intros G; apply lt0 in G; auto; lra).
  reflexivity.
Qed.
