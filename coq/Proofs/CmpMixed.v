(* CmpMixed.v — C05: comparisons of an mpf with a Python int or float.  The operators convert the right operand exactly
   (from_int without rounding, from_float at 53 bits) and compare tuples: the outcome is the comparison of the exact values. *)
From Coq Require Import ZArith Reals Lia Lra.
From Flocq Require Import Core.
From MP Require Import Algo.Base Algo.Libmpf Algo.Ctxfun Spec.Mpf Spec.Round Proofs.Normalize Proofs.NormRound Proofs.Ops Proofs.Cmp
  Proofs.IntOps Proofs.FloatConv.
Open Scope Z_scope.

Theorem mpf_cmp_int s n : fincanon s -> cmp_ok (mpf_cmp s (from_int n 0 RD)) (rv s) (IZR n).
Proof.
  intros Hs. destruct (from_int_exact_fin n) as [F E]. rewrite <- E. apply mpf_cmp_spec; assumption.
Qed.

Theorem mpf_cmp_float s m53 e : fincanon s -> Z.abs m53 < 2 ^ 53 ->
  cmp_ok (mpf_cmp s (from_float_parts m53 e 53 RN)) (rv s) (F2R (Float radix2 m53 (e - 53))).
Proof.
  intros Hs Hm. rewrite <- (from_float_exact m53 e 53 RN Hm ltac:(lia)). apply mpf_cmp_spec; [assumption|].
  unfold from_float_parts. apply from_man_exp_fincanon. lia.
Qed.

(* equality with an int: true exactly when the values coincide *)
Theorem mpf_eq_int s n : fincanon s -> (mpf_cmp s (from_int n 0 RD) = 0 <-> rv s = IZR n).
Proof.
  intros Hs. destruct (mpf_cmp_int s n Hs) as [[E H]|[[E H]|[E H]]]; rewrite E; split; intros; try lia; try lra; auto.
Qed.
