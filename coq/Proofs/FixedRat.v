(* FixedRat.v — conversions used all over the elementary functions: to_fixed is the floor of x * 2^prec, to_rational is exact. *)
From Coq Require Import ZArith Reals Bool Lia Lra.
From Flocq Require Import Core.
From MP Require Import Algo.Base Algo.Libmpf Spec.Mpf Spec.Round Proofs.Bits Proofs.NormRound Proofs.Ops Proofs.ModRound.
Open Scope Z_scope.

Theorem to_fixed_floor s prec : fincanon s -> to_fixed s prec = Zfloor (rv s * bpow radix2 prec).
Proof.
  intros Hs. destruct (fincanon_sign s Hs) as [S1 _]. pose proof (rv_smant s S1) as V. unfold smant in V.
  destruct s as [sign man exp bc]. cbn [msign mman mexp] in *. unfold to_fixed.
  set (m := if sign =? 0 then man else - man) in *. rewrite V. unfold F2R; cbn [Fnum Fexp].
  rewrite Rmult_assoc, <- bpow_plus.
  destruct (Z.leb_spec 0 (exp + prec)) as [P|N].
  - rewrite Z.shiftl_mul_pow2 by lia. rewrite <- IZR_pow2 by lia. rewrite <- mult_IZR. symmetry. apply Zfloor_IZR.
  - symmetry. pose proof (floor_shift m (- (exp + prec)) ltac:(lia)) as F.
    replace (- - (exp + prec)) with (exp + prec) in F by lia. exact F.
Qed.

Theorem to_rational_exact s p q : fincanon s -> to_rational s = Ok (p, q) -> 0 < q /\ rv s = (IZR p / IZR q)%R.
Proof.
  intros Hs. destruct (fincanon_sign s Hs) as [S1 _]. pose proof (rv_smant s S1) as V. unfold smant in V.
  assert (Hb : mbc s <> -1).
  { destruct Hs as [->|[_ [S2 [_ S4]]]]; [cbn; lia|]. rewrite S4. pose proof (bitcount_pos (mman s) S2). lia. }
  destruct s as [sign man exp bc]. cbn [msign mman mexp mbc] in *. unfold to_rational.
  destruct (Z.eqb_spec bc (-1)); [contradiction|].
  set (m := if sign =? 0 then man else - man) in *. rewrite V. unfold F2R; cbn [Fnum Fexp].
  destruct (Z.leb_spec 0 exp) as [P|N]; intros [= <- <-].
  - split; [lia|]. rewrite Z.shiftl_mul_pow2, Z.mul_1_l by lia. rewrite mult_IZR, IZR_pow2 by lia. field.
  - assert (Q : 0 < 2 ^ (- exp)) by (apply Z.pow_pos_nonneg; lia).
    rewrite Z.shiftl_mul_pow2, Z.mul_1_l by lia. split; [exact Q|].
    rewrite IZR_pow2 by lia. rewrite bpow_opp. field. apply Rgt_not_eq, bpow_gt_0.
Qed.
