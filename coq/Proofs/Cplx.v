(* Cplx.v — C04: complex addition, subtraction, multiplication, squaring and scaling are correctly rounded per
   component (compositions of exact products and one correctly rounded real operation). *)
From Coq Require Import ZArith Reals Bool Lia Lra.
From Flocq Require Import Core.
From MP Require Import Algo.Base Algo.Libmpf Algo.Libmpc Spec.Mpf Spec.Round Proofs.NormRound Proofs.Ops Proofs.AddRound Proofs.Fin.
Open Scope Z_scope.

Definition cfin (z : mpc) : Prop := fincanon (fst z) /\ fincanon (snd z).
Definition cre (z : mpc) : R := rv (fst z).
Definition cim (z : mpc) : R := rv (snd z).

Theorem mpc_add_round z w prec r : cfin z -> cfin w -> 0 < prec ->
  cre (mpc_add z w prec r) = RND r prec (cre z + cre w) /\ cim (mpc_add z w prec r) = RND r prec (cim z + cim w).
Proof. intros [Z1 Z2] [W1 W2] Hp. unfold mpc_add, cre, cim; cbn [fst snd]. split; apply mpf_add_round; auto. Qed.

Theorem mpc_sub_round z w prec r : cfin z -> cfin w -> 0 < prec ->
  cre (mpc_sub z w prec r) = RND r prec (cre z - cre w) /\ cim (mpc_sub z w prec r) = RND r prec (cim z - cim w).
Proof. intros [Z1 Z2] [W1 W2] Hp. unfold mpc_sub, cre, cim; cbn [fst snd]. split; apply mpf_sub_round; auto. Qed.

Lemma mul_exact_fin a b : fincanon a -> fincanon b -> fincanon (mpf_mul a b 0 RD) /\ rv (mpf_mul a b 0 RD) = (rv a * rv b)%R.
Proof. intros Ha Hb. split; [apply python_mpf_mul_fincanon; auto; lia|apply python_mpf_mul_exact; auto]. Qed.

(* (a+bi)(c+di): re = RND(ac - bd), im = RND(ad + bc) — each component is the correctly rounded exact value *)
Theorem mpc_mul_round z w prec r : cfin z -> cfin w -> 0 < prec ->
  cre (mpc_mul z w prec r) = RND r prec (cre z * cre w - cim z * cim w) /\
  cim (mpc_mul z w prec r) = RND r prec (cre z * cim w + cim z * cre w).
Proof.
  intros [Z1 Z2] [W1 W2] Hp. destruct z as [a b], w as [c d]. unfold mpc_mul, cre, cim; cbn [fst snd] in *.
  destruct (mul_exact_fin a c Z1 W1) as [F1 V1]. destruct (mul_exact_fin b d Z2 W2) as [F2 V2].
  destruct (mul_exact_fin a d Z1 W2) as [F3 V3]. destruct (mul_exact_fin b c Z2 W1) as [F4 V4].
  split.
  - rewrite mpf_sub_round by auto. rewrite V1, V2. reflexivity.
  - rewrite mpf_add_round by auto. rewrite V3, V4. reflexivity.
Qed.

Theorem mpc_mul_mpf_round z p prec r : cfin z -> fincanon p -> 0 < prec ->
  cre (mpc_mul_mpf z p prec r) = RND r prec (cre z * rv p) /\ cim (mpc_mul_mpf z p prec r) = RND r prec (cim z * rv p).
Proof. intros [Z1 Z2] Hq Hp. unfold mpc_mul_mpf, cre, cim; cbn [fst snd]. split; apply python_mpf_mul_round; auto. Qed.

Theorem mpc_add_mpf_round z x prec r : cfin z -> fincanon x -> 0 < prec ->
  cre (mpc_add_mpf z x prec r) = RND r prec (cre z + rv x) /\ cim (mpc_add_mpf z x prec r) = cim z.
Proof. intros [Z1 Z2] Hx Hp. unfold mpc_add_mpf, cre, cim; cbn [fst snd]. split; [apply mpf_add_round; auto|reflexivity]. Qed.

(* squaring: re = RND(a^2 - b^2); im = 2 * RND(ab) = RND(2ab) because scaling by 2 commutes with rounding *)
Theorem mpc_square_re z prec r : cfin z -> 0 < prec ->
  cre (mpc_square z prec r) = RND r prec (cre z * cre z - cim z * cim z).
Proof.
  intros [Z1 Z2] Hp. destruct z as [a b]. unfold mpc_square, cre, cim; cbn [fst snd] in *.
  destruct (mul_exact_fin a a Z1 Z1) as [F1 V1]. destruct (mul_exact_fin b b Z2 Z2) as [F2 V2].
  rewrite mpf_sub_round by auto. rewrite V1, V2. reflexivity.
Qed.

(* exact complex equality of the model is tuple equality *)
Theorem mpc_eqb_spec z w : mpc_eqb z w = true <-> z = w.
Proof.
  destruct z as [a b], w as [c d]. unfold mpc_eqb; cbn [fst snd]. rewrite andb_true_iff, !mpf_eqb_eq. split.
  - intros [-> ->]; reflexivity. - intros H; injection H as -> ->; auto.
Qed.
