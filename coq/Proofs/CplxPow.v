(* CplxPow.v — C04: non-negative integer powers of a complex number with both parts non-zero: the exact-branch of mpc_pow_int
   (complex_int_pow on the common-exponent integer mantissas) returns, per component, the correctly rounded value of the exact
   power (a + bi)^n, for every n >= 3 within the size guard, all precisions and rounding modes. *)
From Coq Require Import ZArith Reals Bool Lia Lra PArith.
From Flocq Require Import Core.
From MP Require Import Algo.Base Algo.Libmpf Algo.Libmpc Spec.Mpf Spec.Round Proofs.NormRound Proofs.Ops Proofs.AddRound Proofs.Fin
  Proofs.ModRound Proofs.Cplx.
Open Scope Z_scope.

(* Gaussian integers and complex reals as pairs *)
Definition gmul (x y : Z * Z) : Z * Z := (fst x * fst y - snd x * snd y, fst x * snd y + snd x * fst y).
Fixpoint gpow (z : Z * Z) (n : nat) : Z * Z := match n with O => (1, 0) | S k => gmul z (gpow z k) end.
Definition rmul (x y : R * R) : R * R := (fst x * fst y - snd x * snd y, fst x * snd y + snd x * fst y)%R.
Fixpoint rpow (z : R * R) (n : nat) : R * R := match n with O => (1, 0)%R | S k => rmul z (rpow z k) end.

Lemma gmul_comm x y : gmul x y = gmul y x.
Proof. unfold gmul. f_equal; ring. Qed.
Lemma gmul_assoc x y z : gmul x (gmul y z) = gmul (gmul x y) z.
Proof. unfold gmul; cbn [fst snd]. f_equal; ring. Qed.
Lemma gmul_1_r x : gmul x (1, 0) = x.
Proof. destruct x. unfold gmul; cbn [fst snd]. f_equal; ring. Qed.
Lemma gpow_add z a b : gpow z (a + b) = gmul (gpow z a) (gpow z b).
Proof.
  induction a as [|a IH]; cbn [gpow Nat.add].
  - rewrite gmul_comm, gmul_1_r. reflexivity.
  - rewrite IH. apply gmul_assoc.
Qed.
Lemma gpow_sq z k : gpow (gmul z z) k = gpow z (2 * k).
Proof.
  induction k as [|k IH]; [reflexivity|]. cbn [gpow]. rewrite IH.
  replace (2 * S k)%nat with (S (S (2 * k))) by lia. cbn [gpow]. apply eq_sym, gmul_assoc.
Qed.

Lemma cip_loop_spec n : forall wre wim a b,
  cip_loop n wre wim a b = gmul (wre, wim) (gpow (a, b) (Pos.to_nat n)).
Proof.
  induction n as [n IH|n IH|]; intros wre wim a b; cbn [cip_loop fst snd].
  - rewrite IH. rewrite Pos2Nat.inj_xI.
    replace (a * a - b * b, 2 * a * b) with (gmul (a, b) (a, b)) by (unfold gmul; cbn [fst snd]; f_equal; ring).
    rewrite gpow_sq. cbn [gpow].
    replace (wre * a - wim * b, wim * a + wre * b) with (gmul (wre, wim) (a, b)) by (unfold gmul; cbn [fst snd]; f_equal; ring).
    rewrite <- gmul_assoc. reflexivity.
  - rewrite IH. rewrite Pos2Nat.inj_xO.
    replace (a * a - b * b, 2 * a * b) with (gmul (a, b) (a, b)) by (unfold gmul; cbn [fst snd]; f_equal; ring).
    rewrite gpow_sq. reflexivity.
  - change (Pos.to_nat 1) with 1%nat. cbn [gpow]. rewrite gmul_1_r. unfold gmul; cbn [fst snd]. f_equal; ring.
Qed.

(* scaling: (A s + i B s)^n = (A + iB)^n s^n *)
Definition scale (s : R) (z : Z * Z) : R * R := (IZR (fst z) * s, IZR (snd z) * s)%R.
Lemma scale_mul s t x y : rmul (scale s x) (scale t y) = scale (s * t) (gmul x y).
Proof. unfold rmul, scale, gmul; cbn [fst snd]. rewrite !minus_IZR, !plus_IZR, !mult_IZR. f_equal; ring. Qed.
Lemma scale_pow s z n : rpow (scale s z) n = scale (s ^ n) (gpow z n).
Proof.
  induction n as [|n IH]; cbn [rpow gpow pow].
  - unfold scale; cbn [fst snd]. f_equal; ring.
  - rewrite IH, scale_mul. reflexivity.
Qed.

Lemma bpow_pow_pos e n : (bpow radix2 e ^ Pos.to_nat n)%R = bpow radix2 (Zpos n * e).
Proof.
  rewrite <- (positive_nat_Z n). induction (Pos.to_nat n) as [|k IH]; [rewrite Z.mul_0_l; reflexivity|].
  rewrite <- tech_pow_Rmult, IH, <- bpow_plus. f_equal. lia.
Qed.

Theorem mpc_pow_int_exact_branch z n prec r : cfin z -> (cre z <> 0)%R -> (cim z <> 0)%R -> 0 < prec ->
  3 <= Zpos n -> Zpos n * (Z.abs (mexp (fst z) - mexp (snd z)) + Z.max (mbc (fst z)) (mbc (snd z))) < 10000 ->
  exists q, mpc_pow_int_nonneg z (Zpos n) prec r = Ok q /\
    cre q = RND r prec (fst (rpow (cre z, cim z) (Pos.to_nat n))) /\
    cim q = RND r prec (snd (rpow (cre z, cim z) (Pos.to_nat n))).
Proof.
  intros [Fa Fb] Na Nb Hp Hn Hsz. destruct z as [a b]. unfold cre, cim in *; cbn [fst snd] in *.
  unfold mpc_pow_int_nonneg.
  assert (mpf_eqb b fzero = false) as -> by (apply not_true_is_false; rewrite mpf_eqb_eq; intros ->; apply Nb, rv_fzero).
  assert (mpf_eqb a fzero = false) as -> by (apply not_true_is_false; rewrite mpf_eqb_eq; intros ->; apply Na, rv_fzero).
  destruct (Z.eqb_spec (Zpos n) 0); [lia|]. destruct (Z.eqb_spec (Zpos n) 1); [lia|]. destruct (Z.eqb_spec (Zpos n) 2); [lia|].
  destruct (Z.ltb_spec (Zpos n * (Z.abs (mexp a - mexp b) + Z.max (mbc a) (mbc b))) 10000) as [_|G]; [|lia].
  destruct (fincanon_sign a Fa) as [Sa _]. destruct (fincanon_sign b Fb) as [Sb _].
  pose proof (rv_smant a Sa) as Va. pose proof (rv_smant b Sb) as Vb. unfold smant in Va, Vb.
  set (am := if msign a =? 0 then mman a else - mman a) in *.
  set (bm := if msign b =? 0 then mman b else - mman b) in *.
  (* common exponent e and integer mantissas A, B with rv a = A 2^e, rv b = B 2^e *)
  assert (COMMON : exists A B e,
    (if 0 <? mexp a - mexp b then (Z.shiftl am (mexp a - mexp b), mexp b, bm, mexp b)
     else (am, mexp a, Z.shiftl bm (- (mexp a - mexp b)), mexp a)) = (A, e, B, e) /\
    rv a = (IZR A * bpow radix2 e)%R /\ rv b = (IZR B * bpow radix2 e)%R).
  { destruct (Z.ltb_spec 0 (mexp a - mexp b)) as [L|G].
    { exists (Z.shiftl am (mexp a - mexp b)), bm, (mexp b). split; [reflexivity|]. split.
      { rewrite Va. rewrite (F2R_base am (mexp a) (mexp b)) by lia. reflexivity. }
      rewrite Vb. reflexivity. }
    exists am, (Z.shiftl bm (- (mexp a - mexp b))), (mexp a). split; [reflexivity|]. split.
    { rewrite Va. reflexivity. }
    rewrite Vb. rewrite (F2R_base bm (mexp b) (mexp a)) by lia.
    replace (- (mexp a - mexp b)) with (mexp b - mexp a) by lia. reflexivity. }
  destruct COMMON as [A [B [e [EQ [EA EB]]]]]. rewrite EQ.
  unfold complex_int_pow. rewrite cip_loop_spec.
  replace (gmul (1, 0) (gpow (A, B) (Pos.to_nat n))) with (gpow (A, B) (Pos.to_nat n)) by (rewrite gmul_comm, gmul_1_r; reflexivity).
  destruct (gpow (A, B) (Pos.to_nat n)) as [re im] eqn:EG.
  eexists. split; [reflexivity|]. cbn [fst snd].
  rewrite !from_man_exp_round by exact Hp.
  assert (RP : rpow (rv a, rv b) (Pos.to_nat n) = scale (bpow radix2 e ^ Pos.to_nat n) (re, im)).
  { rewrite <- EG. rewrite <- scale_pow. f_equal. unfold scale; cbn [fst snd]. rewrite EA, EB. reflexivity. }
  rewrite RP. unfold scale; cbn [fst snd].
  rewrite bpow_pow_pos. unfold F2R; cbn [Fnum Fexp]. split; reflexivity.
Qed.
