(* Mag.v — C39: mag of a regular mpf is exact (2^(m-1) <= |x| < 2^m), classification predicates, ldexp exactness. *)
From Coq Require Import ZArith Reals Bool Lia Lra.
From Flocq Require Import Core.
From MP Require Import Algo.Base Algo.Libmpf Algo.Ctxfun Spec.Mpf Spec.Round Proofs.Bits Proofs.NormRound Proofs.Ops.
Open Scope Z_scope.

Lemma Rabs_rv x : regular x -> Rabs (rv x) = F2R (Float radix2 (mman x) (mexp x)).
Proof.
  intros [S1 [S2 _]]. unfold rv. rewrite Rabs_mult.
  assert (Rabs (sgn (msign x)) = 1%R) as ->.
  { destruct S1 as [-> | ->]; unfold sgn; simpl; [apply Rabs_R1|replace (-1)%R with (- (1))%R by lra; rewrite Rabs_Ropp; apply Rabs_R1]. }
  rewrite Rmult_1_l. apply Rabs_pos_eq. apply F2R_ge_0. simpl; lia.
Qed.

Theorem mpf_mag_spec x : regular x ->
  exists m, mpf_mag x = XFin m /\ (bpow radix2 (m - 1) <= Rabs (rv x) < bpow radix2 m)%R.
Proof.
  intros Hx. pose proof Hx as [S1 [S2 [S3 S4]]]. exists (mexp x + mbc x). split.
  - unfold mpf_mag. destruct (Z.eqb_spec (mman x) 0); [lia|reflexivity].
  - rewrite Rabs_rv by exact Hx. unfold F2R; simpl Fnum; simpl Fexp.
    pose proof (bitcount_spec (mman x) S2) as [B1 B2]. rewrite <- S4 in B1, B2.
    pose proof (bitcount_pos (mman x) S2). rewrite <- S4 in H.
    replace (mexp x + mbc x - 1) with ((mbc x - 1) + mexp x) by lia.
    replace (mexp x + mbc x) with (mbc x + mexp x) by lia. rewrite !bpow_plus.
    assert (0 < bpow radix2 (mexp x))%R by apply bpow_gt_0.
    split.
    + apply Rmult_le_compat_r; [lra|]. rewrite <- IZR_pow2 by lia. apply IZR_le. exact B1.
    + apply Rmult_lt_compat_r; [lra|]. rewrite <- IZR_pow2 by lia. apply IZR_lt. exact B2.
Qed.

Theorem mpf_mag_special : mpf_mag fzero = XNinf /\ mpf_mag finf = XPinf /\ mpf_mag fninf = XPinf /\ mpf_mag fnan = XNan.
Proof. repeat split; reflexivity. Qed.

(* isint: the predicate holds exactly when the value is an integer *)
Theorem mpf_isint_spec x : regular x -> (mpf_isint x = true <-> exists n : Z, rv x = IZR n).
Proof.
  intros Hx. pose proof Hx as [S1 [S2 [S3 S4]]]. unfold mpf_isint.
  destruct (Z.eqb_spec (mman x) 0) as [|Hnz]; [lia|]. cbn [negb andb].
  assert (mpf_eqb x fzero = false) as ->.
  { apply Bool.not_true_is_false. rewrite mpf_eqb_eq. intros ->. simpl in S2. lia. }
  rewrite orb_false_r. split.
  - intros H. apply Z.leb_le in H. unfold rv, sgn.
    exists ((if msign x =? 0 then 1 else -1) * (mman x * 2 ^ mexp x)).
    unfold F2R; simpl Fnum; simpl Fexp. rewrite mult_IZR, mult_IZR, IZR_pow2 by lia.
    destruct (msign x =? 0); simpl; ring.
  - intros [n Hn]. apply Z.leb_le. destruct (Z_le_gt_dec 0 (mexp x)) as [|G]; [assumption|exfalso].
    (* odd mantissa with negative exponent is not an integer *)
    assert (Habs : F2R (Float radix2 (mman x) (mexp x)) = IZR (Z.abs n)).
    { rewrite <- Rabs_rv by exact Hx. rewrite Hn. rewrite <- abs_IZR. reflexivity. }
    assert (E : IZR (mman x) = (IZR (Z.abs n) * IZR (2 ^ (- mexp x)))%R).
    { rewrite <- Habs. unfold F2R; simpl Fnum; simpl Fexp. rewrite IZR_pow2 by lia.
      rewrite Rmult_assoc, <- bpow_plus. replace (mexp x + - mexp x) with 0 by lia. simpl. ring. }
    rewrite <- mult_IZR in E. apply eq_IZR in E.
    rewrite E in S3. replace (- mexp x) with (1 + (- mexp x - 1)) in S3 by lia.
    rewrite Z.pow_add_r in S3 by lia. change (2 ^ 1) with 2 in S3.
    replace (Z.abs n * (2 * 2 ^ (- mexp x - 1))) with (2 * (Z.abs n * 2 ^ (- mexp x - 1))) in S3 by ring.
    rewrite Z.odd_mul in S3. discriminate.
Qed.

(* ldexp is exact *)
Theorem ldexp_exact x n : regular x -> rv (ctx_ldexp x n) = (rv x * bpow radix2 n)%R /\ regular (ctx_ldexp x n).
Proof.
  intros Hx. pose proof Hx as [S1 [S2 [S3 S4]]]. unfold ctx_ldexp, mpf_shift.
  destruct (Z.eqb_spec (mman x) 0); [lia|]. split.
  - unfold rv, F2R; cbn [msign mman mexp Fnum Fexp]. rewrite bpow_plus. ring.
  - unfold regular; cbn [msign mman mexp mbc]. auto.
Qed.
