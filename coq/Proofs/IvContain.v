(* IvContain.v — C14 (arithmetic part, finite endpoints): the result interval of mpi_add / mpi_sub / mpi_neg / mpi_pos
   contains x op y for every member point of the operands, at every precision (prec = 0: exact endpoints). *)
From Coq Require Import ZArith Reals Bool Lia Lra.
From Flocq Require Import Core.
From MP Require Import Algo.Base Algo.Libmpf Algo.Libmpi Spec.Mpf Spec.Round Proofs.NormRound Proofs.Ops Proofs.AddRound
  Proofs.Fin Proofs.Cmp Proofs.IvCmp.
Open Scope Z_scope.

Lemma RND_floor_le p x : 0 < p -> (RND RF p x <= x)%R.
Proof. intros Hp. assert (HP : Prec_gt_0 p) by exact Hp. unfold RND; cbn [Zrnd_of]. apply round_DN_pt. typeclasses eauto. Qed.
Lemma RND_ceil_ge p x : 0 < p -> (x <= RND RC p x)%R.
Proof. intros Hp. assert (HP : Prec_gt_0 p) by exact Hp. unfold RND; cbn [Zrnd_of]. apply round_UP_pt. typeclasses eauto. Qed.

Lemma roe_floor_le p x : 0 <= p -> (rnd_or_exact RF p x <= x)%R.
Proof. intros Hp. unfold rnd_or_exact. destruct (Z.eqb_spec p 0); [lra|apply RND_floor_le; lia]. Qed.
Lemma roe_ceil_ge p x : 0 <= p -> (x <= rnd_or_exact RC p x)%R.
Proof. intros Hp. unfold rnd_or_exact. destruct (Z.eqb_spec p 0); [lra|apply RND_ceil_ge; lia]. Qed.

Lemma nan_to_fin x d : fincanon x -> nan_to x d = x.
Proof. intros H. unfold nan_to. rewrite not_nan_fincanon by exact H. reflexivity. Qed.

Theorem mpi_add_contains s t prec x y : valid_iv s -> valid_iv t -> 0 <= prec -> in_iv s x -> in_iv t y ->
  in_iv (mpi_add s t prec) (x + y) /\ valid_iv (mpi_add s t prec).
Proof.
  intros [Sa [Sb Sv]] [Ta [Tb Tv]] Hp [X1 X2] [Y1 Y2]. unfold mpi_add, in_iv, valid_iv; cbn [fst snd].
  assert (Fa : fincanon (mpf_add (fst s) (fst t) prec RF)) by (apply mpf_add_gen_fincanon; auto).
  assert (Fb : fincanon (mpf_add (snd s) (snd t) prec RC)) by (apply mpf_add_gen_fincanon; auto).
  rewrite !nan_to_fin by assumption.
  assert (Va : rv (mpf_add (fst s) (fst t) prec RF) = rnd_or_exact RF prec (rv (fst s) + rv (fst t))).
  { unfold mpf_add. rewrite mpf_add_gen_round by auto. f_equal. ring. }
  assert (Vb : rv (mpf_add (snd s) (snd t) prec RC) = rnd_or_exact RC prec (rv (snd s) + rv (snd t))).
  { unfold mpf_add. rewrite mpf_add_gen_round by auto. f_equal. ring. }
  pose proof (roe_floor_le prec (rv (fst s) + rv (fst t)) Hp). pose proof (roe_ceil_ge prec (rv (snd s) + rv (snd t)) Hp).
  rewrite Va, Vb. repeat split; auto; lra.
Qed.

Theorem mpi_sub_contains s t prec x y : valid_iv s -> valid_iv t -> 0 <= prec -> in_iv s x -> in_iv t y ->
  in_iv (mpi_sub s t prec) (x - y) /\ valid_iv (mpi_sub s t prec).
Proof.
  intros [Sa [Sb Sv]] [Ta [Tb Tv]] Hp [X1 X2] [Y1 Y2]. unfold mpi_sub, in_iv, valid_iv; cbn [fst snd].
  assert (Fa : fincanon (mpf_sub (fst s) (snd t) prec RF)) by (apply mpf_add_gen_fincanon; auto).
  assert (Fb : fincanon (mpf_sub (snd s) (fst t) prec RC)) by (apply mpf_add_gen_fincanon; auto).
  rewrite !nan_to_fin by assumption.
  assert (Va : rv (mpf_sub (fst s) (snd t) prec RF) = rnd_or_exact RF prec (rv (fst s) - rv (snd t))).
  { unfold mpf_sub. rewrite mpf_add_gen_round by auto. f_equal. ring. }
  assert (Vb : rv (mpf_sub (snd s) (fst t) prec RC) = rnd_or_exact RC prec (rv (snd s) - rv (fst t))).
  { unfold mpf_sub. rewrite mpf_add_gen_round by auto. f_equal. ring. }
  pose proof (roe_floor_le prec (rv (fst s) - rv (snd t)) Hp). pose proof (roe_ceil_ge prec (rv (snd s) - rv (fst t)) Hp).
  rewrite Va, Vb. repeat split; auto; lra.
Qed.

Lemma mpf_neg_roe s prec r : fincanon s -> 0 <= prec -> rv (mpf_neg s prec r) = rnd_or_exact r prec (- rv s).
Proof.
  intros Hs Hp. unfold rnd_or_exact. destruct (Z.eqb_spec prec 0) as [->|N].
  - apply mpf_neg_exact. exact Hs.
  - apply mpf_neg_round; auto; lia.
Qed.

Lemma mpf_neg_fincanon s prec r : fincanon s -> 0 <= prec -> fincanon (mpf_neg s prec r).
Proof.
  intros [->|Hs] Hp; [left; reflexivity|].
  destruct s as [sg m e b]. pose proof Hs as [S1 [S2 [S3 S4]]]; cbn [msign mman mexp mbc] in *.
  unfold mpf_neg. destruct (Z.eqb_spec m 0); [lia|].
  destruct (Z.eqb_spec prec 0).
  - right. unfold regular; cbn [msign mman mexp mbc]. repeat split; auto; destruct S1 as [-> | ->]; auto.
  - apply Normalize.normalize1_fincanon; auto; try lia; destruct S1 as [-> | ->]; auto.
Qed.

Theorem mpi_neg_contains s prec x : valid_iv s -> 0 <= prec -> in_iv s x ->
  in_iv (mpi_neg s prec) (- x) /\ valid_iv (mpi_neg s prec).
Proof.
  intros [Sa [Sb Sv]] Hp [X1 X2]. unfold mpi_neg, in_iv, valid_iv; cbn [fst snd].
  rewrite !mpf_neg_roe by auto.
  pose proof (roe_floor_le prec (- rv (snd s)) Hp). pose proof (roe_ceil_ge prec (- rv (fst s)) Hp).
  repeat split; try (apply mpf_neg_fincanon; auto); lra.
Qed.

Lemma mpf_pos_roe s prec r : fincanon s -> 0 <= prec -> rv (mpf_pos s prec r) = rnd_or_exact r prec (rv s).
Proof.
  intros Hs Hp. unfold rnd_or_exact. destruct (Z.eqb_spec prec 0) as [->|N].
  - reflexivity.
  - apply mpf_pos_round; auto; lia.
Qed.

Theorem mpi_pos_contains s prec x : valid_iv s -> 0 <= prec -> in_iv s x ->
  in_iv (mpi_pos s prec) x /\ valid_iv (mpi_pos s prec).
Proof.
  intros [Sa [Sb Sv]] Hp [X1 X2]. unfold mpi_pos, in_iv, valid_iv; cbn [fst snd].
  rewrite !mpf_pos_roe by auto.
  pose proof (roe_floor_le prec (rv (fst s)) Hp). pose proof (roe_ceil_ge prec (rv (snd s)) Hp).
  repeat split; try (apply mpf_pos_fincanon; auto); lra.
Qed.
