(* Hash.v — C05 (hash part): mpf_hash follows CPython's numeric hash rule for every finite value.
   P = 2^61 - 1.  For an integer-valued mpf the result is the interpreter's hash of that integer; for a dyadic
   rational m/2^k it is m * (2^k)^-1 mod P (stated without inverses: h * 2^k = m (mod P)).  Pure Z, axiom-free. *)
From Coq Require Import ZArith Bool Lia.
From MP Require Import Algo.Base Algo.Libmpf Spec.Mpf Proofs.Bits.
Open Scope Z_scope.

Local Notation P := HASH_MODULUS.

Lemma P_pos : 0 < P. Proof. reflexivity. Qed.
Lemma pow61_mod : 2 ^ 61 mod P = 1. Proof. reflexivity. Qed.

Lemma pow61q_mod q : 0 <= q -> 2 ^ (61 * q) mod P = 1.
Proof.
  intros Hq. pattern q. apply natlike_ind; [reflexivity| |exact Hq].
  intros x Hx IH. replace (61 * Z.succ x) with (61 * x + 61) by lia.
  rewrite Z.pow_add_r by lia. rewrite Z.mul_mod by (pose proof P_pos; lia). rewrite IH, pow61_mod. reflexivity.
Qed.

Lemma pow_mod61 e : 0 <= e -> 2 ^ e mod P = 2 ^ (e mod 61) mod P.
Proof.
  intros He. pose proof (Z.div_mod e 61 ltac:(lia)) as D. pose proof (Z.mod_pos_bound e 61 ltac:(lia)) as B.
  assert (Q : 0 <= e / 61) by (apply Z.div_pos; lia).
  rewrite D at 1. rewrite Z.pow_add_r by lia.
  rewrite Z.mul_mod by (pose proof P_pos; lia). rewrite pow61q_mod by exact Q.
  rewrite Z.mul_1_l. apply Z.mod_mod. pose proof P_pos; lia.
Qed.

(* CPython: hash(n) for an int n, before/after the -1 -> -2 rule *)
Definition py_int_hash (n : Z) : Z :=
  let h := Z.sgn n * (Z.abs n mod P) in if h =? -1 then -2 else h.

(* the unsigned core computed by mpf_hash *)
Definition hash_core (man exp : Z) : Z :=
  let h := man mod P in
  let e := if 0 <=? exp then exp mod HASH_BITS else HASH_BITS - 1 - ((-1 - exp) mod HASH_BITS) in
  (Z.shiftl h e) mod P.

Lemma mpf_hash_regular x : regular x ->
  mpf_hash x = let h := hash_core (mman x) (mexp x) in
               let h := if negb (msign x =? 0) then - h else h in if h =? -1 then -2 else h.
Proof.
  intros [S1 [S2 _]]. destruct x as [sg m e b]. cbn [msign mman mexp mbc] in *. unfold mpf_hash.
  destruct (Z.eqb_spec m 0); [lia|]. cbn [andb]. reflexivity.
Qed.

Lemma hash_core_nonneg_exp m e : 0 <= m -> 0 <= e -> hash_core m e = (m * 2 ^ e) mod P.
Proof.
  intros Hm He. unfold hash_core. cbv zeta. destruct (Z.leb_spec 0 e); [|lia].
  pose proof P_pos. pose proof (Z.mod_pos_bound e 61 ltac:(lia)).
  unfold HASH_BITS. rewrite Z.shiftl_mul_pow2 by lia.
  rewrite Z.mul_mod_idemp_l by lia.
  rewrite (Z.mul_mod m (2 ^ e)) by lia. rewrite (pow_mod61 e He). rewrite <- Z.mul_mod by lia. reflexivity.
Qed.

(* negative exponents: multiplying back by 2^k gives the mantissa (mod P) *)
Lemma hash_core_neg_exp m e : 0 <= m -> e < 0 -> (hash_core m e * 2 ^ (- e)) mod P = m mod P /\ 0 <= hash_core m e < P.
Proof.
  intros Hm He. unfold hash_core. cbv zeta. destruct (Z.leb_spec 0 e); [lia|]. pose proof P_pos as PP.
  unfold HASH_BITS. set (r := (-1 - e) mod 61).
  pose proof (Z.div_mod (-1 - e) 61 ltac:(lia)) as D. pose proof (Z.mod_pos_bound (-1 - e) 61 ltac:(lia)) as B. fold r in D, B.
  assert (Q : 0 <= (-1 - e) / 61) by (apply Z.div_pos; lia).
  split; [|apply Z.mod_pos_bound; lia].
  rewrite Z.shiftl_mul_pow2 by lia.
  rewrite Z.mul_mod_idemp_l by lia. rewrite <- Z.mul_assoc. rewrite Z.mul_mod_idemp_l by lia.
  rewrite <- Z.pow_add_r by lia.
  replace (61 - 1 - r + - e) with (61 * ((-1 - e) / 61 + 1)) by lia.
  rewrite Z.mul_mod by lia. rewrite pow61q_mod by lia. rewrite Z.mul_1_r. apply Z.mod_mod. lia.
Qed.

(* integer-valued mpfs hash like the integer they denote *)
Theorem mpf_hash_int x : regular x -> 0 <= mexp x ->
  mpf_hash x = py_int_hash ((if msign x =? 0 then 1 else -1) * (mman x * 2 ^ mexp x)).
Proof.
  intros Hx He. rewrite mpf_hash_regular by exact Hx. destruct Hx as [S1 [S2 _]]. cbv zeta.
  rewrite hash_core_nonneg_exp by lia.
  assert (V : 0 < mman x * 2 ^ mexp x) by (apply Z.mul_pos_pos; [lia|apply Z.pow_pos_nonneg; lia]).
  unfold py_int_hash. destruct S1 as [E|E]; rewrite E; cbn [Z.eqb negb]; cbv zeta.
  - rewrite Z.mul_1_l. rewrite Z.sgn_pos, Z.abs_eq by lia. rewrite Z.mul_1_l. reflexivity.
  - replace (-1 * (mman x * 2 ^ mexp x)) with (- (mman x * 2 ^ mexp x)) by lia.
    rewrite Z.sgn_neg, Z.abs_neq by lia. rewrite Z.opp_involutive.
    replace (-1 * ((mman x * 2 ^ mexp x) mod P)) with (- ((mman x * 2 ^ mexp x) mod P)) by lia. reflexivity.
Qed.

(* dyadic rationals: the hash h satisfies h * 2^k = m (mod P), which determines it uniquely in [0, P) *)
Theorem mpf_hash_dyadic x : regular x -> mexp x < 0 ->
  exists h, 0 <= h < P /\ (h * 2 ^ (- mexp x)) mod P = mman x mod P /\
    mpf_hash x = (let s := if msign x =? 0 then h else - h in if s =? -1 then -2 else s).
Proof.
  intros Hx He. rewrite mpf_hash_regular by exact Hx. destruct Hx as [S1 [S2 _]].
  destruct (hash_core_neg_exp (mman x) (mexp x) ltac:(lia) He) as [C1 C2].
  exists (hash_core (mman x) (mexp x)). split; [exact C2|]. split; [exact C1|].
  cbv zeta. destruct S1 as [E|E]; rewrite E; reflexivity.
Qed.

(* uniqueness of the solution of h * 2^k = m (mod P): 2^k is invertible since 2^61 = 1 *)
Lemma dyadic_hash_unique h1 h2 k m : 0 <= k -> 0 <= h1 < P -> 0 <= h2 < P ->
  (h1 * 2 ^ k) mod P = m mod P -> (h2 * 2 ^ k) mod P = m mod P -> h1 = h2.
Proof.
  intros Hk B1 B2 E1 E2. pose proof P_pos as PP.
  (* multiply by 2^(61*(k/61+1) - k) *)
  set (j := 61 * (k / 61 + 1) - k).
  pose proof (Z.div_mod k 61 ltac:(lia)) as D. pose proof (Z.mod_pos_bound k 61 ltac:(lia)) as B.
  assert (Hj : 0 <= j) by (unfold j; lia).
  assert (Q : 0 <= k / 61) by (apply Z.div_pos; lia).
  assert (G : forall h, 0 <= h < P -> ((h * 2 ^ k) mod P * 2 ^ j) mod P = h).
  { intros h Bh. rewrite Z.mul_mod_idemp_l by lia. rewrite <- Z.mul_assoc, <- Z.pow_add_r by lia.
    replace (k + j) with (61 * (k / 61 + 1)) by (unfold j; lia).
    rewrite Z.mul_mod by lia. rewrite pow61q_mod by lia. rewrite Z.mul_1_r, Z.mod_mod by lia. apply Z.mod_small. lia. }
  rewrite <- (G h1 B1), <- (G h2 B2), E1, E2. reflexivity.
Qed.

(* ---- complex: a real-valued mpc hashes like its real part (so mpc(x, 0) == x implies equal hashes) ---- *)
From MP Require Import Algo.Libmpc.

Lemma hash_core_range m e : 0 <= hash_core m e < P.
Proof. unfold hash_core. cbv zeta. apply Z.mod_pos_bound. exact P_pos. Qed.

Lemma mpf_hash_range x : fincanon x -> - P < mpf_hash x < P.
Proof.
  intros [->|Hx]; [vm_compute; split; reflexivity|].
  rewrite mpf_hash_regular by exact Hx. cbv zeta.
  pose proof (hash_core_range (mman x) (mexp x)) as R. pose proof P_pos.
  assert (P = 2305843009213693951) by reflexivity.
  set (h := hash_core (mman x) (mexp x)) in *.
  destruct (negb (msign x =? 0)); [destruct (Z.eqb_spec (- h) (-1))|destruct (Z.eqb_spec h (-1))]; lia.
Qed.

Theorem mpc_hash_real x : fincanon x -> mpc_hash (x, fzero) = mpf_hash x.
Proof.
  intros Hx. unfold mpc_hash. cbn [fst snd].
  replace (mpf_hash fzero) with 0 by reflexivity. rewrite Z.mul_0_r, Z.add_0_r.
  pose proof (mpf_hash_range x Hx) as R. assert (EP : P = 2305843009213693951) by reflexivity. rewrite EP in R.
  assert (NM1 : mpf_hash x <> -1).
  { destruct Hx as [->|Hx]; [vm_compute; discriminate|]. rewrite mpf_hash_regular by exact Hx. cbv zeta.
    set (hc := hash_core (mman x) (mexp x)).
    destruct (negb (msign x =? 0)); [destruct (Z.eqb_spec (- hc) (-1))|destruct (Z.eqb_spec hc (-1))]; lia. }
  set (h := mpf_hash x) in *.
  assert (E64 : 2 ^ 64 = 18446744073709551616) by reflexivity. assert (E63 : 2 ^ 63 = 9223372036854775808) by reflexivity.
  rewrite E64, E63.
  destruct (Z_lt_le_dec h 0) as [Neg|Pos].
  - replace (h mod 18446744073709551616) with (h + 18446744073709551616)
      by (apply Z.mod_unique with (q := -1); lia).
    destruct (Z.leb_spec 9223372036854775808 (h + 18446744073709551616)); [|lia].
    replace (h + 18446744073709551616 - 18446744073709551616) with h by lia.
    destruct (Z.eqb_spec h (-1)); [lia|reflexivity].
  - rewrite Z.mod_small by lia.
    destruct (Z.leb_spec 9223372036854775808 h); [lia|].
    destruct (Z.eqb_spec h (-1)); [lia|reflexivity].
Qed.
