(* CplxMpfDiv.v — C04: real / complex (mpc_mpf_div) and complex / real (mpc_div_mpf). *)
From Coq Require Import ZArith Reals Bool Lia Lra Psatz.
From Flocq Require Import Core Relative.
From MP Require Import Algo.Base Algo.Libmpf Algo.Libmpc Spec.Mpf Spec.Round Proofs.NormRound Proofs.Ops Proofs.AddRound Proofs.Fin
  Proofs.DivRound Proofs.Cplx Proofs.CplxDiv Proofs.IvContain.
Open Scope Z_scope.

(* z / p for a real p: both components are correctly rounded quotients *)
Theorem mpc_div_mpf_round z p prec r : cfin z -> regular p -> 0 < prec ->
  exists q, mpc_div_mpf z p prec r = Ok q /\ cfin q /\
    cre q = RND r prec (cre z / rv p) /\ cim q = RND r prec (cim z / rv p).
Proof.
  intros [Z1 Z2] Rp Hp. unfold mpc_div_mpf, cre, cim.
  destruct (mpf_div_round (fst z) p prec r Z1 Rp Hp) as [re [Ere Vre]].
  destruct (mpf_div_round (snd z) p prec r Z2 Rp Hp) as [im [Eim Vim]].
  exists (re, im). rewrite Ere. cbn [bind]. rewrite Eim. cbn [bind]. split; [reflexivity|]. cbn [fst snd].
  split; [split; [exact (div_fincanon (fst z) p prec r re Z1 Rp Hp Ere)|exact (div_fincanon (snd z) p prec r im Z2 Rp Hp Eim)]|].
  split; assumption.
Qed.

(* p / z for a real p *)
Theorem mpc_mpf_div_spec p z prec r : fincanon p -> cfin z -> (0 < cabs2 z)%R -> 0 < prec ->
  exists q, mpc_mpf_div p z prec r = Ok q /\ cfin q /\
    let M := RND RD (prec + 10) (cre z * cre z + cim z * cim z) in
    cre q = RND r prec (cre z * rv p / M) /\ cim q = RND r prec (- (cim z * rv p) / M) /\
    (Rabs (cre q - rv p * cre z / cabs2 z) <= 3 * bpow radix2 (- prec + 1) * (Rabs (rv p) * sqrt (/ cabs2 z)))%R /\
    (Rabs (cim q - rv p * (- cim z) / cabs2 z) <= 3 * bpow radix2 (- prec + 1) * (Rabs (rv p) * sqrt (/ cabs2 z)))%R.
Proof.
  intros Fp [Z1 Z2] HW Hp. destruct z as [a b]. unfold mpc_mpf_div, cabs2, cfin, cre, cim in *; cbn [fst snd] in *.
  set (wp := prec + 10). assert (Hwp : 0 < wp) by (unfold wp; lia).
  destruct (mul_exact_fin a a Z1 Z1) as [Faa Vaa]. destruct (mul_exact_fin b b Z2 Z2) as [Fbb Vbb].
  destruct (mul_exact_fin a p Z1 Fp) as [Fap Vap]. destruct (mul_exact_fin b p Z2 Fp) as [Fbp Vbp].
  set (m := mpf_add (mpf_mul a a 0 RD) (mpf_mul b b 0 RD) wp RD).
  assert (Fm : fincanon m) by (apply mpf_add_gen_fincanon; auto; lia).
  assert (Vm : rv m = RND RD wp (rv a * rv a + rv b * rv b)) by (unfold m; rewrite mpf_add_round by auto; rewrite Vaa, Vbb; reflexivity).
  set (M0 := (rv a * rv a + rv b * rv b)%R) in *.
  assert (HM0 : (0 < M0)%R) by (unfold M0; replace (rv a * rv a + rv b * rv b)%R with (rv a ^ 2 + rv b ^ 2)%R by ring; exact HW).
  destruct (RND_rel RD wp M0 Hwp) as [e2 [B2 E2]].
  assert (Bw : (bpow radix2 (- wp + 1) <= bpow radix2 (- prec + 1) / 1024)%R).
  { unfold wp. replace (- (prec + 10) + 1) with ((- prec + 1) + (-10)) by lia. rewrite bpow_plus.
    replace (bpow radix2 (-10)) with (/ 1024)%R by (simpl; lra). unfold Rdiv. lra. }
  assert (Bv : (bpow radix2 (- prec + 1) <= 1)%R) by (change 1%R with (bpow radix2 0); apply bpow_le; lia).
  assert (Pv : (0 < bpow radix2 (- prec + 1))%R) by apply bpow_gt_0.
  assert (Pu : (0 < bpow radix2 (- wp + 1))%R) by apply bpow_gt_0.
  assert (Hmpos : (0 < rv m)%R) by (rewrite Vm, E2; apply Rabs_def2 in B2; nra).
  assert (Rm : regular m) by (apply nz_regular; auto; lra).
  assert (Fnb : fincanon (mpf_neg (mpf_mul b p 0 RD) 0 RD)) by (apply mpf_neg_fincanon; auto; lia).
  assert (Vnb : rv (mpf_neg (mpf_mul b p 0 RD) 0 RD) = (- (rv b * rv p))%R) by (rewrite mpf_neg_exact by exact Fbp; rewrite Vbp; reflexivity).
  destruct (mpf_div_round (mpf_mul a p 0 RD) m prec r Fap Rm Hp) as [re [Ere Vre]].
  destruct (mpf_div_round (mpf_neg (mpf_mul b p 0 RD) 0 RD) m prec r Fnb Rm Hp) as [im [Eim Vim]].
  exists (re, im). fold wp m. rewrite Ere. cbn [bind]. rewrite Eim. cbn [bind]. split; [reflexivity|].
  cbn [fst snd]. split; [split; [exact (div_fincanon _ m prec r re Fap Rm Hp Ere)|exact (div_fincanon _ m prec r im Fnb Rm Hp Eim)]|].
  cbv zeta. rewrite Vre, Vim, Vap, Vnb, Vm. split; [reflexivity|]. split; [reflexivity|].
  assert (SQ : forall N, (N ^ 2 <= rv p ^ 2 * M0)%R -> (Rabs N / M0 <= Rabs (rv p) * sqrt (/ (rv a ^ 2 + rv b ^ 2)))%R).
  { intros N HN. replace (rv a ^ 2 + rv b ^ 2)%R with M0 by (unfold M0; ring).
    apply Rsqr_incr_0_var; [|apply Rmult_le_pos; [apply Rabs_pos|apply sqrt_pos]].
    rewrite Rsqr_mult, Rsqr_sqrt by (left; apply Rinv_0_lt_compat; exact HM0). rewrite <- Rsqr_abs.
    unfold Rsqr. replace (Rabs N / M0 * (Rabs N / M0))%R with (Rabs N * Rabs N / (M0 * M0))%R by (field; lra).
    replace (Rabs N * Rabs N)%R with (N ^ 2)%R by (rewrite <- Rabs_mult, Rabs_pos_eq by nra; ring).
    apply Rmult_le_reg_r with (M0 * M0)%R; [nra|]. unfold Rdiv. rewrite Rmult_assoc, Rinv_l by nra.
    replace (rv p * rv p * / M0 * (M0 * M0))%R with (rv p ^ 2 * M0)%R by (field; lra). lra. }
  assert (BND : forall N, (N ^ 2 <= rv p ^ 2 * M0)%R ->
     (Rabs (RND r prec (N / RND RD wp M0) - N / M0) <= 3 * bpow radix2 (- prec + 1) * (Rabs (rv p) * sqrt (/ (rv a ^ 2 + rv b ^ 2))))%R).
  { intros N HN. destruct (RND_rel r prec (N / RND RD wp M0) Hp) as [e3 [B3 E3]]. rewrite E3, E2.
    replace (N / (M0 * (1 + e2)) * (1 + e3))%R with (N * (1 + 0) / (M0 * (1 + e2)) * (1 + e3))%R by (f_equal; f_equal; ring).
    eapply Rle_trans.
    - apply (three_eps N M0 0%R e2 e3 (bpow radix2 (- wp + 1)) (bpow radix2 (- prec + 1))); try lra. rewrite Rabs_R0. lra.
    - apply Rmult_le_compat_l; [lra|]. apply SQ. exact HN. }
  split.
  - replace (rv a ^ 2 + rv b ^ 2)%R with M0 at 1 by (unfold M0; ring).
    replace (rv p * rv a / M0)%R with (rv a * rv p / M0)%R by (unfold Rdiv; ring). apply BND. unfold M0. nra.
  - replace (rv a ^ 2 + rv b ^ 2)%R with M0 at 1 by (unfold M0; ring).
    replace (rv p * - rv b / M0)%R with (- (rv b * rv p) / M0)%R by (unfold Rdiv; ring). apply BND. unfold M0. nra.
Qed.
