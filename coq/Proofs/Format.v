(* Format.v — a canonical tuple whose value is a p-bit number has at most p mantissa bits.  Together with the
   rounding theorems this gives C10 for every correctly rounded operation in one step. *)
From Coq Require Import ZArith Reals Bool Lia Lra.
From Flocq Require Import Core.
From MP Require Import Algo.Base Algo.Libmpf Spec.Mpf Spec.Round Proofs.Bits Proofs.Normalize Proofs.Canon Proofs.NormRound.
Open Scope Z_scope.

Lemma F2R_eq_Z m1 e1 m2 e2 : F2R (Float radix2 m1 e1) = F2R (Float radix2 m2 e2) ->
  m1 * 2 ^ (e1 - Z.min e1 e2) = m2 * 2 ^ (e2 - Z.min e1 e2).
Proof.
  intros H. set (e := Z.min e1 e2).
  rewrite (F2R_change_exp radix2 e m1 e1) in H by (unfold e; lia).
  rewrite (F2R_change_exp radix2 e m2 e2) in H by (unfold e; lia).
  apply eq_F2R in H. exact H.
Qed.

Lemma odd_part_le m q t : Z.odd m = true -> 0 < m -> 0 <= t -> forall k, 0 <= k -> m * 2 ^ t = q * 2 ^ k -> m <= Z.abs q.
Proof.
  intros Ho Hm Ht k Hk E.
  assert (0 < 2 ^ t) by (apply Z.pow_pos_nonneg; lia). assert (0 < 2 ^ k) by (apply Z.pow_pos_nonneg; lia).
  assert (Hq : 0 < q) by nia.
  rewrite Z.abs_eq by lia.
  destruct (Z_le_gt_dec t k) as [L|G].
  - (* m = q * 2^(k-t) >= q ... but m odd forces k = t or q carries the factor *)
    replace k with (t + (k - t)) in E by lia. rewrite Z.pow_add_r in E by lia.
    assert (m = q * 2 ^ (k - t)) by nia.
    destruct (Z.eq_dec (k - t) 0) as [E0|N0]; [rewrite E0 in *; simpl in *; lia|].
    exfalso. subst m. rewrite Z.odd_mul, Z.odd_pow, andb_false_r in Ho by lia. discriminate.
  - replace t with (k + (t - k)) in E by lia. rewrite Z.pow_add_r in E by lia.
    assert (q = m * 2 ^ (t - k)) by nia.
    assert (1 <= 2 ^ (t - k)) by (assert (0 < 2 ^ (t - k)) by (apply Z.pow_pos_nonneg; lia); lia). nia.
Qed.

Theorem format_bc_le y p : regular y -> 0 < p -> generic_format radix2 (FLX_exp p) (rv y) -> mbc y <= p.
Proof.
  intros [Y1 [Y2 [Y3 Y4]]] Hp Hf.
  assert (HP : Prec_gt_0 p) by exact Hp.
  apply FLX_format_generic in Hf; [|exact HP]. destruct Hf as [[fm fe] Hv Hb]. simpl in Hb.
  (* |rv y| = F2R (mman, mexp) = |F2R f| *)
  assert (Habs : F2R (Float radix2 (mman y) (mexp y)) = F2R (Float radix2 (Z.abs fm) fe)).
  { rewrite F2R_Zabs. change (Float radix2 fm fe) with (Float radix2 fm fe). rewrite <- Hv. unfold rv. rewrite Rabs_mult.
    assert (Rabs (sgn (msign y)) = 1%R) as -> by (destruct Y1 as [-> | ->]; unfold sgn; simpl; [apply Rabs_R1|replace (-1)%R with (- (1))%R by lra; rewrite Rabs_Ropp; apply Rabs_R1]).
    rewrite Rmult_1_l. symmetry. apply Rabs_pos_eq. apply F2R_ge_0. simpl; lia. }
  apply F2R_eq_Z in Habs.
  assert (Hle : mman y <= Z.abs (Z.abs fm)).
  { apply (odd_part_le (mman y) (Z.abs fm) (mexp y - Z.min (mexp y) fe) Y3 Y2 ltac:(lia) (fe - Z.min (mexp y) fe) ltac:(lia)). exact Habs. }
  rewrite Z.abs_involutive in Hle.
  rewrite Y4.
  destruct (Z_le_gt_dec (bitcount (mman y)) p) as [L|G]; [exact L|exfalso].
  pose proof (bitcount_spec (mman y) Y2) as [B1 _].
  assert (2 ^ p <= 2 ^ (bitcount (mman y) - 1)) by (apply Z.pow_le_mono_r; lia).
  change (Zpower radix2 p) with (2 ^ p) in Hb. lia.
Qed.

Lemma RND_format r p x : 0 < p -> generic_format radix2 (FLX_exp p) (RND r p x).
Proof.
  intros Hp. assert (HP : Prec_gt_0 p) by exact Hp. unfold RND. apply generic_format_round; typeclasses eauto.
Qed.

(* the one-step corollary: a finite canonical result whose value is a p-bit rounding has at most p bits *)
Theorem rounded_bc_le y r p x : fincanon y -> 0 < p -> rv y = RND r p x -> mbc y <= p.
Proof.
  intros [->|Ry] Hp E; [simpl; lia|].
  apply format_bc_le; auto. rewrite E. apply RND_format. exact Hp.
Qed.
