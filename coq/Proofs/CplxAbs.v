(* CplxAbs.v — C04 (modulus): mpf_hypot / mpc_abs return the correctly rounded square root of the (prec+4)-bit truncation of
   x^2 + y^2, hence a value within 3 * 2^-prec (relative) of |z|, for all finite operands, precisions and modes. *)
From Coq Require Import ZArith Reals Bool Lia Lra Psatz.
From Flocq Require Import Core Relative.
From MP Require Import Algo.Base Algo.Libmpf Algo.Libmpc Spec.Mpf Spec.Round Proofs.NormRound Proofs.Ops Proofs.AddRound Proofs.Fin
  Proofs.SqrtRound Proofs.Cmp Proofs.Cplx Proofs.CplxDiv.
Open Scope Z_scope.

Lemma pos_sign0 a : fincanon a -> (0 < rv a)%R -> regular a /\ msign a = 0.
Proof.
  intros Fa Pa. destruct Fa as [->|Ra]; [rewrite rv_fzero in Pa; lra|]. split; [exact Ra|].
  destruct Ra as [S1 [S2 _]]. destruct S1 as [E|E]; [exact E|]. exfalso.
  assert (0 < F2R (Float radix2 (mman a) (mexp a)))%R by (apply F2R_gt_0; exact S2).
  unfold rv, sgn in Pa. rewrite E in Pa. cbn [Z.eqb] in Pa. lra.
Qed.

Lemma sqrt_rel s e : (0 <= s)%R -> (Rabs e <= / 2)%R -> (Rabs (sqrt (s * (1 + e)) - sqrt s) <= Rabs e * sqrt s)%R.
Proof.
  intros Hs He. apply Rabs_le_inv in He.
  assert (P : (0 <= 1 + e)%R) by lra.
  rewrite sqrt_mult by lra.
  replace (sqrt s * sqrt (1 + e) - sqrt s)%R with (sqrt s * (sqrt (1 + e) - 1))%R by ring.
  rewrite Rabs_mult, (Rabs_pos_eq (sqrt s)) by apply sqrt_pos. rewrite Rmult_comm.
  apply Rmult_le_compat_r; [apply sqrt_pos|].
  (* |sqrt(1+e) - 1| <= |e| *)
  assert (Q : (0 <= sqrt (1 + e))%R) by apply sqrt_pos.
  assert (SQ : (sqrt (1 + e) * sqrt (1 + e) = 1 + e)%R) by (apply sqrt_sqrt; exact P).
  apply Rabs_le. destruct (Rle_dec 0 e) as [Pe|Ne].
  - rewrite (Rabs_pos_eq e) by exact Pe. split; nra.
  - rewrite (Rabs_left e) by lra. split; nra.
Qed.

Theorem mpf_hypot_spec x y prec r : fincanon x -> fincanon y -> (rv x <> 0)%R -> (rv y <> 0)%R -> 0 < prec ->
  exists v, mpf_hypot x y prec r = Ok v /\
    rv v = RND r prec (sqrt (RND RD (prec + 4) (rv x * rv x + rv y * rv y))) /\
    (Rabs (rv v - sqrt (rv x * rv x + rv y * rv y)) <= 3 * bpow radix2 (- prec) * sqrt (rv x * rv x + rv y * rv y))%R.
Proof.
  intros Fx Fy Nx Ny Hp. unfold mpf_hypot.
  assert (mpf_eqb y fzero = false) as -> by (apply not_true_is_false; rewrite mpf_eqb_eq; intros ->; apply Ny, rv_fzero).
  assert (mpf_eqb x fzero = false) as -> by (apply not_true_is_false; rewrite mpf_eqb_eq; intros ->; apply Nx, rv_fzero).
  destruct (mul_exact_fin x x Fx Fx) as [F1 V1]. destruct (mul_exact_fin y y Fy Fy) as [F2 V2].
  set (h2 := mpf_add (mpf_mul x x 0 RD) (mpf_mul y y 0 RD) (prec + 4) RD).
  assert (Fh : fincanon h2) by (apply mpf_add_gen_fincanon; auto; lia).
  assert (Vh : rv h2 = RND RD (prec + 4) (rv x * rv x + rv y * rv y)) by (unfold h2; rewrite mpf_add_round by (auto; lia); rewrite V1, V2; reflexivity).
  set (S := (rv x * rv x + rv y * rv y)%R) in *.
  assert (HS : (0 < S)%R) by (unfold S; nra).
  destruct (RND_rel RD (prec + 4) S ltac:(lia)) as [e1 [B1 E1]].
  assert (Bu : (bpow radix2 (- (prec + 4) + 1) <= bpow radix2 (- prec) / 8)%R).
  { replace (- (prec + 4) + 1) with (- prec + (-3)) by lia. rewrite bpow_plus.
    replace (bpow radix2 (-3)) with (/ 8)%R by (simpl; lra). unfold Rdiv. lra. }
  assert (Bp : (bpow radix2 (- prec) <= / 2)%R) by (replace (/ 2)%R with (bpow radix2 (-1)) by (simpl; lra); apply bpow_le; lia).
  assert (Pp : (0 < bpow radix2 (- prec))%R) by apply bpow_gt_0.
  assert (Ph : (0 < rv h2)%R) by (rewrite Vh, E1; apply Rabs_def2 in B1; nra).
  destruct (pos_sign0 h2 Fh Ph) as [Rh Sh].
  destruct (mpf_sqrt_round h2 prec r Rh Sh Hp) as [v [Ev Vv]].
  exists v. split; [exact Ev|]. rewrite Vv, Vh. split; [reflexivity|].
  destruct (RND_rel r prec (sqrt (RND RD (prec + 4) S)) Hp) as [e3 [B3 E3]].
  rewrite E3, E1.
  assert (B1' : (Rabs e1 <= bpow radix2 (- prec) / 8)%R) by lra.
  assert (B3' : (Rabs e3 <= 2 * bpow radix2 (- prec))%R).
  { replace (2 * bpow radix2 (- prec))%R with (bpow radix2 (- prec + 1)) by (rewrite bpow_plus; simpl; lra). lra. }
  pose proof (sqrt_rel S e1 ltac:(lra) ltac:(lra)) as SR.
  set (q := sqrt S) in *. assert (Hq : (0 <= q)%R) by apply sqrt_pos.
  set (t := sqrt (S * (1 + e1))) in *.
  apply Rabs_le_inv in SR. apply Rabs_le_inv in B3'. assert (A1 : (0 <= Rabs e1)%R) by apply Rabs_pos.
  assert (T1 : (Rabs (t - q) <= bpow radix2 (- prec) / 8 * q)%R) by (apply Rabs_le; split; nra).
  apply Rabs_le_inv in T1.
  replace (t * (1 + e3) - q)%R with ((t - q) + t * e3)%R by ring.
  assert (Tq : (t <= 2 * q)%R) by nra. assert (T0 : (0 <= t)%R) by (unfold t; apply sqrt_pos).
  apply Rabs_le. split; nra.
Qed.
