(* Termination.v — C24: the stop conditions of the asymptotic-series loops (mpf_psi0, and mpc_psi0 after the fix),
   of the precision-doubling retry loops (hypsum/hypercomb: extraprec -> 2*extraprec + 5 until > maxprec) and of
   giant_steps always fire after a bounded number of iterations, whatever the computed terms are.  Pure Z/nat. *)
From Coq Require Import ZArith List Bool Lia.
Import ListNotations.
Open Scope Z_scope.

(* ---- a loop that stops as soon as the term size stops decreasing (or drops to the threshold) ----
   size k : the measured size of the k-th term, in any totally ordered set embedded in Z by an order-preserving
   measure (integers for mpf_psi0's fixed-point terms; (exponent, 10-bit mantissa) pairs for mpc_psi0, measure
   exponent*1024 + mantissa).  The loop runs k = 1, 2, ... and breaks at the first k > 2 with
   size k <= eps  \/  size k >= size (k-1). *)
Section Series.
  Variable size : nat -> Z.
  Variable eps : Z.

  Definition stops (k : nat) : bool := (2 <? k)%nat && ((size k <=? eps) || (size (k - 1) <=? size k)).

  (* search with fuel *)
  Fixpoint first_stop (fuel : nat) (k : nat) : option nat :=
    match fuel with O => None | S f => if stops k then Some k else first_stop f (S k) end.

  Lemma no_stop_decreasing fuel : forall k, (2 < k)%nat -> first_stop fuel k = None ->
    size (k + fuel - 1) <= size (k - 1) - Z.of_nat fuel /\ (fuel <> O -> eps < size (k + fuel - 1)).
  Proof.
    induction fuel as [|f IH]; intros k Hk H.
    - replace (k + 0 - 1)%nat with (k - 1)%nat by lia. split; [lia|congruence].
    - cbn [first_stop] in H. destruct (stops k) eqn:Es; [discriminate|].
      unfold stops in Es. apply andb_false_iff in Es as [Es|Es]; [apply Nat.ltb_ge in Es; lia|].
      apply orb_false_iff in Es as [E1 E2]. apply Z.leb_gt in E1, E2.
      destruct (IH (S k) ltac:(lia) H) as [I1 I2].
      replace (S k + f - 1)%nat with (k + S f - 1)%nat in * by lia.
      replace (S k - 1)%nat with k in * by lia.
      split; [lia|]. intros _. destruct f as [|f']; [replace (k + 1 - 1)%nat with k by lia; lia|apply I2; discriminate].
  Qed.

  (* the loop stops within  size 2 - eps + 1  iterations after k = 3 *)
  Theorem series_loop_terminates : exists k, (3 <= k <= 3 + Z.to_nat (size 2 - eps))%nat /\ stops k = true.
  Proof.
    set (fuel := S (Z.to_nat (size 2 - eps))).
    destruct (first_stop fuel 3) as [k|] eqn:E.
    - (* found: it is within range *)
      assert (G : forall f k0 k, first_stop f k0 = Some k -> (k0 <= k < k0 + f)%nat /\ stops k = true).
      { induction f as [|f IH]; intros k0 k' H; [discriminate|]. cbn [first_stop] in H.
        destruct (stops k0) eqn:Es; [injection H as <-; split; [lia|exact Es]|].
        destruct (IH (S k0) k' H) as [R S']. split; [lia|exact S']. }
      destruct (G fuel 3%nat k E) as [R S']. exists k. split; [unfold fuel in R; lia|exact S'].
    - exfalso. destruct (no_stop_decreasing fuel 3 ltac:(lia) E) as [I1 I2].
      specialize (I2 ltac:(unfold fuel; discriminate)).
      replace (3 - 1)%nat with 2%nat in I1 by lia. unfold fuel in *. lia.
  Qed.
End Series.

(* ---- precision-doubling retry: extraprec := 2*extraprec + 5 while extraprec <= maxprec ---- *)
Fixpoint doubling (fuel : nat) (x maxp : Z) : option nat :=
  match fuel with O => None | S f => if maxp <? x then Some O else option_map S (doubling f (2 * x + 5) maxp) end.

Lemma doubling_S f x maxp : doubling (S f) x maxp = if maxp <? x then Some O else option_map S (doubling f (2 * x + 5) maxp).
Proof. reflexivity. Qed.

Theorem doubling_terminates x maxp : 0 <= x -> exists n, doubling (S (Z.to_nat (maxp - x + 1))) x maxp = Some n.
Proof.
  intros Hx.
  assert (H : forall fuel x, 0 <= x -> maxp - x < Z.of_nat fuel -> exists n, doubling (S fuel) x maxp = Some n).
  { clear. induction fuel as [|f IH]; intros x Hx Hf; rewrite doubling_S.
    - destruct (Z.ltb_spec maxp x); [exists O; reflexivity|lia].
    - destruct (Z.ltb_spec maxp x); [exists O; reflexivity|].
      destruct (IH (2 * x + 5) ltac:(lia) ltac:(lia)) as [n E]. rewrite E. exists (S n). reflexivity. }
  apply H; [exact Hx|lia].
Qed.

(* ---- giant_steps(start, target, n): L = [target]; while L[-1] > start*n: L.append(L[-1]//n + 2) ---- *)
Fixpoint giant (fuel : nat) (start n last : Z) (acc : list Z) : option (list Z) :=
  match fuel with O => None | S f => if start * n <? last then giant f start n (last / n + 2) (last / n + 2 :: acc) else Some acc end.

Lemma giant_S f start n last acc : giant (S f) start n last acc =
  if start * n <? last then giant f start n (last / n + 2) (last / n + 2 :: acc) else Some acc.
Proof. reflexivity. Qed.

Theorem giant_steps_terminates start target n : 2 <= n -> 2 <= start ->
  exists l, giant (S (Z.to_nat target)) start n target [target] = Some l.
Proof.
  intros Hn Hs.
  assert (H : forall fuel last acc, last <= Z.of_nat fuel -> exists l, giant (S fuel) start n last acc = Some l).
  { induction fuel as [|f IH]; intros last acc Hf; rewrite giant_S.
    - destruct (Z.ltb_spec (start * n) last) as [L|G]; [nia|eexists; reflexivity].
    - destruct (Z.ltb_spec (start * n) last) as [L|G]; [|eexists; reflexivity].
      apply IH.
      assert (4 < last) by nia.
      assert (last / n <= last / 2) by (apply Z.div_le_compat_l; lia).
      assert (N2 : 2 <> 0) by lia. assert (P2 : 0 < 2) by lia.
      pose proof (Z.div_mod last 2 N2). pose proof (Z.mod_pos_bound last 2 P2). lia. }
  apply H. lia.
Qed.
