(* IntPart.v — C06: mpf_round_int / mpf_floor / mpf_ceil / mpf_nint return exactly floor, ceiling and
   round-half-even of the value; frac = x - floor x (correctly rounded when a precision is given). *)
From Coq Require Import ZArith Reals Bool Lia Lra.
From Flocq Require Import Core.
From MP Require Import Algo.Base Algo.Libmpf Algo.Ctxfun Spec.Mpf Spec.Round Proofs.Bits Proofs.Normalize Proofs.Canon
  Proofs.NormRound Proofs.Ops Proofs.Sticky Proofs.AddRound Proofs.Mag Proofs.Format.
Open Scope Z_scope.

Lemma mag_rv x : regular x -> mag radix2 (rv x) = (mexp x + mbc x) :> Z.
Proof.
  intros Hx. destruct (mpf_mag_spec x Hx) as [m [Hm Hb]].
  unfold mpf_mag in Hm. destruct Hx as [_ [S2 _]]. destruct (Z.eqb_spec (mman x) 0); [lia|]. injection Hm as <-.
  apply mag_unique. exact Hb.
Qed.

(* rounding to exactly mag(x) bits is rounding to an integer *)
Lemma RND_mag_bits r x : regular x -> 0 < mexp x + mbc x ->
  RND r (mexp x + mbc x) (rv x) = IZR (Zrnd_of r (rv x)).
Proof.
  intros Hx Hp. unfold RND, round, cexp, FLX_exp. rewrite mag_rv by exact Hx.
  replace (mexp x + mbc x - (mexp x + mbc x)) with 0 by lia.
  unfold scaled_mantissa, cexp, FLX_exp. rewrite mag_rv by exact Hx.
  replace (mexp x + mbc x - (mexp x + mbc x)) with 0 by lia.
  unfold F2R; simpl Fnum; simpl Fexp. simpl (bpow radix2 (- 0)). simpl (bpow radix2 0). rewrite !Rmult_1_r. reflexivity.
Qed.

Lemma rv_pos_neg x : regular x ->
  (msign x = 0 /\ (0 < rv x)%R) \/ (msign x = 1 /\ (rv x < 0)%R).
Proof.
  intros [S1 [S2 _]]. assert (0 < F2R (Float radix2 (mman x) (mexp x)))%R by (apply F2R_gt_0; exact S2).
  unfold rv, sgn. destruct S1 as [E|E]; rewrite E; simpl; [left|right]; split; auto; lra.
Qed.

Lemma regular_fone : regular fone.
Proof. unfold fone, regular; simpl. repeat split; auto; lia. Qed.
Lemma regular_fnone : regular fnone.
Proof. unfold fnone, regular; simpl. repeat split; auto; lia. Qed.

Lemma ZnearestE_half_pos : ZnearestE (/ 2) = 0.
Proof.
  unfold ZnearestE, Znearest.
  assert (Zfloor (/ 2) = 0) as -> by (apply Zfloor_imp; simpl; lra).
  simpl (IZR 0). rewrite Rminus_0_r. rewrite Rcompare_Eq by reflexivity. reflexivity.
Qed.

Lemma ZnearestE_half_neg : ZnearestE (- / 2) = 0.
Proof.
  unfold ZnearestE, Znearest.
  assert (Zfloor (- / 2) = -1) as -> by (apply Zfloor_imp; simpl; lra).
  replace (- / 2 - IZR (-1))%R with (/ 2)%R by (simpl; lra). rewrite Rcompare_Eq by reflexivity.
  simpl. apply Zceil_imp. simpl. lra.
Qed.

Theorem mpf_round_int_spec s r : regular s -> (r = RF \/ r = RC \/ r = RN) ->
  exists v, mpf_round_int s r = Ok v /\ rv v = IZR (Zrnd_of r (rv s)) /\ fincanon v.
Proof.
  intros Hs Hr. pose proof Hs as [S1 [S2 [S3 S4]]]. unfold mpf_round_int.
  destruct s as [sign man exp bc]; cbn [msign mman mexp mbc] in *.
  rewrite regular_not_special by exact Hs.
  destruct (Z.leb_spec 0 exp) as [He|He].
  - (* already an integer *)
    eexists. split; [reflexivity|]. split; [|right; exact Hs].
    set (n := (if sign =? 0 then 1 else -1) * (man * 2 ^ exp)).
    assert (Hv : rv (Mpf sign man exp bc) = IZR n).
    { unfold rv, sgn, n; cbn [msign mman mexp]. unfold F2R; simpl Fnum; simpl Fexp.
      rewrite mult_IZR, mult_IZR, IZR_pow2 by lia. destruct (sign =? 0); simpl; ring. }
    rewrite Hv. f_equal. symmetry.
    destruct r; cbn [Zrnd_of]; try (exfalso; destruct Hr as [H|[H|H]]; discriminate).
    + apply Znearest_imp. unfold Rminus. rewrite Rplus_opp_r, Rabs_R0. lra.
    + apply Zfloor_IZR.
    + apply Zceil_IZR.
  - destruct (mpf_mag_spec _ Hs) as [m [Hm [B1 B2]]].
    unfold mpf_mag in Hm. cbn [mman mexp mbc] in Hm. destruct (Z.eqb_spec man 0); [lia|]. injection Hm as <-.
    set (x := rv (Mpf sign man exp bc)) in *.
    destruct (Z.ltb_spec (exp + bc) 1) as [Hsmall|Hbig].
    + (* |x| < 1 *)
      assert (Hlt1 : (Rabs x < 1)%R).
      { apply Rlt_le_trans with (1 := B2). change 1%R with (bpow radix2 0). apply bpow_le. lia. }
      destruct (rv_pos_neg _ Hs) as [[Es Hx]|[Es Hx]]; fold x in Hx; cbn [msign] in Es; subst sign; cbn [Z.eqb].
      * rewrite Rabs_pos_eq in Hlt1, B1, B2 by lra.
        destruct r; try (exfalso; destruct Hr as [H|[H|H]]; discriminate).
        -- (* nearest *)
           destruct ((exp + bc <? 0) || (man =? 1)) eqn:Ez.
           ++ eexists. split; [reflexivity|]. split; [|left; reflexivity]. rewrite rv_fzero. f_equal. symmetry. cbn [Zrnd_of].
              apply orb_prop in Ez as [Ez|Ez].
              ** apply Z.ltb_lt in Ez. apply Znearest_imp. simpl (IZR 0). rewrite Rminus_0_r, Rabs_pos_eq by lra.
                 apply Rlt_le_trans with (1 := B2). change (/ 2)%R with (bpow radix2 (-1)). apply bpow_le. lia.
              ** apply Z.eqb_eq in Ez. subst man. simpl in S4. subst bc.
                 destruct (Z.eq_dec exp (-1)) as [->|Hne].
                 --- assert (x = / 2)%R as -> by (unfold x, rv, sgn, F2R; simpl; lra). apply ZnearestE_half_pos.
                 --- apply Znearest_imp. simpl (IZR 0). rewrite Rminus_0_r, Rabs_pos_eq by lra.
                     apply Rlt_le_trans with (1 := B2). change (/ 2)%R with (bpow radix2 (-1)). apply bpow_le. lia.
           ++ apply orb_false_elim in Ez as [E1 E2]. apply Z.ltb_ge in E1. assert (exp + bc = 0) by lia.
              eexists. split; [reflexivity|]. split; [|right; exact regular_fone].
              assert (rv fone = 1%R) as -> by (unfold rv, sgn, F2R; simpl; lra).
              f_equal. symmetry. cbn [Zrnd_of]. apply Znearest_imp. simpl (IZR 1).
              (* x in (1/2, 1): x > 1/2 strictly because man <> 1 *)
              assert (Hgt : (/ 2 < x)%R).
              { replace (exp + bc - 1) with (-1) in B1 by lia. simpl (bpow radix2 (-1)) in B1.
                destruct (Rle_lt_or_eq_dec _ _ B1) as [L|E]; [simpl in L; lra|exfalso].
                apply Z.eqb_neq in E2. apply E2.
                assert (Hx' : x = F2R (Float radix2 man exp)) by (unfold x, rv, sgn; simpl; ring).
                assert (F2R (Float radix2 man exp) = F2R (Float radix2 1 (-1))) by (rewrite <- Hx', <- E; unfold F2R; simpl; lra).
                apply F2R_eq_Z in H0.
                assert (Z.min exp (-1) = exp) by lia. rewrite H1 in H0. replace (exp - exp) with 0 in H0 by lia.
                simpl (2 ^ 0) in H0. rewrite Z.mul_1_r in H0. rewrite H0 in S3.
                destruct (Z.eq_dec (-1 - exp) 0) as [E0|N0]; [rewrite E0 in H0; simpl in H0; lia|].
                rewrite Z.mul_1_l, Z.odd_pow in S3 by lia. discriminate. }
              rewrite Rabs_left1 by lra. lra.
        -- eexists. split; [reflexivity|]. split; [|left; reflexivity]. rewrite rv_fzero. f_equal. symmetry. cbn [Zrnd_of].
           apply Zfloor_imp. simpl. lra.
        -- eexists. split; [reflexivity|]. split; [|right; exact regular_fone].
           assert (rv fone = 1%R) as -> by (unfold rv, sgn, F2R; simpl; lra).
           f_equal. symmetry. cbn [Zrnd_of]. apply Zceil_imp. simpl. lra.
      * rewrite Rabs_left in Hlt1, B1, B2 by lra.
        destruct r; try (exfalso; destruct Hr as [H|[H|H]]; discriminate).
        -- destruct ((exp + bc <? 0) || (man =? 1)) eqn:Ez.
           ++ eexists. split; [reflexivity|]. split; [|left; reflexivity]. rewrite rv_fzero. f_equal. symmetry. cbn [Zrnd_of].
              apply orb_prop in Ez as [Ez|Ez].
              ** apply Z.ltb_lt in Ez. apply Znearest_imp. simpl (IZR 0). rewrite Rminus_0_r, Rabs_left by lra.
                 apply Rlt_le_trans with (1 := B2). change (/ 2)%R with (bpow radix2 (-1)). apply bpow_le. lia.
              ** apply Z.eqb_eq in Ez. subst man. simpl in S4. subst bc.
                 destruct (Z.eq_dec exp (-1)) as [->|Hne].
                 --- assert (x = - / 2)%R as -> by (unfold x, rv, sgn, F2R; simpl; lra). apply ZnearestE_half_neg.
                 --- apply Znearest_imp. simpl (IZR 0). rewrite Rminus_0_r, Rabs_left by lra.
                     apply Rlt_le_trans with (1 := B2). change (/ 2)%R with (bpow radix2 (-1)). apply bpow_le. lia.
           ++ apply orb_false_elim in Ez as [E1 E2]. apply Z.ltb_ge in E1. assert (exp + bc = 0) by lia.
              eexists. split; [reflexivity|]. split; [|right; exact regular_fnone].
              assert (rv fnone = (-1)%R) as -> by (unfold rv, sgn, F2R; simpl; lra).
              f_equal. symmetry. cbn [Zrnd_of]. apply Znearest_imp. simpl (IZR (-1)).
              assert (Hgt : (/ 2 < - x)%R).
              { replace (exp + bc - 1) with (-1) in B1 by lia. simpl (bpow radix2 (-1)) in B1.
                destruct (Rle_lt_or_eq_dec _ _ B1) as [L|E]; [simpl in L; lra|exfalso].
                apply Z.eqb_neq in E2. apply E2.
                assert (Hx' : (- x)%R = F2R (Float radix2 man exp)) by (unfold x, rv, sgn; simpl; ring).
                assert (F2R (Float radix2 man exp) = F2R (Float radix2 1 (-1))) by (rewrite <- Hx', <- E; unfold F2R; simpl; lra).
                apply F2R_eq_Z in H0.
                assert (Z.min exp (-1) = exp) by lia. rewrite H1 in H0. replace (exp - exp) with 0 in H0 by lia.
                simpl (2 ^ 0) in H0. rewrite Z.mul_1_r in H0. rewrite H0 in S3.
                destruct (Z.eq_dec (-1 - exp) 0) as [E0|N0]; [rewrite E0 in H0; simpl in H0; lia|].
                rewrite Z.mul_1_l, Z.odd_pow in S3 by lia. discriminate. }
              rewrite Rabs_pos_eq by lra. lra.
        -- eexists. split; [reflexivity|]. split; [|right; exact regular_fnone].
           assert (rv fnone = (-1)%R) as -> by (unfold rv, sgn, F2R; simpl; lra).
           f_equal. symmetry. cbn [Zrnd_of]. apply Zfloor_imp. simpl. lra.
        -- eexists. split; [reflexivity|]. split; [|left; reflexivity]. rewrite rv_fzero. f_equal. symmetry. cbn [Zrnd_of].
           apply Zceil_imp. simpl. lra.
    + (* |x| >= 1: round to mag bits *)
      assert (Hmin : Z.min bc (exp + bc) = exp + bc) by lia. rewrite Hmin.
      eexists. split; [reflexivity|]. split.
      * rewrite mpf_pos_round by (try (right; exact Hs); lia).
        pose proof (RND_mag_bits r _ Hs) as H. cbn [mexp mbc] in H. apply H. lia.
      * apply mpf_pos_fincanon; [right; exact Hs|lia].
Qed.

Lemma round_int_fzero r : mpf_round_int fzero r = Ok fzero.
Proof. reflexivity. Qed.

Theorem mpf_round_int_fin s r : fincanon s -> (r = RF \/ r = RC \/ r = RN) ->
  exists v, mpf_round_int s r = Ok v /\ rv v = IZR (Zrnd_of r (rv s)) /\ fincanon v.
Proof.
  intros [->|Hs] Hr; [|apply mpf_round_int_spec; assumption].
  exists fzero. split; [reflexivity|]. split; [|left; reflexivity]. rewrite rv_fzero. f_equal. symmetry.
  destruct Hr as [->|[->| ->]]; cbn [Zrnd_of].
  - change 0%R with (IZR 0). apply Zfloor_IZR.
  - change 0%R with (IZR 0). apply Zceil_IZR.
  - apply Znearest_imp. simpl. rewrite Rminus_0_r, Rabs_R0. lra.
Qed.

(* floor / ceil / nint: the exact integer with prec = 0, its correct rounding otherwise *)
Theorem mpf_floor_spec s prec r : fincanon s -> 0 <= prec ->
  exists v, mpf_floor s prec r = Ok v /\
    rv v = (if prec =? 0 then IZR (Zfloor (rv s)) else RND r prec (IZR (Zfloor (rv s)))).
Proof.
  intros Hs Hp. unfold mpf_floor. destruct (mpf_round_int_fin s RF Hs ltac:(auto)) as [v [E [V F]]].
  rewrite E. cbn [bind]. eexists. split; [reflexivity|].
  destruct (Z.eqb_spec prec 0); [exact V|]. rewrite mpf_pos_round by (auto; lia). rewrite V. reflexivity.
Qed.

Theorem mpf_ceil_spec s prec r : fincanon s -> 0 <= prec ->
  exists v, mpf_ceil s prec r = Ok v /\
    rv v = (if prec =? 0 then IZR (Zceil (rv s)) else RND r prec (IZR (Zceil (rv s)))).
Proof.
  intros Hs Hp. unfold mpf_ceil. destruct (mpf_round_int_fin s RC Hs ltac:(auto)) as [v [E [V F]]].
  rewrite E. cbn [bind]. eexists. split; [reflexivity|].
  destruct (Z.eqb_spec prec 0); [exact V|]. rewrite mpf_pos_round by (auto; lia). rewrite V. reflexivity.
Qed.

Theorem mpf_nint_spec s prec r : fincanon s -> 0 <= prec ->
  exists v, mpf_nint s prec r = Ok v /\
    rv v = (if prec =? 0 then IZR (ZnearestE (rv s)) else RND r prec (IZR (ZnearestE (rv s)))).
Proof.
  intros Hs Hp. unfold mpf_nint. destruct (mpf_round_int_fin s RN Hs ltac:(auto)) as [v [E [V F]]].
  rewrite E. cbn [bind]. eexists. split; [reflexivity|].
  destruct (Z.eqb_spec prec 0); [exact V|]. rewrite mpf_pos_round by (auto; lia). rewrite V. reflexivity.
Qed.

(* frac(x) = x - floor(x), correctly rounded; it lies in [0, 1) before rounding *)
Theorem mpf_frac_spec s prec r : fincanon s -> 0 < prec ->
  exists v, mpf_frac s prec r = Ok v /\ rv v = RND r prec (rv s - IZR (Zfloor (rv s))) /\
    (0 <= rv s - IZR (Zfloor (rv s)) < 1)%R.
Proof.
  intros Hs Hp. unfold mpf_frac. destruct (mpf_floor_spec s 0 RD Hs ltac:(lia)) as [v [E V]].
  rewrite E. cbn [bind]. cbn [Z.eqb] in V.
  assert (Fv : fincanon v).
  { unfold mpf_floor in E. destruct (mpf_round_int_fin s RF Hs ltac:(auto)) as [v' [E' [_ F']]]. rewrite E' in E.
    cbn [bind Z.eqb] in E. injection E as <-. exact F'. }
  eexists. split; [reflexivity|]. split.
  - rewrite mpf_sub_round by auto. rewrite V. reflexivity.
  - pose proof (Zfloor_lb (rv s)). pose proof (Zfloor_ub (rv s)). lra.
Qed.
