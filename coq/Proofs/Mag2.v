(* Mag2.v — C39: frexp returns (m, e) with x = m * 2^e and 1/2 <= |m| < 1; isnpint characterises the non-positive integers. *)
From Coq Require Import ZArith Reals Bool Lia Lra.
From Flocq Require Import Core.
From MP Require Import Algo.Base Algo.Libmpf Algo.Ctxfun Spec.Mpf Spec.Round Proofs.Bits Proofs.NormRound Proofs.Ops Proofs.Mag.
Open Scope Z_scope.

Theorem mpf_frexp_spec x : regular x ->
  exists m e, mpf_frexp x = Ok (m, e) /\ regular m /\ rv x = (rv m * bpow radix2 e)%R /\ (/ 2 <= Rabs (rv m) < 1)%R.
Proof.
  intros Hx. pose proof Hx as [S1 [S2 [S3 S4]]]. unfold mpf_frexp.
  destruct (Z.eqb_spec (mman x) 0); [lia|].
  destruct (ldexp_exact x (- mbc x - mexp x) Hx) as [V R]. unfold ctx_ldexp in V, R.
  eexists _, _. split; [reflexivity|]. split; [exact R|]. split.
  - rewrite V. rewrite Rmult_assoc, <- bpow_plus. replace (- mbc x - mexp x + (mbc x + mexp x)) with 0 by lia. simpl. ring.
  - rewrite V, Rabs_mult, (Rabs_pos_eq (bpow radix2 _)) by apply bpow_ge_0.
    destruct (mpf_mag_spec x Hx) as [m [Em [M1 M2]]]. unfold mpf_mag in Em. destruct (Z.eqb_spec (mman x) 0); [lia|].
    injection Em as <-.
    assert (P : (0 < bpow radix2 (- mbc x - mexp x))%R) by apply bpow_gt_0.
    split.
    + apply Rle_trans with (bpow radix2 (mexp x + mbc x - 1) * bpow radix2 (- mbc x - mexp x))%R.
      * rewrite <- bpow_plus. replace (mexp x + mbc x - 1 + (- mbc x - mexp x)) with (-1) by lia. simpl. lra.
      * apply Rmult_le_compat_r; lra.
    + apply Rlt_le_trans with (bpow radix2 (mexp x + mbc x) * bpow radix2 (- mbc x - mexp x))%R.
      * apply Rmult_lt_compat_r; lra.
      * rewrite <- bpow_plus. replace (mexp x + mbc x + (- mbc x - mexp x)) with 0 by lia. simpl. lra.
Qed.

Theorem mpf_isnpint_spec x : regular x -> (mpf_isnpint x = true <-> exists n : Z, n <= 0 /\ rv x = IZR n).
Proof.
  intros Hx. pose proof Hx as [S1 [S2 [S3 S4]]]. unfold mpf_isnpint.
  assert (mpf_eqb x fzero = false) as ->.
  { apply Bool.not_true_is_false. rewrite mpf_eqb_eq. intros ->. simpl in S2. lia. }
  pose proof (mpf_isint_spec x Hx) as II. unfold mpf_isint in II.
  destruct (Z.eqb_spec (mman x) 0) as [|Hnz]; [lia|]. cbn [negb andb] in II.
  assert (mpf_eqb x fzero = false) as E0.
  { apply Bool.not_true_is_false. rewrite mpf_eqb_eq. intros ->. simpl in S2. lia. }
  rewrite E0, orb_false_r in II.
  assert (Pos : (0 < F2R (Float radix2 (mman x) (mexp x)))%R) by (apply F2R_gt_0; exact S2).
  split.
  - intros H. apply andb_true_iff in H as [H1 H2]. apply II in H2 as [n Hn].
    exists n. split; [|exact Hn]. apply negb_true_iff in H1. apply Z.eqb_neq in H1.
    assert (msign x = 1) as Sg by lia.
    assert (rv x < 0)%R by (unfold rv, sgn; rewrite Sg; cbn [Z.eqb]; lra).
    rewrite Hn in H. apply lt_IZR in H. lia.
  - intros [n [Hn Vn]]. apply andb_true_iff. split.
    + apply negb_true_iff. apply Z.eqb_neq. intros Sg.
      assert (0 < rv x)%R by (unfold rv, sgn; rewrite Sg; cbn [Z.eqb]; lra).
      rewrite Vn in H. apply lt_IZR in H. lia.
    + apply II. exists n. exact Vn.
Qed.
