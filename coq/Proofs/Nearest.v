(* Nearest.v — the nearest-even bit test of round_int/normalize equals round-half-even of
   m / 2^n expressed with quotient and remainder.  Pure Z. *)
From Coq Require Import ZArith Bool Lia.
From MP Require Import Algo.Base Algo.Libmpf Proofs.Bits.
Open Scope Z_scope.

Definition nearest_even_qr (m n : Z) : Z :=
  let q := m / 2 ^ n in
  let rr := m mod 2 ^ n in
  let h := 2 ^ (n - 1) in
  if (h <? rr) || ((rr =? h) && Z.odd q) then q + 1 else q.

Lemma round_nearest_shift_spec m n : 0 < n -> round_nearest_shift m n = nearest_even_qr m n.
Proof.
  intros Hn. unfold round_nearest_shift, nearest_even_qr.
  set (h := 2 ^ (n - 1)).
  assert (Hh : 0 < h) by (apply Z.pow_pos_nonneg; lia).
  assert (H2n : 2 ^ n = 2 * h).
  { unfold h. replace n with (1 + (n - 1)) at 1 by lia. rewrite Z.pow_add_r by lia. reflexivity. }
  rewrite H2n.
  assert (Et : Z.shiftr m (n - 1) = m / h) by (rewrite Z.shiftr_div_pow2 by lia; reflexivity).
  rewrite Et.
  assert (Eq : Z.shiftr (m / h) 1 = m / (2 * h)).
  { rewrite Z.shiftr_div_pow2 by lia. change (2 ^ 1) with 2. rewrite Z.div_div by lia. f_equal. lia. }
  rewrite Eq.
  assert (El : Z.land m (Z.shiftl 1 (n - 1) - 1) = m mod h).
  { rewrite Z.shiftl_1_l. fold h. replace (h - 1) with (Z.ones (n - 1)) by (rewrite Z.ones_equiv; unfold h; lia).
    apply Z.land_ones. lia. }
  rewrite El.
  set (q := m / (2 * h)). set (rr := m mod (2 * h)).
  assert (Hdm : m = (2 * h) * q + rr) by (apply Z.div_mod; lia).
  assert (Hrr : 0 <= rr < 2 * h) by (apply Z.mod_pos_bound; lia).
  (* m / h = 2 q + (rr / h) *)
  assert (Hrh : rr / h = 0 /\ rr < h \/ rr / h = 1 /\ h <= rr).
  { destruct (Z_lt_le_dec rr h).
    - left. split; [apply Z.div_small; lia|lia].
    - right. split; [|lia]. symmetry. apply Z.div_unique with (r := rr - h); lia. }
  assert (Hmh : m / h = 2 * q + rr / h).
  { rewrite Hdm at 1. replace (2 * h * q + rr) with (rr + (2 * q) * h) by ring.
    rewrite Z.div_add by lia. lia. }
  assert (Hmm : m mod h = rr mod h).
  { rewrite Hdm at 1. replace (2 * h * q + rr) with (rr + (2 * q) * h) by ring.
    apply Z.mod_add. lia. }
  assert (Ht1 : Z.testbit (m / h) 1 = Z.odd q).
  { rewrite Z.testbit_odd. rewrite Z.shiftr_div_pow2 by lia. change (2 ^ 1) with 2.
    rewrite Hmh. f_equal. destruct Hrh as [[-> _]|[-> _]].
    - rewrite Z.add_0_r, Z.mul_comm. apply Z.div_mul. lia.
    - rewrite Z.add_comm, Z.mul_comm. rewrite Z.div_add by lia. reflexivity. }
  rewrite Ht1, Hmh, Hmm.
  destruct Hrh as [[E Hlt]|[E Hge]]; rewrite E.
  - (* rr < h : t even *)
    rewrite Z.add_0_r. rewrite Z.odd_mul. cbn [Z.odd andb].
    destruct (Z.ltb_spec h rr); [lia|]. destruct (Z.eqb_spec rr h); [lia|]. reflexivity.
  - (* h <= rr : t odd *)
    assert (Z.odd (2 * q + 1) = true) as -> by (rewrite Z.add_comm, Z.odd_add_mul_2; reflexivity).
    assert (Hm2 : rr mod h = rr - h).
    { symmetry. apply Z.mod_unique with (q := 1); lia. }
    rewrite Hm2. cbn [andb].
    destruct (Z.ltb_spec h rr); destruct (Z.eqb_spec rr h); destruct (Z.eqb_spec (rr - h) 0);
      try lia; cbn [orb andb negb]; try reflexivity.
    + rewrite orb_true_r. reflexivity.
    + rewrite orb_false_r. destruct (Z.odd q); reflexivity.
Qed.
