(* CplxSqrtReal.v — C04: the complex square root on the real axis is the correctly rounded real square root: sqrt(a) for
   a > 0 and i*sqrt(-a) for a < 0, in every rounding mode. *)
From Coq Require Import ZArith Reals Bool Lia Lra.
From Flocq Require Import Core.
From MP Require Import Algo.Base Algo.Libmpf Algo.Libmpc Spec.Mpf Spec.Round Proofs.NormRound Proofs.Ops Proofs.SqrtRound Proofs.Cmp Proofs.IntPart.
Open Scope Z_scope.

Lemma neg_regular a : regular a -> msign a = 1 ->
  regular (mpf_neg a 0 RD) /\ msign (mpf_neg a 0 RD) = 0 /\ rv (mpf_neg a 0 RD) = (- rv a)%R.
Proof.
  intros Ha S. pose proof Ha as [S1 [S2 [S3 S4]]].
  split; [|split; [|apply mpf_neg_exact; right; exact Ha]].
  - unfold mpf_neg. destruct a as [sign man exp bc]. cbn [msign mman mexp mbc] in *. subst sign.
    destruct (Z.eqb_spec man 0); [lia|]. cbn. unfold regular; cbn [msign mman mexp mbc]. auto.
  - unfold mpf_neg. destruct a as [sign man exp bc]. cbn [msign mman mexp mbc] in *. subst sign.
    destruct (Z.eqb_spec man 0); [lia|]. reflexivity.
Qed.

Theorem mpc_sqrt_real_pos a prec r : regular a -> msign a = 0 -> 0 < prec ->
  exists y, mpc_sqrt (a, fzero) prec r = Ok (y, fzero) /\ rv y = RND r prec (sqrt (rv a)).
Proof.
  intros Ha S Hp. unfold mpc_sqrt. cbn [mpf_eqb fzero msign mman mexp mbc Z.eqb andb].
  rewrite (regular_not_fzero a Ha). rewrite S. cbn [Z.eqb negb].
  destruct (mpf_sqrt_round a prec r Ha S Hp) as [y [E V]]. rewrite E. cbn [bind]. exists y. split; [reflexivity|exact V].
Qed.

Theorem mpc_sqrt_real_neg a prec r : regular a -> msign a = 1 -> 0 < prec ->
  exists y, mpc_sqrt (a, fzero) prec r = Ok (fzero, y) /\ rv y = RND r prec (sqrt (- rv a)).
Proof.
  intros Ha S Hp. unfold mpc_sqrt. cbn [mpf_eqb fzero msign mman mexp mbc Z.eqb andb].
  rewrite (regular_not_fzero a Ha). rewrite S. cbn [Z.eqb negb].
  destruct (neg_regular a Ha S) as [Rn [Sn Vn]].
  destruct (mpf_sqrt_round _ prec r Rn Sn Hp) as [y [E V]]. rewrite E. cbn [bind]. exists y. split; [reflexivity|].
  rewrite V, Vn. reflexivity.
Qed.
