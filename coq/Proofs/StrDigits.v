(* StrDigits.v — facts about decimal printing (C08). Pure Z. *)
From Coq Require Import ZArith List Bool Lia.
From MP Require Import Algo.Base Algo.Libmpf Algo.Str Proofs.Bits.
Import ListNotations.
Open Scope Z_scope.

(* repr_dps digits always suffice to identify a p-bit number: 10^(repr_dps p - 1) > 2^p.
   Finite sweep (the bound is part of the statement), decided by vm_compute. *)
Definition repr_ok (p : Z) : bool := 2 ^ p <? 10 ^ (repr_dps p - 1).
Definition NSWEEP : nat := Z.to_nat 3000.
Definition sweep_fun (k : nat) : bool := repr_ok (Z.of_nat (S k)).

Lemma sweep_ok : forallb sweep_fun (seq 0 NSWEEP) = true.
Proof. vm_compute. reflexivity. Qed.

Theorem repr_dps_sufficient p : 1 <= p <= 3000 -> 2 ^ p < 10 ^ (repr_dps p - 1).
Proof.
  intros Hp.
  assert (Hin : In (Z.to_nat (p - 1)) (seq 0 NSWEEP)).
  { apply in_seq. split; [apply Nat.le_0_l|]. rewrite Nat.add_0_l. unfold NSWEEP.
    apply Z2Nat.inj_lt; lia. }
  pose proof (proj1 (forallb_forall sweep_fun (seq 0 NSWEEP)) sweep_ok _ Hin) as Hall.
  unfold sweep_fun, repr_ok in Hall.
  assert (E : Z.of_nat (S (Z.to_nat (p - 1))) = p) by (rewrite Nat2Z.inj_succ, Z2Nat.id; lia).
  rewrite E in Hall. apply Z.ltb_lt. exact Hall.
Qed.

(* when the mantissa fits in bitprec bits, the binary fixed-point conversion loses nothing and the decimal
   digit integer is exactly floor(x * 10^fixdps), x = man * 2^exp *)
Theorem to_digits_exact man exp bc bitprec fixdps :
  0 < man -> bc = bitcount man -> bc <= bitprec -> 0 <= fixdps -> exp < 0 -> 0 <= bitprec - exp - bc ->
  let sd := fst (to_digits_core man exp bc bitprec fixdps) in
  sd * 2 ^ (- exp) <= man * 10 ^ fixdps < (sd + 1) * 2 ^ (- exp).
Proof.
  intros Hm Hb Hfit Hd He Hfp sd. unfold sd, to_digits_core, to_fixed. cbn [fst msign mman mexp mbc Z.eqb].
  rewrite Z.max_l by lia. set (fixprec := bitprec - exp - bc).
  assert (Hoff : 0 <= exp + fixprec) by (unfold fixprec; lia).
  destruct (Z.leb_spec 0 (exp + fixprec)); [|lia].
  rewrite Z.shiftl_mul_pow2 by lia. rewrite Z.shiftr_div_pow2 by (unfold fixprec; lia).
  set (T := 10 ^ fixdps). assert (HT : 0 < T) by (apply Z.pow_pos_nonneg; lia).
  replace (2 ^ fixprec) with (2 ^ (exp + fixprec) * 2 ^ (- exp)).
  2:{ rewrite <- Z.pow_add_r by lia. f_equal. lia. }
  set (A := 2 ^ (exp + fixprec)). assert (HA : 0 < A) by (apply Z.pow_pos_nonneg; lia).
  set (B := 2 ^ (- exp)). assert (HB : 0 < B) by (apply Z.pow_pos_nonneg; lia).
  replace (man * A * T) with ((man * T) * A) by ring.
  rewrite (Z.mul_comm A B). rewrite Z.div_mul_cancel_r by lia.
  pose proof (Z.div_mod (man * T) B ltac:(lia)). pose proof (Z.mod_pos_bound (man * T) B HB). nia.
Qed.
