(* Pickle.v — C40: the hex encoding used by to_pickable / from_pickable is a bijection on tuples:
   from_pickable (to_pickable x) = x for every tuple with a non-negative mantissa (all canonical values,
   including the special encodings).  Pure Z / lists. *)
From Coq Require Import ZArith List Bool Lia.
From MP Require Import Algo.Base Algo.Libmpf Algo.Ctxfun Spec.Mpf.
Import ListNotations.
Open Scope Z_scope.

Lemma of_hex_app acc ds : fold_left (fun a d => a * 16 + d) ds acc = acc * 16 ^ Z.of_nat (length ds) + of_hex ds.
Proof.
  unfold of_hex. revert acc. induction ds as [|d r IH]; intros acc.
  - simpl. lia.
  - cbn [fold_left length]. rewrite IH. rewrite (IH (0 * 16 + d)).
    rewrite Nat2Z.inj_succ, Z.pow_succ_r by lia. ring.
Qed.

Lemma of_hex_cons d ds : of_hex (d :: ds) = d * 16 ^ Z.of_nat (length ds) + of_hex ds.
Proof. unfold of_hex at 1. cbn [fold_left]. rewrite of_hex_app. ring. Qed.

(* value of digits-so-far: hex_digits_pos fuel n acc represents n * 16^|acc| + value(acc) *)
Lemma hex_digits_value fuel : forall n acc, 0 <= n -> n < 16 ^ Z.of_nat fuel ->
  of_hex (hex_digits_pos fuel n acc) = n * 16 ^ Z.of_nat (length acc) + of_hex acc.
Proof.
  induction fuel as [|f IH]; intros n acc Hn Hb.
  - simpl in Hb. assert (n = 0) by lia. subst. simpl. lia.
  - cbn [hex_digits_pos]. destruct (Z.ltb_spec n 16) as [L|G].
    + rewrite of_hex_cons. reflexivity.
    + rewrite IH.
      * cbn [length]. rewrite Nat2Z.inj_succ, Z.pow_succ_r by lia. rewrite of_hex_cons.
        assert (N16 : 16 <> 0) by lia. pose proof (Z.div_mod n 16 N16) as Hdm.
        set (q := n / 16) in *. set (rr := n mod 16) in *. clearbody q rr. rewrite Hdm. ring.
      * apply Z.div_pos; lia.
      * rewrite Nat2Z.inj_succ, Z.pow_succ_r in Hb by lia. apply Z.div_lt_upper_bound; lia.
Qed.

Lemma log2_fuel n : 0 < n -> n < 16 ^ Z.of_nat (S (Z.to_nat (Z.log2 n))).
Proof.
  intros Hn. pose proof (Z.log2_spec n Hn) as [_ H]. pose proof (Z.log2_nonneg n).
  apply Z.lt_le_trans with (1 := H).
  rewrite Nat2Z.inj_succ, Z2Nat.id by lia.
  apply Z.le_trans with (2 ^ (4 * Z.succ (Z.log2 n))); [apply Z.pow_le_mono_r; lia|].
  rewrite Z.pow_mul_r by lia. change (2 ^ 4) with 16. lia.
Qed.

Theorem hex_roundtrip n : 0 <= n -> of_hex (to_hex n) = n.
Proof.
  intros Hn. unfold to_hex. destruct (Z.eq_dec n 0) as [->|Hne]; [reflexivity|].
  rewrite hex_digits_value; [simpl; unfold of_hex; simpl; lia|lia|apply log2_fuel; lia].
Qed.

Theorem from_to_pickable x : 0 <= mman x -> from_pickable (to_pickable x) = x.
Proof.
  intros H. destruct x as [s m e b]. unfold to_pickable, from_pickable; cbn [msign mman mexp mbc] in *.
  rewrite hex_roundtrip by exact H. reflexivity.
Qed.

Corollary pickle_canonical x : canonical x -> from_pickable (to_pickable x) = x.
Proof.
  intros H. apply from_to_pickable. destruct H as [->|[->|[->|[->|[_ [H _]]]]]]; simpl; lia.
Qed.
