(* Normalize.v — canonicity (C01) and precision bound (C10) of normalize/normalize1/from_man_exp.
   Pure Z; no axioms. *)
From Coq Require Import ZArith List Bool Lia.
From MP Require Import Algo.Base Algo.Libmpf Spec.Mpf Proofs.Bits.
Open Scope Z_scope.

Lemma round_nearest_shift_cases x n : 0 < n ->
  round_nearest_shift x n = Z.shiftr x n \/ round_nearest_shift x n = Z.shiftr x n + 1.
Proof.
  intros Hn. unfold round_nearest_shift.
  assert (Z.shiftr (Z.shiftr x (n - 1)) 1 = Z.shiftr x n) as ->.
  { rewrite Z.shiftr_shiftr by lia. f_equal. lia. }
  destruct (_ && _); auto.
Qed.

Lemma round_mant_range sign man n prec r :
  0 < man -> 0 < prec -> n = bitcount man - prec -> 0 < n ->
  2 ^ (prec - 1) <= round_mant sign man n r <= 2 ^ prec.
Proof.
  intros Hm Hp Hn Hn0.
  pose proof (shiftr_range man (bitcount man) n Hm eq_refl ltac:(lia)) as Hs.
  pose proof (ceil_shift_range man (bitcount man) n Hm eq_refl ltac:(lia)) as Hc.
  replace (bitcount man - n - 1) with (prec - 1) in * by lia.
  replace (bitcount man - n) with prec in * by lia.
  unfold round_mant. destruct r.
  - destruct (round_nearest_shift_cases man n Hn0) as [-> | ->]; lia.
  - destruct (shifts_down RF sign); lia.
  - destruct (shifts_down RC sign); lia.
  - destruct (shifts_down RD sign); lia.
  - destruct (shifts_down RU sign); lia.
Qed.

(* what [finish] needs of its input: the recorded bit count is exact, or the mantissa is the
   power of two produced by a carry out of the top bit (the "man == 1 -> bc = 1" repair) *)
Definition bc_ok (man bc : Z) : Prop := bc = bitcount man \/ (0 <= bc /\ man = 2 ^ bc).

Lemma strip_trailing_spec man exp bc : 0 < man ->
  let '(m', e', b') := strip_trailing man exp bc in
  exists t, 0 <= t /\ man = m' * 2 ^ t /\ Z.odd m' = true /\ 0 < m' /\ e' = exp + t /\ b' = bc - t.
Proof.
  intros Hm. unfold strip_trailing. destruct (Z.even man) eqn:He.
  - pose proof (shiftr_trailing man Hm) as H. cbv zeta in H. destruct H as [H1 [H2 H3]].
    exists (trailing man). pose proof (trailing_nonneg man). auto 10.
  - exists 0. rewrite Z.mul_1_r. rewrite <- Z.negb_even, He. auto 10 with zarith.
Qed.

Lemma odd_pow2_is_1 m t k : Z.odd m = true -> 0 < m -> 0 <= t -> 0 <= k -> m * 2 ^ t = 2 ^ k -> m = 1.
Proof.
  intros Ho Hm Ht Hk H.
  destruct (Z_lt_le_dec k t) as [Hlt|Hle].
  - (* 2^k < 2^t <= m*2^t *)
    assert (2 ^ k < 2 ^ t) by (apply Z.pow_lt_mono_r; lia). nia.
  - replace k with ((k - t) + t) in H by lia. rewrite Z.pow_add_r in H by lia.
    assert (0 < 2 ^ t) by (apply Z.pow_pos_nonneg; lia).
    assert (m = 2 ^ (k - t)) by nia.
    destruct (Z.eq_dec (k - t) 0) as [E|E]; [rewrite E in *; simpl in *; lia|].
    exfalso. subst m. rewrite Z.odd_pow in Ho by lia. discriminate.
Qed.

Lemma finish_regular sign man exp bc :
  (sign = 0 \/ sign = 1) -> 0 < man -> bc_ok man bc -> regular (finish sign man exp bc).
Proof.
  intros Hs Hm Hbc. unfold finish.
  pose proof (strip_trailing_spec man exp bc Hm) as H.
  destruct (strip_trailing man exp bc) as [[m' e'] b'].
  destruct H as [t [Ht [Hman [Hodd [Hpos [He Hb]]]]]].
  unfold regular; cbn [msign mman mexp mbc]. repeat split; auto.
  destruct (Z.eqb_spec m' 1) as [->|Hne]; [reflexivity|].
  destruct Hbc as [Hbc|[Hk Hbc]].
  - subst bc b'. rewrite Hman at 1. rewrite bitcount_mul_pow2 by lia. lia.
  - exfalso. apply Hne. rewrite Hman in Hbc. apply (odd_pow2_is_1 m' t bc); auto.
Qed.

Lemma finish_bc_le sign man exp bc prec :
  0 < man -> 0 < prec -> bc <= prec -> mbc (finish sign man exp bc) <= prec.
Proof.
  intros Hm Hp Hb. unfold finish.
  pose proof (strip_trailing_spec man exp bc Hm) as H.
  destruct (strip_trailing man exp bc) as [[m' e'] b'].
  destruct H as [t [Ht [_ [_ [_ [_ Hb']]]]]]. cbn [mbc].
  destruct (m' =? 1); lia.
Qed.

Lemma round_mant_bc_ok sign man n prec r :
  0 < man -> 0 < prec -> n = bitcount man - prec -> 0 < n ->
  bc_ok (round_mant sign man n r) prec /\ 0 < round_mant sign man n r.
Proof.
  intros Hm Hp Hn Hn0.
  pose proof (round_mant_range sign man n prec r Hm Hp Hn Hn0) as [H1 H2].
  assert (0 < 2 ^ (prec - 1)) by (apply Z.pow_pos_nonneg; lia).
  split; [|lia].
  destruct (Z.eq_dec (round_mant sign man n r) (2 ^ prec)) as [E|E].
  - right. split; [lia|exact E].
  - left. symmetry. apply bitcount_unique; lia.
Qed.

(* ------------------------------------------------------------------ normalize *)

Theorem normalize_fincanon sign man exp bc prec r :
  (sign = 0 \/ sign = 1) -> 0 <= man -> bc = bitcount man -> 0 < prec ->
  fincanon (normalize sign man exp bc prec r).
Proof.
  intros Hs Hm Hbc Hp. unfold normalize.
  destruct (Z.eqb_spec man 0) as [->|Hne]; [left; reflexivity|]. right.
  assert (0 < man) by lia.
  destruct (Z.ltb_spec 0 (bc - prec)) as [Hn|Hn].
  - destruct (round_mant_bc_ok sign man (bc - prec) prec r) as [Hok Hpos]; try lia.
    apply finish_regular; auto.
  - apply finish_regular; auto. left; exact Hbc.
Qed.

Theorem normalize_bc_le sign man exp bc prec r :
  0 <= man -> bc = bitcount man -> 0 < prec ->
  mbc (normalize sign man exp bc prec r) <= prec.
Proof.
  intros Hm Hbc Hp. unfold normalize.
  destruct (Z.eqb_spec man 0) as [->|Hne]; [simpl; lia|].
  assert (0 < man) by lia.
  destruct (Z.ltb_spec 0 (bc - prec)) as [Hn|Hn].
  - destruct (round_mant_bc_ok sign man (bc - prec) prec r) as [Hok Hpos]; try lia.
    apply finish_bc_le; lia.
  - apply finish_bc_le; lia.
Qed.

Theorem normalize1_fincanon sign man exp bc prec r :
  (sign = 0 \/ sign = 1) -> 0 <= man -> (man = 0 \/ Z.odd man = true) -> bc = bitcount man -> 0 < prec ->
  fincanon (normalize1 sign man exp bc prec r).
Proof.
  intros Hs Hm Ho Hbc Hp. unfold normalize1.
  destruct (Z.eqb_spec man 0) as [->|Hne]; [left; reflexivity|]. right.
  assert (0 < man) by lia. destruct Ho as [Ho|Ho]; [lia|].
  destruct (Z.leb_spec bc prec) as [Hn|Hn].
  - unfold regular; cbn [msign mman mexp mbc]. auto.
  - destruct (round_mant_bc_ok sign man (bc - prec) prec r) as [Hok Hpos]; try lia.
    apply finish_regular; auto.
Qed.

Theorem normalize1_bc_le sign man exp bc prec r :
  0 <= man -> bc = bitcount man -> 0 < prec ->
  mbc (normalize1 sign man exp bc prec r) <= prec.
Proof.
  intros Hm Hbc Hp. unfold normalize1.
  destruct (Z.eqb_spec man 0) as [->|Hne]; [simpl; lia|].
  assert (0 < man) by lia.
  destruct (Z.leb_spec bc prec) as [Hn|Hn]; [cbn [mbc]; lia|].
  destruct (round_mant_bc_ok sign man (bc - prec) prec r) as [Hok Hpos]; try lia.
  apply finish_bc_le; lia.
Qed.

(* ------------------------------------------------------------------ from_man_exp / from_int *)

Theorem from_man_exp_fincanon man exp prec r : 0 <= prec -> fincanon (from_man_exp man exp prec r).
Proof.
  intros Hp. unfold from_man_exp.
  set (sign := if man <? 0 then 1 else 0).
  assert (Hs : sign = 0 \/ sign = 1) by (unfold sign; destruct (man <? 0); auto).
  destruct (Z.eqb_spec prec 0) as [->|Hne].
  - destruct (Z.eqb_spec (Z.abs man) 0) as [E|E]; [left; reflexivity|]. right.
    assert (Hm : 0 < Z.abs man) by lia.
    pose proof (strip_trailing_spec (Z.abs man) exp (bitcount (Z.abs man)) Hm) as H.
    destruct (strip_trailing (Z.abs man) exp (bitcount (Z.abs man))) as [[m' e'] b'].
    destruct H as [t [Ht [Hman [Hodd [Hpos [He Hb]]]]]].
    unfold regular; cbn [msign mman mexp mbc]. repeat split; auto.
    subst b'. rewrite Hman at 1. rewrite bitcount_mul_pow2 by lia. lia.
  - apply normalize_fincanon; auto; lia.
Qed.

Theorem from_man_exp_bc_le man exp prec r : 0 < prec -> mbc (from_man_exp man exp prec r) <= prec.
Proof.
  intros Hp. unfold from_man_exp.
  destruct (Z.eqb_spec prec 0) as [E|E]; [lia|].
  apply normalize_bc_le; auto; lia.
Qed.
