(* NintDist.v — C39: nint_distance on a regular real returns the nearest integer n (|x - n| <= 1/2, half-integers rounded
   away from zero) and the exact binary magnitude d of the distance: 2^(d-1) <= |x - n| < 2^d, or -inf when x is an integer. *)
From Coq Require Import ZArith Reals Bool Lia Lra.
From Flocq Require Import Core.
From MP Require Import Algo.Base Algo.Libmpf Algo.Ctxfun Spec.Mpf Spec.Round Proofs.Bits Proofs.NormRound Proofs.Ops Proofs.Mag.
Open Scope Z_scope.

(* what is claimed of a returned pair (n, d) for the real x *)
Definition nd_ok (x : R) (n : Z) (d : xint) : Prop :=
  (Rabs (x - IZR n) <= / 2)%R /\
  match d with
  | XNinf => x = IZR n
  | XFin k => (bpow radix2 (k - 1) <= Rabs (x - IZR n) < bpow radix2 k)%R
  | _ => False
  end.

Lemma dist_scaled m e n man' : e < 0 -> 0 < man' -> Z.abs (m - n * 2 ^ (- e)) = man' -> man' <= 2 ^ (- e - 1) ->
  nd_ok (F2R (Float radix2 m e)) n (XFin (e + bitcount man')).
Proof.
  intros He Hm HD Hle.
  assert (E : Rabs (F2R (Float radix2 m e) - IZR n) = (IZR man' * bpow radix2 e)%R).
  { replace (F2R (Float radix2 m e) - IZR n)%R with (IZR (m - n * 2 ^ (- e)) * bpow radix2 e)%R.
    - rewrite Rabs_mult, <- abs_IZR, HD. rewrite (Rabs_pos_eq (bpow radix2 e)) by apply bpow_ge_0. reflexivity.
    - rewrite minus_IZR, mult_IZR, IZR_pow2 by lia. unfold F2R; cbn [Fnum Fexp].
      rewrite Rmult_minus_distr_r, Rmult_assoc, <- bpow_plus. replace (- e + e) with 0 by lia. simpl. ring. }
  unfold nd_ok. rewrite E. pose proof (bpow_gt_0 radix2 e) as B0.
  pose proof (bitcount_spec man' Hm) as [B1 B2]. pose proof (bitcount_pos man' Hm) as Bp.
  split.
  - apply Rle_trans with (IZR (2 ^ (- e - 1)) * bpow radix2 e)%R.
    + apply Rmult_le_compat_r; [lra|]. apply IZR_le. exact Hle.
    + rewrite IZR_pow2 by lia. rewrite <- bpow_plus. replace (- e - 1 + e) with (-1) by lia. simpl. lra.
  - replace (e + bitcount man' - 1) with ((bitcount man' - 1) + e) by lia.
    replace (e + bitcount man') with (bitcount man' + e) by lia. rewrite !bpow_plus. split.
    + apply Rmult_le_compat_r; [lra|]. rewrite <- IZR_pow2 by lia. apply IZR_le. exact B1.
    + apply Rmult_lt_compat_r; [lra|]. rewrite <- IZR_pow2 by lia. apply IZR_lt. exact B2.
Qed.

(* the unsigned core of nint_distance for a negative exponent and non-negative magnitude *)
Definition nd_core (man exp : Z) : Z * xint :=
  if exp =? -1 then (Z.shiftr man 1 + 1, XFin 0)
  else
    let d := - exp - 1 in
    let t := Z.shiftr man d in
    let '(t, man') := if Z.odd t then (t + 1, Z.shiftl (t + 1) d - man) else (t, man - Z.shiftl t d) in
    (Z.shiftr t 1, XFin (exp + bitcount man')).

Lemma odd_half m : Z.odd m = true -> m = 2 * (m / 2) + 1.
Proof. intros H. rewrite (Z.div_mod m 2) at 1 by lia. rewrite <- Z.bit0_mod, Z.bit0_odd, H. reflexivity. Qed.
Lemma even_half m : Z.odd m = false -> m = 2 * (m / 2).
Proof. intros H. rewrite (Z.div_mod m 2) at 1 by lia. rewrite <- Z.bit0_mod, Z.bit0_odd, H. simpl. lia. Qed.

Lemma nd_core_ok m e : 0 < m -> Z.odd m = true -> e < 0 ->
  let '(n, d) := nd_core m e in 0 <= n /\ nd_ok (F2R (Float radix2 m e)) n d.
Proof.
  intros Hm Ho He. unfold nd_core. destruct (Z.eqb_spec e (-1)) as [->|Ne].
  - rewrite Z.shiftr_div_pow2 by lia. change (2 ^ 1) with 2.
    pose proof (odd_half m Ho) as Hh. assert (0 <= m / 2) by (apply Z.div_pos; lia).
    split; [lia|]. change (XFin 0) with (XFin (-1 + bitcount 1)).
    apply dist_scaled; lia.
  - set (d := - e - 1). assert (Hd : 1 <= d) by (unfold d; lia).
    assert (P : 0 < 2 ^ d) by (apply Z.pow_pos_nonneg; lia).
    rewrite Z.shiftr_div_pow2 by lia. set (t := m / 2 ^ d).
    pose proof (Z.div_mod m (2 ^ d) ltac:(lia)) as D. pose proof (Z.mod_pos_bound m (2 ^ d) P) as B. fold t in D.
    assert (Ht : 0 <= t) by (apply Z.div_pos; lia).
    assert (E2 : 2 ^ (- e) = 2 * 2 ^ d) by (replace (- e) with (1 + d) by (unfold d; lia); rewrite Z.pow_add_r by lia; reflexivity).
    assert (Ev : Z.even (2 ^ d) = true) by (rewrite Z.even_pow by lia; reflexivity).
    assert (NZ : m mod 2 ^ d <> 0).
    { intros Z0. rewrite Z0, Z.add_0_r in D. rewrite D in Ho. rewrite Z.odd_mul in Ho.
      rewrite <- Z.negb_even, Ev in Ho. discriminate. }
    destruct (Z.odd t) eqn:Ot.
    + rewrite Z.shiftr_div_pow2, Z.shiftl_mul_pow2 by lia. change (2 ^ 1) with 2.
      assert (Et : t + 1 = 2 * ((t + 1) / 2)) by (apply even_half; rewrite Z.add_1_r, Z.odd_succ, <- Z.negb_odd, Ot; reflexivity).
      assert (0 <= (t + 1) / 2) by (apply Z.div_pos; lia).
      split; [lia|]. apply dist_scaled.
      * lia.
      * nia.
      * rewrite E2. replace ((t + 1) / 2 * (2 * 2 ^ d)) with ((t + 1) * 2 ^ d) by nia. rewrite Z.abs_neq by nia. lia.
      * fold d. nia.
    + rewrite Z.shiftr_div_pow2, Z.shiftl_mul_pow2 by lia. change (2 ^ 1) with 2.
      assert (Et : t = 2 * (t / 2)) by (apply even_half; exact Ot).
      assert (0 <= t / 2) by (apply Z.div_pos; lia).
      split; [lia|]. apply dist_scaled.
      * lia.
      * nia.
      * rewrite E2. replace (t / 2 * (2 * 2 ^ d)) with (t * 2 ^ d) by nia. rewrite Z.abs_eq by nia. lia.
      * fold d. nia.
Qed.

Lemma nd_ok_opp x n d : nd_ok x n d -> nd_ok (- x) (- n) d.
Proof.
  intros [H1 H2]. unfold nd_ok. rewrite opp_IZR.
  replace (- x - - IZR n)%R with (- (x - IZR n))%R by ring. rewrite Rabs_Ropp. split; [exact H1|].
  destruct d; auto. lra.
Qed.

Theorem nint_distance_spec re : regular re ->
  exists n d, nint_distance_mpf re = Ok (n, d) /\ nd_ok (rv re) n d.
Proof.
  intros Hr. pose proof Hr as [S1 [S2 [S3 S4]]]. destruct re as [sign man exp bc]. cbn [msign mman mexp mbc] in *.
  unfold nint_distance_mpf.
  assert (Vx : rv (Mpf sign man exp bc) = (sgn sign * F2R (Float radix2 man exp))%R) by reflexivity.
  destruct (Z.ltb_spec (exp + bc) 0) as [Neg|Pos].
  - (* |x| < 1/2 *)
    exists 0, (XFin (exp + bc)). split; [reflexivity|].
    destruct (mpf_mag_spec _ Hr) as [m [Em [M1 M2]]]. unfold mpf_mag in Em; cbn [mman mexp mbc] in Em.
    destruct (Z.eqb_spec man 0); [lia|]. injection Em as <-.
    unfold nd_ok. rewrite Rminus_0_r. split; [|split; assumption].
    apply Rle_trans with (bpow radix2 (exp + bc)); [lra|]. apply Rle_trans with (bpow radix2 (-1)); [apply bpow_le; lia|simpl; lra].
  - destruct (Z.eqb_spec man 0); [lia|]. cbn [negb].
    assert (SG : forall n d, 0 <= n -> nd_ok (F2R (Float radix2 man exp)) n d ->
              nd_ok (rv (Mpf sign man exp bc)) (if negb (sign =? 0) then - n else n) d).
    { intros n0 d0 _ H. rewrite Vx. destruct S1 as [->| ->]; unfold sgn; cbn [Z.eqb negb].
      - rewrite Rmult_1_l. exact H.
      - replace (-1 * F2R (Float radix2 man exp))%R with (- F2R (Float radix2 man exp))%R by ring. apply nd_ok_opp. exact H. }
    destruct (Z.leb_spec 0 exp) as [Ie|Fe].
    + eexists _, _. split; [reflexivity|]. apply SG.
      * rewrite Z.shiftl_mul_pow2 by lia. assert (0 < 2 ^ exp) by (apply Z.pow_pos_nonneg; lia). nia.
      * assert (E : F2R (Float radix2 man exp) = IZR (Z.shiftl man exp)).
        { rewrite Z.shiftl_mul_pow2 by lia. rewrite mult_IZR, IZR_pow2 by lia. reflexivity. }
        unfold nd_ok. rewrite E. rewrite Rminus_diag_eq by reflexivity. rewrite Rabs_R0. split; [lra|reflexivity].
    + pose proof (nd_core_ok man exp S2 S3 Fe) as C. unfold nd_core in C.
      destruct (exp =? -1).
      * destruct C as [C1 C2]. eexists _, _. split; [reflexivity|]. apply SG; assumption.
      * cbv zeta in C |- *.
        destruct (if Z.odd (Z.shiftr man (- exp - 1)) then _ else _) as [t man'].
        destruct C as [C1 C2]. eexists _, _. split; [reflexivity|]. apply SG; assumption.
Qed.
