(* IvMul.v — C14: containment for interval multiplication, square and absolute value (finite endpoints, every precision,
   every pair of member reals).  All sign cases of libmpi.mpi_mul, including the mixed case decided by min/max of the four
   exact corner products. *)
From Coq Require Import ZArith Reals Bool List Lia Lra Psatz.
From Flocq Require Import Core.
From MP Require Import Algo.Base Algo.Libmpf Algo.Libmpi Spec.Mpf Spec.Round Proofs.NormRound Proofs.Ops Proofs.AddRound
  Proofs.Fin Proofs.Cmp Proofs.IvCmp Proofs.IvContain.
Import ListNotations.
Open Scope Z_scope.

Lemma mpf_sign_spec x : fincanon x ->
  (mpf_sign x = 1 /\ (0 < rv x)%R) \/ (mpf_sign x = 0 /\ x = fzero) \/ (mpf_sign x = -1 /\ (rv x < 0)%R).
Proof.
  intros [->|Hx]; [right; left; split; reflexivity|].
  rewrite mpf_sign_regular by exact Hx. destruct Hx as [S1 [S2 _]].
  assert (0 < F2R (Float radix2 (mman x) (mexp x)))%R by (apply F2R_gt_0; exact S2).
  unfold rv, sgn. destruct S1 as [E|E]; rewrite E; cbn [Z.eqb]; [left|right; right]; split; auto; lra.
Qed.

Lemma mul_roe s t prec r : fincanon s -> fincanon t -> 0 <= prec ->
  rv (mpf_mul s t prec r) = rnd_or_exact r prec (rv s * rv t) /\ fincanon (mpf_mul s t prec r).
Proof.
  intros Hs Ht Hp. unfold mpf_mul. split; [|apply python_mpf_mul_fincanon; auto].
  unfold rnd_or_exact. destruct (Z.eqb_spec prec 0) as [->|N].
  - apply python_mpf_mul_exact; auto.
  - apply python_mpf_mul_round; auto; lia.
Qed.

(* an interval built from a floor-rounded lower bound and a ceiling-rounded upper bound *)
Lemma mk_iv a b prec P Q z : 0 <= prec -> fincanon a -> fincanon b ->
  rv a = rnd_or_exact RF prec P -> rv b = rnd_or_exact RC prec Q -> (P <= z <= Q)%R ->
  in_iv (a, b) z /\ valid_iv (a, b).
Proof.
  intros Hp Fa Fb Ea Eb [H1 H2]. unfold in_iv, valid_iv; cbn [fst snd]. rewrite Ea, Eb.
  pose proof (roe_floor_le prec P Hp). pose proof (roe_ceil_ge prec Q Hp). repeat split; auto; lra.
Qed.

Lemma mk_iv_mul p q p' q' prec z : 0 <= prec -> fincanon p -> fincanon q -> fincanon p' -> fincanon q' ->
  (rv p * rv q <= z <= rv p' * rv q')%R -> forall d d',
  in_iv (nan_to (mpf_mul p q prec RF) d, nan_to (mpf_mul p' q' prec RC) d') z /\
  valid_iv (nan_to (mpf_mul p q prec RF) d, nan_to (mpf_mul p' q' prec RC) d').
Proof.
  intros Hp F1 F2 F3 F4 Hz d d'.
  destruct (mul_roe p q prec RF F1 F2 Hp) as [E1 G1]. destruct (mul_roe p' q' prec RC F3 F4 Hp) as [E2 G2].
  rewrite !nan_to_fin by assumption. eapply mk_iv; eauto.
Qed.

Lemma rv_fzero' : rv fzero = 0%R. Proof. apply rv_fzero. Qed.

Lemma zero_iv z : z = 0%R -> in_iv (fzero, fzero) z /\ valid_iv (fzero, fzero).
Proof. intros ->. unfold in_iv, valid_iv; cbn [fst snd]. rewrite rv_fzero. repeat split; try (left; reflexivity); lra. Qed.

Lemma fin_not_inf x : fincanon x -> mpf_eqb x finf = false /\ mpf_eqb x fninf = false.
Proof.
  intros [->|[S1 [S2 _]]]; [split; reflexivity|].
  unfold mpf_eqb, finf, fninf; cbn [msign mman mexp mbc].
  split; destruct (Z.eqb_spec (mman x) 0); try lia; rewrite ?andb_false_r; reflexivity.
Qed.

(* ---- min / max of a list of finite values ---- *)
Lemma min_max_loop_spec xs : forall mn mx, Forall fincanon xs -> fincanon mn -> fincanon mx ->
  let '(a, b) := min_max_loop xs mn mx in
  fincanon a /\ fincanon b /\ (rv a <= rv mn)%R /\ (rv mx <= rv b)%R /\
  Forall (fun z => (rv a <= rv z <= rv b)%R) xs /\ (In a (mn :: xs)) /\ (In b (mx :: xs)).
Proof.
  induction xs as [|x r IH]; intros mn mx HF Fn Fx; cbn [min_max_loop].
  - repeat split; auto; try lra; left; reflexivity.
  - inversion HF as [|? ? Hx Hr]; subst.
    set (mn' := if mpf_lt x mn then x else mn). set (mx' := if mpf_gt x mx then x else mx).
    assert (Fn' : fincanon mn') by (unfold mn'; destruct (mpf_lt x mn); auto).
    assert (Fx' : fincanon mx') by (unfold mx'; destruct (mpf_gt x mx); auto).
    assert (Ln : (rv mn' <= rv mn /\ rv mn' <= rv x)%R).
    { unfold mn'. destruct (mpf_lt x mn) eqn:E.
      - apply mpf_lt_spec in E; auto. lra.
      - assert (~ (rv x < rv mn)%R) by (intros C; apply mpf_lt_spec in C; auto; congruence). lra. }
    assert (Lx : (rv mx <= rv mx' /\ rv x <= rv mx')%R).
    { unfold mx'. destruct (mpf_gt x mx) eqn:E.
      - apply mpf_gt_spec in E; auto. lra.
      - assert (~ (rv mx < rv x)%R) by (intros C; apply mpf_gt_spec in C; auto; congruence). lra. }
    specialize (IH mn' mx' Hr Fn' Fx').
    destruct (min_max_loop r mn' mx') as [a b]. destruct IH as [Fa [Fb [A1 [B1 [All [Ia Ib]]]]]].
    repeat split; auto; try lra.
    + constructor; [lra|exact All].
    + destruct Ia as [E|E]; [|right; right; exact E]. subst a. unfold mn'. destruct (mpf_lt x mn); [right; left|left]; reflexivity.
    + destruct Ib as [E|E]; [|right; right; exact E]. subst b. unfold mx'. destruct (mpf_gt x mx); [right; left|left]; reflexivity.
Qed.

Lemma min_max_spec x xs : Forall fincanon (x :: xs) ->
  let '(a, b) := mpf_min_max (x :: xs) in
  fincanon a /\ fincanon b /\ Forall (fun z => (rv a <= rv z <= rv b)%R) (x :: xs) /\ In a (x :: xs) /\ In b (x :: xs).
Proof.
  intros HF. inversion HF as [|? ? Hx Hr]; subst. cbn [mpf_min_max].
  pose proof (min_max_loop_spec xs x x Hr Hx Hx) as H.
  destruct (min_max_loop xs x x) as [a b]. destruct H as [Fa [Fb [A1 [B1 [All [Ia Ib]]]]]].
  repeat split; auto.
Qed.

Lemma roe_exact r x : rnd_or_exact r 0 x = x.
Proof. reflexivity. Qed.

(* the mixed-sign case: both operands straddle zero *)
Lemma mul_mixed sa sb ta tb prec x y : fincanon sa -> fincanon sb -> fincanon ta -> fincanon tb -> 0 <= prec ->
  (rv sa <= x <= rv sb)%R -> (rv ta <= y <= rv tb)%R ->
  let cases := [mpf_mul sa ta 0 RD; mpf_mul sa tb 0 RD; mpf_mul sb ta 0 RD; mpf_mul sb tb 0 RD] in
  let r := if existsb (fun x => mpf_eqb x fnan) cases then (fninf, finf)
           else let '(a, b) := mpf_min_max cases in (mpf_pos a prec RF, mpf_pos b prec RC) in
  in_iv r (x * y) /\ valid_iv r.
Proof.
  intros Sa Sb Ta Tb Hp HX HY. cbv zeta.
  destruct (mul_roe sa ta 0 RD Sa Ta ltac:(lia)) as [E1 F1]. destruct (mul_roe sa tb 0 RD Sa Tb ltac:(lia)) as [E2 F2].
  destruct (mul_roe sb ta 0 RD Sb Ta ltac:(lia)) as [E3 F3]. destruct (mul_roe sb tb 0 RD Sb Tb ltac:(lia)) as [E4 F4].
  rewrite roe_exact in E1, E2, E3, E4.
  cbn [existsb]. rewrite !not_nan_fincanon by assumption. cbn [orb].
  assert (HF : Forall fincanon [mpf_mul sa ta 0 RD; mpf_mul sa tb 0 RD; mpf_mul sb ta 0 RD; mpf_mul sb tb 0 RD]).
  { constructor; [assumption|]. constructor; [assumption|]. constructor; [assumption|]. constructor; [assumption|]. constructor. }
  pose proof (min_max_spec _ _ HF) as MM.
  destruct (mpf_min_max [mpf_mul sa ta 0 RD; mpf_mul sa tb 0 RD; mpf_mul sb ta 0 RD; mpf_mul sb tb 0 RD]) as [a b].
  destruct MM as [Fa [Fb [All _]]].
  inversion All as [|? ? B1 All2]; subst. inversion All2 as [|? ? B2 All3]; subst.
  inversion All3 as [|? ? B3 All4]; subst. inversion All4 as [|? ? B4 _]; subst.
  rewrite E1 in B1. rewrite E2 in B2. rewrite E3 in B3. rewrite E4 in B4.
  apply (mk_iv _ _ prec (rv a) (rv b)); auto; try (apply mpf_pos_fincanon; auto); try (apply mpf_pos_roe; auto).
  assert (L1 : (Rmin (rv sa * y) (rv sb * y) <= x * y <= Rmax (rv sa * y) (rv sb * y))%R).
  { unfold Rmin, Rmax. destruct (Rle_dec (rv sa * y) (rv sb * y)); destruct (Rle_dec 0 y); split; nra. }
  assert (L2 : (rv a <= rv sa * y <= rv b)%R).
  { destruct (Rle_dec 0 (rv sa)); split; nra. }
  assert (L3 : (rv a <= rv sb * y <= rv b)%R).
  { destruct (Rle_dec 0 (rv sb)); split; nra. }
  revert L1. unfold Rmin, Rmax. destruct (Rle_dec (rv sa * y) (rv sb * y)); lra.
Qed.

Theorem mpi_mul_contains s t prec x y : valid_iv s -> valid_iv t -> 0 <= prec -> in_iv s x -> in_iv t y ->
  in_iv (mpi_mul s t prec) (x * y) /\ valid_iv (mpi_mul s t prec).
Proof.
  intros [Sa [Sb Sv]] [Ta [Tb Tv]] Hp [X1 X2] [Y1 Y2]. destruct s as [sa sb], t as [ta tb]. cbn [fst snd] in *.
  pose proof (mul_mixed sa sb ta tb prec x y Sa Sb Ta Tb Hp) as MIX. cbv zeta in MIX.
  unfold mpi_mul.
  destruct (fin_not_inf sa Sa) as [_ I1]. destruct (fin_not_inf sb Sb) as [I2 _].
  destruct (fin_not_inf ta Ta) as [_ I3]. destruct (fin_not_inf tb Tb) as [I4 _].
  rewrite I1, I2, I3, I4. cbn [orb].
  destruct (mpf_sign_spec sa Sa) as [[Ea Ra]|[[Ea Za]|[Ea Ra]]];
  destruct (mpf_sign_spec sb Sb) as [[Eb Rb]|[[Eb Zb]|[Eb Rb]]];
  destruct (mpf_sign_spec ta Ta) as [[Ec Rc]|[[Ec Zc]|[Ec Rc]]];
  destruct (mpf_sign_spec tb Tb) as [[Ed Rd]|[[Ed Zd]|[Ed Rd]]];
  rewrite Ea, Eb, Ec, Ed;
  try (exfalso; subst; rewrite ?rv_fzero in *; lra);
  match goal with |- context [if ?b then _ else _] => idtac end;
  repeat match goal with
  | |- context [(?a =? ?b)] => let v := eval vm_compute in (a =? b) in change (a =? b) with v
  | |- context [(?a <=? ?b)] => let v := eval vm_compute in (a <=? b) in change (a <=? b) with v
  end; cbn [andb];
  first [ apply MIX; (split; lra)
        | apply zero_iv; subst; rewrite ?rv_fzero in *; nra
        | apply mk_iv_mul; auto; subst; rewrite ?rv_fzero in *; split; nra ].
Qed.

Lemma mk_iv_mul' p q p' q' prec z : 0 <= prec -> fincanon p -> fincanon q -> fincanon p' -> fincanon q' ->
  (rv p * rv q <= z <= rv p' * rv q')%R ->
  in_iv (mpf_mul p q prec RF, mpf_mul p' q' prec RC) z /\ valid_iv (mpf_mul p q prec RF, mpf_mul p' q' prec RC).
Proof.
  intros Hp F1 F2 F3 F4 Hz.
  destruct (mul_roe p q prec RF F1 F2 Hp) as [E1 G1]. destruct (mul_roe p' q' prec RC F3 F4 Hp) as [E2 G2].
  eapply mk_iv; eauto.
Qed.

Lemma fincanon_fzero : fincanon fzero. Proof. left; reflexivity. Qed.

Theorem mpi_square_contains s prec x : valid_iv s -> 0 <= prec -> in_iv s x ->
  in_iv (mpi_square s prec) (x * x) /\ valid_iv (mpi_square s prec).
Proof.
  intros [Sa [Sb Sv]] Hp [X1 X2]. destruct s as [sa sb]. cbn [fst snd] in *. unfold mpi_square.
  destruct (mpf_ge sa fzero) eqn:G.
  { apply mpf_ge_spec in G; auto using fincanon_fzero. rewrite rv_fzero in G. apply mk_iv_mul'; auto. split; nra. }
  destruct (mpf_le sb fzero) eqn:L.
  { apply mpf_le_spec in L; auto using fincanon_fzero. rewrite rv_fzero in L. apply mk_iv_mul'; auto. split; nra. }
  assert (Na : (rv sa < 0)%R).
  { destruct (Rlt_dec (rv sa) 0); auto. exfalso. assert (H : mpf_ge sa fzero = true) by (apply mpf_ge_spec; auto using fincanon_fzero; rewrite rv_fzero; lra). congruence. }
  assert (Pb : (0 < rv sb)%R).
  { destruct (Rlt_dec 0 (rv sb)); auto. exfalso. assert (H : mpf_le sb fzero = true) by (apply mpf_le_spec; auto using fincanon_fzero; rewrite rv_fzero; lra). congruence. }
  assert (Fn : fincanon (mpf_neg sa 0 RD)) by (apply mpf_neg_fincanon; auto; lia).
  assert (En : rv (mpf_neg sa 0 RD) = (- rv sa)%R) by (apply mpf_neg_exact; auto).
  assert (HF : Forall fincanon [mpf_neg sa 0 RD; sb]) by (constructor; [assumption|]; constructor; [assumption|]; constructor).
  pose proof (min_max_spec _ _ HF) as MM.
  destruct (mpf_min_max [mpf_neg sa 0 RD; sb]) as [mn mx]. destruct MM as [_ [Fx [All _]]].
  inversion All as [|? ? B1 All2]; subst. inversion All2 as [|? ? B2 _]; subst. rewrite En in B1.
  destruct (mul_roe mx mx prec RC Fx Fx Hp) as [E2 G2].
  apply (mk_iv _ _ prec 0%R (rv mx * rv mx)); auto using fincanon_fzero.
  - rewrite rv_fzero. unfold rnd_or_exact. destruct (prec =? 0); [reflexivity|]. symmetry. apply RND_0.
  - split; nra.
Qed.

Theorem mpi_abs_contains s prec x : valid_iv s -> 0 <= prec -> in_iv s x ->
  in_iv (mpi_abs s prec) (Rabs x) /\ valid_iv (mpi_abs s prec).
Proof.
  intros [Sa [Sb Sv]] Hp [X1 X2]. destruct s as [sa sb]. cbn [fst snd] in *. unfold mpi_abs.
  destruct (mpf_sign_spec sa Sa) as [[Ea Ra]|[[Ea Za]|[Ea Ra]]]; rewrite Ea;
    match goal with |- context [(?a <=? ?b)] => let v := eval vm_compute in (a <=? b) in change (a <=? b) with v end; cbv iota.
  - rewrite Rabs_pos_eq by lra.
    apply (mk_iv _ _ prec (rv sa) (rv sb)); auto; try (apply mpf_pos_fincanon; auto); try (apply mpf_pos_roe; auto).
  - subst sa. rewrite rv_fzero in *. rewrite Rabs_pos_eq by lra.
    apply (mk_iv _ _ prec (rv fzero) (rv sb)); auto; try (apply mpf_pos_fincanon; auto using fincanon_fzero); try (apply mpf_pos_roe; auto using fincanon_fzero).
    rewrite rv_fzero. lra.
  - destruct (mpf_sign_spec sb Sb) as [[Eb Rb]|[[Eb Zb]|[Eb Rb]]]; rewrite Eb;
      match goal with |- context [(?a <=? ?b)] => let v := eval vm_compute in (a <=? b) in change (a <=? b) with v end; cbv iota.
    + assert (Fn : fincanon (mpf_neg sa 0 RD)) by (apply mpf_neg_fincanon; auto; lia).
      assert (En : rv (mpf_neg sa 0 RD) = (- rv sa)%R) by (apply mpf_neg_exact; auto).
      destruct (mpf_lt (mpf_neg sa 0 RD) sb) eqn:L.
      * apply mpf_lt_spec in L; auto. rewrite En in L.
        apply (mk_iv _ _ prec 0%R (rv sb)); auto using fincanon_fzero; try (apply mpf_pos_fincanon; auto); try (apply mpf_pos_roe; auto).
        { rewrite rv_fzero. unfold rnd_or_exact. destruct (prec =? 0); [reflexivity|]. symmetry. apply RND_0. }
        split; [apply Rabs_pos|]. apply Rabs_le. lra.
      * assert (~ (- rv sa < rv sb)%R) by (intros C; rewrite <- En in C; apply mpf_lt_spec in C; auto; congruence).
        apply (mk_iv _ _ prec 0%R (- rv sa)%R); auto using fincanon_fzero; try (apply mpf_pos_fincanon; auto).
        { rewrite rv_fzero. unfold rnd_or_exact. destruct (prec =? 0); [reflexivity|]. symmetry. apply RND_0. }
        { rewrite mpf_pos_roe by auto. rewrite En. reflexivity. }
        split; [apply Rabs_pos|]. apply Rabs_le. lra.
    + subst sb. rewrite rv_fzero in *.
      assert (Fn : fincanon (mpf_neg sa 0 RD)) by (apply mpf_neg_fincanon; auto; lia).
      assert (En : rv (mpf_neg sa 0 RD) = (- rv sa)%R) by (apply mpf_neg_exact; auto).
      destruct (mpf_lt (mpf_neg sa 0 RD) fzero) eqn:L.
      * apply mpf_lt_spec in L; auto using fincanon_fzero. rewrite En, rv_fzero in L. lra.
      * apply (mk_iv _ _ prec 0%R (- rv sa)%R); auto using fincanon_fzero; try (apply mpf_pos_fincanon; auto).
        { rewrite rv_fzero. unfold rnd_or_exact. destruct (prec =? 0); [reflexivity|]. symmetry. apply RND_0. }
        { rewrite mpf_pos_roe by auto. rewrite En. reflexivity. }
        split; [apply Rabs_pos|]. apply Rabs_le. lra.
    + rewrite Rabs_left1 by lra.
      apply (mk_iv _ _ prec (- rv sb)%R (- rv sa)%R); auto; try (apply mpf_neg_fincanon; auto); try (apply mpf_neg_roe; auto). lra.
Qed.
