(* ModRound.v — C06 (modulo part): mpf_mod returns the correctly rounded value of x - y*floor(x/y) for every finite x,
   every non-zero finite y, every precision and rounding mode, including both shortcut branches. *)
From Coq Require Import ZArith Reals Bool Lia Lra.
From Flocq Require Import Core.
From MP Require Import Algo.Base Algo.Libmpf Spec.Mpf Spec.Round Proofs.Bits Proofs.Normalize Proofs.NormRound Proofs.Ops Proofs.AddRound.
Open Scope Z_scope.

Definition rmod (x y : R) : R := (x - y * IZR (Zfloor (x / y)))%R.

(* signed mantissa *)
Definition smant (x : mpf) : Z := if msign x =? 0 then mman x else - mman x.

Lemma rv_smant x : (msign x = 0 \/ msign x = 1) -> rv x = F2R (Float radix2 (smant x) (mexp x)).
Proof.
  intros [E|E]; unfold rv, smant, sgn; rewrite E; cbn [Z.eqb]; [ring|]. rewrite F2R_Zopp. ring.
Qed.

Lemma fincanon_sign x : fincanon x -> (msign x = 0 \/ msign x = 1) /\ 0 <= mman x /\ (mman x = 0 -> x = fzero).
Proof.
  intros [->|[S1 [S2 _]]]; [cbn; auto with zarith|]. repeat split; auto; lia.
Qed.

(* value of an integer multiple of 2^base *)
Lemma F2R_base m e base : base <= e -> F2R (Float radix2 m e) = (IZR (Z.shiftl m (e - base)) * bpow radix2 base)%R.
Proof.
  intros H. rewrite Z.shiftl_mul_pow2 by lia. rewrite mult_IZR, IZR_pow2 by lia.
  unfold F2R; cbn [Fnum Fexp]. rewrite Rmult_assoc, <- bpow_plus. do 2 f_equal. lia.
Qed.

Lemma rmod_scaled S T base : T <> 0 ->
  rmod (IZR S * bpow radix2 base) (IZR T * bpow radix2 base) = (IZR (S mod T) * bpow radix2 base)%R.
Proof.
  intros HT. unfold rmod.
  assert (B : (0 < bpow radix2 base)%R) by apply bpow_gt_0.
  replace (IZR S * bpow radix2 base / (IZR T * bpow radix2 base))%R with (IZR S / IZR T)%R
    by (field; split; [lra|apply IZR_neq; exact HT]).
  rewrite Zfloor_div by exact HT.
  rewrite (Z.mod_eq S T HT), minus_IZR, mult_IZR. ring.
Qed.

Lemma rmod_small x y : (0 <= x / y < 1)%R -> rmod x y = x.
Proof.
  intros H. unfold rmod. replace (Zfloor (x / y)) with 0; [simpl; ring|].
  symmetry. apply Zfloor_imp. simpl. lra.
Qed.

Theorem mpf_mod_round s t prec r : fincanon s -> regular t -> 0 < prec ->
  exists y, mpf_mod s t prec r = Ok y /\ rv y = RND r prec (rmod (rv s) (rv t)).
Proof.
  intros Hs Ht Hp.
  pose proof (fincanon_sign s Hs) as [S1 [S2 S3]]. pose proof Ht as [T1 [T2 [T3 T4]]].
  pose proof (rv_smant s S1) as Vs. pose proof (rv_smant t T1) as Vt.
  assert (Sbc : mbc s = bitcount (mman s)) by (destruct Hs as [->|[_ [_ [_ H]]]]; [reflexivity|exact H]).
  unfold mpf_mod.
  rewrite (fincanon_not_special s Hs), (fincanon_not_special t (regular_fincanon t Ht)). cbn [orb].
  destruct s as [ssign sman sexp sbc], t as [tsign tman texp tbc]. cbn [msign mman mexp mbc] in *.
  assert (Ty : (0 < F2R (Float radix2 tman texp))%R) by (apply F2R_gt_0; exact T2).
  (* ---- shortcut 1: same sign and |x| < |y| ---- *)
  destruct ((ssign =? tsign) && (sexp + sbc <? texp)) eqn:C1.
  { apply andb_true_iff in C1 as [Es Lt]. apply Z.eqb_eq in Es. apply Z.ltb_lt in Lt. subst tsign.
    eexists. split; [reflexivity|].
    rewrite mpf_pos_round by auto. f_equal. symmetry. apply rmod_small.
    unfold rv; cbn [msign mman mexp].
    destruct (Z.eq_dec sman 0) as [Z0|NZ].
    - subst sman. rewrite F2R_0. unfold Rdiv. rewrite Rmult_0_r, Rmult_0_l. lra.
    - assert (Sp : 0 < sman) by lia.
      assert (Sx : (0 < F2R (Float radix2 sman sexp))%R) by (apply F2R_gt_0; exact Sp).
      assert (Lx : (F2R (Float radix2 sman sexp) < F2R (Float radix2 tman texp))%R).
      { pose proof (bitcount_spec sman Sp) as [_ B2].
        apply Rlt_le_trans with (bpow radix2 (sexp + sbc)).
        - unfold F2R; cbn [Fnum Fexp]. rewrite Z.add_comm, bpow_plus. apply Rmult_lt_compat_r; [apply bpow_gt_0|].
          rewrite <- IZR_pow2 by (rewrite Sbc; apply bitcount_nonneg). apply IZR_lt. rewrite Sbc. exact B2.
        - apply Rle_trans with (bpow radix2 texp); [apply bpow_le; lia|].
          unfold F2R; cbn [Fnum Fexp]. rewrite <- (Rmult_1_l (bpow radix2 texp)) at 1.
          apply Rmult_le_compat_r; [apply bpow_ge_0|]. apply IZR_le. lia. }
      replace (sgn ssign * F2R (Float radix2 sman sexp) / (sgn ssign * F2R (Float radix2 tman texp)))%R
        with (F2R (Float radix2 sman sexp) / F2R (Float radix2 tman texp))%R
        by (destruct (sgn_cases ssign S1) as [->| ->]; field; lra).
      split; [apply Rlt_le, Rdiv_lt_0_compat; lra|]. apply Rmult_lt_reg_r with (F2R (Float radix2 tman texp)); [lra|].
      unfold Rdiv. rewrite Rmult_assoc, Rinv_l by lra. lra. }
  (* ---- shortcut 2: y = +-2^texp and x a multiple of it ---- *)
  destruct ((tman =? 1) && (texp + tbc <? sexp)) eqn:C2.
  { apply andb_true_iff in C2 as [E1 Lt]. apply Z.eqb_eq in E1. apply Z.ltb_lt in Lt. subst tman. change (bitcount 1) with 1 in T4.
    eexists. split; [reflexivity|]. rewrite rv_fzero.
    rewrite Vs, Vt. rewrite (F2R_base _ sexp texp) by lia. rewrite (F2R_base _ texp texp) by lia.
    rewrite Z.sub_diag, Z.shiftl_0_r.
    assert (NT : smant (Mpf tsign 1 texp tbc) <> 0) by (unfold smant; cbn [msign mman]; destruct (tsign =? 0); lia).
    rewrite rmod_scaled by exact NT.
    replace (Z.shiftl (smant (Mpf ssign sman sexp sbc)) (sexp - texp) mod smant (Mpf tsign 1 texp tbc)) with 0.
    - rewrite Rmult_0_l, RND_0. reflexivity.
    - symmetry. unfold smant at 2; cbn [msign mman]. destruct (tsign =? 0).
      + apply Z.mod_1_r.
      + apply Z.mod_divide; [lia|]. exists (- Z.shiftl (smant (Mpf ssign sman sexp sbc)) (sexp - texp)). lia. }
  (* ---- general case ---- *)
  set (base := Z.min sexp texp).
  assert (Esm : (if ssign =? 0 then sman else - sman) = smant (Mpf ssign sman sexp sbc)) by reflexivity.
  assert (Etm : (if tsign =? 0 then tman else - tman) = smant (Mpf tsign tman texp tbc)) by reflexivity.
  rewrite Esm, Etm.
  set (S := Z.shiftl (smant (Mpf ssign sman sexp sbc)) (sexp - base)).
  set (T := Z.shiftl (smant (Mpf tsign tman texp tbc)) (texp - base)).
  assert (NT : T <> 0).
  { unfold T. rewrite Z.shiftl_mul_pow2 by (unfold base; lia).
    assert (0 < 2 ^ (texp - base)) by (apply Z.pow_pos_nonneg; unfold base; lia).
    unfold smant; cbn [msign mman]. destruct (tsign =? 0); nia. }
  destruct (Z.eqb_spec T 0) as [Z0|_]; [contradiction|].
  eexists. split; [reflexivity|].
  rewrite normalize_round; auto; try lia; [|destruct (0 <=? S mod T); auto].
  f_equal. rewrite sval_signed_abs.
  rewrite Vs, Vt. rewrite (F2R_base _ sexp base) by (unfold base; lia). rewrite (F2R_base _ texp base) by (unfold base; lia).
  cbn [mexp]. fold S T. rewrite rmod_scaled by exact NT.
  unfold F2R; cbn [Fnum Fexp]. reflexivity.
Qed.

(* the mathematical remainder has the sign of the divisor and is smaller in magnitude *)
Lemma rmod_range_pos x y : (0 < y)%R -> (0 <= rmod x y < y)%R.
Proof.
  intros Hy. unfold rmod. pose proof (Zfloor_lb (x / y)) as L. pose proof (Zfloor_ub (x / y)) as U.
  assert (E : (x = x / y * y)%R) by (field; lra).
  set (q := IZR (Zfloor (x / y))) in *. split; nra.
Qed.
Lemma rmod_range_neg x y : (y < 0)%R -> (y < rmod x y <= 0)%R.
Proof.
  intros Hy. unfold rmod. pose proof (Zfloor_lb (x / y)) as L. pose proof (Zfloor_ub (x / y)) as U.
  assert (E : (x = x / y * y)%R) by (field; lra).
  set (q := IZR (Zfloor (x / y))) in *. split; nra.
Qed.
