(* SqrtRound.v — mpf_sqrt returns the correctly rounded square root (C02, C13 exact squares). *)
From Coq Require Import ZArith Reals Bool Lia Lra.
From Flocq Require Import Core.
From MP Require Import Algo.Base Algo.Libmpf Spec.Mpf Spec.Round Proofs.Bits Proofs.Normalize Proofs.Canon
  Proofs.NormRound Proofs.Ops Proofs.Sticky.
Open Scope Z_scope.

(* truncation variant of the sticky lemma for the floor-type modes on positive numbers *)
Lemma floor_trunc N n theta : 0 <= N -> 0 <= n -> (0 <= theta < 1)%R ->
  Zfloor ((IZR N + theta) * bpow radix2 (- n)) = Z.shiftr N n.
Proof.
  intros HN Hn Hth. rewrite Z.shiftr_div_pow2 by lia.
  set (d := 2 ^ n). assert (Hd : 0 < d) by (apply Z.pow_pos_nonneg; lia).
  pose proof (Z.div_mod N d ltac:(lia)) as E. pose proof (Z.mod_pos_bound N d ltac:(lia)) as Hr.
  assert (HdR : (0 < IZR d)%R) by (apply IZR_lt; lia).
  assert (Hy : ((IZR N + theta) * bpow radix2 (- n) = IZR (N / d) + (IZR (N mod d) + theta) / IZR d)%R).
  { rewrite bpow_opp, <- (IZR_pow2 n) by lia. fold d. rewrite E at 1. rewrite plus_IZR, mult_IZR. field. lra. }
  apply Zfloor_imp. rewrite Hy, plus_IZR. simpl (IZR 1).
  assert (0 <= IZR (N mod d))%R by (apply IZR_le; lia).
  assert (IZR (N mod d) <= IZR d - 1)%R by (rewrite <- minus_IZR; apply IZR_le; lia).
  assert (0 <= (IZR (N mod d) + theta) / IZR d < 1)%R.
  { split; [apply Rmult_le_pos; [lra|left; apply Rinv_0_lt_compat; lra]|].
    apply Rmult_lt_reg_r with (IZR d); [lra|]. unfold Rdiv. rewrite Rmult_assoc, Rinv_l by lra. lra. }
  lra.
Qed.

Theorem RND_floor_trunc rm p N k theta :
  0 < p -> 0 < N -> p <= bitcount N -> (0 <= theta < 1)%R -> (rm = RF \/ rm = RD) ->
  RND rm p ((IZR N + theta) * bpow radix2 k) = RND rm p (F2R (Float radix2 N k)).
Proof.
  intros Hp HN Hb Hth Hrm.
  set (b := bitcount N). set (n := b - p).
  assert (Hx : (0 < (IZR N + theta) * bpow radix2 k)%R).
  { apply Rmult_lt_0_compat; [|apply bpow_gt_0]. assert (0 < IZR N)%R by (apply IZR_lt; lia). lra. }
  pose proof (bitcount_spec N HN) as [B1 B2]. fold b in B1, B2.
  assert (Hmag : mag radix2 ((IZR N + theta) * bpow radix2 k) = (b + k) :> Z).
  { apply mag_unique. rewrite Rabs_pos_eq by lra. split.
    - replace (b + k - 1) with ((b - 1) + k) by lia. rewrite bpow_plus.
      apply Rmult_le_compat_r; [apply bpow_ge_0|].
      rewrite <- IZR_pow2 by lia. apply Rle_trans with (IZR N); [apply IZR_le; lia|lra].
    - rewrite bpow_plus. apply Rmult_lt_compat_r; [apply bpow_gt_0|].
      rewrite <- IZR_pow2 by lia.
      assert (IZR N <= IZR (2 ^ b) - 1)%R by (rewrite <- minus_IZR; apply IZR_le; lia). lra. }
  assert (E1 : RND rm p ((IZR N + theta) * bpow radix2 k) = round radix2 (FLX_exp p) Zfloor ((IZR N + theta) * bpow radix2 k)).
  { unfold RND. destruct Hrm as [-> | ->]; [reflexivity|]. apply round_ZR_DN. lra. }
  assert (E2 : RND rm p (F2R (Float radix2 N k)) = round radix2 (FLX_exp p) Zfloor (F2R (Float radix2 N k))).
  { unfold RND. destruct Hrm as [-> | ->]; [reflexivity|]. apply round_ZR_DN. apply F2R_ge_0. simpl; lia. }
  rewrite E1, E2.
  rewrite (round_shift Zfloor N k p n) by (auto; lia).
  unfold round, cexp, FLX_exp. rewrite Hmag.
  replace (b + k - p) with (k + n) by (unfold n; lia). f_equal. f_equal.
  unfold scaled_mantissa, cexp, FLX_exp. rewrite Hmag.
  rewrite Rmult_assoc, <- bpow_plus. replace (k + - (b + k - p)) with (- n) by (unfold n; lia).
  rewrite floor_trunc by (unfold n; lia || exact Hth). rewrite floor_shift by (unfold n; lia). reflexivity.
Qed.

(* ---- integer square root versus the real one ---- *)
Lemma Zsqrt_real M : 0 <= M -> (IZR (Z.sqrt M) <= sqrt (IZR M) < IZR (Z.sqrt M) + 1)%R.
Proof.
  intros HM. pose proof (Z.sqrt_spec M HM) as [S1 S2]. pose proof (Z.sqrt_nonneg M) as S0.
  set (m := Z.sqrt M) in *.
  assert (0 <= IZR m)%R by (apply IZR_le; lia).
  split.
  - rewrite <- (sqrt_Rsqr (IZR m)) by lra. apply sqrt_le_1_alt. unfold Rsqr. rewrite <- mult_IZR. apply IZR_le. lia.
  - rewrite <- (sqrt_Rsqr (IZR m + 1)) by lra. apply sqrt_lt_1_alt. split; [apply IZR_le; lia|].
    unfold Rsqr. replace (IZR m + 1)%R with (IZR (m + 1)) by (rewrite plus_IZR; reflexivity).
    rewrite <- mult_IZR. apply IZR_lt. unfold Z.succ in S2. lia.
Qed.

Lemma Zsqrt_exact M : 0 <= M -> Z.sqrt M * Z.sqrt M = M -> sqrt (IZR M) = IZR (Z.sqrt M).
Proof.
  intros HM E. rewrite <- E at 1. rewrite mult_IZR. apply sqrt_square. apply IZR_le, Z.sqrt_nonneg.
Qed.

Lemma sqrt_bpow_even j : sqrt (bpow radix2 (2 * j)) = bpow radix2 j.
Proof.
  replace (2 * j) with (j + j) by lia. rewrite bpow_plus. apply sqrt_square. apply bpow_ge_0.
Qed.

Lemma sqrt_bits M b : 0 < M -> bitcount M = b -> 2 * ((b + 1) / 2) - 1 <= b ->
  (b + 1) / 2 <= bitcount (Z.sqrt M) /\ 0 < Z.sqrt M.
Proof.
  intros HM Hb _. pose proof (bitcount_spec M HM) as [B1 B2]. rewrite Hb in *.
  pose proof (bitcount_pos M HM). 
  set (h := (b + 1) / 2).
  assert (N2 : 2 <> 0) by lia. assert (P2 : 0 < 2) by lia.
  assert (Hh : 2 * h - 2 <= b - 1) by (unfold h; pose proof (Z.div_mod (b + 1) 2 N2); pose proof (Z.mod_pos_bound (b + 1) 2 P2); lia).
  assert (1 <= h) by (unfold h; apply Z.div_le_lower_bound; lia).
  assert (L : 2 ^ (h - 1) <= Z.sqrt M).
  { apply Z.sqrt_le_square; [lia|apply Z.pow_nonneg; lia|].
    rewrite <- Z.pow_add_r by lia. apply Z.le_trans with (2 ^ (b - 1)); [apply Z.pow_le_mono_r; lia|lia]. }
  assert (0 < 2 ^ (h - 1)) by (apply Z.pow_pos_nonneg; lia).
  split; [|lia].
  destruct (Z_lt_le_dec (bitcount (Z.sqrt M)) h) as [Hlt|]; [|lia]. exfalso.
  pose proof (bitcount_spec (Z.sqrt M) ltac:(lia)) as [_ C2].
  assert (2 ^ bitcount (Z.sqrt M) <= 2 ^ (h - 1)) by (apply Z.pow_le_mono_r; lia). lia.
Qed.

(* value of an even-exponent number under the square root *)
Lemma sqrt_value M e : 0 <= M -> Z.even e = true ->
  sqrt (F2R (Float radix2 M e)) = (sqrt (IZR M) * bpow radix2 (e / 2))%R.
Proof.
  intros HM He. unfold F2R; simpl Fnum; simpl Fexp.
  rewrite sqrt_mult by (try apply IZR_le; try apply bpow_ge_0; lia).
  f_equal. rewrite <- (sqrt_bpow_even (e / 2)). f_equal. f_equal.
  pose proof (Zeven_div2 e ltac:(apply Zeven_bool_iff; exact He)) as H2. rewrite Z.div2_div in H2. lia.
Qed.

Theorem mpf_sqrt_round s prec r : regular s -> msign s = 0 -> 0 < prec ->
  exists y, mpf_sqrt s prec r = Ok y /\ rv y = RND r prec (sqrt (rv s)).
Proof.
  intros [S1 [S2 [S3 S4]]] Hsg Hp. unfold mpf_sqrt.
  destruct s as [sign man exp bc]; cbn [msign mman mexp mbc] in *. subst sign. cbn [Z.eqb negb].
  destruct (Z.eqb_spec man 0); [lia|].
  assert (Hrv : rv (Mpf 0 man exp bc) = F2R (Float radix2 man exp)).
  { unfold rv, sgn; cbn [msign mman mexp Z.eqb]. ring. }
  rewrite Hrv.
  destruct (negb (Z.odd exp) && (man =? 1)) eqn:Hfast.
  - (* exact power of four *)
    apply andb_prop in Hfast as [Ho Hm]. apply Z.eqb_eq in Hm. subst man.
    eexists. split; [reflexivity|].
    rewrite normalize1_round; auto; try lia.
    f_equal. rewrite sqrt_value by (try lia; rewrite <- Z.negb_odd; exact Ho).
    unfold sval, sgn, F2R; simpl. rewrite sqrt_1. ring.
  - remember (Z.odd exp) as odd_exp eqn:Hoe. symmetry in Hoe.
    set (man' := if odd_exp then Z.shiftl man 1 else man).
    set (exp' := if odd_exp then exp - 1 else exp).
    set (bc' := if odd_exp then bc + 1 else bc).
    assert (Hsplit : (if odd_exp then (Z.shiftl man 1, exp - 1, bc + 1) else (man, exp, bc)) = (man', exp', bc')).
    { unfold man', exp', bc'. destruct odd_exp; reflexivity. }
    rewrite Hsplit.
    assert (Hm' : 0 < man') by (unfold man'; destruct odd_exp; [apply shiftl_pos; lia|lia]).
    assert (Hbc' : bc' = bitcount man').
    { unfold bc', man'. destruct odd_exp; [|exact S4].
      rewrite Z.shiftl_mul_pow2 by lia. rewrite bitcount_mul_pow2 by lia. lia. }
    assert (Hev : Z.even exp' = true).
    { unfold exp'. destruct odd_exp.
      - rewrite Z.even_sub. rewrite <- Z.negb_odd, Hoe. reflexivity.
      - rewrite <- Z.negb_odd, Hoe. reflexivity. }
    assert (Hv' : F2R (Float radix2 man exp) = F2R (Float radix2 man' exp')).
    { unfold man', exp'. destruct odd_exp; [|reflexivity].
      unfold F2R; cbn [Fnum Fexp]. rewrite Z.shiftl_mul_pow2 by lia. change (2 ^ 1) with 2.
      rewrite mult_IZR. replace (exp - 1) with (exp + - (1)) by lia. rewrite bpow_plus. simpl (bpow radix2 (- (1))). simpl (IZR 2). lra. }
    rewrite Hv'.
    set (shift0 := Z.max 4 (2 * prec - bc' + 4)).
    set (shift := shift0 + Z.land shift0 1).
    assert (Hsh : 4 <= shift /\ 2 * prec - bc' + 4 <= shift /\ Z.even shift = true).
    { unfold shift. assert (Z.land shift0 1 = shift0 mod 2) by (change 1 with (Z.ones 1); apply Z.land_ones; lia).
      rewrite H. pose proof (Z.mod_pos_bound shift0 2 ltac:(lia)).
      assert (4 <= shift0 /\ 2 * prec - bc' + 4 <= shift0) by (unfold shift0; lia).
      repeat split; try lia.
      rewrite Z.even_add. rewrite <- (Z.negb_odd (shift0 mod 2)).
      rewrite Zodd_mod. rewrite Z.mod_mod by lia.
      destruct (Z.eq_dec (shift0 mod 2) 0) as [E|E].
      + rewrite E. simpl. rewrite Zeven_mod, E. reflexivity.
      + assert (shift0 mod 2 = 1) by lia. rewrite H2. simpl. rewrite Zeven_mod, H2. reflexivity. }
    destruct Hsh as [Hs4 [Hs2 Hse]].
    set (M := Z.shiftl man' shift).
    assert (HM : M = man' * 2 ^ shift) by (unfold M; apply Z.shiftl_mul_pow2; lia).
    assert (HMpos : 0 < M) by (rewrite HM; apply Z.mul_pos_pos; [lia|apply Z.pow_pos_nonneg; lia]).
    assert (HMb : bitcount M = bc' + shift) by (rewrite HM, bitcount_mul_pow2 by lia; lia).
    (* the value under the root, written with M *)
    assert (Hes : Z.even (exp' - shift) = true) by (rewrite Z.even_sub, Hev, Hse; reflexivity).
    assert (HvM : F2R (Float radix2 man' exp') = F2R (Float radix2 M (exp' - shift))).
    { unfold F2R; simpl Fnum; simpl Fexp. rewrite HM, mult_IZR, IZR_pow2 by lia.
      replace (exp' - shift) with (exp' + - shift) by lia. rewrite bpow_plus, bpow_opp. field. apply Rgt_not_eq, bpow_gt_0. }
    rewrite HvM, sqrt_value by (auto; lia).
    pose proof (Zsqrt_real M ltac:(lia)) as [R1 R2].
    assert (N2 : 2 <> 0) by lia. assert (P2 : 0 < 2) by lia.
    assert (Hside : 2 * ((bc' + shift + 1) / 2) - 1 <= bc' + shift).
    { pose proof (Z.div_mod (bc' + shift + 1) 2 N2); pose proof (Z.mod_pos_bound (bc' + shift + 1) 2 P2); lia. }
    destruct (sqrt_bits M (bc' + shift) HMpos HMb Hside) as [Hmb Hmpos].
    assert (Hmb' : prec + 2 <= bitcount (Z.sqrt M)).
    { apply Z.le_trans with ((bc' + shift + 1) / 2); [|exact Hmb]. apply Z.div_le_lower_bound; lia. }
    set (k := (exp' - shift) / 2).
    set (theta := (sqrt (IZR M) - IZR (Z.sqrt M))%R).
    assert (Hth : (0 <= theta < 1)%R) by (unfold theta; lra).
    assert (Hdecomp : (sqrt (IZR M) * bpow radix2 k = (IZR (Z.sqrt M) + theta) * bpow radix2 k)%R) by (unfold theta; f_equal; ring).
    assert (Hexact : forall rr, Z.sqrt M * Z.sqrt M = M ->
              rv (from_man_exp (Z.sqrt M) k prec rr) = RND rr prec (sqrt (IZR M) * bpow radix2 k)).
    { intros rr E. rewrite from_man_exp_round by lia. f_equal. unfold F2R; simpl Fnum; simpl Fexp.
      rewrite Zsqrt_exact by (auto; lia). reflexivity. }
    assert (Hfloor : forall rr, (rr = RF \/ rr = RD) ->
              rv (from_man_exp (Z.sqrt M) k prec rr) = RND rr prec (sqrt (IZR M) * bpow radix2 k)).
    { intros rr Hrr. rewrite from_man_exp_round by lia. rewrite Hdecomp. symmetry. apply RND_floor_trunc; auto; lia. }
    assert (Hsticky : forall rr, Z.sqrt M * Z.sqrt M <> M ->
              rv (from_man_exp (Z.shiftl (Z.sqrt M) 1 + 1) ((exp' - (shift + 2)) / 2) prec rr) = RND rr prec (sqrt (IZR M) * bpow radix2 k)).
    { intros rr NE. rewrite from_man_exp_round by lia.
      assert (Z.shiftl (Z.sqrt M) 1 + 1 = 2 * Z.sqrt M + 1) as -> by (rewrite Z.shiftl_mul_pow2 by lia; change (2 ^ 1) with 2; lia).
      assert ((exp' - (shift + 2)) / 2 = k - 1) as ->.
      { unfold k. replace (exp' - (shift + 2)) with ((exp' - shift) + (-1) * 2) by lia. rewrite Z.div_add by lia. lia. }
      rewrite Hdecomp.
      pose proof (RND_sticky rr prec 0 (Z.sqrt M) k theta Hp ltac:(auto) Hmpos ltac:(lia)) as Hst.
      unfold sgn, sval in Hst. cbn [Z.eqb] in Hst. rewrite !Rmult_1_l in Hst. symmetry. apply Hst.
      split; [|lra]. unfold theta.
      assert (IZR (Z.sqrt M) <> sqrt (IZR M)).
      { intros E. apply NE. apply eq_IZR. rewrite mult_IZR, E. apply sqrt_sqrt. apply IZR_le. lia. }
      lra. }
    pose proof (Z.sqrtrem_spec M ltac:(lia)) as Hsr.
    assert (Hsqr : forall q rem, Z.sqrtrem M = (q, rem) -> q = Z.sqrt M /\ (rem = 0 <-> Z.sqrt M * Z.sqrt M = M)).
    { intros q rem E. rewrite E in Hsr. destruct Hsr as [E1 E2].
      assert (q = Z.sqrt M) by (symmetry; apply Z.sqrt_unique; unfold Z.succ; nia). subst q. split; [reflexivity|lia]. }
    destruct r.
    + destruct (Z.sqrtrem M) as [q rem] eqn:E. destruct (Hsqr q rem eq_refl) as [-> Hrem].
      destruct (Z.eqb_spec rem 0); cbn [negb]; eexists; (split; [reflexivity|]).
      * apply Hexact; tauto. * apply Hsticky; tauto.
    + eexists. split; [reflexivity|]. apply Hfloor; auto.
    + destruct (Z.sqrtrem M) as [q rem] eqn:E. destruct (Hsqr q rem eq_refl) as [-> Hrem].
      destruct (Z.eqb_spec rem 0); cbn [negb]; eexists; (split; [reflexivity|]).
      * apply Hexact; tauto. * apply Hsticky; tauto.
    + eexists. split; [reflexivity|]. apply Hfloor; auto.
    + destruct (Z.sqrtrem M) as [q rem] eqn:E. destruct (Hsqr q rem eq_refl) as [-> Hrem].
      destruct (Z.eqb_spec rem 0); cbn [negb]; eexists; (split; [reflexivity|]).
      * apply Hexact; tauto. * apply Hsticky; tauto.
Qed.
