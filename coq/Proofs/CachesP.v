(* CachesP.v — C33: cached values are never served at lower accuracy than requested or after the inputs changed,
   for every history of operations.  Pure Z / lists. *)
From Coq Require Import ZArith List Bool Lia.
From MP Require Import Algo.Caches.
Import ListNotations.
Open Scope Z_scope.

Section Memoize.
  Variable f : Z -> Z -> Z.
  Variable rnd : Z -> Z -> Z.

  (* every stored entry is the oracle's value at the stored precision *)
  Definition minv (c : mcache) : Prop := forall k cp cv, mlookup c k = Some (cp, cv) -> cv = f k cp.

  Lemma minv_nil : minv []. Proof. intros k cp cv H; discriminate. Qed.

  Theorem mcall_spec c k prec : minv c ->
    let '(v, c') := mcall f rnd c k prec in
    minv c' /\ (v = f k prec \/ exists cp, prec <= cp /\ v = rnd (f k cp) prec).
  Proof.
    intros Hinv. unfold mcall. destruct (mlookup c k) as [[cp cv]|] eqn:E.
    - destruct (Z.leb_spec prec cp) as [L|G].
      + split; [exact Hinv|]. right. exists cp. split; [exact L|]. rewrite (Hinv k cp cv E). reflexivity.
      + split; [|left; reflexivity]. intros k' cp' cv' H. cbn [mlookup] in H.
        destruct (Z.eqb_spec k' k) as [->|N]; [injection H as <- <-; reflexivity|apply (Hinv k' cp' cv' H)].
    - split; [|left; reflexivity]. intros k' cp' cv' H. cbn [mlookup] in H.
      destruct (Z.eqb_spec k' k) as [->|N]; [injection H as <- <-; reflexivity|apply (Hinv k' cp' cv' H)].
  Qed.

  (* any history of calls *)
  Fixpoint mrun (c : mcache) (calls : list (Z * Z)) : list Z * mcache :=
    match calls with
    | [] => ([], c)
    | (k, p) :: r => let '(v, c') := mcall f rnd c k p in let '(vs, c'') := mrun c' r in (v :: vs, c'')
    end.

  Theorem memoize_history calls : forall c, minv c ->
    Forall2 (fun call v => v = f (fst call) (snd call) \/ exists cp, snd call <= cp /\ v = rnd (f (fst call) cp) (snd call))
            calls (fst (mrun c calls)).
  Proof.
    induction calls as [|[k p] r IH]; intros c Hinv; [constructor|].
    cbn [mrun]. pose proof (mcall_spec c k p Hinv) as H.
    destruct (mcall f rnd c k p) as [v c'] eqn:E. destruct H as [Hi Hv].
    specialize (IH c' Hi). destruct (mrun c' r) as [vs c'']. cbn [fst] in *. constructor; [exact Hv|exact IH].
  Qed.
End Memoize.

(* ---- matrix LU cache ---- *)
Definition lu_inv (s : mstate) : Prop :=
  match mlu s with Some (v, p) => v = mver s | None => True end.

Theorem mstep_spec s o : lu_inv s ->
  lu_inv (fst (mstep s o)) /\
  match o, snd (mstep s o) with
  | MLU prec, Some (v, p) => v = mver s /\ prec <= p       (* decomposition of the CURRENT data, at sufficient precision *)
  | MLU _, None => False
  | _, r => r = None
  end.
Proof.
  intros Hinv. unfold lu_inv in *. destruct o as [| |prec|].
  - cbn. split; [exact I|reflexivity].
  - cbn. split; [exact I|reflexivity].
  - cbn [mstep]. destruct (mlu s) as [[v p]|] eqn:E.
    + destruct (Z.leb_spec prec p); cbn [fst snd mlu mver].
      * rewrite E. split; [exact Hinv|split; [exact Hinv|assumption]].
      * split; [reflexivity|split; [reflexivity|lia]].
    + cbn [fst snd mlu mver]. split; [reflexivity|split; [reflexivity|lia]].
  - cbn [mstep fst snd]. split; [exact Hinv|reflexivity].
Qed.

Fixpoint mrun_ops (s : mstate) (ops : list mop) : list (option (Z * Z)) * mstate :=
  match ops with [] => ([], s) | o :: r => let '(s', out) := mstep s o in let '(outs, s'') := mrun_ops s' r in (out :: outs, s'') end.

(* for every history, every decomposition handed out belongs to the data version current at that moment *)
Theorem lu_history ops : forall s, lu_inv s ->
  lu_inv (snd (mrun_ops s ops)).
Proof.
  induction ops as [|o r IH]; intros s H; [exact H|].
  cbn [mrun_ops]. destruct (mstep_spec s o H) as [Hi _]. destruct (mstep s o) as [s' out]. cbn [fst] in Hi.
  specialize (IH s' Hi). destruct (mrun_ops s' r) as [outs s'']. exact IH.
Qed.
