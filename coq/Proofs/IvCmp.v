(* IvCmp.v — C16: the three-valued interval comparisons are sound and complete for finite endpoints:
   True exactly when the relation holds for every pair of member points, False exactly when it fails for every pair. *)
From Coq Require Import ZArith Reals Bool Lia Lra.
From Flocq Require Import Core.
From MP Require Import Algo.Base Algo.Libmpf Algo.Libmpi Spec.Mpf Spec.Round Proofs.Cmp.
Open Scope Z_scope.

Definition valid_iv (s : mpi) : Prop := fincanon (fst s) /\ fincanon (snd s) /\ (rv (fst s) <= rv (snd s))%R.
Definition in_iv (s : mpi) (x : R) : Prop := (rv (fst s) <= x <= rv (snd s))%R.

Theorem mpi_lt_true_iff s t : valid_iv s -> valid_iv t ->
  (mpi_lt s t = Some true <-> forall x y, in_iv s x -> in_iv t y -> (x < y)%R).
Proof.
  intros [Sa [Sb Sv]] [Ta [Tb Tv]]. unfold mpi_lt, in_iv.
  pose proof (mpf_lt_spec (snd s) (fst t) Sb Ta) as L. pose proof (mpf_ge_spec (fst s) (snd t) Sa Tb) as G.
  destruct (mpf_lt (snd s) (fst t)) eqn:E1.
  - split; [|reflexivity]. intros _ x y Hx Hy. assert (rv (snd s) < rv (fst t))%R by (apply L; reflexivity). lra.
  - split.
    + destruct (mpf_ge (fst s) (snd t)); discriminate.
    + intros H. exfalso. specialize (H (rv (snd s)) (rv (fst t)) ltac:(lra) ltac:(lra)).
      assert (true = true) as Tt by reflexivity. apply L in H. congruence.
Qed.

Theorem mpi_lt_false_iff s t : valid_iv s -> valid_iv t ->
  (mpi_lt s t = Some false <-> forall x y, in_iv s x -> in_iv t y -> ~ (x < y)%R).
Proof.
  intros [Sa [Sb Sv]] [Ta [Tb Tv]]. unfold mpi_lt, in_iv.
  pose proof (mpf_lt_spec (snd s) (fst t) Sb Ta) as L. pose proof (mpf_ge_spec (fst s) (snd t) Sa Tb) as G.
  destruct (mpf_lt (snd s) (fst t)) eqn:E1.
  - split; [discriminate|]. intros H. exfalso.
    assert (rv (snd s) < rv (fst t))%R by (apply L; reflexivity).
    apply (H (rv (snd s)) (rv (fst t))); lra.
  - destruct (mpf_ge (fst s) (snd t)) eqn:E2.
    + split; [|reflexivity]. intros _ x y Hx Hy. assert (rv (snd t) <= rv (fst s))%R by (apply G; reflexivity). lra.
    + split; [discriminate|]. intros H. exfalso.
      assert (~ (rv (snd t) <= rv (fst s))%R) by (intros K; apply G in K; congruence).
      apply (H (rv (fst s)) (rv (snd t))); lra.
Qed.

Theorem mpi_le_true_iff s t : valid_iv s -> valid_iv t ->
  (mpi_le s t = Some true <-> forall x y, in_iv s x -> in_iv t y -> (x <= y)%R).
Proof.
  intros [Sa [Sb Sv]] [Ta [Tb Tv]]. unfold mpi_le, in_iv.
  pose proof (mpf_le_spec (snd s) (fst t) Sb Ta) as L. pose proof (mpf_gt_spec (fst s) (snd t) Sa Tb) as G.
  destruct (mpf_le (snd s) (fst t)) eqn:E1.
  - split; [|reflexivity]. intros _ x y Hx Hy. assert (rv (snd s) <= rv (fst t))%R by (apply L; reflexivity). lra.
  - split.
    + destruct (mpf_gt (fst s) (snd t)); discriminate.
    + intros H. exfalso. specialize (H (rv (snd s)) (rv (fst t)) ltac:(lra) ltac:(lra)). apply L in H. congruence.
Qed.

Theorem mpi_le_false_iff s t : valid_iv s -> valid_iv t ->
  (mpi_le s t = Some false <-> forall x y, in_iv s x -> in_iv t y -> ~ (x <= y)%R).
Proof.
  intros [Sa [Sb Sv]] [Ta [Tb Tv]]. unfold mpi_le, in_iv.
  pose proof (mpf_le_spec (snd s) (fst t) Sb Ta) as L. pose proof (mpf_gt_spec (fst s) (snd t) Sa Tb) as G.
  destruct (mpf_le (snd s) (fst t)) eqn:E1.
  - split; [discriminate|]. intros H. exfalso.
    assert (rv (snd s) <= rv (fst t))%R by (apply L; reflexivity).
    apply (H (rv (snd s)) (rv (fst t))); lra.
  - destruct (mpf_gt (fst s) (snd t)) eqn:E2.
    + split; [|reflexivity]. intros _ x y Hx Hy. assert (rv (snd t) < rv (fst s))%R by (apply G; reflexivity). lra.
    + split; [discriminate|]. intros H. exfalso.
      assert (~ (rv (snd t) < rv (fst s))%R) by (intros K; apply G in K; congruence).
      apply (H (rv (fst s)) (rv (snd t))); lra.
Qed.

(* > and >= are the mirrored calls, exactly as in the code *)
Theorem mpi_gt_ge_mirror s t : mpi_gt s t = mpi_lt t s /\ mpi_ge s t = mpi_le t s.
Proof. split; reflexivity. Qed.
