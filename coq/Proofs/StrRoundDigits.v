(* StrRoundDigits.v — C08: the decimal rounding step of to_str.  The digit list of sd is its base-10 expansion, and keeping
   dps of its L digits yields round-half-up of sd / 10^(L-dps) (with the carry into a new leading digit moving the
   exponent): the printed digits differ from sd by at most half a unit of the last printed place.  Together with
   to_digits_exact (sd = floor(x * 10^fixdps) when the mantissa fits) the printed decimal is within
   1/2 + 10^-(L-dps) units of the last place of x.  Pure Z / lists. *)
From Coq Require Import ZArith List Bool Lia.
From MP Require Import Algo.Base Algo.Libmpf Algo.Str.
Import ListNotations.
Open Scope Z_scope.

Definition dvalA (a : Z) (l : list Z) : Z := fold_left (fun a d => 10 * a + d) l a.
Definition dval (l : list Z) : Z := dvalA 0 l.
Definition digit (d : Z) : Prop := 0 <= d <= 9.

Lemma zlen_cons {A} (x : A) l : zlen (x :: l) = 1 + zlen l.
Proof. unfold zlen. cbn [length]. lia. Qed.
Lemma zlen_nonneg {A} (l : list A) : 0 <= zlen l.
Proof. unfold zlen. lia. Qed.
Lemma zlen_app {A} (l1 l2 : list A) : zlen (l1 ++ l2) = zlen l1 + zlen l2.
Proof. unfold zlen. rewrite app_length. lia. Qed.

Lemma dvalA_spec l : forall a, dvalA a l = a * 10 ^ zlen l + dval l.
Proof.
  induction l as [|d l IH]; intros a.
  - unfold dval, dvalA, zlen. cbn. lia.
  - change (dvalA a (d :: l)) with (dvalA (10 * a + d) l). change (dval (d :: l)) with (dvalA (10 * 0 + d) l).
    rewrite (IH (10 * a + d)), (IH (10 * 0 + d)). rewrite zlen_cons, Z.pow_add_r by (pose proof (zlen_nonneg l); lia).
    ring.
Qed.

Lemma dval_cons d l : dval (d :: l) = d * 10 ^ zlen l + dval l.
Proof. change (dval (d :: l)) with (dvalA (10 * 0 + d) l). rewrite dvalA_spec. ring. Qed.

Lemma dval_app l1 l2 : dval (l1 ++ l2) = dval l1 * 10 ^ zlen l2 + dval l2.
Proof.
  unfold dval at 1. unfold dvalA. rewrite fold_left_app. change (dvalA (dval l1) l2 = dval l1 * 10 ^ zlen l2 + dval l2).
  apply dvalA_spec.
Qed.

Lemma dval_bound l : Forall digit l -> 0 <= dval l < 10 ^ zlen l.
Proof.
  induction 1 as [|d l Hd Hl IH].
  - unfold dval, dvalA, zlen. cbn. lia.
  - rewrite dval_cons, zlen_cons, Z.pow_add_r by (pose proof (zlen_nonneg l); lia).
    unfold digit in Hd. assert (0 < 10 ^ zlen l) by (apply Z.pow_pos_nonneg; [lia|apply zlen_nonneg]). nia.
Qed.

(* ---- dec_digits is the base-10 expansion ---- *)
Lemma dec_digits_fuel_spec : forall fuel n acc, 0 <= n < 10 ^ Z.of_nat fuel -> Forall digit acc ->
  Forall digit (dec_digits_fuel fuel n acc) /\ dval (dec_digits_fuel fuel n acc) = n * 10 ^ zlen acc + dval acc.
Proof.
  induction fuel as [|f IH]; intros n acc Hn Ha.
  - change (10 ^ Z.of_nat 0) with 1 in Hn. assert (n = 0) as -> by lia. cbn [dec_digits_fuel]. split; [exact Ha|lia].
  - cbn [dec_digits_fuel]. destruct (Z.ltb_spec n 10) as [L|G].
    + split; [constructor; [unfold digit; lia|exact Ha]|]. apply dval_cons.
    + rewrite Nat2Z.inj_succ, Z.pow_succ_r in Hn by lia.
      pose proof (Z.div_mod n 10 ltac:(lia)) as DM. pose proof (Z.mod_pos_bound n 10 ltac:(lia)) as MB.
      destruct (IH (n / 10) (n mod 10 :: acc)) as [F V].
      * split; [apply Z.div_pos; lia|]. apply Z.div_lt_upper_bound; lia.
      * constructor; [unfold digit; lia|exact Ha].
      * split; [exact F|]. rewrite V, dval_cons, zlen_cons, Z.pow_add_r by (pose proof (zlen_nonneg acc); lia).
        set (T := 10 ^ zlen acc). replace (n * T) with ((10 * (n / 10) + n mod 10) * T) by (rewrite <- DM; ring). ring.
Qed.

Lemma pow2_le_pow10 k : 0 <= k -> 2 ^ k <= 10 ^ k.
Proof. intros Hk. apply Z.pow_le_mono_l. lia. Qed.

Lemma dec_digits_spec n : 0 <= n -> Forall digit (dec_digits n) /\ dval (dec_digits n) = n.
Proof.
  intros Hn. unfold dec_digits.
  destruct (dec_digits_fuel_spec (S (Z.to_nat (Z.log2 n))) n [] ) as [F V].
  - split; [exact Hn|]. rewrite Nat2Z.inj_succ, Z2Nat.id by apply Z.log2_nonneg.
    destruct (Z.eq_dec n 0) as [->|ne]; [cbn; lia|].
    pose proof (Z.log2_spec n ltac:(lia)) as [_ U]. pose proof (pow2_le_pow10 (Z.succ (Z.log2 n)) ltac:(pose proof (Z.log2_nonneg n); lia)). lia.
  - constructor.
  - split; [exact F|]. rewrite V. unfold dval, dvalA, zlen. cbn. lia.
Qed.

(* ---- prefixes and single digits of an expansion ---- *)
Lemma Forall_firstn {A} (P : A -> Prop) k l : Forall P l -> Forall P (firstn k l).
Proof. intros H. revert k. induction H as [|x l Hx Hl IH]; intros [|k]; cbn [firstn]; constructor; auto. Qed.
Lemma Forall_skipn {A} (P : A -> Prop) k l : Forall P l -> Forall P (skipn k l).
Proof. intros H. revert k. induction H as [|x l Hx Hl IH]; intros [|k]; cbn [skipn]; auto. Qed.

Lemma zlen_firstn {A} k (l : list A) : (k <= length l)%nat -> zlen (firstn k l) = Z.of_nat k.
Proof. intros H. unfold zlen. rewrite firstn_length. lia. Qed.
Lemma zlen_skipn {A} k (l : list A) : zlen (skipn k l) = zlen l - Z.of_nat (Nat.min k (length l)).
Proof. unfold zlen. rewrite skipn_length. lia. Qed.

Lemma dval_firstn k l : Forall digit l -> (k <= length l)%nat -> dval (firstn k l) = dval l / 10 ^ (zlen l - Z.of_nat k).
Proof.
  intros F Hk.
  assert (D : dval l = dval (firstn k l) * 10 ^ zlen (skipn k l) + dval (skipn k l)) by (rewrite <- dval_app, firstn_skipn; reflexivity).
  assert (E : zlen (skipn k l) = zlen l - Z.of_nat k) by (rewrite zlen_skipn; lia).
  pose proof (dval_bound _ (Forall_skipn digit k l F)) as B. rewrite E in B, D.
  apply Z.div_unique with (dval (skipn k l)); [left; exact B|]. rewrite D at 1. ring.
Qed.

Lemma nth_skipn_hd {A} k (l : list A) d : nth k l d = hd d (skipn k l).
Proof. revert l. induction k as [|k IH]; intros [|x l]; cbn; auto. Qed.

Lemma dval_nth k l : Forall digit l -> (k < length l)%nat ->
  nth k l 0 = (dval l / 10 ^ (zlen l - Z.of_nat k - 1)) mod 10.
Proof.
  intros F Hk. rewrite nth_skipn_hd.
  destruct (skipn k l) as [|d rest] eqn:E.
  { pose proof (skipn_length k l) as SL. rewrite E in SL. cbn in SL. lia. }
  cbn [hd].
  assert (ER : zlen rest = zlen l - Z.of_nat k - 1).
  { pose proof (zlen_skipn k l) as Z1. rewrite E, zlen_cons in Z1. lia. }
  pose proof (Forall_skipn digit k l F) as FS. rewrite E in FS. inversion FS as [|? ? Hd Hr]; subst.
  assert (D : dval l = dval (firstn k l) * 10 ^ zlen (d :: rest) + dval (d :: rest)) by (rewrite <- dval_app, <- E, firstn_skipn; reflexivity).
  rewrite D, dval_cons, zlen_cons.
  pose proof (dval_bound rest Hr) as B. rewrite ER in *.
  set (u := 10 ^ (zlen l - Z.of_nat k - 1)) in *.
  assert (Hu : 0 < u) by (apply Z.pow_pos_nonneg; [lia|unfold zlen in *; lia]).
  rewrite Z.pow_add_r by (unfold zlen in *; lia). change (10 ^ 1) with 10. fold u.
  replace (dval (firstn k l) * (10 * u) + (d * u + dval rest)) with ((dval (firstn k l) * 10 + d) * u + dval rest) by ring.
  rewrite Z.div_add_l by lia. rewrite (Z.div_small (dval rest) u) by lia. rewrite Z.add_0_r.
  rewrite Z.add_comm, Z.mod_add by lia. unfold digit in Hd. rewrite Z.mod_small by lia. reflexivity.
Qed.

(* ---- digits_k: exactly k digits ---- *)
Lemma digits_k_spec : forall k n acc, 0 <= n < 10 ^ Z.of_nat k -> Forall digit acc ->
  Forall digit (digits_k k n acc) /\ dval (digits_k k n acc) = n * 10 ^ zlen acc + dval acc /\
  zlen (digits_k k n acc) = Z.of_nat k + zlen acc.
Proof.
  induction k as [|k IH]; intros n acc Hn Ha.
  - change (10 ^ Z.of_nat 0) with 1 in Hn. assert (n = 0) as -> by lia. cbn [digits_k]. split; [exact Ha|split; lia].
  - cbn [digits_k]. rewrite Nat2Z.inj_succ, Z.pow_succ_r in Hn by lia.
    pose proof (Z.div_mod n 10 ltac:(lia)) as DM. pose proof (Z.mod_pos_bound n 10 ltac:(lia)) as MB.
    destruct (IH (n / 10) (n mod 10 :: acc)) as [F [V Ln]].
    + split; [apply Z.div_pos; lia|]. apply Z.div_lt_upper_bound; lia.
    + constructor; [unfold digit; lia|exact Ha].
    + split; [exact F|]. split.
      * rewrite V, dval_cons, zlen_cons, Z.pow_add_r by (pose proof (zlen_nonneg acc); lia).
        set (T := 10 ^ zlen acc). replace (n * T) with ((10 * (n / 10) + n mod 10) * T) by (rewrite <- DM; ring). ring.
      * rewrite Ln, zlen_cons. lia.
Qed.

Lemma dval_repeat0 k : dval (repeat 0 k) = 0.
Proof.
  induction k as [|k IH]; [reflexivity|]. cbn [repeat]. rewrite dval_cons, IH. lia.
Qed.
Lemma zlen_repeat {A} (x : A) k : zlen (repeat x k) = Z.of_nat k.
Proof. unfold zlen. rewrite repeat_length. reflexivity. Qed.

(* ---- the rounding step ---- *)
Definition half_up (sd u : Z) : Z := if 2 * (sd mod u) <? u then sd / u else sd / u + 1.

Theorem round_digits_spec sd dps e : 0 < sd -> 0 < dps ->
  let L := zlen (dec_digits sd) in
  let '(dg, e') := round_digits sd dps e in
  Forall digit dg /\
  (L <= dps -> dval dg = sd /\ e' = e) /\
  (dps < L -> zlen dg = dps /\ (e' = e \/ e' = e + 1) /\
              dval dg * 10 ^ (e' - e) = half_up sd (10 ^ (L - dps))).
Proof.
  intros Hsd Hd. cbv zeta. unfold round_digits.
  destruct (dec_digits_spec sd ltac:(lia)) as [F V].
  set (all := dec_digits sd) in *. set (L := zlen all).
  assert (HL : 0 <= L) by apply zlen_nonneg.
  destruct (Z.ltb_spec dps L) as [Hlt|Hge]; cbn [andb].
  2:{ (* fewer digits than requested: all of them, exactly *)
    assert (E : firstn (Z.to_nat dps) all = all) by (apply firstn_all2; unfold L, zlen in Hge; lia).
    rewrite E. split; [exact F|]. split; [intros _; split; [exact V|reflexivity]|lia]. }
  assert (Hk : (Z.to_nat dps < length all)%nat) by (unfold L, zlen in Hlt; lia).
  pose proof (dval_nth (Z.to_nat dps) all F Hk) as Hn. rewrite V, Z2Nat.id in Hn by lia. fold L in Hn.
  pose proof (dval_firstn (Z.to_nat dps) all F ltac:(lia)) as Hf. rewrite V, Z2Nat.id in Hf by lia. fold L in Hf.
  set (u := 10 ^ (L - dps)) in *.
  assert (Hu : 0 < u) by (apply Z.pow_pos_nonneg; lia).
  assert (Eu : u = 10 * 10 ^ (L - dps - 1)).
  { unfold u. replace (L - dps) with (Z.succ (L - dps - 1)) at 1 by lia. rewrite Z.pow_succ_r by lia. reflexivity. }
  set (v := 10 ^ (L - dps - 1)) in *.
  assert (Hv : 0 < v) by (apply Z.pow_pos_nonneg; lia).
  (* the digit after the kept ones decides on which side of the half sd mod u lies *)
  assert (DIG : nth (Z.to_nat dps) all 0 = (sd mod u) / v).
  { rewrite Hn. rewrite Eu. rewrite Z.mul_comm. rewrite Z.rem_mul_r by lia.
    rewrite Z.mul_comm, Z.div_add by lia. rewrite (Z.div_small (sd mod v) v) by (apply Z.mod_pos_bound; lia). lia. }
  pose proof (dval_bound all F) as B. rewrite V in B. fold L in B.
  pose proof (Z.div_mod sd u ltac:(lia)) as DM. pose proof (Z.mod_pos_bound sd u Hu) as MB.
  assert (QB : sd / u < 10 ^ dps).
  { apply Z.div_lt_upper_bound; [lia|]. unfold u. rewrite <- Z.pow_add_r by lia. replace (L - dps + dps) with L by lia. lia. }
  assert (Q0 : 0 <= sd / u) by (apply Z.div_pos; lia).
  pose proof (Z.div_mod (sd mod u) v ltac:(lia)) as DM2. pose proof (Z.mod_pos_bound (sd mod u) v Hv) as MB2.
  unfold half_up.
  destruct (Z.leb_spec 5 (nth (Z.to_nat dps) all 0)) as [H5|H5].
  - (* round up *)
    rewrite DIG in H5. destruct (Z.ltb_spec (2 * (sd mod u)) u) as [C|C]; [nia|].
    destruct (Z.eqb_spec (sd / u + 1) (10 ^ dps)) as [EP|NP].
    + split. { constructor; [unfold digit; lia|]. apply Forall_forall. intros x Hx. apply repeat_spec in Hx. rewrite Hx. unfold digit; lia. }
      split; [lia|]. intros _. split.
      { rewrite zlen_cons, zlen_repeat. lia. }
      split; [right; reflexivity|].
      rewrite dval_cons, dval_repeat0, zlen_repeat. replace (e + 1 - e) with 1 by lia. rewrite EP.
      rewrite Z2Nat.id by lia. replace dps with (Z.succ (dps - 1)) at 2 by lia. rewrite Z.pow_succ_r by lia. change (10 ^ 1) with 10. ring.
    + destruct (digits_k_spec (Z.to_nat dps) (sd / u + 1) []) as [FD [VD LD]].
      { rewrite Z2Nat.id by lia. lia. } { constructor. }
      split; [exact FD|]. split; [lia|]. intros _. split.
      { rewrite LD. unfold zlen at 1. cbn [length]. rewrite Z2Nat.id by lia. lia. }
      split; [left; reflexivity|]. rewrite VD. unfold dval, dvalA, zlen. cbn. rewrite Z.sub_diag. cbn. lia.
  - (* keep *)
    rewrite DIG in H5. destruct (Z.ltb_spec (2 * (sd mod u)) u) as [C|C]; [|nia].
    split; [apply Forall_firstn; exact F|]. split; [lia|]. intros _. split.
    { rewrite zlen_firstn by lia. lia. }
    split; [left; reflexivity|]. rewrite Hf, Z.sub_diag. cbn. lia.
Qed.

(* consequence: the kept digits are within half a unit (of the last kept place) of sd *)
Corollary round_digits_half_unit sd dps e : 0 < sd -> 0 < dps -> dps < zlen (dec_digits sd) ->
  let u := 10 ^ (zlen (dec_digits sd) - dps) in
  let '(dg, e') := round_digits sd dps e in
  2 * Z.abs (dval dg * 10 ^ (e' - e) * u - sd) <= u.
Proof.
  intros Hsd Hd Hl. cbv zeta. pose proof (round_digits_spec sd dps e Hsd Hd) as S. cbv zeta in S.
  destruct (round_digits sd dps e) as [dg e']. destruct S as [_ [_ S]]. destruct (S Hl) as [_ [_ E]].
  rewrite E. unfold half_up. set (u := 10 ^ (zlen (dec_digits sd) - dps)).
  assert (Hu : 0 < u) by (apply Z.pow_pos_nonneg; lia).
  pose proof (Z.div_mod sd u ltac:(lia)) as DM. pose proof (Z.mod_pos_bound sd u Hu) as MB.
  destruct (Z.ltb_spec (2 * (sd mod u)) u); nia.
Qed.

(* the two steps together: digits printed for x = man * 2^exp (mantissa within the conversion precision) are within
   half a unit of the last printed place, plus one unit of the last place of sd, of the exact x * 10^fixdps *)
From MP Require Import Proofs.StrDigits.
Theorem to_str_digits_near man exp bc bitprec fixdps dps :
  0 < man -> bc = bitcount man -> bc <= bitprec -> 0 <= fixdps -> exp < 0 -> 0 <= bitprec - exp - bc -> 0 < dps ->
  let '(sd, ex) := to_digits_core man exp bc bitprec fixdps in
  0 < sd -> dps < zlen (dec_digits sd) ->
  let u := 10 ^ (zlen (dec_digits sd) - dps) in
  let '(dg, e') := round_digits sd dps ex in
  2 * Z.abs (dval dg * 10 ^ (e' - ex) * u * 2 ^ (- exp) - man * 10 ^ fixdps) <= (u + 2) * 2 ^ (- exp).
Proof.
  intros Hm Hb Hfit Hf He Hfp Hd.
  pose proof (to_digits_exact man exp bc bitprec fixdps Hm Hb Hfit Hf He Hfp) as X. cbv zeta in X.
  destruct (to_digits_core man exp bc bitprec fixdps) as [sd ex]. cbn [fst] in X.
  intros Hsd Hl. cbv zeta.
  pose proof (round_digits_half_unit sd dps ex Hsd Hd Hl) as R. cbv zeta in R.
  destruct (round_digits sd dps ex) as [dg e'].
  set (u := 10 ^ (zlen (dec_digits sd) - dps)) in *. set (B := 2 ^ (- exp)) in *.
  assert (HB : 0 < B) by (apply Z.pow_pos_nonneg; lia).
  set (D := dval dg * 10 ^ (e' - ex)) in *. set (T := man * 10 ^ fixdps) in *.
  assert (Hu : 0 < u) by (apply Z.pow_pos_nonneg; lia).
  destruct (Z.abs_spec (D * u - sd)) as [[? E1]|[? E1]]; destruct (Z.abs_spec (D * u * B - T)) as [[? E2]|[? E2]]; rewrite E2; rewrite E1 in R; nia.
Qed.
