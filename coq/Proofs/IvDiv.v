(* IvDiv.v — C14: containment for interval division by an interval that does not contain zero (finite endpoints). *)
From Coq Require Import ZArith Reals Bool List Lia Lra Psatz.
From Flocq Require Import Core.
From MP Require Import Algo.Base Algo.Libmpf Algo.Libmpi Spec.Mpf Spec.Round Proofs.NormRound Proofs.Ops Proofs.AddRound
  Proofs.DivRound Proofs.Fin Proofs.Cmp Proofs.IvCmp Proofs.IvContain Proofs.IvMul.
Import ListNotations.
Open Scope Z_scope.

Lemma pos_regular x : fincanon x -> (rv x <> 0)%R -> regular x.
Proof. intros [->|H] Hn; [exfalso; apply Hn, rv_fzero|exact H]. Qed.

Lemma rnan_div p q prec r d : fincanon p -> fincanon q -> (rv q <> 0)%R -> 0 < prec ->
  exists y, rnan (mpf_div p q prec r) d = Ok y /\ fincanon y /\ rv y = RND r prec (rv p / rv q).
Proof.
  intros Fp Fq Hq Hp. pose proof (pos_regular q Fq Hq) as Rq.
  destruct (mpf_div_round p q prec r Fp Rq Hp) as [y [E V]].
  pose proof (div_fincanon p q prec r y Fp Rq Hp E) as Fy.
  exists y. unfold rnan. rewrite E. cbn [bind]. rewrite nan_to_fin by exact Fy. auto.
Qed.

Lemma mk_iv_div p q p' q' prec z d d' : 0 < prec -> fincanon p -> fincanon q -> fincanon p' -> fincanon q' ->
  (rv q <> 0)%R -> (rv q' <> 0)%R -> (rv p / rv q <= z <= rv p' / rv q')%R ->
  exists a b, rnan (mpf_div p q prec RF) d = Ok a /\ rnan (mpf_div p' q' prec RC) d' = Ok b /\
    in_iv (a, b) z /\ valid_iv (a, b).
Proof.
  intros Hp F1 F2 F3 F4 N1 N2 Hz.
  destruct (rnan_div p q prec RF d F1 F2 N1 Hp) as [a [Ea [Fa Va]]].
  destruct (rnan_div p' q' prec RC d' F3 F4 N2 Hp) as [b [Eb [Fb Vb]]].
  exists a, b. split; [exact Ea|]. split; [exact Eb|].
  apply (mk_iv a b prec (rv p / rv q) (rv p' / rv q')); auto; try lia.
  - rewrite Va. unfold rnd_or_exact. destruct (Z.eqb_spec prec 0); [lia|reflexivity].
  - rewrite Vb. unfold rnd_or_exact. destruct (Z.eqb_spec prec 0); [lia|reflexivity].
Qed.

(* positive denominator *)
Lemma div_core_pos s t prec x y : valid_iv s -> valid_iv t -> 0 < prec -> (0 < rv (fst t))%R ->
  in_iv s x -> in_iv t y ->
  exists r, mpi_div_core s t prec = Ok r /\ in_iv r (x / y) /\ valid_iv r.
Proof.
  intros [Sa [Sb Sv]] [Ta [Tb Tv]] Hp Pt [X1 X2] [Y1 Y2]. destruct s as [sa sb], t as [ta tb]. cbn [fst snd] in *.
  unfold mpi_div_core.
  destruct (mpf_sign_spec ta Ta) as [[Ec Rc]|[[Ec Zc]|[Ec Rc]]]; [|subst; rewrite rv_fzero in *; lra|lra].
  rewrite Ec. change (1 =? 0) with false. cbv iota.
  assert (Hy : (0 < y)%R) by lra. assert (Hb : (0 < rv tb)%R) by lra.
  assert (U1 : (/ rv tb <= / y)%R) by (apply Rinv_le_contravar; lra).
  assert (U2 : (/ y <= / rv ta)%R) by (apply Rinv_le_contravar; lra).
  assert (U0 : (0 < / rv tb)%R) by (apply Rinv_0_lt_compat; lra).
  set (u := (/ y)%R) in *. unfold Rdiv.
  assert (BND : forall p q p' q', (rv p * / rv q <= x * u <= rv p' * / rv q')%R -> fincanon p -> fincanon q -> fincanon p' -> fincanon q' ->
            (rv q <> 0)%R -> (rv q' <> 0)%R -> forall d d',
            exists r, (do a <- rnan (mpf_div p q prec RF) d; do b <- rnan (mpf_div p' q' prec RC) d'; Ok (a, b)) = Ok r /\
              in_iv r (x * u) /\ valid_iv r).
  { intros p q p' q' Hz F1 F2 F3 F4 N1 N2 d d'.
    destruct (mk_iv_div p q p' q' prec (x * u)%R d d' Hp F1 F2 F3 F4 N1 N2 Hz) as [a [b [Ea [Eb [I V]]]]].
    exists (a, b). rewrite Ea. cbn [bind]. rewrite Eb. cbn [bind]. auto. }
  destruct (mpf_sign_spec sa Sa) as [[Ea Ra]|[[Ea Za]|[Ea Ra]]]; rewrite Ea;
    match goal with |- context [(0 <=? ?b)] => let v := eval vm_compute in (0 <=? b) in change (0 <=? b) with v end; cbv iota.
  - apply BND; auto; try lra. split; nra.
  - apply BND; auto; try lra. subst sa. rewrite rv_fzero in *. split; nra.
  - destruct (mpf_sign_spec sb Sb) as [[Eb Rb]|[[Eb Zb]|[Eb Rb]]]; rewrite Eb;
      match goal with |- context [(?a <=? 0)] => let v := eval vm_compute in (a <=? 0) in change (a <=? 0) with v end; cbv iota.
    + apply BND; auto; try lra. split; nra.
    + apply BND; auto; try lra. subst sb. rewrite rv_fzero in *. split; nra.
    + apply BND; auto; try lra. split; nra.
Qed.

Theorem mpi_div_contains s t prec x y : valid_iv s -> valid_iv t -> 0 < prec ->
  ((0 < rv (fst t))%R \/ (rv (snd t) < 0)%R) -> in_iv s x -> in_iv t y ->
  exists r, mpi_div s t prec = Ok r /\ in_iv r (x / y) /\ valid_iv r.
Proof.
  destruct s as [sa sb], t as [ta tb]. intros Vs Vt Hp Hnz Ix Iy.
  pose proof Vs as [Sa [Sb Sv]]. pose proof Vt as [Ta [Tb Tv]]. pose proof Ix as [X1 X2]. pose proof Iy as [Y1 Y2].
  cbn [fst snd] in *. unfold mpi_div.
  (* signs of the denominator *)
  assert (TS : (mpf_sign ta = 1 /\ mpf_sign tb = 1) \/ (mpf_sign ta = -1 /\ mpf_sign tb = -1)).
  { destruct (mpf_sign_spec ta Ta) as [[Ec Rc]|[[Ec Zc]|[Ec Rc]]]; destruct (mpf_sign_spec tb Tb) as [[Ed Rd]|[[Ed Zd]|[Ed Rd]]];
      subst; rewrite ?rv_fzero in *; try (exfalso; destruct Hnz; lra); auto. }
  assert (ZC : (rv sa = 0 -> rv sb = 0 -> exists r, Ok (fzero, fzero) = Ok r /\ in_iv r (x / y) /\ valid_iv r)%R).
  { intros Z1 Z2. exists (fzero, fzero). split; [reflexivity|]. apply zero_iv. assert (x = 0%R) by lra. subst x. unfold Rdiv. ring. }
  assert (PC : mpf_sign ta = 1 -> exists r, mpi_div_core (sa, sb) (ta, tb) prec = Ok r /\ in_iv r (x / y) /\ valid_iv r).
  { intros Q. apply div_core_pos; auto. cbn [fst].
    destruct (mpf_sign_spec ta Ta) as [[Q1 Q2]|[[Q1 Q2]|[Q1 Q2]]]; [exact Q2|congruence|congruence]. }
  assert (NC : mpf_sign tb = -1 -> exists r, mpi_div_core (mpi_neg (sa, sb) 0) (mpi_neg (ta, tb) 0) prec = Ok r /\ in_iv r (x / y) /\ valid_iv r).
  { intros Q. assert (Nb : (rv tb < 0)%R) by (destruct (mpf_sign_spec tb Tb) as [[Q1 Q2]|[[Q1 Q2]|[Q1 Q2]]]; [congruence|congruence|exact Q2]).
    destruct (mpi_neg_contains (sa, sb) 0 x Vs ltac:(lia) Ix) as [NI NV].
    destruct (mpi_neg_contains (ta, tb) 0 y Vt ltac:(lia) Iy) as [MI MV].
    replace (x / y)%R with ((- x) / (- y))%R by (field; lra).
    apply div_core_pos; auto.
    unfold mpi_neg; cbn [fst snd]. rewrite mpf_neg_exact by auto. lra. }
  destruct (mpf_sign_spec sa Sa) as [[Ea Ra]|[[Ea Za]|[Ea Ra]]]; destruct (mpf_sign_spec sb Sb) as [[Eb Rb]|[[Eb Zb]|[Eb Rb]]];
    try (exfalso; subst; rewrite ?rv_fzero in *; lra); rewrite Ea, Eb;
    destruct TS as [[Ec Ed]|[Ec Ed]]; rewrite Ec, Ed;
    repeat match goal with
    | |- context [(?a =? ?b)] => let v := eval vm_compute in (a =? b) in change (a =? b) with v
    | |- context [(?a <? ?b)] => let v := eval vm_compute in (a <? b) in change (a <? b) with v
    end; cbn [andb orb]; cbv iota;
    first [ apply ZC; subst; apply rv_fzero | apply PC; assumption | apply NC; assumption ].
Qed.
