(* IvCplx.v — C15: rectangular complex intervals: add/sub/neg/pos/mul/square contain every exact complex result. *)
From Coq Require Import ZArith Reals Bool List Lia Lra Psatz.
From Flocq Require Import Core.
From MP Require Import Algo.Base Algo.Libmpf Algo.Libmpi Spec.Mpf Spec.Round Proofs.NormRound Proofs.Ops Proofs.AddRound
  Proofs.Fin Proofs.Cmp Proofs.IvCmp Proofs.IvContain Proofs.IvMul.
Open Scope Z_scope.

Definition valid_civ (z : mpci) : Prop := valid_iv (fst z) /\ valid_iv (snd z).
(* the complex number re + i*im is a member of the rectangle *)
Definition in_civ (z : mpci) (re im : R) : Prop := in_iv (fst z) re /\ in_iv (snd z) im.

Theorem mpci_add_contains z w prec a b c d : valid_civ z -> valid_civ w -> 0 <= prec -> in_civ z a b -> in_civ w c d ->
  in_civ (mpci_add z w prec) (a + c) (b + d) /\ valid_civ (mpci_add z w prec).
Proof.
  intros [Z1 Z2] [W1 W2] Hp [A B] [C D]. unfold mpci_add, in_civ, valid_civ; cbn [fst snd].
  destruct (mpi_add_contains (fst z) (fst w) prec a c Z1 W1 Hp A C). destruct (mpi_add_contains (snd z) (snd w) prec b d Z2 W2 Hp B D). auto.
Qed.

Theorem mpci_sub_contains z w prec a b c d : valid_civ z -> valid_civ w -> 0 <= prec -> in_civ z a b -> in_civ w c d ->
  in_civ (mpci_sub z w prec) (a - c) (b - d) /\ valid_civ (mpci_sub z w prec).
Proof.
  intros [Z1 Z2] [W1 W2] Hp [A B] [C D]. unfold mpci_sub, in_civ, valid_civ; cbn [fst snd].
  destruct (mpi_sub_contains (fst z) (fst w) prec a c Z1 W1 Hp A C). destruct (mpi_sub_contains (snd z) (snd w) prec b d Z2 W2 Hp B D). auto.
Qed.

Theorem mpci_neg_contains z prec a b : valid_civ z -> 0 <= prec -> in_civ z a b ->
  in_civ (mpci_neg z prec) (- a) (- b) /\ valid_civ (mpci_neg z prec).
Proof.
  intros [Z1 Z2] Hp [A B]. unfold mpci_neg, in_civ, valid_civ; cbn [fst snd].
  destruct (mpi_neg_contains (fst z) prec a Z1 Hp A). destruct (mpi_neg_contains (snd z) prec b Z2 Hp B). auto.
Qed.

Theorem mpci_pos_contains z prec a b : valid_civ z -> 0 <= prec -> in_civ z a b ->
  in_civ (mpci_pos z prec) a b /\ valid_civ (mpci_pos z prec).
Proof.
  intros [Z1 Z2] Hp [A B]. unfold mpci_pos, in_civ, valid_civ; cbn [fst snd].
  destruct (mpi_pos_contains (fst z) prec a Z1 Hp A). destruct (mpi_pos_contains (snd z) prec b Z2 Hp B). auto.
Qed.

(* (a + bi)(c + di) = (ac - bd) + (ad + bc) i *)
Theorem mpci_mul_contains z w prec a b c d : valid_civ z -> valid_civ w -> 0 <= prec -> in_civ z a b -> in_civ w c d ->
  in_civ (mpci_mul z w prec) (a * c - b * d) (a * d + b * c) /\ valid_civ (mpci_mul z w prec).
Proof.
  intros [Z1 Z2] [W1 W2] Hp [A B] [C D]. destruct z as [za zb], w as [wa wb]. cbn [fst snd] in *.
  unfold mpci_mul, in_civ, valid_civ; cbn [fst snd].
  destruct (mpi_mul_contains za wa 0 a c Z1 W1 ltac:(lia) A C) as [I1 V1].
  destruct (mpi_mul_contains zb wb 0 b d Z2 W2 ltac:(lia) B D) as [I2 V2].
  destruct (mpi_mul_contains za wb 0 a d Z1 W2 ltac:(lia) A D) as [I3 V3].
  destruct (mpi_mul_contains zb wa 0 b c Z2 W1 ltac:(lia) B C) as [I4 V4].
  destruct (mpi_sub_contains _ _ prec _ _ V1 V2 Hp I1 I2). destruct (mpi_add_contains _ _ prec _ _ V3 V4 Hp I3 I4). auto.
Qed.

Lemma mpf_shift_fin x n : fincanon x -> fincanon (mpf_shift x n) /\ rv (mpf_shift x n) = (rv x * bpow radix2 n)%R.
Proof.
  intros [->|Hx].
  - split; [left; reflexivity|]. unfold mpf_shift. cbn. rewrite rv_fzero. ring.
  - destruct x as [sg m e b]. pose proof Hx as [S1 [S2 [S3 S4]]]; cbn [msign mman mexp mbc] in *.
    unfold mpf_shift. cbn [mman]. destruct (Z.eqb_spec m 0); [lia|]. split.
    + right. unfold regular; cbn [msign mman mexp mbc]. auto.
    + unfold rv; cbn [msign mman mexp]. unfold F2R; cbn [Fnum Fexp]. rewrite bpow_plus. ring.
Qed.

(* (a + bi)^2 = (a^2 - b^2) + 2ab i *)
Theorem mpci_square_contains z prec a b : valid_civ z -> 0 <= prec -> in_civ z a b ->
  in_civ (mpci_square z prec) (a * a - b * b) (2 * (a * b)) /\ valid_civ (mpci_square z prec).
Proof.
  intros [Z1 Z2] Hp [A B]. destruct z as [za zb]. cbn [fst snd] in *.
  unfold mpci_square, in_civ, valid_civ; cbn [fst snd].
  destruct (mpi_square_contains za 0 a Z1 ltac:(lia) A) as [I1 V1].
  destruct (mpi_square_contains zb 0 b Z2 ltac:(lia) B) as [I2 V2].
  destruct (mpi_mul_contains za zb prec a b Z1 Z2 Hp A B) as [[I3a I3b] [F3a [F3b V3]]].
  destruct (mpi_sub_contains _ _ prec _ _ V1 V2 Hp I1 I2) as [I4 V4].
  split; [split; [exact I4|]|split; [exact V4|]].
  - unfold in_iv, mpi_shift; cbn [fst snd].
    destruct (mpf_shift_fin _ 1 F3a) as [_ ->]. destruct (mpf_shift_fin _ 1 F3b) as [_ ->].
    change (bpow radix2 1) with 2%R. lra.
  - unfold valid_iv, mpi_shift; cbn [fst snd].
    destruct (mpf_shift_fin _ 1 F3a) as [G1 ->]. destruct (mpf_shift_fin _ 1 F3b) as [G2 ->].
    change (bpow radix2 1) with 2%R. repeat split; auto. lra.
Qed.
