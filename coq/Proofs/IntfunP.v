(* IntfunP.v — C25: the memoised factorial returns n! for every call history. Pure Z. *)
From Coq Require Import ZArith List Bool Lia.
From MP Require Import Algo.Intfun.
Import ListNotations.
Open Scope Z_scope.

Lemma fact_nat_succ n : fact_nat (S n) = Z.of_nat (S n) * fact_nat n.
Proof. reflexivity. Qed.

Lemma zfact_succ n : 0 <= n -> zfact (n + 1) = (n + 1) * zfact n.
Proof.
  intros H. unfold zfact. replace (Z.to_nat (n + 1)) with (S (Z.to_nat n)) by lia.
  rewrite fact_nat_succ. f_equal. lia.
Qed.

Lemma zfact_pos n : 0 < zfact n.
Proof. unfold zfact. induction (Z.to_nat n) as [|k IH]; [reflexivity|]. rewrite fact_nat_succ. lia. Qed.

(* the loop multiplies (k-1)! up to n! *)
Lemma ifac_loop_spec fuel : forall k n, 1 <= k -> k <= n + 1 -> Z.of_nat fuel = n - k + 1 ->
  ifac_loop fuel k n (zfact (k - 1)) = zfact n.
Proof.
  induction fuel as [|f IH]; intros k n Hk Hkn Hf.
  - simpl. f_equal. lia.
  - cbn [ifac_loop]. destruct (Z.leb_spec k n) as [L|G]; [|lia].
    replace (zfact (k - 1) * k) with (zfact ((k + 1) - 1)).
    + apply IH; lia.
    + replace (k + 1 - 1) with ((k - 1) + 1) by lia. rewrite zfact_succ by lia. ring_simplify (k - 1 + 1). ring.
Qed.

(* cache invariant: it holds 0!..(len-1)! and its last entry is (len-1)! *)
Definition fm_inv (m : fmemo) : Prop := 2 <= fm_len m /\ fm_last m = zfact (fm_len m - 1).

Theorem ifac_call_spec maxc m n : 1 <= maxc -> fm_inv m -> 0 <= n ->
  fst (ifac_call maxc m n) = zfact n /\ fm_inv (snd (ifac_call maxc m n)).
Proof.
  intros Hmax [Hl Hlast] Hn. unfold ifac_call.
  destruct (Z.ltb_spec n (fm_len m)) as [Hit|Miss]; [split; [reflexivity|split; assumption]|].
  cbn [fst snd]. split.
  - rewrite Hlast. apply ifac_loop_spec; lia.
  - unfold fm_inv; cbn [fm_len fm_last]. split; [lia|].
    rewrite Hlast.
    set (newlen := Z.max (fm_len m) (Z.min (n + 1) (maxc + 1))).
    destruct (Z.eq_dec newlen (fm_len m)) as [E|NE].
    + rewrite E. replace (Z.to_nat (fm_len m - fm_len m)) with O by lia. reflexivity.
    + apply ifac_loop_spec; unfold newlen in *; lia.
Qed.

(* history independence: any sequence of calls returns factorials *)
Fixpoint run_calls (maxc : Z) (m : fmemo) (ns : list Z) : list Z :=
  match ns with [] => [] | n :: r => let '(v, m') := ifac_call maxc m n in v :: run_calls maxc m' r end.

Theorem ifac_history maxc : 1 <= maxc -> forall ns m, fm_inv m -> Forall (fun n => 0 <= n) ns ->
  run_calls maxc m ns = map zfact ns.
Proof.
  intros Hmax ns. induction ns as [|n r IH]; intros m Hinv Hall; [reflexivity|].
  inversion Hall as [|? ? Hn Hr]; subst. cbn [run_calls map].
  destruct (ifac_call_spec maxc m n Hmax Hinv Hn) as [Hv Hi].
  destruct (ifac_call maxc m n) as [v m'] eqn:E. cbn [fst snd] in *. subst v. f_equal. apply IH; assumption.
Qed.

Example fm_init_inv : fm_inv {| fm_len := 2; fm_last := 1 |}.
Proof. unfold fm_inv; simpl. split; [lia|reflexivity]. Qed.

(* ---- ifib: Dijkstra's logarithmic Fibonacci algorithm equals the recurrence, for every n and every call history ---- *)
Lemma fibT_sq p q v : fibT p q (fibT p q v) = fibT (p * p + q * q) (q * q + 2 * p * q) v.
Proof. destruct v as [a b]. unfold fibT. f_equal; ring. Qed.

Fixpoint iterN {A} (k : nat) (f : A -> A) (x : A) : A := match k with O => x | S k' => f (iterN k' f x) end.

Lemma iter_ext {A} (f g : A -> A) k x : (forall v, f v = g v) -> iterN k f x = iterN k g x.
Proof. intros H. induction k as [|k IH]; [reflexivity|]. cbn [iterN]. rewrite IH. apply H. Qed.

Lemma iter_double {A} (f : A -> A) k x : iterN (2 * k) f x = iterN k (fun v => f (f v)) x.
Proof.
  induction k as [|k IH]; [reflexivity|]. replace (2 * S k)%nat with (S (S (2 * k))) by lia.
  cbn [iterN]. rewrite IH. reflexivity.
Qed.

Lemma iter_succ_r' {A} (f : A -> A) k x : iterN (S k) f x = iterN k f (f x).
Proof. induction k as [|k IH]; [reflexivity|]. cbn [iterN] in *. rewrite IH. reflexivity. Qed.

Lemma ifib_loop_iter n : forall a b p q, ifib_loop n a b p q = snd (iterN (Pos.to_nat n) (fibT p q) (a, b)).
Proof.
  induction n as [n IH|n IH|]; intros a b p q; cbn [ifib_loop].
  - destruct (fibT p q (a, b)) as [a' b'] eqn:E. rewrite IH. rewrite Pos2Nat.inj_xI.
    rewrite iter_succ_r', E. rewrite iter_double. f_equal. apply iter_ext. intros v. symmetry. apply fibT_sq.
  - rewrite IH. rewrite Pos2Nat.inj_xO. rewrite iter_double. f_equal. apply iter_ext. intros v. symmetry. apply fibT_sq.
  - reflexivity.
Qed.

Lemma fib_iter k : iterN k (fibT 0 1) (1, 0) = (snd (fib_pair k), fst (fib_pair k)).
Proof.
  induction k as [|k IH]; [reflexivity|]. cbn [iterN fib_pair]. rewrite IH.
  destruct (fib_pair k) as [x y]. cbn [fst snd fibT]. f_equal; ring.
Qed.

Theorem ifib_nonneg_spec n : 0 <= n -> ifib_nonneg n = zfib n.
Proof.
  intros Hn. unfold ifib_nonneg, zfib. destruct n as [|k|k]; [reflexivity| |lia].
  rewrite ifib_loop_iter, fib_iter. cbn [snd]. rewrite Z2Nat.inj_pos. reflexivity.
Qed.

(* the cache holds Fibonacci numbers only, whatever was asked before *)
Definition fc_inv (c : fcache) : Prop := forall k v, fc_get c k = Some v -> 0 <= k /\ v = zfib k.

Lemma ifib_call_nonneg_spec c n : fc_inv c -> 0 <= n ->
  fst (ifib_call_nonneg c n) = zfib n /\ fc_inv (snd (ifib_call_nonneg c n)).
Proof.
  intros Hc Hn. unfold ifib_call_nonneg. destruct (fc_get c n) as [v|] eqn:E.
  - cbn [fst snd]. split; [apply (Hc n v E)|exact Hc].
  - cbn [fst snd]. split; [apply ifib_nonneg_spec; exact Hn|].
    destruct (n <? 250); [|exact Hc]. intros k v. cbn [fc_get]. destruct (Z.eqb_spec n k) as [->|NE].
    + intros [= <-]. split; [exact Hn|apply ifib_nonneg_spec; exact Hn].
    + apply Hc.
Qed.

(* F(-n) = (-1)^(n+1) F(n) *)
Definition zfib_signed (n : Z) : Z := if n <? 0 then (-1) ^ (- n + 1) * zfib (- n) else zfib n.

Theorem ifib_call_spec c n : fc_inv c -> fst (ifib_call c n) = zfib_signed n /\ fc_inv (snd (ifib_call c n)).
Proof.
  intros Hc. unfold ifib_call, zfib_signed. destruct (Z.ltb_spec n 0) as [N|P].
  - destruct (ifib_call_nonneg_spec c (- n) Hc ltac:(lia)) as [V I].
    destruct (ifib_call_nonneg c (- n)) as [v c']. cbn [fst snd] in *. subst v. split; [reflexivity|exact I].
  - apply ifib_call_nonneg_spec; assumption.
Qed.

Theorem ifib_history ns : forall c, fc_inv c -> fib_calls c ns = map zfib_signed ns.
Proof.
  induction ns as [|n r IH]; intros c Hc; [reflexivity|]. cbn [fib_calls map].
  destruct (ifib_call_spec c n Hc) as [V I]. destruct (ifib_call c n) as [v c']. cbn [fst snd] in *. subst v.
  f_equal. apply IH. exact I.
Qed.

Example fc_empty_inv : fc_inv [].
Proof. intros k v H. discriminate. Qed.

(* ---- ifac2: the memoised double factorial returns n!! for every call history ---- *)
Lemma fact2_fuel_S f : forall n, n <= Z.of_nat f -> fact2_fuel (S f) n = fact2_fuel f n.
Proof.
  induction f as [|f IH]; intros n Hn.
  - cbn [fact2_fuel]. destruct (Z.leb_spec n 1); [reflexivity|lia].
  - change (fact2_fuel (S (S f)) n) with (if n <=? 1 then 1 else n * fact2_fuel (S f) (n - 2)).
    change (fact2_fuel (S f) n) with (if n <=? 1 then 1 else n * fact2_fuel f (n - 2)).
    destruct (Z.leb_spec n 1); [reflexivity|]. rewrite IH by lia. reflexivity.
Qed.

Lemma zfact2_step k : 0 <= k -> zfact2 (k + 2) = (k + 2) * zfact2 k.
Proof.
  intros Hk. unfold zfact2. replace (Z.to_nat (k + 2)) with (S (S (Z.to_nat k))) by lia.
  change (fact2_fuel (S (S (Z.to_nat k))) (k + 2)) with (if k + 2 <=? 1 then 1 else (k + 2) * fact2_fuel (S (Z.to_nat k)) (k + 2 - 2)).
  destruct (Z.leb_spec (k + 2) 1); [lia|]. replace (k + 2 - 2) with k by lia. rewrite fact2_fuel_S by lia. reflexivity.
Qed.

Lemma fc_maxkey_max c : forall b, 0 <= b -> fc_maxkey c b = Z.max b (fc_maxkey c 0).
Proof.
  induction c as [|[k v] r IH]; intros b Hb; cbn [fc_maxkey]; [lia|]. rewrite (IH (Z.max b k)), (IH (Z.max 0 k)) by lia. lia.
Qed.

Lemma fc_get_le_max c k v : fc_get c k = Some v -> k <= fc_maxkey c 0.
Proof.
  induction c as [|[k' v'] r IH]; cbn [fc_get fc_maxkey]; [discriminate|].
  rewrite fc_maxkey_max by lia. destruct (Z.eqb_spec k' k) as [->|NE]; [lia|]. intros H. specialize (IH H). lia.
Qed.

(* invariant of one dictionary (parity par): stored values are double factorials, the keys of that parity are stored
   contiguously up to the largest one, which does not exceed the cache limit *)
Definition f2_inv (maxc : Z) (par : bool) (c : fcache) : Prop :=
  (forall k v, fc_get c k = Some v -> 0 <= k /\ Z.odd k = par /\ v = zfact2 k) /\
  fc_get c (fc_maxkey c 0) <> None /\
  (forall j, 0 <= j <= fc_maxkey c 0 -> Z.odd j = par -> fc_get c j <> None) /\
  fc_maxkey c 0 <= maxc.

Lemma zfact2_pos k : 0 < zfact2 k.
Proof.
  unfold zfact2. generalize (Z.to_nat k) as f. intros f. revert k. induction f as [|f IH]; intros k; cbn [fact2_fuel]; [lia|].
  destruct (Z.leb_spec k 1); [lia|]. specialize (IH (k - 2)). nia.
Qed.

Lemma ifac2_loop_spec maxc par : forall fuel k n p c,
  f2_inv maxc par c -> fc_maxkey c 0 <= k -> (k <= maxc -> fc_maxkey c 0 = k) ->
  0 <= k -> Z.odd k = par -> Z.odd n = par -> k <= n -> p = zfact2 k -> n - k <= 2 * Z.of_nat fuel ->
  fst (ifac2_loop fuel maxc k n p c) = zfact2 n /\ f2_inv maxc par (snd (ifac2_loop fuel maxc k n p c)).
Proof.
  induction fuel as [|f IH]; intros k n p c Hc Hmax Hmk Hk Pk Pn Hle Hp Hf.
  - cbn [ifac2_loop fst snd]. assert (n = k) by lia. subst. split; [reflexivity|exact Hc].
  - cbn [ifac2_loop]. destruct (Z.ltb_spec k n) as [L|G].
    2:{ cbn [fst snd]. assert (n = k) by lia. subst. split; [reflexivity|exact Hc]. }
    cbv zeta.
    assert (Podd : Z.odd (k + 2) = par) by (rewrite Z.odd_add, Pk; cbn; destruct par; reflexivity).
    assert (Hn2 : k + 2 <= n).
    { destruct (Z.eq_dec (k + 1) n) as [E|NE]; [|lia]. exfalso. subst n. rewrite Z.odd_add in Pn. rewrite Pk in Pn. destruct par; discriminate. }
    destruct Hc as [C1 [C2 [C3 C4]]].
    destruct (Z.leb_spec (k + 2) maxc) as [Store|NoStore].
    + assert (MK : fc_maxkey c 0 = k) by (apply Hmk; lia).
      assert (NM : fc_maxkey ((k + 2, p * (k + 2)) :: c) 0 = k + 2) by (cbn [fc_maxkey]; rewrite fc_maxkey_max by lia; lia).
      apply IH; try lia; auto.
      * split; [|split; [|split]].
        -- intros k0 v0. cbn [fc_get]. destruct (Z.eqb_spec (k + 2) k0) as [<-|NE].
           ++ intros [= <-]. repeat split; [lia|exact Podd|]. subst p. rewrite zfact2_step by lia. ring.
           ++ apply C1.
        -- rewrite NM. cbn [fc_get]. rewrite Z.eqb_refl. discriminate.
        -- rewrite NM. intros j Hj Pj. cbn [fc_get]. destruct (Z.eqb_spec (k + 2) j) as [_|NE]; [discriminate|].
           apply C3; [|exact Pj]. rewrite MK.
           destruct (Z.eq_dec j (k + 1)) as [->|]; [|lia]. exfalso. rewrite Z.odd_add, Pk in Pj. destruct par; discriminate.
        -- rewrite NM. exact Store.
      * subst p. rewrite zfact2_step by lia. ring.
    + apply IH; try lia; auto.
      * exact (conj C1 (conj C2 (conj C3 C4))).
      * subst p. rewrite zfact2_step by lia. ring.
Qed.

Lemma ifac2_memo_call_spec maxc par c n : f2_inv maxc par c -> 0 <= n -> Z.odd n = par ->
  fst (ifac2_memo_call maxc c n) = zfact2 n /\ f2_inv maxc par (snd (ifac2_memo_call maxc c n)).
Proof.
  intros Hc Hn Pn. unfold ifac2_memo_call. destruct (fc_get c n) as [v|] eqn:E.
  - destruct Hc as [C1 C2]. destruct (C1 n v E) as [_ [_ ->]]. pose proof (zfact2_pos n).
    destruct (Z.eqb_spec (zfact2 n) 0); [lia|]. cbn [fst snd]. split; [reflexivity|split; assumption].
  - pose proof Hc as [C1 [C2 [C3 C4]]]. destruct (fc_get c (fc_maxkey c 0)) as [p|] eqn:EM; [|contradiction].
    destruct (C1 _ _ EM) as [K0 [KP ->]].
    destruct (Z.le_gt_cases (fc_maxkey c 0) n) as [LE|GT].
    + apply (ifac2_loop_spec maxc par); auto; lia.
    + exfalso. apply (C3 n); [lia|exact Pn|exact E].
Qed.

(* the pair of dictionaries *)
Definition f2_pair_inv (maxc : Z) (cs : fcache * fcache) : Prop := f2_inv maxc false (fst cs) /\ f2_inv maxc true (snd cs).

Theorem ifac2_call_spec maxc cs n : f2_pair_inv maxc cs -> 0 <= n ->
  fst (ifac2_call maxc cs n) = zfact2 n /\ f2_pair_inv maxc (snd (ifac2_call maxc cs n)).
Proof.
  intros [He Ho] Hn. unfold ifac2_call. destruct (Z.odd n) eqn:P.
  - destruct (ifac2_memo_call_spec maxc true (snd cs) n Ho Hn P) as [V I].
    destruct (ifac2_memo_call maxc (snd cs) n) as [v c']. cbn [fst snd] in *. split; [exact V|split; assumption].
  - destruct (ifac2_memo_call_spec maxc false (fst cs) n He Hn P) as [V I].
    destruct (ifac2_memo_call maxc (fst cs) n) as [v c']. cbn [fst snd] in *. split; [exact V|split; assumption].
Qed.

Theorem ifac2_history maxc ns : forall cs, f2_pair_inv maxc cs -> Forall (fun n => 0 <= n) ns ->
  fac2_calls maxc cs ns = map zfact2 ns.
Proof.
  induction ns as [|n r IH]; intros cs Hc Hall; [reflexivity|]. inversion Hall as [|? ? Hn Hr]; subst. cbn [fac2_calls map].
  destruct (ifac2_call_spec maxc cs n Hc Hn) as [V I]. destruct (ifac2_call maxc cs n) as [v cs']. cbn [fst snd] in *. subst v.
  f_equal. apply IH; assumption.
Qed.

(* the initial dictionaries {0: 1} and {1: 1} *)
Example f2_init_inv : f2_pair_inv 1000 ([(0, 1)], [(1, 1)]).
Proof.
  split; (split; [|split; [|split]]).
  - intros k v. cbn [fc_get fst]. destruct (Z.eqb_spec 0 k) as [<-|]; [intros [= <-]; repeat split; lia|discriminate].
  - cbn. discriminate.
  - cbn [fst fc_maxkey]. intros j Hj _. assert (j = 0) as -> by (cbn in Hj; lia). cbn. discriminate.
  - cbn. lia.
  - intros k v. cbn [fc_get snd]. destruct (Z.eqb_spec 1 k) as [<-|]; [intros [= <-]; repeat split; lia|discriminate].
  - cbn. discriminate.
  - cbn [snd fc_maxkey]. intros j Hj Pj. cbn in Hj. assert (j = 0 \/ j = 1) as [->| ->] by lia; [cbn in Pj; discriminate|cbn; discriminate].
  - cbn. lia.
Qed.
