(* IntfunP.v — C25: the memoised factorial returns n! for every call history. Pure Z. *)
From Coq Require Import ZArith List Bool Lia.
From MP Require Import Algo.Intfun.
Import ListNotations.
Open Scope Z_scope.

Lemma fact_nat_succ n : fact_nat (S n) = Z.of_nat (S n) * fact_nat n.
Proof. reflexivity. Qed.

Lemma zfact_succ n : 0 <= n -> zfact (n + 1) = (n + 1) * zfact n.
Proof.
  intros H. unfold zfact. replace (Z.to_nat (n + 1)) with (S (Z.to_nat n)) by lia.
  rewrite fact_nat_succ. f_equal. lia.
Qed.

Lemma zfact_pos n : 0 < zfact n.
Proof. unfold zfact. induction (Z.to_nat n) as [|k IH]; [reflexivity|]. rewrite fact_nat_succ. lia. Qed.

(* the loop multiplies (k-1)! up to n! *)
Lemma ifac_loop_spec fuel : forall k n, 1 <= k -> k <= n + 1 -> Z.of_nat fuel = n - k + 1 ->
  ifac_loop fuel k n (zfact (k - 1)) = zfact n.
Proof.
  induction fuel as [|f IH]; intros k n Hk Hkn Hf.
  - simpl. f_equal. lia.
  - cbn [ifac_loop]. destruct (Z.leb_spec k n) as [L|G]; [|lia].
    replace (zfact (k - 1) * k) with (zfact ((k + 1) - 1)).
    + apply IH; lia.
    + replace (k + 1 - 1) with ((k - 1) + 1) by lia. rewrite zfact_succ by lia. ring_simplify (k - 1 + 1). ring.
Qed.

(* cache invariant: it holds 0!..(len-1)! and its last entry is (len-1)! *)
Definition fm_inv (m : fmemo) : Prop := 2 <= fm_len m /\ fm_last m = zfact (fm_len m - 1).

Theorem ifac_call_spec maxc m n : 1 <= maxc -> fm_inv m -> 0 <= n ->
  fst (ifac_call maxc m n) = zfact n /\ fm_inv (snd (ifac_call maxc m n)).
Proof.
  intros Hmax [Hl Hlast] Hn. unfold ifac_call.
  destruct (Z.ltb_spec n (fm_len m)) as [Hit|Miss]; [split; [reflexivity|split; assumption]|].
  cbn [fst snd]. split.
  - rewrite Hlast. apply ifac_loop_spec; lia.
  - unfold fm_inv; cbn [fm_len fm_last]. split; [lia|].
    rewrite Hlast.
    set (newlen := Z.max (fm_len m) (Z.min (n + 1) (maxc + 1))).
    destruct (Z.eq_dec newlen (fm_len m)) as [E|NE].
    + rewrite E. replace (Z.to_nat (fm_len m - fm_len m)) with O by lia. reflexivity.
    + apply ifac_loop_spec; unfold newlen in *; lia.
Qed.

(* history independence: any sequence of calls returns factorials *)
Fixpoint run_calls (maxc : Z) (m : fmemo) (ns : list Z) : list Z :=
  match ns with [] => [] | n :: r => let '(v, m') := ifac_call maxc m n in v :: run_calls maxc m' r end.

Theorem ifac_history maxc : 1 <= maxc -> forall ns m, fm_inv m -> Forall (fun n => 0 <= n) ns ->
  run_calls maxc m ns = map zfact ns.
Proof.
  intros Hmax ns. induction ns as [|n r IH]; intros m Hinv Hall; [reflexivity|].
  inversion Hall as [|? ? Hn Hr]; subst. cbn [run_calls map].
  destruct (ifac_call_spec maxc m n Hmax Hinv Hn) as [Hv Hi].
  destruct (ifac_call maxc m n) as [v m'] eqn:E. cbn [fst snd] in *. subst v. f_equal. apply IH; assumption.
Qed.

Example fm_init_inv : fm_inv {| fm_len := 2; fm_last := 1 |}.
Proof. unfold fm_inv; simpl. split; [lia|reflexivity]. Qed.
