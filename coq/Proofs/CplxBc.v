(* CplxBc.v — C10/C01 for complex arithmetic: both components of add/sub/mul/scaling/division are finite canonical tuples
   with at most prec bits. *)
From Coq Require Import ZArith Reals Bool Lia Lra.
From Flocq Require Import Core.
From MP Require Import Algo.Base Algo.Libmpf Algo.Libmpc Spec.Mpf Spec.Round Proofs.NormRound Proofs.Ops Proofs.AddRound Proofs.Fin
  Proofs.Format Proofs.DivRound Proofs.Cplx Proofs.CplxDiv.
Open Scope Z_scope.

Definition cbc_le (z : mpc) (p : Z) : Prop := mbc (fst z) <= p /\ mbc (snd z) <= p.

Theorem mpc_add_closed z w prec r : cfin z -> cfin w -> 0 < prec -> cfin (mpc_add z w prec r) /\ cbc_le (mpc_add z w prec r) prec.
Proof.
  intros [Z1 Z2] [W1 W2] Hp. unfold mpc_add, cfin, cbc_le; cbn [fst snd].
  repeat split; try (apply mpf_add_gen_fincanon; auto; lia); apply mpf_add_bc_le; auto.
Qed.

Theorem mpc_sub_closed z w prec r : cfin z -> cfin w -> 0 < prec -> cfin (mpc_sub z w prec r) /\ cbc_le (mpc_sub z w prec r) prec.
Proof.
  intros [Z1 Z2] [W1 W2] Hp. unfold mpc_sub, cfin, cbc_le; cbn [fst snd].
  repeat split; try (apply mpf_add_gen_fincanon; auto; lia); apply mpf_sub_bc_le; auto.
Qed.

Theorem mpc_mul_closed z w prec r : cfin z -> cfin w -> 0 < prec -> cfin (mpc_mul z w prec r) /\ cbc_le (mpc_mul z w prec r) prec.
Proof.
  intros [Z1 Z2] [W1 W2] Hp. destruct z as [a b], w as [c d]. unfold mpc_mul, cfin, cbc_le; cbn [fst snd] in *.
  destruct (mul_exact_fin a c Z1 W1) as [F1 _]. destruct (mul_exact_fin b d Z2 W2) as [F2 _].
  destruct (mul_exact_fin a d Z1 W2) as [F3 _]. destruct (mul_exact_fin b c Z2 W1) as [F4 _].
  repeat split; try (apply mpf_add_gen_fincanon; auto; lia); [apply mpf_sub_bc_le|apply mpf_add_bc_le]; auto.
Qed.

Theorem mpc_mul_mpf_closed z p prec r : cfin z -> fincanon p -> 0 < prec ->
  cfin (mpc_mul_mpf z p prec r) /\ cbc_le (mpc_mul_mpf z p prec r) prec.
Proof.
  intros [Z1 Z2] Hq Hp. unfold mpc_mul_mpf, cfin, cbc_le; cbn [fst snd].
  repeat split; try (apply python_mpf_mul_fincanon; auto; lia); apply python_mpf_mul_bc_le; auto.
Qed.

Theorem mpc_div_closed z w prec r : cfin z -> cfin w -> (0 < cabs2 w)%R -> 0 < prec ->
  exists q, mpc_div z w prec r = Ok q /\ cfin q /\ cbc_le q prec.
Proof.
  intros Hz Hw HW Hp. destruct (mpc_div_spec z w prec r Hz Hw HW Hp) as [q [E [[F1 F2] [V1 [V2 _]]]]].
  exists q. split; [exact E|]. split; [split; assumption|]. cbv zeta in V1, V2. unfold cre, cim in V1, V2.
  split; eapply rounded_bc_le; eauto.
Qed.
