(* IntOps.v — C02: mixed mpf/int operations: x * n and n / x are correctly rounded for every integer n (of any size). *)
From Coq Require Import ZArith Reals Bool Lia Lra.
From Flocq Require Import Core.
From MP Require Import Algo.Base Algo.Libmpf Spec.Mpf Spec.Round Proofs.Bits Proofs.Normalize Proofs.Canon
  Proofs.NormRound Proofs.Ops Proofs.Sticky Proofs.DivRound.
Open Scope Z_scope.

Lemma from_int_exact_fin n : fincanon (from_int n 0 RD) /\ rv (from_int n 0 RD) = IZR n.
Proof. split; [apply from_man_exp_fincanon; lia|apply from_int_exact]. Qed.

Theorem mpf_mul_int_round s n prec r : fincanon s -> 0 < prec ->
  rv (python_mpf_mul_int s n prec r) = RND r prec (rv s * IZR n).
Proof.
  intros Hs Hp. destruct (from_int_exact_fin n) as [Fn Vn]. unfold python_mpf_mul_int.
  destruct s as [sign man exp bc].
  destruct (Z.eqb_spec man 0) as [M0|MN].
  { unfold mpf_mul. rewrite python_mpf_mul_round by auto. rewrite Vn. reflexivity. }
  destruct Hs as [E|[S1 [S2 [S3 S4]]]]; [inversion E; lia|]. cbn [msign mman mexp mbc] in *.
  destruct (Z.eqb_spec n 0) as [N0|NN].
  { subst n. rewrite Rmult_0_r, RND_0. apply rv_fzero. }
  assert (Ha : 0 < Z.abs n) by lia.
  pose proof (mul_bitcount man (Z.abs n) S2 Ha) as MB. cbv zeta in MB. rewrite <- S4 in MB. rewrite MB.
  set (sg := if n <? 0 then Z.lxor sign 1 else sign).
  assert (Hsg : sg = 0 \/ sg = 1) by (unfold sg; destruct (n <? 0); [apply lxor_bit; auto|exact S1]).
  rewrite normalize_round; auto; try nia. f_equal.
  unfold rv, sval; cbn [msign mman mexp]. unfold F2R; cbn [Fnum Fexp]. rewrite mult_IZR.
  unfold sg. destruct (Z.ltb_spec n 0) as [Neg|Pos].
  - rewrite Z.abs_neq by lia. rewrite opp_IZR. destruct S1 as [->| ->]; unfold sgn; cbn; ring.
  - rewrite Z.abs_eq by lia. ring.
Qed.

Theorem mpf_rdiv_int_round n t prec r : regular t -> 0 < prec ->
  exists y, mpf_rdiv_int n t prec r = Ok y /\ rv y = RND r prec (IZR n / rv t).
Proof.
  intros Ht Hp. destruct (from_int_exact_fin n) as [Fn Vn]. unfold mpf_rdiv_int.
  destruct t as [sign man exp bc]. pose proof Ht as [T1 [T2 [T3 T4]]]. cbn [msign mman mexp mbc] in *.
  destruct (Z.eqb_spec man 0); [lia|]. rewrite orb_false_r.
  destruct (Z.eqb_spec n 0) as [N0|NN].
  { destruct (mpf_div_round (from_int n 0 RD) (Mpf sign man exp bc) prec r Fn Ht Hp) as [y [E V]].
    exists y. split; [exact E|]. rewrite V, Vn. reflexivity. }
  set (sg := if n <? 0 then Z.lxor sign 1 else sign).
  assert (Hsg : sg = 0 \/ sg = 1) by (unfold sg; destruct (n <? 0); [apply lxor_bit; auto|exact T1]).
  assert (Ha : 0 < Z.abs n) by lia.
  set (extra := prec + bc + 5). pose proof (bitcount_pos man T2) as Bm. rewrite <- T4 in Bm.
  assert (He : 0 <= extra) by (unfold extra; lia).
  set (num := Z.shiftl (Z.abs n) extra).
  assert (Hnum : num = Z.abs n * 2 ^ extra) by (unfold num; apply Z.shiftl_mul_pow2; lia).
  assert (Hdm : num = man * (num / man) + num mod man) by (apply Z.div_mod; lia).
  assert (Hmod : 0 <= num mod man < man) by (apply Z.mod_pos_bound; lia).
  pose proof (bitcount_pos (Z.abs n) Ha) as Bn.
  destruct (quot_bits (Z.abs n) man extra Ha T2 He) as [[Hqb Hqpos]|Hbad]; [|unfold extra in Hbad; lia].
  fold num in Hqb, Hqpos.
  assert (Hval : (IZR n / rv (Mpf sign man exp bc) = sgn sg * (F2R (Float radix2 (Z.abs n) 0) / F2R (Float radix2 man exp)))%R).
  { unfold rv; cbn [msign mman mexp]. pose proof (F2R_pos man exp T2). pose proof (sgn_nz sign T1).
    replace (F2R (Float radix2 (Z.abs n) 0)) with (IZR (Z.abs n)) by (unfold F2R; simpl; ring).
    unfold sg. destruct (Z.ltb_spec n 0) as [Neg|Pos].
    - rewrite Z.abs_neq by lia. rewrite opp_IZR. destruct T1 as [->| ->]; unfold sgn; cbn; field; lra.
    - rewrite Z.abs_eq by lia. destruct T1 as [->| ->]; unfold sgn; cbn; field; lra. }
  rewrite Hval.
  rewrite (quotient_decomp (Z.abs n) man 0 exp extra (num / man) (num mod man)) by (try lia; rewrite <- Hnum; exact Hdm).
  destruct (Z.eqb_spec (num mod man) 0) as [E0|N0]; cbn [negb].
  - eexists. split; [reflexivity|]. rewrite normalize_round; auto; try lia.
    f_equal. unfold sval. f_equal. rewrite E0. unfold F2R, Rdiv; cbn [Fnum Fexp]. rewrite Rmult_0_l, Rplus_0_r.
    replace (- exp - extra) with (0 - exp - extra) by lia. reflexivity.
  - eexists. split; [reflexivity|].
    assert (Hq1 : Z.shiftl (num / man) 1 + 1 = 2 * (num / man) + 1).
    { rewrite Z.shiftl_mul_pow2 by lia. change (2 ^ 1) with 2. lia. }
    rewrite Hq1.
    rewrite normalize1_round; auto; try lia.
    symmetry. replace (- exp - (extra + 1)) with (0 - exp - extra - 1) by lia.
    apply RND_sticky; auto; try (unfold extra in *; lia).
    assert (0 < IZR man)%R by (apply IZR_lt; lia).
    assert (0 < IZR (num mod man))%R by (apply IZR_lt; lia).
    assert (IZR (num mod man) < IZR man)%R by (apply IZR_lt; lia).
    split; [apply Rdiv_lt_0_compat; lra|].
    apply Rmult_lt_reg_r with (IZR man); [lra|]. unfold Rdiv. rewrite Rmult_assoc, Rinv_l by lra. lra.
Qed.
