(* CplxDiv.v — C04 (division): mpc_div returns, per component, the correctly rounded quotient of the (prec+10)-bit truncations
   of ac+bd, bc-ad and c^2+d^2 (exact structural statement), and each component is within 6 * 2^-prec * |z| / |w| of the exact
   quotient (error bound relative to the modulus), for all finite operands with w <> 0, every precision and rounding mode. *)
From Coq Require Import ZArith Reals Bool Lia Lra Psatz.
From Flocq Require Import Core Relative.
From MP Require Import Algo.Base Algo.Libmpf Algo.Libmpc Spec.Mpf Spec.Round Proofs.NormRound Proofs.Ops Proofs.AddRound Proofs.Fin
  Proofs.DivRound Proofs.Cplx.
Open Scope Z_scope.

Lemma RND_rel r p x : 0 < p -> exists eps, (Rabs eps < bpow radix2 (- p + 1))%R /\ RND r p x = (x * (1 + eps))%R.
Proof.
  intros Hp. unfold RND. assert (HP : Prec_gt_0 p) by exact Hp.
  apply relative_error_FLX_ex; [exact HP|typeclasses eauto].
Qed.

Lemma nz_regular x : fincanon x -> (rv x <> 0)%R -> regular x.
Proof. intros [->|H] Hn; [exfalso; apply Hn, rv_fzero|exact H]. Qed.

(* pure real analysis: three relative perturbations *)
Lemma three_eps N M d1 d2 d3 u v : (0 < M)%R -> (0 <= u)%R -> (u <= v / 1024)%R -> (v <= 1)%R ->
  (Rabs d1 <= u)%R -> (Rabs d2 <= u)%R -> (Rabs d3 <= v)%R ->
  (Rabs (N * (1 + d1) / (M * (1 + d2)) * (1 + d3) - N / M) <= 3 * v * (Rabs N / M))%R.
Proof.
  intros HM Hu Huv Hv H1 H2 H3.
  apply Rabs_le_inv in H1. apply Rabs_le_inv in H2. apply Rabs_le_inv in H3.
  assert (P2 : (0 < 1 + d2)%R) by lra.
  replace (N * (1 + d1) / (M * (1 + d2)) * (1 + d3) - N / M)%R
    with ((N / M) * (((1 + d1) * (1 + d3) - (1 + d2)) / (1 + d2)))%R by (field; lra).
  rewrite Rabs_mult. unfold Rdiv at 1. rewrite Rabs_mult, (Rabs_pos_eq (/ M)) by (left; apply Rinv_0_lt_compat; exact HM).
  replace (3 * v * (Rabs N / M))%R with (Rabs N * / M * (3 * v))%R by (unfold Rdiv; ring).
  apply Rmult_le_compat_l; [apply Rmult_le_pos; [apply Rabs_pos|left; apply Rinv_0_lt_compat; exact HM]|].
  unfold Rdiv. rewrite Rabs_mult, (Rabs_pos_eq (/ (1 + d2))) by (left; apply Rinv_0_lt_compat; exact P2).
  assert (I2 : (/ (1 + d2) <= 2)%R).
  { apply Rmult_le_reg_r with (1 + d2)%R; [exact P2|]. rewrite Rinv_l by lra. nra. }
  assert (B : (Rabs ((1 + d1) * (1 + d3) - (1 + d2)) <= 2 * u + v + u * v)%R).
  { apply Rabs_le. split; nra. }
  assert (I0 : (0 < / (1 + d2))%R) by (apply Rinv_0_lt_compat; exact P2).
  assert (A0 : (0 <= Rabs ((1 + d1) * (1 + d3) - (1 + d2)))%R) by apply Rabs_pos.
  assert (Vn : (0 <= v)%R) by lra.
  assert (UV0 : (u * v <= u * 1)%R) by (apply Rmult_le_compat_l; lra).
  assert (UV : (u * v <= v / 1024)%R) by lra.
  eapply Rle_trans; [apply Rmult_le_compat; [exact A0|lra|exact B|exact I2]|]. lra.
Qed.

(* Cauchy-Schwarz in the form needed: |ac+bd| <= |z||w| and |bc-ad| <= |z||w|, stated with squares *)
Lemma cs1 a b c d : ((a * c + b * d) ^ 2 <= (a ^ 2 + b ^ 2) * (c ^ 2 + d ^ 2))%R.
Proof. pose proof (pow2_ge_0 (a * d - b * c)). nra. Qed.
Lemma cs2 a b c d : ((b * c - a * d) ^ 2 <= (a ^ 2 + b ^ 2) * (c ^ 2 + d ^ 2))%R.
Proof. pose proof (pow2_ge_0 (a * c + b * d)). nra. Qed.

Definition cabs2 (z : mpc) : R := (cre z ^ 2 + cim z ^ 2)%R.

Theorem mpc_div_spec z w prec r : cfin z -> cfin w -> (0 < cabs2 w)%R -> 0 < prec ->
  exists q, mpc_div z w prec r = Ok q /\ cfin q /\
    let wp := prec + 10 in
    let M := RND RD wp (cre w * cre w + cim w * cim w) in
    cre q = RND r prec (RND RD wp (cre z * cre w + cim z * cim w) / M) /\
    cim q = RND r prec (RND RD wp (cim z * cre w - cre z * cim w) / M) /\
    (* error bound relative to the modulus of the exact quotient: |z|/|w| = sqrt (cabs2 z / cabs2 w) *)
    (Rabs (cre q - (cre z * cre w + cim z * cim w) / cabs2 w) <= 3 * bpow radix2 (- prec + 1) * sqrt (cabs2 z / cabs2 w))%R /\
    (Rabs (cim q - (cim z * cre w - cre z * cim w) / cabs2 w) <= 3 * bpow radix2 (- prec + 1) * sqrt (cabs2 z / cabs2 w))%R.
Proof.
  intros [Z1 Z2] [W1 W2] HW Hp. destruct z as [a b], w as [c d]. unfold mpc_div, cabs2, cfin, cre, cim in *; cbn [fst snd] in *.
  set (wp := prec + 10). assert (Hwp : 0 < wp) by (unfold wp; lia).
  destruct (mul_exact_fin c c W1 W1) as [Fcc Vcc]. destruct (mul_exact_fin d d W2 W2) as [Fdd Vdd].
  destruct (mul_exact_fin a c Z1 W1) as [Fac Vac]. destruct (mul_exact_fin b d Z2 W2) as [Fbd Vbd].
  destruct (mul_exact_fin b c Z2 W1) as [Fbc Vbc]. destruct (mul_exact_fin a d Z1 W2) as [Fad Vad].
  set (mag := mpf_add (mpf_mul c c 0 RD) (mpf_mul d d 0 RD) wp RD).
  set (t := mpf_add (mpf_mul a c 0 RD) (mpf_mul b d 0 RD) wp RD).
  set (u := mpf_sub (mpf_mul b c 0 RD) (mpf_mul a d 0 RD) wp RD).
  assert (Fmag : fincanon mag) by (apply mpf_add_gen_fincanon; auto; lia).
  assert (Ft : fincanon t) by (apply mpf_add_gen_fincanon; auto; lia).
  assert (Fu : fincanon u) by (apply mpf_add_gen_fincanon; auto; lia).
  assert (Vmag : rv mag = RND RD wp (rv c * rv c + rv d * rv d)) by (unfold mag; rewrite mpf_add_round by auto; rewrite Vcc, Vdd; reflexivity).
  assert (Vt : rv t = RND RD wp (rv a * rv c + rv b * rv d)) by (unfold t; rewrite mpf_add_round by auto; rewrite Vac, Vbd; reflexivity).
  assert (Vu : rv u = RND RD wp (rv b * rv c - rv a * rv d)) by (unfold u; rewrite mpf_sub_round by auto; rewrite Vbc, Vad; reflexivity).
  set (M0 := (rv c * rv c + rv d * rv d)%R) in *.
  assert (HM0 : (0 < M0)%R) by (unfold M0; replace (rv c * rv c + rv d * rv d)%R with (rv c ^ 2 + rv d ^ 2)%R by ring; exact HW).
  destruct (RND_rel RD wp M0 Hwp) as [e2 [B2 E2]].
  assert (Bw : (bpow radix2 (- wp + 1) <= bpow radix2 (- prec + 1) / 1024)%R).
  { unfold wp. replace (- (prec + 10) + 1) with ((- prec + 1) + (-10)) by lia. rewrite bpow_plus.
    replace (bpow radix2 (-10)) with (/ 1024)%R by (simpl; lra). unfold Rdiv. lra. }
  assert (Bv : (bpow radix2 (- prec + 1) <= 1)%R) by (change 1%R with (bpow radix2 0); apply bpow_le; lia).
  assert (Pv : (0 < bpow radix2 (- prec + 1))%R) by apply bpow_gt_0.
  assert (Pu : (0 < bpow radix2 (- wp + 1))%R) by apply bpow_gt_0.
  assert (HMpos : (0 < rv mag)%R).
  { rewrite Vmag, E2. apply Rabs_def2 in B2. nra. }
  assert (Rmag : regular mag) by (apply nz_regular; auto; lra).
  destruct (mpf_div_round t mag prec r Ft Rmag Hp) as [re [Ere Vre]].
  destruct (mpf_div_round u mag prec r Fu Rmag Hp) as [im [Eim Vim]].
  exists (re, im). fold wp mag t u. rewrite Ere. cbn [bind]. rewrite Eim. cbn [bind]. split; [reflexivity|].
  split; [split; cbn [fst snd]; [exact (div_fincanon t mag prec r re Ft Rmag Hp Ere)|exact (div_fincanon u mag prec r im Fu Rmag Hp Eim)]|].
  cbv zeta. cbn [fst snd]. rewrite Vre, Vim, Vt, Vu, Vmag. split; [reflexivity|]. split; [reflexivity|].
  (* error bounds *)
  assert (SQ : forall N, (N ^ 2 <= (rv a ^ 2 + rv b ^ 2) * M0)%R ->
     (Rabs N / M0 <= sqrt ((rv a ^ 2 + rv b ^ 2) / (rv c ^ 2 + rv d ^ 2)))%R).
  { intros N HN. replace (rv c ^ 2 + rv d ^ 2)%R with M0 by (unfold M0; ring).
    apply Rsqr_incr_0_var; [|apply sqrt_pos].
    rewrite Rsqr_sqrt by (apply Rmult_le_pos; [nra|left; apply Rinv_0_lt_compat; exact HM0]).
    unfold Rsqr. replace (Rabs N / M0 * (Rabs N / M0))%R with (Rabs N * Rabs N / (M0 * M0))%R by (field; lra).
    replace (Rabs N * Rabs N)%R with (N ^ 2)%R by (rewrite <- Rabs_mult, Rabs_pos_eq by nra; ring).
    apply Rmult_le_reg_r with (M0 * M0)%R; [nra|]. unfold Rdiv. rewrite Rmult_assoc, Rinv_l by nra.
    replace ((rv a ^ 2 + rv b ^ 2) * / M0 * (M0 * M0))%R with ((rv a ^ 2 + rv b ^ 2) * M0)%R by (field; lra). lra. }
  assert (BND : forall N, (N ^ 2 <= (rv a ^ 2 + rv b ^ 2) * M0)%R ->
     (Rabs (RND r prec (RND RD wp N / RND RD wp M0) - N / M0) <= 3 * bpow radix2 (- prec + 1) * sqrt ((rv a ^ 2 + rv b ^ 2) / (rv c ^ 2 + rv d ^ 2)))%R).
  { intros N HN. destruct (RND_rel RD wp N Hwp) as [e1 [B1 E1]].
    destruct (RND_rel r prec (RND RD wp N / RND RD wp M0) Hp) as [e3 [B3 E3]].
    rewrite E3, E1, E2.
    eapply Rle_trans.
    - apply (three_eps N M0 e1 e2 e3 (bpow radix2 (- wp + 1)) (bpow radix2 (- prec + 1))); try lra.
    - apply Rmult_le_compat_l; [lra|]. apply SQ. exact HN. }
  split.
  - replace (rv c ^ 2 + rv d ^ 2)%R with M0 at 1 by (unfold M0; ring). apply BND. unfold M0. pose proof (cs1 (rv a) (rv b) (rv c) (rv d)). nra.
  - replace (rv c ^ 2 + rv d ^ 2)%R with M0 at 1 by (unfold M0; ring). apply BND. unfold M0. pose proof (cs2 (rv a) (rv b) (rv c) (rv d)). nra.
Qed.
