(* IsqrtP.v — the pure-Python integer square roots compute floor(sqrt x):
   (1) the division-based Newton loop of isqrt_small_python returns Z.sqrt x from every start value r0 >= Z.sqrt x
       (and within log2 r0 + 3 iterations: the distance to the root at least halves each round);
   (2) the correction loops of sqrtrem_python return (Z.sqrt x, x - (Z.sqrt x)^2) from every approximation
       approx >= Z.sqrt x - 1, i.e. whenever isqrt_fast is at most one unit too small (any amount too large is repaired);
   (3) one Newton step from ANY positive start is >= Z.sqrt x (so isqrt_fast's x < 2^800 branch never undershoots once a
       step has been taken), and the up-correction loop of sqrtrem_python is wrong when it runs (refuted example: it is
       dead code under (2), reachable only if isqrt_fast were two or more units too small).  Pure Z. *)
From Coq Require Import ZArith Bool Lia List.
From MP Require Import Algo.Base Algo.Isqrt.
Open Scope Z_scope.

Lemma sqrt_bounds x : 0 <= x -> Z.sqrt x * Z.sqrt x <= x < (Z.sqrt x + 1) * (Z.sqrt x + 1).
Proof. intros H. pose proof (Z.sqrt_spec x H) as S. unfold Z.succ in S. exact S. Qed.

Lemma shiftr1 a : Z.shiftr a 1 = a / 2.
Proof. rewrite Z.shiftr_div_pow2 by lia. reflexivity. Qed.

(* one Newton step from any positive r is >= floor(sqrt x) *)
Lemma nstep_ge x r : 0 <= x -> 0 < r -> Z.sqrt x <= Z.shiftr (r + x / r) 1.
Proof.
  intros Hx Hr. rewrite shiftr1. pose proof (sqrt_bounds x Hx) as [S1 S2]. set (s := Z.sqrt x) in *.
  assert (Hs : 0 <= s) by apply Z.sqrt_nonneg.
  assert (Q : 2 * s - r <= x / r).
  { apply Z.div_le_lower_bound; [lia|]. pose proof (Z.square_nonneg (r - s)). nia. }
  apply Z.div_le_lower_bound; lia.
Qed.

(* from r > floor(sqrt x) the step strictly decreases, and the distance to the root at least halves *)
Lemma nstep_lt x r : 0 <= x -> Z.sqrt x < r -> Z.shiftr (r + x / r) 1 < r.
Proof.
  intros Hx Hr. rewrite shiftr1. pose proof (sqrt_bounds x Hx) as [S1 S2]. set (s := Z.sqrt x) in *.
  assert (Hs : 0 <= s) by apply Z.sqrt_nonneg.
  assert (Q : x / r < r) by (apply Z.div_lt_upper_bound; nia).
  apply Z.div_lt_upper_bound; lia.
Qed.

Lemma nstep_half x r : 0 <= x -> Z.sqrt x < r -> 2 * Z.shiftr (r + x / r) 1 <= r + Z.sqrt x + 1.
Proof.
  intros Hx Hr. rewrite shiftr1. pose proof (sqrt_bounds x Hx) as [S1 S2]. set (s := Z.sqrt x) in *.
  assert (Hs : 0 <= s) by apply Z.sqrt_nonneg.
  assert (Q : x / r < s + 2) by (apply Z.div_lt_upper_bound; nia).
  pose proof (Z.mul_div_le (r + x / r) 2 ltac:(lia)). lia.
Qed.

(* at the root the loop stops *)
Lemma nstep_fix x : 0 < x -> Z.sqrt x <= Z.shiftr (Z.sqrt x + x / Z.sqrt x) 1.
Proof. intros Hx. apply nstep_ge; [lia|]. apply Z.sqrt_pos. exact Hx. Qed.

Lemma newton_S f r x : newton (S f) r x = let y := Z.shiftr (r + x / r) 1 in if r <=? y then Some r else newton f y x.
Proof. reflexivity. Qed.

(* partial correctness for every fuel *)
Lemma newton_sound x : 0 < x -> forall fuel r v, Z.sqrt x <= r -> newton fuel r x = Some v -> v = Z.sqrt x.
Proof.
  intros Hx. induction fuel as [|f IH]; intros r v Hr E; [discriminate|].
  rewrite newton_S in E. cbv zeta in E.
  assert (Hr0 : 0 < r) by (pose proof (Z.sqrt_pos x); lia).
  destruct (Z.leb_spec r (Z.shiftr (r + x / r) 1)) as [L|L].
  - injection E as <-. destruct (Z.eq_dec r (Z.sqrt x)) as [e|ne]; [exact e|].
    pose proof (nstep_lt x r ltac:(lia) ltac:(lia)). lia.
  - apply (IH _ _ (nstep_ge x r ltac:(lia) Hr0) E).
Qed.

(* termination with a logarithmic iteration count *)
Lemma newton_total x : 0 < x -> forall f r, Z.sqrt x <= r -> r - Z.sqrt x <= 2 ^ Z.of_nat f ->
  forall fuel, (f + 2 <= fuel)%nat -> newton fuel r x = Some (Z.sqrt x).
Proof.
  intros Hx. pose proof (proj2 (Z.sqrt_pos x) Hx) as Hs.
  induction f as [|f IH]; intros r Hr Hd fuel Hf.
  - destruct fuel as [|[|fuel]]; try lia. change (2 ^ Z.of_nat 0) with 1 in Hd.
    rewrite newton_S. cbv zeta. destruct (Z.eq_dec r (Z.sqrt x)) as [->|ne].
    + pose proof (nstep_fix x Hx) as F. destruct (Z.leb_spec (Z.sqrt x) (Z.shiftr (Z.sqrt x + x / Z.sqrt x) 1)); [reflexivity|lia].
    + assert (r = Z.sqrt x + 1) as -> by lia.
      pose proof (nstep_lt x (Z.sqrt x + 1) ltac:(lia) ltac:(lia)) as L.
      pose proof (nstep_ge x (Z.sqrt x + 1) ltac:(lia) ltac:(lia)) as G.
      destruct (Z.leb_spec (Z.sqrt x + 1) (Z.shiftr (Z.sqrt x + 1 + x / (Z.sqrt x + 1)) 1)); [lia|].
      replace (Z.shiftr (Z.sqrt x + 1 + x / (Z.sqrt x + 1)) 1) with (Z.sqrt x) by lia.
      rewrite newton_S. cbv zeta. pose proof (nstep_fix x Hx) as F.
      destruct (Z.leb_spec (Z.sqrt x) (Z.shiftr (Z.sqrt x + x / Z.sqrt x) 1)); [reflexivity|lia].
  - destruct fuel as [|fuel]; [lia|]. rewrite newton_S. cbv zeta.
    destruct (Z.eq_dec r (Z.sqrt x)) as [->|ne].
    + pose proof (nstep_fix x Hx) as F. destruct (Z.leb_spec (Z.sqrt x) (Z.shiftr (Z.sqrt x + x / Z.sqrt x) 1)); [reflexivity|lia].
    + pose proof (nstep_lt x r ltac:(lia) ltac:(lia)) as L.
      pose proof (nstep_ge x r ltac:(lia) ltac:(lia)) as G.
      pose proof (nstep_half x r ltac:(lia) ltac:(lia)) as Hh.
      destruct (Z.leb_spec r (Z.shiftr (r + x / r) 1)); [lia|].
      apply IH; [exact G| |lia].
      rewrite Nat2Z.inj_succ, Z.pow_succ_r in Hd by lia. lia.
Qed.

Theorem isqrt_small_newton_spec x r0 : 0 < x -> Z.sqrt x <= r0 -> isqrt_small_newton x r0 = Some (Z.sqrt x).
Proof.
  intros Hx Hr. unfold isqrt_small_newton, newton_fuel.
  pose proof (proj2 (Z.sqrt_pos x) Hx) as Hs.
  apply (newton_total x Hx (Z.to_nat (Z.log2 r0) + 1) r0 Hr); [|lia].
  rewrite Nat2Z.inj_add, Z2Nat.id by apply Z.log2_nonneg. change (Z.of_nat 1) with 1.
  pose proof (Z.log2_spec r0 ltac:(lia)) as [_ U]. unfold Z.succ in U. lia.
Qed.

(* ---- sqrtrem_python: the correction loops ---- *)
Lemma fix_down_S f y rem : fix_down (S f) y rem = if rem <? 0 then fix_down f (y - 1) (rem + (1 + 2 * (y - 1))) else Some (y, rem).
Proof. reflexivity. Qed.
Lemma fix_up_S f y rem : fix_up (S f) y rem = if 2 * (1 + y) <? rem then fix_up f (y + 1) (rem - (1 + 2 * (y + 1))) else Some (y, rem).
Proof. reflexivity. Qed.

Lemma fix_down_spec x : 0 <= x -> forall fuel y, Z.sqrt x <= y -> y - Z.sqrt x < Z.of_nat fuel ->
  fix_down fuel y (x - y * y) = Some (Z.sqrt x, x - Z.sqrt x * Z.sqrt x).
Proof.
  intros Hx. pose proof (sqrt_bounds x Hx) as [S1 S2]. pose proof (Z.sqrt_nonneg x) as Hs.
  induction fuel as [|f IH]; intros y Hy Hf; [lia|]. rewrite fix_down_S.
  destruct (Z.ltb_spec (x - y * y) 0) as [L|L].
  - assert (Z.sqrt x < y) by nia.
    replace (x - y * y + (1 + 2 * (y - 1))) with (x - (y - 1) * (y - 1)) by ring. apply IH; lia.
  - assert (y = Z.sqrt x) as -> by nia. reflexivity.
Qed.

Theorem sqrtrem_fix_spec x approx fuel : 0 <= x -> Z.sqrt x - 1 <= approx -> approx + 1 - Z.sqrt x < Z.of_nat fuel ->
  sqrtrem_fix fuel x approx = Some (Z.sqrt x, x - Z.sqrt x * Z.sqrt x).
Proof.
  intros Hx Ha Hf. unfold sqrtrem_fix. rewrite (fix_down_spec x Hx fuel (approx + 1)) by lia.
  pose proof (sqrt_bounds x Hx) as [S1 S2]. pose proof (Z.sqrt_nonneg x) as Hs.
  destruct (Z.eqb_spec (x - Z.sqrt x * Z.sqrt x) 0) as [->|ne]; [reflexivity|].
  destruct fuel as [|f]; [lia|]. rewrite fix_up_S.
  destruct (Z.ltb_spec (2 * (1 + Z.sqrt x)) (x - Z.sqrt x * Z.sqrt x)); [lia|reflexivity].
Qed.

(* sqrtrem agrees with the standard library's pair *)
Lemma sqrtrem_pair x : 0 <= x -> Z.sqrtrem x = (Z.sqrt x, x - Z.sqrt x * Z.sqrt x).
Proof.
  intros Hx. pose proof (Z.sqrtrem_spec x Hx) as S. pose proof (Z.sqrtrem_sqrt x) as Q.
  destruct (Z.sqrtrem x) as [s r]. cbn [fst] in Q. subst s. f_equal. lia.
Qed.

(* the up-correction loop computes a wrong remainder when it runs (approx two units too small) *)
Example sqrtrem_fix_up_refuted : sqrtrem_fix 10 24 2 = Some (4, 6) /\ Z.sqrtrem 24 = (4, 8).
Proof. split; reflexivity. Qed.

(* isqrt_fast, x < 2^800: once a Newton step has been taken the result is >= floor(sqrt x) *)
Theorem isqrt_fast_smallx_ge x y0 : 2 ^ 100 <= x -> 0 < y0 -> Z.sqrt x <= isqrt_fast_smallx x y0.
Proof.
  intros Hx Hy. unfold isqrt_fast_smallx, nstep.
  assert (X0 : 0 <= x) by lia.
  assert (P : forall y, 0 < y -> 0 < Z.shiftr (y + x / y) 1).
  { intros y H. pose proof (nstep_ge x y X0 H). assert (0 < Z.sqrt x) by (apply Z.sqrt_pos; lia). lia. }
  destruct (Z.ltb_spec x (2 ^ 100)); [lia|].
  destruct (Z.ltb_spec x (2 ^ 200)); [apply nstep_ge; assumption|].
  destruct (Z.ltb_spec x (2 ^ 400)); [apply nstep_ge; auto|].
  apply nstep_ge; auto.
Qed.
