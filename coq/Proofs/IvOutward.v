(* IvOutward.v — C14: the outward step of mpi_exp / mpi_log.  The point function (mpf_exp, mpf_log) is an input: whenever
   its value v at the working precision wp = prec + 20 is within a relative 2^(9-wp) (512 units of the last place at wp) of
   the exact value F, the lower end point computed from v is <= F and the upper end point is >= F, for every sign of F.
   Consequently mpi_exp / mpi_log contain exp x / ln x for every member point, by monotonicity. *)
From Coq Require Import ZArith Reals Bool Lia Lra Psatz.
From Flocq Require Import Core.
From MP Require Import Algo.Base Algo.Libmpf Algo.Libmpi Spec.Mpf Spec.Round Proofs.Normalize Proofs.NormRound Proofs.Ops Proofs.AddRound
  Proofs.Fin Proofs.IntPart Proofs.IvCmp Proofs.IvContain Proofs.IvMul.
Open Scope Z_scope.

Definition delta (wp : Z) : R := bpow radix2 (10 - wp).

Lemma delta_bounds wp : 11 <= wp -> (0 < delta wp <= / 2)%R.
Proof.
  intros H. unfold delta. split; [apply bpow_gt_0|].
  change (/ 2)%R with (bpow radix2 (-1)). apply bpow_le. lia.
Qed.

Lemma p_plus wp : 0 <= wp -> rv (from_man_exp (Z.shiftl 1 wp + Z.shiftl 1 10) (- wp) 0 RD) = (1 + delta wp)%R
  /\ fincanon (from_man_exp (Z.shiftl 1 wp + Z.shiftl 1 10) (- wp) 0 RD).
Proof.
  intros H. split; [|apply from_man_exp_fincanon; lia]. rewrite from_man_exp_exact. unfold F2R, delta; cbn [Fnum Fexp].
  rewrite !Z.shiftl_mul_pow2, !Z.mul_1_l by lia. rewrite plus_IZR, !IZR_pow2 by lia.
  rewrite Rmult_plus_distr_r, <- !bpow_plus. replace (wp + - wp) with 0 by lia. replace (10 + - wp) with (10 - wp) by lia.
  reflexivity.
Qed.

Lemma p_minus wp : 0 <= wp -> rv (from_man_exp (Z.shiftl 1 wp - Z.shiftl 1 10) (- wp) 0 RD) = (1 - delta wp)%R
  /\ fincanon (from_man_exp (Z.shiftl 1 wp - Z.shiftl 1 10) (- wp) 0 RD).
Proof.
  intros H. split; [|apply from_man_exp_fincanon; lia]. rewrite from_man_exp_exact. unfold F2R, delta; cbn [Fnum Fexp].
  rewrite !Z.shiftl_mul_pow2, !Z.mul_1_l by lia. rewrite minus_IZR, !IZR_pow2 by lia.
  rewrite Rmult_minus_distr_r, <- !bpow_plus. replace (wp + - wp) with 0 by lia. replace (10 + - wp) with (10 - wp) by lia.
  reflexivity.
Qed.

(* accuracy hypothesis on the point value *)
Definition close (wp : Z) (v F : R) : Prop := (Rabs (v - F) <= delta wp / 2 * Rabs F)%R.

Lemma close_zero wp v : 11 <= wp -> close wp v 0 -> v = 0%R.
Proof.
  unfold close. intros H C. rewrite Rabs_R0, Rmult_0_r, Rminus_0_r in C. pose proof (Rabs_pos v).
  destruct (Req_dec v 0) as [E|E]; [exact E|]. pose proof (Rabs_pos_lt v E). lra.
Qed.

Lemma close_same_sign_pos wp v F : 11 <= wp -> close wp v F -> (0 < v)%R -> (0 < F)%R.
Proof.
  unfold close. intros H C Hv. pose proof (delta_bounds wp H) as [D1 D2].
  destruct (Rle_or_lt F 0) as [N|P]; [|exact P]. exfalso.
  rewrite (Rabs_left1 F N) in C. assert (0 < v - F)%R by lra. rewrite Rabs_pos_eq in C by lra. nra.
Qed.
Lemma close_same_sign_neg wp v F : 11 <= wp -> close wp v F -> (v < 0)%R -> (F < 0)%R.
Proof.
  unfold close. intros H C Hv. pose proof (delta_bounds wp H) as [D1 D2].
  destruct (Rle_or_lt 0 F) as [N|P]; [|exact P]. exfalso.
  rewrite (Rabs_pos_eq F N) in C. assert (v - F < 0)%R by lra. rewrite Rabs_left in C by lra. nra.
Qed.

(* the four real-number facts behind the outward factor *)
Lemma out_low_pos v F d : (0 < d <= / 2)%R -> (0 < F)%R -> (Rabs (v - F) <= d / 2 * F)%R -> (v * (1 - d) <= F)%R.
Proof.
  intros [D1 D2] HF C. pose proof (Rle_abs (v - F)) as A.
  assert (V : (v <= F * (1 + d / 2))%R) by nra.
  assert (B : (v * (1 - d) <= F * (1 + d / 2) * (1 - d))%R) by (apply Rmult_le_compat_r; lra).
  assert (0 <= F * (d / 2 + d * d / 2))%R by (apply Rmult_le_pos; nra). nra.
Qed.
Lemma out_low_neg v F d : (0 < d <= / 2)%R -> (F < 0)%R -> (Rabs (v - F) <= d / 2 * - F)%R -> (v * (1 + d) <= F)%R.
Proof.
  intros [D1 D2] HF C. pose proof (Rle_abs (v - F)) as A.
  assert (V : (v <= F * (1 - d / 2))%R) by nra.
  assert (B : (v * (1 + d) <= F * (1 - d / 2) * (1 + d))%R) by (apply Rmult_le_compat_r; lra).
  assert (0 <= - F * (d / 2 - d * d / 2))%R by (apply Rmult_le_pos; nra). nra.
Qed.
Lemma out_high_pos v F d : (0 < d <= / 2)%R -> (0 < F)%R -> (Rabs (v - F) <= d / 2 * F)%R -> (F <= v * (1 + d))%R.
Proof.
  intros [D1 D2] HF C. pose proof (Rle_abs (- (v - F))) as A. rewrite Rabs_Ropp in A.
  assert (V : (F * (1 - d / 2) <= v)%R) by nra.
  assert (B : (F * (1 - d / 2) * (1 + d) <= v * (1 + d))%R) by (apply Rmult_le_compat_r; lra).
  assert (0 <= F * (d / 2 - d * d / 2))%R by (apply Rmult_le_pos; nra). nra.
Qed.
Lemma out_high_neg v F d : (0 < d <= / 2)%R -> (F < 0)%R -> (Rabs (v - F) <= d / 2 * - F)%R -> (F <= v * (1 - d))%R.
Proof.
  intros [D1 D2] HF C. pose proof (Rle_abs (- (v - F))) as A. rewrite Rabs_Ropp in A.
  assert (V : (F * (1 + d / 2) <= v)%R) by nra.
  assert (B : (F * (1 + d / 2) * (1 - d) <= v * (1 - d))%R) by (apply Rmult_le_compat_r; lra).
  assert (0 <= - F * (d / 2 + d * d / 2))%R by (apply Rmult_le_pos; nra). nra.
Qed.

Theorem mpi_outward_floor v prec F : fincanon v -> 0 < prec -> close (prec + 20) (rv v) F ->
  (rv (mpi_outward v prec RF) <= F)%R /\ fincanon (mpi_outward v prec RF).
Proof.
  intros Hv Hp C. unfold mpi_outward. cbv zeta. set (wp := prec + 20) in *.
  pose proof (delta_bounds wp ltac:(lia)) as [D1 D2].
  destruct Hv as [->|Hr].
  { cbn [mman fzero Z.eqb]. rewrite rv_fzero in *. split; [|left; reflexivity].
    (* v = 0: F must be 0 *)
    unfold close in C. rewrite Rminus_0_l, Rabs_Ropp in C. pose proof (Rabs_pos F).
    assert (Rabs F = 0)%R by nra. destruct (Req_dec F 0) as [->|E]; [lra|]. pose proof (Rabs_pos_lt F E). lra. }
  assert (M : mman v =? 0 = false) by (apply Z.eqb_neq; destruct Hr as [_ [? _]]; lia). rewrite M.
  cbn [rnd_eqb].
  destruct (rv_pos_neg v Hr) as [[S V]|[S V]]; rewrite S; cbn [Z.eqb negb Bool.eqb].
  - destruct (p_minus wp ltac:(lia)) as [P Fp].
    destruct (mul_roe v _ prec RF (or_intror Hr) Fp ltac:(lia)) as [E Fm]. split; [|exact Fm].
    rewrite E, P. unfold rnd_or_exact. destruct (Z.eqb_spec prec 0); [lia|].
    pose proof (RND_floor_le prec (rv v * (1 - delta wp)) Hp).
    pose proof (close_same_sign_pos wp _ _ ltac:(lia) C V) as FP.
    unfold close in C. rewrite (Rabs_pos_eq F) in C by lra. pose proof (out_low_pos _ _ _ (conj D1 D2) FP C). lra.
  - destruct (p_plus wp ltac:(lia)) as [P Fp].
    destruct (mul_roe v _ prec RF (or_intror Hr) Fp ltac:(lia)) as [E Fm]. split; [|exact Fm].
    rewrite E, P. unfold rnd_or_exact. destruct (Z.eqb_spec prec 0); [lia|].
    pose proof (RND_floor_le prec (rv v * (1 + delta wp)) Hp).
    pose proof (close_same_sign_neg wp _ _ ltac:(lia) C V) as FN.
    unfold close in C. rewrite (Rabs_left F) in C by lra. pose proof (out_low_neg _ _ _ (conj D1 D2) FN C). lra.
Qed.

Theorem mpi_outward_ceil v prec F : fincanon v -> 0 < prec -> close (prec + 20) (rv v) F ->
  (F <= rv (mpi_outward v prec RC))%R /\ fincanon (mpi_outward v prec RC).
Proof.
  intros Hv Hp C. unfold mpi_outward. cbv zeta. set (wp := prec + 20) in *.
  pose proof (delta_bounds wp ltac:(lia)) as [D1 D2].
  destruct Hv as [->|Hr].
  { cbn [mman fzero Z.eqb]. rewrite rv_fzero in *. split; [|left; reflexivity].
    unfold close in C. rewrite Rminus_0_l, Rabs_Ropp in C. pose proof (Rabs_pos F).
    assert (Rabs F = 0)%R by nra. destruct (Req_dec F 0) as [->|E]; [lra|]. pose proof (Rabs_pos_lt F E). lra. }
  assert (M : mman v =? 0 = false) by (apply Z.eqb_neq; destruct Hr as [_ [? _]]; lia). rewrite M.
  cbn [rnd_eqb].
  destruct (rv_pos_neg v Hr) as [[S V]|[S V]]; rewrite S; cbn [Z.eqb negb Bool.eqb].
  - destruct (p_plus wp ltac:(lia)) as [P Fp].
    destruct (mul_roe v _ prec RC (or_intror Hr) Fp ltac:(lia)) as [E Fm]. split; [|exact Fm].
    rewrite E, P. unfold rnd_or_exact. destruct (Z.eqb_spec prec 0); [lia|].
    pose proof (RND_ceil_ge prec (rv v * (1 + delta wp)) Hp).
    pose proof (close_same_sign_pos wp _ _ ltac:(lia) C V) as FP.
    unfold close in C. rewrite (Rabs_pos_eq F) in C by lra. pose proof (out_high_pos _ _ _ (conj D1 D2) FP C). lra.
  - destruct (p_minus wp ltac:(lia)) as [P Fp].
    destruct (mul_roe v _ prec RC (or_intror Hr) Fp ltac:(lia)) as [E Fm]. split; [|exact Fm].
    rewrite E, P. unfold rnd_or_exact. destruct (Z.eqb_spec prec 0); [lia|].
    pose proof (RND_ceil_ge prec (rv v * (1 - delta wp)) Hp).
    pose proof (close_same_sign_neg wp _ _ ltac:(lia) C V) as FN.
    unfold close in C. rewrite (Rabs_left F) in C by lra. pose proof (out_high_neg _ _ _ (conj D1 D2) FN C). lra.
Qed.

Lemma rv_fone1 : rv fone = 1%R.
Proof. unfold rv, fone, sgn, F2R; simpl. ring. Qed.
Lemma fincanon_fone : fincanon fone.
Proof. right. apply regular_fone. Qed.

(* ---- mpi_exp: exp is increasing; an end point 0 gives exactly 1 ---- *)
Theorem mpi_exp_contains s va vb prec x : valid_iv s -> in_iv s x -> 0 < prec -> fincanon va -> fincanon vb ->
  close (prec + 20) (rv va) (exp (rv (fst s))) -> close (prec + 20) (rv vb) (exp (rv (snd s))) ->
  in_iv (mpi_exp_from s va vb prec) (exp x) /\ valid_iv (mpi_exp_from s va vb prec).
Proof.
  intros [Sa [Sb Sv]] [X1 X2] Hp Fa Fb Ca Cb. unfold mpi_exp_from.
  assert (LO : (rv (if mpf_eqb (fst s) fzero then fone else mpi_outward va prec RF) <= exp (rv (fst s)))%R /\
               fincanon (if mpf_eqb (fst s) fzero then fone else mpi_outward va prec RF)).
  { destruct (mpf_eqb (fst s) fzero) eqn:E.
    - apply mpf_eqb_eq in E. rewrite E, rv_fzero, exp_0, rv_fone1. split; [lra|apply fincanon_fone].
    - apply mpi_outward_floor; auto. }
  assert (HI : (exp (rv (snd s)) <= rv (if mpf_eqb (snd s) fzero then fone else mpi_outward vb prec RC))%R /\
               fincanon (if mpf_eqb (snd s) fzero then fone else mpi_outward vb prec RC)).
  { destruct (mpf_eqb (snd s) fzero) eqn:E.
    - apply mpf_eqb_eq in E. rewrite E, rv_fzero, exp_0, rv_fone1. split; [lra|apply fincanon_fone].
    - apply mpi_outward_ceil; auto. }
  destruct LO as [L1 L2], HI as [H1 H2].
  assert (M1 : (exp (rv (fst s)) <= exp x)%R) by (destruct X1 as [X1|X1]; [left; apply exp_increasing; exact X1|rewrite X1; lra]).
  assert (M2 : (exp x <= exp (rv (snd s)))%R) by (destruct X2 as [X2|X2]; [left; apply exp_increasing; exact X2|rewrite X2; lra]).
  unfold in_iv, valid_iv; cbn [fst snd]. repeat split; auto; lra.
Qed.

(* ---- mpi_log: ln is increasing on positive reals ---- *)
Theorem mpi_log_contains s va vb prec x : valid_iv s -> in_iv s x -> (0 < rv (fst s))%R -> 0 < prec -> fincanon va -> fincanon vb ->
  close (prec + 20) (rv va) (ln (rv (fst s))) -> close (prec + 20) (rv vb) (ln (rv (snd s))) ->
  in_iv (mpi_log_from va vb prec) (ln x) /\ valid_iv (mpi_log_from va vb prec).
Proof.
  intros [Sa [Sb Sv]] [X1 X2] Pos Hp Fa Fb Ca Cb. unfold mpi_log_from.
  destruct (mpi_outward_floor va prec _ Fa Hp Ca) as [L1 L2].
  destruct (mpi_outward_ceil vb prec _ Fb Hp Cb) as [H1 H2].
  assert (M1 : (ln (rv (fst s)) <= ln x)%R) by (destruct X1 as [X1|X1]; [left; apply ln_increasing; lra|rewrite X1; lra]).
  assert (M2 : (ln x <= ln (rv (snd s)))%R) by (destruct X2 as [X2|X2]; [left; apply ln_increasing; lra|rewrite X2; lra]).
  unfold in_iv, valid_iv; cbn [fst snd]. repeat split; auto; lra.
Qed.
