(* Bits.v — pure-Z facts about bitcount, trailing, shifts.  No Reals, no axioms. *)
From Coq Require Import ZArith List Bool Lia.
From MP Require Import Algo.Base.
Open Scope Z_scope.

Lemma bitcount_pos_log2 n : 0 < n -> bitcount n = Z.log2 n + 1.
Proof.
  destruct n as [|p|p]; try lia. intros _. simpl.
  destruct p; simpl; try reflexivity; rewrite ?Pos.add_1_r; lia.
Qed.

Lemma bitcount_0 : bitcount 0 = 0. Proof. reflexivity. Qed.

Lemma bitcount_nonneg n : 0 <= bitcount n.
Proof. destruct n; simpl; lia. Qed.

Lemma bitcount_pos n : 0 < n -> 0 < bitcount n.
Proof. intros H. rewrite bitcount_pos_log2 by lia. pose proof (Z.log2_nonneg n). lia. Qed.

Lemma bitcount_opp n : bitcount (- n) = bitcount n.
Proof. destruct n; reflexivity. Qed.

Lemma bitcount_abs n : bitcount (Z.abs n) = bitcount n.
Proof. destruct n; reflexivity. Qed.

(* the defining inequalities *)
Lemma bitcount_spec n : 0 < n -> 2 ^ (bitcount n - 1) <= n < 2 ^ bitcount n.
Proof.
  intros H. rewrite bitcount_pos_log2 by lia.
  replace (Z.log2 n + 1 - 1) with (Z.log2 n) by lia.
  replace (Z.log2 n + 1) with (Z.succ (Z.log2 n)) by lia.
  apply Z.log2_spec; lia.
Qed.

Lemma bitcount_unique n b : 0 < n -> 2 ^ (b - 1) <= n < 2 ^ b -> bitcount n = b.
Proof.
  intros Hn [H1 H2]. rewrite bitcount_pos_log2 by lia.
  assert (0 < b).
  { destruct (Z_lt_le_dec 0 b); [lia|]. exfalso.
    assert (2 ^ b <= 1).
    { destruct (Z.eq_dec b 0) as [->|]; [simpl; lia|]. rewrite Z.pow_neg_r by lia. lia. }
    lia. }
  assert (Z.log2 n = b - 1); [|lia].
  apply Z.log2_unique; [lia|]. replace (Z.succ (b - 1)) with b by lia. lia.
Qed.

Lemma bitcount_pow2 k : 0 <= k -> bitcount (2 ^ k) = k + 1.
Proof.
  intros H. apply bitcount_unique.
  - apply Z.pow_pos_nonneg; lia.
  - replace (k + 1 - 1) with k by lia. split; [lia|].
    apply Z.pow_lt_mono_r; lia.
Qed.

Lemma bitcount_le_mono a b : 0 < a -> a <= b -> bitcount a <= bitcount b.
Proof.
  intros Ha Hab. rewrite !bitcount_pos_log2 by lia.
  pose proof (Z.log2_le_mono a b Hab). lia.
Qed.

(* ---- trailing zeros ---- *)

Lemma ctz_pos_nonneg p : 0 <= ctz_pos p.
Proof. induction p; cbn [ctz_pos]; lia. Qed.

Lemma ctz_pos_spec p : exists q, Zpos p = Zpos q * 2 ^ ctz_pos p /\ Z.odd (Zpos q) = true.
Proof.
  induction p as [p IH|p IH|].
  - exists (xI p). simpl ctz_pos. rewrite Z.mul_1_r. split; reflexivity.
  - destruct IH as [q [Hq Ho]]. exists q. split; [|exact Ho].
    cbn [ctz_pos]. pose proof (ctz_pos_nonneg p).
    rewrite Z.pow_add_r by lia. change (2 ^ 1) with 2.
    change (Zpos p~0) with (2 * Zpos p). rewrite Hq at 1. ring.
  - exists xH. split; reflexivity.
Qed.

Lemma trailing_nonneg n : 0 <= trailing n.
Proof. destruct n; simpl; try lia; apply ctz_pos_nonneg. Qed.

Lemma trailing_spec n : 0 < n ->
  exists q, n = q * 2 ^ trailing n /\ Z.odd q = true /\ 0 < q.
Proof.
  destruct n as [|p|p]; try lia. intros _.
  destruct (ctz_pos_spec p) as [q [H1 H2]]. exists (Zpos q). simpl trailing. split; [exact H1|]. split; [exact H2|lia].
Qed.

Lemma shiftr_trailing n : 0 < n ->
  let q := Z.shiftr n (trailing n) in n = q * 2 ^ trailing n /\ Z.odd q = true /\ 0 < q.
Proof.
  intros Hn. destruct (trailing_spec n Hn) as [q [H1 [H2 H3]]].
  pose proof (trailing_nonneg n) as Ht.
  assert (Z.shiftr n (trailing n) = q).
  { rewrite Z.shiftr_div_pow2 by lia. rewrite H1 at 1. apply Z.div_mul.
    apply Z.pow_nonzero; lia. }
  cbv zeta. rewrite H. auto.
Qed.

Lemma trailing_odd n : Z.odd n = true -> trailing n = 0.
Proof. destruct n as [|p|p]; simpl; try discriminate; destruct p; simpl; try discriminate; reflexivity. Qed.

(* bit count of q * 2^t *)
Lemma bitcount_mul_pow2 q t : 0 < q -> 0 <= t -> bitcount (q * 2 ^ t) = bitcount q + t.
Proof.
  intros Hq Ht. pose proof (bitcount_spec q Hq) as [H1 H2].
  pose proof (bitcount_pos q Hq) as Hb.
  assert (0 < 2 ^ t) by (apply Z.pow_pos_nonneg; lia).
  apply bitcount_unique; [nia|].
  replace (bitcount q + t - 1) with ((bitcount q - 1) + t) by lia.
  rewrite !Z.pow_add_r by lia. split; nia.
Qed.

(* ---- shifts of a b-bit number ---- *)

Lemma shiftr_range m b n : 0 < m -> bitcount m = b -> 0 <= n < b ->
  2 ^ (b - n - 1) <= Z.shiftr m n < 2 ^ (b - n).
Proof.
  intros Hm Hb Hn. pose proof (bitcount_spec m Hm) as [H1 H2]. rewrite Hb in *.
  rewrite Z.shiftr_div_pow2 by lia.
  assert (0 < 2 ^ n) by (apply Z.pow_pos_nonneg; lia).
  split.
  - apply Z.div_le_lower_bound; [lia|]. rewrite <- Z.pow_add_r by lia.
    replace (n + (b - n - 1)) with (b - 1) by lia. exact H1.
  - apply Z.div_lt_upper_bound; [lia|]. rewrite <- Z.pow_add_r by lia.
    replace (n + (b - n)) with b by lia. exact H2.
Qed.

Lemma ceil_shift_eq m n : 0 <= n -> - Z.shiftr (- m) n = (m + 2 ^ n - 1) / 2 ^ n.
Proof.
  intros Hn. rewrite Z.shiftr_div_pow2 by lia.
  assert (0 < 2 ^ n) by (apply Z.pow_pos_nonneg; lia).
  set (d := 2 ^ n) in *.
  pose proof (Z.div_mod (- m) d ltac:(lia)). pose proof (Z.mod_pos_bound (- m) d ltac:(lia)).
  apply Z.div_unique with (r := d - 1 - (- m) mod d); lia.
Qed.

Lemma ceil_shift_range m b n : 0 < m -> bitcount m = b -> 0 <= n < b ->
  2 ^ (b - n - 1) <= - Z.shiftr (- m) n <= 2 ^ (b - n).
Proof.
  intros Hm Hb Hn. pose proof (shiftr_range m b n Hm Hb Hn) as [H1 H2].
  rewrite Z.shiftr_div_pow2 in * by lia.
  assert (0 < 2 ^ n) by (apply Z.pow_pos_nonneg; lia).
  set (d := 2 ^ n) in *.
  pose proof (Z.div_mod m d ltac:(lia)). pose proof (Z.mod_pos_bound m d ltac:(lia)).
  pose proof (Z.div_mod (- m) d ltac:(lia)). pose proof (Z.mod_pos_bound (- m) d ltac:(lia)).
  assert (- ((- m) / d) = m / d \/ - ((- m) / d) = m / d + 1) by nia.
  lia.
Qed.
