(* Sticky.v — the "perturb then round" trick behind mpf_div, mpf_rdiv_int, mpf_sqrt and the far-apart
   branch of mpf_add: if x = (N + theta) * 2^k with 0 < theta < 1 and N has at least p+1 bits, then
   rounding x to p bits (any of the five modes) equals rounding (2N+1) * 2^(k-1). *)
From Coq Require Import ZArith Reals Bool Lia Lra.
From Flocq Require Import Core Calc.Bracket Calc.Round.
From MP Require Import Algo.Base Algo.Libmpf Spec.Mpf Spec.Round Proofs.Bits Proofs.Nearest Proofs.Normalize Proofs.NormRound.
Open Scope Z_scope.

(* ---- integer facts about 2N+1 shifted by n+1 ---- *)
Lemma div_2N1 N n : 0 <= n -> (2 * N + 1) / 2 ^ (n + 1) = N / 2 ^ n.
Proof.
  intros Hn. rewrite Z.pow_add_r by lia. change (2 ^ 1) with 2.
  assert (0 < 2 ^ n) by (apply Z.pow_pos_nonneg; lia).
  set (d := 2 ^ n) in *.
  pose proof (Z.div_mod N d ltac:(lia)). pose proof (Z.mod_pos_bound N d ltac:(lia)).
  symmetry. apply Z.div_unique with (r := 2 * (N mod d) + 1); lia.
Qed.

Lemma mod_2N1 N n : 0 <= n -> (2 * N + 1) mod 2 ^ (n + 1) = 2 * (N mod 2 ^ n) + 1.
Proof.
  intros Hn. rewrite Z.pow_add_r by lia. change (2 ^ 1) with 2.
  assert (0 < 2 ^ n) by (apply Z.pow_pos_nonneg; lia).
  set (d := 2 ^ n) in *.
  pose proof (Z.div_mod N d ltac:(lia)). pose proof (Z.mod_pos_bound N d ltac:(lia)).
  symmetry. apply Z.mod_unique with (q := N / d); lia.
Qed.

Section Sticky.
Variables (N n : Z) (theta : R).
Hypothesis HN : 0 <= N.
Hypothesis Hn : 1 <= n.
Hypothesis Hth : (0 < theta < 1)%R.

Let d := 2 ^ n.
Let q := N / d.
Let r := N mod d.
Let y := ((IZR N + theta) * bpow radix2 (- n))%R.

Lemma sticky_dpos : 0 < d. Proof. apply Z.pow_pos_nonneg; lia. Qed.
Lemma sticky_dm : N = d * q + r /\ 0 <= r < d.
Proof. split; [apply Z.div_mod|apply Z.mod_pos_bound]; pose proof sticky_dpos; lia. Qed.

Lemma sticky_y : y = (IZR q + (IZR r + theta) / IZR d)%R.
Proof.
  unfold y. rewrite bpow_opp. rewrite <- (IZR_pow2 n) by lia. fold d.
  destruct sticky_dm as [E _]. rewrite E at 1. rewrite plus_IZR, mult_IZR.
  pose proof sticky_dpos. field. apply IZR_neq. lia.
Qed.

Lemma sticky_frac : (0 < (IZR r + theta) / IZR d < 1)%R.
Proof.
  destruct sticky_dm as [_ [R0 R1]]. pose proof sticky_dpos as Hd.
  assert (0 < IZR d)%R by (apply IZR_lt; lia).
  assert (0 <= IZR r)%R by (apply IZR_le; lia).
  assert (IZR r <= IZR d - 1)%R by (rewrite <- minus_IZR; apply IZR_le; lia).
  split.
  - apply Rdiv_lt_0_compat; lra.
  - apply Rmult_lt_reg_r with (IZR d); [lra|]. unfold Rdiv. rewrite Rmult_assoc, Rinv_l by lra. lra.
Qed.

Lemma sticky_floor : Zfloor y = q.
Proof. apply Zfloor_imp. rewrite sticky_y, plus_IZR. pose proof sticky_frac. simpl (IZR 1). lra. Qed.

Lemma sticky_ceil : Zceil y = q + 1.
Proof. apply Zceil_imp. rewrite sticky_y. replace (q + 1 - 1) with q by lia. rewrite plus_IZR. pose proof sticky_frac. simpl (IZR 1). lra. Qed.

Lemma sticky_nearest : ZnearestE y = if 2 ^ (n - 1) <=? r then q + 1 else q.
Proof.
  set (h := 2 ^ (n - 1)).
  assert (Hh : 0 < h) by (apply Z.pow_pos_nonneg; lia).
  assert (Hd2 : d = 2 * h).
  { unfold d, h. replace n with (1 + (n - 1)) at 1 by lia. rewrite Z.pow_add_r by lia. reflexivity. }
  destruct sticky_dm as [_ [R0 R1]]. pose proof sticky_dpos as Hd.
  assert (HdR : (0 < IZR d)%R) by (apply IZR_lt; lia).
  set (c := Rcompare y ((IZR q + IZR (q + 1)) / 2)).
  rewrite (inbetween_int_NE _ q (loc_Inexact c)).
  2:{ apply inbetween_Inexact; [|reflexivity]. rewrite sticky_y, plus_IZR. pose proof sticky_frac. simpl (IZR 1). lra. }
  unfold round_N, cond_incr.
  assert (IZR d = 2 * IZR h)%R by (rewrite Hd2, mult_IZR; reflexivity).
  destruct (Z.leb_spec h r) as [G|L].
  - (* r >= h : strictly above the midpoint *)
    assert (c = Gt) as ->.
    { unfold c. apply Rcompare_Gt. rewrite sticky_y, plus_IZR. simpl (IZR 1).
      assert (IZR h <= IZR r)%R by (apply IZR_le; lia).
      assert (/ 2 < (IZR r + theta) / IZR d)%R.
      { apply Rmult_lt_reg_r with (IZR d); [lra|]. unfold Rdiv. rewrite Rmult_assoc, Rinv_l by lra. lra. }
      lra. }
    reflexivity.
  - assert (c = Lt) as ->.
    { unfold c. apply Rcompare_Lt. rewrite sticky_y, plus_IZR. simpl (IZR 1).
      assert (IZR r <= IZR h - 1)%R by (rewrite <- minus_IZR; apply IZR_le; lia).
      assert ((IZR r + theta) / IZR d < / 2)%R.
      { apply Rmult_lt_reg_r with (IZR d); [lra|]. unfold Rdiv. rewrite Rmult_assoc, Rinv_l by lra. lra. }
      lra. }
    reflexivity.
Qed.

(* the perturbed integer mantissa 2N+1, shifted by n+1, gives the same three roundings *)
Lemma sticky_floor' : Z.shiftr (2 * N + 1) (n + 1) = q.
Proof. rewrite Z.shiftr_div_pow2 by lia. apply div_2N1. lia. Qed.

Lemma sticky_ceil' : - Z.shiftr (- (2 * N + 1)) (n + 1) = q + 1.
Proof.
  rewrite ceil_shift_eq by lia. rewrite Z.pow_add_r by lia. change (2 ^ 1) with 2. fold d.
  destruct sticky_dm as [E [R0 R1]]. pose proof sticky_dpos.
  symmetry. apply Z.div_unique with (r := 2 * r); lia.
Qed.

Lemma sticky_nearest' : round_nearest_shift (2 * N + 1) (n + 1) = if 2 ^ (n - 1) <=? r then q + 1 else q.
Proof.
  rewrite round_nearest_shift_spec by lia. unfold nearest_even_qr.
  rewrite div_2N1, mod_2N1 by lia. fold d q r.
  replace (n + 1 - 1) with n by lia. fold d.
  set (h := 2 ^ (n - 1)).
  assert (Hd2 : d = 2 * h).
  { unfold d, h. replace n with (1 + (n - 1)) at 1 by lia. rewrite Z.pow_add_r by lia. reflexivity. }
  destruct (Z.ltb_spec d (2 * r + 1)); destruct (Z.eqb_spec (2 * r + 1) d); destruct (Z.leb_spec h r); try lia; reflexivity.
Qed.

Lemma sticky_magrnd rm sign :
  magrnd rm sign y = round_mant sign (2 * N + 1) (n + 1) rm.
Proof.
  unfold magrnd, round_mant, shifts_down.
  destruct rm; try destruct (sign =? 0); cbn [negb];
    rewrite ?sticky_floor, ?sticky_ceil, ?sticky_nearest, ?sticky_floor', ?sticky_ceil', ?sticky_nearest'; reflexivity.
Qed.
End Sticky.

(* ---- the real-number statement ---- *)
Theorem RND_sticky rm p sign N k theta :
  0 < p -> (sign = 0 \/ sign = 1) -> 0 < N -> p + 1 <= bitcount N -> (0 < theta < 1)%R ->
  RND rm p (sgn sign * ((IZR N + theta) * bpow radix2 k)) = RND rm p (sval sign (2 * N + 1) (k - 1)).
Proof.
  intros Hp Hs HN Hb Hth.
  set (b := bitcount N). set (n := b - p).
  assert (Hx : (0 < (IZR N + theta) * bpow radix2 k)%R).
  { apply Rmult_lt_0_compat; [|apply bpow_gt_0]. assert (0 < IZR N)%R by (apply IZR_lt; lia). lra. }
  (* magnitude of x *)
  pose proof (bitcount_spec N HN) as [B1 B2]. fold b in B1, B2.
  assert (Hmag : mag radix2 ((IZR N + theta) * bpow radix2 k) = (b + k) :> Z).
  { apply mag_unique. rewrite Rabs_pos_eq by lra. split.
    - replace (b + k - 1) with ((b - 1) + k) by lia. rewrite bpow_plus.
      apply Rmult_le_compat_r; [apply bpow_ge_0|].
      rewrite <- IZR_pow2 by lia. apply Rle_trans with (IZR N); [apply IZR_le; lia|lra].
    - rewrite bpow_plus. apply Rmult_lt_compat_r; [apply bpow_gt_0|].
      rewrite <- IZR_pow2 by lia.
      assert (IZR N <= IZR (2 ^ b) - 1)%R by (rewrite <- minus_IZR; apply IZR_le; lia). lra. }
  (* left side *)
  rewrite RND_sgn by (auto; lra).
  unfold sval. rewrite RND_sgn; auto; [|apply F2R_ge_0; cbn [Fnum]; lia].
  f_equal.
  (* right side through round_shift *)
  assert (Hb1 : bitcount (2 * N + 1) = b + 1).
  { apply bitcount_unique; [lia|]. replace (b + 1 - 1) with b by lia.
    replace (2 ^ (b + 1)) with (2 * 2 ^ b) by (rewrite Z.pow_add_r by lia; ring).
    replace b with (1 + (b - 1)) at 1 by lia. rewrite Z.pow_add_r by lia. change (2 ^ 1) with 2. lia. }
  rewrite (round_shift _ (2 * N + 1) (k - 1) p (n + 1)) by (try lia; rewrite Hb1; unfold n; lia).
  rewrite round_mant_magrnd by lia.
  (* left side by definition of round *)
  unfold round. unfold cexp, FLX_exp. rewrite Hmag.
  replace (k - 1 + (n + 1)) with (b + k - p) by (unfold n; lia).
  f_equal. f_equal.
  unfold scaled_mantissa, cexp, FLX_exp. rewrite Hmag.
  rewrite Rmult_assoc, <- bpow_plus. replace (k + - (b + k - p)) with (- n) by (unfold n; lia).
  apply sticky_magrnd; unfold n; try lia. exact Hth.
Qed.
