(* IvCompose.v — C14/C15: interval functions that are compositions of the verified pieces:
   mpci_abs (no point-function input at all), mpi_pow = exp(t log s), mpi_cosh_sinh, mpci_exp.
   Point values of mpf_exp / mpf_log / mpf_cos_sin are inputs of the model under the `close` / `quad` hypotheses. *)
From Coq Require Import ZArith Reals Bool List Lia Lra Psatz.
From Flocq Require Import Core.
From MP Require Import Algo.Base Algo.Libmpf Algo.Libmpi Algo.Ctxfun Spec.Mpf Spec.Round Proofs.Normalize Proofs.NormRound Proofs.Ops
  Proofs.AddRound Proofs.Fin Proofs.IntPart Proofs.Mag Proofs.Cmp Proofs.IvCmp Proofs.IvContain Proofs.IvMul Proofs.IvDiv Proofs.IvSqrt
  Proofs.IvCplx Proofs.IvCplxPow Proofs.IvOutward Proofs.IvTrig.
Import ListNotations.
Open Scope Z_scope.

(* ---- mpci_abs ---- *)
Lemma square_exact_lo_nonneg s : valid_iv s -> (0 <= rv (fst (mpi_square s 0)))%R.
Proof.
  intros [Sa [Sb Sv]]. destruct s as [sa sb]. cbn [fst snd] in *. unfold mpi_square.
  destruct (mpf_ge sa fzero); [|destruct (mpf_le sb fzero)].
  - cbn [fst]. destruct (mul_roe sa sa 0 RF Sa Sa ltac:(lia)) as [E _]. rewrite E. unfold rnd_or_exact; cbn. nra.
  - cbn [fst]. destruct (mul_roe sb sb 0 RF Sb Sb ltac:(lia)) as [E _]. rewrite E. unfold rnd_or_exact; cbn. nra.
  - destruct (mpf_min_max [mpf_neg sa 0 RD; sb]) as [mn mx]. cbn [fst]. rewrite rv_fzero. lra.
Qed.

Lemma RND_floor_nonneg p x : 0 < p -> (0 <= x)%R -> (0 <= RND RF p x)%R.
Proof.
  intros Hp [H|<-]; [|rewrite RND_0; lra].
  destruct (RND_floor_sign p x Hp ltac:(lra)) as [P _]. left. apply P. exact H.
Qed.

Lemma mpi_eq_zero s : mpi_eq s mpi_zero = true -> s = (fzero, fzero).
Proof.
  unfold mpi_eq, mpi_zero. cbn [fst snd]. rewrite andb_true_iff, !mpf_eqb_eq. destruct s; cbn. intros [-> ->]. reflexivity.
Qed.

Theorem mpci_abs_contains z prec a b : valid_civ z -> 0 < prec -> in_civ z a b ->
  exists r, mpci_abs z prec = Ok r /\ in_iv r (sqrt (a * a + b * b)) /\ valid_iv r.
Proof.
  intros [V1 V2] Hp [I1 I2]. destruct z as [za zb]. cbn [fst snd] in *. unfold mpci_abs.
  destruct (mpi_eq za mpi_zero) eqn:E1.
  { apply mpi_eq_zero in E1. subst za. destruct I1 as [L U]. cbn [fst snd] in L, U. rewrite rv_fzero in L, U.
    assert (a = 0%R) as -> by lra. eexists. split; [reflexivity|].
    replace (0 * 0 + b * b)%R with (Rsqr b) by (unfold Rsqr; ring). rewrite sqrt_Rsqr_abs.
    apply mpi_abs_contains; auto; lia. }
  destruct (mpi_eq zb mpi_zero) eqn:E2.
  { apply mpi_eq_zero in E2. subst zb. destruct I2 as [L U]. cbn [fst snd] in L, U. rewrite rv_fzero in L, U.
    assert (b = 0%R) as -> by lra. eexists. split; [reflexivity|].
    replace (a * a + 0 * 0)%R with (Rsqr a) by (unfold Rsqr; ring). rewrite sqrt_Rsqr_abs.
    apply mpi_abs_contains; auto; lia. }
  destruct (mpi_square_contains za 0 a V1 ltac:(lia) I1) as [J1 W1].
  destruct (mpi_square_contains zb 0 b V2 ltac:(lia) I2) as [J2 W2].
  destruct (mpi_add_contains _ _ (prec + 20) _ _ W1 W2 ltac:(lia) J1 J2) as [J W].
  apply mpi_sqrt_contains; auto.
  (* the sum of the two exact squares is rounded down from a non-negative number *)
  pose proof (square_exact_lo_nonneg za V1) as N1. pose proof (square_exact_lo_nonneg zb V2) as N2.
  unfold mpi_add; cbn [fst]. destruct W1 as [A1 _], W2 as [A2 _].
  rewrite nan_to_fin by (apply mpf_add_gen_fincanon; auto; lia).
  unfold mpf_add. rewrite mpf_add_gen_round by (auto; lia). unfold rnd_or_exact.
  destruct (Z.eqb_spec (prec + 20) 0); [lia|]. apply RND_floor_nonneg; [lia|]. lra.
Qed.

(* ---- mpi_pow, general branch: x^y = exp (y * ln x) for x > 0 ---- *)
Theorem mpi_pow_contains s t la lb ea eb prec x y : valid_iv s -> valid_iv t -> in_iv s x -> in_iv t y ->
  (0 < rv (fst s))%R -> 0 < prec -> fincanon la -> fincanon lb -> fincanon ea -> fincanon eb ->
  close (prec + 20 + 20) (rv la) (ln (rv (fst s))) -> close (prec + 20 + 20) (rv lb) (ln (rv (snd s))) ->
  let v := mpi_pow_v t la lb prec in
  close (prec + 20) (rv ea) (exp (rv (fst v))) -> close (prec + 20) (rv eb) (exp (rv (snd v))) ->
  in_iv (mpi_pow_from t la lb ea eb prec) (Rpower x y) /\ valid_iv (mpi_pow_from t la lb ea eb prec).
Proof.
  intros Vs Vt Ix Iy Pos Hp Fla Flb Fea Feb C1 C2. cbv zeta. intros C3 C4.
  destruct (mpi_log_contains s la lb (prec + 20) x Vs Ix Pos ltac:(lia) Fla Flb C1 C2) as [IL VL].
  destruct (mpi_mul_contains _ t (prec + 20) _ _ VL Vt ltac:(lia) IL Iy) as [IM VM].
  unfold mpi_pow_from. fold (mpi_pow_v t la lb prec) in *. unfold Rpower. rewrite (Rmult_comm y (ln x)).
  apply mpi_exp_contains; auto.
Qed.

(* ---- mpi_cosh_sinh: e1 = exp, e2 = 1/e1, (e1 +- e2)/2 ---- *)
Lemma shift_fincanon x n : fincanon x -> rv (mpf_shift x n) = (rv x * bpow radix2 n)%R /\ fincanon (mpf_shift x n).
Proof.
  intros [->|Hx].
  - unfold mpf_shift; cbn. rewrite rv_fzero. split; [ring|left; reflexivity].
  - destruct (ldexp_exact x n Hx) as [E R]. unfold ctx_ldexp in *. split; [exact E|right; exact R].
Qed.

Lemma mpi_shift_contains s n x : valid_iv s -> in_iv s x ->
  in_iv (mpi_shift s n) (x * bpow radix2 n) /\ valid_iv (mpi_shift s n).
Proof.
  intros [Sa [Sb Sv]] [X1 X2]. unfold mpi_shift, in_iv, valid_iv; cbn [fst snd].
  destruct (shift_fincanon (fst s) n Sa) as [E1 F1]. destruct (shift_fincanon (snd s) n Sb) as [E2 F2].
  rewrite E1, E2. pose proof (bpow_gt_0 radix2 n). repeat split; auto; nra.
Qed.

Lemma exp_from_lo_pos s va vb prec : fincanon va -> 0 < prec -> close (prec + 20) (rv va) (exp (rv (fst s))) ->
  (0 < rv (fst (mpi_exp_from s va vb prec)))%R.
Proof.
  intros Fa Hp C. unfold mpi_exp_from; cbn [fst].
  destruct (mpf_eqb (fst s) fzero); [rewrite rv_fone1; lra|].
  pose proof (exp_pos (rv (fst s))) as EP. set (wp := prec + 20) in *.
  pose proof (delta_bounds wp ltac:(lia)) as [D1 D2].
  (* va is positive, being close to a positive number *)
  assert (VP : (0 < rv va)%R).
  { unfold close in C. rewrite (Rabs_pos_eq (exp _)) in C by lra. pose proof (Rle_abs (- (rv va - exp (rv (fst s))))) as A.
    rewrite Rabs_Ropp in A.
    assert (0 < exp (rv (fst s)) * (1 - delta wp / 2))%R by (apply Rmult_lt_0_compat; lra). nra. }
  destruct Fa as [E|Ra]; [rewrite E, rv_fzero in VP; lra|].
  unfold mpi_outward. cbv zeta. fold wp.
  assert (M : mman va =? 0 = false) by (apply Z.eqb_neq; destruct Ra as [_ [? _]]; lia). rewrite M.
  destruct (rv_pos_neg va Ra) as [[S V]|[S V]]; [|lra]. rewrite S. cbn [Z.eqb negb rnd_eqb Bool.eqb].
  destruct (p_minus wp ltac:(lia)) as [P Fp].
  destruct (mul_roe va _ prec RF (or_intror Ra) Fp ltac:(lia)) as [E _]. rewrite E, P.
  unfold rnd_or_exact. destruct (Z.eqb_spec prec 0); [lia|].
  assert (Q : (0 < rv va * (1 - delta wp))%R) by nra.
  destruct (RND_floor_sign prec (rv va * (1 - delta wp)) Hp ltac:(lra)) as [PP _]. apply PP. exact Q.
Qed.

Theorem mpi_cosh_sinh_contains s va vb prec x : valid_iv s -> in_iv s x -> 0 < prec -> fincanon va -> fincanon vb ->
  close (prec + 20 + 20) (rv va) (exp (rv (fst s))) -> close (prec + 20 + 20) (rv vb) (exp (rv (snd s))) ->
  exists c sh, mpi_cosh_sinh_from s va vb prec = Ok (c, sh) /\
    (in_iv c (cosh x) /\ valid_iv c) /\ (in_iv sh (sinh x) /\ valid_iv sh).
Proof.
  intros Vs Ix Hp Fa Fb Ca Cb. unfold mpi_cosh_sinh_from. cbv zeta.
  destruct (mpi_exp_contains s va vb (prec + 20) x Vs Ix ltac:(lia) Fa Fb Ca Cb) as [IE VE].
  pose proof (exp_from_lo_pos s va vb (prec + 20) Fa ltac:(lia) Ca) as LP.
  destruct one_iv as [V1 I1].
  destruct (mpi_div_contains mpi_one _ (prec + 20) 1 (exp x) V1 VE ltac:(lia) (or_introl LP) I1 IE) as [e2 [E2 [I2 V2]]].
  rewrite E2. cbn [bind].
  destruct (mpi_add_contains _ _ prec _ _ VE V2 ltac:(lia) IE I2) as [IA VA].
  destruct (mpi_sub_contains _ _ prec _ _ VE V2 ltac:(lia) IE I2) as [IS VS].
  destruct (mpi_shift_contains _ (-1) _ VA IA) as [IC VC]. destruct (mpi_shift_contains _ (-1) _ VS IS) as [IH VH].
  eexists _, _. split; [reflexivity|].
  assert (EN : exp (- x) = (1 / exp x)%R) by (rewrite exp_Ropp; field; pose proof (exp_pos x); lra).
  change (bpow radix2 (-1)) with (/ 2)%R in *.
  split; split; auto.
  - unfold cosh. rewrite EN. exact IC.
  - unfold sinh. rewrite EN. exact IH.
Qed.

(* ---- mpci_exp: exp(a + i b) = exp a cos b + i exp a sin b ---- *)
Theorem mpci_exp_contains z va vb ca sa na cb sb nb prec a b : valid_civ z -> in_civ z a b -> 0 < prec ->
  fincanon va -> fincanon vb -> fincanon ca -> fincanon sa -> fincanon cb -> fincanon sb ->
  close (prec + 20 + 20) (rv va) (exp (rv (fst (fst z)))) -> close (prec + 20 + 20) (rv vb) (exp (rv (snd (fst z)))) ->
  quad na (rv (fst (snd z))) -> quad nb (rv (snd (snd z))) ->
  close (prec + 20 + 20) (rv ca) (cos (rv (fst (snd z)))) -> close (prec + 20 + 20) (rv sa) (sin (rv (fst (snd z)))) ->
  close (prec + 20 + 20) (rv cb) (cos (rv (snd (snd z)))) -> close (prec + 20 + 20) (rv sb) (sin (rv (snd (snd z)))) ->
  let w := mpci_exp_from z va vb (ca, sa, na) (cb, sb, nb) prec in
  in_civ w (exp a * cos b) (exp a * sin b) /\ valid_civ w.
Proof.
  intros [V1 V2] [I1 I2] Hp Fva Fvb Fca Fsa Fcb Fsb E1 E2 Qa Qb C1 C2 C3 C4. cbv zeta. unfold mpci_exp_from. cbv zeta.
  destruct (mpi_exp_contains (fst z) va vb (prec + 20) a V1 I1 ltac:(lia) Fva Fvb E1 E2) as [IE VE].
  pose proof (mpi_cos_sin_contains (snd z) ca sa na cb sb nb (prec + 20) b V2 I2 ltac:(lia) Fca Fsa Fcb Fsb Qa Qb C1 C2 C3 C4) as H.
  destruct (mpi_cos_sin_from (snd z) (ca, sa, na) (cb, sb, nb) (prec + 20)) as [Cv Sv]. destruct H as [[IC VC] [IS VS]].
  destruct (mpi_mul_contains _ Cv prec _ _ VE VC ltac:(lia) IE IC) as [J1 W1].
  destruct (mpi_mul_contains _ Sv prec _ _ VE VS ltac:(lia) IE IS) as [J2 W2].
  unfold in_civ, valid_civ; cbn [fst snd]. auto.
Qed.

(* ---- mpci_cos / mpci_sin: cos(a+ib) = cos a cosh b - i sin a sinh b,  sin(a+ib) = sin a cosh b + i cos a sinh b ---- *)
Theorem mpci_cos_sin_contains z ca sa na cb sb nb va vb prec a b : valid_civ z -> in_civ z a b -> 0 < prec ->
  fincanon ca -> fincanon sa -> fincanon cb -> fincanon sb -> fincanon va -> fincanon vb ->
  quad na (rv (fst (fst z))) -> quad nb (rv (snd (fst z))) ->
  close (prec + 10 + 20) (rv ca) (cos (rv (fst (fst z)))) -> close (prec + 10 + 20) (rv sa) (sin (rv (fst (fst z)))) ->
  close (prec + 10 + 20) (rv cb) (cos (rv (snd (fst z)))) -> close (prec + 10 + 20) (rv sb) (sin (rv (snd (fst z)))) ->
  close (prec + 10 + 20 + 20) (rv va) (exp (rv (fst (snd z)))) -> close (prec + 10 + 20 + 20) (rv vb) (exp (rv (snd (snd z)))) ->
  (exists w, mpci_cos_from z (ca, sa, na) (cb, sb, nb) va vb prec = Ok w /\
     in_civ w (cos a * cosh b) (- (sin a * sinh b)) /\ valid_civ w) /\
  (exists w, mpci_sin_from z (ca, sa, na) (cb, sb, nb) va vb prec = Ok w /\
     in_civ w (sin a * cosh b) (cos a * sinh b) /\ valid_civ w).
Proof.
  intros [V1 V2] [I1 I2] Hp Fca Fsa Fcb Fsb Fva Fvb Qa Qb C1 C2 C3 C4 E1 E2.
  pose proof (mpi_cos_sin_contains (fst z) ca sa na cb sb nb (prec + 10) a V1 I1 ltac:(lia) Fca Fsa Fcb Fsb Qa Qb C1 C2 C3 C4) as H.
  destruct (mpi_cosh_sinh_contains (snd z) va vb (prec + 10) b V2 I2 ltac:(lia) Fva Fvb E1 E2) as [ch [sh [EH [[ICH VCH] [ISH VSH]]]]].
  unfold mpci_cos_from, mpci_sin_from. cbv zeta.
  destruct (mpi_cos_sin_from (fst z) (ca, sa, na) (cb, sb, nb) (prec + 10)) as [Cv Sv]. destruct H as [[IC VC] [IS VS]].
  rewrite EH. cbn [bind].
  destruct (mpi_mul_contains Cv ch prec _ _ VC VCH ltac:(lia) IC ICH) as [J1 W1].
  destruct (mpi_mul_contains Sv sh prec _ _ VS VSH ltac:(lia) IS ISH) as [J2 W2].
  destruct (mpi_neg_contains _ 0 _ W2 ltac:(lia) J2) as [J3 W3].
  destruct (mpi_mul_contains Sv ch prec _ _ VS VCH ltac:(lia) IS ICH) as [J4 W4].
  destruct (mpi_mul_contains Cv sh prec _ _ VC VSH ltac:(lia) IC ISH) as [J5 W5].
  split; eexists; (split; [reflexivity|]); unfold in_civ, valid_civ; cbn [fst snd]; auto.
Qed.
