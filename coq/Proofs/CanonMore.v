(* CanonMore.v — C01 closure: floor/ceil/nint/frac, mod and integer powers return canonical tuples for all canonical inputs
   (special values included). *)
From Coq Require Import ZArith Reals Bool List Lia Lra.
From Flocq Require Import Core.
From MP Require Import Algo.Base Algo.Libmpf Spec.Mpf Spec.Round Proofs.Bits Proofs.Normalize Proofs.NormRound Proofs.Ops
  Proofs.Canon Proofs.Fin Proofs.DivRound Proofs.IntPart Proofs.ModRound Proofs.Pow Proofs.BcMore Proofs.IvPow.
Open Scope Z_scope.

Lemma fincanon_canonical x : fincanon x -> canonical x.
Proof. intros [->|H]; [left; reflexivity|right; right; right; right; exact H]. Qed.

Lemma canonical_cases x : canonical x -> fincanon x \/ (is_special x = true /\ (x = fnan \/ x = finf \/ x = fninf)).
Proof.
  intros [->|[->|[->|[->|H]]]].
  - left; left; reflexivity.
  - right; split; [reflexivity|auto].
  - right; split; [reflexivity|auto].
  - right; split; [reflexivity|auto].
  - left; right; exact H.
Qed.

Lemma round_int_canonical s r v : canonical s -> (r = RF \/ r = RC \/ r = RN) -> mpf_round_int s r = Ok v -> canonical v.
Proof.
  intros Hs Hr E. destruct (canonical_cases s Hs) as [Fs|[Sp _]].
  - destruct (mpf_round_int_fin s r Fs Hr) as [v' [E' [_ F]]]. rewrite E in E'. injection E' as <-. apply fincanon_canonical; exact F.
  - unfold mpf_round_int in E. destruct s as [sg m e b]. rewrite Sp in E. injection E as <-. exact Hs.
Qed.

Lemma pos_canonical s prec r : canonical s -> 0 <= prec -> canonical (mpf_pos s prec r).
Proof. intros Hs Hp. apply (pos_neg_abs_canonical s prec r Hs Hp). Qed.

Theorem floor_ceil_nint_canonical s prec r v : canonical s -> 0 <= prec ->
  (mpf_floor s prec r = Ok v \/ mpf_ceil s prec r = Ok v \/ mpf_nint s prec r = Ok v) -> canonical v.
Proof.
  intros Hs Hp H.
  assert (G : forall r0, (r0 = RF \/ r0 = RC \/ r0 = RN) ->
            (do w <- mpf_round_int s r0; Ok (if prec =? 0 then w else mpf_pos w prec r)) = Ok v -> canonical v).
  { intros r0 Hr0 E. destruct (mpf_round_int s r0) as [w|] eqn:Ew; [|discriminate]. cbn [bind] in E. injection E as <-.
    pose proof (round_int_canonical s r0 w Hs Hr0 Ew) as Cw. destruct (prec =? 0); [exact Cw|apply pos_canonical; auto]. }
  destruct H as [H|[H|H]]; [apply (G RF)|apply (G RC)|apply (G RN)]; auto.
Qed.

Theorem frac_canonical s prec r v : canonical s -> 0 <= prec -> mpf_frac s prec r = Ok v -> canonical v.
Proof.
  intros Hs Hp. unfold mpf_frac. destruct (mpf_floor s 0 RD) as [w|] eqn:Ew; [|discriminate]. cbn [bind]. intros [= <-].
  apply mpf_sub_canonical; auto. eapply floor_ceil_nint_canonical with (prec := 0); eauto; lia.
Qed.

Theorem mod_canonical s t prec r y : canonical s -> canonical t -> 0 < prec -> mpf_mod s t prec r = Ok y -> canonical y.
Proof.
  intros Hs Ht Hp E.
  destruct (canonical_cases s Hs) as [Fs|[Ss _]]; destruct (canonical_cases t Ht) as [Ft|[St _]].
  - destruct Ft as [->|Rt].
    + (* t = 0: ZeroDivisionError or one of the shortcuts *)
      unfold mpf_mod in E. rewrite (fincanon_not_special s Fs) in E. cbn [is_special fzero mman mexp orb] in E.
      destruct s as [ssign sman sexp sbc]. cbn [orb] in E.
      change (is_special fzero) with false in E. cbn [orb] in E. unfold fzero in E.
      destruct (_ && _) in E; [injection E as <-; apply pos_canonical; auto; lia|].
      cbn [Z.eqb andb] in E. cbv zeta in E. rewrite Z.shiftl_0_l in E. cbn [Z.eqb] in E. discriminate.
    + apply fincanon_canonical. eapply mpf_mod_fincanon; eauto.
  - unfold mpf_mod in E. destruct s, t. rewrite St, orb_true_r in E. injection E as <-. apply canon_fnan.
  - unfold mpf_mod in E. destruct s, t. rewrite Ss in E. cbn [orb] in E. injection E as <-. apply canon_fnan.
  - unfold mpf_mod in E. destruct s, t. rewrite Ss in E. cbn [orb] in E. injection E as <-. apply canon_fnan.
Qed.

Lemma regular_canonical x : regular x -> canonical x.
Proof. intros H. right; right; right; right; exact H. Qed.

Theorem pow_int_canonical s n prec r y : canonical s -> 0 < prec -> mpf_pow_int s n prec r = Ok y -> canonical y.
Proof.
  intros Hs Hp E. unfold mpf_pow_int in E.
  destruct (canonical_cases s Hs) as [Fs|[Ss Sv]].
  - rewrite (fincanon_not_special s Fs) in E. destruct n as [|p|p].
    + injection E as <-. apply regular_canonical, regular_fone.
    + injection E as <-. destruct Fs as [->|Rs].
      * rewrite pow_fzero by exact Hp. apply canon_fzero.
      * apply regular_canonical. apply mpf_pow_int_pos_regular; auto.
    + destruct Fs as [->|Rs].
      * (* 0 ** negative: division by zero *)
        destruct (Zpos p =? 1).
        -- rewrite mpf_div_zero in E. discriminate.
        -- rewrite pow_fzero in E by lia. rewrite mpf_div_zero in E. discriminate.
      * apply fincanon_canonical. eapply (mpf_pow_int_neg_bc_le s p prec r y Rs Hp).
        unfold mpf_pow_int. rewrite (fincanon_not_special s (regular_fincanon s Rs)). exact E.
  - rewrite Ss in E.
    destruct (mpf_eqb s finf); [|destruct (mpf_eqb s fninf)];
      repeat match type of E with context [if ?c then _ else _] => destruct c end;
      injection E as <-; auto using canon_fnan, canon_fzero, canon_finf, canon_fninf.
Qed.
