(* SumRound.v — C02 (fsum part): mpf_sum accumulates the exact sum in one integer and rounds once, so it returns the correctly
   rounded sum of any list of finite terms whose exponents lie within the window the routine keeps exact
   (max_extra_prec = 2*prec bits, or 10^6 for prec = 0) of each other; no bound on the length of the list. *)
From Coq Require Import ZArith Reals Bool List Lia Lra.
From Flocq Require Import Core.
From MP Require Import Algo.Base Algo.Libmpf Spec.Mpf Spec.Round Proofs.Bits Proofs.Normalize Proofs.NormRound Proofs.Ops Proofs.AddRound Proofs.ModRound.
Import ListNotations.
Open Scope Z_scope.

(* signed value of a term as used by the accumulator *)
Definition term (absolute : bool) (x : mpf) : R :=
  if absolute then Rabs (rv x) else rv x.

Fixpoint rsum (absolute : bool) (xs : list mpf) : R :=
  match xs with [] => 0%R | x :: r => (term absolute x + rsum absolute r)%R end.

(* all non-zero terms have exponents in [E, E + W] *)
Definition in_window (E W : Z) (x : mpf) : Prop := fincanon x /\ (mman x <> 0 -> E <= mexp x <= E + W).

Definition acc_val (st : sumst) : R := F2R (Float radix2 (sman_ st) (sexp_ st)).

Definition acc_inv (E W : Z) (st : sumst) : Prop :=
  sspecial st = None /\
  (sman_ st <> 0 -> sexp_ st <= E + W /\ E + 1 <= sexp_ st + bitcount (Z.abs (sman_ st))).

Lemma F2R_shiftl m e d : 0 <= d -> F2R (Float radix2 (Z.shiftl m d) (e - d)) = F2R (Float radix2 m e).
Proof.
  intros Hd. rewrite Z.shiftl_mul_pow2 by lia. unfold F2R; cbn [Fnum Fexp].
  rewrite mult_IZR, IZR_pow2 by lia. rewrite Rmult_assoc, <- bpow_plus. do 2 f_equal. lia.
Qed.

Lemma F2R_add_same m1 m2 e : F2R (Float radix2 (m1 + m2) e) = (F2R (Float radix2 m1 e) + F2R (Float radix2 m2 e))%R.
Proof. unfold F2R; cbn [Fnum Fexp]. rewrite plus_IZR. ring. Qed.

(* a non-zero integer multiple of 2^E has its top bit at or above E *)
Lemma top_ge m e E : m <> 0 -> (exists k : Z, F2R (Float radix2 m e) = (IZR k * bpow radix2 E)%R) -> E + 1 <= e + bitcount (Z.abs m).
Proof.
  intros Hm [k Hk].
  assert (Ha : 0 < Z.abs m) by lia.
  pose proof (bitcount_spec (Z.abs m) Ha) as [_ B2].
  assert (Hk0 : k <> 0).
  { intros ->. rewrite Rmult_0_l in Hk. apply eq_0_F2R in Hk. lia. }
  (* |m| 2^e = |k| 2^E >= 2^E  and |m| < 2^bc *)
  assert (V : (bpow radix2 E <= Rabs (F2R (Float radix2 m e)))%R).
  { rewrite Hk, Rabs_mult, (Rabs_pos_eq (bpow radix2 E)) by apply bpow_ge_0.
    rewrite <- (Rmult_1_l (bpow radix2 E)) at 1. apply Rmult_le_compat_r; [apply bpow_ge_0|].
    rewrite <- abs_IZR. apply IZR_le. lia. }
  assert (U : (Rabs (F2R (Float radix2 m e)) < bpow radix2 (e + bitcount (Z.abs m)))%R).
  { rewrite <- F2R_Zabs. unfold F2R; cbn [Fnum Fexp]. rewrite Z.add_comm, bpow_plus.
    apply Rmult_lt_compat_r; [apply bpow_gt_0|]. rewrite <- IZR_pow2 by apply bitcount_nonneg. apply IZR_lt. exact B2. }
  assert (L : (bpow radix2 E < bpow radix2 (e + bitcount (Z.abs m)))%R) by lra.
  apply lt_bpow in L. lia.
Qed.

Definition multiple (E : Z) (v : R) : Prop := exists k : Z, v = (IZR k * bpow radix2 E)%R.

Lemma multiple_add E a b : multiple E a -> multiple E b -> multiple E (a + b).
Proof. intros [k ->] [j ->]. exists (k + j). rewrite plus_IZR. ring. Qed.

Lemma multiple_F2R E m e : E <= e -> multiple E (F2R (Float radix2 m e)).
Proof.
  intros H. exists (m * 2 ^ (e - E)). rewrite mult_IZR, IZR_pow2 by lia. unfold F2R; cbn [Fnum Fexp].
  rewrite Rmult_assoc, <- bpow_plus. do 2 f_equal. lia.
Qed.

Lemma multiple_0 E : multiple E 0. Proof. exists 0. simpl. ring. Qed.

(* signed mantissa used by the step *)
Definition xman_of (absolute : bool) (x : mpf) : Z :=
  if negb (msign x =? 0) && negb absolute then - mman x else mman x.

Lemma term_F2R absolute x : fincanon x -> term absolute x = F2R (Float radix2 (xman_of absolute x) (mexp x)).
Proof.
  intros Hx. destruct (fincanon_sign x Hx) as [S1 [S2 _]]. unfold term, xman_of.
  assert (Va : Rabs (rv x) = F2R (Float radix2 (mman x) (mexp x))).
  { unfold rv. rewrite Rabs_mult. destruct (sgn_cases (msign x) S1) as [->| ->].
    - rewrite Rabs_R1, Rmult_1_l. apply Rabs_pos_eq. apply F2R_ge_0. exact S2.
    - replace (-1)%R with (- (1))%R by ring. rewrite Rabs_Ropp, Rabs_R1, Rmult_1_l. apply Rabs_pos_eq. apply F2R_ge_0. exact S2. }
  destruct absolute; cbn [negb andb].
  - rewrite andb_false_r. exact Va.
  - rewrite andb_true_r. unfold rv, sgn. destruct S1 as [E|E]; rewrite E; cbn [Z.eqb negb]; [ring|]. rewrite F2R_Zopp. ring.
Qed.

Lemma step_ok E W maxextra absolute st x S : 0 <= W <= maxextra -> acc_inv E W st -> in_window E W x ->
  acc_val st = S -> multiple E S ->
  let st' := mpf_sum_step maxextra absolute st x in
  acc_inv E W st' /\ acc_val st' = (S + term absolute x)%R /\ multiple E (S + term absolute x).
Proof.
  intros HW [Isp Iman] [Fx Wx] HS MS. cbv zeta.
  assert (MT : multiple E (term absolute x)).
  { rewrite term_F2R by exact Fx. destruct (Z.eq_dec (mman x) 0) as [Z0|NZ].
    - unfold xman_of. rewrite Z0. destruct (_ && _); cbn; rewrite F2R_0; apply multiple_0.
    - apply multiple_F2R. apply Wx. exact NZ. }
  pose proof (multiple_add E _ _ MS MT) as MSum.
  destruct x as [xsign xman0 xexp xbc]. cbn [mman mexp] in Wx. unfold mpf_sum_step.
  destruct (Z.eqb_spec xman0 0) as [Z0|NZ]; cbn [negb].
  { (* zero term *)
    assert (Mpf xsign xman0 xexp xbc = fzero) as Ez by (destruct (fincanon_sign _ Fx) as [_ [_ H]]; apply H; exact Z0).
    injection Ez as -> -> -> ->. cbn [Z.eqb negb].
    split; [split; assumption|]. split; [|exact MSum].
    rewrite HS. unfold term. change (Mpf 0 0 0 0) with fzero. rewrite rv_fzero, Rabs_R0. destruct absolute; ring. }
  assert (Rx : regular (Mpf xsign xman0 xexp xbc)) by (destruct Fx as [Ez|R]; [inversion Ez; lia|exact R]).
  destruct Rx as [X1 [X2 [X3 X4]]]. cbn [msign mman mexp mbc] in *.
  pose proof (bitcount_pos xman0 X2) as Xb. rewrite <- X4 in Xb.
  specialize (Wx NZ).
  set (xm := if negb (xsign =? 0) && negb absolute then - xman0 else xman0).
  assert (Exm : xm = xman_of absolute (Mpf xsign xman0 xexp xbc)) by reflexivity.
  assert (Nxm : xm <> 0) by (unfold xm; destruct (_ && _); lia).
  assert (Tv : term absolute (Mpf xsign xman0 xexp xbc) = F2R (Float radix2 xm xexp)) by (rewrite term_F2R by exact Fx; reflexivity).
  (* the invariant of any new state whose value is the new sum *)
  assert (NEW : forall m e, F2R (Float radix2 m e) = (S + term absolute (Mpf xsign xman0 xexp xbc))%R -> e <= E + W ->
            acc_inv E W {| sman_ := m; sexp_ := e; sspecial := sspecial st |} /\
            acc_val {| sman_ := m; sexp_ := e; sspecial := sspecial st |} = (S + term absolute (Mpf xsign xman0 xexp xbc))%R).
  { intros m e Hv He. split; [|exact Hv]. split; [exact Isp|]. cbn [sman_ sexp_]. intros Hm. split; [exact He|].
    apply top_ge; [exact Hm|]. rewrite Hv. exact MSum. }
  unfold acc_val in HS.
  destruct (Z.leb_spec (sexp_ st) xexp) as [Le|Gt].
  - destruct ((maxextra <? xexp - sexp_ st) && ((sman_ st =? 0) || (maxextra <? xexp - sexp_ st - bitcount (Z.abs (sman_ st))))) eqn:C.
    + apply andb_true_iff in C as [C1 C2]. apply Z.ltb_lt in C1.
      destruct (Z.eqb_spec (sman_ st) 0) as [M0|MN].
      * destruct (NEW xm xexp) as [A B]; [|lia|].
        { rewrite <- HS, M0, F2R_0, Tv. ring. }
        split; [exact A|]. split; [exact B|exact MSum].
      * exfalso. cbn [orb] in C2. apply Z.ltb_lt in C2. destruct (Iman MN) as [I1 I2]. lia.
    + destruct (NEW (sman_ st + Z.shiftl xm (xexp - sexp_ st)) (sexp_ st)) as [A B].
      * rewrite F2R_add_same, HS, Tv. f_equal.
        rewrite <- (F2R_shiftl xm xexp (xexp - sexp_ st)) by lia.
        replace (xexp - (xexp - sexp_ st)) with (sexp_ st) by lia. reflexivity.
      * lia.
      * split; [exact A|]. split; [exact B|exact MSum].
  - replace (- (xexp - sexp_ st)) with (sexp_ st - xexp) by lia.
    destruct (Z.ltb_spec maxextra (sexp_ st - xexp - xbc)) as [Far|Near].
    + destruct (Z.eqb_spec (sman_ st) 0) as [M0|MN].
      * destruct (NEW xm xexp) as [A B]; [|lia|].
        { rewrite <- HS, M0, F2R_0, Tv. ring. }
        split; [exact A|]. split; [exact B|exact MSum].
      * exfalso. destruct (Iman MN) as [I1 I2]. lia.
    + destruct (NEW (Z.shiftl (sman_ st) (sexp_ st - xexp) + xm) xexp) as [A B].
      * rewrite F2R_add_same, Tv. f_equal. rewrite <- HS.
        rewrite <- (F2R_shiftl (sman_ st) (sexp_ st) (sexp_ st - xexp)) by lia.
        replace (sexp_ st - (sexp_ st - xexp)) with xexp by lia. reflexivity.
      * lia.
      * split; [exact A|]. split; [exact B|exact MSum].
Qed.

Lemma fold_ok E W maxextra absolute : 0 <= W <= maxextra -> forall xs st S,
  acc_inv E W st -> Forall (in_window E W) xs -> acc_val st = S -> multiple E S ->
  let st' := fold_left (mpf_sum_step maxextra absolute) xs st in
  sspecial st' = None /\ acc_val st' = (S + rsum absolute xs)%R.
Proof.
  intros HW. induction xs as [|x r IH]; intros st S Inv Hall HS MS; cbn [fold_left rsum].
  - split; [apply Inv|]. rewrite HS. ring.
  - inversion Hall as [|? ? Hx Hr]; subst.
    destruct (step_ok E W maxextra absolute st x (acc_val st) HW Inv Hx eq_refl MS) as [I' [V' M']].
    destruct (IH _ _ I' Hr V' M') as [A B]. split; [exact A|]. rewrite B. ring.
Qed.

(* ---- the theorem ---- *)
Theorem mpf_sum_round xs prec r absolute E : 0 < prec -> Forall (in_window E (2 * prec)) xs ->
  rv (mpf_sum xs prec r absolute) = RND r prec (rsum absolute xs).
Proof.
  intros Hp Hall. unfold mpf_sum.
  destruct (Z.eqb_spec (prec * 2) 0) as [Z0|_]; [lia|].
  set (st0 := {| sman_ := 0; sexp_ := 0; sspecial := None |}).
  assert (I0 : acc_inv E (2 * prec) st0) by (split; [reflexivity|cbn; lia]).
  assert (V0 : acc_val st0 = 0%R) by (unfold acc_val; cbn; apply F2R_0).
  destruct (fold_ok E (2 * prec) (prec * 2) absolute ltac:(lia) xs st0 0%R I0 Hall V0 (multiple_0 E)) as [Sp V].
  cbv zeta in Sp, V. rewrite Sp. rewrite from_man_exp_round by exact Hp. f_equal. unfold acc_val in V. rewrite V. ring.
Qed.

Theorem mpf_sum_exact xs r absolute E : Forall (in_window E 1000000) xs ->
  rv (mpf_sum xs 0 r absolute) = rsum absolute xs.
Proof.
  intros Hall. unfold mpf_sum. cbn [Z.mul Z.eqb].
  set (st0 := {| sman_ := 0; sexp_ := 0; sspecial := None |}).
  assert (I0 : acc_inv E 1000000 st0) by (split; [reflexivity|cbn; lia]).
  assert (V0 : acc_val st0 = 0%R) by (unfold acc_val; cbn; apply F2R_0).
  destruct (fold_ok E 1000000 1000000 absolute ltac:(lia) xs st0 0%R I0 Hall V0 (multiple_0 E)) as [Sp V].
  cbv zeta in Sp, V. rewrite Sp. rewrite from_man_exp_exact. unfold acc_val in V. rewrite V. ring.
Qed.
