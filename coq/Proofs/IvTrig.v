(* IvTrig.v — C14: mpi_cos_sin.  The point values (mpf_cos_sin at the working precision prec + 20) and the quadrant indices
   (mod_pi2) at the two end points are inputs of the model.  Whenever the quadrant indices are right
   (n pi/2 <= t <= (n+1) pi/2) and the four point values are within a relative 2^(9-wp) of cos / sin of the end points, the
   two result intervals contain cos x and sin x for every member point x:  the extremum logic (which multiples of pi/2 lie
   between the end points), the min/max selection, the outward factor and the clamping to [-1, 1] are all covered. *)
From Coq Require Import ZArith Reals Bool List Lia Lra Psatz.
From Flocq Require Import Core.
From MP Require Import Algo.Base Algo.Libmpf Algo.Libmpi Algo.Ctxfun Spec.Mpf Spec.Round Proofs.Normalize Proofs.NormRound Proofs.Ops
  Proofs.AddRound Proofs.Fin Proofs.IntPart Proofs.Mag Proofs.IvCmp Proofs.IvContain Proofs.IvMul Proofs.IvOutward.
Import ListNotations.
Open Scope Z_scope.

(* ---- the outward maps on reals ---- *)
Definition Lo (d x : R) : R := if Rle_dec 0 x then (x * (1 - d))%R else (x * (1 + d))%R.
Definition Up (d x : R) : R := if Rle_dec 0 x then (x * (1 + d))%R else (x * (1 - d))%R.

Lemma Lo_mono d x y : (0 < d <= / 2)%R -> (x <= y)%R -> (Lo d x <= Lo d y)%R.
Proof. intros [D1 D2] H. unfold Lo. destruct (Rle_dec 0 x), (Rle_dec 0 y); nra. Qed.
Lemma Up_mono d x y : (0 < d <= / 2)%R -> (x <= y)%R -> (Up d x <= Up d y)%R.
Proof. intros [D1 D2] H. unfold Up. destruct (Rle_dec 0 x), (Rle_dec 0 y); nra. Qed.

Lemma close_Lo wp v F : 11 <= wp -> close wp v F -> (Lo (delta wp) v <= F)%R.
Proof.
  intros H C. pose proof (delta_bounds wp H) as D. unfold Lo. destruct (Rle_dec 0 v) as [P|N].
  - destruct (Req_dec v 0) as [->|NZ].
    + unfold close in C. rewrite Rminus_0_l, Rabs_Ropp in C. pose proof (Rabs_pos F).
      assert (Rabs F = 0)%R by nra. destruct (Req_dec F 0) as [->|E]; [lra|]. pose proof (Rabs_pos_lt F E). lra.
    + assert (V : (0 < v)%R) by lra. pose proof (close_same_sign_pos wp _ _ H C V) as FP.
      unfold close in C. rewrite (Rabs_pos_eq F) in C by lra. apply (out_low_pos _ _ _ D FP C).
  - assert (V : (v < 0)%R) by lra. pose proof (close_same_sign_neg wp _ _ H C V) as FN.
    unfold close in C. rewrite (Rabs_left F) in C by lra. apply (out_low_neg _ _ _ D FN C).
Qed.
Lemma close_Up wp v F : 11 <= wp -> close wp v F -> (F <= Up (delta wp) v)%R.
Proof.
  intros H C. pose proof (delta_bounds wp H) as D. unfold Up. destruct (Rle_dec 0 v) as [P|N].
  - destruct (Req_dec v 0) as [->|NZ].
    + unfold close in C. rewrite Rminus_0_l, Rabs_Ropp in C. pose proof (Rabs_pos F).
      assert (Rabs F = 0)%R by nra. destruct (Req_dec F 0) as [->|E]; [lra|]. pose proof (Rabs_pos_lt F E). lra.
    + assert (V : (0 < v)%R) by lra. pose proof (close_same_sign_pos wp _ _ H C V) as FP.
      unfold close in C. rewrite (Rabs_pos_eq F) in C by lra. apply (out_high_pos _ _ _ D FP C).
  - assert (V : (v < 0)%R) by lra. pose proof (close_same_sign_neg wp _ _ H C V) as FN.
    unfold close in C. rewrite (Rabs_left F) in C by lra. apply (out_high_neg _ _ _ D FN C).
Qed.

(* ---- finalize: outward factor, directed rounding, clamping to [-1, 1] ---- *)
Lemma regular_big_pos w : regular w -> msign w = 0 -> 1 <= mexp w + mbc w -> (1 <= rv w)%R.
Proof.
  intros Hw S H. destruct (mpf_mag_spec w Hw) as [m [Hm [B1 _]]].
  unfold mpf_mag in Hm. destruct Hw as [_ [S2 _]]. destruct (Z.eqb_spec (mman w) 0); [lia|]. injection Hm as <-.
  assert (P : (0 < rv w)%R).
  { assert (0 < F2R (Float radix2 (mman w) (mexp w)))%R by (apply F2R_gt_0; exact S2). unfold rv, sgn. rewrite S. simpl. lra. }
  rewrite Rabs_pos_eq in B1 by lra. apply Rle_trans with (2 := B1). change 1%R with (bpow radix2 0). apply bpow_le. lia.
Qed.
Lemma regular_big_neg w : regular w -> msign w = 1 -> 1 <= mexp w + mbc w -> (rv w <= -1)%R.
Proof.
  intros Hw S H. destruct (mpf_mag_spec w Hw) as [m [Hm [B1 _]]].
  unfold mpf_mag in Hm. destruct Hw as [_ [S2 _]]. destruct (Z.eqb_spec (mman w) 0); [lia|]. injection Hm as <-.
  assert (P : (rv w < 0)%R).
  { assert (0 < F2R (Float radix2 (mman w) (mexp w)))%R by (apply F2R_gt_0; exact S2). unfold rv, sgn. rewrite S. simpl. lra. }
  rewrite Rabs_left in B1 by lra. assert (bpow radix2 0 <= bpow radix2 (mexp w + mbc w - 1))%R by (apply bpow_le; lia).
  change (bpow radix2 0) with 1%R in *. lra.
Qed.

Lemma rv_fnone1 : rv fnone = (-1)%R.
Proof. unfold rv, fnone, sgn, F2R; simpl. ring. Qed.
Lemma fincanon_fnone : fincanon fnone.
Proof. right. apply regular_fnone. Qed.

Lemma finalize_mul v prec r : fincanon v -> 0 < prec -> (r = RF \/ r = RC) ->
  let w := mpf_mul v (if Bool.eqb (negb (msign v =? 0)) (rnd_eqb r RF)
                      then from_man_exp (Z.shiftl 1 (prec + 20) + Z.shiftl 1 10) (- (prec + 20)) 0 RD
                      else from_man_exp (Z.shiftl 1 (prec + 20) - Z.shiftl 1 10) (- (prec + 20)) 0 RD) prec r in
  fincanon w /\ rv w = RND r prec (if rnd_eqb r RF then Lo (delta (prec + 20)) (rv v) else Up (delta (prec + 20)) (rv v)).
Proof.
  intros Hv Hp Hr. cbv zeta. set (wp := prec + 20).
  destruct (p_plus wp ltac:(lia)) as [PP FP]. destruct (p_minus wp ltac:(lia)) as [PM FM].
  assert (SG : (msign v = 0 /\ (0 <= rv v)%R) \/ (msign v = 1 /\ (rv v < 0)%R)).
  { destruct Hv as [->|Hr']; [left; split; [reflexivity|rewrite rv_fzero; lra]|].
    destruct (rv_pos_neg v Hr') as [[S V]|[S V]]; [left|right]; split; auto; lra. }
  destruct Hr as [-> | ->]; cbn [rnd_eqb]; destruct SG as [[S V]|[S V]]; rewrite S; cbn [Z.eqb negb Bool.eqb].
  - destruct (mul_roe v _ prec RF Hv FM ltac:(lia)) as [E F]. split; [exact F|]. rewrite E, PM.
    unfold rnd_or_exact. destruct (Z.eqb_spec prec 0); [lia|]. f_equal. unfold Lo. destruct (Rle_dec 0 (rv v)); [reflexivity|lra].
  - destruct (mul_roe v _ prec RF Hv FP ltac:(lia)) as [E F]. split; [exact F|]. rewrite E, PP.
    unfold rnd_or_exact. destruct (Z.eqb_spec prec 0); [lia|]. f_equal. unfold Lo. destruct (Rle_dec 0 (rv v)); [lra|reflexivity].
  - destruct (mul_roe v _ prec RC Hv FP ltac:(lia)) as [E F]. split; [exact F|]. rewrite E, PP.
    unfold rnd_or_exact. destruct (Z.eqb_spec prec 0); [lia|]. f_equal. unfold Up. destruct (Rle_dec 0 (rv v)); [reflexivity|lra].
  - destruct (mul_roe v _ prec RC Hv FM ltac:(lia)) as [E F]. split; [exact F|]. rewrite E, PM.
    unfold rnd_or_exact. destruct (Z.eqb_spec prec 0); [lia|]. f_equal. unfold Up. destruct (Rle_dec 0 (rv v)); [lra|reflexivity].
Qed.

Theorem finalize_floor_le v prec F : fincanon v -> 0 < prec -> (-1 <= F)%R -> (Lo (delta (prec + 20)) (rv v) <= F)%R ->
  (rv (mpi_finalize v prec RF) <= F)%R /\ fincanon (mpi_finalize v prec RF).
Proof.
  intros Hv Hp HF HL. unfold mpi_finalize. cbv zeta.
  destruct (finalize_mul v prec RF Hv Hp (or_introl eq_refl)) as [Fw Ew]. cbv zeta in Fw, Ew. cbn [rnd_eqb] in Ew.
  set (w := mpf_mul v _ prec RF) in *.
  pose proof (RND_floor_le prec (Lo (delta (prec + 20)) (rv v)) Hp) as R.
  destruct (Z.leb_spec 1 (mexp w + mbc w)) as [B|B]; [|split; [lra|exact Fw]].
  destruct Fw as [E|Rw]; [rewrite E in B; cbn in B; lia|].
  destruct (rv_pos_neg w Rw) as [[S V]|[S V]]; rewrite S; cbn [Z.eqb negb].
  - pose proof (regular_big_pos w Rw S B). rewrite rv_fone1. split; [lra|apply fincanon_fone].
  - rewrite rv_fnone1. split; [lra|apply fincanon_fnone].
Qed.

Theorem finalize_ceil_ge v prec F : fincanon v -> 0 < prec -> (F <= 1)%R -> (F <= Up (delta (prec + 20)) (rv v))%R ->
  (F <= rv (mpi_finalize v prec RC))%R /\ fincanon (mpi_finalize v prec RC).
Proof.
  intros Hv Hp HF HL. unfold mpi_finalize. cbv zeta.
  destruct (finalize_mul v prec RC Hv Hp (or_intror eq_refl)) as [Fw Ew]. cbv zeta in Fw, Ew. cbn [rnd_eqb] in Ew.
  set (w := mpf_mul v _ prec RC) in *.
  pose proof (RND_ceil_ge prec (Up (delta (prec + 20)) (rv v)) Hp) as R.
  destruct (Z.leb_spec 1 (mexp w + mbc w)) as [B|B]; [|split; [lra|exact Fw]].
  destruct Fw as [E|Rw]; [rewrite E in B; cbn in B; lia|].
  destruct (rv_pos_neg w Rw) as [[S V]|[S V]]; rewrite S; cbn [Z.eqb negb].
  - rewrite rv_fone1. split; [lra|apply fincanon_fone].
  - pose proof (regular_big_neg w Rw S B). rewrite rv_fnone1. split; [lra|apply fincanon_fnone].
Qed.

(* ---- real analysis: cos is quasi-convex on [2k pi, 2k pi + 2 pi]; shifted versions for the other three extrema ---- *)
Lemma cos_shift_Z k x : cos (x + 2 * IZR k * PI) = cos x.
Proof.
  destruct (Z_le_gt_dec 0 k) as [P|N].
  - rewrite <- (Z2Nat.id k P), <- INR_IZR_INZ. apply cos_period.
  - set (y := (x + 2 * IZR k * PI)%R). replace x with (y + 2 * INR (Z.to_nat (- k)) * PI)%R.
    + symmetry. apply cos_period.
    + rewrite INR_IZR_INZ, Z2Nat.id by lia. rewrite opp_IZR. unfold y. ring.
Qed.

Lemma cos_qconvex k a x b : (2 * IZR k * PI <= a)%R -> (a <= x)%R -> (x <= b)%R -> (b <= 2 * IZR k * PI + 2 * PI)%R ->
  (cos x <= Rmax (cos a) (cos b))%R.
Proof.
  intros H1 H2 H3 H4. pose proof PI_RGT_0 as HP.
  rewrite <- (cos_shift_Z (- k) a), <- (cos_shift_Z (- k) x), <- (cos_shift_Z (- k) b). rewrite opp_IZR.
  set (a' := (a + 2 * - IZR k * PI)%R). set (x' := (x + 2 * - IZR k * PI)%R). set (b' := (b + 2 * - IZR k * PI)%R).
  assert (0 <= a')%R by (unfold a'; lra). assert (a' <= x')%R by (unfold a', x'; lra).
  assert (x' <= b')%R by (unfold b', x'; lra). assert (b' <= 2 * PI)%R by (unfold b'; lra).
  destruct (Rle_or_lt x' PI) as [L|G].
  - apply Rle_trans with (cos a'); [|apply Rmax_l]. apply cos_decr_1; lra.
  - apply Rle_trans with (cos b'); [|apply Rmax_r]. apply cos_incr_1; lra.
Qed.

Lemma cos_qconcave k a x b : ((2 * IZR k + 1) * PI <= a)%R -> (a <= x)%R -> (x <= b)%R -> (b <= (2 * IZR k + 3) * PI)%R ->
  (Rmin (cos a) (cos b) <= cos x)%R.
Proof.
  intros H1 H2 H3 H4.
  pose proof (cos_qconvex k (a - PI) (x - PI) (b - PI) ltac:(lra) ltac:(lra) ltac:(lra) ltac:(lra)) as Q.
  assert (E : forall t, cos (t - PI) = (- cos t)%R).
  { intros t. replace t with ((t - PI) + PI)%R at 2 by ring. rewrite neg_cos. ring. }
  rewrite !E in Q. unfold Rmax in Q. unfold Rmin. destruct (Rle_dec (- cos a) (- cos b)), (Rle_dec (cos a) (cos b)); lra.
Qed.

Lemma sin_as_cos t : sin t = cos (t - PI / 2).
Proof. rewrite <- cos_shift. rewrite <- (cos_neg (t - PI / 2)). f_equal. ring. Qed.

Lemma sin_qconvex k a x b : ((4 * IZR k + 1) * (PI / 2) <= a)%R -> (a <= x)%R -> (x <= b)%R -> (b <= (4 * IZR k + 5) * (PI / 2))%R ->
  (sin x <= Rmax (sin a) (sin b))%R.
Proof.
  intros H1 H2 H3 H4. rewrite !sin_as_cos.
  apply (cos_qconvex k); lra.
Qed.

Lemma sin_qconcave k a x b : ((4 * IZR k + 3) * (PI / 2) <= a)%R -> (a <= x)%R -> (x <= b)%R -> (b <= (4 * IZR k + 7) * (PI / 2))%R ->
  (Rmin (sin a) (sin b) <= sin x)%R.
Proof.
  intros H1 H2 H3 H4.
  pose proof (cos_qconvex (k + 1) (PI / 2 + a) (PI / 2 + x) (PI / 2 + b)) as Q. rewrite plus_IZR in Q.
  specialize (Q ltac:(lra) ltac:(lra) ltac:(lra) ltac:(lra)).
  rewrite !sin_cos. unfold Rmax in Q. unfold Rmin.
  destruct (Rle_dec (cos (PI / 2 + a)) (cos (PI / 2 + b))), (Rle_dec (- cos (PI / 2 + a)) (- cos (PI / 2 + b))); lra.
Qed.

(* the quadrant index of a point *)
Definition quad (n : Z) (t : R) : Prop := (IZR n * (PI / 2) <= t <= (IZR n + 1) * (PI / 2))%R.

Lemma block_bounds (na nb k c : Z) a b : quad na a -> quad nb b -> (na - c) / 4 = k -> (nb - c) / 4 = k ->
  ((4 * IZR k + IZR c) * (PI / 2) <= a)%R /\ (b <= (4 * IZR k + IZR c + 4) * (PI / 2))%R.
Proof.
  intros [A1 _] [_ B2] Ea Eb. pose proof PI_RGT_0 as HP.
  assert (La : 4 * k + c <= na) by (pose proof (Z.mul_div_le (na - c) 4 ltac:(lia)); lia).
  assert (Lb : nb <= 4 * k + c + 3).
  { pose proof (Z.mod_pos_bound (nb - c) 4 ltac:(lia)). pose proof (Z.div_mod (nb - c) 4 ltac:(lia)). lia. }
  apply IZR_le in La, Lb. rewrite plus_IZR, mult_IZR in La. rewrite !plus_IZR, mult_IZR in Lb.
  split.
  - apply Rle_trans with (2 := A1). apply Rmult_le_compat_r; lra.
  - apply Rle_trans with (1 := B2). apply Rmult_le_compat_r; lra.
Qed.

(* ---- end points from the min/max of the two point values ---- *)
Lemma low_end v1 v2 lo hi F1 F2 F (flag : bool) prec : fincanon v1 -> fincanon v2 -> 0 < prec ->
  mpf_min_max [v1; v2] = (lo, hi) ->
  close (prec + 20) (rv v1) F1 -> close (prec + 20) (rv v2) F2 -> (-1 <= F)%R -> (flag = false -> (Rmin F1 F2 <= F)%R) ->
  (rv (mpi_finalize (if flag then fnone else lo) prec RF) <= F)%R /\ fincanon (mpi_finalize (if flag then fnone else lo) prec RF).
Proof.
  intros H1 H2 Hp E C1 C2 HF HM. pose proof (delta_bounds (prec + 20) ltac:(lia)) as D.
  destruct flag.
  - apply finalize_floor_le; auto; [apply fincanon_fnone|]. rewrite rv_fnone1. unfold Lo. destruct (Rle_dec 0 (-1)); lra.
  - pose proof (min_max_spec v1 [v2] (Forall_cons _ H1 (Forall_cons _ H2 (Forall_nil _)))) as S. rewrite E in S.
    destruct S as [Fl [_ [All _]]]. inversion All as [|? ? A1 A']; subst. inversion A' as [|? ? A2 _]; subst.
    apply finalize_floor_le; auto. apply Rle_trans with (2 := HM eq_refl).
    pose proof (close_Lo (prec + 20) _ _ ltac:(lia) C1). pose proof (close_Lo (prec + 20) _ _ ltac:(lia) C2).
    pose proof (Lo_mono _ _ _ D (proj1 A1)). pose proof (Lo_mono _ _ _ D (proj1 A2)).
    unfold Rmin. destruct (Rle_dec F1 F2); lra.
Qed.

Lemma high_end v1 v2 lo hi F1 F2 F (flag : bool) prec : fincanon v1 -> fincanon v2 -> 0 < prec ->
  mpf_min_max [v1; v2] = (lo, hi) ->
  close (prec + 20) (rv v1) F1 -> close (prec + 20) (rv v2) F2 -> (F <= 1)%R -> (flag = false -> (F <= Rmax F1 F2)%R) ->
  (F <= rv (mpi_finalize (if flag then fone else hi) prec RC))%R /\ fincanon (mpi_finalize (if flag then fone else hi) prec RC).
Proof.
  intros H1 H2 Hp E C1 C2 HF HM. pose proof (delta_bounds (prec + 20) ltac:(lia)) as D.
  destruct flag.
  - apply finalize_ceil_ge; auto; [apply fincanon_fone|]. rewrite rv_fone1. unfold Up. destruct (Rle_dec 0 1); lra.
  - pose proof (min_max_spec v1 [v2] (Forall_cons _ H1 (Forall_cons _ H2 (Forall_nil _)))) as S. rewrite E in S.
    destruct S as [_ [Fh [All _]]]. inversion All as [|? ? A1 A']; subst. inversion A' as [|? ? A2 _]; subst.
    apply finalize_ceil_ge; auto. apply Rle_trans with (1 := HM eq_refl).
    pose proof (close_Up (prec + 20) _ _ ltac:(lia) C1). pose proof (close_Up (prec + 20) _ _ ltac:(lia) C2).
    pose proof (Up_mono _ _ _ D (proj2 A1)). pose proof (Up_mono _ _ _ D (proj2 A2)).
    unfold Rmax. destruct (Rle_dec F1 F2); lra.
Qed.

Lemma fincanon_not_inf x : fincanon x -> mpf_eqb x finf = false /\ mpf_eqb x fninf = false.
Proof.
  intros [->|[_ [H _]]]; [split; reflexivity|].
  split; apply not_true_is_false; rewrite mpf_eqb_eq; intros ->; simpl in H; lia.
Qed.

Lemma full_contains F : (-1 <= F <= 1)%R -> in_iv mpi_full F /\ valid_iv mpi_full.
Proof.
  intros H. unfold mpi_full, in_iv, valid_iv; cbn [fst snd]. rewrite rv_fnone1, rv_fone1.
  repeat split; try lra; [apply fincanon_fnone|apply fincanon_fone].
Qed.

Theorem mpi_cos_sin_contains s ca sa na cb sb nb prec t : valid_iv s -> in_iv s t -> 0 < prec ->
  fincanon ca -> fincanon sa -> fincanon cb -> fincanon sb ->
  quad na (rv (fst s)) -> quad nb (rv (snd s)) ->
  close (prec + 20) (rv ca) (cos (rv (fst s))) -> close (prec + 20) (rv sa) (sin (rv (fst s))) ->
  close (prec + 20) (rv cb) (cos (rv (snd s))) -> close (prec + 20) (rv sb) (sin (rv (snd s))) ->
  let '(Cv, Sv) := mpi_cos_sin_from s (ca, sa, na) (cb, sb, nb) prec in
  (in_iv Cv (cos t) /\ valid_iv Cv) /\ (in_iv Sv (sin t) /\ valid_iv Sv).
Proof.
  intros [Fa [Fb Vab]] [T1 T2] Hp Hca Hsa Hcb Hsb Qa Qb Cca Csa Ccb Csb.
  destruct s as [a b]. cbn [fst snd] in *. unfold mpi_cos_sin_from.
  pose proof (COS_bound t) as CB. pose proof (SIN_bound t) as SB.
  destruct (mpf_eqb a fzero && mpf_eqb b fzero) eqn:Z0.
  { apply andb_true_iff in Z0. destruct Z0 as [Za Zb]. apply mpf_eqb_eq in Za, Zb. subst a b. rewrite rv_fzero in *.
    assert (t = 0%R) as -> by lra. rewrite cos_0, sin_0. unfold in_iv, valid_iv; cbn [fst snd]. rewrite rv_fone1, rv_fzero.
    repeat split; try lra; try apply fincanon_fone; left; reflexivity. }
  destruct (fincanon_not_inf a Fa) as [-> ->]. destruct (fincanon_not_inf b Fb) as [-> ->]. cbn [orb].
  destruct (mpf_min_max [ca; cb]) as [clo chi] eqn:EC. destruct (mpf_min_max [sa; sb]) as [slo shi] eqn:ES.
  destruct (negb (na =? nb) && (4 <=? nb - na)) eqn:FULL.
  { split; apply full_contains; lra. }
  (* which extrema lie strictly inside: decided by the quadrant indices *)
  assert (KEY : forall c, (negb (na =? nb) && negb ((na - c) / 4 =? (nb - c) / 4)) = false -> (na - c) / 4 = (nb - c) / 4).
  { intros c H. destruct (Z.eqb_spec na nb) as [->|NE]; [reflexivity|]. cbn [negb andb] in H.
    apply negb_false_iff in H. apply Z.eqb_eq in H. exact H. }
  assert (K0 : (negb (na =? nb) && negb (na / 4 =? nb / 4)) = false -> na / 4 = nb / 4).
  { intros H. pose proof (KEY 0) as K. rewrite !Z.sub_0_r in K. auto. }
  split.
  - (* cosine *)
    destruct (low_end ca cb clo chi _ _ (cos t) (negb (na =? nb) && negb ((na - 2) / 4 =? (nb - 2) / 4)) prec Hca Hcb Hp EC Cca Ccb ltac:(lra)) as [L1 L2].
    { intros Fl. pose proof (KEY 2 Fl) as E. destruct (block_bounds na nb _ 2 _ _ Qa Qb eq_refl (eq_sym E)) as [B1 B2].
      apply (cos_qconcave ((na - 2) / 4)); lra. }
    destruct (high_end ca cb clo chi _ _ (cos t) (negb (na =? nb) && negb (na / 4 =? nb / 4)) prec Hca Hcb Hp EC Cca Ccb ltac:(lra)) as [U1 U2].
    { intros Fl. pose proof (K0 Fl) as E. pose proof (block_bounds na nb (na / 4) 0 _ _ Qa Qb) as BB. rewrite !Z.sub_0_r in BB.
      destruct (BB eq_refl (eq_sym E)) as [B1 B2]. apply (cos_qconvex (na / 4)); lra. }
    unfold in_iv, valid_iv; cbn [fst snd]. repeat split; auto; lra.
  - (* sine *)
    destruct (low_end sa sb slo shi _ _ (sin t) (negb (na =? nb) && negb ((na - 3) / 4 =? (nb - 3) / 4)) prec Hsa Hsb Hp ES Csa Csb ltac:(lra)) as [L1 L2].
    { intros Fl. pose proof (KEY 3 Fl) as E. destruct (block_bounds na nb _ 3 _ _ Qa Qb eq_refl (eq_sym E)) as [B1 B2].
      apply (sin_qconcave ((na - 3) / 4)); lra. }
    destruct (high_end sa sb slo shi _ _ (sin t) (negb (na =? nb) && negb ((na - 1) / 4 =? (nb - 1) / 4)) prec Hsa Hsb Hp ES Csa Csb ltac:(lra)) as [U1 U2].
    { intros Fl. pose proof (KEY 1 Fl) as E. destruct (block_bounds na nb _ 1 _ _ Qa Qb eq_refl (eq_sym E)) as [B1 B2].
      apply (sin_qconvex ((na - 1) / 4)); lra. }
    unfold in_iv, valid_iv; cbn [fst snd]. repeat split; auto; lra.
Qed.

(* ---- tan and cot: quotient of the two intervals computed 20 bits higher ---- *)
From MP Require Import Proofs.IvDiv.
Theorem mpi_tan_contains s ca sa na cb sb nb prec t : valid_iv s -> in_iv s t -> 0 < prec ->
  fincanon ca -> fincanon sa -> fincanon cb -> fincanon sb ->
  quad na (rv (fst s)) -> quad nb (rv (snd s)) ->
  close (prec + 20 + 20) (rv ca) (cos (rv (fst s))) -> close (prec + 20 + 20) (rv sa) (sin (rv (fst s))) ->
  close (prec + 20 + 20) (rv cb) (cos (rv (snd s))) -> close (prec + 20 + 20) (rv sb) (sin (rv (snd s))) ->
  let Cv := fst (mpi_cos_sin_from s (ca, sa, na) (cb, sb, nb) (prec + 20)) in
  ((0 < rv (fst Cv))%R \/ (rv (snd Cv) < 0)%R) ->
  exists r, mpi_tan_from s (ca, sa, na) (cb, sb, nb) prec = Ok r /\ in_iv r (tan t) /\ valid_iv r.
Proof.
  intros Vs It Hp Hca Hsa Hcb Hsb Qa Qb C1 C2 C3 C4. cbv zeta. intros NZ.
  pose proof (mpi_cos_sin_contains s ca sa na cb sb nb (prec + 20) t Vs It ltac:(lia) Hca Hsa Hcb Hsb Qa Qb C1 C2 C3 C4) as H.
  unfold mpi_tan_from. destruct (mpi_cos_sin_from s (ca, sa, na) (cb, sb, nb) (prec + 20)) as [Cv Sv]. cbn [fst] in NZ.
  destruct H as [[IC VC] [IS VS]]. unfold tan. apply mpi_div_contains; auto.
Qed.

Theorem mpi_cot_contains s ca sa na cb sb nb prec t : valid_iv s -> in_iv s t -> 0 < prec ->
  fincanon ca -> fincanon sa -> fincanon cb -> fincanon sb ->
  quad na (rv (fst s)) -> quad nb (rv (snd s)) ->
  close (prec + 20 + 20) (rv ca) (cos (rv (fst s))) -> close (prec + 20 + 20) (rv sa) (sin (rv (fst s))) ->
  close (prec + 20 + 20) (rv cb) (cos (rv (snd s))) -> close (prec + 20 + 20) (rv sb) (sin (rv (snd s))) ->
  let Sv := snd (mpi_cos_sin_from s (ca, sa, na) (cb, sb, nb) (prec + 20)) in
  ((0 < rv (fst Sv))%R \/ (rv (snd Sv) < 0)%R) ->
  exists r, mpi_cot_from s (ca, sa, na) (cb, sb, nb) prec = Ok r /\ in_iv r (cos t / sin t) /\ valid_iv r.
Proof.
  intros Vs It Hp Hca Hsa Hcb Hsb Qa Qb C1 C2 C3 C4. cbv zeta. intros NZ.
  pose proof (mpi_cos_sin_contains s ca sa na cb sb nb (prec + 20) t Vs It ltac:(lia) Hca Hsa Hcb Hsb Qa Qb C1 C2 C3 C4) as H.
  unfold mpi_cot_from. destruct (mpi_cos_sin_from s (ca, sa, na) (cb, sb, nb) (prec + 20)) as [Cv Sv]. cbn [snd] in NZ.
  destruct H as [[IC VC] [IS VS]]. apply mpi_div_contains; auto.
Qed.
