(* Cmp.v — C05: mpf_cmp returns the sign of the exact difference; mpf_lt/le/gt/ge/eq follow. *)
From Coq Require Import ZArith Reals Bool Lia Lra.
From Flocq Require Import Core.
From MP Require Import Algo.Base Algo.Libmpf Algo.Ctxfun Spec.Mpf Spec.Round Proofs.Bits Proofs.Normalize Proofs.Canon
  Proofs.NormRound Proofs.Ops Proofs.Sticky Proofs.DivRound Proofs.SqrtRound Proofs.AddRound Proofs.Format Proofs.Fin Proofs.Mag Proofs.IntPart.
Open Scope Z_scope.

Definition cmp_ok (c : Z) (x y : R) : Prop :=
  (c = -1 /\ (x < y)%R) \/ (c = 0 /\ x = y) \/ (c = 1 /\ (y < x)%R).

Lemma regular_not_fzero x : regular x -> mpf_eqb x fzero = false.
Proof. intros [_ [H _]]. apply Bool.not_true_is_false. rewrite mpf_eqb_eq. intros ->. simpl in H. lia. Qed.

Lemma mpf_sign_regular x : regular x -> mpf_sign x = if msign x =? 0 then 1 else -1.
Proof. intros H. unfold mpf_sign. rewrite regular_nonzero by exact H. reflexivity. Qed.

(* floor-rounding keeps the sign of a nonzero number (FLX has no underflow) *)
Lemma RND_floor_sign p d : 0 < p -> d <> 0%R ->
  ((0 < d)%R -> (0 < RND RF p d)%R) /\ ((d < 0)%R -> (RND RF p d < 0)%R).
Proof.
  intros Hp Hd. assert (HP : Prec_gt_0 p) by exact Hp. unfold RND; cbn [Zrnd_of]. split; intros H.
  - (* round down of a positive number is at least bpow (mag d - 1) > 0 *)
    destruct (mag radix2 d) as [e He]. specialize (He Hd). rewrite Rabs_pos_eq in He by lra.
    apply Rlt_le_trans with (bpow radix2 (e - 1)); [apply bpow_gt_0|].
    apply round_ge_generic; [typeclasses eauto|typeclasses eauto| |lra].
    apply generic_format_bpow. unfold FLX_exp. lia.
  - apply Rle_lt_trans with d; [|exact H]. apply round_DN_pt. typeclasses eauto.
Qed.

Theorem mpf_cmp_regular s t : regular s -> regular t -> cmp_ok (mpf_cmp s t) (rv s) (rv t).
Proof.
  intros Hs Ht. pose proof Hs as [S1 [S2 [S3 S4]]]. pose proof Ht as [T1 [T2 [T3 T4]]].
  destruct (rv_pos_neg s Hs) as [[Es Ps]|[Es Ps]]; destruct (rv_pos_neg t Ht) as [[Et Pt]|[Et Pt]].
  all: unfold mpf_cmp; destruct s as [ssign sman sexp sbc], t as [tsign tman texp tbc]; cbn [msign mman mexp mbc] in *;
       destruct (Z.eqb_spec sman 0); [lia|]; destruct (Z.eqb_spec tman 0); [lia|]; cbn [orb]; subst ssign tsign; cbn [Z.eqb negb].
  2:{ (* s > 0 > t *) right; right. split; [reflexivity|lra]. }
  2:{ (* s < 0 < t *) left. split; [reflexivity|lra]. }
  - (* both positive *)
    set (x := rv (Mpf 0 sman sexp sbc)) in *. set (y := rv (Mpf 0 tman texp tbc)) in *.
    assert (Hx : x = F2R (Float radix2 sman sexp)) by (unfold x, rv, sgn; simpl; ring).
    assert (Hy : y = F2R (Float radix2 tman texp)) by (unfold y, rv, sgn; simpl; ring).
    destruct (Z.eqb_spec sexp texp) as [Ee|Ne].
    + subst texp. destruct (Z.eqb_spec sman tman) as [Em|Nm].
      * right; left. split; [reflexivity|]. rewrite Hx, Hy, Em. reflexivity.
      * destruct (Z.ltb_spec tman sman).
        -- right; right. split; [reflexivity|]. rewrite Hx, Hy. apply F2R_lt. lia.
        -- left. split; [reflexivity|]. rewrite Hx, Hy. apply F2R_lt. lia.
    + destruct (mpf_mag_spec _ Hs) as [ms [Hms [A1 A2]]]. destruct (mpf_mag_spec _ Ht) as [mt [Hmt [B1 B2]]].
      unfold mpf_mag in Hms, Hmt. cbn [mman mexp mbc] in *.
      destruct (Z.eqb_spec sman 0); [lia|]. destruct (Z.eqb_spec tman 0); [lia|]. injection Hms as <-. injection Hmt as <-.
      fold x in A1, A2. fold y in B1, B2. rewrite Rabs_pos_eq in A1, A2, B1, B2 by lra.
      destruct (Z.ltb_spec (sbc + sexp) (tbc + texp)) as [L|G].
      * left. split; [reflexivity|]. apply Rlt_le_trans with (1 := A2). apply Rle_trans with (2 := B1). apply bpow_le. lia.
      * destruct (Z.ltb_spec (tbc + texp) (sbc + sexp)) as [L2|G2].
        -- right; right. split; [reflexivity|]. apply Rlt_le_trans with (1 := B2). apply Rle_trans with (2 := A1). apply bpow_le. lia.
        -- (* same top bit: sign of the floor-rounded difference *)
           set (delta := mpf_sub (Mpf 0 sman sexp sbc) (Mpf 0 tman texp tbc) 5 RF).
           assert (Hd : rv delta = RND RF 5 (x - y)) by (apply mpf_sub_round; [right; exact Hs|right; exact Ht|lia]).
           assert (Fd : fincanon delta) by (apply mpf_add_gen_fincanon; [right; exact Hs|right; exact Ht|lia]).
           assert (Hne : (x - y)%R <> 0%R).
           { intros E. assert (x = y) by lra. apply Ne.
             assert (Mpf 0 sman sexp sbc = Mpf 0 tman texp tbc); [|congruence].
             apply (regular_unique _ _ Hs Ht). cbn [msign mman mexp]. split; [reflexivity|].
             apply F2R_eq_Z. rewrite <- Hx, <- Hy. exact H. }
           destruct (RND_floor_sign 5 (x - y) ltac:(lia) Hne) as [Hp' Hn'].
           destruct (Rtotal_order x y) as [L|[E|G']]; [|lra|].
           ++ left. split; [|exact L]. specialize (Hn' ltac:(lra)). rewrite <- Hd in Hn'.
              destruct Fd as [E0|Rd]; [rewrite E0, rv_fzero in Hn'; lra|].
              destruct (rv_pos_neg _ Rd) as [[_ P]|[E1 _]]; [lra|]. rewrite E1. reflexivity.
           ++ right; right. split; [|exact G']. specialize (Hp' ltac:(lra)). rewrite <- Hd in Hp'.
              destruct Fd as [E0|Rd]; [rewrite E0, rv_fzero in Hp'; lra|].
              destruct (rv_pos_neg _ Rd) as [[E1 _]|[_ P]]; [|lra]. rewrite E1. reflexivity.
  - (* both negative *)
    set (x := rv (Mpf 1 sman sexp sbc)) in *. set (y := rv (Mpf 1 tman texp tbc)) in *.
    assert (Hx : x = (- F2R (Float radix2 sman sexp))%R) by (unfold x, rv, sgn; simpl; ring).
    assert (Hy : y = (- F2R (Float radix2 tman texp))%R) by (unfold y, rv, sgn; simpl; ring).
    destruct (Z.eqb_spec sexp texp) as [Ee|Ne].
    + subst texp. destruct (Z.eqb_spec sman tman) as [Em|Nm].
      * right; left. split; [reflexivity|]. rewrite Hx, Hy, Em. reflexivity.
      * destruct (Z.ltb_spec tman sman).
        -- left. split; [reflexivity|]. rewrite Hx, Hy. apply Ropp_lt_contravar. apply F2R_lt. lia.
        -- right; right. split; [reflexivity|]. rewrite Hx, Hy. apply Ropp_lt_contravar. apply F2R_lt. lia.
    + destruct (mpf_mag_spec _ Hs) as [ms [Hms [A1 A2]]]. destruct (mpf_mag_spec _ Ht) as [mt [Hmt [B1 B2]]].
      unfold mpf_mag in Hms, Hmt. cbn [mman mexp mbc] in *.
      destruct (Z.eqb_spec sman 0); [lia|]. destruct (Z.eqb_spec tman 0); [lia|]. injection Hms as <-. injection Hmt as <-.
      fold x in A1, A2. fold y in B1, B2. rewrite Rabs_left in A1, A2, B1, B2 by lra.
      destruct (Z.ltb_spec (sbc + sexp) (tbc + texp)) as [L|G].
      * right; right. split; [reflexivity|].
        assert (- x < - y)%R; [|lra]. apply Rlt_le_trans with (1 := A2). apply Rle_trans with (2 := B1). apply bpow_le. lia.
      * destruct (Z.ltb_spec (tbc + texp) (sbc + sexp)) as [L2|G2].
        -- left. split; [reflexivity|].
           assert (- y < - x)%R; [|lra]. apply Rlt_le_trans with (1 := B2). apply Rle_trans with (2 := A1). apply bpow_le. lia.
        -- set (delta := mpf_sub (Mpf 1 sman sexp sbc) (Mpf 1 tman texp tbc) 5 RF).
           assert (Hd : rv delta = RND RF 5 (x - y)) by (apply mpf_sub_round; [right; exact Hs|right; exact Ht|lia]).
           assert (Fd : fincanon delta) by (apply mpf_add_gen_fincanon; [right; exact Hs|right; exact Ht|lia]).
           assert (Hne : (x - y)%R <> 0%R).
           { intros E. assert (x = y) by lra. apply Ne.
             assert (Mpf 1 sman sexp sbc = Mpf 1 tman texp tbc); [|congruence].
             apply (regular_unique _ _ Hs Ht). cbn [msign mman mexp]. split; [reflexivity|].
             apply F2R_eq_Z. rewrite Hx, Hy in H. lra. }
           destruct (RND_floor_sign 5 (x - y) ltac:(lia) Hne) as [Hp' Hn'].
           destruct (Rtotal_order x y) as [L|[E|G']]; [|lra|].
           ++ left. split; [|exact L]. specialize (Hn' ltac:(lra)). rewrite <- Hd in Hn'.
              destruct Fd as [E0|Rd]; [rewrite E0, rv_fzero in Hn'; lra|].
              destruct (rv_pos_neg _ Rd) as [[_ P]|[E1 _]]; [lra|]. rewrite E1. reflexivity.
           ++ right; right. split; [|exact G']. specialize (Hp' ltac:(lra)). rewrite <- Hd in Hp'.
              destruct Fd as [E0|Rd]; [rewrite E0, rv_fzero in Hp'; lra|].
              destruct (rv_pos_neg _ Rd) as [[E1 _]|[_ P]]; [|lra]. rewrite E1. reflexivity.
Qed.

Lemma mpf_cmp_zero_l t : mpf_cmp fzero t = - mpf_sign t.
Proof. destruct t; reflexivity. Qed.

Lemma mpf_cmp_zero_r s : regular s -> mpf_cmp s fzero = mpf_sign s.
Proof.
  intros Hs. pose proof (regular_not_fzero s Hs) as E. destruct s as [a b c d]. unfold mpf_cmp.
  cbn [fzero mman Z.eqb]. rewrite orb_true_r. rewrite E. reflexivity.
Qed.

Theorem mpf_cmp_spec s t : fincanon s -> fincanon t -> cmp_ok (mpf_cmp s t) (rv s) (rv t).
Proof.
  intros [->|Hs] [->|Ht].
  - right; left. split; reflexivity.
  - rewrite mpf_cmp_zero_l, mpf_sign_regular by exact Ht. rewrite rv_fzero.
    destruct (rv_pos_neg _ Ht) as [[E P]|[E P]]; rewrite E; cbn [Z.eqb Z.opp].
    + left. split; [reflexivity|exact P]. + right; right. split; [reflexivity|exact P].
  - rewrite mpf_cmp_zero_r, mpf_sign_regular by exact Hs. rewrite rv_fzero.
    destruct (rv_pos_neg _ Hs) as [[E P]|[E P]]; rewrite E; cbn [Z.eqb].
    + right; right. split; [reflexivity|exact P]. + left. split; [reflexivity|exact P].
  - apply mpf_cmp_regular; assumption.
Qed.

(* the boolean comparisons *)
Lemma not_nan_fincanon x : fincanon x -> mpf_eqb x fnan = false.
Proof.
  intros [->|[_ [H _]]]; [reflexivity|]. apply Bool.not_true_is_false. rewrite mpf_eqb_eq. intros ->. simpl in H. lia.
Qed.

Theorem mpf_lt_spec s t : fincanon s -> fincanon t -> (mpf_lt s t = true <-> (rv s < rv t)%R).
Proof.
  intros Hs Ht. unfold mpf_lt. rewrite !not_nan_fincanon by assumption. cbn [orb].
  destruct (mpf_cmp_spec s t Hs Ht) as [[-> H]|[[-> H]|[-> H]]]; cbn; split; intros; try lra; try discriminate; auto.
Qed.
Theorem mpf_le_spec s t : fincanon s -> fincanon t -> (mpf_le s t = true <-> (rv s <= rv t)%R).
Proof.
  intros Hs Ht. unfold mpf_le. rewrite !not_nan_fincanon by assumption. cbn [orb].
  destruct (mpf_cmp_spec s t Hs Ht) as [[-> H]|[[-> H]|[-> H]]]; cbn; split; intros; try lra; try discriminate; auto.
Qed.
Theorem mpf_gt_spec s t : fincanon s -> fincanon t -> (mpf_gt s t = true <-> (rv t < rv s)%R).
Proof.
  intros Hs Ht. unfold mpf_gt. rewrite !not_nan_fincanon by assumption. cbn [orb].
  destruct (mpf_cmp_spec s t Hs Ht) as [[-> H]|[[-> H]|[-> H]]]; cbn; split; intros; try lra; try discriminate; auto.
Qed.
Theorem mpf_ge_spec s t : fincanon s -> fincanon t -> (mpf_ge s t = true <-> (rv t <= rv s)%R).
Proof.
  intros Hs Ht. unfold mpf_ge. rewrite !not_nan_fincanon by assumption. cbn [orb].
  destruct (mpf_cmp_spec s t Hs Ht) as [[-> H]|[[-> H]|[-> H]]]; cbn; split; intros; try lra; try discriminate; auto.
Qed.

(* nan is unordered *)
Theorem mpf_cmp_nan_false s : mpf_lt fnan s = false /\ mpf_le fnan s = false /\ mpf_gt fnan s = false /\ mpf_ge fnan s = false /\
  mpf_lt s fnan = false /\ mpf_le s fnan = false /\ mpf_gt s fnan = false /\ mpf_ge s fnan = false /\ mpf_eq fnan s = false /\ mpf_eq s fnan = false.
Proof.
  unfold mpf_lt, mpf_le, mpf_gt, mpf_ge, mpf_eq.
  assert (mpf_eqb fnan fnan = true) as E by reflexivity. rewrite E. cbn [orb]. rewrite !orb_true_r.
  repeat split; try reflexivity; cbn [fnan mman Z.eqb orb]; rewrite ?orb_true_r; reflexivity.
Qed.
