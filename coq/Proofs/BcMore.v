(* BcMore.v — C10/C01 closure for mpf_mod and mpf_pow_int: results are finite canonical tuples with at most prec bits. *)
From Coq Require Import ZArith Reals Bool Lia Lra.
From Flocq Require Import Core.
From MP Require Import Algo.Base Algo.Libmpf Spec.Mpf Spec.Round Proofs.Bits Proofs.Normalize Proofs.NormRound Proofs.Ops
  Proofs.Format Proofs.Fin Proofs.DivRound Proofs.ModRound Proofs.Pow.
Open Scope Z_scope.

Lemma mpf_mod_fincanon s t prec r y : fincanon s -> regular t -> 0 < prec -> mpf_mod s t prec r = Ok y -> fincanon y.
Proof.
  intros Hs Ht Hp. unfold mpf_mod.
  rewrite (fincanon_not_special s Hs), (fincanon_not_special t (regular_fincanon t Ht)). cbn [orb].
  destruct s as [ssign sman sexp sbc], t as [tsign tman texp tbc].
  destruct (_ && _); [intros [= <-]; apply mpf_pos_fincanon; auto; lia|].
  destruct (_ && _); [intros [= <-]; left; reflexivity|].
  cbv zeta. destruct (_ =? 0); [discriminate|]. intros [= <-].
  apply normalize_fincanon; auto; try lia; try (destruct (0 <=? _); auto); try apply Z.abs_nonneg.
Qed.

Theorem mpf_mod_bc_le s t prec r y : fincanon s -> regular t -> 0 < prec -> mpf_mod s t prec r = Ok y -> mbc y <= prec.
Proof.
  intros Hs Ht Hp E. destruct (mpf_mod_round s t prec r Hs Ht Hp) as [y' [E' V]].
  rewrite E in E'. injection E' as <-.
  eapply rounded_bc_le; eauto. eapply mpf_mod_fincanon; eauto.
Qed.

Theorem mpf_pow_int_pos_bc_le s n prec r : regular s -> 0 < prec -> mbc (mpf_pow_int_pos s n prec r) <= prec.
Proof.
  intros Hs Hp. destruct (mpf_pow_int_pos_regular s n prec r Hs Hp) as [R _].
  destruct (mpf_pow_int_pos_cases s n prec r Hs Hp) as [E|[_ [_ [_ [_ E]]]]].
  - eapply rounded_bc_le; eauto. right; exact R.
  - destruct (pow_general_side s n prec r Hs Hp) as [c [_ [V _]]]. rewrite <- E in V.
    eapply rounded_bc_le; eauto. right; exact R.
Qed.

Theorem mpf_pow_int_neg_bc_le s p prec r y : regular s -> 0 < prec -> mpf_pow_int s (Zneg p) prec r = Ok y ->
  fincanon y /\ mbc y <= prec.
Proof.
  intros Hs Hp. unfold mpf_pow_int. rewrite (fincanon_not_special _ (regular_fincanon _ Hs)).
  destruct (Z.eqb_spec (Zpos p) 1).
  - intros E. split; [eapply div_fincanon; eauto; apply fincanon_fone|eapply mpf_div_bc_le; eauto; apply fincanon_fone].
  - destruct (mpf_pow_int_pos_regular s p (prec + 5) (reciprocal_rnd r) Hs ltac:(lia)) as [Ri _].
    intros E. split; [eapply div_fincanon; eauto; apply fincanon_fone|eapply mpf_div_bc_le; eauto; apply fincanon_fone].
Qed.
