(* Canon.v — C01: closure of canonical values under the modelled operations, and uniqueness of
   the canonical representation.  Pure Z, no axioms. *)
From Coq Require Import ZArith List Bool Lia.
From MP Require Import Algo.Base Algo.Libmpf Spec.Mpf Proofs.Bits Proofs.Normalize.
Open Scope Z_scope.

Lemma canonical_consts : canonical fzero /\ canonical fnan /\ canonical finf /\ canonical fninf.
Proof. unfold canonical; auto 10. Qed.

Lemma canon_fzero : canonical fzero. Proof. apply canonical_consts. Qed.
Lemma canon_fnan : canonical fnan. Proof. apply canonical_consts. Qed.
Lemma canon_finf : canonical finf. Proof. apply canonical_consts. Qed.
Lemma canon_fninf : canonical fninf. Proof. apply canonical_consts. Qed.
#[export] Hint Resolve canon_fzero canon_fnan canon_finf canon_fninf : canon.

Theorem normalize_canonical sign man exp bc prec r :
  (sign = 0 \/ sign = 1) -> 0 <= man -> bc = bitcount man -> 0 < prec ->
  canonical (normalize sign man exp bc prec r).
Proof. intros. apply fincanon_canonical, normalize_fincanon; auto. Qed.

Theorem normalize1_canonical sign man exp bc prec r :
  (sign = 0 \/ sign = 1) -> 0 <= man -> (man = 0 \/ Z.odd man = true) -> bc = bitcount man -> 0 < prec ->
  canonical (normalize1 sign man exp bc prec r).
Proof. intros. apply fincanon_canonical, normalize1_fincanon; auto. Qed.

Theorem from_man_exp_canonical man exp prec r : 0 <= prec -> canonical (from_man_exp man exp prec r).
Proof. intros. apply fincanon_canonical, from_man_exp_fincanon; auto. Qed.

(* normalize with "prec or bc" *)
Lemma normalize_por sign man exp prec r :
  (sign = 0 \/ sign = 1) -> 0 <= man -> 0 <= prec ->
  canonical (normalize sign man exp (bitcount man) (prec_or prec (bitcount man)) r).
Proof.
  intros Hs Hm Hp. destruct (Z.eq_dec man 0) as [->|Hne]; [unfold normalize; simpl; auto with canon|].
  apply normalize_canonical; auto. unfold prec_or.
  pose proof (bitcount_pos man ltac:(lia)). destruct (Z.eqb_spec prec 0); lia.
Qed.

Lemma normalize1_por sign man exp prec r :
  (sign = 0 \/ sign = 1) -> 0 <= man -> (man = 0 \/ Z.odd man = true) -> 0 <= prec ->
  canonical (normalize1 sign man exp (bitcount man) (prec_or prec (bitcount man)) r).
Proof.
  intros Hs Hm Ho Hp. destruct (Z.eq_dec man 0) as [->|Hne]; [unfold normalize1; simpl; auto with canon|].
  apply normalize1_canonical; auto. unfold prec_or.
  pose proof (bitcount_pos man ltac:(lia)). destruct (Z.eqb_spec prec 0); lia.
Qed.

(* ---------------------------------------------------------------- uniqueness *)

Lemma odd_times_pow2_unique m1 m2 k1 k2 :
  Z.odd m1 = true -> Z.odd m2 = true -> 0 <= k1 -> 0 <= k2 -> m1 * 2 ^ k1 = m2 * 2 ^ k2 -> k1 = k2 /\ m1 = m2.
Proof.
  intros O1 O2 H1 H2 E.
  assert (forall a b j, Z.odd a = true -> Z.odd b = true -> 0 < j -> a = b * 2 ^ j -> False) as Hpar.
  { intros a b j Oa Ob Hj Hab. subst a. rewrite Z.odd_mul, Z.odd_pow, andb_false_r in Oa by lia. discriminate. }
  destruct (Z.lt_trichotomy k1 k2) as [L|[Eq|G]].
  - exfalso. replace k2 with (k1 + (k2 - k1)) in E by lia. rewrite Z.pow_add_r in E by lia.
    assert (0 < 2 ^ k1) by (apply Z.pow_pos_nonneg; lia).
    apply (Hpar m1 m2 (k2 - k1)); auto; nia.
  - subst k2. split; [reflexivity|]. assert (0 < 2 ^ k1) by (apply Z.pow_pos_nonneg; lia). nia.
  - exfalso. replace k1 with (k2 + (k1 - k2)) in E by lia. rewrite Z.pow_add_r in E by lia.
    assert (0 < 2 ^ k2) by (apply Z.pow_pos_nonneg; lia).
    apply (Hpar m2 m1 (k1 - k2)); auto; nia.
Qed.

Theorem regular_unique x y : regular x -> regular y ->
  (msign x = msign y /\ mman x * 2 ^ (mexp x - Z.min (mexp x) (mexp y)) = mman y * 2 ^ (mexp y - Z.min (mexp x) (mexp y)))
  <-> x = y.
Proof.
  intros [X1 [X2 [X3 X4]]] [Y1 [Y2 [Y3 Y4]]]. split.
  - intros [Es Ev].
    assert (K1 : 0 <= mexp x - Z.min (mexp x) (mexp y)) by lia.
    assert (K2 : 0 <= mexp y - Z.min (mexp x) (mexp y)) by lia.
    destruct (odd_times_pow2_unique _ _ _ _ X3 Y3 K1 K2 Ev) as [Ek Em].
    destruct x as [s1 m1 e1 b1], y as [s2 m2 e2 b2]; cbn [msign mman mexp mbc] in *.
    assert (e1 = e2) by lia. subst. reflexivity.
  - intros ->. split; reflexivity.
Qed.

(* ---------------------------------------------------------------- pos/neg/abs *)

Ltac canon_special H :=
  destruct H as [->|[->|[->|[->|H]]]].

Lemma regular_nonzero x : regular x -> (mman x =? 0) = false.
Proof. intros [_ [H _]]. destruct (Z.eqb_spec (mman x) 0); [lia|reflexivity]. Qed.

Lemma regular_not_special x : regular x -> is_special x = false.
Proof. intros H. unfold is_special. rewrite regular_nonzero by exact H. reflexivity. Qed.

Lemma canonical_nonzero_regular x : canonical x -> mman x <> 0 -> regular x.
Proof. intros [->|[->|[->|[->|H]]]] N; cbn in N; try lia; assumption. Qed.

Theorem pos_neg_abs_canonical s prec r : canonical s -> 0 <= prec ->
  canonical (mpf_pos s prec r) /\ canonical (mpf_neg s prec r) /\ canonical (mpf_abs s prec r).
Proof.
  intros Hs Hp. unfold mpf_pos, mpf_neg, mpf_abs.
  destruct (Z.eqb_spec prec 0) as [->|Hne].
  - canon_special Hs; try solve [cbn; auto 10 with canon].
    destruct s as [sg m e b]. rewrite regular_not_special by exact Hs.
    pose proof (regular_nonzero _ Hs) as Hz. cbn [mman] in Hz. rewrite Hz.
    destruct Hs as [S1 [S2 [S3 S4]]]; cbn [msign mman mexp mbc] in *.
    assert (regular (Mpf sg m e b)) by (unfold regular; cbn; auto).
    repeat split; try (right; right; right; right; assumption).
    + right; right; right; right. unfold regular; cbn [msign mman mexp mbc]. repeat split; auto; lia.
    + destruct (sg =? 0); right; right; right; right; [assumption|]. unfold regular; cbn; auto.
  - canon_special Hs; try solve [cbn; auto 10 with canon].
    destruct s as [sg m e b]. rewrite regular_not_special by exact Hs.
    pose proof (regular_nonzero _ Hs) as Hz. cbn [mman] in Hz. rewrite Hz.
    destruct Hs as [S1 [S2 [S3 S4]]]; cbn [msign mman mexp mbc] in *.
    repeat split; apply normalize1_canonical; auto; lia.
Qed.

(* ---------------------------------------------------------------- multiplication *)

Lemma mul_special_const s t : canonical (mul_special s t).
Proof.
  unfold mul_special.
  repeat match goal with |- context [if ?c then _ else _] => destruct c end; auto with canon.
Qed.

Lemma lxor_bit a b : (a = 0 \/ a = 1) -> (b = 0 \/ b = 1) -> Z.lxor a b = 0 \/ Z.lxor a b = 1.
Proof. intros [-> | ->] [-> | ->]; simpl; auto. Qed.

Lemma mul_bitcount a b : 0 < a -> 0 < b ->
  let bc := bitcount a + bitcount b - 1 in bc + Z.shiftr (a * b) bc = bitcount (a * b).
Proof.
  intros Ha Hb bc.
  pose proof (bitcount_spec a Ha) as [A1 A2]. pose proof (bitcount_spec b Hb) as [B1 B2].
  pose proof (bitcount_pos a Ha). pose proof (bitcount_pos b Hb).
  assert (Hlo : 2 ^ (bc - 1) <= a * b).
  { unfold bc. replace (bitcount a + bitcount b - 1 - 1) with ((bitcount a - 1) + (bitcount b - 1)) by lia.
    rewrite Z.pow_add_r by lia.
    assert (0 < 2 ^ (bitcount a - 1)) by (apply Z.pow_pos_nonneg; lia).
    assert (0 < 2 ^ (bitcount b - 1)) by (apply Z.pow_pos_nonneg; lia). nia. }
  assert (Hhi : a * b < 2 ^ (bc + 1)).
  { unfold bc. replace (bitcount a + bitcount b - 1 + 1) with (bitcount a + bitcount b) by lia.
    rewrite Z.pow_add_r by lia. nia. }
  assert (Hbc : 0 <= bc) by (unfold bc; lia).
  rewrite Z.shiftr_div_pow2 by lia.
  assert (Hp : 0 < 2 ^ bc) by (apply Z.pow_pos_nonneg; lia).
  destruct (Z_lt_le_dec (a * b) (2 ^ bc)) as [L|G].
  - rewrite Z.div_small by nia. rewrite Z.add_0_r. symmetry. apply bitcount_unique; [nia|lia].
  - assert (a * b / 2 ^ bc = 1) as ->.
    { symmetry. apply Z.div_unique with (r := a * b - 2 ^ bc); [|lia].
      replace (2 ^ (bc + 1)) with (2 * 2 ^ bc) in Hhi by (rewrite Z.pow_add_r by lia; ring). lia. }
    symmetry. apply bitcount_unique; [nia|]. replace (bc + 1 - 1) with bc by lia. lia.
Qed.

Theorem python_mpf_mul_canonical s t prec r : canonical s -> canonical t -> 0 <= prec ->
  canonical (python_mpf_mul s t prec r).
Proof.
  intros Hs Ht Hp. unfold python_mpf_mul.
  destruct (Z.eqb_spec (mman s * mman t) 0) as [E|E]; cbn [negb]; [apply mul_special_const|].
  assert (Rs : regular s) by (apply canonical_nonzero_regular; auto; nia).
  assert (Rt : regular t) by (apply canonical_nonzero_regular; auto; nia).
  destruct Rs as [S1 [S2 [S3 S4]]]. destruct Rt as [T1 [T2 [T3 T4]]].
  rewrite S4, T4. rewrite mul_bitcount by assumption.
  destruct (Z.eqb_spec prec 0); cbn [negb].
  - right; right; right; right. unfold regular; cbn [msign mman mexp mbc]. repeat split; try nia.
    + apply lxor_bit; auto.
    + rewrite Z.odd_mul, S3, T3. reflexivity.
  - apply normalize1_canonical; auto; try nia.
    + apply lxor_bit; auto.
    + right. rewrite Z.odd_mul, S3, T3. reflexivity.
Qed.

(* ---------------------------------------------------------------- addition *)

Lemma odd_add_shift a b k : Z.odd a = true -> 0 < k -> Z.odd (a + Z.shiftl b k) = true.
Proof.
  intros Ha Hk. rewrite Z.shiftl_mul_pow2 by lia.
  replace k with (1 + (k - 1)) by lia. rewrite Z.pow_add_r by lia. change (2 ^ 1) with 2.
  replace (a + b * (2 * 2 ^ (k - 1))) with (a + 2 * (b * 2 ^ (k - 1))) by ring.
  rewrite Z.odd_add_mul_2. exact Ha.
Qed.

Lemma odd_sub_shift a b k : Z.odd a = true -> 0 < k -> Z.odd (Z.shiftl b k - a) = true /\ Z.odd (a - Z.shiftl b k) = true.
Proof.
  intros Ha Hk. rewrite Z.shiftl_mul_pow2 by lia.
  replace k with (1 + (k - 1)) by lia. rewrite Z.pow_add_r by lia. change (2 ^ 1) with 2.
  split.
  - replace (b * (2 * 2 ^ (k - 1)) - a) with (- a + 2 * (b * 2 ^ (k - 1))) by ring.
    rewrite Z.odd_add_mul_2, Z.odd_opp. exact Ha.
  - replace (a - b * (2 * 2 ^ (k - 1))) with (a + 2 * (- (b * 2 ^ (k - 1)))) by ring.
    rewrite Z.odd_add_mul_2. exact Ha.
Qed.

Lemma odd_abs a : Z.odd (Z.abs a) = Z.odd a.
Proof. destruct a; reflexivity. Qed.

Lemma odd_shift_pm1 a k : 0 < k -> Z.odd (Z.shiftl a k + 1) = true /\ Z.odd (Z.shiftl a k - 1) = true.
Proof.
  intros Hk. rewrite Z.shiftl_mul_pow2 by lia.
  replace k with (1 + (k - 1)) by lia. rewrite Z.pow_add_r by lia. change (2 ^ 1) with 2. split.
  - replace (a * (2 * 2 ^ (k - 1)) + 1) with (1 + 2 * (a * 2 ^ (k - 1))) by ring. rewrite Z.odd_add_mul_2. reflexivity.
  - replace (a * (2 * 2 ^ (k - 1)) - 1) with (-1 + 2 * (a * 2 ^ (k - 1))) by ring. rewrite Z.odd_add_mul_2. reflexivity.
Qed.

Lemma shiftl_pos a k : 0 < a -> 0 <= k -> 0 < Z.shiftl a k.
Proof. intros. rewrite Z.shiftl_mul_pow2 by lia. assert (0 < 2 ^ k) by (apply Z.pow_pos_nonneg; lia). nia. Qed.

Lemma sign_ite (c : bool) : (if c then 0 else 1) = 0 \/ (if c then 0 else 1) = 1.
Proof. destruct c; auto. Qed.

Lemma flip_bit (b : bool) a : (a = 0 \/ a = 1) -> (if b then 1 - a else a) = 0 \/ (if b then 1 - a else a) = 1.
Proof. intros [-> | ->]; destruct b; simpl; auto. Qed.

(* both operands regular *)
Lemma add_regular_canonical s t prec r sub : regular s -> regular t -> 0 <= prec ->
  canonical (mpf_add_gen s t prec r sub).
Proof.
  intros [S1 [S2 [S3 S4]]] [T1 [T2 [T3 T4]]] Hp.
  destruct s as [ssign sman sexp sbc], t as [tsign0 tman texp tbc]; cbn [msign mman mexp mbc] in *.
  unfold mpf_add_gen.
  set (tsign := if sub then 1 - tsign0 else tsign0).
  assert (Ts : tsign = 0 \/ tsign = 1) by (apply flip_bit; auto).
  destruct (Z.eqb_spec sman 0); [lia|]. destruct (Z.eqb_spec tman 0); [lia|]. cbn [negb andb].
  destruct (Z.ltb_spec 0 (sexp - texp)) as [Hoff|Hoff].
  - (* s has the larger exponent *)
    destruct ((100 <? sexp - texp) && negb (prec =? 0) && (prec + 4 <? sbc + sexp - tbc - texp) && (tbc <=? sexp - texp)) eqn:Hc.
    + (* perturbation *)
      apply andb_prop in Hc as [Hc _]. apply andb_prop in Hc as [Hc _]. apply andb_prop in Hc as [_ Hc].
      destruct (Z.eqb_spec prec 0); [discriminate|].
      destruct (odd_shift_pm1 sman (prec + 4) ltac:(lia)) as [O1 O2].
      pose proof (shiftl_pos sman (prec + 4) S2 ltac:(lia)).
      destruct (tsign =? ssign); apply normalize1_canonical; auto; lia.
    + destruct (ssign =? tsign).
      * apply normalize1_por; auto.
        -- pose proof (shiftl_pos sman (sexp - texp) S2 ltac:(lia)). lia.
        -- right. apply odd_add_shift; auto.
      * apply normalize1_por; auto; try apply sign_ite; try lia.
        right. rewrite odd_abs. destruct (odd_sub_shift tman sman (sexp - texp) T3 Hoff).
        destruct (ssign =? 0); assumption.
  - destruct (Z.ltb_spec (sexp - texp) 0) as [Hoff2|Hoff2].
    + destruct ((sexp - texp <? -100) && negb (prec =? 0) && (prec + 4 <? tbc + texp - sbc - sexp) && (sbc <=? - (sexp - texp))) eqn:Hc.
      * apply andb_prop in Hc as [Hc _]. apply andb_prop in Hc as [Hc _]. apply andb_prop in Hc as [_ Hc].
        destruct (Z.eqb_spec prec 0); [discriminate|].
        destruct (odd_shift_pm1 tman (prec + 4) ltac:(lia)) as [O1 O2].
        pose proof (shiftl_pos tman (prec + 4) T2 ltac:(lia)).
        destruct (ssign =? tsign); apply normalize1_canonical; auto; lia.
      * destruct (ssign =? tsign).
        -- apply normalize1_por; auto.
           ++ pose proof (shiftl_pos tman (- (sexp - texp)) T2 ltac:(lia)). lia.
           ++ right. apply odd_add_shift; auto. lia.
        -- apply normalize1_por; auto; try apply sign_ite; try lia.
           right. rewrite odd_abs. destruct (odd_sub_shift sman tman (- (sexp - texp)) S3 ltac:(lia)).
           destruct (tsign =? 0); assumption.
    + (* equal exponents *)
      destruct (ssign =? tsign).
      * apply normalize_por; auto; lia.
      * apply normalize_por; auto; try apply sign_ite; lia.
Qed.

Lemma mpf_neg_exact_canonical t : canonical t -> canonical (mpf_neg t 0 RD).
Proof. intros H. apply (pos_neg_abs_canonical t 0 RD H ltac:(lia)). Qed.

Theorem mpf_add_gen_canonical s t prec r sub : canonical s -> canonical t -> 0 <= prec ->
  canonical (mpf_add_gen s t prec r sub).
Proof.
  intros Hs Ht Hp.
  destruct (Z.eq_dec (mman s) 0) as [Zs|Ns]; [|destruct (Z.eq_dec (mman t) 0) as [Zt|Nt]].
  3:{ apply add_regular_canonical; auto; apply canonical_nonzero_regular; auto. }
  - (* s zero or special *)
    unfold mpf_add_gen. destruct s as [ssign sman sexp sbc], t as [tsign0 tman texp tbc].
    cbn [mman] in Zs. subst sman. cbn [Z.eqb negb andb].
    pose proof (mpf_neg_exact_canonical _ Ht) as Hn.
    set (t' := if sub then mpf_neg (Mpf tsign0 tman texp tbc) 0 RD else Mpf tsign0 tman texp tbc).
    assert (Ht' : canonical t') by (unfold t'; destruct sub; assumption).
    destruct (negb (sexp =? 0)).
    + match goal with |- context [if ?c then _ else _] => destruct c end; auto with canon.
    + destruct (Z.eqb_spec tman 0); cbn [negb]; [assumption|].
      assert (Rt : regular (Mpf tsign0 tman texp tbc)) by (apply canonical_nonzero_regular; auto).
      destruct Rt as [T1 [T2 [T3 T4]]]; cbn [msign mman mexp mbc] in *. subst tbc.
      apply normalize1_por; auto; try lia. apply flip_bit; auto.
  - (* s regular, t zero or special *)
    unfold mpf_add_gen. destruct s as [ssign sman sexp sbc], t as [tsign0 tman texp tbc].
    cbn [mman] in *. subst tman.
    destruct (Z.eqb_spec sman 0); [lia|]. cbn [Z.eqb negb andb].
    pose proof (mpf_neg_exact_canonical _ Ht) as Hn.
    destruct (negb (texp =? 0)); [destruct sub; assumption|].
    assert (Rs : regular (Mpf ssign sman sexp sbc)) by (apply canonical_nonzero_regular; auto).
    destruct Rs as [S1 [S2 [S3 S4]]]; cbn [msign mman mexp mbc] in *. subst sbc.
    apply normalize1_por; auto; lia.
Qed.

Theorem mpf_add_canonical s t prec r : canonical s -> canonical t -> 0 <= prec -> canonical (mpf_add s t prec r).
Proof. intros. apply mpf_add_gen_canonical; auto. Qed.
Theorem mpf_sub_canonical s t prec r : canonical s -> canonical t -> 0 <= prec -> canonical (mpf_sub s t prec r).
Proof. intros. apply mpf_add_gen_canonical; auto. Qed.

(* ---------------------------------------------------------------- division, sqrt *)

Theorem mpf_div_canonical s t prec r y : canonical s -> canonical t -> 0 < prec ->
  mpf_div s t prec r = Ok y -> canonical y.
Proof.
  intros Hs Ht Hp. unfold mpf_div.
  destruct s as [ssign sman sexp sbc], t as [tsign tman texp tbc].
  destruct ((sman =? 0) || (tman =? 0)) eqn:Hz.
  - repeat match goal with |- context [if ?c then _ else _] => destruct c end;
      intros H; inversion H; subst; auto with canon.
  - apply orb_false_elim in Hz as [Z1 Z2].
    assert (Rs : regular (Mpf ssign sman sexp sbc)).
    { apply canonical_nonzero_regular; auto. cbn [mman]. destruct (Z.eqb_spec sman 0); [discriminate|auto]. }
    assert (Rt : regular (Mpf tsign tman texp tbc)).
    { apply canonical_nonzero_regular; auto. cbn [mman]. destruct (Z.eqb_spec tman 0); [discriminate|auto]. }
    destruct Rs as [S1 [S2 [S3 S4]]]. destruct Rt as [T1 [T2 [T3 T4]]]. cbn [msign mman mexp mbc] in *.
    pose proof (lxor_bit _ _ S1 T1) as Hx.
    destruct (tman =? 1).
    + intros [= <-]. apply normalize1_canonical; auto; lia.
    + set (extra := if prec - sbc + tbc + 5 <? 5 then 5 else prec - sbc + tbc + 5).
      assert (He : 0 <= extra) by (unfold extra; destruct (Z.ltb_spec (prec - sbc + tbc + 5) 5); lia).
      pose proof (shiftl_pos sman extra S2 He) as Hn.
      assert (Hq : 0 <= Z.shiftl sman extra / tman) by (apply Z.div_pos; lia).
      destruct (Z.shiftl sman extra mod tman =? 0); cbn [negb];
        intros [= <-].
      * apply normalize_canonical; auto.
      * destruct (odd_shift_pm1 (Z.shiftl sman extra / tman) 1 ltac:(lia)) as [O1 _].
        apply normalize1_canonical; auto.
        clear O1. destruct (Z.shiftl sman extra / tman); lia.
Qed.

Theorem mpf_sqrt_canonical s prec r y : canonical s -> 0 < prec ->
  mpf_sqrt s prec r = Ok y -> canonical y.
Proof.
  intros Hs Hp. unfold mpf_sqrt. destruct s as [sign man exp bc].
  destruct (negb (sign =? 0)); [discriminate|].
  destruct (Z.eqb_spec man 0); [intros H; inversion H; subst; exact Hs|].
  assert (Rs : regular (Mpf sign man exp bc)) by (apply canonical_nonzero_regular; auto).
  destruct Rs as [S1 [S2 [S3 S4]]]; cbn [msign mman mexp mbc] in *.
  destruct (negb (Z.odd exp) && (man =? 1)) eqn:H1.
  - intros [= <-]. apply normalize1_canonical; auto; lia.
  - destruct (if Z.odd exp then (Z.shiftl man 1, exp - 1, bc + 1) else (man, exp, bc)) as [[m e] b].
    destruct r; try destruct (Z.sqrtrem _) as [q rem]; try destruct (negb (rem =? 0));
      intros [= <-]; apply from_man_exp_canonical; lia.
Qed.
