(* AddRound.v — mpf_add / mpf_sub return the correctly rounded sum (C02), including the far-apart-exponent
   perturbation shortcut (after the fix requiring the small operand to lie below the lowest bit of the large one). *)
From Coq Require Import ZArith Reals Bool Lia Lra.
From Flocq Require Import Core.
From MP Require Import Algo.Base Algo.Libmpf Spec.Mpf Spec.Round Proofs.Bits Proofs.Normalize Proofs.Canon
  Proofs.NormRound Proofs.Ops Proofs.Sticky.
Open Scope Z_scope.

Lemma F2R_split m e k : (F2R (Float radix2 m e) = IZR m * bpow radix2 (e - k) * bpow radix2 k)%R.
Proof. unfold F2R; simpl Fnum; simpl Fexp. rewrite Rmult_assoc, <- bpow_plus. f_equal. f_equal. lia. Qed.

Lemma small_below tman tbc texp k : 0 < tman -> tbc = bitcount tman -> tbc + texp <= k ->
  (0 < IZR tman * bpow radix2 (texp - k) < 1)%R.
Proof.
  intros Ht Hb Hk. pose proof (bitcount_spec tman Ht) as [_ B2]. rewrite <- Hb in B2.
  pose proof (bitcount_pos tman Ht).
  split; [apply Rmult_lt_0_compat; [apply IZR_lt; lia|apply bpow_gt_0]|].
  apply Rlt_le_trans with (bpow radix2 tbc * bpow radix2 (texp - k))%R.
  - apply Rmult_lt_compat_r; [apply bpow_gt_0|]. rewrite <- IZR_pow2 by lia. apply IZR_lt. exact B2.
  - rewrite <- bpow_plus. change 1%R with (bpow radix2 0). apply bpow_le. lia.
Qed.

(* the perturbation shortcut is a correct rounding of the exact sum/difference *)
Lemma add_perturb ssign sman sexp sbc tman texp tbc p r (same : bool) :
  (ssign = 0 \/ ssign = 1) -> 0 < sman -> sbc = bitcount sman -> 0 < tman -> tbc = bitcount tman ->
  0 < p -> p + 4 < sbc + sexp - tbc - texp -> tbc + texp <= sexp ->
  RND r p (sgn ssign * (F2R (Float radix2 sman sexp) + (if same then 1 else -1) * F2R (Float radix2 tman texp))) =
  RND r p (sval ssign (if same then Z.shiftl sman (p + 4) + 1 else Z.shiftl sman (p + 4) - 1) (sexp - (p + 4))).
Proof.
  intros Hs Hsm Hsb Htm Htb Hp Hdelta Hbelow.
  pose proof (bitcount_pos sman Hsm) as Hsbp. rewrite <- Hsb in Hsbp.
  set (j := Z.max 0 (p + 2 - sbc)).
  set (N := sman * 2 ^ j). set (k := sexp - j).
  assert (Hj : 0 <= j) by (unfold j; lia).
  assert (Hjoff : j <= p + 1) by (unfold j; lia).
  assert (HN : 0 < N) by (unfold N; apply Z.mul_pos_pos; [lia|apply Z.pow_pos_nonneg; lia]).
  assert (HNb : bitcount N = sbc + j) by (unfold N; rewrite bitcount_mul_pow2 by lia; lia).
  assert (Hp2 : p + 2 <= bitcount N) by (rewrite HNb; unfold j; lia).
  assert (Htk : tbc + texp <= k) by (unfold k, j; lia).
  (* s = N * 2^k *)
  assert (HsN : F2R (Float radix2 sman sexp) = (IZR N * bpow radix2 k)%R).
  { unfold F2R; simpl Fnum; simpl Fexp. unfold N, k. rewrite mult_IZR, IZR_pow2 by lia.
    rewrite Rmult_assoc, <- bpow_plus. f_equal. f_equal. lia. }
  set (th := (IZR tman * bpow radix2 (texp - k))%R).
  assert (Hth : (0 < th < 1)%R) by (apply (small_below tman tbc texp k); auto).
  set (th' := bpow radix2 (j - (p + 4))).
  assert (Hth' : (0 < th' < 1)%R).
  { unfold th'. split; [apply bpow_gt_0|]. change 1%R with (bpow radix2 0). apply bpow_lt. lia. }
  (* the perturbed mantissa as (N +/- th') * 2^k *)
  assert (Hpert : forall sg : R, (F2R (Float radix2 (Z.shiftl sman (p + 4)) (sexp - (p + 4))) + sg * bpow radix2 (sexp - (p + 4)) =
                 (IZR N + sg * th') * bpow radix2 k)%R).
  { intros sg. unfold F2R; simpl Fnum; simpl Fexp. rewrite Z.shiftl_mul_pow2 by lia.
    rewrite mult_IZR, IZR_pow2 by lia. unfold N, th', k. rewrite mult_IZR, IZR_pow2 by lia.
    rewrite Rmult_plus_distr_r. f_equal.
    - rewrite !Rmult_assoc, <- !bpow_plus. f_equal. f_equal. lia.
    - rewrite Rmult_assoc, <- bpow_plus. f_equal. f_equal. lia. }
  destruct same.
  - (* same sign: (N + th) 2^k and (N + th') 2^k *)
    rewrite Rmult_1_l. rewrite HsN, (F2R_split tman texp k). fold th.
    replace (IZR N * bpow radix2 k + th * bpow radix2 k)%R with ((IZR N + th) * bpow radix2 k)%R by ring.
    rewrite (RND_sticky r p ssign N k th) by (auto; lia).
    unfold sval.
    replace (F2R (Float radix2 (Z.shiftl sman (p + 4) + 1) (sexp - (p + 4))))
      with (F2R (Float radix2 (Z.shiftl sman (p + 4)) (sexp - (p + 4))) + 1 * bpow radix2 (sexp - (p + 4)))%R.
    2:{ unfold F2R; simpl Fnum; simpl Fexp. rewrite plus_IZR. simpl (IZR 1). ring. }
    rewrite Hpert. rewrite Rmult_1_l.
    rewrite (RND_sticky r p ssign N k th') by (auto; lia). reflexivity.
  - (* opposite signs: (N - th) 2^k = ((N-1) + (1-th)) 2^k *)
    assert (HN1 : 0 < N - 1).
    { pose proof (bitcount_spec N HN) as [B1 _]. assert (2 ^ 1 <= 2 ^ (bitcount N - 1)) by (apply Z.pow_le_mono_r; lia).
      change (2 ^ 1) with 2 in H. lia. }
    assert (HN1b : p + 1 <= bitcount (N - 1)).
    { pose proof (bitcount_spec N HN) as [B1 _].
      assert (2 ^ (p + 1) <= 2 ^ (bitcount N - 1)) by (apply Z.pow_le_mono_r; lia).
      destruct (Z_lt_le_dec (bitcount (N - 1)) (p + 1)) as [L|]; [|lia]. exfalso.
      pose proof (bitcount_spec (N - 1) HN1) as [_ C2].
      assert (2 ^ bitcount (N - 1) <= 2 ^ p) by (apply Z.pow_le_mono_r; lia).
      assert (2 ^ (p + 1) = 2 * 2 ^ p) by (rewrite Z.pow_add_r by lia; ring).
      assert (0 < 2 ^ p) by (apply Z.pow_pos_nonneg; lia). lia. }
    rewrite HsN, (F2R_split tman texp k). fold th.
    replace (IZR N * bpow radix2 k + -1 * (th * bpow radix2 k))%R with ((IZR (N - 1) + (1 - th)) * bpow radix2 k)%R
      by (rewrite minus_IZR; simpl (IZR 1); ring).
    rewrite (RND_sticky r p ssign (N - 1) k (1 - th)) by (auto; lra || lia).
    unfold sval.
    replace (F2R (Float radix2 (Z.shiftl sman (p + 4) - 1) (sexp - (p + 4))))
      with (F2R (Float radix2 (Z.shiftl sman (p + 4)) (sexp - (p + 4))) + -1 * bpow radix2 (sexp - (p + 4)))%R.
    2:{ unfold F2R; simpl Fnum; simpl Fexp. rewrite minus_IZR. simpl (IZR 1). ring. }
    rewrite Hpert.
    replace ((IZR N + -1 * th') * bpow radix2 k)%R with ((IZR (N - 1) + (1 - th')) * bpow radix2 k)%R
      by (rewrite minus_IZR; simpl (IZR 1); ring).
    rewrite (RND_sticky r p ssign (N - 1) k (1 - th')) by (auto; lra || lia). reflexivity.
Qed.

(* ---------------------------------------------------------------- exact sums through normalize1 / normalize *)

Lemma norm1_por_value sign man exp prec r : (sign = 0 \/ sign = 1) -> 0 <= man -> 0 <= prec ->
  rv (normalize1 sign man exp (bitcount man) (prec_or prec (bitcount man)) r) =
  if prec =? 0 then sval sign man exp else RND r prec (sval sign man exp).
Proof.
  intros Hs Hm Hp. unfold prec_or. destruct (Z.eqb_spec prec 0) as [->|Hne].
  - unfold normalize1. destruct (Z.eqb_spec man 0) as [->|]; [rewrite rv_fzero, sval_0; reflexivity|].
    rewrite Z.leb_refl. reflexivity.
  - apply normalize1_round; auto; lia.
Qed.

Lemma norm_por_value sign man exp prec r : (sign = 0 \/ sign = 1) -> 0 <= man -> 0 <= prec ->
  rv (normalize sign man exp (bitcount man) (prec_or prec (bitcount man)) r) =
  if prec =? 0 then sval sign man exp else RND r prec (sval sign man exp).
Proof.
  intros Hs Hm Hp. unfold prec_or. destruct (Z.eqb_spec prec 0) as [->|Hne].
  - unfold normalize. destruct (Z.eqb_spec man 0) as [->|]; [rewrite rv_fzero, sval_0; reflexivity|].
    rewrite Z.sub_diag. cbn [Z.ltb Z.compare]. apply finish_rv. lia.
  - apply normalize_round; auto; lia.
Qed.

Definition rnd_or_exact (r : rnd) (prec : Z) (x : R) : R := if prec =? 0 then x else RND r prec x.

Lemma sval_signed_abs man exp :
  sval (if 0 <=? man then 0 else 1) (Z.abs man) exp = F2R (Float radix2 man exp).
Proof.
  unfold sval, sgn. destruct (Z.leb_spec 0 man).
  - cbn [Z.eqb]. rewrite Z.abs_eq by lia. ring.
  - cbn [Z.eqb]. rewrite Z.abs_neq by lia. rewrite F2R_Zopp. ring.
Qed.

Lemma F2R_shift_add a b e off : 0 <= off ->
  (F2R (Float radix2 (a + Z.shiftl b off) e) = F2R (Float radix2 a e) + F2R (Float radix2 b (e + off)))%R.
Proof.
  intros H. unfold F2R; simpl Fnum; simpl Fexp. rewrite Z.shiftl_mul_pow2 by lia.
  rewrite plus_IZR, mult_IZR, IZR_pow2 by lia. rewrite bpow_plus. ring.
Qed.

Lemma sgn_cases a : (a = 0 \/ a = 1) -> (sgn a = 1 \/ sgn a = -1)%R.
Proof. intros [-> | ->]; unfold sgn; simpl; auto. Qed.

Lemma sgn_neq a b : (a = 0 \/ a = 1) -> (b = 0 \/ b = 1) -> a <> b -> sgn b = (- sgn a)%R.
Proof. intros [-> | ->] [-> | ->] H; unfold sgn; simpl; try lia; lra. Qed.

(* both operands regular *)
Lemma add_regular_round s t prec r sub : regular s -> regular t -> 0 <= prec ->
  rv (mpf_add_gen s t prec r sub) =
  rnd_or_exact r prec (rv s + (if sub then -1 else 1) * rv t).
Proof.
  intros [S1 [S2 [S3 S4]]] [T1 [T2 [T3 T4]]] Hp.
  destruct s as [ssign sman sexp sbc], t as [tsign0 tman texp tbc]; cbn [msign mman mexp mbc] in *.
  unfold mpf_add_gen.
  set (tsign := if sub then 1 - tsign0 else tsign0).
  assert (Ts : tsign = 0 \/ tsign = 1) by (unfold tsign; destruct T1 as [-> | ->]; destruct sub; simpl; auto).
  assert (Hrt : ((if sub then -1 else 1) * rv (Mpf tsign0 tman texp tbc) = sgn tsign * F2R (Float radix2 tman texp))%R).
  { unfold rv, tsign; cbn [msign mman mexp]. destruct sub; [rewrite sgn_flip by auto|]; ring. }
  rewrite Hrt. unfold rv at 2; cbn [msign mman mexp].
  destruct (Z.eqb_spec sman 0); [lia|]. destruct (Z.eqb_spec tman 0); [lia|]. cbn [negb andb].
  unfold rnd_or_exact.
  destruct (Z.ltb_spec 0 (sexp - texp)) as [Hoff|Hoff].
  - (* sexp > texp *)
    destruct ((100 <? sexp - texp) && negb (prec =? 0) && (prec + 4 <? sbc + sexp - tbc - texp) && (tbc <=? sexp - texp)) eqn:Hc.
    + apply andb_prop in Hc as [Hc C4]. apply andb_prop in Hc as [Hc C3]. apply andb_prop in Hc as [C1 C2].
      destruct (Z.eqb_spec prec 0); [discriminate|]. apply Z.ltb_lt in C3. apply Z.leb_le in C4.
      assert (Hm0 : 0 < Z.shiftl sman (prec + 4)) by (apply shiftl_pos; lia).
      destruct (Z.eqb_spec tsign ssign) as [E|NE].
      * rewrite normalize1_round; auto; try lia.
        rewrite E. rewrite <- Rmult_plus_distr_l.
        pose proof (add_perturb ssign sman sexp sbc tman texp tbc prec r true S1 S2 S4 T2 T4 ltac:(lia) C3 ltac:(lia)) as H.
        cbv iota in H. rewrite Rmult_1_l in H. symmetry. exact H.
      * rewrite normalize1_round; auto; try lia.
        rewrite (sgn_neq ssign tsign) by auto.
        replace (sgn ssign * F2R (Float radix2 sman sexp) + - sgn ssign * F2R (Float radix2 tman texp))%R
          with (sgn ssign * (F2R (Float radix2 sman sexp) + -1 * F2R (Float radix2 tman texp)))%R by ring.
        pose proof (add_perturb ssign sman sexp sbc tman texp tbc prec r false S1 S2 S4 T2 T4 ltac:(lia) C3 ltac:(lia)) as H.
        cbv iota in H. symmetry. exact H.
    + clear Hc. destruct (Z.eqb_spec ssign tsign) as [E|NE].
      * rewrite norm1_por_value; auto.
        2:{ pose proof (shiftl_pos sman (sexp - texp) S2 ltac:(lia)). lia. }
        assert (Hv : sval ssign (tman + Z.shiftl sman (sexp - texp)) texp =
                     (sgn ssign * F2R (Float radix2 sman sexp) + sgn tsign * F2R (Float radix2 tman texp))%R).
        { unfold sval. rewrite F2R_shift_add by lia. replace (texp + (sexp - texp)) with sexp by lia. rewrite <- E. ring. }
        rewrite Hv. reflexivity.
      * rewrite norm1_por_value; auto; try apply sign_ite; try lia.
        assert (Hv : sval (if 0 <=? (if ssign =? 0 then Z.shiftl sman (sexp - texp) - tman else tman - Z.shiftl sman (sexp - texp)) then 0 else 1)
                       (Z.abs (if ssign =? 0 then Z.shiftl sman (sexp - texp) - tman else tman - Z.shiftl sman (sexp - texp))) texp =
                     (sgn ssign * F2R (Float radix2 sman sexp) + sgn tsign * F2R (Float radix2 tman texp))%R).
        { rewrite sval_signed_abs. rewrite (sgn_neq ssign tsign) by auto.
          destruct S1 as [-> | ->]; cbn [Z.eqb]; unfold sgn; cbn [Z.eqb].
          - replace (Z.shiftl sman (sexp - texp) - tman) with (- tman + Z.shiftl sman (sexp - texp)) by lia.
            rewrite F2R_shift_add by lia. replace (texp + (sexp - texp)) with sexp by lia. rewrite F2R_Zopp. ring.
          - replace (tman - Z.shiftl sman (sexp - texp)) with (tman + Z.shiftl (- sman) (sexp - texp))
              by (rewrite !Z.shiftl_mul_pow2 by lia; ring).
            rewrite F2R_shift_add by lia. replace (texp + (sexp - texp)) with sexp by lia. rewrite F2R_Zopp. ring. }
        rewrite Hv. reflexivity.
  - destruct (Z.ltb_spec (sexp - texp) 0) as [Hoff2|Hoff2].
    + (* texp > sexp *)
      destruct ((sexp - texp <? -100) && negb (prec =? 0) && (prec + 4 <? tbc + texp - sbc - sexp) && (sbc <=? - (sexp - texp))) eqn:Hc.
      * apply andb_prop in Hc as [Hc C4]. apply andb_prop in Hc as [Hc C3]. apply andb_prop in Hc as [C1 C2].
        destruct (Z.eqb_spec prec 0); [discriminate|]. apply Z.ltb_lt in C3. apply Z.leb_le in C4.
        assert (Hm0 : 0 < Z.shiftl tman (prec + 4)) by (apply shiftl_pos; lia).
        destruct (Z.eqb_spec ssign tsign) as [E|NE].
        -- rewrite normalize1_round; auto; try lia.
           rewrite E. rewrite <- Rmult_plus_distr_l. rewrite Rplus_comm.
           pose proof (add_perturb tsign tman texp tbc sman sexp sbc prec r true Ts T2 T4 S2 S4 ltac:(lia) C3 ltac:(lia)) as H.
           cbv iota in H. rewrite Rmult_1_l in H. symmetry. exact H.
        -- rewrite normalize1_round; auto; try lia.
           rewrite (sgn_neq tsign ssign) by auto.
           replace (- sgn tsign * F2R (Float radix2 sman sexp) + sgn tsign * F2R (Float radix2 tman texp))%R
             with (sgn tsign * (F2R (Float radix2 tman texp) + -1 * F2R (Float radix2 sman sexp)))%R by ring.
           pose proof (add_perturb tsign tman texp tbc sman sexp sbc prec r false Ts T2 T4 S2 S4 ltac:(lia) C3 ltac:(lia)) as H.
           cbv iota in H. symmetry. exact H.
      * clear Hc. destruct (Z.eqb_spec ssign tsign) as [E|NE].
        -- rewrite norm1_por_value; auto.
           2:{ pose proof (shiftl_pos tman (- (sexp - texp)) T2 ltac:(lia)). lia. }
           assert (Hv : sval ssign (sman + Z.shiftl tman (- (sexp - texp))) sexp =
                        (sgn ssign * F2R (Float radix2 sman sexp) + sgn tsign * F2R (Float radix2 tman texp))%R).
           { unfold sval. rewrite F2R_shift_add by lia. replace (sexp + - (sexp - texp)) with texp by lia. rewrite <- E. ring. }
           rewrite Hv. reflexivity.
        -- rewrite norm1_por_value; auto; try apply sign_ite; try lia.
           assert (Hv : sval (if 0 <=? (if tsign =? 0 then Z.shiftl tman (- (sexp - texp)) - sman else sman - Z.shiftl tman (- (sexp - texp))) then 0 else 1)
                          (Z.abs (if tsign =? 0 then Z.shiftl tman (- (sexp - texp)) - sman else sman - Z.shiftl tman (- (sexp - texp)))) sexp =
                        (sgn ssign * F2R (Float radix2 sman sexp) + sgn tsign * F2R (Float radix2 tman texp))%R).
           { rewrite sval_signed_abs. rewrite (sgn_neq tsign ssign) by auto.
             destruct Ts as [-> | ->]; cbn [Z.eqb]; unfold sgn; cbn [Z.eqb].
             - replace (Z.shiftl tman (- (sexp - texp)) - sman) with (- sman + Z.shiftl tman (- (sexp - texp))) by lia.
               rewrite F2R_shift_add by lia. replace (sexp + - (sexp - texp)) with texp by lia. rewrite F2R_Zopp. ring.
             - replace (sman - Z.shiftl tman (- (sexp - texp))) with (sman + Z.shiftl (- tman) (- (sexp - texp)))
                 by (rewrite !Z.shiftl_mul_pow2 by lia; ring).
               rewrite F2R_shift_add by lia. replace (sexp + - (sexp - texp)) with texp by lia. rewrite F2R_Zopp. ring. }
           rewrite Hv. reflexivity.
    + (* equal exponents *)
      assert (sexp = texp) by lia. subst texp.
      destruct (Z.eqb_spec ssign tsign) as [E|NE].
      * rewrite norm_por_value; auto; try lia.
        assert (Hv : sval ssign (tman + sman) sexp =
                     (sgn ssign * F2R (Float radix2 sman sexp) + sgn tsign * F2R (Float radix2 tman sexp))%R).
        { unfold sval, F2R; simpl Fnum; simpl Fexp. rewrite plus_IZR, <- E. ring. }
        rewrite Hv. reflexivity.
      * rewrite norm_por_value; auto; try apply sign_ite; try lia.
        assert (Hv : sval (if 0 <=? (if ssign =? 0 then sman - tman else tman - sman) then 0 else 1)
                       (Z.abs (if ssign =? 0 then sman - tman else tman - sman)) sexp =
                     (sgn ssign * F2R (Float radix2 sman sexp) + sgn tsign * F2R (Float radix2 tman sexp))%R).
        { rewrite sval_signed_abs. rewrite (sgn_neq ssign tsign) by auto.
          destruct S1 as [-> | ->]; cbn [Z.eqb]; unfold sgn, F2R; cbn [Z.eqb Fnum Fexp]; rewrite minus_IZR; ring. }
        rewrite Hv. reflexivity.
Qed.

(* zero operands *)
Theorem mpf_add_gen_round s t prec r sub : fincanon s -> fincanon t -> 0 <= prec ->
  rv (mpf_add_gen s t prec r sub) = rnd_or_exact r prec (rv s + (if sub then -1 else 1) * rv t).
Proof.
  intros Hs Ht Hp.
  destruct Hs as [->|Rs]; [|destruct Ht as [->|Rt]; [|apply add_regular_round; auto]].
  - (* s = 0 *)
    rewrite rv_fzero, Rplus_0_l.
    destruct Ht as [->|Rt].
    + (* both zero *)
      rewrite rv_fzero, Rmult_0_r. unfold mpf_add_gen, rnd_or_exact. cbn [fzero Z.eqb negb andb mman mexp].
      assert (Hz : (if sub then mpf_neg fzero 0 RD else fzero) = fzero) by (destruct sub; reflexivity).
      change (Mpf 0 0 0 0) with fzero. rewrite Hz, rv_fzero. destruct (prec =? 0); [reflexivity|rewrite RND_0; reflexivity].
    + destruct t as [tsign0 tman texp tbc]. destruct Rt as [T1 [T2 [T3 T4]]]; cbn [msign mman mexp mbc] in *.
      unfold mpf_add_gen. cbn [fzero Z.eqb negb andb].
      destruct (Z.eqb_spec tman 0); [lia|]. cbn [negb]. subst tbc.
      rewrite norm1_por_value; auto; try lia.
      2:{ destruct T1 as [-> | ->]; destruct sub; simpl; auto. }
      unfold rnd_or_exact.
      assert (Hv : sval (if sub then 1 - tsign0 else tsign0) tman texp = ((if sub then -1 else 1) * rv (Mpf tsign0 tman texp (bitcount tman)))%R).
      { unfold sval, rv; cbn [msign mman mexp]. destruct sub; [rewrite sgn_flip by auto|]; ring. }
      rewrite Hv. reflexivity.
  - (* t = 0, s regular *)
    rewrite rv_fzero, Rmult_0_r, Rplus_0_r.
    destruct s as [ssign sman sexp sbc]. destruct Rs as [S1 [S2 [S3 S4]]]; cbn [msign mman mexp mbc] in *.
    unfold mpf_add_gen. cbn [fzero Z.eqb negb andb].
    destruct (Z.eqb_spec sman 0); [lia|]. cbn [negb andb]. subst sbc.
    rewrite norm1_por_value; auto; try lia.
Qed.

Theorem mpf_add_round s t prec r : fincanon s -> fincanon t -> 0 < prec ->
  rv (mpf_add s t prec r) = RND r prec (rv s + rv t).
Proof.
  intros. unfold mpf_add. rewrite mpf_add_gen_round by (auto; lia). unfold rnd_or_exact.
  destruct (Z.eqb_spec prec 0); [lia|]. rewrite Rmult_1_l. reflexivity.
Qed.

Theorem mpf_sub_round s t prec r : fincanon s -> fincanon t -> 0 < prec ->
  rv (mpf_sub s t prec r) = RND r prec (rv s - rv t).
Proof.
  intros. unfold mpf_sub. rewrite mpf_add_gen_round by (auto; lia). unfold rnd_or_exact.
  destruct (Z.eqb_spec prec 0); [lia|]. f_equal. ring.
Qed.

Theorem mpf_add_exact s t r : fincanon s -> fincanon t -> rv (mpf_add s t 0 r) = (rv s + rv t)%R.
Proof. intros. unfold mpf_add. rewrite mpf_add_gen_round by (auto; lia). unfold rnd_or_exact. cbn [Z.eqb]. ring. Qed.

Theorem mpf_sub_exact s t r : fincanon s -> fincanon t -> rv (mpf_sub s t 0 r) = (rv s - rv t)%R.
Proof. intros. unfold mpf_sub. rewrite mpf_add_gen_round by (auto; lia). unfold rnd_or_exact. cbn [Z.eqb]. ring. Qed.
