(* Ops.v — canonicity, precision bound and correct rounding of the arithmetic built directly on
   normalize: from_man_exp, from_int, mpf_pos/neg/abs, python/gmpy mpf_mul, mul_int, mpf_shift. *)
From Coq Require Import ZArith Reals Bool Lia Lra.
From Flocq Require Import Core.
From MP Require Import Algo.Base Algo.Libmpf Spec.Mpf Spec.Round Proofs.Bits Proofs.Normalize Proofs.Canon Proofs.NormRound.
Open Scope Z_scope.

(* ---------------------------------------------------------------- helpers *)

Lemma regular_fincanon x : regular x -> fincanon x.
Proof. right; assumption. Qed.

Lemma fincanon_cases x : fincanon x ->
  (x = fzero) \/ ((msign x = 0 \/ msign x = 1) /\ 0 < mman x /\ Z.odd (mman x) = true /\ mbc x = bitcount (mman x)).
Proof. intros [H|H]; [left|right]; assumption. Qed.

Lemma fincanon_not_special x : fincanon x -> is_special x = false.
Proof.
  intros [->|[_ [H _]]]; [reflexivity|]. unfold is_special.
  destruct (Z.eqb_spec (mman x) 0); [lia|reflexivity].
Qed.

Lemma rv_eq_sval x : rv x = sval (msign x) (mman x) (mexp x).
Proof. reflexivity. Qed.

Lemma sgn_lxor a b : (a = 0 \/ a = 1) -> (b = 0 \/ b = 1) -> sgn (Z.lxor a b) = (sgn a * sgn b)%R.
Proof. intros [-> | ->] [-> | ->]; unfold sgn; simpl; lra. Qed.

Lemma sgn_flip a : (a = 0 \/ a = 1) -> sgn (1 - a) = (- sgn a)%R.
Proof. intros [-> | ->]; unfold sgn; simpl; lra. Qed.

Lemma F2R_mul m1 e1 m2 e2 :
  (F2R (Float radix2 m1 e1) * F2R (Float radix2 m2 e2) = F2R (Float radix2 (m1 * m2) (e1 + e2)))%R.
Proof. unfold F2R; simpl. rewrite mult_IZR, bpow_plus. ring. Qed.

(* ---------------------------------------------------------------- from_man_exp, from_int *)

Lemma sval_abs man exp :
  sval (if man <? 0 then 1 else 0) (Z.abs man) exp = F2R (Float radix2 man exp).
Proof.
  unfold sval, sgn. destruct (Z.ltb_spec man 0).
  - simpl. rewrite Z.abs_neq by lia. rewrite F2R_Zopp. ring.
  - simpl. rewrite Z.abs_eq by lia. ring.
Qed.

Theorem from_man_exp_round man exp prec r : 0 < prec ->
  rv (from_man_exp man exp prec r) = RND r prec (F2R (Float radix2 man exp)).
Proof.
  intros Hp. unfold from_man_exp. destruct (Z.eqb_spec prec 0); [lia|].
  rewrite normalize_round; try lia.
  - rewrite sval_abs. reflexivity.
  - destruct (man <? 0); auto.
Qed.

Theorem from_man_exp_exact man exp r :
  rv (from_man_exp man exp 0 r) = F2R (Float radix2 man exp).
Proof.
  unfold from_man_exp. cbn [Z.eqb].
  destruct (Z.eqb_spec (Z.abs man) 0) as [E|E].
  - rewrite rv_fzero. assert (man = 0) by lia. subst. rewrite F2R_0. reflexivity.
  - assert (Hm : 0 < Z.abs man) by lia.
    pose proof (strip_trailing_spec (Z.abs man) exp (bitcount (Z.abs man)) Hm) as H.
    destruct (strip_trailing (Z.abs man) exp (bitcount (Z.abs man))) as [[m' e'] b'].
    destruct H as [t [Ht [Hman [Hodd [Hpos [He Hb]]]]]].
    rewrite <- sval_abs. unfold rv, sval; cbn [msign mman mexp]. f_equal.
    subst e'. rewrite Hman. unfold F2R; simpl Fnum; simpl Fexp.
    rewrite mult_IZR, IZR_pow2 by lia. rewrite bpow_plus. ring.
Qed.

Theorem from_int_round n prec r : 0 < prec -> rv (from_int n prec r) = RND r prec (IZR n).
Proof.
  intros Hp. unfold from_int. rewrite from_man_exp_round by lia. f_equal.
  unfold F2R; simpl. ring.
Qed.

Theorem from_int_exact n r : rv (from_int n 0 r) = IZR n.
Proof. unfold from_int. rewrite from_man_exp_exact. unfold F2R; simpl. ring. Qed.

(* ---------------------------------------------------------------- pos / neg / abs *)

Theorem mpf_pos_round s prec r : fincanon s -> 0 < prec -> rv (mpf_pos s prec r) = RND r prec (rv s).
Proof.
  intros Hs Hp. unfold mpf_pos. destruct (Z.eqb_spec prec 0); [lia|].
  rewrite fincanon_not_special by exact Hs.
  destruct (fincanon_cases s Hs) as [->|[H1 [H2 [H3 H4]]]].
  - unfold normalize1; cbn [Z.eqb mman fzero]. rewrite rv_fzero, RND_0. reflexivity.
  - rewrite normalize1_round; auto; lia.
Qed.

Theorem mpf_pos_fincanon s prec r : fincanon s -> 0 <= prec -> fincanon (mpf_pos s prec r).
Proof.
  intros Hs Hp. unfold mpf_pos. destruct (Z.eqb_spec prec 0); [exact Hs|].
  rewrite fincanon_not_special by exact Hs.
  destruct (fincanon_cases s Hs) as [->|[H1 [H2 [H3 H4]]]]; [left; reflexivity|].
  apply normalize1_fincanon; auto; lia.
Qed.

Theorem mpf_pos_bc_le s prec r : fincanon s -> 0 < prec -> mbc (mpf_pos s prec r) <= prec.
Proof.
  intros Hs Hp. unfold mpf_pos. destruct (Z.eqb_spec prec 0); [lia|].
  rewrite fincanon_not_special by exact Hs.
  destruct (fincanon_cases s Hs) as [->|[H1 [H2 [H3 H4]]]]; [simpl; lia|].
  apply normalize1_bc_le; auto; lia.
Qed.

Theorem mpf_neg_round s prec r : fincanon s -> 0 < prec -> rv (mpf_neg s prec r) = RND r prec (- rv s).
Proof.
  intros Hs Hp. unfold mpf_neg. destruct s as [sign man exp bc].
  destruct (fincanon_cases _ Hs) as [E|[H1 [H2 [H3 H4]]]]; cbn [msign mman mexp mbc] in *.
  - injection E as -> -> -> ->. cbn [Z.eqb negb]. change (Mpf 0 0 0 0) with fzero. rewrite rv_fzero, Ropp_0, RND_0. reflexivity.
  - destruct (Z.eqb_spec man 0); [lia|]. destruct (Z.eqb_spec prec 0); [lia|].
    rewrite normalize1_round; auto; try lia.
    f_equal. unfold rv, sval; cbn [msign mman mexp]. rewrite sgn_flip by auto. ring.
Qed.

Theorem mpf_neg_exact s r : fincanon s -> rv (mpf_neg s 0 r) = (- rv s)%R.
Proof.
  intros Hs. unfold mpf_neg. destruct s as [sign man exp bc].
  destruct (fincanon_cases _ Hs) as [E|[H1 [H2 [H3 H4]]]]; cbn [msign mman mexp mbc] in *.
  - injection E as -> -> -> ->. cbn [Z.eqb negb]. change (Mpf 0 0 0 0) with fzero. rewrite rv_fzero. ring.
  - destruct (Z.eqb_spec man 0); [lia|]. cbn [Z.eqb].
    unfold rv; cbn [msign mman mexp]. rewrite sgn_flip by auto. ring.
Qed.

Theorem mpf_abs_round s prec r : fincanon s -> 0 < prec -> rv (mpf_abs s prec r) = RND r prec (Rabs (rv s)).
Proof.
  intros Hs Hp. unfold mpf_abs. destruct s as [sign man exp bc].
  rewrite fincanon_not_special by exact Hs.
  destruct (fincanon_cases _ Hs) as [E|[H1 [H2 [H3 H4]]]]; cbn [msign mman mexp mbc] in *.
  - injection E as -> -> -> ->. destruct (Z.eqb_spec prec 0); [lia|].
    unfold normalize1; cbn [Z.eqb]. change (Mpf 0 0 0 0) with fzero. rewrite rv_fzero, Rabs_R0, RND_0. reflexivity.
  - destruct (Z.eqb_spec prec 0); [lia|].
    rewrite normalize1_round; auto; try lia. f_equal.
    unfold rv, sval; cbn [msign mman mexp].
    assert (0 < F2R (Float radix2 man exp))%R by (apply F2R_gt_0; exact H2).
    destruct H1 as [-> | ->]; unfold sgn; simpl.
    + rewrite Rmult_1_l, Rabs_pos_eq; lra.
    + rewrite Rmult_1_l. replace (-1 * F2R (Float radix2 man exp))%R with (- F2R (Float radix2 man exp))%R by ring.
      rewrite Rabs_Ropp, Rabs_pos_eq; lra.
Qed.

(* ---------------------------------------------------------------- multiplication *)

Lemma rv_regular_mul s t : fincanon s -> fincanon t ->
  (rv s * rv t)%R = sval (Z.lxor (msign s) (msign t)) (mman s * mman t) (mexp s + mexp t).
Proof.
  intros Hs Ht. unfold rv, sval.
  destruct (fincanon_cases s Hs) as [->|[S1 _]]; [|destruct (fincanon_cases t Ht) as [->|[T1 _]]].
  - simpl. rewrite !F2R_0. ring.
  - simpl. rewrite Z.mul_0_r, !F2R_0. ring.
  - rewrite sgn_lxor by auto. rewrite <- F2R_mul. ring.
Qed.

Lemma mul_special_fzero s t : fincanon s -> fincanon t -> mul_special s t = fzero.
Proof.
  intros Hs Ht. unfold mul_special. rewrite !fincanon_not_special by assumption. reflexivity.
Qed.

Theorem python_mpf_mul_round s t prec r : fincanon s -> fincanon t -> 0 < prec ->
  rv (python_mpf_mul s t prec r) = RND r prec (rv s * rv t).
Proof.
  intros Hs Ht Hp. rewrite rv_regular_mul by assumption. unfold python_mpf_mul.
  destruct (Z.eqb_spec (mman s * mman t) 0) as [E|E]; cbn [negb].
  - rewrite mul_special_fzero by assumption. rewrite E, sval_0, RND_0. apply rv_fzero.
  - destruct (Z.eqb_spec prec 0); [lia|]. cbn [negb].
    destruct (fincanon_cases s Hs) as [->|[S1 [S2 [S3 S4]]]]; [simpl in E; lia|].
    destruct (fincanon_cases t Ht) as [->|[T1 [T2 [T3 T4]]]]; [simpl in E; lia|].
    rewrite S4, T4. rewrite mul_bitcount by assumption.
    apply normalize1_round; auto; try nia. apply lxor_bit; auto.
Qed.

Theorem python_mpf_mul_exact s t r : fincanon s -> fincanon t ->
  rv (python_mpf_mul s t 0 r) = (rv s * rv t)%R.
Proof.
  intros Hs Ht. rewrite rv_regular_mul by assumption. unfold python_mpf_mul.
  destruct (Z.eqb_spec (mman s * mman t) 0) as [E|E]; cbn [negb].
  - rewrite mul_special_fzero by assumption. rewrite E, sval_0. apply rv_fzero.
  - reflexivity.
Qed.

Theorem python_mpf_mul_fincanon s t prec r : fincanon s -> fincanon t -> 0 <= prec ->
  fincanon (python_mpf_mul s t prec r).
Proof.
  intros Hs Ht Hp. unfold python_mpf_mul.
  destruct (Z.eqb_spec (mman s * mman t) 0) as [E|E]; cbn [negb].
  - rewrite mul_special_fzero by assumption. left; reflexivity.
  - destruct (fincanon_cases s Hs) as [->|[S1 [S2 [S3 S4]]]]; [simpl in E; lia|].
    destruct (fincanon_cases t Ht) as [->|[T1 [T2 [T3 T4]]]]; [simpl in E; lia|].
    rewrite S4, T4. rewrite mul_bitcount by assumption.
    destruct (Z.eqb_spec prec 0); cbn [negb].
    + right. unfold regular; cbn [msign mman mexp mbc]. repeat split; try nia.
      * apply lxor_bit; auto.
      * rewrite Z.odd_mul, S3, T3. reflexivity.
    + apply normalize1_fincanon; auto; try nia.
      * apply lxor_bit; auto.
      * right. rewrite Z.odd_mul, S3, T3. reflexivity.
Qed.

Theorem python_mpf_mul_bc_le s t prec r : fincanon s -> fincanon t -> 0 < prec ->
  mbc (python_mpf_mul s t prec r) <= prec.
Proof.
  intros Hs Ht Hp. unfold python_mpf_mul.
  destruct (Z.eqb_spec (mman s * mman t) 0) as [E|E]; cbn [negb].
  - rewrite mul_special_fzero by assumption. simpl; lia.
  - destruct (fincanon_cases s Hs) as [->|[S1 [S2 [S3 S4]]]]; [simpl in E; lia|].
    destruct (fincanon_cases t Ht) as [->|[T1 [T2 [T3 T4]]]]; [simpl in E; lia|].
    rewrite S4, T4. rewrite mul_bitcount by assumption.
    destruct (Z.eqb_spec prec 0); [lia|]. cbn [negb].
    apply normalize1_bc_le; auto; nia.
Qed.

(* the gmpy source variant computes the same function (C37, visible part) *)
Theorem gmpy_mul_eq_python_mul s t prec r : fincanon s -> fincanon t ->
  gmpy_mpf_mul s t prec r = python_mpf_mul s t prec r.
Proof.
  intros Hs Ht. unfold gmpy_mpf_mul, python_mpf_mul.
  destruct (Z.eqb_spec (mman s * mman t) 0) as [E|E]; cbn [negb]; [reflexivity|].
  destruct (fincanon_cases s Hs) as [->|[S1 [S2 [S3 S4]]]]; [simpl in E; lia|].
  destruct (fincanon_cases t Ht) as [->|[T1 [T2 [T3 T4]]]]; [simpl in E; lia|].
  rewrite S4, T4. rewrite mul_bitcount by assumption. reflexivity.
Qed.
