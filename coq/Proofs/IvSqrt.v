(* IvSqrt.v — C14: containment for the interval square root (finite non-negative endpoints). *)
From Coq Require Import ZArith Reals Bool List Lia Lra Psatz.
From Flocq Require Import Core.
From MP Require Import Algo.Base Algo.Libmpf Algo.Libmpi Spec.Mpf Spec.Round Proofs.Normalize Proofs.NormRound Proofs.Ops Proofs.AddRound
  Proofs.SqrtRound Proofs.Fin Proofs.Cmp Proofs.IvCmp Proofs.IvContain Proofs.IvMul.
Open Scope Z_scope.

Lemma mpf_sqrt_fincanon s prec r y : fincanon s -> 0 < prec -> mpf_sqrt s prec r = Ok y -> fincanon y.
Proof.
  intros Hs Hp. unfold mpf_sqrt. destruct s as [sign man exp bc].
  destruct (negb (sign =? 0)); [discriminate|].
  destruct (Z.eqb_spec man 0); [intros H; inversion H; subst; exact Hs|].
  destruct Hs as [E|Rs]; [inversion E; lia|].
  destruct Rs as [S1 [S2 [S3 S4]]]; cbn [msign mman mexp mbc] in *.
  destruct (negb (Z.odd exp) && (man =? 1)) eqn:H1.
  - intros [= <-]. apply normalize1_fincanon; auto; lia.
  - destruct (if Z.odd exp then (Z.shiftl man 1, exp - 1, bc + 1) else (man, exp, bc)) as [[m e] b].
    destruct r; try destruct (Z.sqrtrem _) as [q rem]; try destruct (negb (rem =? 0));
      intros [= <-]; apply from_man_exp_fincanon; lia.
Qed.

Lemma sqrt_endpoint a prec r : fincanon a -> (0 <= rv a)%R -> 0 < prec ->
  exists y, mpf_sqrt a prec r = Ok y /\ fincanon y /\ rv y = RND r prec (sqrt (rv a)).
Proof.
  intros Fa Pa Hp. destruct Fa as [->|Ra].
  - exists fzero. split; [reflexivity|]. split; [left; reflexivity|]. rewrite rv_fzero, sqrt_0, RND_0. reflexivity.
  - assert (Sg : msign a = 0).
    { destruct Ra as [S1 [S2 _]]. destruct S1 as [E|E]; [exact E|]. exfalso.
      assert (0 < F2R (Float radix2 (mman a) (mexp a)))%R by (apply F2R_gt_0; exact S2).
      unfold rv, sgn in Pa. rewrite E in Pa. cbn [Z.eqb] in Pa. lra. }
    destruct (mpf_sqrt_round a prec r Ra Sg Hp) as [y [E V]].
    exists y. split; [exact E|]. split; [|exact V]. eapply mpf_sqrt_fincanon; eauto. right; exact Ra.
Qed.

Theorem mpi_sqrt_contains s prec x : valid_iv s -> (0 <= rv (fst s))%R -> 0 < prec -> in_iv s x ->
  exists r, mpi_sqrt s prec = Ok r /\ in_iv r (sqrt x) /\ valid_iv r.
Proof.
  intros [Sa [Sb Sv]] P0 Hp [X1 X2]. unfold mpi_sqrt.
  destruct (sqrt_endpoint (fst s) prec RF Sa P0 Hp) as [a [Ea [Fa Va]]].
  destruct (sqrt_endpoint (snd s) prec RC Sb ltac:(lra) Hp) as [b [Eb [Fb Vb]]].
  exists (a, b). rewrite Ea. cbn [bind]. rewrite Eb. cbn [bind]. split; [reflexivity|].
  apply (mk_iv a b prec (sqrt (rv (fst s))) (sqrt (rv (snd s)))); auto; try lia.
  - rewrite Va. unfold rnd_or_exact. destruct (Z.eqb_spec prec 0); [lia|reflexivity].
  - rewrite Vb. unfold rnd_or_exact. destruct (Z.eqb_spec prec 0); [lia|reflexivity].
  - split; apply sqrt_le_1_alt; lra.
Qed.
