(* Pow.v — C03: integer powers.  (1) the exact-small branch is correctly rounded; (2) the directed binary
   exponentiation loop never crosses the exact value (invariant over the loop, any exponent); (3) the final rounding
   keeps the side, so directed modes are never rounded past x^n. *)
From Coq Require Import ZArith Reals Bool Lia Lra PArith.
From Flocq Require Import Core.
From MP Require Import Algo.Base Algo.Libmpf Spec.Mpf Spec.Round Proofs.Bits Proofs.Normalize Proofs.NormRound Proofs.Ops Proofs.DivRound.
Open Scope Z_scope.

(* ---------- bit count bookkeeping ---------- *)
Lemma bitcount_shiftr_add x k : 0 < x -> 0 <= k -> 0 < Z.shiftr x k -> k + bitcount (Z.shiftr x k) = bitcount x.
Proof.
  intros Hx Hk Hq. symmetry. rewrite Z.shiftr_div_pow2 in * by lia.
  assert (P : 0 < 2 ^ k) by (apply Z.pow_pos_nonneg; lia).
  set (q := x / 2 ^ k) in *.
  pose proof (bitcount_spec q Hq) as [Q1 Q2]. pose proof (bitcount_pos q Hq) as Qb.
  pose proof (Z.div_mod x (2 ^ k) ltac:(lia)) as D. pose proof (Z.mod_pos_bound x (2 ^ k) P) as M. fold q in D.
  apply bitcount_unique; [exact Hx|].
  replace (k + bitcount q - 1) with (k + (bitcount q - 1)) by lia.
  rewrite !Z.pow_add_r by lia. split; nia.
Qed.

Lemma bitcount_mul_ge a b : 0 < a -> 0 < b -> bitcount a + bitcount b - 1 <= bitcount (a * b).
Proof.
  intros Ha Hb. pose proof (bitcount_spec a Ha) as [A1 _]. pose proof (bitcount_spec b Hb) as [B1 _].
  pose proof (bitcount_pos a Ha). pose proof (bitcount_pos b Hb).
  assert (Hab : 0 < a * b) by nia.
  pose proof (bitcount_spec (a * b) Hab) as [_ C2].
  assert (2 ^ (bitcount a - 1 + (bitcount b - 1)) < 2 ^ bitcount (a * b)).
  { rewrite Z.pow_add_r by lia. nia. }
  apply Z.pow_lt_mono_r_iff in H1; [lia|lia|]. pose proof (bitcount_nonneg (a * b)). lia.
Qed.

(* the table-corrected product bit count is exact whenever the recorded counts do not exceed the true ones *)
Lemma mul_bc_exact a b ba bb : 0 < a -> 0 < b -> 1 <= ba <= bitcount a -> 1 <= bb <= bitcount b ->
  (ba + bb - 2) + bitcount (Z.shiftr (a * b) (ba + bb - 2)) = bitcount (a * b).
Proof.
  intros Ha Hb Hba Hbb. assert (Hab : 0 < a * b) by nia.
  apply bitcount_shiftr_add; [exact Hab|lia|].
  pose proof (bitcount_mul_ge a b Ha Hb) as G.
  pose proof (shiftr_range (a * b) _ (ba + bb - 2) Hab eq_refl ltac:(lia)) as [L _].
  assert (0 < 2 ^ (bitcount (a * b) - (ba + bb - 2) - 1)) by (apply Z.pow_pos_nonneg; lia). lia.
Qed.

(* ---------- one truncation ---------- *)
Definition Rdir (rd : bool) (x y : R) : Prop := if rd then (x <= y)%R else (y <= x)%R.

Lemma trunc_work_spec rd m e wp : 0 < m -> 1 <= wp ->
  let '(m', e', bc') := trunc_work rd m e (bitcount m) wp in
  0 < m' /\ 1 <= bc' <= bitcount m' /\ bc_ok m' bc' /\ Rdir rd (F2R (Float radix2 m' e')) (F2R (Float radix2 m e)).
Proof.
  intros Hm Hwp. unfold trunc_work.
  destruct (Z.ltb_spec wp (bitcount m)) as [L|G].
  - remember (bitcount m - wp) as sh eqn:Esh.
    pose proof (shiftr_range m _ sh Hm eq_refl ltac:(lia)) as [S1 S2].
    pose proof (ceil_shift_range m _ sh Hm eq_refl ltac:(lia)) as [C1 C2].
    replace (bitcount m - sh - 1) with (wp - 1) in * by lia.
    replace (bitcount m - sh) with wp in * by lia.
    assert (P : 0 < 2 ^ (wp - 1)) by (apply Z.pow_pos_nonneg; lia).
    assert (Hsh : 0 <= sh) by lia.
    (* value comparison:  (m >> sh) * 2^sh <= m <= ceil * 2^sh *)
    assert (V : forall q, F2R (Float radix2 q (e + sh)) = (IZR (q * 2 ^ sh) * bpow radix2 e)%R).
    { intros q. unfold F2R; simpl Fnum; simpl Fexp. rewrite mult_IZR, IZR_pow2, bpow_plus by lia. ring. }
    assert (P2 : 0 < 2 ^ sh) by (apply Z.pow_pos_nonneg; lia).
    destruct rd.
    + split; [lia|]. split.
      { split; [lia|]. rewrite (bitcount_unique (Z.shiftr m sh) wp); lia. }
      split; [left; symmetry; apply bitcount_unique; lia|].
      unfold Rdir. rewrite V. unfold F2R; simpl Fnum; simpl Fexp.
      apply Rmult_le_compat_r; [apply bpow_ge_0|]. apply IZR_le.
      rewrite Z.shiftr_div_pow2 by lia. pose proof (Z.mul_div_le m (2 ^ sh) P2). lia.
    + split; [lia|].
      assert (BC : bc_ok (- Z.shiftr (- m) sh) wp).
      { destruct (Z.eq_dec (- Z.shiftr (- m) sh) (2 ^ wp)) as [E|NE]; [right; split; [lia|exact E]|].
        left. symmetry. apply bitcount_unique; lia. }
      split.
      { split; [lia|]. destruct BC as [->|[_ ->]]; [lia|]. rewrite bitcount_pow2 by lia. lia. }
      split; [exact BC|].
      unfold Rdir. rewrite V. unfold F2R; simpl Fnum; simpl Fexp.
      apply Rmult_le_compat_r; [apply bpow_ge_0|]. apply IZR_le.
      rewrite ceil_shift_eq by lia.
      pose proof (Z.div_mod (m + 2 ^ sh - 1) (2 ^ sh) ltac:(lia)). pose proof (Z.mod_pos_bound (m + 2 ^ sh - 1) (2 ^ sh) P2). nia.
  - pose proof (bitcount_pos m Hm). split; [exact Hm|]. split; [lia|]. split; [left; reflexivity|].
    unfold Rdir. destruct rd; apply Rle_refl.
Qed.

(* ---------- multiply-and-truncate step ---------- *)
Definition mulstep (rd : bool) (wp a ea ba b eb bb : Z) : Z * Z * Z :=
  let m := a * b in let e := ea + eb in
  let k := ba + bb - 2 in let bc := k + bitcount (Z.shiftr m k) in
  trunc_work rd m e bc wp.

Definition good (m bc : Z) : Prop := 0 < m /\ 1 <= bc <= bitcount m /\ bc_ok m bc.

Lemma mulstep_spec rd wp a ea ba b eb bb : 1 <= wp -> good a ba -> good b bb ->
  let '(m', e', bc') := mulstep rd wp a ea ba b eb bb in
  good m' bc' /\ Rdir rd (F2R (Float radix2 m' e')) (F2R (Float radix2 a ea) * F2R (Float radix2 b eb))%R.
Proof.
  intros Hwp [Ha [Hba _]] [Hb [Hbb _]]. unfold mulstep.
  rewrite mul_bc_exact by assumption.
  assert (Hab : 0 < a * b) by nia.
  pose proof (trunc_work_spec rd (a * b) (ea + eb) wp Hab Hwp) as T.
  destruct (trunc_work rd (a * b) (ea + eb) (bitcount (a * b)) wp) as [[m' e'] bc'].
  destruct T as [T1 [T2 [T3 T4]]]. split; [repeat split; auto; lia|].
  rewrite F2R_mul. exact T4.
Qed.

Lemma pow_loop_unfold n rd wp pm pe pbc man exp bc :
  pow_loop n rd wp pm pe pbc man exp bc =
  match n with
  | xH => mulstep rd wp pm pe pbc man exp bc
  | xO n' => let '(man', exp', bc') := mulstep rd wp man exp bc man exp bc in pow_loop n' rd wp pm pe pbc man' exp' bc'
  | xI n' => let '(pm', pe', pbc') := mulstep rd wp pm pe pbc man exp bc in
             let '(man', exp', bc') := mulstep rd wp man exp bc man exp bc in pow_loop n' rd wp pm' pe' pbc' man' exp' bc'
  end.
Proof. destruct n; reflexivity. Qed.

Lemma Rdir_mul rd x1 y1 x2 y2 : (0 < x1)%R -> (0 < y1)%R -> (0 < x2)%R -> (0 < y2)%R ->
  Rdir rd x1 y1 -> Rdir rd x2 y2 -> Rdir rd (x1 * x2) (y1 * y2).
Proof. intros A B C D. destruct rd; unfold Rdir; intros; apply Rmult_le_compat; lra. Qed.

Lemma Rdir_trans rd x y z : Rdir rd x y -> Rdir rd y z -> Rdir rd x z.
Proof. destruct rd; unfold Rdir; intros; lra. Qed.

Lemma F2R_pos m e : 0 < m -> (0 < F2R (Float radix2 m e))%R.
Proof. intros H. apply F2R_gt_0. exact H. Qed.

(* the loop invariant: the running product stays on the rd side of P * B^n *)
Theorem pow_loop_dir rd wp : 1 <= wp -> forall n pm pe pbc man exp bc P B,
  good pm pbc -> good man bc -> (0 < P)%R -> (0 < B)%R ->
  Rdir rd (F2R (Float radix2 pm pe)) P -> Rdir rd (F2R (Float radix2 man exp)) B ->
  let '(m', e', bc') := pow_loop n rd wp pm pe pbc man exp bc in
  good m' bc' /\ Rdir rd (F2R (Float radix2 m' e')) (P * B ^ Pos.to_nat n)%R.
Proof.
  intros Hwp. induction n as [n IH|n IH|]; intros pm pe pbc man exp bc P B Gp Gm HP HB DP DB; rewrite pow_loop_unfold.
  - pose proof (mulstep_spec rd wp pm pe pbc man exp bc Hwp Gp Gm) as M1.
    destruct (mulstep rd wp pm pe pbc man exp bc) as [[pm' pe'] pbc']. destruct M1 as [G1 D1].
    pose proof (mulstep_spec rd wp man exp bc man exp bc Hwp Gm Gm) as M2.
    destruct (mulstep rd wp man exp bc man exp bc) as [[man' exp'] bc']. destruct M2 as [G2 D2].
    assert (Fp : (0 < F2R (Float radix2 pm pe))%R) by (apply F2R_pos, Gp).
    assert (Fm : (0 < F2R (Float radix2 man exp))%R) by (apply F2R_pos, Gm).
    specialize (IH pm' pe' pbc' man' exp' bc' (P * B)%R (B * B)%R G1 G2 ltac:(nra) ltac:(nra)).
    assert (E1 : Rdir rd (F2R (Float radix2 pm' pe')) (P * B)).
    { eapply Rdir_trans; [exact D1|]. apply Rdir_mul; auto. }
    assert (E2 : Rdir rd (F2R (Float radix2 man' exp')) (B * B)).
    { eapply Rdir_trans; [exact D2|]. apply Rdir_mul; auto. }
    specialize (IH E1 E2).
    destruct (pow_loop n rd wp pm' pe' pbc' man' exp' bc') as [[m' e'] b']. destruct IH as [G D]. split; [exact G|].
    replace (P * B ^ Pos.to_nat n~1)%R with (P * B * (B * B) ^ Pos.to_nat n)%R; [exact D|].
    rewrite Pos2Nat.inj_xI. rewrite <- tech_pow_Rmult, pow_mult. replace (B ^ 2)%R with (B * B)%R by ring. ring.
  - pose proof (mulstep_spec rd wp man exp bc man exp bc Hwp Gm Gm) as M2.
    destruct (mulstep rd wp man exp bc man exp bc) as [[man' exp'] bc']. destruct M2 as [G2 D2].
    assert (Fm : (0 < F2R (Float radix2 man exp))%R) by (apply F2R_pos, Gm).
    specialize (IH pm pe pbc man' exp' bc' P (B * B)%R Gp G2 HP ltac:(nra) DP).
    assert (E2 : Rdir rd (F2R (Float radix2 man' exp')) (B * B)).
    { eapply Rdir_trans; [exact D2|]. apply Rdir_mul; auto. }
    specialize (IH E2).
    destruct (pow_loop n rd wp pm pe pbc man' exp' bc') as [[m' e'] b']. destruct IH as [G D]. split; [exact G|].
    replace (P * B ^ Pos.to_nat n~0)%R with (P * (B * B) ^ Pos.to_nat n)%R; [exact D|].
    rewrite Pos2Nat.inj_xO. rewrite pow_mult. replace (B ^ 2)%R with (B * B)%R by ring. reflexivity.
  - pose proof (mulstep_spec rd wp pm pe pbc man exp bc Hwp Gp Gm) as M1.
    destruct (mulstep rd wp pm pe pbc man exp bc) as [[pm' pe'] pbc']. destruct M1 as [G1 D1]. split; [exact G1|].
    assert (Fp : (0 < F2R (Float radix2 pm pe))%R) by (apply F2R_pos, Gp).
    assert (Fm : (0 < F2R (Float radix2 man exp))%R) by (apply F2R_pos, Gm).
    eapply Rdir_trans; [exact D1|]. simpl. rewrite Rmult_1_r. apply Rdir_mul; auto.
Qed.

(* ---------- normalize accepts the off-by-one count left by an upward truncation ---------- *)
Lemma round_mant_pow2 sign k n r : 0 < n <= k -> round_mant sign (2 ^ k) n r = 2 ^ (k - n).
Proof.
  intros H. assert (P : 0 < 2 ^ k) by (apply Z.pow_pos_nonneg; lia).
  rewrite <- round_mant_magrnd by lia.
  replace (IZR (2 ^ k) * bpow radix2 (- n))%R with (IZR (2 ^ (k - n))).
  - apply Zrnd_IZR. apply valid_magrnd.
  - rewrite !IZR_pow2 by lia. rewrite <- bpow_plus. f_equal; lia.
Qed.

Theorem normalize_round_bcok sign man exp bc prec r :
  (sign = 0 \/ sign = 1) -> 0 < man -> bc_ok man bc -> 0 < prec ->
  rv (normalize sign man exp bc prec r) = RND r prec (sval sign man exp).
Proof.
  intros Hs Hm [E|[Hb E]] Hp; [apply normalize_round; auto; lia|].
  subst man. unfold normalize.
  assert (P : 0 < 2 ^ bc) by (apply Z.pow_pos_nonneg; lia).
  destruct (Z.eqb_spec (2 ^ bc) 0) as [Z0|_]; [lia|].
  assert (EX : forall e, RND r prec (sval sign (2 ^ bc) e) = sval sign (2 ^ bc) e).
  { intros e. replace (sval sign (2 ^ bc) e) with (sval sign 1 (e + bc)).
    - apply RND_exact; auto; try lia. change (bitcount 1) with 1. lia.
    - unfold sval. f_equal. unfold F2R; simpl Fnum; simpl Fexp. rewrite IZR_pow2, bpow_plus by lia. ring. }
  rewrite EX.
  destruct (Z.ltb_spec 0 (bc - prec)) as [L|G].
  - rewrite round_mant_pow2 by lia.
    rewrite finish_rv by (apply Z.pow_pos_nonneg; lia).
    unfold sval. f_equal. unfold F2R; simpl Fnum; simpl Fexp. rewrite !IZR_pow2 by lia. rewrite <- !bpow_plus. f_equal. lia.
  - apply finish_rv. exact P.
Qed.

(* ---------- sign of a power ---------- *)
Lemma sgn_pow sign n : (sign = 0 \/ sign = 1) -> (sgn sign ^ Pos.to_nat n)%R = sgn (Z.land sign (Zpos n)).
Proof.
  intros [->| ->]; unfold sgn.
  - rewrite Z.land_0_l. simpl. apply pow1.
  - destruct n as [n|n|].
    + replace (Z.land 1 (Z.pos n~1)) with 1 by (cbn; reflexivity). cbn [Z.eqb].
      rewrite Pos2Nat.inj_xI, <- tech_pow_Rmult, pow_mult. replace ((-1) ^ 2)%R with 1%R by ring. rewrite pow1. ring.
    + replace (Z.land 1 (Z.pos n~0)) with 0 by (cbn; reflexivity). cbn [Z.eqb].
      rewrite Pos2Nat.inj_xO, pow_mult. replace ((-1) ^ 2)%R with 1%R by ring. rewrite pow1. reflexivity.
    + simpl. ring.
Qed.

Lemma land_sign_01 sign n : (sign = 0 \/ sign = 1) -> Z.land sign (Zpos n) = 0 \/ Z.land sign (Zpos n) = 1.
Proof. intros [->| ->]; [left; apply Z.land_0_l|]. destruct n; cbn; auto. Qed.

Lemma rv_pow s n : (msign s = 0 \/ msign s = 1) ->
  (rv s ^ Pos.to_nat n = sgn (Z.land (msign s) (Zpos n)) * F2R (Float radix2 (mman s) (mexp s)) ^ Pos.to_nat n)%R.
Proof. intros Hs. unfold rv. rewrite Rpow_mult_distr, sgn_pow by exact Hs. reflexivity. Qed.

(* F2R m e ^ n = F2R (m^n) (e*n) *)
Lemma F2R_pow m e n : (F2R (Float radix2 m e) ^ Pos.to_nat n = F2R (Float radix2 (m ^ Zpos n) (e * Zpos n)))%R.
Proof.
  unfold F2R; cbn [Fnum Fexp]. rewrite Rpow_mult_distr.
  rewrite <- (positive_nat_Z n). rewrite <- pow_IZR. f_equal.
  induction (Pos.to_nat n) as [|k IH]; [rewrite Z.mul_0_r; reflexivity|].
  rewrite <- tech_pow_Rmult, IH, <- bpow_plus. f_equal. lia.
Qed.

(* ---------- the general branch: directed result on the right side ---------- *)
Definition pow_general (s : mpf) (n : positive) (prec : Z) (r : rnd) : mpf :=
  let result_sign := Z.land (msign s) (Zpos n) in
  let rounds_down := rnd_eqb r RN || shifts_down r result_sign in
  let wp := prec + 4 * bitcount (Zpos n) + 4 in
  let '(pm, pe, pbc) := pow_loop n rounds_down wp 1 0 1 (mman s) (mexp s) (mbc s) in
  normalize result_sign pm pe pbc prec r.

Theorem pow_general_side s n prec r : regular s -> 0 < prec ->
  exists c, (0 < c)%R /\
    rv (pow_general s n prec r) = RND r prec (sgn (Z.land (msign s) (Zpos n)) * c) /\
    Rdir (rnd_eqb r RN || shifts_down r (Z.land (msign s) (Zpos n))) c (Rabs (rv s) ^ Pos.to_nat n).
Proof.
  intros [S1 [S2 [S3 S4]]] Hp. unfold pow_general.
  set (rs := Z.land (msign s) (Zpos n)). set (rd := rnd_eqb r RN || shifts_down r rs).
  set (wp := prec + 4 * bitcount (Zpos n) + 4).
  assert (Hwp : 1 <= wp) by (unfold wp; pose proof (bitcount_nonneg (Zpos n)); lia).
  assert (G1 : good 1 1).
  { unfold good. change (bitcount 1) with 1. split; [lia|]. split; [lia|]. left; reflexivity. }
  assert (Gm : good (mman s) (mbc s)).
  { pose proof (bitcount_pos (mman s) S2). unfold good. split; [lia|]. split; [lia|]. left; exact S4. }
  assert (B0 : (0 < F2R (Float radix2 (mman s) (mexp s)))%R) by (apply F2R_pos; exact S2).
  pose proof (pow_loop_dir rd wp Hwp n 1 0 1 (mman s) (mexp s) (mbc s) 1%R _ G1 Gm Rlt_0_1 B0) as L.
  assert (D1 : Rdir rd (F2R (Float radix2 1 0)) 1).
  { replace (F2R (Float radix2 1 0)) with 1%R by (unfold F2R; simpl; ring). destruct rd; apply Rle_refl. }
  assert (D2 : Rdir rd (F2R (Float radix2 (mman s) (mexp s))) (F2R (Float radix2 (mman s) (mexp s)))) by (destruct rd; apply Rle_refl).
  specialize (L D1 D2).
  destruct (pow_loop n rd wp 1 0 1 (mman s) (mexp s) (mbc s)) as [[pm pe] pbc].
  destruct L as [[Gp [Gb Gk]] D].
  exists (F2R (Float radix2 pm pe)). split; [apply F2R_pos; exact Gp|]. split.
  - apply normalize_round_bcok; auto. apply land_sign_01; exact S1.
  - rewrite Rmult_1_l in D.
    replace (Rabs (rv s)) with (F2R (Float radix2 (mman s) (mexp s))); [exact D|].
    unfold rv. rewrite Rabs_mult. rewrite (Rabs_pos_eq (F2R _)) by lra.
    destruct S1 as [E|E]; rewrite E; unfold sgn; cbn [Z.eqb]; [rewrite Rabs_R1|replace (-1)%R with (- (1))%R by ring; rewrite Rabs_Ropp, Rabs_R1]; ring.
Qed.

(* ---------- "never rounded past the exact value" ---------- *)
Definition side (r : rnd) (y X : R) : Prop :=
  match r with
  | RN => True
  | RF => (y <= X)%R
  | RC => (X <= y)%R
  | RD => (Rabs y <= Rabs X)%R
  | RU => (Rabs X <= Rabs y)%R
  end.

Lemma RND_F_le p x : 0 < p -> (RND RF p x <= x)%R.
Proof. intros Hp. assert (HP : Prec_gt_0 p) by exact Hp. unfold RND; cbn [Zrnd_of]. apply round_DN_pt. typeclasses eauto. Qed.
Lemma RND_C_ge p x : 0 < p -> (x <= RND RC p x)%R.
Proof. intros Hp. assert (HP : Prec_gt_0 p) by exact Hp. unfold RND; cbn [Zrnd_of]. apply round_UP_pt. typeclasses eauto. Qed.
Lemma RND_D_abs p x : 0 < p -> (Rabs (RND RD p x) <= Rabs x)%R.
Proof.
  intros Hp. assert (HP : Prec_gt_0 p) by exact Hp. unfold RND; cbn [Zrnd_of].
  rewrite <- round_ZR_abs, round_ZR_DN by (first [apply Rabs_pos | typeclasses eauto]). apply round_DN_pt. typeclasses eauto.
Qed.
Lemma RND_U_abs p x : 0 < p -> (Rabs x <= Rabs (RND RU p x))%R.
Proof.
  intros Hp. assert (HP : Prec_gt_0 p) by exact Hp. unfold RND; cbn [Zrnd_of].
  rewrite <- round_AW_abs, round_AW_UP by (first [apply Rabs_pos | typeclasses eauto]). apply round_UP_pt. typeclasses eauto.
Qed.

(* a correctly rounded result is on the right side *)
Lemma RND_side r p X : 0 < p -> side r (RND r p X) X.
Proof. intros Hp. destruct r; cbn [side]; [exact I|apply RND_F_le|apply RND_C_ge|apply RND_D_abs|apply RND_U_abs]; exact Hp. Qed.

Lemma sgn_abs s : (s = 0 \/ s = 1) -> Rabs (sgn s) = 1%R.
Proof. intros [->| ->]; unfold sgn; cbn [Z.eqb]; [apply Rabs_R1|]. replace (-1)%R with (- (1))%R by ring. rewrite Rabs_Ropp. apply Rabs_R1. Qed.

(* rounding sgn*c where c is on the rd side of A keeps the result on the right side of sgn*A *)
Lemma side_of_dir r p rs c A : 0 < p -> (rs = 0 \/ rs = 1) -> (0 < c)%R -> (0 < A)%R ->
  Rdir (rnd_eqb r RN || shifts_down r rs) c A -> side r (RND r p (sgn rs * c)) (sgn rs * A).
Proof.
  intros Hp Hs Hc HA D. destruct r; cbn [side rnd_eqb shifts_down orb] in *.
  - exact I.
  - eapply Rle_trans; [apply RND_F_le; exact Hp|]. destruct Hs as [->| ->]; unfold sgn, Rdir in *; cbn [Z.eqb negb] in *; lra.
  - eapply Rle_trans; [|apply RND_C_ge; exact Hp]. destruct Hs as [->| ->]; unfold sgn, Rdir in *; cbn [Z.eqb negb] in *; lra.
  - eapply Rle_trans; [apply RND_D_abs; exact Hp|]. rewrite !Rabs_mult, sgn_abs by exact Hs.
    rewrite !Rabs_pos_eq by lra. unfold Rdir in D. lra.
  - eapply Rle_trans; [|apply RND_U_abs; exact Hp]. rewrite !Rabs_mult, sgn_abs by exact Hs.
    rewrite !Rabs_pos_eq by lra. unfold Rdir in D. lra.
Qed.

Lemma Rabs_rv_pos s : regular s -> (0 < Rabs (rv s))%R.
Proof.
  intros [S1 [S2 _]]. apply Rabs_pos_lt. unfold rv. pose proof (F2R_pos (mman s) (mexp s) S2).
  destruct S1 as [E|E]; rewrite E; unfold sgn; cbn [Z.eqb]; lra.
Qed.

Lemma rv_pow_abs s n : regular s ->
  (rv s ^ Pos.to_nat n = sgn (Z.land (msign s) (Zpos n)) * Rabs (rv s) ^ Pos.to_nat n)%R.
Proof.
  intros [S1 [S2 _]]. rewrite rv_pow by exact S1. f_equal. f_equal.
  unfold rv. rewrite Rabs_mult, sgn_abs by exact S1. pose proof (F2R_pos (mman s) (mexp s) S2).
  rewrite Rabs_pos_eq by lra. ring.
Qed.

Theorem pow_general_directed s n prec r : regular s -> 0 < prec ->
  side r (rv (pow_general s n prec r)) (rv s ^ Pos.to_nat n).
Proof.
  intros Hs Hp. destruct (pow_general_side s n prec r Hs Hp) as [c [Hc [E D]]].
  rewrite E, rv_pow_abs by exact Hs.
  apply side_of_dir; auto.
  - apply land_sign_01. apply Hs.
  - apply pow_lt. apply Rabs_rv_pos. exact Hs.
Qed.

(* ---------- the whole positive-exponent function ---------- *)
Lemma pow_exact_format r prec rs e : 0 < prec -> (rs = 0 \/ rs = 1) -> RND r prec (sval rs 1 e) = sval rs 1 e.
Proof. intros Hp Hs. apply RND_exact; auto; try lia. change (bitcount 1) with 1. lia. Qed.

Lemma rv_pow_sval s n : regular s ->
  (rv s ^ Pos.to_nat n)%R = sval (Z.land (msign s) (Zpos n)) (mman s ^ Zpos n) (mexp s * Zpos n).
Proof. intros [S1 _]. rewrite rv_pow by exact S1. unfold sval. rewrite F2R_pow. reflexivity. Qed.

(* every branch other than the loop is correctly rounded; the loop branch is pow_general *)
Lemma mpf_pow_int_pos_cases s n prec r : regular s -> 0 < prec ->
  (rv (mpf_pow_int_pos s n prec r) = RND r prec (rv s ^ Pos.to_nat n)) \/
  (Zpos n <> 1 /\ Zpos n <> 2 /\ mman s <> 1 /\ 1000 <= mbc s * Zpos n /\ mpf_pow_int_pos s n prec r = pow_general s n prec r).
Proof.
  intros Hs Hp. pose proof Hs as [S1 [S2 [S3 S4]]].
  pose proof (rv_pow_sval s n Hs) as EX.
  destruct s as [sign man exp bc]. cbn [msign mman mexp mbc] in *. unfold mpf_pow_int_pos.
  destruct (Z.eqb_spec (Zpos n) 1) as [N1|N1].
  { left. rewrite mpf_pos_round by (auto using regular_fincanon). f_equal.
    replace n with 1%positive by lia. simpl. ring. }
  destruct (Z.eqb_spec (Zpos n) 2) as [N2|N2].
  { left. assert (n = 2%positive) by lia. subst n.
    destruct (Z.eqb_spec man 0) as [Z0|_]; [lia|].
    rewrite EX. replace (Z.land sign 2) with 0 by (destruct S1 as [->| ->]; reflexivity).
    replace (man ^ 2) with (man * man) by ring. replace (exp * 2) with (exp + exp) by ring.
    destruct (Z.eqb_spec (man * man) 1) as [M1|M1].
    - rewrite M1. rewrite pow_exact_format by auto. reflexivity.
    - pose proof (bitcount_pos man S2).
      rewrite S4. rewrite (mul_bc_exact man man) by lia.
      apply normalize1_round; auto; nia. }
  destruct (Z.eqb_spec man 1) as [M1|M1].
  { left. rewrite EX. subst man. rewrite Z.pow_1_l by lia.
    rewrite pow_exact_format by (auto using land_sign_01). reflexivity. }
  destruct (Z.ltb_spec (bc * Zpos n) 1000) as [Sm|Lg].
  { left. rewrite EX. apply normalize1_round; auto using land_sign_01.
    apply Z.pow_nonneg. lia. }
  right. repeat split; auto.
Qed.

Theorem mpf_pow_int_pos_small s n prec r : regular s -> 0 < prec ->
  (Zpos n = 1 \/ Zpos n = 2 \/ mman s = 1 \/ mbc s * Zpos n < 1000) ->
  rv (mpf_pow_int_pos s n prec r) = RND r prec (rv s ^ Pos.to_nat n).
Proof.
  intros Hs Hp H. destruct (mpf_pow_int_pos_cases s n prec r Hs Hp) as [E|[A [B [C [D _]]]]]; [exact E|lia].
Qed.

Theorem mpf_pow_int_pos_directed s n prec r : regular s -> 0 < prec ->
  side r (rv (mpf_pow_int_pos s n prec r)) (rv s ^ Pos.to_nat n).
Proof.
  intros Hs Hp. destruct (mpf_pow_int_pos_cases s n prec r Hs Hp) as [E|[_ [_ [_ [_ E]]]]]; rewrite E.
  - apply RND_side. exact Hp.
  - apply pow_general_directed; assumption.
Qed.

(* exact results are returned exactly: if x^n fits in prec bits the small branch returns it *)
Theorem mpf_pow_int_pos_exact s n prec r : regular s -> 0 < prec ->
  (Zpos n = 1 \/ Zpos n = 2 \/ mman s = 1 \/ mbc s * Zpos n < 1000) -> bitcount (mman s ^ Zpos n) <= prec ->
  rv (mpf_pow_int_pos s n prec r) = (rv s ^ Pos.to_nat n)%R.
Proof.
  intros Hs Hp H Hb. rewrite mpf_pow_int_pos_small by assumption.
  rewrite rv_pow_sval by exact Hs. destruct Hs as [S1 [S2 _]].
  apply RND_exact; auto using land_sign_01. apply Z.pow_pos_nonneg; lia.
Qed.

(* ---------- the result is a regular number with the sign of x^n (needed to invert it) ---------- *)
Lemma normalize_regular_bcok sign man exp bc prec r :
  (sign = 0 \/ sign = 1) -> 0 < man -> bc_ok man bc -> 0 < prec ->
  regular (normalize sign man exp bc prec r) /\ msign (normalize sign man exp bc prec r) = sign.
Proof.
  intros Hs Hm Hb Hp.
  assert (FS : forall m e b, msign (finish sign m e b) = sign).
  { intros m e b. unfold finish. destruct (strip_trailing m e b) as [[m' e'] b']. reflexivity. }
  unfold normalize. destruct (Z.eqb_spec man 0) as [Z0|_]; [lia|].
  destruct (Z.ltb_spec 0 (bc - prec)) as [L|G]; (split; [|apply FS]).
  - destruct Hb as [E|[Hk E]].
    + destruct (round_mant_bc_ok sign man (bc - prec) prec r) as [Hok Hpos]; try lia.
      apply finish_regular; auto.
    + subst man. rewrite round_mant_pow2 by lia. replace (bc - (bc - prec)) with prec by lia.
      apply finish_regular; auto; [apply Z.pow_pos_nonneg; lia|right; split; [lia|reflexivity]].
  - apply finish_regular; auto.
Qed.

Lemma pow_general_regular s n prec r : regular s -> 0 < prec ->
  regular (pow_general s n prec r) /\ msign (pow_general s n prec r) = Z.land (msign s) (Zpos n).
Proof.
  intros [S1 [S2 [S3 S4]]] Hp. unfold pow_general.
  set (rs := Z.land (msign s) (Zpos n)). set (rd := rnd_eqb r RN || shifts_down r rs).
  set (wp := prec + 4 * bitcount (Zpos n) + 4).
  assert (Hwp : 1 <= wp) by (unfold wp; pose proof (bitcount_nonneg (Zpos n)); lia).
  assert (G1 : good 1 1).
  { unfold good. change (bitcount 1) with 1. split; [lia|]. split; [lia|]. left; reflexivity. }
  assert (Gm : good (mman s) (mbc s)).
  { pose proof (bitcount_pos (mman s) S2). unfold good. split; [lia|]. split; [lia|]. left; exact S4. }
  assert (B0 : (0 < F2R (Float radix2 (mman s) (mexp s)))%R) by (apply F2R_pos; exact S2).
  pose proof (pow_loop_dir rd wp Hwp n 1 0 1 (mman s) (mexp s) (mbc s) 1%R _ G1 Gm Rlt_0_1 B0) as L.
  assert (D1 : Rdir rd (F2R (Float radix2 1 0)) 1).
  { replace (F2R (Float radix2 1 0)) with 1%R by (unfold F2R; simpl; ring). destruct rd; apply Rle_refl. }
  assert (D2 : Rdir rd (F2R (Float radix2 (mman s) (mexp s))) (F2R (Float radix2 (mman s) (mexp s)))) by (destruct rd; apply Rle_refl).
  specialize (L D1 D2).
  destruct (pow_loop n rd wp 1 0 1 (mman s) (mexp s) (mbc s)) as [[pm pe] pbc].
  destruct L as [[Gp [Gb Gk]] _].
  apply normalize_regular_bcok; auto. apply land_sign_01; exact S1.
Qed.

Lemma fincanon_nz_regular x : fincanon x -> rv x <> 0%R -> regular x.
Proof. intros [->|H] Hn; [exfalso; apply Hn; apply rv_fzero|exact H]. Qed.

Theorem mpf_pow_int_pos_regular s n prec r : regular s -> 0 < prec ->
  regular (mpf_pow_int_pos s n prec r) /\ msign (mpf_pow_int_pos s n prec r) = Z.land (msign s) (Zpos n).
Proof.
  intros Hs Hp. pose proof Hs as [S1 [S2 [S3 S4]]].
  destruct (mpf_pow_int_pos_cases s n prec r Hs Hp) as [_|[N1 [N2 [M1 [Lg E]]]]].
  2:{ rewrite E. apply pow_general_regular; assumption. }
  destruct s as [sign man exp bc]. cbn [msign mman mexp mbc] in *. unfold mpf_pow_int_pos.
  assert (NM : forall sg m e, (sg = 0 \/ sg = 1) -> 0 < m -> Z.odd m = true ->
     regular (normalize1 sg m e (bitcount m) prec r) /\ msign (normalize1 sg m e (bitcount m) prec r) = sg).
  { intros sg m e Hsg Hm Ho. unfold normalize1. destruct (Z.eqb_spec m 0) as [Z0|_]; [lia|].
    destruct (Z.leb_spec (bitcount m) prec) as [Le|Gt].
    - split; [|reflexivity]. unfold regular; cbn [msign mman mexp mbc]. auto.
    - destruct (round_mant_bc_ok sg m (bitcount m - prec) prec r) as [Hok Hpos]; try lia.
      split; [apply finish_regular; auto|].
      unfold finish. destruct (strip_trailing _ _ _) as [[m' e'] b']. reflexivity. }
  destruct (Z.eqb_spec (Zpos n) 1) as [N1|N1].
  { replace (Z.land sign (Z.pos n)) with sign by (rewrite N1; destruct S1 as [->| ->]; reflexivity).
    unfold mpf_pos. destruct (Z.eqb_spec prec 0) as [P0|_]; [lia|].
    rewrite (fincanon_not_special _ (regular_fincanon _ Hs)).
    cbn [msign mman mexp mbc]. rewrite S4. apply NM; auto. }
  destruct (Z.eqb_spec (Zpos n) 2) as [N2|N2].
  { replace (Z.land sign (Z.pos n)) with 0 by (rewrite N2; destruct S1 as [->| ->]; reflexivity).
    destruct (Z.eqb_spec man 0) as [Z0|_]; [lia|].
    destruct (Z.eqb_spec (man * man) 1) as [M1|M1].
    - split; [|reflexivity]. unfold regular; cbn [msign mman mexp mbc]. split; [auto|]. split; [lia|]. split; reflexivity.
    - pose proof (bitcount_pos man S2). rewrite S4. rewrite (mul_bc_exact man man) by lia.
      apply NM; auto; [nia|rewrite Z.odd_mul, S3; reflexivity]. }
  destruct (Z.eqb_spec man 1) as [M1|M1].
  { split; [|reflexivity]. unfold regular; cbn [msign mman mexp mbc]. pose proof (land_sign_01 sign n S1). split; [auto|]. split; [lia|]. split; reflexivity. }
  destruct (Z.ltb_spec (bc * Zpos n) 1000) as [Sm|Lg].
  { apply NM; [apply land_sign_01; exact S1|apply Z.pow_pos_nonneg; lia|rewrite Z.odd_pow by lia; exact S3]. }
  apply (pow_general_regular (Mpf sign man exp bc) n prec r); auto.
Qed.

(* ---------- negative exponents: the reciprocal with the swapped rounding mode ---------- *)
Lemma recip_dir r rs d A : (rs = 0 \/ rs = 1) -> (0 < d)%R -> (0 < A)%R -> r <> RN ->
  side (reciprocal_rnd r) (sgn rs * d) (sgn rs * A) ->
  Rdir (rnd_eqb r RN || shifts_down r rs) (/ d) (/ A).
Proof.
  intros Hs Hd HA Hr S.
  assert (I1 : (A <= d -> / d <= / A)%R) by (intros; apply Rinv_le_contravar; lra).
  assert (I2 : (d <= A -> / A <= / d)%R) by (intros; apply Rinv_le_contravar; lra).
  destruct r; cbn [reciprocal_rnd side rnd_eqb shifts_down orb] in *; try congruence.
  - destruct Hs as [->| ->]; unfold sgn, Rdir in *; cbn [Z.eqb negb] in *; [apply I1|apply I2]; lra.
  - destruct Hs as [->| ->]; unfold sgn, Rdir in *; cbn [Z.eqb negb] in *; [apply I2|apply I1]; lra.
  - rewrite !Rabs_mult, sgn_abs in S by exact Hs. rewrite !Rabs_pos_eq in S by lra. unfold Rdir. apply I1. lra.
  - rewrite !Rabs_mult, sgn_abs in S by exact Hs. rewrite !Rabs_pos_eq in S by lra. unfold Rdir. apply I2. lra.
Qed.

Lemma sgn_inv rs x : (rs = 0 \/ rs = 1) -> (x <> 0)%R -> (/ (sgn rs * x) = sgn rs * / x)%R.
Proof. intros [->| ->] Hx; unfold sgn; cbn [Z.eqb]; field; exact Hx. Qed.

Lemma fincanon_fone : fincanon fone.
Proof. right. unfold regular, fone; cbn [msign mman mexp mbc]. split; [auto|]. split; [lia|]. split; reflexivity. Qed.

Lemma rv_fone : rv fone = 1%R.
Proof. unfold rv, fone, sgn, F2R; simpl. ring. Qed.

Theorem mpf_pow_int_neg_directed s p prec r : regular s -> 0 < prec ->
  exists y, mpf_pow_int s (Zneg p) prec r = Ok y /\ side r (rv y) (/ (rv s ^ Pos.to_nat p)).
Proof.
  intros Hs Hp. unfold mpf_pow_int. rewrite (fincanon_not_special _ (regular_fincanon _ Hs)).
  destruct (Z.eqb_spec (Zpos p) 1) as [P1|P1].
  - destruct (mpf_div_round fone s prec r) as [y [E V]]; [exact fincanon_fone|exact Hs|exact Hp|].
    exists y. split; [exact E|]. rewrite V, rv_fone. replace p with 1%positive by lia.
    replace (/ rv s ^ Pos.to_nat 1)%R with (1 / rv s)%R by (simpl; unfold Rdiv; rewrite Rmult_1_r, Rmult_1_l; reflexivity).
    apply RND_side. exact Hp.
  - set (inv := mpf_pow_int_pos s p (prec + 5) (reciprocal_rnd r)).
    destruct (mpf_pow_int_pos_regular s p (prec + 5) (reciprocal_rnd r) Hs ltac:(lia)) as [Ri Si]. fold inv in Ri, Si.
    pose proof (mpf_pow_int_pos_directed s p (prec + 5) (reciprocal_rnd r) Hs ltac:(lia)) as Sd. fold inv in Sd.
    destruct (mpf_div_round fone inv prec r) as [y [E V]]; [exact fincanon_fone|exact Ri|exact Hp|].
    exists y. split; [exact E|]. rewrite V, rv_fone.
    set (rs := Z.land (msign s) (Zpos p)) in *.
    assert (Hrs : rs = 0 \/ rs = 1) by (apply land_sign_01, Hs).
    pose proof Ri as [_ [I2 _]].
    set (d := F2R (Float radix2 (mman inv) (mexp inv))).
    assert (Hd : (0 < d)%R) by (apply F2R_pos; exact I2).
    assert (Ei : rv inv = (sgn rs * d)%R) by (unfold rv; rewrite Si; reflexivity).
    set (A := (Rabs (rv s) ^ Pos.to_nat p)%R).
    assert (HA : (0 < A)%R) by (apply pow_lt, Rabs_rv_pos; exact Hs).
    rewrite rv_pow_abs in * by exact Hs. fold rs A in Sd |- *. rewrite Ei in *.
    unfold Rdiv. rewrite Rmult_1_l, !sgn_inv by (auto; lra).
    destruct (rnd_eqb r RN) eqn:ER.
    + destruct r; try discriminate. exact I.
    + apply side_of_dir; auto using Rinv_0_lt_compat.
      apply recip_dir; auto. intros ->. discriminate.
Qed.
