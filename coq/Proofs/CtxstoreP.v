(* CtxstoreP.v — C38: an operation on one context never changes another (frame property), for every history. *)
From Coq Require Import ZArith List Bool Lia.
From MP Require Import Algo.Str Algo.Ctxstore.
Import ListNotations.
Open Scope Z_scope.

Lemma nth_upd_other s i j v d : i <> j -> nth j (upd s i v) d = nth j s d.
Proof.
  revert i j. induction s as [|x r IH]; intros i j H; destruct i, j; cbn; try reflexivity; try congruence.
  apply IH. congruence.
Qed.

Lemma length_upd s i v : length (upd s i v) = length s.
Proof. revert i. induction s as [|x r IH]; intros [|i]; cbn; auto. Qed.

Definition target (o : cop) : nat := match o with CSetPrec i _ | CSetDps i _ | CClone i | CCompute i => i end.

(* one step: every context other than the target keeps its state; cloning only appends *)
Theorem cstep_frame s o j d : j <> target o -> (j < length s)%nat -> nth j (cstep s o) d = nth j s d.
Proof.
  intros Hj Hl. destruct o as [i n|i n|i|i]; cbn [cstep target] in *.
  - apply nth_upd_other. congruence.
  - apply nth_upd_other. congruence.
  - apply app_nth1. exact Hl.
  - reflexivity.
Qed.

Lemma cstep_length s o : (length s <= length (cstep s o))%nat.
Proof. destruct o; cbn [cstep]; rewrite ?length_upd, ?app_length; cbn [length]; lia. Qed.

(* clones are exact copies of the precision *)
Lemma clone_aux (x : cstate) p dp : x = (p, dp) -> 1 <= p ->
  fst (let '(p0, _) := x in (Z.max 1 p0, prec_to_dps p0)) = p.
Proof. intros -> Hp. cbn. lia. Qed.

Theorem clone_same_prec s i p dp : nth i s (53, 15) = (p, dp) -> 1 <= p ->
  fst (nth (length s) (cstep s (CClone i)) (0, 0)) = p.
Proof.
  intros H Hp. cbn [cstep]. rewrite app_nth2 by (unfold ge; apply Nat.le_refl). rewrite Nat.sub_diag. cbn [nth].
  exact (clone_aux _ p dp H Hp).
Qed.

(* any history that never targets context j leaves it unchanged *)
Theorem crun_frame ops : forall s j d, (j < length s)%nat -> Forall (fun o => target o <> j) ops ->
  nth j (crun s ops) d = nth j s d.
Proof.
  induction ops as [|o r IH]; intros s j d Hl Hall; [reflexivity|].
  inversion Hall as [|? ? Ho Hr]; subst. cbn [crun fold_left].
  change (fold_left cstep r (cstep s o)) with (crun (cstep s o) r).
  rewrite IH; auto.
  - apply cstep_frame; auto.
  - pose proof (cstep_length s o). lia.
Qed.
