(* Spec/Round.v — the mathematical specification of "correctly rounded to p bits".
   mpmath's number format (p-bit mantissa, unbounded exponent) is exactly Flocq's FLX format,
   and its five rounding modes are the five standard integer roundings. *)
From Coq Require Import ZArith Reals.
From Flocq Require Import Core.
From MP Require Import Algo.Base.
Open Scope R_scope.

Definition Zrnd_of (r : rnd) : R -> Z :=
  match r with RN => ZnearestE | RF => Zfloor | RC => Zceil | RD => Ztrunc | RU => Zaway end.

(* the p-bit number selected by rounding mode r for the real x *)
Definition RND (r : rnd) (p : Z) (x : R) : R := round radix2 (FLX_exp p) (Zrnd_of r) x.

Definition sgn (sign : Z) : R := if (sign =? 0)%Z then 1 else -1.

(* real value of a finite raw mpf *)
Definition rv (x : mpf) : R := sgn (msign x) * F2R (Float radix2 (mman x) (mexp x)).

(* value of (-1)^sign * man * 2^exp *)
Definition sval (sign man exp : Z) : R := sgn sign * F2R (Float radix2 man exp).
