(* Spec/Mpf.v — what it means for a raw mpf tuple to be canonical (property C01). Pure Z. *)
From Coq Require Import ZArith Bool Lia.
From MP Require Import Algo.Base.
Open Scope Z_scope.

(* a regular nonzero number: sign bit, positive odd mantissa, exactly recorded bit length *)
Definition regular (x : mpf) : Prop :=
  (msign x = 0 \/ msign x = 1) /\ 0 < mman x /\ Z.odd (mman x) = true /\ mbc x = bitcount (mman x).

Definition canonical (x : mpf) : Prop :=
  x = fzero \/ x = fnan \/ x = finf \/ x = fninf \/ regular x.

(* finite canonical value (zero or regular) *)
Definition fincanon (x : mpf) : Prop := x = fzero \/ regular x.

Definition canonicalb (x : mpf) : bool :=
  mpf_eqb x fzero || mpf_eqb x fnan || mpf_eqb x finf || mpf_eqb x fninf ||
  (((msign x =? 0) || (msign x =? 1)) && (0 <? mman x) && Z.odd (mman x) && (mbc x =? bitcount (mman x))).

Lemma mpf_eqb_eq a b : mpf_eqb a b = true <-> a = b.
Proof.
  destruct a, b; unfold mpf_eqb; simpl.
  rewrite !andb_true_iff, !Z.eqb_eq. split.
  - intros [[[-> ->] ->] ->]; reflexivity.
  - intros H; injection H as -> -> -> ->; auto.
Qed.

Lemma canonicalb_spec x : canonicalb x = true <-> canonical x.
Proof.
  unfold canonicalb, canonical, regular.
  rewrite !orb_true_iff, !andb_true_iff, !orb_true_iff, !mpf_eqb_eq, !Z.eqb_eq, Z.ltb_lt. tauto.
Qed.

Lemma fincanon_canonical x : fincanon x -> canonical x.
Proof. unfold fincanon, canonical; tauto. Qed.
