(* C24 — function evaluations terminate.  Pure Z/nat.
   Proved: the stop conditions of the loops the property is anchored in fire after a bounded number of iterations for
   every sequence of computed terms: (1) asymptotic-series loops that stop when a term size is below the threshold or
   no longer decreases (mpf_psi0; mpc_psi0 since fix f8f4ac8 — before it the complex loop had no divergence test and ran
   forever on harmonic(mpc(-1.49185824, 1)) at 24 bits), bounded by size(2) - eps + 1 iterations; (2) the
   precision-doubling retry of hypsum/hypercomb; (3) giant_steps.  Everything else is decided by the watchdog sweep. *)
From Coq Require Import ZArith List.
From MP Require Import Proofs.Termination.
Import ListNotations.
Open Scope Z_scope.

Theorem C24_series_loop_terminates : forall (size : nat -> Z) (eps : Z),
  exists k, (3 <= k <= 3 + Z.to_nat (size 2%nat - eps))%nat /\ stops size eps k = true.
Proof. exact series_loop_terminates. Qed.
Print Assumptions C24_series_loop_terminates.

Theorem C24_doubling_terminates : forall x maxp, 0 <= x -> exists n, doubling (S (Z.to_nat (maxp - x + 1))) x maxp = Some n.
Proof. exact doubling_terminates. Qed.

Theorem C24_giant_steps_terminates : forall start target n, 2 <= n -> 2 <= start ->
  exists l, giant (S (Z.to_nat target)) start n target [target] = Some l.
Proof. exact giant_steps_terminates. Qed.
Print Assumptions C24_giant_steps_terminates.

Example C24_giant_steps_sample : giant 100 50 2 1000 [1000] = Some [66; 128; 253; 502; 1000].
Proof. reflexivity. Qed.
