(* C14 — real interval operations contain every exact result (arithmetic part proved so far: + - neg pos, finite
   endpoints of any length, every precision incl. exact).  The result is again a valid interval. *)
From Coq Require Import ZArith Reals.
From MP Require Import Algo.Base Algo.Libmpf Algo.Libmpi Spec.Mpf Spec.Round Proofs.IvCmp Proofs.IvContain.
Open Scope Z_scope.

Theorem C14_add_contains : forall s t prec x y, valid_iv s -> valid_iv t -> 0 <= prec -> in_iv s x -> in_iv t y ->
  in_iv (mpi_add s t prec) (x + y) /\ valid_iv (mpi_add s t prec).
Proof. exact mpi_add_contains. Qed.
Print Assumptions C14_add_contains.
Theorem C14_sub_contains : forall s t prec x y, valid_iv s -> valid_iv t -> 0 <= prec -> in_iv s x -> in_iv t y ->
  in_iv (mpi_sub s t prec) (x - y) /\ valid_iv (mpi_sub s t prec).
Proof. exact mpi_sub_contains. Qed.
Theorem C14_neg_contains : forall s prec x, valid_iv s -> 0 <= prec -> in_iv s x ->
  in_iv (mpi_neg s prec) (- x) /\ valid_iv (mpi_neg s prec).
Proof. exact mpi_neg_contains. Qed.
Theorem C14_pos_contains : forall s prec x, valid_iv s -> 0 <= prec -> in_iv s x ->
  in_iv (mpi_pos s prec) x /\ valid_iv (mpi_pos s prec).
Proof. exact mpi_pos_contains. Qed.
