(* C14 — real interval operations contain every exact result: + - neg pos * square abs / sqrt x^n (n>0), finite endpoints of any
   length, every precision (incl. exact where the operation allows it), every pair of member reals.  The result is again
   a valid interval.  Not covered by theorems: infinite endpoints, division by an interval containing 0 (result is the
   whole line), negative powers and the elementary functions (decided by correspondence / certificates). *)
From Coq Require Import ZArith Reals.
From MP Require Import Algo.Base Algo.Libmpf Algo.Libmpi Spec.Mpf Spec.Round Proofs.IvCmp Proofs.IvContain Proofs.IvMul Proofs.IvDiv Proofs.IvSqrt Proofs.IvPow.
Open Scope Z_scope.

Theorem C14_add_contains : forall s t prec x y, valid_iv s -> valid_iv t -> 0 <= prec -> in_iv s x -> in_iv t y ->
  in_iv (mpi_add s t prec) (x + y) /\ valid_iv (mpi_add s t prec).
Proof. exact mpi_add_contains. Qed.
Print Assumptions C14_add_contains.
Theorem C14_sub_contains : forall s t prec x y, valid_iv s -> valid_iv t -> 0 <= prec -> in_iv s x -> in_iv t y ->
  in_iv (mpi_sub s t prec) (x - y) /\ valid_iv (mpi_sub s t prec).
Proof. exact mpi_sub_contains. Qed.
Theorem C14_neg_contains : forall s prec x, valid_iv s -> 0 <= prec -> in_iv s x ->
  in_iv (mpi_neg s prec) (- x) /\ valid_iv (mpi_neg s prec).
Proof. exact mpi_neg_contains. Qed.
Theorem C14_pos_contains : forall s prec x, valid_iv s -> 0 <= prec -> in_iv s x ->
  in_iv (mpi_pos s prec) x /\ valid_iv (mpi_pos s prec).
Proof. exact mpi_pos_contains. Qed.

Theorem C14_mul_contains : forall s t prec x y, valid_iv s -> valid_iv t -> 0 <= prec -> in_iv s x -> in_iv t y ->
  in_iv (mpi_mul s t prec) (x * y) /\ valid_iv (mpi_mul s t prec).
Proof. exact mpi_mul_contains. Qed.
Print Assumptions C14_mul_contains.
Theorem C14_square_contains : forall s prec x, valid_iv s -> 0 <= prec -> in_iv s x ->
  in_iv (mpi_square s prec) (x * x) /\ valid_iv (mpi_square s prec).
Proof. exact mpi_square_contains. Qed.
Theorem C14_abs_contains : forall s prec x, valid_iv s -> 0 <= prec -> in_iv s x ->
  in_iv (mpi_abs s prec) (Rabs x) /\ valid_iv (mpi_abs s prec).
Proof. exact mpi_abs_contains. Qed.
Theorem C14_div_contains : forall s t prec x y, valid_iv s -> valid_iv t -> 0 < prec ->
  ((0 < rv (fst t))%R \/ (rv (snd t) < 0)%R) -> in_iv s x -> in_iv t y ->
  exists r, mpi_div s t prec = Ok r /\ in_iv r (x / y) /\ valid_iv r.
Proof. exact mpi_div_contains. Qed.
Print Assumptions C14_div_contains.
Theorem C14_sqrt_contains : forall s prec x, valid_iv s -> (0 <= rv (fst s))%R -> 0 < prec -> in_iv s x ->
  exists r, mpi_sqrt s prec = Ok r /\ in_iv r (sqrt x) /\ valid_iv r.
Proof. exact mpi_sqrt_contains. Qed.
Theorem C14_pow_contains : forall s p prec x, valid_iv s -> 0 < prec -> in_iv s x ->
  exists r, mpi_pow_int_pos s (Zpos p) prec = Ok r /\ in_iv r (x ^ Pos.to_nat p) /\ valid_iv r.
Proof. exact mpi_pow_int_pos_contains. Qed.
Print Assumptions C14_pow_contains.
(* non-vacuity: a mixed-sign product takes the min/max branch *)
Example C14_mixed : mpi_mul (Mpf 1 1 0 1, Mpf 0 1 1 1) (Mpf 1 3 0 2, Mpf 0 1 0 1) 53 = (Mpf 1 3 1 2, Mpf 0 3 0 2).  (* [-1,2]*[-3,1] = [-6,3] *)
Proof. vm_compute. reflexivity. Qed.

(* negative powers: 1 / x^n, whenever the (prec+20)-bit enclosure of x^n excludes zero *)
From MP Require Import Proofs.IvCplxPow.
Theorem C14_pow_neg_contains : forall s p prec x, valid_iv s -> 0 < prec -> in_iv s x ->
  forall w, mpi_pow_int_pos s (Zpos p) (prec + 20) = Ok w -> ((0 < rv (fst w))%R \/ (rv (snd w) < 0)%R) ->
  exists r, mpi_pow_int s (Zneg p) prec = Ok r /\ in_iv r (1 / x ^ Pos.to_nat p) /\ valid_iv r.
Proof. exact mpi_pow_int_neg_contains. Qed.
