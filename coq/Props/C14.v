(* C14 — real interval operations contain every exact result: + - neg pos * square abs / sqrt x^n (n>0), finite endpoints of any
   length, every precision (incl. exact where the operation allows it), every pair of member reals.  The result is again
   a valid interval.  Not covered by theorems: infinite endpoints, division by an interval containing 0 (result is the
   whole line), negative powers and the elementary functions (decided by correspondence / certificates). *)
From Coq Require Import ZArith Reals.
From MP Require Import Algo.Base Algo.Libmpf Algo.Libmpi Spec.Mpf Spec.Round Proofs.IvCmp Proofs.IvContain Proofs.IvMul Proofs.IvDiv Proofs.IvSqrt Proofs.IvPow.
Open Scope Z_scope.

Theorem C14_add_contains : forall s t prec x y, valid_iv s -> valid_iv t -> 0 <= prec -> in_iv s x -> in_iv t y ->
  in_iv (mpi_add s t prec) (x + y) /\ valid_iv (mpi_add s t prec).
Proof. exact mpi_add_contains. Qed.
Print Assumptions C14_add_contains.
Theorem C14_sub_contains : forall s t prec x y, valid_iv s -> valid_iv t -> 0 <= prec -> in_iv s x -> in_iv t y ->
  in_iv (mpi_sub s t prec) (x - y) /\ valid_iv (mpi_sub s t prec).
Proof. exact mpi_sub_contains. Qed.
Theorem C14_neg_contains : forall s prec x, valid_iv s -> 0 <= prec -> in_iv s x ->
  in_iv (mpi_neg s prec) (- x) /\ valid_iv (mpi_neg s prec).
Proof. exact mpi_neg_contains. Qed.
Theorem C14_pos_contains : forall s prec x, valid_iv s -> 0 <= prec -> in_iv s x ->
  in_iv (mpi_pos s prec) x /\ valid_iv (mpi_pos s prec).
Proof. exact mpi_pos_contains. Qed.

Theorem C14_mul_contains : forall s t prec x y, valid_iv s -> valid_iv t -> 0 <= prec -> in_iv s x -> in_iv t y ->
  in_iv (mpi_mul s t prec) (x * y) /\ valid_iv (mpi_mul s t prec).
Proof. exact mpi_mul_contains. Qed.
Print Assumptions C14_mul_contains.
Theorem C14_square_contains : forall s prec x, valid_iv s -> 0 <= prec -> in_iv s x ->
  in_iv (mpi_square s prec) (x * x) /\ valid_iv (mpi_square s prec).
Proof. exact mpi_square_contains. Qed.
Theorem C14_abs_contains : forall s prec x, valid_iv s -> 0 <= prec -> in_iv s x ->
  in_iv (mpi_abs s prec) (Rabs x) /\ valid_iv (mpi_abs s prec).
Proof. exact mpi_abs_contains. Qed.
Theorem C14_div_contains : forall s t prec x y, valid_iv s -> valid_iv t -> 0 < prec ->
  ((0 < rv (fst t))%R \/ (rv (snd t) < 0)%R) -> in_iv s x -> in_iv t y ->
  exists r, mpi_div s t prec = Ok r /\ in_iv r (x / y) /\ valid_iv r.
Proof. exact mpi_div_contains. Qed.
Print Assumptions C14_div_contains.
Theorem C14_sqrt_contains : forall s prec x, valid_iv s -> (0 <= rv (fst s))%R -> 0 < prec -> in_iv s x ->
  exists r, mpi_sqrt s prec = Ok r /\ in_iv r (sqrt x) /\ valid_iv r.
Proof. exact mpi_sqrt_contains. Qed.
Theorem C14_pow_contains : forall s p prec x, valid_iv s -> 0 < prec -> in_iv s x ->
  exists r, mpi_pow_int_pos s (Zpos p) prec = Ok r /\ in_iv r (x ^ Pos.to_nat p) /\ valid_iv r.
Proof. exact mpi_pow_int_pos_contains. Qed.
Print Assumptions C14_pow_contains.
(* non-vacuity: a mixed-sign product takes the min/max branch *)
Example C14_mixed : mpi_mul (Mpf 1 1 0 1, Mpf 0 1 1 1) (Mpf 1 3 0 2, Mpf 0 1 0 1) 53 = (Mpf 1 3 1 2, Mpf 0 3 0 2).  (* [-1,2]*[-3,1] = [-6,3] *)
Proof. vm_compute. reflexivity. Qed.

(* negative powers: 1 / x^n, whenever the (prec+20)-bit enclosure of x^n excludes zero *)
From MP Require Import Proofs.IvCplxPow.
Theorem C14_pow_neg_contains : forall s p prec x, valid_iv s -> 0 < prec -> in_iv s x ->
  forall w, mpi_pow_int_pos s (Zpos p) (prec + 20) = Ok w -> ((0 < rv (fst w))%R \/ (rv (snd w) < 0)%R) ->
  exists r, mpi_pow_int s (Zneg p) prec = Ok r /\ in_iv r (1 / x ^ Pos.to_nat p) /\ valid_iv r.
Proof. exact mpi_pow_int_neg_contains. Qed.

(* exp and log on intervals: the point function (mpf_exp / mpf_log at the working precision prec + 20) is an input of the
   model; whenever its two values are within a relative 2^(9-wp) of the exact ones (hypothesis `close`, monitored on
   every sampled call against a high-precision evaluation), the outward step makes the result contain exp x / ln x for
   every member point x. *)
From MP Require Import Proofs.IvOutward.
Theorem C14_outward_floor : forall v prec F, fincanon v -> 0 < prec -> close (prec + 20) (rv v) F ->
  (rv (mpi_outward v prec RF) <= F)%R /\ fincanon (mpi_outward v prec RF).
Proof. exact mpi_outward_floor. Qed.
Theorem C14_outward_ceil : forall v prec F, fincanon v -> 0 < prec -> close (prec + 20) (rv v) F ->
  (F <= rv (mpi_outward v prec RC))%R /\ fincanon (mpi_outward v prec RC).
Proof. exact mpi_outward_ceil. Qed.
Theorem C14_exp_contains : forall s va vb prec x, valid_iv s -> in_iv s x -> 0 < prec -> fincanon va -> fincanon vb ->
  close (prec + 20) (rv va) (exp (rv (fst s))) -> close (prec + 20) (rv vb) (exp (rv (snd s))) ->
  in_iv (mpi_exp_from s va vb prec) (exp x) /\ valid_iv (mpi_exp_from s va vb prec).
Proof. exact mpi_exp_contains. Qed.
Print Assumptions C14_exp_contains.
Theorem C14_log_contains : forall s va vb prec x, valid_iv s -> in_iv s x -> (0 < rv (fst s))%R -> 0 < prec -> fincanon va -> fincanon vb ->
  close (prec + 20) (rv va) (ln (rv (fst s))) -> close (prec + 20) (rv vb) (ln (rv (snd s))) ->
  in_iv (mpi_log_from va vb prec) (ln x) /\ valid_iv (mpi_log_from va vb prec).
Proof. exact mpi_log_contains. Qed.

(* cos, sin, tan, cot on intervals: the point values of mpf_cos_sin and the quadrant indices of mod_pi2 at the two end
   points are inputs of the model (qa = (cos a, sin a, na), qb likewise, at the working precision); under the monitored
   hypotheses `quad` (the index is right) and `close` (the values are within a relative 2^(9-wp)), the extremum logic, the
   min/max selection, the outward factor and the clamp to [-1, 1] yield intervals containing cos t and sin t for every
   member point t; tan and cot follow through the division theorem. *)
From MP Require Import Proofs.IvTrig.
Theorem C14_cos_sin_contains : forall s ca sa na cb sb nb prec t, valid_iv s -> in_iv s t -> 0 < prec ->
  fincanon ca -> fincanon sa -> fincanon cb -> fincanon sb ->
  quad na (rv (fst s)) -> quad nb (rv (snd s)) ->
  close (prec + 20) (rv ca) (cos (rv (fst s))) -> close (prec + 20) (rv sa) (sin (rv (fst s))) ->
  close (prec + 20) (rv cb) (cos (rv (snd s))) -> close (prec + 20) (rv sb) (sin (rv (snd s))) ->
  let '(Cv, Sv) := mpi_cos_sin_from s (ca, sa, na) (cb, sb, nb) prec in
  (in_iv Cv (cos t) /\ valid_iv Cv) /\ (in_iv Sv (sin t) /\ valid_iv Sv).
Proof. exact mpi_cos_sin_contains. Qed.
Print Assumptions C14_cos_sin_contains.
Theorem C14_tan_contains : forall s ca sa na cb sb nb prec t, valid_iv s -> in_iv s t -> 0 < prec ->
  fincanon ca -> fincanon sa -> fincanon cb -> fincanon sb ->
  quad na (rv (fst s)) -> quad nb (rv (snd s)) ->
  close (prec + 20 + 20) (rv ca) (cos (rv (fst s))) -> close (prec + 20 + 20) (rv sa) (sin (rv (fst s))) ->
  close (prec + 20 + 20) (rv cb) (cos (rv (snd s))) -> close (prec + 20 + 20) (rv sb) (sin (rv (snd s))) ->
  let Cv := fst (mpi_cos_sin_from s (ca, sa, na) (cb, sb, nb) (prec + 20)) in
  ((0 < rv (fst Cv))%R \/ (rv (snd Cv) < 0)%R) ->
  exists r, mpi_tan_from s (ca, sa, na) (cb, sb, nb) prec = Ok r /\ in_iv r (tan t) /\ valid_iv r.
Proof. exact mpi_tan_contains. Qed.
Theorem C14_cot_contains : forall s ca sa na cb sb nb prec t, valid_iv s -> in_iv s t -> 0 < prec ->
  fincanon ca -> fincanon sa -> fincanon cb -> fincanon sb ->
  quad na (rv (fst s)) -> quad nb (rv (snd s)) ->
  close (prec + 20 + 20) (rv ca) (cos (rv (fst s))) -> close (prec + 20 + 20) (rv sa) (sin (rv (fst s))) ->
  close (prec + 20 + 20) (rv cb) (cos (rv (snd s))) -> close (prec + 20 + 20) (rv sb) (sin (rv (snd s))) ->
  let Sv := snd (mpi_cos_sin_from s (ca, sa, na) (cb, sb, nb) (prec + 20)) in
  ((0 < rv (fst Sv))%R \/ (rv (snd Sv) < 0)%R) ->
  exists r, mpi_cot_from s (ca, sa, na) (cb, sb, nb) prec = Ok r /\ in_iv r (cos t / sin t) /\ valid_iv r.
Proof. exact mpi_cot_contains. Qed.
(* the extremum logic on exact inputs: [1, 2] spans pi/2 (quadrants 0 and 1), so sin's upper end becomes 1 *)
Example C14_sin_max_inside :
  snd (snd (mpi_cos_sin_from (fone, ftwo) (Mpf 0 9 (-4) 4, Mpf 0 27 (-5) 5, 0) (Mpf 1 13 (-5) 4, Mpf 0 29 (-5) 5, 1) 10)) = fone.
Proof. vm_compute. reflexivity. Qed.

(* general real power exp(t ln s) and cosh/sinh, by composition; the point values are inputs as above *)
From MP Require Import Proofs.IvCompose.
Theorem C14_pow_general_contains : forall s t la lb ea eb prec x y, valid_iv s -> valid_iv t -> in_iv s x -> in_iv t y ->
  (0 < rv (fst s))%R -> 0 < prec -> fincanon la -> fincanon lb -> fincanon ea -> fincanon eb ->
  close (prec + 20 + 20) (rv la) (ln (rv (fst s))) -> close (prec + 20 + 20) (rv lb) (ln (rv (snd s))) ->
  let v := mpi_pow_v t la lb prec in
  close (prec + 20) (rv ea) (exp (rv (fst v))) -> close (prec + 20) (rv eb) (exp (rv (snd v))) ->
  in_iv (mpi_pow_from t la lb ea eb prec) (Rpower x y) /\ valid_iv (mpi_pow_from t la lb ea eb prec).
Proof. exact mpi_pow_contains. Qed.
Theorem C14_cosh_sinh_contains : forall s va vb prec x, valid_iv s -> in_iv s x -> 0 < prec -> fincanon va -> fincanon vb ->
  close (prec + 20 + 20) (rv va) (exp (rv (fst s))) -> close (prec + 20 + 20) (rv vb) (exp (rv (snd s))) ->
  exists c sh, mpi_cosh_sinh_from s va vb prec = Ok (c, sh) /\
    (in_iv c (cosh x) /\ valid_iv c) /\ (in_iv sh (sinh x) /\ valid_iv sh).
Proof. exact mpi_cosh_sinh_contains. Qed.
Print Assumptions C14_cosh_sinh_contains.
