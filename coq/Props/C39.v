(* C39 — magnitude / classification / ldexp helpers are exact. *)
From Coq Require Import ZArith Reals.
From Flocq Require Import Core.
From MP Require Import Algo.Base Algo.Libmpf Algo.Ctxfun Spec.Mpf Spec.Round Proofs.Mag.
Open Scope Z_scope.

(* mag of a finite nonzero mpf is optimal: 2^(m-1) <= |x| < 2^m *)
Theorem C39_mag : forall x, regular x ->
  exists m, mpf_mag x = XFin m /\ (bpow radix2 (m - 1) <= Rabs (rv x) < bpow radix2 m)%R.
Proof. exact mpf_mag_spec. Qed.
Print Assumptions C39_mag.
Theorem C39_mag_special : mpf_mag fzero = XNinf /\ mpf_mag finf = XPinf /\ mpf_mag fninf = XPinf /\ mpf_mag fnan = XNan.
Proof. exact mpf_mag_special. Qed.
Theorem C39_isint : forall x, regular x -> (mpf_isint x = true <-> exists n : Z, rv x = IZR n).
Proof. exact mpf_isint_spec. Qed.
Theorem C39_ldexp_exact : forall x n, regular x -> rv (ctx_ldexp x n) = (rv x * bpow radix2 n)%R /\ regular (ctx_ldexp x n).
Proof. exact ldexp_exact. Qed.
