(* C39 — magnitude / classification / ldexp helpers are exact. *)
From Coq Require Import ZArith Reals.
From Flocq Require Import Core.
From MP Require Import Algo.Base Algo.Libmpf Algo.Ctxfun Spec.Mpf Spec.Round Proofs.Mag.
Open Scope Z_scope.

(* mag of a finite nonzero mpf is optimal: 2^(m-1) <= |x| < 2^m *)
Theorem C39_mag : forall x, regular x ->
  exists m, mpf_mag x = XFin m /\ (bpow radix2 (m - 1) <= Rabs (rv x) < bpow radix2 m)%R.
Proof. exact mpf_mag_spec. Qed.
Print Assumptions C39_mag.
Theorem C39_mag_special : mpf_mag fzero = XNinf /\ mpf_mag finf = XPinf /\ mpf_mag fninf = XPinf /\ mpf_mag fnan = XNan.
Proof. exact mpf_mag_special. Qed.
Theorem C39_isint : forall x, regular x -> (mpf_isint x = true <-> exists n : Z, rv x = IZR n).
Proof. exact mpf_isint_spec. Qed.
Theorem C39_ldexp_exact : forall x n, regular x -> rv (ctx_ldexp x n) = (rv x * bpow radix2 n)%R /\ regular (ctx_ldexp x n).
Proof. exact ldexp_exact. Qed.

(* ---- nint_distance: nearest integer and exact magnitude of the distance ---- *)
From MP Require Import Proofs.NintDist.
Theorem C39_nint_distance : forall re, regular re ->
  exists n d, nint_distance_mpf re = Ok (n, d) /\ nd_ok (rv re) n d.
Proof. exact nint_distance_spec. Qed.
Print Assumptions C39_nint_distance.
Example C39_half_integer : nint_distance_mpf (Mpf 1 5 (-1) 3) = Ok (-3, XFin 0).   (* -2.5 -> -3 (away from zero), |x - n| = 1/2 in [2^-1, 2^0) *)
Proof. vm_compute. reflexivity. Qed.

(* ---- frexp and isnpint ---- *)
From MP Require Import Proofs.Mag2.
Theorem C39_frexp : forall x, regular x ->
  exists m e, mpf_frexp x = Ok (m, e) /\ regular m /\ rv x = (rv m * bpow radix2 e)%R /\ (/ 2 <= Rabs (rv m) < 1)%R.
Proof. exact mpf_frexp_spec. Qed.
Theorem C39_isnpint : forall x, regular x -> (mpf_isnpint x = true <-> exists n : Z, n <= 0 /\ rv x = IZR n).
Proof. exact mpf_isnpint_spec. Qed.
