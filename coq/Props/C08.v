(* C08 — printed numbers round-trip and are nearest decimal approximations.  Pure Z.
   Proved: (1) repr prints enough digits: 10^(repr_dps p - 1) > 2^p for every precision 1 <= p <= 3000 (finite sweep,
   bound in the statement) — the classical (Matula) condition under which p-bit binary -> decimal -> p-bit binary with
   correct rounding in both directions is the identity; this sweep FAILED at p = 54 before the fix to repr_dps.
   (2) when the mantissa fits in the conversion precision (bc <= bitprec), the decimal digit integer produced by
   to_digits_exp is exactly floor(x * 10^fixdps): nothing is lost before the half-up rounding of to_str.
   (3),(4) below: the decimal rounding step.
   Not proved: nearest-ness when bc > bitprec is false (known finding C08-nstr-long-mantissa). *)
From Coq Require Import ZArith List.
Import ListNotations.
From MP Require Import Algo.Base Algo.Libmpf Algo.Str Proofs.StrDigits.
Open Scope Z_scope.

Theorem C08_repr_dps_sufficient : forall p, 1 <= p <= 3000 -> 2 ^ p < 10 ^ (repr_dps p - 1).
Proof. exact repr_dps_sufficient. Qed.
Print Assumptions C08_repr_dps_sufficient.

Theorem C08_to_digits_exact : forall man exp bc bitprec fixdps,
  0 < man -> bc = bitcount man -> bc <= bitprec -> 0 <= fixdps -> exp < 0 -> 0 <= bitprec - exp - bc ->
  let sd := fst (to_digits_core man exp bc bitprec fixdps) in
  sd * 2 ^ (- exp) <= man * 10 ^ fixdps < (sd + 1) * 2 ^ (- exp).
Proof. exact to_digits_exact. Qed.
Print Assumptions C08_to_digits_exact.

(* (3) the decimal rounding step: the digit list of sd is its base-10 expansion (dval), and keeping dps of its L digits is
   round-half-up of sd / 10^(L-dps), a carry out of the top digit moving the exponent; (4) with (2): the printed digits are
   within half a unit of the last printed place (plus one unit of the last place of sd) of the exact x * 10^fixdps. *)
From MP Require Import Proofs.StrRoundDigits.
Theorem C08_dec_digits_expansion : forall n, 0 <= n -> Forall digit (dec_digits n) /\ dval (dec_digits n) = n.
Proof. exact dec_digits_spec. Qed.
Theorem C08_round_digits : forall sd dps e, 0 < sd -> 0 < dps ->
  let L := zlen (dec_digits sd) in
  let '(dg, e') := round_digits sd dps e in
  Forall digit dg /\
  (L <= dps -> dval dg = sd /\ e' = e) /\
  (dps < L -> zlen dg = dps /\ (e' = e \/ e' = e + 1) /\
              dval dg * 10 ^ (e' - e) = half_up sd (10 ^ (L - dps))).
Proof. exact round_digits_spec. Qed.
Print Assumptions C08_round_digits.
Theorem C08_digits_near : forall man exp bc bitprec fixdps dps,
  0 < man -> bc = bitcount man -> bc <= bitprec -> 0 <= fixdps -> exp < 0 -> 0 <= bitprec - exp - bc -> 0 < dps ->
  let '(sd, ex) := to_digits_core man exp bc bitprec fixdps in
  0 < sd -> dps < zlen (dec_digits sd) ->
  let u := 10 ^ (zlen (dec_digits sd) - dps) in
  let '(dg, e') := round_digits sd dps ex in
  2 * Z.abs (dval dg * 10 ^ (e' - ex) * u * 2 ^ (- exp) - man * 10 ^ fixdps) <= (u + 2) * 2 ^ (- exp).
Proof. exact to_str_digits_near. Qed.
Print Assumptions C08_digits_near.
Example C08_round_carry : round_digits 99960 3 1 = ([1; 0; 0], 2).     (* 9.996 at 3 digits -> 1.00e+1 *)
Proof. vm_compute. reflexivity. Qed.
(* non-vacuity / behaviour samples of the printing model (character codes): 1.5 -> "1.5", 255 at 2 digits -> "2.6e+2" *)
Example C08_sample : to_str (Mpf 0 3 (-1) 2) 15 true (-5) 15 false 69 20 = [49; 46; 53].
Proof. vm_compute. reflexivity. Qed.
