(* C08 — printed numbers round-trip and are nearest decimal approximations.  Pure Z.
   Proved: (1) repr prints enough digits: 10^(repr_dps p - 1) > 2^p for every precision 1 <= p <= 3000 (finite sweep,
   bound in the statement) — the classical (Matula) condition under which p-bit binary -> decimal -> p-bit binary with
   correct rounding in both directions is the identity; this sweep FAILED at p = 54 before the fix to repr_dps.
   (2) when the mantissa fits in the conversion precision (bc <= bitprec), the decimal digit integer produced by
   to_digits_exp is exactly floor(x * 10^fixdps): nothing is lost before the half-up rounding of to_str.
   Not proved: nearest-ness when bc > bitprec is false (known finding C08-nstr-long-mantissa). *)
From Coq Require Import ZArith List.
Import ListNotations.
From MP Require Import Algo.Base Algo.Libmpf Algo.Str Proofs.StrDigits.
Open Scope Z_scope.

Theorem C08_repr_dps_sufficient : forall p, 1 <= p <= 3000 -> 2 ^ p < 10 ^ (repr_dps p - 1).
Proof. exact repr_dps_sufficient. Qed.
Print Assumptions C08_repr_dps_sufficient.

Theorem C08_to_digits_exact : forall man exp bc bitprec fixdps,
  0 < man -> bc = bitcount man -> bc <= bitprec -> 0 <= fixdps -> exp < 0 -> 0 <= bitprec - exp - bc ->
  let sd := fst (to_digits_core man exp bc bitprec fixdps) in
  sd * 2 ^ (- exp) <= man * 10 ^ fixdps < (sd + 1) * 2 ^ (- exp).
Proof. exact to_digits_exact. Qed.
Print Assumptions C08_to_digits_exact.

(* non-vacuity / behaviour samples of the printing model (character codes): 1.5 -> "1.5", 255 at 2 digits -> "2.6e+2" *)
Example C08_sample : to_str (Mpf 0 3 (-1) 2) 15 true (-5) 15 false 69 20 = [49; 46; 53].
Proof. vm_compute. reflexivity. Qed.
