(* C09 — conversion to and from machine floats is exact or correctly rounded.
   from_float: frexp gives f = (m53 / 2^53) * 2^e with m53 an integer, |m53| < 2^53; mpmath builds from_man_exp(m53, e-53, prec, rnd).
   to_float:   the value is rounded to 53 bits (nearest-even by default) and then handed to math.ldexp, which is exact in the
               normal range (ldexp itself is the C library's: trusted, and cross-checked by the correspondence on every run). *)
From Coq Require Import ZArith Reals.
From Flocq Require Import Core.
From MP Require Import Algo.Base Algo.Libmpf Algo.Ctxfun Spec.Mpf Spec.Round Proofs.FloatConv.
Open Scope Z_scope.

Theorem C09_from_float_exact : forall m53 e prec r, Z.abs m53 < 2 ^ 53 -> 53 <= prec ->
  rv (from_float_parts m53 e prec r) = F2R (Float radix2 m53 (e - 53)).
Proof. exact from_float_exact. Qed.
Print Assumptions C09_from_float_exact.
Theorem C09_from_float_round : forall m53 e prec r, 0 < prec ->
  rv (from_float_parts m53 e prec r) = RND r prec (F2R (Float radix2 m53 (e - 53))).
Proof. exact from_float_round. Qed.
Theorem C09_to_float_round : forall s r, regular s ->
  let '(m, e) := to_float_parts s r in F2R (Float radix2 m e) = RND r 53 (rv s).
Proof. exact to_float_round. Qed.
Print Assumptions C09_to_float_round.
Example C09_nonvacuous : from_float_parts (2^52 + 1) 1 53 RN = Mpf 0 (2^52 + 1) (-52) 53. Proof. vm_compute. reflexivity. Qed.
