(* C25 — integer-valued functions are exact.  Pure Z.
   Universal part: the memoised factorial (libintmath.ifac with its growing cache and cache limit) returns n! for
   every sequence of calls (history independence).  The other functions are compared with the definitional references
   of Algo/Intfun.v on exhaustive finite ranges by vm_compute at check time (tables read from the live code). *)
From Coq Require Import ZArith List.
From MP Require Import Algo.Intfun Proofs.IntfunP.
Import ListNotations.
Open Scope Z_scope.

Theorem C25_ifac_call : forall maxc m n, 1 <= maxc -> fm_inv m -> 0 <= n ->
  fst (ifac_call maxc m n) = zfact n /\ fm_inv (snd (ifac_call maxc m n)).
Proof. exact ifac_call_spec. Qed.
Print Assumptions C25_ifac_call.

Theorem C25_ifac_history : forall maxc, 1 <= maxc -> forall ns m, fm_inv m -> Forall (fun n => 0 <= n) ns ->
  run_calls maxc m ns = map zfact ns.
Proof. exact ifac_history. Qed.
Print Assumptions C25_ifac_history.

Example C25_initial_cache_ok : fm_inv {| fm_len := 2; fm_last := 1 |}.
Proof. exact fm_init_inv. Qed.
