(* C25 — integer-valued functions are exact.  Pure Z.
   Universal part: the memoised factorial (libintmath.ifac with its growing cache and cache limit) returns n! for
   every sequence of calls (history independence).  The other functions are compared with the definitional references
   of Algo/Intfun.v on exhaustive finite ranges by vm_compute at check time (tables read from the live code). *)
From Coq Require Import ZArith List.
From MP Require Import Algo.Intfun Proofs.IntfunP.
Import ListNotations.
Open Scope Z_scope.

Theorem C25_ifac_call : forall maxc m n, 1 <= maxc -> fm_inv m -> 0 <= n ->
  fst (ifac_call maxc m n) = zfact n /\ fm_inv (snd (ifac_call maxc m n)).
Proof. exact ifac_call_spec. Qed.
Print Assumptions C25_ifac_call.

Theorem C25_ifac_history : forall maxc, 1 <= maxc -> forall ns m, fm_inv m -> Forall (fun n => 0 <= n) ns ->
  run_calls maxc m ns = map zfact ns.
Proof. exact ifac_history. Qed.
Print Assumptions C25_ifac_history.

(* ifib (Dijkstra's logarithmic algorithm with its cache of the values below 250): equals the Fibonacci recurrence for every
   n >= 0, F(-n) = (-1)^(n+1) F(n), for every sequence of calls *)
Theorem C25_ifib : forall n, 0 <= n -> ifib_nonneg n = zfib n.
Proof. exact ifib_nonneg_spec. Qed.
Print Assumptions C25_ifib.
Theorem C25_ifib_history : forall ns c, fc_inv c -> fib_calls c ns = map zfib_signed ns.
Proof. exact ifib_history. Qed.
Print Assumptions C25_ifib_history.
Example C25_ifib_sample : fib_calls [] [10; -7; 10; 300; 0] = [55; 13; 55; 222232244629420445529739893461909967206666939096499764990979600; 0].
Proof. vm_compute. reflexivity. Qed.
(* ifac2 (double factorial with one memo dictionary per parity, values stored up to the cache limit): n!! for every n >= 0 and
   every sequence of calls; the invariant includes that the keys of one parity are stored contiguously, without which a miss
   below the largest key would return the wrong value *)
Theorem C25_ifac2_call : forall maxc cs n, f2_pair_inv maxc cs -> 0 <= n ->
  fst (ifac2_call maxc cs n) = zfact2 n /\ f2_pair_inv maxc (snd (ifac2_call maxc cs n)).
Proof. exact ifac2_call_spec. Qed.
Theorem C25_ifac2_history : forall maxc ns cs, f2_pair_inv maxc cs -> Forall (fun n => 0 <= n) ns ->
  fac2_calls maxc cs ns = map zfact2 ns.
Proof. exact ifac2_history. Qed.
Print Assumptions C25_ifac2_history.
Example C25_ifac2_initial : f2_pair_inv 1000 ([(0, 1)], [(1, 1)]).
Proof. exact f2_init_inv. Qed.
Example C25_initial_cache_ok : fm_inv {| fm_len := 2; fm_last := 1 |}.
Proof. exact fm_init_inv. Qed.
