(* C15 — complex (rectangular) interval operations contain every exact complex result: + - neg pos * square on finite
   rectangles, every precision, every member point.  Division, powers and the elementary functions on rectangles are
   decided by correspondence / certificates, not by theorems here. *)
From Coq Require Import ZArith Reals.
From MP Require Import Algo.Base Algo.Libmpf Algo.Libmpi Spec.Mpf Spec.Round Proofs.IvCmp Proofs.IvCplx.
Open Scope Z_scope.

Theorem C15_add_contains : forall z w prec a b c d, valid_civ z -> valid_civ w -> 0 <= prec -> in_civ z a b -> in_civ w c d ->
  in_civ (mpci_add z w prec) (a + c) (b + d) /\ valid_civ (mpci_add z w prec).
Proof. exact mpci_add_contains. Qed.
Theorem C15_sub_contains : forall z w prec a b c d, valid_civ z -> valid_civ w -> 0 <= prec -> in_civ z a b -> in_civ w c d ->
  in_civ (mpci_sub z w prec) (a - c) (b - d) /\ valid_civ (mpci_sub z w prec).
Proof. exact mpci_sub_contains. Qed.
Theorem C15_neg_contains : forall z prec a b, valid_civ z -> 0 <= prec -> in_civ z a b ->
  in_civ (mpci_neg z prec) (- a) (- b) /\ valid_civ (mpci_neg z prec).
Proof. exact mpci_neg_contains. Qed.
Theorem C15_pos_contains : forall z prec a b, valid_civ z -> 0 <= prec -> in_civ z a b ->
  in_civ (mpci_pos z prec) a b /\ valid_civ (mpci_pos z prec).
Proof. exact mpci_pos_contains. Qed.
Theorem C15_mul_contains : forall z w prec a b c d, valid_civ z -> valid_civ w -> 0 <= prec -> in_civ z a b -> in_civ w c d ->
  in_civ (mpci_mul z w prec) (a * c - b * d) (a * d + b * c) /\ valid_civ (mpci_mul z w prec).
Proof. exact mpci_mul_contains. Qed.
Print Assumptions C15_mul_contains.
Theorem C15_square_contains : forall z prec a b, valid_civ z -> 0 <= prec -> in_civ z a b ->
  in_civ (mpci_square z prec) (a * a - b * b) (2 * (a * b)) /\ valid_civ (mpci_square z prec).
Proof. exact mpci_square_contains. Qed.
Example C15_witness : mpci_mul ((fone, fone), (fone, fone)) ((fone, fone), (fone, fone)) 53 = ((fzero, fzero), (Mpf 0 1 1 1, Mpf 0 1 1 1)).  (* (1+i)^2 = 2i *)
Proof. vm_compute. reflexivity. Qed.
