(* C15 — complex (rectangular) interval operations contain every exact complex result: + - neg pos * square on finite
   rectangles, every precision, every member point; division (when the enclosure of |w|^2 excludes zero) and positive integer
   powers (loop invariant by induction on the bits of the exponent).  The elementary functions on rectangles are decided by
   certificates, not by theorems here. *)
From Coq Require Import ZArith Reals.
From MP Require Import Algo.Base Algo.Libmpf Algo.Libmpi Spec.Mpf Spec.Round Proofs.IvCmp Proofs.IvCplx Proofs.CplxPow Proofs.IvCplxPow.
Open Scope Z_scope.

Theorem C15_add_contains : forall z w prec a b c d, valid_civ z -> valid_civ w -> 0 <= prec -> in_civ z a b -> in_civ w c d ->
  in_civ (mpci_add z w prec) (a + c) (b + d) /\ valid_civ (mpci_add z w prec).
Proof. exact mpci_add_contains. Qed.
Theorem C15_sub_contains : forall z w prec a b c d, valid_civ z -> valid_civ w -> 0 <= prec -> in_civ z a b -> in_civ w c d ->
  in_civ (mpci_sub z w prec) (a - c) (b - d) /\ valid_civ (mpci_sub z w prec).
Proof. exact mpci_sub_contains. Qed.
Theorem C15_neg_contains : forall z prec a b, valid_civ z -> 0 <= prec -> in_civ z a b ->
  in_civ (mpci_neg z prec) (- a) (- b) /\ valid_civ (mpci_neg z prec).
Proof. exact mpci_neg_contains. Qed.
Theorem C15_pos_contains : forall z prec a b, valid_civ z -> 0 <= prec -> in_civ z a b ->
  in_civ (mpci_pos z prec) a b /\ valid_civ (mpci_pos z prec).
Proof. exact mpci_pos_contains. Qed.
Theorem C15_mul_contains : forall z w prec a b c d, valid_civ z -> valid_civ w -> 0 <= prec -> in_civ z a b -> in_civ w c d ->
  in_civ (mpci_mul z w prec) (a * c - b * d) (a * d + b * c) /\ valid_civ (mpci_mul z w prec).
Proof. exact mpci_mul_contains. Qed.
Print Assumptions C15_mul_contains.
Theorem C15_square_contains : forall z prec a b, valid_civ z -> 0 <= prec -> in_civ z a b ->
  in_civ (mpci_square z prec) (a * a - b * b) (2 * (a * b)) /\ valid_civ (mpci_square z prec).
Proof. exact mpci_square_contains. Qed.
Theorem C15_div_contains : forall z w prec a b c d, valid_civ z -> valid_civ w -> 0 < prec -> in_civ z a b -> in_civ w c d ->
  let m := mpi_add (mpi_square (fst w) 0) (mpi_square (snd w) 0) (prec + 20) in
  (0 < rv (fst m))%R ->
  exists q, mpci_div z w prec = Ok q /\ valid_civ q /\
    in_civ q ((a * c + b * d) / (c * c + d * d)) ((b * c - a * d) / (c * c + d * d)).
Proof. exact mpci_div_contains. Qed.
Theorem C15_pow_contains : forall z n prec a b, valid_civ z -> 0 < prec -> in_civ z a b -> 3 <= Zpos n ->
  let r := mpci_pow_int_pos z n prec in
  valid_civ r /\ in_civ r (fst (rpow (a, b) (Pos.to_nat n))) (snd (rpow (a, b) (Pos.to_nat n))).
Proof. exact mpci_pow_int_pos_contains. Qed.
Print Assumptions C15_pow_contains.
Example C15_witness : mpci_mul ((fone, fone), (fone, fone)) ((fone, fone), (fone, fone)) 53 = ((fzero, fzero), (Mpf 0 1 1 1, Mpf 0 1 1 1)).  (* (1+i)^2 = 2i *)
Proof. vm_compute. reflexivity. Qed.

(* |z|, exp z, cos z, sin z on rectangles.  mpci_abs needs no input; for the others the values of mpf_exp / mpf_cos_sin /
   mod_pi2 at the end points are inputs of the model under the monitored hypotheses `close` and `quad` (see Props/C14.v). *)
From MP Require Import Proofs.IvOutward Proofs.IvTrig Proofs.IvCompose.
Theorem C15_abs_contains : forall z prec a b, valid_civ z -> 0 < prec -> in_civ z a b ->
  exists r, mpci_abs z prec = Ok r /\ in_iv r (sqrt (a * a + b * b)) /\ valid_iv r.
Proof. exact mpci_abs_contains. Qed.
Print Assumptions C15_abs_contains.
Theorem C15_exp_contains : forall z va vb ca sa na cb sb nb prec a b, valid_civ z -> in_civ z a b -> 0 < prec ->
  fincanon va -> fincanon vb -> fincanon ca -> fincanon sa -> fincanon cb -> fincanon sb ->
  close (prec + 20 + 20) (rv va) (exp (rv (fst (fst z)))) -> close (prec + 20 + 20) (rv vb) (exp (rv (snd (fst z)))) ->
  quad na (rv (fst (snd z))) -> quad nb (rv (snd (snd z))) ->
  close (prec + 20 + 20) (rv ca) (cos (rv (fst (snd z)))) -> close (prec + 20 + 20) (rv sa) (sin (rv (fst (snd z)))) ->
  close (prec + 20 + 20) (rv cb) (cos (rv (snd (snd z)))) -> close (prec + 20 + 20) (rv sb) (sin (rv (snd (snd z)))) ->
  let w := mpci_exp_from z va vb (ca, sa, na) (cb, sb, nb) prec in
  in_civ w (exp a * cos b) (exp a * sin b) /\ valid_civ w.
Proof. exact mpci_exp_contains. Qed.
Theorem C15_cos_sin_contains : forall z ca sa na cb sb nb va vb prec a b, valid_civ z -> in_civ z a b -> 0 < prec ->
  fincanon ca -> fincanon sa -> fincanon cb -> fincanon sb -> fincanon va -> fincanon vb ->
  quad na (rv (fst (fst z))) -> quad nb (rv (snd (fst z))) ->
  close (prec + 10 + 20) (rv ca) (cos (rv (fst (fst z)))) -> close (prec + 10 + 20) (rv sa) (sin (rv (fst (fst z)))) ->
  close (prec + 10 + 20) (rv cb) (cos (rv (snd (fst z)))) -> close (prec + 10 + 20) (rv sb) (sin (rv (snd (fst z)))) ->
  close (prec + 10 + 20 + 20) (rv va) (exp (rv (fst (snd z)))) -> close (prec + 10 + 20 + 20) (rv vb) (exp (rv (snd (snd z)))) ->
  (exists w, mpci_cos_from z (ca, sa, na) (cb, sb, nb) va vb prec = Ok w /\
     in_civ w (cos a * cosh b) (- (sin a * sinh b)) /\ valid_civ w) /\
  (exists w, mpci_sin_from z (ca, sa, na) (cb, sb, nb) va vb prec = Ok w /\
     in_civ w (sin a * cosh b) (cos a * sinh b) /\ valid_civ w).
Proof. exact mpci_cos_sin_contains. Qed.
Print Assumptions C15_cos_sin_contains.

(* the argument of a rectangle (mpi_atan2 / mpci_arg, hence the imaginary part of mpci_log): mpf_atan2 is not modelled; the
   model says at which two corners of the rectangle it is evaluated (compared with the arguments of the live calls).  In each
   open half-plane the angle of every member point lies between the angles at the two chosen corners; on the real axis and
   for rectangles meeting the branch cut the plan is [0,0], [pi,pi], [0,pi] or [-pi,pi] (the last two since fix a833e27). *)
From MP Require Import Proofs.IvAtan2.
Theorem C15_arg_right : forall y x v u, valid_iv y -> valid_iv x -> in_iv y v -> in_iv x u -> (0 < rv (fst x))%R ->
  (rv (fst y) <> 0 \/ rv (snd y) <> 0)%R ->
  exists ca cb, mpi_atan2_plan y x = AtCorners ca cb /\
    (corner_ang ang_right ca <= ang_right v u <= corner_ang ang_right cb)%R.
Proof. exact atan2_right. Qed.
Theorem C15_arg_upper : forall y x v u, valid_iv y -> valid_iv x -> in_iv y v -> in_iv x u -> (rv (fst x) < 0)%R -> (0 < rv (fst y))%R ->
  exists ca cb, mpi_atan2_plan y x = AtCorners ca cb /\
    (corner_ang ang_upper ca <= ang_upper v u <= corner_ang ang_upper cb)%R.
Proof. exact atan2_upper. Qed.
Theorem C15_arg_lower : forall y x v u, valid_iv y -> valid_iv x -> in_iv y v -> in_iv x u -> (rv (fst x) < 0)%R -> (rv (snd y) < 0)%R ->
  exists ca cb, mpi_atan2_plan y x = AtCorners ca cb /\
    (corner_ang ang_lower ca <= ang_lower v u <= corner_ang ang_lower cb)%R.
Proof. exact atan2_lower. Qed.
Print Assumptions C15_arg_lower.
Theorem C15_arg_axis : forall x, valid_iv x ->
  mpi_atan2_plan (fzero, fzero) x =
    if Rle_dec 0 (rv (fst x)) then AtZero else if Rlt_dec (rv (snd x)) 0 then AtPi else AtZeroPi.
Proof. exact atan2_axis_plan. Qed.
Theorem C15_arg_cut : forall y x, valid_iv y -> valid_iv x -> (rv (fst y) < 0 <= rv (snd y))%R -> (rv (fst x) < 0)%R ->
  mpi_atan2_plan y x = AtOrigin.
Proof. exact atan2_origin_plan. Qed.
