(* C01 — every real value has one canonical representation.
   Only statements here; each is closed by [exact] of a lemma proved in Proofs/. *)
From Coq Require Import ZArith Bool.
From MP Require Import Algo.Base Algo.Libmpf Spec.Mpf Proofs.Bits Proofs.Normalize Proofs.Canon.
Open Scope Z_scope.

(* the constructor almost every operation ends in returns zero or an odd mantissa with exact
   bit length, for every sign, mantissa, exponent, precision and rounding mode *)
Theorem C01_normalize_canonical : forall sign man exp bc prec r,
  (sign = 0 \/ sign = 1) -> 0 <= man -> bc = bitcount man -> 0 < prec ->
  canonical (normalize sign man exp bc prec r).
Proof. exact normalize_canonical. Qed.
Print Assumptions C01_normalize_canonical.

Theorem C01_normalize1_canonical : forall sign man exp bc prec r,
  (sign = 0 \/ sign = 1) -> 0 <= man -> (man = 0 \/ Z.odd man = true) -> bc = bitcount man -> 0 < prec ->
  canonical (normalize1 sign man exp bc prec r).
Proof. exact normalize1_canonical. Qed.
Print Assumptions C01_normalize1_canonical.

Theorem C01_from_man_exp_canonical : forall man exp prec r, 0 <= prec -> canonical (from_man_exp man exp prec r).
Proof. exact from_man_exp_canonical. Qed.
Print Assumptions C01_from_man_exp_canonical.

(* two canonical finite values are numerically equal exactly when the tuples are identical:
   value equality stated with integers, m1*2^e1 = m2*2^e2 cross-multiplied at the smaller exponent *)
Theorem C01_canonical_unique : forall x y, regular x -> regular y ->
  (msign x = msign y /\ mman x * 2 ^ (mexp x - Z.min (mexp x) (mexp y)) = mman y * 2 ^ (mexp y - Z.min (mexp x) (mexp y)))
  <-> x = y.
Proof. exact regular_unique. Qed.
Print Assumptions C01_canonical_unique.

(* closure of the modelled operations *)
Theorem C01_mul_canonical : forall s t prec r, canonical s -> canonical t -> 0 <= prec ->
  canonical (python_mpf_mul s t prec r).
Proof. exact python_mpf_mul_canonical. Qed.
Print Assumptions C01_mul_canonical.

Theorem C01_add_canonical : forall s t prec r, canonical s -> canonical t -> 0 <= prec ->
  canonical (mpf_add s t prec r).
Proof. exact mpf_add_canonical. Qed.
Print Assumptions C01_add_canonical.

Theorem C01_sub_canonical : forall s t prec r, canonical s -> canonical t -> 0 <= prec ->
  canonical (mpf_sub s t prec r).
Proof. exact mpf_sub_canonical. Qed.
Print Assumptions C01_sub_canonical.

Theorem C01_pos_neg_abs_canonical : forall s prec r, canonical s -> 0 <= prec ->
  canonical (mpf_pos s prec r) /\ canonical (mpf_neg s prec r) /\ canonical (mpf_abs s prec r).
Proof. exact pos_neg_abs_canonical. Qed.
Print Assumptions C01_pos_neg_abs_canonical.

Theorem C01_div_canonical : forall s t prec r y, canonical s -> canonical t -> 0 < prec ->
  mpf_div s t prec r = Ok y -> canonical y.
Proof. exact mpf_div_canonical. Qed.
Print Assumptions C01_div_canonical.

Theorem C01_sqrt_canonical : forall s prec r y, canonical s -> 0 < prec ->
  mpf_sqrt s prec r = Ok y -> canonical y.
Proof. exact mpf_sqrt_canonical. Qed.
Print Assumptions C01_sqrt_canonical.

(* non-vacuity: a concrete non-trivial canonical value produced by a rounding with carry *)
Example C01_witness : normalize 0 255 0 8 4 RN = Mpf 0 1 8 1 /\ canonical (Mpf 0 1 8 1).
Proof. split; [reflexivity|]. apply canonicalb_spec. reflexivity. Qed.

(* closure of the integer-part functions, modulo and integer powers (special values included) *)
From MP Require Import Proofs.CanonMore.
Theorem C01_floor_ceil_nint_canonical : forall s prec r v, canonical s -> 0 <= prec ->
  (mpf_floor s prec r = Ok v \/ mpf_ceil s prec r = Ok v \/ mpf_nint s prec r = Ok v) -> canonical v.
Proof. exact floor_ceil_nint_canonical. Qed.
Theorem C01_frac_canonical : forall s prec r v, canonical s -> 0 <= prec -> mpf_frac s prec r = Ok v -> canonical v.
Proof. exact frac_canonical. Qed.
Theorem C01_mod_canonical : forall s t prec r y, canonical s -> canonical t -> 0 < prec -> mpf_mod s t prec r = Ok y -> canonical y.
Proof. exact mod_canonical. Qed.
Theorem C01_pow_int_canonical : forall s n prec r y, canonical s -> 0 < prec -> mpf_pow_int s n prec r = Ok y -> canonical y.
Proof. exact pow_int_canonical. Qed.
Print Assumptions C01_pow_int_canonical.
