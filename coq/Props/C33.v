(* C33 — cached state never leaks stale or wrong results.  Pure Z / lists.
   Two caches are modelled as state machines and proved correct for every history of operations:
   ctx.memoize (a stored value is reused only if it was computed at a precision >= the requested one, and every stored
   value is the wrapped function's value at the stored precision) and the matrix LU cache (every decomposition handed
   out belongs to the current data version and was computed at a precision >= the requested one; item assignment and
   resizing invalidate).  The other caches are decided by the history/probe comparison of the check. *)
From Coq Require Import ZArith List.
From MP Require Import Algo.Caches Proofs.CachesP.
Import ListNotations.
Open Scope Z_scope.

Theorem C33_memoize_history : forall (f rnd : Z -> Z -> Z) calls c, minv f c ->
  Forall2 (fun call v => v = f (fst call) (snd call) \/ exists cp, snd call <= cp /\ v = rnd (f (fst call) cp) (snd call))
          calls (fst (mrun f rnd c calls)).
Proof. exact memoize_history. Qed.
Print Assumptions C33_memoize_history.

Theorem C33_lu_step : forall s o, lu_inv s ->
  lu_inv (fst (mstep s o)) /\
  match o, snd (mstep s o) with
  | MLU prec, Some (v, p) => v = mver s /\ prec <= p
  | MLU _, None => False
  | _, r => r = None
  end.
Proof. exact mstep_spec. Qed.
Print Assumptions C33_lu_step.

Theorem C33_lu_history : forall ops s, lu_inv s -> lu_inv (snd (mrun_ops s ops)).
Proof. exact lu_history. Qed.

Example C33_lu_witness :   (* compute at 53, raise precision, ask again: recomputed at 200 for the same version *)
  snd (mstep (fst (mstep {| mver := 0; mlu := None |} (MLU 53))) (MLU 200)) = Some (0, 200).
Proof. reflexivity. Qed.
