(* C05 — comparisons are exact.  (Hash agreement is decided by correspondence against the interpreter's hash().)
   cmp_ok c x y: c = -1 /\ x < y, or c = 0 /\ x = y, or c = 1 /\ y < x. *)
From Coq Require Import ZArith Reals.
From MP Require Import Algo.Base Algo.Libmpf Spec.Mpf Spec.Round Proofs.Cmp.
Open Scope Z_scope.

(* for all finite canonical values of any mantissa length and exponent, mpf_cmp is the sign of the exact difference
   (including the same-top-bit fallback that rounds s - t to 5 bits toward -inf) *)
Theorem C05_mpf_cmp_spec : forall s t, fincanon s -> fincanon t -> cmp_ok (mpf_cmp s t) (rv s) (rv t).
Proof. exact mpf_cmp_spec. Qed.
Print Assumptions C05_mpf_cmp_spec.

Theorem C05_lt : forall s t, fincanon s -> fincanon t -> (mpf_lt s t = true <-> (rv s < rv t)%R).
Proof. exact mpf_lt_spec. Qed.
Theorem C05_le : forall s t, fincanon s -> fincanon t -> (mpf_le s t = true <-> (rv s <= rv t)%R).
Proof. exact mpf_le_spec. Qed.
Theorem C05_gt : forall s t, fincanon s -> fincanon t -> (mpf_gt s t = true <-> (rv t < rv s)%R).
Proof. exact mpf_gt_spec. Qed.
Theorem C05_ge : forall s t, fincanon s -> fincanon t -> (mpf_ge s t = true <-> (rv t <= rv s)%R).
Proof. exact mpf_ge_spec. Qed.

(* nan is unordered and unequal to everything, including itself *)
Theorem C05_nan_unordered : forall s,
  mpf_lt fnan s = false /\ mpf_le fnan s = false /\ mpf_gt fnan s = false /\ mpf_ge fnan s = false /\
  mpf_lt s fnan = false /\ mpf_le s fnan = false /\ mpf_gt s fnan = false /\ mpf_ge s fnan = false /\
  mpf_eq fnan s = false /\ mpf_eq s fnan = false.
Proof. exact mpf_cmp_nan_false. Qed.

Example C05_witness : mpf_cmp (Mpf 0 5 (-1) 3) (Mpf 0 3 0 2) = -1.   (* 2.5 < 3: same top bit, decided by the subtraction *)
Proof. reflexivity. Qed.
