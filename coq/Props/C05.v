(* C05 — comparisons are exact and hashes follow the interpreter's numeric hash rule (proved below; agreement with the running interpreter's hash() on int/float/complex is additionally decided by correspondence).
   cmp_ok c x y: c = -1 /\ x < y, or c = 0 /\ x = y, or c = 1 /\ y < x. *)
From Coq Require Import ZArith Reals.
From MP Require Import Algo.Base Algo.Libmpf Spec.Mpf Spec.Round Proofs.Cmp.
Open Scope Z_scope.

(* for all finite canonical values of any mantissa length and exponent, mpf_cmp is the sign of the exact difference
   (including the same-top-bit fallback that rounds s - t to 5 bits toward -inf) *)
Theorem C05_mpf_cmp_spec : forall s t, fincanon s -> fincanon t -> cmp_ok (mpf_cmp s t) (rv s) (rv t).
Proof. exact mpf_cmp_spec. Qed.
Print Assumptions C05_mpf_cmp_spec.

Theorem C05_lt : forall s t, fincanon s -> fincanon t -> (mpf_lt s t = true <-> (rv s < rv t)%R).
Proof. exact mpf_lt_spec. Qed.
Theorem C05_le : forall s t, fincanon s -> fincanon t -> (mpf_le s t = true <-> (rv s <= rv t)%R).
Proof. exact mpf_le_spec. Qed.
Theorem C05_gt : forall s t, fincanon s -> fincanon t -> (mpf_gt s t = true <-> (rv t < rv s)%R).
Proof. exact mpf_gt_spec. Qed.
Theorem C05_ge : forall s t, fincanon s -> fincanon t -> (mpf_ge s t = true <-> (rv t <= rv s)%R).
Proof. exact mpf_ge_spec. Qed.

(* nan is unordered and unequal to everything, including itself *)
Theorem C05_nan_unordered : forall s,
  mpf_lt fnan s = false /\ mpf_le fnan s = false /\ mpf_gt fnan s = false /\ mpf_ge fnan s = false /\
  mpf_lt s fnan = false /\ mpf_le s fnan = false /\ mpf_gt s fnan = false /\ mpf_ge s fnan = false /\
  mpf_eq fnan s = false /\ mpf_eq s fnan = false.
Proof. exact mpf_cmp_nan_false. Qed.

Example C05_witness : mpf_cmp (Mpf 0 5 (-1) 3) (Mpf 0 3 0 2) = -1.   (* 2.5 < 3: same top bit, decided by the subtraction *)
Proof. reflexivity. Qed.

(* mpf against a Python int or float: the right operand is converted exactly, so the outcome is the comparison of the exact values *)
From Flocq Require Import Core.
From MP Require Import Algo.Ctxfun Proofs.CmpMixed.
Theorem C05_cmp_int : forall s n, fincanon s -> cmp_ok (mpf_cmp s (from_int n 0 RD)) (rv s) (IZR n).
Proof. exact mpf_cmp_int. Qed.
Theorem C05_cmp_float : forall s m53 e, fincanon s -> Z.abs m53 < 2 ^ 53 ->
  cmp_ok (mpf_cmp s (from_float_parts m53 e 53 RN)) (rv s) (F2R (Float radix2 m53 (e - 53))).
Proof. exact mpf_cmp_float. Qed.
Theorem C05_eq_int : forall s n, fincanon s -> (mpf_cmp s (from_int n 0 RD) = 0 <-> rv s = IZR n).
Proof. exact mpf_eq_int. Qed.

(* ---- hash part (pure Z, axiom-free): equal values hash equally across int / mpf / mpc ---- *)
From MP Require Import Algo.Libmpc Proofs.Hash.
Theorem C05_hash_int : forall x, regular x -> 0 <= mexp x ->
  mpf_hash x = py_int_hash ((if msign x =? 0 then 1 else -1) * (mman x * 2 ^ mexp x)).
Proof. exact mpf_hash_int. Qed.
Print Assumptions C05_hash_int.
Theorem C05_hash_dyadic : forall x, regular x -> mexp x < 0 ->
  exists h, 0 <= h < HASH_MODULUS /\ (h * 2 ^ (- mexp x)) mod HASH_MODULUS = mman x mod HASH_MODULUS /\
    mpf_hash x = (let s := if msign x =? 0 then h else - h in if s =? -1 then -2 else s).
Proof. exact mpf_hash_dyadic. Qed.
Theorem C05_hash_dyadic_unique : forall h1 h2 k m, 0 <= k -> 0 <= h1 < HASH_MODULUS -> 0 <= h2 < HASH_MODULUS ->
  (h1 * 2 ^ k) mod HASH_MODULUS = m mod HASH_MODULUS -> (h2 * 2 ^ k) mod HASH_MODULUS = m mod HASH_MODULUS -> h1 = h2.
Proof. exact dyadic_hash_unique. Qed.
Theorem C05_mpc_hash_real : forall x, fincanon x -> mpc_hash (x, fzero) = mpf_hash x.
Proof. exact mpc_hash_real. Qed.
Print Assumptions C05_mpc_hash_real.
Example C05_hash_witness : mpf_hash (Mpf 1 1 0 1) = -2 /\ mpf_hash (Mpf 0 1 (-1) 1) = 2 ^ 60.   (* hash(-1) = -2, hash(0.5) = 2^60 *)
Proof. split; vm_compute; reflexivity. Qed.
