(* C04 — complex arithmetic is correctly rounded per component (add, sub, mul, square(re), z*x, z+x; exact equality).
   Division family and powers are decided per instance by the exact-rational oracle of the check. *)
From Coq Require Import ZArith Reals.
From Flocq Require Import Core.
From MP Require Import Algo.Base Algo.Libmpf Algo.Libmpc Spec.Mpf Spec.Round Proofs.Cplx.
Open Scope Z_scope.

Theorem C04_add : forall z w prec r, cfin z -> cfin w -> 0 < prec ->
  cre (mpc_add z w prec r) = RND r prec (cre z + cre w) /\ cim (mpc_add z w prec r) = RND r prec (cim z + cim w).
Proof. exact mpc_add_round. Qed.
Theorem C04_sub : forall z w prec r, cfin z -> cfin w -> 0 < prec ->
  cre (mpc_sub z w prec r) = RND r prec (cre z - cre w) /\ cim (mpc_sub z w prec r) = RND r prec (cim z - cim w).
Proof. exact mpc_sub_round. Qed.
Theorem C04_mul : forall z w prec r, cfin z -> cfin w -> 0 < prec ->
  cre (mpc_mul z w prec r) = RND r prec (cre z * cre w - cim z * cim w) /\
  cim (mpc_mul z w prec r) = RND r prec (cre z * cim w + cim z * cre w).
Proof. exact mpc_mul_round. Qed.
Print Assumptions C04_mul.
Theorem C04_mul_mpf : forall z p prec r, cfin z -> fincanon p -> 0 < prec ->
  cre (mpc_mul_mpf z p prec r) = RND r prec (cre z * rv p) /\ cim (mpc_mul_mpf z p prec r) = RND r prec (cim z * rv p).
Proof. exact mpc_mul_mpf_round. Qed.
Theorem C04_add_mpf : forall z x prec r, cfin z -> fincanon x -> 0 < prec ->
  cre (mpc_add_mpf z x prec r) = RND r prec (cre z + rv x) /\ cim (mpc_add_mpf z x prec r) = cim z.
Proof. exact mpc_add_mpf_round. Qed.
Theorem C04_square_re : forall z prec r, cfin z -> 0 < prec ->
  cre (mpc_square z prec r) = RND r prec (cre z * cre z - cim z * cim z).
Proof. exact mpc_square_re. Qed.
Theorem C04_eq_exact : forall z w, mpc_eqb z w = true <-> z = w.
Proof. exact mpc_eqb_spec. Qed.

(* division: exact structural statement and an error bound relative to the modulus |z|/|w| *)
From MP Require Import Proofs.CplxDiv.
Theorem C04_div : forall z w prec r, cfin z -> cfin w -> (0 < cabs2 w)%R -> 0 < prec ->
  exists q, mpc_div z w prec r = Ok q /\ cfin q /\
    let wp := prec + 10 in
    let M := RND RD wp (cre w * cre w + cim w * cim w) in
    cre q = RND r prec (RND RD wp (cre z * cre w + cim z * cim w) / M) /\
    cim q = RND r prec (RND RD wp (cim z * cre w - cre z * cim w) / M) /\
    (Rabs (cre q - (cre z * cre w + cim z * cim w) / cabs2 w) <= 3 * bpow radix2 (- prec + 1) * sqrt (cabs2 z / cabs2 w))%R /\
    (Rabs (cim q - (cim z * cre w - cre z * cim w) / cabs2 w) <= 3 * bpow radix2 (- prec + 1) * sqrt (cabs2 z / cabs2 w))%R.
Proof. exact mpc_div_spec. Qed.
Print Assumptions C04_div.

(* modulus *)
From MP Require Import Proofs.CplxAbs.
Theorem C04_abs : forall x y prec r, fincanon x -> fincanon y -> (rv x <> 0)%R -> (rv y <> 0)%R -> 0 < prec ->
  exists v, mpf_hypot x y prec r = Ok v /\
    rv v = RND r prec (sqrt (RND RD (prec + 4) (rv x * rv x + rv y * rv y))) /\
    (Rabs (rv v - sqrt (rv x * rv x + rv y * rv y)) <= 3 * bpow radix2 (- prec) * sqrt (rv x * rv x + rv y * rv y))%R.
Proof. exact mpf_hypot_spec. Qed.

(* reciprocal *)
From MP Require Import Proofs.CplxRecip.
Theorem C04_reciprocal : forall z prec r, cfin z -> (0 < cabs2 z)%R -> 0 < prec ->
  exists q, mpc_reciprocal z prec r = Ok q /\ cfin q /\
    let M := RND RD (prec + 10) (cre z * cre z + cim z * cim z) in
    cre q = RND r prec (cre z / M) /\ cim q = (- RND r prec (cim z / M))%R /\
    (Rabs (cre q - cre z / cabs2 z) <= 3 * bpow radix2 (- prec + 1) * sqrt (/ cabs2 z))%R /\
    (Rabs (cim q - (- cim z) / cabs2 z) <= 3 * bpow radix2 (- prec + 1) * sqrt (/ cabs2 z))%R.
Proof. exact mpc_reciprocal_spec. Qed.
Example C04_div_witness : mpc_div (fone, fone) (fone, Mpf 1 1 0 1) 53 RN = Ok (fzero, fone).   (* (1+i)/(1-i) = i *)
Proof. vm_compute. reflexivity. Qed.

(* non-negative integer powers, exact branch: both components are the correctly rounded parts of (a + bi)^n *)
From MP Require Import Proofs.CplxPow.
Theorem C04_pow_int : forall z n prec r, cfin z -> (cre z <> 0)%R -> (cim z <> 0)%R -> 0 < prec ->
  3 <= Zpos n -> Zpos n * (Z.abs (mexp (fst z) - mexp (snd z)) + Z.max (mbc (fst z)) (mbc (snd z))) < 10000 ->
  exists q, mpc_pow_int_nonneg z (Zpos n) prec r = Ok q /\
    cre q = RND r prec (fst (rpow (cre z, cim z) (Pos.to_nat n))) /\
    cim q = RND r prec (snd (rpow (cre z, cim z) (Pos.to_nat n))).
Proof. exact mpc_pow_int_exact_branch. Qed.
Print Assumptions C04_pow_int.
Example C04_pow_witness : mpc_pow_int_nonneg (fone, fone) 4 53 RN = Ok (Mpf 1 1 2 1, fzero).   (* (1+i)^4 = -4 *)
Proof. vm_compute. reflexivity. Qed.

(* complex / real and real / complex *)
From MP Require Import Proofs.CplxMpfDiv.
Theorem C04_div_mpf : forall z p prec r, cfin z -> regular p -> 0 < prec ->
  exists q, mpc_div_mpf z p prec r = Ok q /\ cfin q /\
    cre q = RND r prec (cre z / rv p) /\ cim q = RND r prec (cim z / rv p).
Proof. exact mpc_div_mpf_round. Qed.
Theorem C04_mpf_div : forall p z prec r, fincanon p -> cfin z -> (0 < cabs2 z)%R -> 0 < prec ->
  exists q, mpc_mpf_div p z prec r = Ok q /\ cfin q /\
    let M := RND RD (prec + 10) (cre z * cre z + cim z * cim z) in
    cre q = RND r prec (cre z * rv p / M) /\ cim q = RND r prec (- (cim z * rv p) / M) /\
    (Rabs (cre q - rv p * cre z / cabs2 z) <= 3 * bpow radix2 (- prec + 1) * (Rabs (rv p) * sqrt (/ cabs2 z)))%R /\
    (Rabs (cim q - rv p * (- cim z) / cabs2 z) <= 3 * bpow radix2 (- prec + 1) * (Rabs (rv p) * sqrt (/ cabs2 z)))%R.
Proof. exact mpc_mpf_div_spec. Qed.

(* the complex square root on the real axis: correctly rounded sqrt(a) for a > 0, i*sqrt(-a) for a < 0 *)
From MP Require Import Proofs.CplxSqrtReal.
Theorem C04_sqrt_real_pos : forall a prec r, regular a -> msign a = 0 -> 0 < prec ->
  exists y, mpc_sqrt (a, fzero) prec r = Ok (y, fzero) /\ rv y = RND r prec (sqrt (rv a)).
Proof. exact mpc_sqrt_real_pos. Qed.
Theorem C04_sqrt_real_neg : forall a prec r, regular a -> msign a = 1 -> 0 < prec ->
  exists y, mpc_sqrt (a, fzero) prec r = Ok (fzero, y) /\ rv y = RND r prec (sqrt (- rv a)).
Proof. exact mpc_sqrt_real_neg. Qed.
