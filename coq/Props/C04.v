(* C04 — complex arithmetic is correctly rounded per component (add, sub, mul, square(re), z*x, z+x; exact equality).
   Division family and powers are decided per instance by the exact-rational oracle of the check. *)
From Coq Require Import ZArith Reals.
From MP Require Import Algo.Base Algo.Libmpf Algo.Libmpc Spec.Mpf Spec.Round Proofs.Cplx.
Open Scope Z_scope.

Theorem C04_add : forall z w prec r, cfin z -> cfin w -> 0 < prec ->
  cre (mpc_add z w prec r) = RND r prec (cre z + cre w) /\ cim (mpc_add z w prec r) = RND r prec (cim z + cim w).
Proof. exact mpc_add_round. Qed.
Theorem C04_sub : forall z w prec r, cfin z -> cfin w -> 0 < prec ->
  cre (mpc_sub z w prec r) = RND r prec (cre z - cre w) /\ cim (mpc_sub z w prec r) = RND r prec (cim z - cim w).
Proof. exact mpc_sub_round. Qed.
Theorem C04_mul : forall z w prec r, cfin z -> cfin w -> 0 < prec ->
  cre (mpc_mul z w prec r) = RND r prec (cre z * cre w - cim z * cim w) /\
  cim (mpc_mul z w prec r) = RND r prec (cre z * cim w + cim z * cre w).
Proof. exact mpc_mul_round. Qed.
Print Assumptions C04_mul.
Theorem C04_mul_mpf : forall z p prec r, cfin z -> fincanon p -> 0 < prec ->
  cre (mpc_mul_mpf z p prec r) = RND r prec (cre z * rv p) /\ cim (mpc_mul_mpf z p prec r) = RND r prec (cim z * rv p).
Proof. exact mpc_mul_mpf_round. Qed.
Theorem C04_add_mpf : forall z x prec r, cfin z -> fincanon x -> 0 < prec ->
  cre (mpc_add_mpf z x prec r) = RND r prec (cre z + rv x) /\ cim (mpc_add_mpf z x prec r) = cim z.
Proof. exact mpc_add_mpf_round. Qed.
Theorem C04_square_re : forall z prec r, cfin z -> 0 < prec ->
  cre (mpc_square z prec r) = RND r prec (cre z * cre z - cim z * cim z).
Proof. exact mpc_square_re. Qed.
Theorem C04_eq_exact : forall z w, mpc_eqb z w = true <-> z = w.
Proof. exact mpc_eqb_spec. Qed.
