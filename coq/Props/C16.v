(* C16 — interval comparisons are sound three-valued predicates (finite endpoints). *)
From Coq Require Import ZArith Reals.
From MP Require Import Algo.Base Algo.Libmpf Algo.Libmpi Spec.Mpf Spec.Round Proofs.IvCmp.
Open Scope Z_scope.

Theorem C16_lt_true : forall s t, valid_iv s -> valid_iv t ->
  (mpi_lt s t = Some true <-> forall x y, in_iv s x -> in_iv t y -> (x < y)%R).
Proof. exact mpi_lt_true_iff. Qed.
Print Assumptions C16_lt_true.
Theorem C16_lt_false : forall s t, valid_iv s -> valid_iv t ->
  (mpi_lt s t = Some false <-> forall x y, in_iv s x -> in_iv t y -> ~ (x < y)%R).
Proof. exact mpi_lt_false_iff. Qed.
Theorem C16_le_true : forall s t, valid_iv s -> valid_iv t ->
  (mpi_le s t = Some true <-> forall x y, in_iv s x -> in_iv t y -> (x <= y)%R).
Proof. exact mpi_le_true_iff. Qed.
Theorem C16_le_false : forall s t, valid_iv s -> valid_iv t ->
  (mpi_le s t = Some false <-> forall x y, in_iv s x -> in_iv t y -> ~ (x <= y)%R).
Proof. exact mpi_le_false_iff. Qed.
Theorem C16_gt_ge : forall s t, mpi_gt s t = mpi_lt t s /\ mpi_ge s t = mpi_le t s.
Proof. exact mpi_gt_ge_mirror. Qed.

Example C16_touching : mpi_le (Mpf 0 1 1 1, Mpf 0 3 0 2) (Mpf 0 1 0 1, Mpf 0 1 1 1) = None.   (* [2,3] <= [1,2] : undecided *)
Proof. reflexivity. Qed.
