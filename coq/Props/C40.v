(* C40 — pickling preserves values exactly: the (sign, hex(man), exp, bc) encoding round-trips for every tuple with a
   non-negative mantissa of any length, in particular every canonical value including inf/nan encodings.  Pure Z. *)
From Coq Require Import ZArith List.
From MP Require Import Algo.Base Algo.Libmpf Algo.Ctxfun Spec.Mpf Proofs.Pickle.
Open Scope Z_scope.

Theorem C40_hex_roundtrip : forall n, 0 <= n -> of_hex (to_hex n) = n.
Proof. exact hex_roundtrip. Qed.
Print Assumptions C40_hex_roundtrip.
Theorem C40_from_to_pickable : forall x, 0 <= mman x -> from_pickable (to_pickable x) = x.
Proof. exact from_to_pickable. Qed.
Theorem C40_pickle_canonical : forall x, canonical x -> from_pickable (to_pickable x) = x.
Proof. exact pickle_canonical. Qed.
Print Assumptions C40_pickle_canonical.
Example C40_special : from_pickable (to_pickable fninf) = fninf. Proof. reflexivity. Qed.
