(* C10 — rounded operations never return more bits than the working precision. Pure Z. *)
From Coq Require Import ZArith.
From MP Require Import Algo.Base Algo.Libmpf Spec.Mpf Proofs.Normalize Proofs.Ops.
Open Scope Z_scope.

Theorem C10_normalize_bc_le : forall sign man exp bc prec r,
  0 <= man -> bc = bitcount man -> 0 < prec -> mbc (normalize sign man exp bc prec r) <= prec.
Proof. exact normalize_bc_le. Qed.
Print Assumptions C10_normalize_bc_le.

Theorem C10_normalize1_bc_le : forall sign man exp bc prec r,
  0 <= man -> bc = bitcount man -> 0 < prec -> mbc (normalize1 sign man exp bc prec r) <= prec.
Proof. exact normalize1_bc_le. Qed.
Print Assumptions C10_normalize1_bc_le.

Theorem C10_from_man_exp_bc_le : forall man exp prec r, 0 < prec -> mbc (from_man_exp man exp prec r) <= prec.
Proof. exact from_man_exp_bc_le. Qed.
Print Assumptions C10_from_man_exp_bc_le.

Theorem C10_pos_bc_le : forall s prec r, fincanon s -> 0 < prec -> mbc (mpf_pos s prec r) <= prec.
Proof. exact mpf_pos_bc_le. Qed.
Print Assumptions C10_pos_bc_le.

Theorem C10_mul_bc_le : forall s t prec r, fincanon s -> fincanon t -> 0 < prec ->
  mbc (python_mpf_mul s t prec r) <= prec.
Proof. exact python_mpf_mul_bc_le. Qed.
Print Assumptions C10_mul_bc_le.

(* non-vacuity: an 8-bit input really is cut down *)
Example C10_witness : mbc (normalize 0 201 0 8 3 RF) = 2.
Proof. reflexivity. Qed.
