(* C10 — rounded operations never return more bits than the working precision. Pure Z. *)
From Coq Require Import ZArith.
From Coq Require Import Reals.
From Flocq Require Import Core.
From MP Require Import Algo.Base Algo.Libmpf Spec.Mpf Spec.Round Proofs.Normalize Proofs.Ops Proofs.Format Proofs.Fin Proofs.BcMore.
Open Scope Z_scope.

Theorem C10_normalize_bc_le : forall sign man exp bc prec r,
  0 <= man -> bc = bitcount man -> 0 < prec -> mbc (normalize sign man exp bc prec r) <= prec.
Proof. exact normalize_bc_le. Qed.
Print Assumptions C10_normalize_bc_le.

Theorem C10_normalize1_bc_le : forall sign man exp bc prec r,
  0 <= man -> bc = bitcount man -> 0 < prec -> mbc (normalize1 sign man exp bc prec r) <= prec.
Proof. exact normalize1_bc_le. Qed.
Print Assumptions C10_normalize1_bc_le.

Theorem C10_from_man_exp_bc_le : forall man exp prec r, 0 < prec -> mbc (from_man_exp man exp prec r) <= prec.
Proof. exact from_man_exp_bc_le. Qed.
Print Assumptions C10_from_man_exp_bc_le.

Theorem C10_pos_bc_le : forall s prec r, fincanon s -> 0 < prec -> mbc (mpf_pos s prec r) <= prec.
Proof. exact mpf_pos_bc_le. Qed.
Print Assumptions C10_pos_bc_le.

Theorem C10_mul_bc_le : forall s t prec r, fincanon s -> fincanon t -> 0 < prec ->
  mbc (python_mpf_mul s t prec r) <= prec.
Proof. exact python_mpf_mul_bc_le. Qed.
Print Assumptions C10_mul_bc_le.

(* any canonical value that equals a p-bit rounding carries at most p bits: the bridge from the rounding theorems *)
Theorem C10_rounded_bc_le : forall y r p x, fincanon y -> 0 < p -> rv y = RND r p x -> mbc y <= p.
Proof. exact rounded_bc_le. Qed.
Print Assumptions C10_rounded_bc_le.

Theorem C10_add_bc_le : forall s t prec r, fincanon s -> fincanon t -> 0 < prec -> mbc (mpf_add s t prec r) <= prec.
Proof. exact mpf_add_bc_le. Qed.
Theorem C10_sub_bc_le : forall s t prec r, fincanon s -> fincanon t -> 0 < prec -> mbc (mpf_sub s t prec r) <= prec.
Proof. exact mpf_sub_bc_le. Qed.
Theorem C10_div_bc_le : forall s t prec r y, fincanon s -> regular t -> 0 < prec -> mpf_div s t prec r = Ok y -> mbc y <= prec.
Proof. exact mpf_div_bc_le. Qed.
Theorem C10_sqrt_bc_le : forall s prec r y, regular s -> msign s = 0 -> 0 < prec -> mpf_sqrt s prec r = Ok y -> mbc y <= prec.
Proof. exact mpf_sqrt_bc_le. Qed.
Print Assumptions C10_sqrt_bc_le.

Theorem C10_mod_bc_le : forall s t prec r y, fincanon s -> regular t -> 0 < prec -> mpf_mod s t prec r = Ok y -> mbc y <= prec.
Proof. exact mpf_mod_bc_le. Qed.
Theorem C10_pow_bc_le : forall s n prec r, regular s -> 0 < prec -> mbc (mpf_pow_int_pos s n prec r) <= prec.
Proof. exact mpf_pow_int_pos_bc_le. Qed.
Theorem C10_pow_neg_bc_le : forall s p prec r y, regular s -> 0 < prec -> mpf_pow_int s (Zneg p) prec r = Ok y ->
  fincanon y /\ mbc y <= prec.
Proof. exact mpf_pow_int_neg_bc_le. Qed.
Print Assumptions C10_pow_neg_bc_le.

(* non-vacuity: an 8-bit input really is cut down *)
Example C10_witness : mbc (normalize 0 201 0 8 3 RF) = 2.
Proof. reflexivity. Qed.

(* complex arithmetic: both components are finite with at most prec bits *)
From MP Require Import Algo.Libmpc Proofs.Cplx Proofs.CplxDiv Proofs.CplxBc.
Theorem C10_mpc_add : forall z w prec r, cfin z -> cfin w -> 0 < prec -> cfin (mpc_add z w prec r) /\ cbc_le (mpc_add z w prec r) prec.
Proof. exact mpc_add_closed. Qed.
Theorem C10_mpc_sub : forall z w prec r, cfin z -> cfin w -> 0 < prec -> cfin (mpc_sub z w prec r) /\ cbc_le (mpc_sub z w prec r) prec.
Proof. exact mpc_sub_closed. Qed.
Theorem C10_mpc_mul : forall z w prec r, cfin z -> cfin w -> 0 < prec -> cfin (mpc_mul z w prec r) /\ cbc_le (mpc_mul z w prec r) prec.
Proof. exact mpc_mul_closed. Qed.
Theorem C10_mpc_div : forall z w prec r, cfin z -> cfin w -> (0 < cabs2 w)%R -> 0 < prec ->
  exists q, mpc_div z w prec r = Ok q /\ cfin q /\ cbc_le q prec.
Proof. exact mpc_div_closed. Qed.

(* interval arithmetic: end points carry at most prec bits *)
From MP Require Import Algo.Libmpi Proofs.IvCmp Proofs.IvBc.
Theorem C10_mpi_add : forall s t prec, valid_iv s -> valid_iv t -> 0 < prec -> ibc_le (mpi_add s t prec) prec.
Proof. exact mpi_add_bc. Qed.
Theorem C10_mpi_sub : forall s t prec, valid_iv s -> valid_iv t -> 0 < prec -> ibc_le (mpi_sub s t prec) prec.
Proof. exact mpi_sub_bc. Qed.
Theorem C10_mpi_mul : forall s t prec x y, valid_iv s -> valid_iv t -> 0 < prec -> in_iv s x -> in_iv t y -> ibc_le (mpi_mul s t prec) prec.
Proof. exact mpi_mul_bc. Qed.
