(* C06 — integer-part functions follow their exact definitions (floor, ceil, round-half-even nint, frac). *)
From Coq Require Import ZArith Reals.
From Flocq Require Import Core.
From MP Require Import Algo.Base Algo.Libmpf Spec.Mpf Spec.Round Proofs.IntPart.
Open Scope Z_scope.

Theorem C06_round_int_spec : forall s r, fincanon s -> (r = RF \/ r = RC \/ r = RN) ->
  exists v, mpf_round_int s r = Ok v /\ rv v = IZR (Zrnd_of r (rv s)) /\ fincanon v.
Proof. exact mpf_round_int_fin. Qed.
Print Assumptions C06_round_int_spec.

Theorem C06_floor : forall s prec r, fincanon s -> 0 <= prec ->
  exists v, mpf_floor s prec r = Ok v /\ rv v = (if prec =? 0 then IZR (Zfloor (rv s)) else RND r prec (IZR (Zfloor (rv s)))).
Proof. exact mpf_floor_spec. Qed.
Theorem C06_ceil : forall s prec r, fincanon s -> 0 <= prec ->
  exists v, mpf_ceil s prec r = Ok v /\ rv v = (if prec =? 0 then IZR (Zceil (rv s)) else RND r prec (IZR (Zceil (rv s)))).
Proof. exact mpf_ceil_spec. Qed.
Theorem C06_nint : forall s prec r, fincanon s -> 0 <= prec ->
  exists v, mpf_nint s prec r = Ok v /\ rv v = (if prec =? 0 then IZR (ZnearestE (rv s)) else RND r prec (IZR (ZnearestE (rv s)))).
Proof. exact mpf_nint_spec. Qed.
Theorem C06_frac : forall s prec r, fincanon s -> 0 < prec ->
  exists v, mpf_frac s prec r = Ok v /\ rv v = RND r prec (rv s - IZR (Zfloor (rv s))) /\ (0 <= rv s - IZR (Zfloor (rv s)) < 1)%R.
Proof. exact mpf_frac_spec. Qed.
Print Assumptions C06_frac.

Example C06_witness : mpf_nint (Mpf 1 5 (-1) 3) 0 RD = Ok (Mpf 1 1 1 1).     (* nint(-2.5) = -2 (tie to even) *)
Proof. reflexivity. Qed.

(* ---- modulo: correctly rounded x - y*floor(x/y), with the sign of the divisor ---- *)
From MP Require Import Proofs.ModRound.
Theorem C06_mod : forall s t prec r, fincanon s -> regular t -> 0 < prec ->
  exists y, mpf_mod s t prec r = Ok y /\ rv y = RND r prec (rmod (rv s) (rv t)).
Proof. exact mpf_mod_round. Qed.
Print Assumptions C06_mod.
Theorem C06_mod_range_pos : forall x y, (0 < y)%R -> (0 <= rmod x y < y)%R.
Proof. exact rmod_range_pos. Qed.
Theorem C06_mod_range_neg : forall x y, (y < 0)%R -> (y < rmod x y <= 0)%R.
Proof. exact rmod_range_neg. Qed.
(* the fixed-point and rational views used by int(), the elementary functions and exact comparisons:
   to_fixed is the floor of x * 2^prec for every precision (negative ones too), to_rational is the exact value *)
From MP Require Import Proofs.FixedRat.
Theorem C06_to_fixed_floor : forall s prec, fincanon s -> to_fixed s prec = Zfloor (rv s * bpow radix2 prec).
Proof. exact to_fixed_floor. Qed.
Print Assumptions C06_to_fixed_floor.
Theorem C06_to_rational_exact : forall s p q, fincanon s -> to_rational s = Ok (p, q) -> 0 < q /\ rv s = (IZR p / IZR q)%R.
Proof. exact to_rational_exact. Qed.
Example C06_mod_witness : mpf_mod (Mpf 1 7 0 3) (Mpf 0 3 0 2) 53 RN = Ok (Mpf 0 1 1 1).   (* -7 mod 3 = 2 *)
Proof. vm_compute. reflexivity. Qed.
