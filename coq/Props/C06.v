(* C06 — integer-part functions follow their exact definitions (floor, ceil, round-half-even nint, frac). *)
From Coq Require Import ZArith Reals.
From Flocq Require Import Core.
From MP Require Import Algo.Base Algo.Libmpf Spec.Mpf Spec.Round Proofs.IntPart.
Open Scope Z_scope.

Theorem C06_round_int_spec : forall s r, fincanon s -> (r = RF \/ r = RC \/ r = RN) ->
  exists v, mpf_round_int s r = Ok v /\ rv v = IZR (Zrnd_of r (rv s)) /\ fincanon v.
Proof. exact mpf_round_int_fin. Qed.
Print Assumptions C06_round_int_spec.

Theorem C06_floor : forall s prec r, fincanon s -> 0 <= prec ->
  exists v, mpf_floor s prec r = Ok v /\ rv v = (if prec =? 0 then IZR (Zfloor (rv s)) else RND r prec (IZR (Zfloor (rv s)))).
Proof. exact mpf_floor_spec. Qed.
Theorem C06_ceil : forall s prec r, fincanon s -> 0 <= prec ->
  exists v, mpf_ceil s prec r = Ok v /\ rv v = (if prec =? 0 then IZR (Zceil (rv s)) else RND r prec (IZR (Zceil (rv s)))).
Proof. exact mpf_ceil_spec. Qed.
Theorem C06_nint : forall s prec r, fincanon s -> 0 <= prec ->
  exists v, mpf_nint s prec r = Ok v /\ rv v = (if prec =? 0 then IZR (ZnearestE (rv s)) else RND r prec (IZR (ZnearestE (rv s)))).
Proof. exact mpf_nint_spec. Qed.
Theorem C06_frac : forall s prec r, fincanon s -> 0 < prec ->
  exists v, mpf_frac s prec r = Ok v /\ rv v = RND r prec (rv s - IZR (Zfloor (rv s))) /\ (0 <= rv s - IZR (Zfloor (rv s)) < 1)%R.
Proof. exact mpf_frac_spec. Qed.
Print Assumptions C06_frac.

Example C06_witness : mpf_nint (Mpf 1 5 (-1) 3) 0 RD = Ok (Mpf 1 1 1 1).     (* nint(-2.5) = -2 (tie to even) *)
Proof. reflexivity. Qed.
