(* C38 — contexts are isolated from each other.  Pure Z / lists.
   Model: a store of contexts each owning (prec, dps); the theorems say that an operation aimed at one context leaves
   every other context's state unchanged, for single steps and for arbitrary histories, and that a clone starts with
   exactly the precision of its parent.  The model is compared with live mp / clones / iv contexts by the check. *)
From Coq Require Import ZArith List.
From MP Require Import Algo.Str Algo.Ctxstore Proofs.CtxstoreP.
Import ListNotations.
Open Scope Z_scope.

Theorem C38_step_frame : forall s o j d, j <> target o -> (j < length s)%nat -> nth j (cstep s o) d = nth j s d.
Proof. exact cstep_frame. Qed.
Print Assumptions C38_step_frame.

Theorem C38_history_frame : forall ops s j d, (j < length s)%nat -> Forall (fun o => target o <> j) ops ->
  nth j (crun s ops) d = nth j s d.
Proof. exact crun_frame. Qed.
Print Assumptions C38_history_frame.

Theorem C38_clone_same_prec : forall s i p dp, nth i s (53, 15) = (p, dp) -> 1 <= p ->
  fst (nth (length s) (cstep s (CClone i)) (0, 0)) = p.
Proof. exact clone_same_prec. Qed.

Example C38_witness : crun [(53, 15); (53, 15)] [CSetPrec 0 101; CClone 0; CSetDps 1 30; CSetPrec 2 64]
                      = [(101, 29); (103, 30); (64, 18)].
Proof. vm_compute. reflexivity. Qed.
