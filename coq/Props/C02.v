(* C02 — basic real arithmetic is correctly rounded in every rounding mode.
   RND r p x is Flocq's round radix2 (FLX_exp p) with the integer rounding of mode r
   (n: ZnearestE, f: Zfloor, c: Zceil, d: Ztrunc, u: Zaway); rv is the real value of a tuple.
   Statements only; proofs are in Proofs/NormRound.v and Proofs/Ops.v. *)
From Coq Require Import List ZArith Reals.
From Flocq Require Import Core.
From MP Require Import Algo.Base Algo.Libmpf Spec.Mpf Spec.Round Proofs.NormRound Proofs.Ops Proofs.Sticky Proofs.DivRound Proofs.SqrtRound Proofs.AddRound.
Open Scope Z_scope.

(* the rounding step every operation ends in: for every sign, mantissa of any length, exponent,
   precision p >= 1 and each of the five modes the result is exactly RND of the exact value *)
Theorem C02_normalize_round : forall sign man exp bc prec r,
  (sign = 0 \/ sign = 1) -> 0 <= man -> bc = bitcount man -> 0 < prec ->
  rv (normalize sign man exp bc prec r) = RND r prec (sval sign man exp).
Proof. exact normalize_round. Qed.
Print Assumptions C02_normalize_round.

Theorem C02_normalize1_round : forall sign man exp bc prec r,
  (sign = 0 \/ sign = 1) -> 0 <= man -> bc = bitcount man -> 0 < prec ->
  rv (normalize1 sign man exp bc prec r) = RND r prec (sval sign man exp).
Proof. exact normalize1_round. Qed.
Print Assumptions C02_normalize1_round.

(* mpf() construction from int / (man, exp), rounded and exact *)
Theorem C02_from_man_exp_round : forall man exp prec r, 0 < prec ->
  rv (from_man_exp man exp prec r) = RND r prec (F2R (Float radix2 man exp)).
Proof. exact from_man_exp_round. Qed.
Print Assumptions C02_from_man_exp_round.

Theorem C02_from_man_exp_exact : forall man exp r,
  rv (from_man_exp man exp 0 r) = F2R (Float radix2 man exp).
Proof. exact from_man_exp_exact. Qed.

Theorem C02_from_int_round : forall n prec r, 0 < prec -> rv (from_int n prec r) = RND r prec (IZR n).
Proof. exact from_int_round. Qed.
Print Assumptions C02_from_int_round.

Theorem C02_from_int_exact : forall n r, rv (from_int n 0 r) = IZR n.
Proof. exact from_int_exact. Qed.

(* unary plus, negation, abs *)
Theorem C02_pos_round : forall s prec r, fincanon s -> 0 < prec -> rv (mpf_pos s prec r) = RND r prec (rv s).
Proof. exact mpf_pos_round. Qed.
Theorem C02_neg_round : forall s prec r, fincanon s -> 0 < prec -> rv (mpf_neg s prec r) = RND r prec (- rv s).
Proof. exact mpf_neg_round. Qed.
Theorem C02_neg_exact : forall s r, fincanon s -> rv (mpf_neg s 0 r) = (- rv s)%R.
Proof. exact mpf_neg_exact. Qed.
Theorem C02_abs_round : forall s prec r, fincanon s -> 0 < prec -> rv (mpf_abs s prec r) = RND r prec (Rabs (rv s)).
Proof. exact mpf_abs_round. Qed.
Print Assumptions C02_abs_round.

(* multiplication: correctly rounded, and exact with prec = 0 *)
Theorem C02_mul_round : forall s t prec r, fincanon s -> fincanon t -> 0 < prec ->
  rv (python_mpf_mul s t prec r) = RND r prec (rv s * rv t).
Proof. exact python_mpf_mul_round. Qed.
Print Assumptions C02_mul_round.

Theorem C02_mul_exact : forall s t r, fincanon s -> fincanon t ->
  rv (python_mpf_mul s t 0 r) = (rv s * rv t)%R.
Proof. exact python_mpf_mul_exact. Qed.

(* addition and subtraction of any two finite values: correctly rounded in all five modes, for mantissas of any
   length and exponents arbitrarily far apart (this includes the far-apart-exponent perturbation shortcut), and exact
   with prec = 0 *)
Theorem C02_add_round : forall s t prec r, fincanon s -> fincanon t -> 0 < prec ->
  rv (mpf_add s t prec r) = RND r prec (rv s + rv t).
Proof. exact mpf_add_round. Qed.
Print Assumptions C02_add_round.

Theorem C02_sub_round : forall s t prec r, fincanon s -> fincanon t -> 0 < prec ->
  rv (mpf_sub s t prec r) = RND r prec (rv s - rv t).
Proof. exact mpf_sub_round. Qed.

Theorem C02_add_exact : forall s t r, fincanon s -> fincanon t -> rv (mpf_add s t 0 r) = (rv s + rv t)%R.
Proof. exact mpf_add_exact. Qed.
Theorem C02_sub_exact : forall s t r, fincanon s -> fincanon t -> rv (mpf_sub s t 0 r) = (rv s - rv t)%R.
Proof. exact mpf_sub_exact. Qed.

(* the rounding trick shared by division, square root and the addition shortcut *)
Theorem C02_sticky : forall rm p sign N k theta,
  0 < p -> (sign = 0 \/ sign = 1) -> 0 < N -> p + 1 <= bitcount N -> (0 < theta < 1)%R ->
  RND rm p (sgn sign * ((IZR N + theta) * bpow radix2 k)) = RND rm p (sval sign (2 * N + 1) (k - 1)).
Proof. exact RND_sticky. Qed.

(* division: correctly rounded quotient for every finite dividend and nonzero divisor; x/0 raises *)
Theorem C02_div_round : forall s t prec r, fincanon s -> regular t -> 0 < prec ->
  exists y, mpf_div s t prec r = Ok y /\ rv y = RND r prec (rv s / rv t).
Proof. exact mpf_div_round. Qed.
Print Assumptions C02_div_round.

Theorem C02_div_zero : forall s prec r, mpf_div s fzero prec r = Err ZDE.
Proof. exact mpf_div_zero. Qed.

(* mpf() construction from a rational p/q *)
Theorem C02_from_rational_round : forall p q prec r, q <> 0 -> 0 < prec ->
  exists y, from_rational p q prec r = Ok y /\ rv y = RND r prec (IZR p / IZR q).
Proof. exact from_rational_round. Qed.

(* square root of every positive value, all five modes (isqrt/sqrtrem specified as Z.sqrt/Z.sqrtrem) *)
Theorem C02_sqrt_round : forall s prec r, regular s -> msign s = 0 -> 0 < prec ->
  exists y, mpf_sqrt s prec r = Ok y /\ rv y = RND r prec (sqrt (rv s)).
Proof. exact mpf_sqrt_round. Qed.
Print Assumptions C02_sqrt_round.

(* fsum: one exact integer accumulation and a single rounding, for lists of any length whose non-zero terms have exponents
   within 2*prec bits of each other (the window mpf_sum keeps exact; 10^6 bits when prec = 0) *)
From MP Require Import Proofs.SumRound.
Theorem C02_fsum_round : forall xs prec r absolute E, 0 < prec -> Forall (in_window E (2 * prec)) xs ->
  rv (mpf_sum xs prec r absolute) = RND r prec (rsum absolute xs).
Proof. exact mpf_sum_round. Qed.
Print Assumptions C02_fsum_round.
Theorem C02_fsum_exact : forall xs r absolute E, Forall (in_window E 1000000) xs ->
  rv (mpf_sum xs 0 r absolute) = rsum absolute xs.
Proof. exact mpf_sum_exact. Qed.

(* mixed mpf / Python-int operands (integers of any size) *)
From MP Require Import Proofs.IntOps.
Theorem C02_mul_int_round : forall s n prec r, fincanon s -> 0 < prec ->
  rv (python_mpf_mul_int s n prec r) = RND r prec (rv s * IZR n).
Proof. exact mpf_mul_int_round. Qed.
Theorem C02_rdiv_int_round : forall n t prec r, regular t -> 0 < prec ->
  exists y, mpf_rdiv_int n t prec r = Ok y /\ rv y = RND r prec (IZR n / rv t).
Proof. exact mpf_rdiv_int_round. Qed.
Print Assumptions C02_rdiv_int_round.

(* "exact when it fits": RND is the identity on representable values, so every theorem above of the form
   rv result = RND r prec (exact value) returns the exact value whenever it is representable with prec bits *)
From MP Require Import Proofs.IvBc.
Theorem C02_exact_when_representable : forall r p x, 0 < p -> generic_format radix2 (FLX_exp p) x -> RND r p x = x.
Proof. exact RND_id_format. Qed.
Theorem C02_sqrt_exact_square : forall s prec r, regular s -> msign s = 0 -> 0 < prec ->
  generic_format radix2 (FLX_exp prec) (sqrt (rv s)) -> exists y, mpf_sqrt s prec r = Ok y /\ rv y = sqrt (rv s).
Proof. exact sqrt_exact_square. Qed.

(* the integer square roots mpf_sqrt rests on (libintmath, pure-Python backend): the model of mpf_sqrt calls Z.sqrt/Z.sqrtrem;
   these theorems show the Python routines compute exactly those.  The floating-point seeds are quantified over:
   r0 is ANY start value not below the root, approx ANY value of isqrt_fast not more than one unit below it
   (the two hypotheses are monitored on the live seeds by the check). *)
From MP Require Import Algo.Isqrt Proofs.IsqrtP.
Theorem C02_isqrt_small_newton : forall x r0, 0 < x -> Z.sqrt x <= r0 -> isqrt_small_newton x r0 = Some (Z.sqrt x).
Proof. exact isqrt_small_newton_spec. Qed.
Print Assumptions C02_isqrt_small_newton.
Theorem C02_newton_sound : forall x, 0 < x -> forall fuel r v, Z.sqrt x <= r -> newton fuel r x = Some v -> v = Z.sqrt x.
Proof. exact newton_sound. Qed.
Theorem C02_sqrtrem_fix : forall x approx fuel, 0 <= x -> Z.sqrt x - 1 <= approx -> approx + 1 - Z.sqrt x < Z.of_nat fuel ->
  sqrtrem_fix fuel x approx = Some (Z.sqrt x, x - Z.sqrt x * Z.sqrt x).
Proof. exact sqrtrem_fix_spec. Qed.
Print Assumptions C02_sqrtrem_fix.
Theorem C02_sqrtrem_pair : forall x, 0 <= x -> Z.sqrtrem x = (Z.sqrt x, x - Z.sqrt x * Z.sqrt x).
Proof. exact sqrtrem_pair. Qed.
Theorem C02_isqrt_fast_smallx_ge : forall x y0, 2 ^ 100 <= x -> 0 < y0 -> Z.sqrt x <= isqrt_fast_smallx x y0.
Proof. exact isqrt_fast_smallx_ge. Qed.
(* outside the hypothesis of C02_sqrtrem_fix the up-correction loop of sqrtrem_python is wrong (latent: unreachable while
   isqrt_fast is at most one unit too small) *)
Example C02_sqrtrem_fix_up_refuted : sqrtrem_fix 10 24 2 = Some (4, 6) /\ Z.sqrtrem 24 = (4, 8).
Proof. exact sqrtrem_fix_up_refuted. Qed.

(* non-vacuity: 255 rounded to 4 bits to nearest is 256 (carry out of the top bit) *)
Example C02_witness : normalize 0 255 0 (bitcount 255) 4 RN = Mpf 0 1 8 1.
Proof. reflexivity. Qed.
