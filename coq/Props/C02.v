(* C02 — basic real arithmetic is correctly rounded in every rounding mode.
   RND r p x is Flocq's round radix2 (FLX_exp p) with the integer rounding of mode r
   (n: ZnearestE, f: Zfloor, c: Zceil, d: Ztrunc, u: Zaway); rv is the real value of a tuple.
   Statements only; proofs are in Proofs/NormRound.v and Proofs/Ops.v. *)
From Coq Require Import ZArith Reals.
From Flocq Require Import Core.
From MP Require Import Algo.Base Algo.Libmpf Spec.Mpf Spec.Round Proofs.NormRound Proofs.Ops.
Open Scope Z_scope.

(* the rounding step every operation ends in: for every sign, mantissa of any length, exponent,
   precision p >= 1 and each of the five modes the result is exactly RND of the exact value *)
Theorem C02_normalize_round : forall sign man exp bc prec r,
  (sign = 0 \/ sign = 1) -> 0 <= man -> bc = bitcount man -> 0 < prec ->
  rv (normalize sign man exp bc prec r) = RND r prec (sval sign man exp).
Proof. exact normalize_round. Qed.
Print Assumptions C02_normalize_round.

Theorem C02_normalize1_round : forall sign man exp bc prec r,
  (sign = 0 \/ sign = 1) -> 0 <= man -> bc = bitcount man -> 0 < prec ->
  rv (normalize1 sign man exp bc prec r) = RND r prec (sval sign man exp).
Proof. exact normalize1_round. Qed.
Print Assumptions C02_normalize1_round.

(* mpf() construction from int / (man, exp), rounded and exact *)
Theorem C02_from_man_exp_round : forall man exp prec r, 0 < prec ->
  rv (from_man_exp man exp prec r) = RND r prec (F2R (Float radix2 man exp)).
Proof. exact from_man_exp_round. Qed.
Print Assumptions C02_from_man_exp_round.

Theorem C02_from_man_exp_exact : forall man exp r,
  rv (from_man_exp man exp 0 r) = F2R (Float radix2 man exp).
Proof. exact from_man_exp_exact. Qed.

Theorem C02_from_int_round : forall n prec r, 0 < prec -> rv (from_int n prec r) = RND r prec (IZR n).
Proof. exact from_int_round. Qed.
Print Assumptions C02_from_int_round.

Theorem C02_from_int_exact : forall n r, rv (from_int n 0 r) = IZR n.
Proof. exact from_int_exact. Qed.

(* unary plus, negation, abs *)
Theorem C02_pos_round : forall s prec r, fincanon s -> 0 < prec -> rv (mpf_pos s prec r) = RND r prec (rv s).
Proof. exact mpf_pos_round. Qed.
Theorem C02_neg_round : forall s prec r, fincanon s -> 0 < prec -> rv (mpf_neg s prec r) = RND r prec (- rv s).
Proof. exact mpf_neg_round. Qed.
Theorem C02_neg_exact : forall s r, fincanon s -> rv (mpf_neg s 0 r) = (- rv s)%R.
Proof. exact mpf_neg_exact. Qed.
Theorem C02_abs_round : forall s prec r, fincanon s -> 0 < prec -> rv (mpf_abs s prec r) = RND r prec (Rabs (rv s)).
Proof. exact mpf_abs_round. Qed.
Print Assumptions C02_abs_round.

(* multiplication: correctly rounded, and exact with prec = 0 *)
Theorem C02_mul_round : forall s t prec r, fincanon s -> fincanon t -> 0 < prec ->
  rv (python_mpf_mul s t prec r) = RND r prec (rv s * rv t).
Proof. exact python_mpf_mul_round. Qed.
Print Assumptions C02_mul_round.

Theorem C02_mul_exact : forall s t r, fincanon s -> fincanon t ->
  rv (python_mpf_mul s t 0 r) = (rv s * rv t)%R.
Proof. exact python_mpf_mul_exact. Qed.

(* non-vacuity: 255 rounded to 4 bits to nearest is 256 (carry out of the top bit) *)
Example C02_witness : normalize 0 255 0 (bitcount 255) 4 RN = Mpf 0 1 8 1.
Proof. reflexivity. Qed.
