(* C07 — decimal strings convert to correctly rounded binary values.
   Proved: the branch taken for |decimal exponent| <= 400 (which covers every literal of magnitude in
   [1e-100, 1e100] with at most 300 fractional digits) returns the correctly rounded value in all five modes.
   The approximate branch for |exponent| > 400 violates both clauses of the property on concrete inputs
   (known findings C07-approx-*, see known_findings.json); no theorem is claimed for it. *)
From Coq Require Import ZArith Reals.
From Flocq Require Import Core.
From MP Require Import Algo.Base Algo.Libmpf Spec.Mpf Spec.Round Proofs.StrRound.
Open Scope Z_scope.

Theorem C07_from_str_exact_branch : forall man exp prec r, Z.abs exp <= 400 -> 0 < prec ->
  exists y, from_str_parts man exp prec r = Ok y /\ rv y = RND r prec (dec_value man exp).
Proof. exact from_str_exact_branch. Qed.
Print Assumptions C07_from_str_exact_branch.

Theorem C07_dec_value_is_decimal : forall man exp, dec_value man exp = (IZR man * powerRZ 10 exp)%R.
Proof. exact dec_value_spec. Qed.

(* the failing side: a concrete literal on which the model (= the code, by correspondence) rounds a ceiling
   conversion below the exact value: 84468136e-1297 at 10 bits *)
Example C07_directed_refuted :
  exists y, from_str_parts 84468136 (-1297) 10 RC = Ok y /\
  (* y = m * 2^e < 84468136 * 10^-1297  <=>  m * 10^1297 < 84468136 * 2^(-e) *)
  mman y * 10 ^ 1297 < 84468136 * 2 ^ (- mexp y) /\ msign y = 0.
Proof. eexists. split; [vm_compute; reflexivity|]. vm_compute. split; reflexivity. Qed.
