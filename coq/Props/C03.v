(* C03 — integer powers are never rounded past the exact value.
   Model: Algo/Libmpf.v mpf_pow_int / mpf_pow_int_pos / pow_loop (libmpf.py mpf_pow_int, reciprocal_rnd).
   Proved for every regular base, every non-zero integer exponent, every precision >= 1:
     * the branches that compute man^n exactly (n = 1, n = 2, man = 1, bc*n < 1000) are correctly rounded, and return x^n
       itself when it fits;
     * the directed binary-exponentiation loop keeps its running product on the safe side of the exact power (loop invariant
       by induction on the exponent's binary digits), the bit-count bookkeeping survives the off-by-one left by an upward
       truncation, and the final normalize keeps the side: floor <= x^n <= ceiling, |down| <= |x^n| <= |up|;
     * negative exponents: inverting the (prec+5)-bit power computed with the swapped mode lands on the right side of 1/x^n.
     * nearest mode: the loop loses at most n * 2^(1-wp) relative accuracy (lower-bound invariant with multiplicative error
       bookkeeping, Proofs/PowErr.v), so every branch returns a value within 3/4 ulp of x^n (C03_nearest). *)
From Coq Require Import ZArith Reals.
From Flocq Require Import Core.
From MP Require Import Algo.Base Algo.Libmpf Spec.Mpf Spec.Round Proofs.Normalize Proofs.Pow Proofs.PowErr.
Open Scope Z_scope.

Theorem C03_small_correctly_rounded : forall s n prec r, regular s -> 0 < prec ->
  (Zpos n = 1 \/ Zpos n = 2 \/ mman s = 1 \/ mbc s * Zpos n < 1000) ->
  rv (mpf_pow_int_pos s n prec r) = RND r prec (rv s ^ Pos.to_nat n).
Proof. exact mpf_pow_int_pos_small. Qed.
Print Assumptions C03_small_correctly_rounded.

Theorem C03_exact_returned_exactly : forall s n prec r, regular s -> 0 < prec ->
  (Zpos n = 1 \/ Zpos n = 2 \/ mman s = 1 \/ mbc s * Zpos n < 1000) -> bitcount (mman s ^ Zpos n) <= prec ->
  rv (mpf_pow_int_pos s n prec r) = (rv s ^ Pos.to_nat n)%R.
Proof. exact mpf_pow_int_pos_exact. Qed.

Theorem C03_loop_invariant : forall rd wp, 1 <= wp -> forall n pm pe pbc man exp bc P B,
  good pm pbc -> good man bc -> (0 < P)%R -> (0 < B)%R ->
  Rdir rd (F2R (Float radix2 pm pe)) P -> Rdir rd (F2R (Float radix2 man exp)) B ->
  let '(m', e', bc') := pow_loop n rd wp pm pe pbc man exp bc in
  good m' bc' /\ Rdir rd (F2R (Float radix2 m' e')) (P * B ^ Pos.to_nat n)%R.
Proof. exact pow_loop_dir. Qed.

Theorem C03_directed_positive : forall s n prec r, regular s -> 0 < prec ->
  side r (rv (mpf_pow_int_pos s n prec r)) (rv s ^ Pos.to_nat n).
Proof. exact mpf_pow_int_pos_directed. Qed.
Print Assumptions C03_directed_positive.

Theorem C03_directed_negative : forall s p prec r, regular s -> 0 < prec ->
  exists y, mpf_pow_int s (Zneg p) prec r = Ok y /\ side r (rv y) (/ (rv s ^ Pos.to_nat p)).
Proof. exact mpf_pow_int_neg_directed. Qed.
Print Assumptions C03_directed_negative.

Theorem C03_nearest_partial : forall s n prec, regular s -> 0 < prec ->
  exists c, (0 < c)%R /\
    rv (pow_general s n prec RN) = RND RN prec (sgn (Z.land (msign s) (Zpos n)) * c) /\ (c <= Rabs (rv s) ^ Pos.to_nat n)%R.
Proof. intros s n prec Hs Hp. exact (pow_general_side s n prec RN Hs Hp). Qed.

Theorem C03_result_regular : forall s n prec r, regular s -> 0 < prec ->
  regular (mpf_pow_int_pos s n prec r) /\ msign (mpf_pow_int_pos s n prec r) = Z.land (msign s) (Zpos n).
Proof. exact mpf_pow_int_pos_regular. Qed.

Theorem C03_nearest : forall s n prec, regular s -> 0 < prec ->
  (Rabs (rv (mpf_pow_int_pos s n prec RN) - rv s ^ Pos.to_nat n) <= 3 / 4 * ulp radix2 (FLX_exp prec) (rv s ^ Pos.to_nat n))%R.
Proof. exact mpf_pow_int_pos_nearest. Qed.
Print Assumptions C03_nearest.

Theorem C03_loop_lower_bound : forall wp, 1 <= wp -> forall n pm pe pbc man exp bc P B (a b : nat),
  good pm pbc -> good man bc -> (0 < P)%R -> (0 < B)%R ->
  (P * q_of wp ^ b <= F2R (Float radix2 pm pe))%R -> (B * q_of wp ^ a <= F2R (Float radix2 man exp))%R ->
  let '(m', e', bc') := pow_loop n true wp pm pe pbc man exp bc in
  (P * B ^ Pos.to_nat n * q_of wp ^ (b + S a * Pos.to_nat n) <= F2R (Float radix2 m' e'))%R.
Proof. exact pow_loop_lower. Qed.

(* non-vacuity: a base and exponent that take the loop branch *)
Example C03_loop_branch_reached :
  let s := Mpf 1 (2 ^ 60 + 1) (-3) 61 in
  regular s /\ 1000 <= mbc s * 17 /\ mpf_pow_int_pos s 17 53 RF = pow_general s 17 53 RF.
Proof. cbv zeta. split; [|split]; [|vm_compute; discriminate|vm_compute; reflexivity].
  unfold regular; cbn [msign mman mexp mbc]. split; [auto|]. split; [reflexivity|]. split; vm_compute; reflexivity. Qed.
