(* Consts.v — kernel-checked rational enclosures of a few real constants used by the search-side oracles
   (so that no value computed by the code under test is trusted as a reference). *)
From Coq Require Import Reals.
From Interval Require Import Tactic.
Open Scope R_scope.

(* sqrt(pi) to 40 digits: 1.7724538509055160272981674833411451827975... *)
Lemma sqrtpi_bounds :
  17724538509055160272981674833411451827975 / 10 ^ 40 < sqrt PI < 17724538509055160272981674833411451827976 / 10 ^ 40.
Proof. split; interval with (i_prec 200). Qed.

Lemma pi_bounds :
  31415926535897932384626433832795028841971 / 10 ^ 40 < PI < 31415926535897932384626433832795028841972 / 10 ^ 40.
Proof. split; interval with (i_prec 200). Qed.
