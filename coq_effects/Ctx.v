(* Pure-Z model of the precision state of the mp / iv contexts:
     libmp/libmpf.py   prec_to_dps(n) = max(1, int(round(int(n)/3.3219280948873626)-1))
                       dps_to_prec(n) = max(1, int(round((int(n)+1)*3.3219280948873626)))
     ctx_mp_python.py  _set_prec(ctx, n): ctx._prec = ctx._prec_rounding[0] = max(1, int(n)); ctx._dps = prec_to_dps(n)
                       _set_dps(ctx, n):  ctx._prec = ctx._prec_rounding[0] = dps_to_prec(n); ctx._dps = max(1, int(n))
     ctx_iv.py         the same two setters on ctx._prec[0] / ctx._dps.
   The double constant 3.3219280948873626 is 0x1.a934f0979a372p+1 = CN / 2^50 exactly.  Python's `round` of
   a float is round-half-to-even; we model the quotient / product as the exact rational (the harness
   compares this model with the running interpreter on every run, exhaustively up to a bound). *)
From Coq Require Import ZArith Lia.
Open Scope Z_scope.

Definition CN : Z := 3740158532571577.
Definition CD : Z := 1125899906842624.      (* 2^50 *)

(* round-half-even of num/den, den > 0 *)
Definition rhe (num den : Z) : Z :=
  let q := num / den in let r := num mod den in
  if 2 * r <? den then q else if den <? 2 * r then q + 1 else if Z.even q then q else q + 1.

Definition prec_to_dps (n : Z) : Z := Z.max 1 (rhe (n * CD) CN - 1).
Definition dps_to_prec (n : Z) : Z := Z.max 1 (rhe ((n + 1) * CN) CD).

Record pstate := mkp { prec : Z; dps : Z }.
Definition set_prec (n : Z) : pstate := mkp (Z.max 1 n) (prec_to_dps n).
Definition set_dps (n : Z) : pstate := mkp (dps_to_prec n) (Z.max 1 n).
(* a state produced by either setter *)
Definition wf (s : pstate) : Prop := 1 <= prec s /\ dps s = prec_to_dps (prec s).

Lemma rhe_unique num den z : 0 < den -> 2 * Z.abs (num - z * den) < den -> rhe num den = z.
Proof.
  intros Hd H. unfold rhe.
  pose proof (Z.div_mod num den ltac:(lia)) as E. pose proof (Z.mod_pos_bound num den Hd) as Bd.
  set (q := num / den) in *. set (r := num mod den) in *.
  assert (q = z \/ q = z - 1) as [-> | ->] by nia.
  - destruct (2 * r <? den) eqn:H1; [reflexivity|]. apply Z.ltb_ge in H1. nia.
  - destruct (2 * r <? den) eqn:H1; [apply Z.ltb_lt in H1; nia|].
    destruct (den <? 2 * r) eqn:H2; [lia|]. apply Z.ltb_ge in H1, H2. nia.
Qed.

Lemma rhe_bound num den : 0 < den -> 2 * Z.abs (num - rhe num den * den) <= den.
Proof.
  intros Hd. unfold rhe.
  pose proof (Z.div_mod num den ltac:(lia)) as E. pose proof (Z.mod_pos_bound num den Hd) as Bd.
  set (q := num / den) in *. set (r := num mod den) in *.
  destruct (2 * r <? den) eqn:H1; [apply Z.ltb_lt in H1; nia|]. apply Z.ltb_ge in H1.
  destruct (den <? 2 * r) eqn:H2; [apply Z.ltb_lt in H2; nia|]. apply Z.ltb_ge in H2.
  destruct (Z.even q); nia.
Qed.

Lemma rhe_nonpos num den : 0 < den -> num <= 0 -> rhe num den <= 0.
Proof.
  intros Hd Hn. pose proof (rhe_bound num den Hd). nia.
Qed.

(* setting prec then reading dps follows prec_to_dps; setting dps then reading prec follows dps_to_prec *)
Theorem set_prec_spec n : prec (set_prec n) = Z.max 1 n /\ dps (set_prec n) = prec_to_dps n.
Proof. split; reflexivity. Qed.
Theorem set_dps_spec n : prec (set_dps n) = dps_to_prec n /\ dps (set_dps n) = Z.max 1 n.
Proof. split; reflexivity. Qed.

(* universal: no bound on d is needed in the exact-rational model *)
Theorem prec_dps_roundtrip_all d : 1 <= d -> prec_to_dps (dps_to_prec d) = d.
Proof.
  intros Hd. unfold dps_to_prec.
  pose proof (rhe_bound ((d + 1) * CN) CD ltac:(reflexivity)) as B.
  set (x := rhe ((d + 1) * CN) CD) in *. unfold CN, CD in B.
  assert (Hx : 1 <= x) by lia.
  rewrite Z.max_r by exact Hx. unfold prec_to_dps.
  rewrite (rhe_unique (x * CD) CN (d + 1)); [lia|reflexivity|]. unfold CN, CD. lia.
Qed.

Theorem prec_dps_roundtrip d : 1 <= d <= 10 ^ 6 -> prec_to_dps (dps_to_prec d) = d.
Proof. intros [H _]. apply prec_dps_roundtrip_all, H. Qed.

(* ... whereas restoring through dps loses information: prec = 101 -> dps 29 -> prec 100 *)
Theorem dps_restore_lossy : exists p, dps_to_prec (prec_to_dps p) <> p.
Proof. exists 101. vm_compute. discriminate. Qed.

Lemma prec_to_dps_low n : n <= 1 -> prec_to_dps n = 1.
Proof.
  intros H. unfold prec_to_dps.
  assert (rhe (n * CD) CN <= 0); [|lia].
  destruct (Z.eq_dec n 1) as [->|Hn]; [vm_compute; discriminate|].
  apply rhe_nonpos; [reflexivity|unfold CD; lia].
Qed.

Theorem set_prec_wf n : wf (set_prec n).
Proof.
  unfold wf, set_prec; simpl. split; [lia|].
  destruct (Z_le_gt_dec n 1) as [H|H].
  - rewrite (prec_to_dps_low n H). symmetry. apply prec_to_dps_low. lia.
  - rewrite Z.max_r by lia. reflexivity.
Qed.

Theorem set_dps_wf n : wf (set_dps n).
Proof.
  unfold wf, set_dps; simpl.
  destruct (Z_le_gt_dec 1 n) as [H|H].
  - rewrite Z.max_r by lia. rewrite prec_dps_roundtrip_all by exact H. split; [unfold dps_to_prec; lia|reflexivity].
  - rewrite Z.max_l by lia. split; [unfold dps_to_prec; lia|].
    destruct (Z.eq_dec n 0) as [->|Hn]; [vm_compute; reflexivity|].
    assert (E : dps_to_prec n = 1).
    { unfold dps_to_prec. assert (rhe ((n + 1) * CN) CD <= 0); [|lia].
      apply rhe_nonpos; [reflexivity|unfold CN; lia]. }
    rewrite E. reflexivity.
Qed.

(* The fact that makes `saved = ctx.prec ... ctx.prec = saved` an exact restore of BOTH attributes:
   on any state produced by the setters, writing back the prec that was read changes nothing. *)
Theorem restore_exact s : wf s -> set_prec (prec s) = s.
Proof.
  destruct s as [p d]; unfold wf, set_prec; simpl. intros [H1 ->]. rewrite Z.max_r by lia. reflexivity.
Qed.

(* `ctx.prec += e` is the exact sum as long as the clamp max(1, .) does not fire *)
Theorem add_no_clamp s e : 1 <= prec s + e -> prec (set_prec (prec s + e)) = prec s + e.
Proof. intros H. simpl. lia. Qed.

(* raising then lowering by the same non-negative integer is exact on wf states *)
Theorem add_sub_exact s e : wf s -> 0 <= e -> set_prec (prec (set_prec (prec s + e)) - e) = s.
Proof.
  intros W He. pose proof W as [H1 _]. simpl. rewrite (Z.max_r 1 (prec s + e)) by lia.
  replace (prec s + e - e) with (prec s) by lia. apply restore_exact, W.
Qed.

Example defaults : set_dps 15 = mkp 53 15 /\ set_prec 53 = mkp 53 15 /\ set_prec 101 = mkp 101 29 /\ set_dps 29 = mkp 100 29.
Proof. vm_compute. repeat split. Qed.

Print Assumptions prec_dps_roundtrip_all.
Print Assumptions dps_restore_lossy.
Print Assumptions restore_exact.
Print Assumptions set_dps_wf.
