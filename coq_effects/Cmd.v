(* Engine C: the command language of precision effects and its big-step semantics.

   A command is the skeleton of one Python function of mpmath, keeping only what can influence the
   context's working precision `prec`:  reads of prec into locals, writes to prec, calls (which may
   raise), and control flow.  Everything is over Z and lists; no axioms.

   Two call semantics are defined from one set of rules (parameter `callrel`):
     - `call_sum`  : a call to an analysed function behaves as its summary allows;
     - `call_inl n`: a call executes the callee's body (in a fresh local environment), calls inside it
                     being inlined again up to depth n.  *)
From Coq Require Import ZArith List Bool FMapPositive.
Import ListNotations.
Open Scope Z_scope.

Definition var := nat.
Definition fname := positive.

Inductive atom := AVar (v : var) | AConst (z : Z).

Inductive cmd :=
| Skip
| Save (v : var)                (* v = ctx.prec *)
| SetVar (v : var)              (* ctx.prec = v   (v a local that holds an integer) *)
| SetOpaque                     (* ctx.prec = <expression we do not interpret> *)
| SetDps                        (* ctx.dps = ..., ctx.dps += ...: lossy, treated as an unknown new prec *)
| AddPrec (a : atom)            (* ctx.prec += a *)
| SubPrec (a : atom)            (* ctx.prec -= a *)
| Havoc (v : var)               (* local v is assigned something unknown *)
| CallExt                       (* primitive / operator / user callback: returns or raises, prec unchanged *)
| CallFn (f : fname)            (* call of another analysed function *)
| Guard (hs : list fname)       (* internal closures hs are handed to code that treats them as callbacks:
                                   fine if they are prec-neutral, otherwise prec becomes unknown *)
| Raise | Return | Break | Continue
| Seq (c1 c2 : cmd)
| If (c1 c2 : cmd)              (* nondeterministic choice *)
| Loop (c : cmd)                (* while/for: zero or more iterations; Break/Continue caught here *)
| TryFinally (c f : cmd)
| TryExcept (c h : cmd).        (* h may run after any raising point of c, or the exception propagates *)

(* `with ctx.workprec(n): body` and friends, as the sources of PrecisionManager.__enter__/__exit__ read
   (the translator inlines the *translated* __enter__/__exit__, this is the expected shape). *)
Definition WithPM (v : var) (set body : cmd) : cmd :=
  Seq (Save v) (Seq set (TryFinally body (SetVar v))).

Record state := mkst { prec : Z; env : var -> Z }.
Inductive outcome := N | E | R | B | C.      (* normal, exception, return, break, continue *)

Definition upd (f : var -> Z) (k : var) (x : Z) : var -> Z := fun j => if Nat.eqb j k then x else f j.
Definition aval (s : state) (a : atom) : Z := match a with AVar v => env s v | AConst z => z end.
Definition setp (s : state) (z : Z) : state := mkst z (env s).

(* summaries *)
Record summ := mksum { bal : bool;      (* normal return leaves prec unchanged *)
                       exs : bool }.    (* exceptional exit leaves prec unchanged *)
Definition unsafe := mksum false false.

Definition table := PositiveMap.t (summ * cmd).
Definition sig_of (T : table) (f : fname) : summ :=
  match PositiveMap.find f T with Some (sm, _) => sm | None => unsafe end.
Definition body_of (T : table) (f : fname) : cmd :=
  match PositiveMap.find f T with Some (_, c) => c | None => Skip end.
Definition neutral (T : table) (f : fname) : bool := bal (sig_of T f) && exs (sig_of T f).

Section Exec.
  Variable T : table.
  (* callrel f p raised p' : calling f with prec = p may return (raised=false) or raise (raised=true)
     with prec = p' *)
  Variable callrel : fname -> Z -> bool -> Z -> Prop.

  Inductive exec : cmd -> state -> outcome -> state -> Prop :=
  | XSkip s : exec Skip s N s
  | XSave v s : exec (Save v) s N (mkst (prec s) (upd (env s) v (prec s)))
  | XSetVar v s : exec (SetVar v) s N (setp s (env s v))
  | XSetOpaque z s : exec SetOpaque s N (setp s z)
  | XSetDps z s : exec SetDps s N (setp s z)
  | XAdd a s : exec (AddPrec a) s N (setp s (prec s + aval s a))
  | XSub a s : exec (SubPrec a) s N (setp s (prec s - aval s a))
  | XHavoc v z s : exec (Havoc v) s N (mkst (prec s) (upd (env s) v z))
  | XCallExtN s : exec CallExt s N s
  | XCallExtE s : exec CallExt s E s
  | XCallFn f s raised p' : callrel f (prec s) raised p' ->
      exec (CallFn f) s (if raised then E else N) (setp s p')
  | XGuardOk hs s : forallb (neutral T) hs = true -> exec (Guard hs) s N s
  | XGuardBad hs s z : forallb (neutral T) hs = false -> exec (Guard hs) s N (setp s z)
  | XRaise s : exec Raise s E s
  | XReturn s : exec Return s R s
  | XBreak s : exec Break s B s
  | XContinue s : exec Continue s C s
  | XSeqN c1 c2 s s1 o s2 : exec c1 s N s1 -> exec c2 s1 o s2 -> exec (Seq c1 c2) s o s2
  | XSeqA c1 c2 s o s1 : exec c1 s o s1 -> o <> N -> exec (Seq c1 c2) s o s1
  | XIfL c1 c2 s o s1 : exec c1 s o s1 -> exec (If c1 c2) s o s1
  | XIfR c1 c2 s o s1 : exec c2 s o s1 -> exec (If c1 c2) s o s1
  | XLoopExit c s : exec (Loop c) s N s
  | XLoopNext c s o1 s1 o s2 : exec c s o1 s1 -> (o1 = N \/ o1 = C) -> exec (Loop c) s1 o s2 ->
      exec (Loop c) s o s2
  | XLoopBreak c s s1 : exec c s B s1 -> exec (Loop c) s N s1
  | XLoopAbort c s o s1 : exec c s o s1 -> (o = E \/ o = R) -> exec (Loop c) s o s1
  (* finally: the handler always runs; if it completes normally the pending outcome continues,
     otherwise the handler's own outcome replaces it *)
  | XFinN c f s o s1 s2 : exec c s o s1 -> exec f s1 N s2 -> exec (TryFinally c f) s o s2
  | XFinA c f s o s1 o2 s2 : exec c s o s1 -> exec f s1 o2 s2 -> o2 <> N -> exec (TryFinally c f) s o2 s2
  | XExcPass c h s o s1 : exec c s o s1 -> exec (TryExcept c h) s o s1
  | XExcCatch c h s s1 o s2 : exec c s E s1 -> exec h s1 o s2 -> exec (TryExcept c h) s o s2.
End Exec.

(* A call abstracted by the callee's summary. *)
Definition call_sum (T : table) (f : fname) (p : Z) (raised : bool) (p' : Z) : Prop :=
  if raised then (exs (sig_of T f) = true -> p' = p) else (bal (sig_of T f) = true -> p' = p).

(* A call executed by running the callee's body in a fresh frame, calls inlined to depth n.
   Return / falling off the end are a normal return of the call; an exception propagates. *)
Fixpoint call_inl (T : table) (n : nat) (f : fname) (p : Z) (raised : bool) (p' : Z) : Prop :=
  match n with
  | O => False
  | S n' => exists e0 o s', exec T (call_inl T n') (body_of T f) (mkst p e0) o s' /\ p' = prec s' /\
                            raised = match o with E => true | _ => false end
  end.
