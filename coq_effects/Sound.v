(* Engine C: soundness of the abstract interpreter and of a checked summary table. *)
From Coq Require Import ZArith List Bool Lia FMapPositive.
Import ListNotations.
Require Import EFF.Cmd EFF.Check.
Open Scope Z_scope.

(* ------------------------------------------------------------------ linear forms *)
Lemma ladd_eval e v k l : leval e (ladd v k l) = k * e v + leval e l.
Proof.
  induction l as [|[w c] r IH]; simpl; [lia|].
  destruct (Nat.eqb v w) eqn:Hvw.
  - apply Nat.eqb_eq in Hvw; subst w. destruct (c + k =? 0) eqn:Hz; simpl.
    + apply Z.eqb_eq in Hz. nia.
    + nia.
  - destruct (Nat.ltb v w); simpl; [lia|]. rewrite IH. lia.
Qed.

Lemma mentions_upd e v z l : mentions v l = false -> leval (upd e v z) l = leval e l.
Proof.
  induction l as [|[w c] r IH]; simpl; intros H; [reflexivity|].
  apply orb_false_elim in H as [H1 H2]. rewrite (IH H2). unfold upd. simpl in H1. rewrite H1. reflexivity.
Qed.

Lemma lin_eqb_eq l l' : lin_eqb l l' = true -> l = l'.
Proof.
  revert l'; induction l as [|[v c] r IH]; intros [|[v' c'] r']; simpl; intros H; try discriminate; [reflexivity|].
  apply andb_prop in H as [H H3]. apply andb_prop in H as [H1 H2].
  apply Nat.eqb_eq in H1. apply Z.eqb_eq in H2. rewrite (IH _ H3). congruence.
Qed.

Lemma aexp_eqb_eq a b : aexp_eqb a b = true -> a = b.
Proof.
  destruct a as [[k l]|], b as [[k' l']|]; simpl; intros H; try discriminate; [|reflexivity].
  apply andb_prop in H as [H1 H2]. apply Z.eqb_eq in H1. apply lin_eqb_eq in H2. congruence.
Qed.

(* ------------------------------------------------------------------ concretisation *)
Definition gam_e (p0 : Z) (a : aexp) (e : var -> Z) (z : Z) : Prop :=
  match a with Some (k, l) => z = p0 + k + leval e l | None => True end.
Definition gam (p0 : Z) (A : astate) (s : state) : Prop :=
  gam_e p0 (ap A) (env s) (prec s) /\ forall v, gam_e p0 (alook v (asv A)) (env s) (env s v).

Lemma gam_e_leq p0 a b e z : aexp_leq a b = true -> gam_e p0 a e z -> gam_e p0 b e z.
Proof.
  destruct b as [kl|]; simpl; [|trivial]. intros H. apply aexp_eqb_eq in H. subst a. trivial.
Qed.

Lemma gam_e_kill p0 a e v z x : gam_e p0 a e x -> gam_e p0 (kill v a) (upd e v z) x.
Proof.
  destruct a as [[k l]|]; simpl; [|trivial]. destruct (mentions v l) eqn:H; simpl; [trivial|].
  intros ->. rewrite mentions_upd by exact H. reflexivity.
Qed.

Lemma aadd_gam p0 a s sg t x : gam_e p0 a (env s) x -> gam_e p0 (aadd a sg t) (env s) (x + sg * aval s t).
Proof.
  destruct a as [[k l]|]; [|trivial]. destruct t as [v|z]; unfold aadd, gam_e, aval; intros ->.
  - rewrite ladd_eval. ring.
  - ring.
Qed.

Lemma alook_aremove w v m : alook w (aremove v m) = if Nat.eqb w v then None else alook w m.
Proof.
  induction m as [|[u e] r IH]; simpl.
  - destruct (Nat.eqb w v); reflexivity.
  - destruct (Nat.eqb v u) eqn:Hvu.
    + apply Nat.eqb_eq in Hvu; subst u. rewrite IH. destruct (Nat.eqb w v); reflexivity.
    + simpl. destruct (Nat.eqb w u) eqn:Hwu.
      * apply Nat.eqb_eq in Hwu; subst u. rewrite Nat.eqb_sym in Hvu. rewrite Hvu. reflexivity.
      * exact IH.
Qed.

Lemma alook_map_kill w v m :
  alook w (map (fun p => (fst p, kill v (snd p))) m) = match alook w m with None => None | x => kill v x end.
Proof.
  induction m as [|[u e] r IH]; simpl; [reflexivity|].
  destruct (Nat.eqb w u); [destruct e as [[k l]|]; simpl; [destruct (mentions v l)|]; reflexivity|exact IH].
Qed.

Lemma gam_akill p0 m e v z :
  (forall w, gam_e p0 (alook w m) e (e w)) ->
  forall w, w <> v -> gam_e p0 (alook w (akill v m)) (upd e v z) (upd e v z w).
Proof.
  intros H w Hw. unfold akill. rewrite alook_map_kill, alook_aremove.
  apply Nat.eqb_neq in Hw. rewrite Hw.
  assert (G : gam_e p0 (kill v (alook w m)) (upd e v z) (e w)) by (apply gam_e_kill, H).
  unfold upd at 2. rewrite Hw.
  destruct (alook w m) as [[k l]|]; [exact G|exact I].
Qed.

Lemma alook_akill_self p0 v m e x : gam_e p0 (alook v (akill v m)) e x.
Proof.
  unfold akill. rewrite alook_map_kill, alook_aremove, Nat.eqb_refl. exact I.
Qed.

Lemma aleq_gam p0 A A0 s : aleq A A0 = true -> gam p0 A s -> gam p0 A0 s.
Proof.
  unfold aleq; intros H [Hp Hs]. apply andb_prop in H as [H1 H2]. split.
  - eapply gam_e_leq; eauto.
  - intros v. induction (asv A0) as [|[w e] r IH]; simpl; [exact I|].
    simpl in H2. apply andb_prop in H2 as [H2 H3].
    destruct (Nat.eqb v w) eqn:Hvw.
    + apply Nat.eqb_eq in Hvw; subst w. eapply gam_e_leq; [exact H2|apply Hs].
    + apply IH, H3.
Qed.

(* ------------------------------------------------------------------ coverage of a concrete state by a list *)
Definition cov (p0 : Z) (l : list astate) (s : state) : Prop := exists A, In A l /\ gam p0 A s.

Lemma cov_one p0 A s : gam p0 A s -> cov p0 [A] s.
Proof. intros; exists A; split; [left; reflexivity|assumption]. Qed.
Lemma cov_app_l p0 l1 l2 s : cov p0 l1 s -> cov p0 (l1 ++ l2) s.
Proof. intros [A [H G]]; exists A; split; [apply in_or_app; left|]; assumption. Qed.
Lemma cov_app_r p0 l1 l2 s : cov p0 l2 s -> cov p0 (l1 ++ l2) s.
Proof. intros [A [H G]]; exists A; split; [apply in_or_app; right|]; assumption. Qed.
Lemma cov_cons p0 A l s : cov p0 l s -> cov p0 (A :: l) s.
Proof. intros [A' [H G]]; exists A'; split; [right|]; assumption. Qed.
Lemma cov_flat p0 (f : astate -> list astate) l A s : In A l -> cov p0 (f A) s -> cov p0 (flat_map f l) s.
Proof. intros H [A' [H' G]]; exists A'; split; [apply in_flat_map; eauto|assumption]. Qed.

Lemma compress_acc_cov l : forall acc x,
  (In x l \/ exists y, In y acc /\ (x = y \/ aleq x y = true)) ->
  exists y, In y (compress_acc l acc) /\ (x = y \/ aleq x y = true).
Proof.
  induction l as [|x0 r IH]; simpl; intros acc x H.
  - destruct H as [[]|H]; exact H.
  - destruct (existsb (aleq x0) acc) eqn:Hex.
    + apply IH. destruct H as [[->|H]|H]; [|left; exact H|right; exact H].
      right. apply existsb_exists in Hex as [y [Hy Hl]]. exists y; split; [exact Hy|right; exact Hl].
    + apply IH. destruct H as [[->|H]|[y [Hy Hl]]].
      * right; exists x; split; [left; reflexivity|left; reflexivity].
      * left; exact H.
      * right; exists y; split; [right; exact Hy|exact Hl].
Qed.

Lemma cov_compress p0 l s : cov p0 l s -> cov p0 (compress l) s.
Proof.
  intros [A [H G]]. destruct (compress_acc_cov l [] A (or_introl H)) as [y [Hy Hl]].
  exists y; split; [exact Hy|]. destruct Hl as [<-|Hl]; [exact G|eapply aleq_gam; eauto].
Qed.

Lemma xof_xcompress o X : xof o (xcompress X) = compress (xof o X).
Proof. destruct o; reflexivity. Qed.

Lemma settop_gam p0 A s z : gam p0 A s -> gam p0 (settop A) (setp s z).
Proof. intros [Hp Hs]; split; simpl; [exact I|exact Hs]. Qed.
Lemma setp_same s : setp s (prec s) = s.
Proof. destruct s; reflexivity. Qed.

(* ------------------------------------------------------------------ soundness of aexec *)
Section Sound.
  Variable T : table.
  Variable callrel : fname -> Z -> bool -> Z -> Prop.
  Hypothesis callrel_sum : forall f p r p', callrel f p r p' -> call_sum T f p r p'.
  Variable p0 : Z.

  Definition sound_cmd (c : cmd) : Prop :=
    forall s o s', exec T callrel c s o s' -> forall A, gam p0 A s -> cov p0 (xof o (aexec T c A)) s'.

  Lemma xof_xapp o X Y : xof o (xapp X Y) = xof o X ++ xof o Y.
  Proof. destruct o; reflexivity. Qed.

  Lemma xflat_cov (f : astate -> exits) l A o s :
    In A l -> cov p0 (xof o (f A)) s -> cov p0 (xof o (xflat f l)) s.
  Proof.
    intros H Hc. induction l as [|B r IH]; [destruct H|]. unfold xflat; simpl. rewrite xof_xapp.
    destruct H as [->|H]; [apply cov_app_l; exact Hc|apply cov_app_r; apply IH; exact H].
  Qed.

  Lemma loop_sound c : sound_cmd c ->
    forall A0, forallb (fun A' => aleq A' A0) (xn (aexec T c A0) ++ xc (aexec T c A0)) = true ->
    forall s o s', exec T callrel (Loop c) s o s' -> gam p0 A0 s ->
      cov p0 (xof o (loop_result A0 (aexec T c A0))) s'.
  Proof.
    intros Hc A0 Hinv s o s' Hx. remember (Loop c) as lc eqn:Hlc.
    induction Hx; try discriminate; injection Hlc as ->; intros G.
    - (* exit *) exists A0; split; [left; reflexivity|exact G].
    - (* next *)
      apply IHHx2; [reflexivity|].
      destruct (Hc _ _ _ Hx1 A0 G) as [A1 [Hin G1]].
      eapply aleq_gam; [|exact G1].
      rewrite forallb_forall in Hinv. apply Hinv. apply in_or_app.
      destruct H as [->| ->]; [left|right]; exact Hin.
    - (* break *)
      destruct (Hc _ _ _ Hx A0 G) as [A1 [Hin G1]]. exists A1; split; [right; exact Hin|exact G1].
    - (* abort *)
      destruct (Hc _ _ _ Hx A0 G) as [A1 [Hin G1]]. exists A1; split; [|exact G1].
      destruct H as [->| ->]; exact Hin.
  Qed.

  Lemma loop_ok_sound c A A0 : sound_cmd c -> loop_ok A A0 (aexec T c A0) = true ->
    forall s o s', exec T callrel (Loop c) s o s' -> gam p0 A s ->
      cov p0 (xof o (xcompress (loop_result A0 (aexec T c A0)))) s'.
  Proof.
    intros Hc Hok s o s' Hx G. unfold loop_ok in Hok. apply andb_prop in Hok as [H1 H2].
    rewrite xof_xcompress. apply cov_compress. eapply loop_sound; eauto. eapply aleq_gam; eauto.
  Qed.

  Lemma inv_seq c1 c2 s o s' : exec T callrel (Seq c1 c2) s o s' ->
    (exists s1, exec T callrel c1 s N s1 /\ exec T callrel c2 s1 o s') \/ (exec T callrel c1 s o s' /\ o <> N).
  Proof. inversion 1; subst; eauto. Qed.
  Lemma inv_if c1 c2 s o s' : exec T callrel (If c1 c2) s o s' ->
    exec T callrel c1 s o s' \/ exec T callrel c2 s o s'.
  Proof. inversion 1; subst; eauto. Qed.
  Lemma inv_fin c f s o s' : exec T callrel (TryFinally c f) s o s' ->
    (exists s1, exec T callrel c s o s1 /\ exec T callrel f s1 N s') \/
    (exists o1 s1, exec T callrel c s o1 s1 /\ exec T callrel f s1 o s' /\ o <> N).
  Proof. inversion 1; subst; eauto 6. Qed.
  Lemma inv_exc c h s o s' : exec T callrel (TryExcept c h) s o s' ->
    exec T callrel c s o s' \/ (exists s1, exec T callrel c s E s1 /\ exec T callrel h s1 o s').
  Proof. inversion 1; subst; eauto. Qed.

  Theorem aexec_sound c : sound_cmd c.
  Proof.
    induction c; intros s o s' Hx A0 G; simpl.
    - (* Skip *) inversion Hx; subst. apply cov_one, G.
    - (* Save *) inversion Hx; subst. apply cov_one. destruct G as [Hp Hs]. split; simpl.
      + apply gam_e_kill, Hp.
      + intros w. destruct (Nat.eqb w v) eqn:Hwv.
        * apply Nat.eqb_eq in Hwv; subst w. unfold upd at 2. rewrite Nat.eqb_refl. apply gam_e_kill, Hp.
        * apply gam_akill; [exact Hs|]. apply Nat.eqb_neq, Hwv.
    - (* SetVar *) inversion Hx; subst. apply cov_one. destruct G as [Hp Hs]. split; simpl; [apply Hs|exact Hs].
    - (* SetOpaque *) inversion Hx; subst. apply cov_one, settop_gam, G.
    - (* SetDps *) inversion Hx; subst. apply cov_one, settop_gam, G.
    - (* AddPrec *) inversion Hx; subst. apply cov_one. destruct G as [Hp Hs]. split; simpl; [|exact Hs].
      replace (prec s + aval s a) with (prec s + 1 * aval s a) by lia. apply aadd_gam, Hp.
    - (* SubPrec *) inversion Hx; subst. apply cov_one. destruct G as [Hp Hs]. split; simpl; [|exact Hs].
      replace (prec s - aval s a) with (prec s + (-1) * aval s a) by lia. apply aadd_gam, Hp.
    - (* Havoc *) inversion Hx; subst. apply cov_one. destruct G as [Hp Hs]. split; simpl.
      + apply gam_e_kill, Hp.
      + intros w. destruct (Nat.eqb w v) eqn:Hwv.
        * apply Nat.eqb_eq in Hwv; subst w. apply alook_akill_self.
        * apply gam_akill; [exact Hs|]. apply Nat.eqb_neq, Hwv.
    - (* CallExt *) inversion Hx; subst; apply cov_one, G.
    - (* CallFn *) inversion Hx; subst. apply callrel_sum in H0. unfold call_sum in H0.
      destruct raised; simpl; apply cov_one.
      + destruct (exs (sig_of T f)); [rewrite (H0 eq_refl), setp_same; exact G|apply settop_gam, G].
      + destruct (bal (sig_of T f)); [rewrite (H0 eq_refl), setp_same; exact G|apply settop_gam, G].
    - (* Guard *) inversion Hx; subst; apply cov_one; rewrite H0; [exact G|apply settop_gam, G].
    - (* Raise *) inversion Hx; subst. apply cov_one, G.
    - (* Return *) inversion Hx; subst. apply cov_one, G.
    - (* Break *) inversion Hx; subst. apply cov_one, G.
    - (* Continue *) inversion Hx; subst. apply cov_one, G.
    - (* Seq *) rewrite xof_xcompress. apply cov_compress.
      destruct (inv_seq _ _ _ _ _ Hx) as [[s1 [Ha Hb]]|[Ha Hne]].
      + destruct (IHc1 _ _ _ Ha A0 G) as [A1 [Hin G1]]. simpl in Hin.
        pose proof (xflat_cov (aexec T c2) _ A1 o s' Hin (IHc2 _ _ _ Hb A1 G1)) as Hc.
        destruct o; simpl in *; [exact Hc|apply cov_app_r; exact Hc ..].
      + pose proof (IHc1 _ _ _ Ha A0 G) as Hc.
        destruct o; simpl in *; [congruence|apply cov_app_l; exact Hc ..].
    - (* If *) rewrite xof_xcompress. apply cov_compress.
      destruct (inv_if _ _ _ _ _ Hx) as [Ha|Ha].
      + pose proof (IHc1 _ _ _ Ha A0 G) as Hc. destruct o; simpl; apply cov_app_l; exact Hc.
      + pose proof (IHc2 _ _ _ Ha A0 G) as Hc. destruct o; simpl; apply cov_app_r; exact Hc.
    - (* Loop *)
      destruct (loop_ok A0 A0 (aexec T c A0)) eqn:H1; [eapply loop_ok_sound; eauto|].
      set (A1 := weaken A0 (xn (aexec T c A0) ++ xc (aexec T c A0))).
      destruct (loop_ok A0 A1 (aexec T c A1)) eqn:H2; [eapply loop_ok_sound; eauto|].
      set (A2 := weaken A1 (xn (aexec T c A1) ++ xc (aexec T c A1))).
      destruct (loop_ok A0 A2 (aexec T c A2)) eqn:H3; [eapply loop_ok_sound; eauto|].
      eapply loop_ok_sound; eauto.
      unfold loop_ok. replace (aleq A0 atop) with true.
      2:{ unfold aleq, atop; simpl. reflexivity. }
      simpl. apply forallb_forall. intros x _. reflexivity.
    - (* TryFinally *) rewrite xof_xcompress. apply cov_compress.
      destruct (inv_fin _ _ _ _ _ Hx) as [[s1 [Ha Hb]]|[o1 [s1 [Ha [Hb Hne]]]]].
      + (* handler normal *)
        destruct (IHc1 _ _ _ Ha A0 G) as [A1 [Hin G1]].
        pose proof (IHc2 _ _ _ Hb A1 G1) as Hc. simpl in Hc.
        pose proof (xflat_cov (aexec T c2) _ A1 N s' Hin Hc) as Hf.
        destruct o; simpl in *; [exact Hf|apply cov_app_l; exact Hf ..].
      + (* handler abrupt *)
        destruct (IHc1 _ _ _ Ha A0 G) as [A1 [Hin G1]].
        pose proof (IHc2 _ _ _ Hb A1 G1) as Hc.
        pose proof (xflat_cov (aexec T c2) _ A1 o s' Hin Hc) as Hf.
        destruct o; [congruence| | | |]; destruct o1; simpl in *;
          repeat (first [apply cov_app_l; exact Hf | apply cov_app_r]); exact Hf.
    - (* TryExcept *) rewrite xof_xcompress. apply cov_compress.
      destruct (inv_exc _ _ _ _ _ Hx) as [Ha|[s1 [Ha Hb]]].
      + pose proof (IHc1 _ _ _ Ha A0 G) as Hc. destruct o; simpl; apply cov_app_l; exact Hc.
      + destruct (IHc1 _ _ _ Ha A0 G) as [A1 [Hin G1]]. simpl in Hin.
        pose proof (xflat_cov (aexec T c2) _ A1 o s' Hin (IHc2 _ _ _ Hb A1 G1)) as Hc.
        destruct o; simpl; apply cov_app_r; exact Hc.
  Qed.

  Lemma zero_exit_prec A s : zero_exit A = true -> gam p0 A s -> prec s = p0.
  Proof.
    unfold zero_exit. intros H [Hp _]. destruct (ap A) as [[k l]|]; [|discriminate].
    destruct k; try discriminate. destruct l; try discriminate. simpl in Hp. lia.
  Qed.
End Sound.

(* ------------------------------------------------------------------ a checked table is sound for inlined executions *)
Definition holds (sm : summ) (p : Z) (o : outcome) (p' : Z) : Prop :=
  match o with E => exs sm = true -> p' = p | _ => bal sm = true -> p' = p end.

Lemma init_gam p e : gam p ainit (mkst p e).
Proof. split; simpl; [lia|intros; exact I]. Qed.

Lemma check_fn_holds (T : table) (callrel : fname -> Z -> bool -> Z -> Prop) (sm : summ) (c : cmd) :
  (forall f p r p', callrel f p r p' -> call_sum T f p r p') ->
  check_fn T sm c = true ->
  forall p e0 o s', exec T callrel c (mkst p e0) o s' -> holds sm p o (prec s').
Proof.
  intros Hcr Hck p e0 o s' Hx.
  destruct (aexec_sound T callrel Hcr p c _ _ _ Hx ainit (init_gam p e0)) as [A [Hin G]].
  unfold check_fn, sum_leq, summary_of in Hck. simpl in Hck.
  apply andb_prop in Hck as [Hb He].
  assert (Z : forall l, In A l -> forallb zero_exit l = true -> prec s' = p).
  { intros l Hl Hf. rewrite forallb_forall in Hf. eapply zero_exit_prec; eauto. }
  destruct o; simpl in *; intros Hflag; rewrite Hflag in *; simpl in *.
  - apply andb_prop in Hb as [Hb _]. apply andb_prop in Hb as [Hb _]. apply andb_prop in Hb as [Hb _]. eauto.
  - eauto.
  - apply andb_prop in Hb as [Hb _]. apply andb_prop in Hb as [Hb _]. apply andb_prop in Hb as [_ Hb]. eauto.
  - apply andb_prop in Hb as [Hb _]. apply andb_prop in Hb as [_ Hb]. eauto.
  - apply andb_prop in Hb as [_ Hb]. eauto.
Qed.

Lemma table_entry T f sm c : check_table T = true -> PositiveMap.find f T = Some (sm, c) ->
  check_fn T sm c = true.
Proof.
  unfold check_table. intros H Hf. rewrite forallb_forall in H.
  apply PositiveMap.elements_correct in Hf. apply (H _ Hf).
Qed.

Theorem call_inl_sound T : check_table T = true ->
  forall n f p r p', call_inl T n f p r p' -> call_sum T f p r p'.
Proof.
  intros Hck. induction n as [|n IH]; intros f p r p' H; simpl in H; [contradiction|].
  destruct H as [e0 [o [s' [Hx [-> ->]]]]].
  unfold call_sum, sig_of. unfold body_of in Hx.
  destruct (PositiveMap.find f T) as [[sm c]|] eqn:Hf.
  - pose proof (check_fn_holds T (call_inl T n) sm c IH (table_entry _ _ _ _ Hck Hf) _ _ _ _ Hx) as Hh.
    destruct o; simpl in *; exact Hh.
  - destruct o; simpl; discriminate.
Qed.

(* Main theorem: if every entry of the table passes `check_fn` against the table's own summaries, then
   every execution of every function of the table, with calls to analysed functions inlined to any depth,
   satisfies that function's summary. *)
Theorem table_sound T : check_table T = true ->
  forall n f sm c, PositiveMap.find f T = Some (sm, c) ->
  forall p e0 o s', exec T (call_inl T n) c (mkst p e0) o s' -> holds sm p o (prec s').
Proof.
  intros Hck n f sm c Hf. eapply check_fn_holds; [apply call_inl_sound, Hck|eapply table_entry; eauto].
Qed.

(* Corollary for entry points: both flags => precision on exit = precision on entry, for normal
   completion, return and exception (and formally for the impossible top-level break/continue). *)
Corollary entry_point_restores T : check_table T = true ->
  forall n f c, PositiveMap.find f T = Some (mksum true true, c) ->
  forall p e0 o s', exec T (call_inl T n) c (mkst p e0) o s' -> prec s' = p.
Proof.
  intros Hck n f c Hf p e0 o s' Hx. pose proof (table_sound T Hck n f _ c Hf p e0 o s' Hx) as H.
  destruct o; simpl in H; auto.
Qed.

(* The same through the flags, convenient for tables whose summaries are computed. *)
Corollary neutral_restores T : check_table T = true ->
  forall n f, neutral T f = true ->
  forall p e0 o s', exec T (call_inl T n) (body_of T f) (mkst p e0) o s' -> prec s' = p.
Proof.
  intros Hck n f Hn p e0 o s' Hx. unfold neutral, sig_of in Hn. unfold body_of in Hx.
  destruct (PositiveMap.find f T) as [[sm c]|] eqn:Hf; [|discriminate].
  apply andb_prop in Hn as [Hb He].
  pose proof (table_sound T Hck n f sm c Hf p e0 o s' Hx) as H.
  destruct o; simpl in H; auto.
Qed.

(* The idioms of the sources, as sanity checks of the checker itself. *)
Definition T0 : table := PositiveMap.empty _.
Example wrap_specfun_ok :
  summary_of T0 (Seq (Save 0%nat) (TryFinally (Seq (AddPrec (AConst 10)) CallExt) (SetVar 0%nat))) = mksum true true.
Proof. reflexivity. Qed.
Example no_finally_leaks :
  summary_of T0 (Seq (Save 0%nat) (Seq (AddPrec (AVar 1%nat)) (Seq CallExt (SetVar 0%nat)))) = mksum true false.
Proof. reflexivity. Qed.
Example addsub_leaks : summary_of T0 (Seq (AddPrec (AVar 3%nat)) (Seq CallExt (SubPrec (AVar 3%nat)))) = mksum true false.
Proof. reflexivity. Qed.
Example early_return_leaks :
  summary_of T0 (Seq (Save 0%nat) (Seq (AddPrec (AConst 10)) (Seq (If Return Skip) (SetVar 0%nat)))) = mksum false true.
Proof. reflexivity. Qed.
Example return_in_finally_ok :
  summary_of T0 (Seq (Save 0%nat) (TryFinally (Seq SetOpaque (Seq CallExt Return)) (SetVar 0%nat))) = mksum true true.
Proof. reflexivity. Qed.
Example restore_through_dps_bad :
  summary_of T0 (Seq (Save 0%nat) (TryFinally (Seq (AddPrec (AConst 10)) CallExt) SetDps)) = mksum false false.
Proof. reflexivity. Qed.
Example loop_invariant_ok :
  summary_of T0 (Loop (Seq (AddPrec (AVar 1%nat)) (Seq (If Break Skip) (SubPrec (AVar 1%nat))))) = mksum false true.
Proof. reflexivity. Qed.
Example loop_growing_prec_restored :
  summary_of T0 (Seq (Save 0%nat) (TryFinally (Loop (Seq (AddPrec (AConst 10)) (Seq CallExt (If Return Skip)))) (SetVar 0%nat)))
  = mksum true true.
Proof. reflexivity. Qed.
Example with_pm_ok : summary_of T0 (WithPM 5%nat (Seq CallExt SetOpaque) (Seq CallExt (If Return Skip))) = mksum true true.
Proof. reflexivity. Qed.

Print Assumptions table_sound.
Print Assumptions entry_point_restores.
Print Assumptions neutral_restores.
