(* C11 -- precision restored after every call.  Statements only; every proof is `exact <lemma>`.
   The per-run obligations (the table of effect skeletons regenerated from the sources and its check,
   the setter cases observed on the running implementation) are in build/effects/{Terms,CtxCases}.v. *)
From Coq Require Import ZArith List Bool FMapPositive.
Require Import EFF.Cmd EFF.Check EFF.Sound EFF.Ctx.
Open Scope Z_scope.

(* If every function of a table passes the checker against the table's own summaries, every execution of every
   function -- calls to analysed functions inlined to any depth n, callbacks/primitives raising anywhere --
   satisfies its summary (bal: normal exits keep prec, exs: exceptional exits keep prec). *)
Theorem C11_table_sound : forall T : table, check_table T = true ->
  forall (n : nat) (f : fname) (sm : summ) (c : cmd), PositiveMap.find f T = Some (sm, c) ->
  forall (p : Z) (e0 : var -> Z) (o : outcome) (s' : state),
    exec T (call_inl T n) c (mkst p e0) o s' -> holds sm p o (Cmd.prec s').
Proof. exact table_sound. Qed.

(* Entry points (both flags): the precision after the call is the precision before it, whether the call
   returns, falls off the end, or raises. *)
Theorem C11_entry_point_restores : forall T : table, check_table T = true ->
  forall (n : nat) (f : fname), neutral T f = true ->
  forall (p : Z) (e0 : var -> Z) (o : outcome) (s' : state),
    exec T (call_inl T n) (body_of T f) (mkst p e0) o s' -> Cmd.prec s' = p.
Proof. exact neutral_restores. Qed.

(* the abstract interpreter itself, for any way of resolving calls that respects the summaries *)
Theorem C11_checker_sound : forall (T : table) (callrel : fname -> Z -> bool -> Z -> Prop) (sm : summ) (c : cmd),
  (forall f p r p', callrel f p r p' -> call_sum T f p r p') ->
  check_fn T sm c = true ->
  forall p e0 o s', exec T callrel c (mkst p e0) o s' -> holds sm p o (Cmd.prec s').
Proof. exact check_fn_holds. Qed.

(* setting prec then reading dps follows prec_to_dps; setting dps then reading prec follows dps_to_prec *)
Theorem C11_set_prec : forall n, Ctx.prec (set_prec n) = Z.max 1 n /\ dps (set_prec n) = prec_to_dps n.
Proof. exact set_prec_spec. Qed.
Theorem C11_set_dps : forall n, Ctx.prec (set_dps n) = dps_to_prec n /\ dps (set_dps n) = Z.max 1 n.
Proof. exact set_dps_spec. Qed.

(* a state set through dps survives a restore through prec ... *)
Theorem C11_prec_dps_roundtrip : forall d, 1 <= d <= 10 ^ 6 -> prec_to_dps (dps_to_prec d) = d.
Proof. exact prec_dps_roundtrip. Qed.
Theorem C11_prec_dps_roundtrip_unbounded : forall d, 1 <= d -> prec_to_dps (dps_to_prec d) = d.
Proof. exact prec_dps_roundtrip_all. Qed.
(* ... so writing back the prec that was read restores prec AND dps exactly, on every state the setters produce *)
Theorem C11_setters_wf : forall n, wf (set_prec n) /\ wf (set_dps n).
Proof. exact (fun n => conj (set_prec_wf n) (set_dps_wf n)). Qed.
Theorem C11_restore_exact : forall s, wf s -> set_prec (Ctx.prec s) = s.
Proof. exact restore_exact. Qed.
(* ... whereas restoring through dps is lossy (prec 101 -> dps 29 -> prec 100): any such restore is flagged *)
Theorem C11_dps_restore_lossy : exists p, dps_to_prec (prec_to_dps p) <> p.
Proof. exact dps_restore_lossy. Qed.

Print Assumptions C11_table_sound.
Print Assumptions C11_entry_point_restores.
Print Assumptions C11_checker_sound.
Print Assumptions C11_set_prec.
Print Assumptions C11_set_dps.
Print Assumptions C11_prec_dps_roundtrip.
Print Assumptions C11_prec_dps_roundtrip_unbounded.
Print Assumptions C11_setters_wf.
Print Assumptions C11_restore_exact.
Print Assumptions C11_dps_restore_lossy.
