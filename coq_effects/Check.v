(* Engine C: the computable abstract interpreter.
   Abstract value of an integer (the current prec, or a local): either unknown (None) or
       P0 + k + sum_i c_i * env(v_i)
   where P0 is the precision on entry of the function under analysis; the linear form is kept sorted by
   variable with non-zero coefficients so that syntactic equality is a good equality test. *)
From Coq Require Import ZArith List Bool FMapPositive.
Import ListNotations.
Require Import EFF.Cmd.
Open Scope Z_scope.

Definition lin := list (var * Z).
Fixpoint ladd (v : var) (k : Z) (l : lin) : lin :=
  match l with
  | [] => [(v, k)]
  | (w, c) :: r =>
      if Nat.eqb v w then (if (c + k =? 0) then r else (w, c + k) :: r)
      else if Nat.ltb v w then (v, k) :: l else (w, c) :: ladd v k r
  end.
Fixpoint leval (e : var -> Z) (l : lin) : Z :=
  match l with [] => 0 | (v, c) :: r => c * e v + leval e r end.
Definition mentions (v : var) (l : lin) : bool := existsb (fun t => Nat.eqb (fst t) v) l.

Definition aexp := option (Z * lin).
Fixpoint lin_eqb (l l' : lin) : bool :=
  match l, l' with
  | [], [] => true
  | (v, c) :: r, (v', c') :: r' => Nat.eqb v v' && (c =? c') && lin_eqb r r'
  | _, _ => false
  end.
Definition aexp_eqb (a b : aexp) : bool :=
  match a, b with
  | None, None => true
  | Some (k, l), Some (k', l') => (k =? k') && lin_eqb l l'
  | _, _ => false
  end.
(* a is at least as precise as b *)
Definition aexp_leq (a b : aexp) : bool := match b with None => true | Some _ => aexp_eqb a b end.
Definition kill (v : var) (a : aexp) : aexp :=
  match a with Some (k, l) => if mentions v l then None else Some (k, l) | None => None end.
Definition aadd (a : aexp) (sgn : Z) (t : atom) : aexp :=
  match a with
  | None => None
  | Some (k, l) => match t with AVar v => Some (k, ladd v sgn l) | AConst z => Some (k + sgn * z, l) end
  end.

Record astate := mka { ap : aexp; asv : list (var * aexp) }.
Fixpoint alook (v : var) (m : list (var * aexp)) : aexp :=
  match m with [] => None | (w, e) :: r => if Nat.eqb v w then e else alook v r end.
Fixpoint aremove (v : var) (m : list (var * aexp)) : list (var * aexp) :=
  match m with [] => [] | (w, e) :: r => if Nat.eqb v w then aremove v r else (w, e) :: aremove v r end.
Definition akill (v : var) (m : list (var * aexp)) : list (var * aexp) :=
  map (fun p => (fst p, kill v (snd p))) (aremove v m).
Definition atop : astate := mka None [].
Definition ainit : astate := mka (Some (0, [])) [].
Definition settop (A : astate) : astate := mka None (asv A).

Definition aleq (A A0 : astate) : bool :=
  aexp_leq (ap A) (ap A0) && forallb (fun p => aexp_leq (alook (fst p) (asv A)) (snd p)) (asv A0).

(* keep only one representative of states subsumed by another one *)
Fixpoint compress_acc (l acc : list astate) : list astate :=
  match l with
  | [] => acc
  | x :: r => if existsb (aleq x) acc then compress_acc r acc else compress_acc r (x :: acc)
  end.
Definition compress (l : list astate) : list astate := compress_acc l [].

Record exits := mkx { xn : list astate; xe : list astate; xr : list astate; xb : list astate; xc : list astate }.
Definition xof (o : outcome) (X : exits) : list astate :=
  match o with N => xn X | E => xe X | R => xr X | B => xb X | C => xc X end.
Definition x0 : exits := mkx [] [] [] [] [].
Definition xnorm (A : astate) : exits := mkx [A] [] [] [] [].
Definition xapp (X Y : exits) : exits :=
  mkx (xn X ++ xn Y) (xe X ++ xe Y) (xr X ++ xr Y) (xb X ++ xb Y) (xc X ++ xc Y).
Definition xcompress (X : exits) : exits :=
  mkx (compress (xn X)) (compress (xe X)) (compress (xr X)) (compress (xb X)) (compress (xc X)).
(* NB: f A is computed once per A (a component-wise flat_map would recompute it five times per level) *)
Definition xflat (f : astate -> exits) (l : list astate) : exits :=
  fold_right (fun A acc => xapp (f A) acc) x0 l.

(* weaken a candidate loop invariant so that it is implied by the given states *)
Definition weaken (A : astate) (l : list astate) : astate :=
  mka (if forallb (fun A' => aexp_leq (ap A') (ap A)) l then ap A else None)
      (filter (fun p => forallb (fun A' => aexp_leq (alook (fst p) (asv A')) (snd p)) l) (asv A)).

Section Aexec.
  Variable T : table.

  Definition loop_result (A0 : astate) (X : exits) : exits := mkx (A0 :: xb X) (xe X) (xr X) [] [].
  Definition loop_ok (A A0 : astate) (X : exits) : bool :=
    aleq A A0 && forallb (fun A' => aleq A' A0) (xn X ++ xc X).

  Fixpoint aexec (c : cmd) (A : astate) : exits :=
    match c with
    | Skip => xnorm A
    | Save v => let p := kill v (ap A) in xnorm (mka p ((v, p) :: akill v (asv A)))
    | SetVar v => xnorm (mka (alook v (asv A)) (asv A))
    | SetOpaque => xnorm (settop A)
    | SetDps => xnorm (settop A)
    | AddPrec a => xnorm (mka (aadd (ap A) 1 a) (asv A))
    | SubPrec a => xnorm (mka (aadd (ap A) (-1) a) (asv A))
    | Havoc v => xnorm (mka (kill v (ap A)) (akill v (asv A)))
    | CallExt => mkx [A] [A] [] [] []
    | CallFn f => mkx [if bal (sig_of T f) then A else settop A] [if exs (sig_of T f) then A else settop A] [] [] []
    | Guard hs => xnorm (if forallb (neutral T) hs then A else settop A)
    | Raise => mkx [] [A] [] [] []
    | Return => mkx [] [] [A] [] []
    | Break => mkx [] [] [] [A] []
    | Continue => mkx [] [] [] [] [A]
    | Seq c1 c2 =>
        let X1 := aexec c1 A in
        let X2 := xflat (aexec c2) (xn X1) in
        xcompress (mkx (xn X2) (xe X1 ++ xe X2) (xr X1 ++ xr X2) (xb X1 ++ xb X2) (xc X1 ++ xc X2))
    | If c1 c2 => xcompress (xapp (aexec c1 A) (aexec c2 A))
    | Loop c1 =>
        let X0 := aexec c1 A in
        if loop_ok A A X0 then xcompress (loop_result A X0) else
        let A1 := weaken A (xn X0 ++ xc X0) in
        let X1 := aexec c1 A1 in
        if loop_ok A A1 X1 then xcompress (loop_result A1 X1) else
        let A2 := weaken A1 (xn X1 ++ xc X1) in
        let X2 := aexec c1 A2 in
        if loop_ok A A2 X2 then xcompress (loop_result A2 X2) else
        xcompress (loop_result atop (aexec c1 atop))
    | TryFinally c1 f =>
        let X1 := aexec c1 A in
        let FN := xflat (aexec f) (xn X1) in let FE := xflat (aexec f) (xe X1) in
        let FR := xflat (aexec f) (xr X1) in let FB := xflat (aexec f) (xb X1) in
        let FC := xflat (aexec f) (xc X1) in
        xcompress (mkx (xn FN)
                       (xn FE ++ xe FN ++ xe FE ++ xe FR ++ xe FB ++ xe FC)
                       (xn FR ++ xr FN ++ xr FE ++ xr FR ++ xr FB ++ xr FC)
                       (xn FB ++ xb FN ++ xb FE ++ xb FR ++ xb FB ++ xb FC)
                       (xn FC ++ xc FN ++ xc FE ++ xc FR ++ xc FB ++ xc FC))
    | TryExcept c1 h =>
        let X1 := aexec c1 A in
        let H := xflat (aexec h) (xe X1) in
        xcompress (xapp X1 H)
    end.

  Definition zero_exit (A : astate) : bool :=
    match ap A with Some (0, []) => true | _ => false end.

  (* recompute the summary of a body *)
  Definition summary_of (c : cmd) : summ :=
    let X := aexec c ainit in
    mksum (forallb zero_exit (xn X) && forallb zero_exit (xr X) && forallb zero_exit (xb X) && forallb zero_exit (xc X))
          (forallb zero_exit (xe X)).

  Definition sum_leq (a b : summ) : bool := implb (bal a) (bal b) && implb (exs a) (exs b).
  (* the declared summary must be implied by the recomputed one *)
  Definition check_fn (declared : summ) (c : cmd) : bool := sum_leq declared (summary_of c).
End Aexec.

Definition check_entry (T : table) (e : positive * (summ * cmd)) : bool :=
  check_fn T (fst (snd e)) (snd (snd e)).
Definition check_table (T : table) : bool := forallb (check_entry T) (PositiveMap.elements T).

(* ---- untrusted search for the greatest fixpoint (its result is re-checked by check_table) ---- *)
Definition refine (T : table) : table :=
  PositiveMap.mapi (fun _ e => let s := summary_of T (snd e) in
                               (mksum (bal (fst e) && bal s) (exs (fst e) && exs s), snd e)) T.
Definition same_sums (T1 T2 : table) : bool :=
  forallb (fun e => match PositiveMap.find (fst e) T2 with
                    | Some (s2, _) => Bool.eqb (bal (fst (snd e))) (bal s2) && Bool.eqb (exs (fst (snd e))) (exs s2)
                    | None => false end) (PositiveMap.elements T1).
Fixpoint solve (fuel : nat) (T : table) : table :=
  match fuel with
  | O => PositiveMap.map (fun e => (unsafe, snd e)) T
  | S k => let T' := refine T in if same_sums T T' then T' else solve k T'
  end.
Definition mk_table (l : list (positive * cmd)) : table :=
  fold_left (fun m e => PositiveMap.add (fst e) (mksum true true, snd e) m) l (PositiveMap.empty _).
Definition verdicts (T : table) : list (positive * (bool * bool)) :=
  map (fun e => (fst e, (bal (fst (snd e)), exs (fst (snd e))))) (PositiveMap.elements T).
