"""Shared plumbing for the /verif checks: locating the implementation, running the extracted
Coq model, encodings, evidence and verdict output."""
import os, sys, json, time, subprocess, hashlib, random, math
from fractions import Fraction

VERIF = os.path.dirname(os.path.dirname(os.path.abspath(__file__)))
REPO = os.environ.get("VERIF_REPO", "/repo")
os.environ.setdefault("MPMATH_NOGMPY", "1")
os.environ.setdefault("PYTHONHASHSEED", "0")
if sys.path[0] != REPO:
    sys.path.insert(0, REPO)
sys.set_int_max_str_digits(0)

MODEL_DRIVER = os.path.join(VERIF, "extract", "model_driver")
NPROC = min(16, os.cpu_count() or 1)

RND = "nfcdu"
ERR_NAMES = {1: "ZDE", 2: "VE", 3: "CR", 4: "NIE", 5: "TE", 6: "OVF", 7: "IE"}


def seed():
    return int(os.environ.get("VERIF_SEED", "0"))


def tier(argv_tier=None):
    return argv_tier or os.environ.get("VERIF_TIER", "quick")


# ----------------------------------------------------------------------------- model

def hexz(n):
    return ("-%x" % -n) if n < 0 else ("%x" % n)


def unhex(s):
    return -int(s[1:], 16) if s.startswith("-") else int(s, 16)


def _limit_child():
    import resource
    resource.setrlimit(resource.RLIMIT_AS, (6 << 30, 6 << 30))     # a runaway shift must not eat the machine


def _run_shard(lines):
    p = subprocess.run([MODEL_DRIVER], input="\n".join(lines) + "\n", capture_output=True,
                       text=True, timeout=900, preexec_fn=_limit_child)
    if p.returncode != 0:
        raise RuntimeError("model driver failed: " + p.stderr[:500])
    out = p.stdout.split("\n")
    if out and out[-1] == "":
        out.pop()
    return out


def run_model(reqs, nproc=NPROC):
    """reqs: list of (fname, [ints]); returns list of [ints] (decoded model outputs)."""
    if not reqs:
        return []
    lines = [f + " " + " ".join(hexz(a) for a in args) for f, args in reqs]
    n = len(lines)
    nshards = max(1, min(nproc, n // 50 or 1))
    shards = [lines[i::nshards] for i in range(nshards)]
    from concurrent.futures import ThreadPoolExecutor
    with ThreadPoolExecutor(nshards) as ex:
        outs = list(ex.map(_run_shard, shards))
    res = [None] * n
    for k, o in enumerate(outs):
        if len(o) != len(shards[k]):
            raise RuntimeError("model driver returned %d lines for %d requests" % (len(o), len(shards[k])))
        for j, l in enumerate(o):
            res[k + j * nshards] = [unhex(x) for x in l.split()]
    return res


# ----------------------------------------------------------------------------- impl side

def enc_exc(e):
    from mpmath.libmp.libmpf import ComplexResult
    if isinstance(e, ZeroDivisionError): return [1, 1]
    if isinstance(e, ComplexResult): return [1, 3]
    if isinstance(e, ValueError): return [1, 2]
    if isinstance(e, NotImplementedError): return [1, 4]
    if isinstance(e, TypeError): return [1, 5]
    if isinstance(e, OverflowError): return [1, 6]
    return [1, 7]


def enc_val(v):
    """Encode an implementation return value the way Dispatch.v does."""
    if isinstance(v, bool):
        return [int(v)]
    if isinstance(v, int):
        return [v]
    if isinstance(v, tuple):
        out = []
        for x in v:
            out += enc_val(x)
        return out
    if v is None:
        return [-99]
    raise TypeError("cannot encode %r" % (v,))


def call_impl(fn, *args):
    try:
        return [0] + enc_val(fn(*args))
    except RecursionError:
        raise
    except Exception as e:  # noqa
        return enc_exc(e)


# ----------------------------------------------------------------------------- exact value helpers (search side)

def mpf_value(t):
    """Exact rational value of a finite raw mpf tuple."""
    s, m, e, b = t
    v = Fraction(m) * (Fraction(2) ** e) if e < 0 else Fraction(m * (1 << e))
    return -v if s else v


def is_special(t):
    return t[1] == 0 and t[2] != 0


def canonical(t):
    from mpmath.libmp.libmpf import fzero, fnan, finf, fninf
    t = tuple(t)
    if t in (fzero, fnan, finf, fninf):
        return True
    s, m, e, b = t
    return s in (0, 1) and m > 0 and (m & 1) == 1 and b == m.bit_length()


def round_fraction(x, prec, rnd):
    """Reference rounding of an exact Fraction to prec bits; returns (sign, man, exp) odd-normalised
    or None for zero.  Search-side oracle only (the theorem-side oracle is Coq)."""
    if x == 0:
        return None
    sign = 1 if x < 0 else 0
    a = abs(x)
    num, den = a.numerator, a.denominator
    # find e with 2^(prec-1) <= a / 2^e < 2^prec
    e = num.bit_length() - den.bit_length() - prec
    def scaled(e):
        return (num << -e, den) if e < 0 else (num, den << e)
    n, d = scaled(e)
    while n // d >= (1 << prec):
        e += 1; n, d = scaled(e)
    while n // d < (1 << (prec - 1)):
        e -= 1; n, d = scaled(e)
    q, r = divmod(n, d)
    if r:
        if rnd == 'n':
            if 2 * r > d or (2 * r == d and (q & 1)): q += 1
        elif rnd == 'u': q += 1
        elif rnd == 'c' and not sign: q += 1
        elif rnd == 'f' and sign: q += 1
    while q and not q & 1:
        q >>= 1; e += 1
    return (sign, q, e)


def value_eq_round(t, x, prec, rnd):
    """Is raw tuple t the correct rounding of exact Fraction x to prec bits (prec=0: exact)?"""
    from mpmath.libmp.libmpf import fzero
    if prec == 0:
        if x == 0: return tuple(t) == fzero
        return (not is_special(t)) and t[1] != 0 and mpf_value(t) == x
    r = round_fraction(x, prec, rnd)
    if r is None:
        return tuple(t) == fzero
    return (t[0], t[1], t[2]) == r and t[3] == r[1].bit_length()


# ----------------------------------------------------------------------------- verdicts, evidence

class Report:
    def __init__(self, pid, level, tier_):
        self.pid = pid
        self.level = level
        self.tier = tier_
        self.t0 = time.time()
        self.violations = []      # (what, replay dict)
        self.known_hits = []
        self.coverage = {}
        self.assumptions = []
        self.known = load_known(pid)

    def violation(self, what, replay, no_input=False):
        """Record a violation unless it matches a known finding."""
        for k in self.known:
            if k.get("status") == "known" and known_match(k, what, replay):
                if k["key"] not in [h["key"] for h in self.known_hits]:
                    self.known_hits.append(k)
                return False
        self.violations.append((what, replay, no_input))
        return True

    def finish(self):
        os.makedirs(os.path.join(VERIF, "evidence", "replay"), exist_ok=True)
        for k in self.known_hits:
            print("KNOWN-FINDING: property=%s %s" % (self.pid, k["what"]))
        seen = set()
        nviol = 0
        for what, replay, no_input in self.violations:
            blob = json.dumps(replay, sort_keys=True, default=str)
            h = hashlib.sha1((what + blob).encode()).hexdigest()[:12]
            if h in seen:
                continue
            seen.add(h)
            nviol += 1
            if nviol > 20:
                continue
            path = os.path.join(VERIF, "evidence", "replay", "%s-%s.json" % (self.pid, h))
            with open(path, "w") as f:
                json.dump({"property": self.pid, "what": what, "replay": replay,
                           "seed": seed(), "tier": self.tier}, f, indent=1, default=str)
            print("VIOLATION property=%s replay=%s%s" % (self.pid, path,
                  " no-failing-input-found" if no_input else ""))
        ev = {"property_id": self.pid, "tier": self.tier, "seed": seed(), "level": self.level,
              "coverage": self.coverage, "assumptions": self.assumptions,
              "wall_s": round(time.time() - self.t0, 2), "violations": nviol,
              "known_findings_hit": [k["key"] for k in self.known_hits]}
        with open(os.path.join(VERIF, "evidence", self.pid + ".json"), "w") as f:
            json.dump(ev, f, indent=1, default=str)
        return 1 if nviol else 0


def load_known(pid):
    p = os.path.join(VERIF, "known_findings.json")
    if not os.path.exists(p):
        return []
    with open(p) as f:
        d = json.load(f)
    return [k for k in d.get("findings", []) if k["property"] == pid]


def known_match(k, what, replay):
    """A known finding matches by its 'match' dict: every key must equal the replay's value
    (or, for key 'what_prefix', prefix the violation text)."""
    m = k.get("match", {})
    for kk, vv in m.items():
        if kk == "what_prefix":
            if not what.startswith(vv): return False
        elif isinstance(replay, dict) and str(replay.get(kk)) == str(vv):
            continue
        else:
            return False
    return bool(m)


def small(x, lim=200):
    """Shorten big ints for evidence samples."""
    if isinstance(x, int) and x.bit_length() > lim:
        return "int:%dbits:%s" % (x.bit_length(), hashlib.sha1(hexz(x).encode()).hexdigest()[:8])
    if isinstance(x, (list, tuple)):
        return [small(y, lim) for y in x]
    return x
