#!/bin/sh
# usage: seedtest.sh <PROPERTY> <dir-with-patch.diff> : apply the change to /repo, run the quick check, undo.
P=$1; D=$2
cd /repo && git apply "$D/patch.diff" || { echo "APPLY FAILED"; exit 2; }
cd /verif && ./check $P --tier quick > /tmp/seed_$P.out 2>&1; rc=$?
cd /repo && git checkout -- . 
echo "$P $D rc=$rc violations=$(grep -c '^VIOLATION' /tmp/seed_$P.out) known=$(grep -c '^KNOWN' /tmp/seed_$P.out)"
