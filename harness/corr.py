"""Correspondence runner: the extracted Coq model vs the live implementation on the same cases."""
import random, time
from common import *
import mpfcases


def run_correspondence(fns, n_per_fn, rng, make=None, spec=None):
    """Returns dict with per-function stats, list of disagreements and list of spec failures.
    disagreement = (case, impl_out, model_out); spec failure = (case, impl_out, [(tag,text)])."""
    make = make or mpfcases.make_cases
    spec = spec or mpfcases.spec_check
    cases = []
    for fn in fns:
        cases += make(rng, fn, n_per_fn)
    t0 = time.time()
    impl = [c.thunk() for c in cases]
    t1 = time.time()
    midx = [i for i, c in enumerate(cases) if c.margs is not None]
    mres = run_model([(cases[i].fn, cases[i].margs) for i in midx])
    model = list(impl)                      # cases without a model request (margs None) count as agreeing
    for i, r in zip(midx, mres):
        model[i] = r
    t2 = time.time()
    stats = {}
    disagreements = []
    specfails = []
    distinct = set()
    for c, io, mo in zip(cases, impl, model):
        st = stats.setdefault(c.fn, {"cases": 0, "agree": 0, "exceptions": 0, "special_or_zero_result": 0,
                                     "rounded_inexact": 0, "spec_checked": 0})
        st["cases"] += 1
        if io[0] == 1: st["exceptions"] += 1
        if io == mo:
            st["agree"] += 1
        else:
            disagreements.append((c, io, mo))
        nontrivial = False
        if io[0] == 0 and len(io) >= 5 and c.ret_mpf:
            if io[2] == 0: st["special_or_zero_result"] += 1
            else: nontrivial = True
            if c.prec and c.margs is not None and sum(1 for a in c.margs if isinstance(a, int) and a.bit_length() > c.prec) > 0 and io[2] != 0:
                st["rounded_inexact"] += 1
        elif io[0] == 0:
            nontrivial = True
        if nontrivial:
            distinct.add((c.fn, tuple(c.margs) if c.margs is not None else repr(c.desc)))
        if c.exact is not None: st["spec_checked"] += 1
        bad = spec(c, io)
        if bad:
            specfails.append((c, io, bad))
    return {"stats": stats, "disagreements": disagreements, "specfails": specfails, "n": len(cases),
            "distinct_nontrivial": len(distinct), "impl_s": round(t1 - t0, 2), "model_s": round(t2 - t1, 2),
            "cases": cases, "impl": impl}


def sample_cases(res, k=6):
    out = []
    step = max(1, len(res["cases"]) // k)
    for c, io in list(zip(res["cases"], res["impl"]))[::step][:k]:
        out.append({"fn": c.fn, "args": small(c.margs if c.margs is not None else repr(c.desc)), "impl_out": small(io)})
    return out
