"""A registry of public mp-context entry points with cheap argument generators, shared by the
sweeps of C01 (canonical outputs), C10 (bit length monitor), C11 (precision restore), C24 (termination)."""
import random

ONE_ARG = """sqrt cbrt exp ln log log10 sin cos tan sec csc cot sinh cosh tanh sech csch coth asin acos atan asec acsc acot
asinh acosh atanh asech acsch acoth sinpi cospi expj expjpi expm1 log1p sinc sincpi floor ceil nint frac fabs re im conj arg sign
gamma rgamma loggamma factorial fac2 psi0 digamma harmonic erf erfc erfi erfinv npdf ncdf ei e1 li si ci shi chi fresnels fresnelc
airyai airybi zeta altzeta lambertw ellipk ellipe agm1 barnesg superfac hyperfac bernoulli eulernum fib gammainc1 degrees radians
j0 j1 primezeta riemannr siegeltheta siegelz stieltjes0 bell1 kleinj eta qfrom mfrom""".split()

TWO_ARG = """atan2 hypot power root log2 fmod beta binomial rf ff besselj bessely besseli besselk hankel1 hankel2 struveh struvel
gammainc expint legendre chebyt chebyu hermite laguerre0 polylog bernpoly eulerpoly agm ellipf ellipe2 elliprc zeta2 polygamma
angerj webere ber bei ker kei fadd fsub fmul fdiv ldexp""".split()


def resolve(mp, name):
    """name -> callable taking plain mp numbers"""
    special = {
        "ln": mp.ln, "log": mp.log, "agm1": lambda x: mp.agm(x), "gammainc1": lambda x: mp.gammainc(x, 1),
        "stieltjes0": lambda x: mp.stieltjes(int(abs(x)) % 5), "bell1": lambda x: mp.bell(int(abs(x)) % 12, 1),
        "bernoulli": lambda x: mp.bernoulli(int(abs(x)) % 300), "eulernum": lambda x: mp.eulernum(int(abs(x)) % 60),
        "fib": lambda x: mp.fib(x), "log2": lambda x, y: mp.log(x, y), "fmod": lambda x, y: mp.fmod(x, y),
        "laguerre0": lambda n, x: mp.laguerre(n, 0, x), "ellipe2": lambda x, y: mp.ellipe(x, y),
        "zeta2": lambda s, a: mp.zeta(s, a), "polygamma": lambda m, x: mp.polygamma(int(abs(m)) % 6, x),
        "ldexp": lambda x, n: mp.ldexp(x, int(n) % 50), "psi0": lambda x: mp.psi(0, x),
        "besselj": mp.besselj, "j0": mp.j0, "j1": mp.j1,
    }
    if name in special:
        return special[name]
    return getattr(mp, name)


def real_args(rng, mp, longbits=False):
    """moderate real argument; with longbits=True it carries more bits than the working precision"""
    k = rng.randrange(8)
    if k == 0: v = mp.mpf(rng.randint(-6, 6))
    elif k == 1: v = mp.mpf(rng.randint(-12, 12)) / 2
    elif k == 2: v = mp.mpf(rng.uniform(-3, 3))
    elif k == 3: v = mp.mpf(rng.uniform(0.05, 0.95))
    elif k == 4: v = mp.mpf(rng.uniform(1, 30))
    elif k == 5: v = mp.ldexp(mp.mpf(rng.randint(1, 1000)), -rng.randint(5, 40))
    elif k == 6: v = mp.mpf(rng.uniform(-40, 40))
    else: v = mp.mpf(rng.choice([1, 2, 3, 10, 0.5, 0.25, -1, -0.5, 100]))
    if longbits:
        v = mp.fadd(v, mp.ldexp(mp.mpf(2 * rng.getrandbits(40) + 1), -int(mp.prec) - 60), exact=True)
    return v


def any_arg(rng, mp, longbits=False, complex_p=0.25):
    if rng.random() < complex_p:
        return mp.mpc(real_args(rng, mp, longbits), real_args(rng, mp, longbits))
    return real_args(rng, mp, longbits)


EXPECTED_ERRORS = (ValueError, ZeroDivisionError, NotImplementedError, TypeError, OverflowError, AttributeError, IndexError, KeyError, AssertionError)


def iter_calls(rng, mp, n_each, longbits=False, names=None):
    """yield (name, args, thunk)"""
    import mpmath
    for name in (names or (ONE_ARG + TWO_ARG)):
        try:
            f = resolve(mp, name)
        except AttributeError:
            continue
        nargs = 1 if name in ONE_ARG else 2
        for _ in range(n_each):
            args = tuple(any_arg(rng, mp, longbits) for _ in range(nargs))
            yield name, args, (lambda f=f, args=args: f(*args))


class CallTimeout(Exception):
    pass


def call_with_timeout(thunk, seconds):
    """Run thunk() under SIGALRM; raises CallTimeout if it does not finish (main thread only)."""
    import signal
    def handler(signum, frame):
        raise CallTimeout()
    old = signal.signal(signal.SIGALRM, handler)
    signal.setitimer(signal.ITIMER_REAL, seconds)
    try:
        return thunk()
    finally:
        signal.setitimer(signal.ITIMER_REAL, 0)
        signal.signal(signal.SIGALRM, old)
