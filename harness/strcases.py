"""Decimal string conversion cases (C07 from_str, C08 to_str/repr/nstr)."""
from fractions import Fraction
import math
from common import *
import gen
from mpfcases import Case, r2i, V, fv, fin

import mpmath
from mpmath import mp
import mpmath.libmp.libmpf as L


def rand_literal(rng):
    """returns (text, man, exp) with value man*10^exp; text is a syntactically valid float literal"""
    nd = rng.choice([1, 2, 5, 17, 18, 40, rng.randint(1, 60), rng.randint(50, 450), rng.randint(380, 460)])
    digits = "".join(rng.choice("0123456789") for _ in range(nd))
    if rng.random() < 0.3: digits = digits.rstrip("0") or "1"
    if rng.random() < 0.2: digits = "0" * rng.randint(1, 5) + digits
    k = rng.randrange(6)
    e = 0
    if k == 0: e = rng.randint(-30, 30)
    elif k == 1: e = rng.choice([-401, -400, -399, 399, 400, 401]) + rng.choice([0, 0, nd, -nd])
    elif k == 2: e = rng.choice([-1, 1]) * rng.choice([500, 1297, 2416, 10**4])
    elif k == 3: e = rng.randint(-120, 120)
    point = rng.randint(0, len(digits)) if rng.random() < 0.6 else None
    body = digits if point is None else (digits[:point] + "." + digits[point:])
    if body.startswith("."): body = rng.choice(["", "0"]) + body
    if body.endswith(".") and rng.random() < 0.5: body += "0"
    sign = rng.choice(["", "-", "+"])
    text = sign + body
    if e or rng.random() < 0.2:
        text += rng.choice("eE") + rng.choice(["", "+"] if e >= 0 else [""]) + str(e)
    # parsed pair exactly as str_to_man_exp computes it
    fracdigits = 0 if point is None else len(digits) - point
    frac = "" if point is None else digits[point:]
    stripped = frac.rstrip("0")
    man = int((digits[:len(digits) - fracdigits] + stripped) or "0")
    exp = e - len(stripped)
    if sign == "-": man = -man
    return text, man, exp


def c_from_str(rng, fn):
    prec = rng.choice([1, 2, 5, 10, 24, 53, 53, 64, 80, 100, 113, 200, 400])
    rnd = rng.choice(RND)
    text, man, exp = rand_literal(rng)
    if rng.random() < 0.15:
        text = " " * rng.randint(0, 2) + text.upper() + " " * rng.randint(0, 2)
    value = Fraction(man) * Fraction(10) ** exp
    approx = abs(exp) > 400
    ex = ("str", value, approx)
    return Case(fn, [man, exp, prec, r2i(rnd)], lambda: call_impl(L.from_str, text, prec, rnd), ex, prec, rnd,
                desc=("from_str", text if len(text) < 80 else text[:40] + "...(%d chars)" % len(text)))


GENS = {"from_str_parts": c_from_str}


def make_cases(rng, fn, n):
    return [GENS[fn](rng, fn) for _ in range(n)]


def spec_check(case, out):
    bad = []
    if out[0] != 0 or case.exact is None:
        return bad
    t = tuple(out[1:5])
    kind = case.exact[0]
    if kind == "str":
        value, approx = case.exact[1], case.exact[2]
        branch = "approx" if approx else "exact"
        if not canonical(t): bad.append(("C01", "non-canonical"))
        if is_special(t):
            return [("C07", "finite literal converted to inf/nan", branch, "finite")]
        y = V(t) if t[1] else Fraction(0)
        rnd, prec = case.rnd, case.prec
        # clause 2 (every literal): directed rounding never on the wrong side
        wrong = (rnd == 'f' and y > value) or (rnd == 'c' and y < value) or (rnd == 'd' and abs(y) > abs(value)) or (rnd == 'u' and abs(y) < abs(value))
        if wrong:
            bad.append(("C07", "directed rounding produced a value on the wrong side of the exact decimal", branch, "directed"))
        # clause 1: correctly rounded when 1e-100 <= |value| <= 1e100
        if value != 0 and Fraction(1, 10**100) <= abs(value) <= Fraction(10**100):
            if not value_eq_round(t, value, prec, rnd) and not wrong:
                bad.append(("C07", "literal in [1e-100, 1e100] not correctly rounded", branch, "rounded"))
        elif value == 0 and t[1] != 0:
            bad.append(("C07", "zero literal gives nonzero", branch, "rounded"))
    return bad
