"""Decimal string conversion cases (C07 from_str, C08 to_str/repr/nstr)."""
from fractions import Fraction
import math
from common import *
import gen
from mpfcases import Case, r2i, V, fv, fin

import mpmath
from mpmath import mp
import mpmath.libmp.libmpf as L


def rand_literal(rng):
    """returns (text, man, exp) with value man*10^exp; text is a syntactically valid float literal"""
    nd = rng.choice([1, 2, 5, 17, 18, 40, rng.randint(1, 60), rng.randint(50, 450), rng.randint(380, 460)])
    digits = "".join(rng.choice("0123456789") for _ in range(nd))
    if rng.random() < 0.3: digits = digits.rstrip("0") or "1"
    if rng.random() < 0.2: digits = "0" * rng.randint(1, 5) + digits
    k = rng.randrange(6)
    e = 0
    if k == 0: e = rng.randint(-30, 30)
    elif k == 1: e = rng.choice([-401, -400, -399, 399, 400, 401]) + rng.choice([0, 0, nd, -nd])
    elif k == 2: e = rng.choice([-1, 1]) * rng.choice([500, 1297, 2416, 10**4])
    elif k == 3: e = rng.randint(-120, 120)
    point = rng.randint(0, len(digits)) if rng.random() < 0.6 else None
    body = digits if point is None else (digits[:point] + "." + digits[point:])
    if body.startswith("."): body = rng.choice(["", "0"]) + body
    if body.endswith(".") and rng.random() < 0.5: body += "0"
    sign = rng.choice(["", "-", "+"])
    text = sign + body
    if e or rng.random() < 0.2:
        text += rng.choice("eE") + rng.choice(["", "+"] if e >= 0 else [""]) + str(e)
    if rng.random() < 0.12:
        # PEP 515 digit grouping: float() (which validates the literal) accepts single underscores between digits
        for _ in range(rng.randint(1, 3)):
            spots = [i for i in range(1, len(text)) if text[i - 1].isdigit() and text[i].isdigit()]
            if not spots: break
            i = rng.choice(spots); text = text[:i] + "_" + text[i:]
    # parsed pair (value man*10^exp denoted by the literal)
    fracdigits = 0 if point is None else len(digits) - point
    frac = "" if point is None else digits[point:]
    stripped = frac.rstrip("0")
    man = int((digits[:len(digits) - fracdigits] + stripped) or "0")
    exp = e - len(stripped)
    if sign == "-": man = -man
    return text, man, exp


def tie_literal(rng, prec):
    """a literal whose value is exactly (or within one unit of its last digit of) the midpoint of two neighbouring prec-bit
    numbers, written with a decimal exponent of large magnitude: N*2^k = (N*5^-k) * 10^k for k < 0, and for k > 0 the decimal
    integer N*2^k cut into mantissa and exponent.  Decides whether the exact branch (|exponent| <= 400) really is exact."""
    N = (1 << prec) | rng.getrandbits(prec) | 1            # prec+1 bits, odd: a tie between prec-bit neighbours
    if rng.random() < 0.6:
        k = -rng.choice([rng.randint(150, 400), rng.randint(201, 260), rng.randint(330, 400)])
        man, exp = N * 5 ** (-k), k
    else:
        k = rng.choice([rng.randint(500, 1328), rng.randint(665, 900)])
        v = N << k; ds = str(v)
        cut = rng.choice([rng.randint(150, 400), rng.randint(201, 260)])
        cut = min(cut, len(ds) - 1)
        man, exp = int(ds[:len(ds) - cut]) , cut            # truncated: just below the tie unless the cut digits are zeros
        if rng.random() < 0.5: man += 1                      # just above
    man += rng.choice([0, 0, 1, -1])
    if rng.random() < 0.5: man = -man
    text = "%de%d" % (man, exp)
    if rng.random() < 0.3 and len(str(abs(man))) > 3:       # same value with a decimal point inside the mantissa
        d = str(abs(man)); j = rng.randint(1, len(d) - 1)
        frac = d[j:]
        if not frac.endswith("0"):
            text = ("-" if man < 0 else "") + d[:j] + "." + frac + "e%d" % (exp + len(frac))
    return text, man, exp


def c_from_str(rng, fn):
    prec = rng.choice([1, 2, 5, 10, 24, 53, 53, 64, 80, 100, 113, 200, 400])
    rnd = rng.choice(RND)
    if rng.random() < 0.2:
        prec = rng.choice([10, 24, 53, 64, 113])
        text, man, exp = tie_literal(rng, prec)
    else:
        text, man, exp = rand_literal(rng)
    if rng.random() < 0.15:
        text = " " * rng.randint(0, 2) + text.upper() + " " * rng.randint(0, 2)
    value = Fraction(man) * Fraction(10) ** exp
    approx = abs(exp) > 400
    ex = ("str", value, approx)
    return Case(fn, [man, exp, prec, r2i(rnd)], lambda: call_impl(L.from_str, text, prec, rnd), ex, prec, rnd,
                desc=("from_str", text))


GENS = {"from_str_parts": c_from_str}


def make_cases(rng, fn, n):
    return [GENS[fn](rng, fn) for _ in range(n)]


def spec_check(case, out):
    bad = []
    if out[0] != 0 or case.exact is None:
        return bad
    t = tuple(out[1:5])
    kind = case.exact[0]
    if kind == "str":
        value, approx = case.exact[1], case.exact[2]
        branch = "approx" if approx else "exact"
        if not canonical(t): bad.append(("C01", "non-canonical"))
        if is_special(t):
            return [("C07", "finite literal converted to inf/nan", branch, "finite")]
        y = V(t) if t[1] else Fraction(0)
        rnd, prec = case.rnd, case.prec
        # clause 2 (every literal): directed rounding never on the wrong side
        wrong = (rnd == 'f' and y > value) or (rnd == 'c' and y < value) or (rnd == 'd' and abs(y) > abs(value)) or (rnd == 'u' and abs(y) < abs(value))
        if wrong:
            bad.append(("C07", "directed rounding produced a value on the wrong side of the exact decimal", branch, "directed"))
        # clause 1: correctly rounded when 1e-100 <= |value| <= 1e100
        if value != 0 and Fraction(1, 10**100) <= abs(value) <= Fraction(10**100):
            if not value_eq_round(t, value, prec, rnd) and not wrong:
                bad.append(("C07", "literal in [1e-100, 1e100] not correctly rounded", branch, "rounded"))
        elif value == 0 and t[1] != 0:
            bad.append(("C07", "zero literal gives nonzero", branch, "rounded"))
    return bad


# ----------------------------------------------------------------------------- printing (C08)

def glue(s, dps):
    """the float glue of to_digits_exp (dps already +3 as to_str passes it)"""
    bitprec = int(dps * math.log(10, 2)) + 10
    fixprec = max(bitprec - s[2] - s[3], 0)
    fixdps = int(fixprec / math.log(10, 2) + 0.5)
    return bitprec, fixdps


def tostr_regime(s, bitprec):
    """which path of to_digits_exp produced the digits: the approximate power-of-ten scaling (|exp+bc| > 3500), a mantissa cut to
    bitprec bits, or the exact path"""
    if abs(s[2] + s[3]) > 3500: return "huge-exponent"
    return "bc>bitprec" if s[3] > bitprec else "bc<=bitprec"


def near_decimal_tie(rng, prec):
    """a prec-bit value adjacent to a decimal rounding tie d.ddd5 x 10^e"""
    n = rng.randint(1, 12)
    m = rng.randint(10 ** (n - 1), 10 ** n - 1) * 10 + 5
    e = rng.randint(-30, 30)
    if rng.random() < 0.3:
        # magnitudes on both sides of the switch to the approximate scaling path (|exp+bc| around 350 ... 3500 bits)
        e = rng.choice([-1, 1]) * rng.choice([rng.randint(31, 320), rng.randint(100, 1040), rng.randint(1000, 1100)])
    tie = Fraction(m) * Fraction(10) ** (e - n)
    rnd = rng.choice("fc")
    r = round_fraction(tie, prec, rnd)
    return (r[0], r[1], r[2], r[1].bit_length()), n


def c_to_str(rng, fn):
    k = rng.randrange(6)
    prec = rng.choice([10, 24, 53, 53, 100, 200, 300])
    ndig = None
    if k == 0:
        s = gen.value(rng, prec, 0.15)
        if fin(s) and s[1]: s = (s[0], s[1], s[2] % 3000 - 1500, s[3])
    elif k in (1, 2):
        s, ndig = near_decimal_tie(rng, prec)
        if rng.random() < 0.5: s = (1 - s[0], s[1], s[2], s[3])
    elif k == 3:
        s = gen.norm(rng.randrange(2), gen.mant(rng, rng.randint(1, prec)), rng.randint(-60, 60))
    elif k == 4:   # 0.999.. / 9.99.. style carries
        n = rng.randint(1, 15)
        v = Fraction(10 ** n - rng.choice([0, 1]), 10 ** rng.randint(0, n + 3)) * (1 - Fraction(1, 2 ** rng.randint(20, 60)))
        r = round_fraction(v, prec, 'n'); s = (r[0], r[1], r[2], r[1].bit_length())
    else:
        s = gen.norm(rng.randrange(2), rng.randint(1, 10 ** 6), rng.randint(-20, 20))
    dps = ndig if (ndig and rng.random() < 0.7) else rng.choice([0, 1, 2, 3, 5, 6, 10, 15, 17, 30, rng.randint(1, 60)])
    strip = rng.random() < 0.7
    show0 = rng.random() < 0.15
    mn = rng.choice([None, None, -10**9, 0, -3]); mx = rng.choice([None, None, 10**9, 0, 5])
    kw = {"strip_zeros": strip, "show_zero_exponent": show0}
    if mn is not None: kw["min_fixed"] = mn
    if mx is not None: kw["max_fixed"] = mx
    mn_v = mn if mn is not None else min(-(dps // 3), -5)
    mx_v = mx if mx is not None else dps
    margs = None
    if fin(s) and abs(s[2] + s[3]) <= 3500:
        bitprec, fixdps = glue(s, dps + 3)
        margs = list(s) + [dps, int(strip), mn_v, mx_v, int(show0), bitprec, fixdps]
    elif is_special(s) or not s[1]:
        margs = list(s) + [dps, int(strip), mn_v, mx_v, int(show0), 0, 0]
    def thunk():
        try:
            return [0] + [ord(c) for c in L.to_str(s, dps, **kw)]
        except Exception as e:
            return enc_exc(e)
    ex = ("tostr", s, dps, dps + 3) if fin(s) and s[1] and abs(s[2]) < 20000 and dps >= 1 else None
    return Case("to_str", margs, thunk, ex, None, None, rounded=False, ret_mpf=False, desc=("to_str", s, dps, sorted(kw.items())))


def c_prec_dps(rng, fn):
    n = rng.choice([rng.randint(1, 400), rng.randint(1, 20000), rng.randint(1, 10**6)])
    return Case("prec_dps", [n], lambda: call_impl(lambda: (L.prec_to_dps(n), L.dps_to_prec(n), L.repr_dps(n))), None, rounded=False, ret_mpf=False)


GENS["to_str"] = c_to_str
GENS["prec_dps"] = c_prec_dps


def nearest_ndigit(x, n):
    """set of n-significant-digit decimals nearest to the positive Fraction x (two on an exact tie)"""
    e = 0
    while Fraction(10) ** (e + 1) <= x: e += 1
    while Fraction(10) ** e > x: e -= 1
    unit = Fraction(10) ** (e - n + 1)
    q = x / unit
    fl = q.numerator // q.denominator
    fr = q - fl
    if fr < Fraction(1, 2): return {fl * unit}
    if fr > Fraction(1, 2): return {(fl + 1) * unit}
    return {fl * unit, (fl + 1) * unit}


_old_spec = spec_check


def spec_check(case, out):
    if case.exact is None or case.exact[0] != "tostr":
        return _old_spec(case, out)
    bad = []
    if out[0] != 0:
        return bad
    text = "".join(chr(c) for c in out[1:])
    _, s, dps, dig = case.exact
    x = V(s)
    try:
        float(text)
        d = Fraction(text)
    except Exception:
        return [("C08", "printed literal %r cannot be parsed by float()/Fraction" % text[:40], "parse")]
    cands = nearest_ndigit(abs(x), dps)
    if abs(d) not in cands or (d < 0) != (x < 0):
        bitprec = int(dig * math.log(10, 2)) + 10
        regime = tostr_regime(s, bitprec)
        bad.append(("C08", "nstr/to_str value is not a nearest %d-digit decimal" % dps, regime))
    return bad
