"""Boundary-directed generators for raw mpf values and operation arguments.
Every random choice derives from the single random.Random passed in."""
import random

PRECS = [1, 2, 3, 4, 5, 8, 10, 24, 53, 64, 100, 113, 300]
PRECS_BIG = [1000, 4000]

FZERO = (0, 0, 0, 0)
FNAN = (0, 0, -123, -1)
FINF = (0, 0, -456, -2)
FNINF = (1, 0, -789, -3)
SPECIALS = [FZERO, FNAN, FINF, FNINF]


def pick_prec(rng, allow_zero=False):
    r = rng.random()
    if allow_zero and r < 0.08:
        return 0
    if r < 0.9:
        return rng.choice(PRECS)
    if r < 0.97:
        return rng.randint(1, 200)
    return rng.choice(PRECS_BIG)


def pick_bits(rng):
    r = rng.random()
    if r < 0.55: return rng.randint(1, 64)
    if r < 0.9: return rng.randint(1, 256)
    if r < 0.99: return rng.randint(257, 1000)
    return rng.randint(1001, 3000)


def mant(rng, bits, prec=None):
    """A positive mantissa of exactly `bits` bits drawn from adversarial shapes."""
    if bits <= 1:
        return 1
    k = rng.randrange(10)
    top = 1 << (bits - 1)
    if k == 0:
        m = top | rng.getrandbits(bits - 1)
    elif k == 1:
        m = (1 << bits) - 1                      # all ones: carry on round-up
    elif k == 2:
        m = top + 1                              # 2^k + 1
    elif k == 3:
        m = top | (rng.getrandbits(bits - 1) & ~((1 << min(bits - 1, rng.choice([8, 16, 24]))) - 1))  # zero run
    elif k in (4, 5, 6) and prec and 0 < prec < bits:
        # tie / tie +- 1 at the cut for prec
        n = bits - prec
        hi = (1 << (prec - 1)) | rng.getrandbits(prec - 1)
        if rng.random() < 0.5: hi |= 1
        else: hi &= ~1
        if prec == 1: hi = 1
        if rng.random() < 0.3: hi = (1 << prec) - 1   # all ones above the cut: carry
        m = (hi << n) + (1 << (n - 1)) + rng.choice([0, 0, 1, -1, rng.getrandbits(max(n - 1, 1)) if n > 1 else 0])
        if m.bit_length() != bits:
            m = top | rng.getrandbits(bits - 1)
    elif k == 7:
        m = (1 << bits) - 1 - (1 << rng.randrange(bits - 1)) if bits > 2 else top | 1   # ones with one hole
    elif k == 8:
        m = top | (1 << rng.randrange(bits - 1))   # two bits set
    else:
        m = top | rng.getrandbits(bits - 1)
    return m


def norm(sign, man, exp):
    """Canonical raw tuple of (-1)^sign * man * 2^exp, man > 0."""
    t = (man & -man).bit_length() - 1
    man >>= t
    return (sign, man, exp + t, man.bit_length())


def pick_exp(rng):
    r = rng.random()
    if r < 0.6: return rng.randint(-80, 80)
    if r < 0.85: return rng.randint(-1200, 1200)
    if r < 0.95: return rng.choice([-1, 1]) * rng.choice([10**6, 10**9, 2**70, 2**70 + 1])
    return rng.choice([0, 1, -1])


def finite(rng, prec=None, bits=None, sign=None):
    bits = bits or pick_bits(rng)
    m = mant(rng, bits, prec)
    s = rng.randrange(2) if sign is None else sign
    return norm(s, m, pick_exp(rng))


def value(rng, prec=None, special_p=0.06):
    if rng.random() < special_p:
        return rng.choice(SPECIALS)
    return finite(rng, prec)


def pair(rng, prec, special_p=0.06):
    """A pair of operands with exponent relation aimed at mpf_add's switches."""
    s = value(rng, prec, special_p)
    if s[1] == 0 or rng.random() < 0.25:
        return s, value(rng, prec, special_p)
    bits = pick_bits(rng)
    m = mant(rng, bits, prec)
    sg = rng.randrange(2)
    p = prec or 53
    top_s = s[2] + s[3]                 # position of top bit of s
    k = rng.randrange(9)
    if k == 0:
        e = s[2]                                                   # equal exponents
    elif k == 1:
        e = s[2] + rng.randint(-5, 5)
    elif k == 2:                                                   # delta around prec+4
        e = top_s - bits - (p + rng.randint(2, 7))
    elif k == 3:                                                   # offset around 100
        e = s[2] - rng.randint(98, 103)
    elif k == 4:                                                   # offset > 100 and delta near prec + 4
        e = min(s[2] - rng.randint(101, 140), top_s - bits - (p + rng.randint(3, 6)))
    elif k == 5:
        e = s[2] - rng.choice([1000, 10**6, 2**70])
    elif k == 6:                                                   # cancellation: same magnitude, opposite sign
        sg = 1 - s[0]
        e = top_s - bits + rng.randint(-1, 1)
    elif k == 7:                                                   # t sits just below the rounding cut of s
        e = top_s - p - bits + rng.randint(-2, 2)
    else:
        e = top_s - bits - rng.randint(0, 2 * p + 10)
    t = norm(sg, m, e)
    if rng.random() < 0.5:
        return s, t
    return t, s


def small_int(rng):
    r = rng.random()
    if r < 0.3: return rng.randint(-10, 10)
    if r < 0.6: return rng.randint(-1100, 1100)
    if r < 0.8: return rng.choice([-1, 1]) * (1 << rng.randint(1, 80)) + rng.randint(-1, 1)
    return rng.choice([-1, 1]) * rng.getrandbits(rng.randint(1, 300))
