"""C03 — integer powers are never rounded past the exact value."""
from fractions import Fraction
from common import *
import allcases, gen
from props.enginea import run_engine_a

LEVEL = "proof"
FNS = ["mpf_pow_int"]
TAGS = {"POW", "C01"}


def api_level(rep, tier_, rng):
    """x**n through the public operator / power / fmul-free paths with context rounding"""
    import mpmath
    from mpmath import mp
    import mpfcases
    n_cases = 400 if tier_ == "quick" else 8000
    checked = 0
    p0, r0 = mp.prec, mp._prec_rounding[1]
    try:
        for _ in range(n_cases):
            prec = rng.choice([2, 5, 24, 53, 100, 200]); rnd = rng.choice(RND)
            s = gen.norm(rng.randrange(2), gen.mant(rng, rng.choice([1, 2, 7, 24, 53, 90]), prec), rng.randint(-40, 40))
            n = rng.choice([-9, -4, -3, -2, -1, 0, 1, 2, 3, 4, 7, 12, 40, 41, 100, 255, 1001])
            mp.prec = prec; mp._prec_rounding[1] = rnd
            x = mp.make_mpf(s)
            for nm, f in (("**", lambda: x ** n), ("power", lambda: mp.power(x, n))):
                try:
                    v = f()
                except ZeroDivisionError:
                    continue
                checked += 1
                if not hasattr(v, "_mpf_"):
                    continue
                case = mpfcases.Case("mpf_pow_int", list(s) + [n, prec, RND.index(rnd)], None,
                                     ("pow", mpf_value(s) ** n, n, s[3]), prec, rnd)
                for tag, txt in mpfcases.pow_spec(tuple(v._mpf_), case):
                    rep.violation("x%sn: %s" % (nm, txt), {"fn": "operator " + nm, "x": list(s), "n": n, "prec": prec, "rnd": rnd})
    finally:
        mp.prec = p0; mp._prec_rounding[1] = r0
    return {"api_level_checks": checked, "api_level": "mpf ** int and power(x, n) under context rounding in all five modes"}


def run(rep, tier_, rng):
    run_engine_a(rep, "C03", tier_, rng, FNS, TAGS, n_quick=3000, n_thorough=60000, extra=api_level,
                 make=allcases.make, spec=allcases.spec)


def replay(rep, path):
    from props import c02
    c02.replay(rep, path)
