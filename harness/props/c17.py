"""C17 -- mathematical constants at every precision, rounding mode and request history.

Proof part (six elementary constants pi, e, ln2, ln10, phi, degree; development /verif/coq_const, logical root CONST):

  * Memo.v      Gallina model of `constant_memo` as a state machine over request lists; by induction over ANY list:
                memo_inv, memo_served, memo_history_independent (abstract real c, floor(floor x / 2^k) = floor(x / 2^k)).
  * DefConst.v  model of `def_mpf_constant` (on top of the Engine-A model of `normalize`) and def_constant_round:
                from v = floor(c 2^(p+20)), c 2^(p+20) not an integer, the five rounding modes return RND r p c
                (Flocq FLX rounding; 'n' needs the non-tie side condition, decided by computation below).
  * Check.v     boolean checker `check_const D A K Q table` + soundness theorem const_all_histories.

  Each run the LIVE fixed-point tables are read through the undecorated functions (closure introspection) at every
  reachable memo precision m <= M and handed to Coq, which (1) proves one enclosure A < c 2^K < A+1 per constant with the
  Interval tactic (K >= M+32), (2) evaluates `check_const` on the live table by vm_compute (exact-floor test per entry;
  for entries that are floor-1 the finitely many affected requests are walked and the FINAL mpf results compared for
  all five modes), (3) instantiates const_all_histories:  for every request history with precisions in 0..Q, every
  public precision 1..Q-20 and every rounding mode the model of mpf_X returns the correctly rounded value.
  The model is tied to the live code by (c) memo state-machine correspondence on random request sequences (closure's
  memo_prec/memo_val), (d) the public API at EVERY precision 1..P in random orders, all five modes, and iv.* brackets,
  with a Coq-checked sample of both (vm_compute of the model against the live tuples).

Observed part (euler, catalan, apery, khinchin, glaisher, twinprime, mertens): no formal definition exists in the
installed libraries; only history CONSISTENCY is certified (every table value agrees within one unit with the
highest-precision value shifted down => every answer served after any history does, Check.memo_consistent), plus the
observed 1-ulp agreement of the final values served from different caches."""
import os, re, sys, json, time, math, subprocess, hashlib, fcntl
from concurrent.futures import ThreadPoolExecutor
from fractions import Fraction
from common import *

LEVEL = "proof"

CONST_DIR = os.path.join(VERIF, "coq_const")
COQ_DIR = os.path.join(VERIF, "coq")
KNOWN_B4 = os.path.join(VERIF, "known_findings_B4.json")
RUN_ROOT = os.path.join(VERIF, "build", "c17")
CONST_FILES = ["Memo", "DefConst", "Check", "Summary"]
MP_DEPS = ["Algo/Base", "Algo/Libmpf", "Spec/Mpf", "Spec/Round", "Proofs/Bits", "Proofs/Nearest", "Proofs/Normalize",
           "Proofs/NormRound", "Proofs/Sticky"]
COQ_ARGS = ["-Q", CONST_DIR, "CONST", "-Q", COQ_DIR, "MP"]

# name, Coq term of the base constant c, divisor D (value = c / D), table source, public names
ELEM = [("pi", "PI", 1, "pi"), ("e", "exp 1", 1, "e"), ("ln2", "ln 2", 1, "ln2"), ("ln10", "ln 10", 1, "ln10"),
        ("phi", "((1 + sqrt 5) / 2)", 1, "phi"), ("degree", "PI", 180, "pi")]
OTHERS = ["euler", "catalan", "apery", "khinchin", "glaisher", "twinprime", "mertens"]
CAP7 = {"quick": {"euler": 700, "catalan": 700, "apery": 700, "khinchin": 300, "glaisher": 300, "twinprime": 160, "mertens": 300},
        "thorough": {"euler": 2500, "catalan": 2500, "apery": 2500, "khinchin": 700, "glaisher": 900, "twinprime": 400, "mertens": 800}}
MODES = "nfcdu"
RND_COQ = {"n": "RN", "f": "RF", "c": "RC", "d": "RD", "u": "RU"}
ALLOWED_AXIOMS = {"ClassicalDedekindReals.sig_not_dec", "ClassicalDedekindReals.sig_forall_dec",
                  "FunctionalExtensionality.functional_extensionality_dep", "Classical_Prop.classic"}

ASSUMPTIONS = [
    "Finite domain of the proof: request precisions 0..Q (Q = largest q with int(q*1.05+10) <= M; M = 700 quick, 4700 thorough), "
    "public precisions p = 1..Q-20, the five rounding modes n f c d u, and ALL finite request histories with precisions in 0..Q "
    "(including requests made internally by other functions through the same memoised function).",
    "The Gallina models (Memo.step for constant_memo, DefConst.mpf_const for def_mpf_constant, MP.Algo.Libmpf.normalize) are tied to "
    "the live code by correspondence runs only (hand-written models): memo traces, public API at every precision, and the "
    "Engine-A correspondence of normalize.",
    "The live tables are read through the undecorated functions found by closure introspection of the memoised wrappers; "
    "int(prec*1.05+10) is modelled exactly in integer arithmetic (np105) and compared by Coq with the expression evaluated by "
    "CPython for every request 0..Q.",
    "For a request q served from a memo value that is floor-1 the value handed to INTERNAL callers (libelefun/gammazeta using "
    "X_fixed directly) is floor-1; the property only speaks about the constants themselves, so only the final mpf results are decided.",
    "euler, catalan, apery, khinchin, glaisher, twinprime, mertens: NOT proved correct (no formal definition available); certified: "
    "history consistency within one unit of the fixed-point value against the value computed at the top precision + 64 bits; "
    "observed: final p-bit values from fresh and cached computations differ by at most one ulp.",
]


# ======================================================================================================
# infrastructure
# ======================================================================================================

def load_known_b4(rep):
    if os.path.exists(KNOWN_B4):
        with open(KNOWN_B4) as f:
            d = json.load(f)
        rep.known.extend(k for k in d.get("findings", []) if k.get("property") == rep.pid)


def _mtime(p):
    try:
        return os.path.getmtime(p)
    except OSError:
        return -1.0


def _const_stale():
    prev = max(_mtime(os.path.join(COQ_DIR, d + ".vo")) for d in MP_DEPS)
    for n in CONST_FILES:
        v, vo = os.path.join(CONST_DIR, n + ".v"), os.path.join(CONST_DIR, n + ".vo")
        if _mtime(vo) < _mtime(v) or _mtime(vo) < prev:
            return True
        prev = max(prev, _mtime(vo))
    return not os.path.exists(os.path.join(RUN_ROOT, "summary.txt"))


def ensure_coq_const():
    """(Re)build /verif/coq_const when stale (own _CoqProject: -Q . CONST -Q ../coq MP).  -> (ok, log, summary_text)"""
    os.makedirs(RUN_ROOT, exist_ok=True)
    lock = open(os.path.join(RUN_ROOT, ".constlock"), "w")
    fcntl.flock(lock, fcntl.LOCK_EX)
    try:
        if _const_stale():
            for n in CONST_FILES:
                p = subprocess.run(["timeout", "600", "coqc"] + COQ_ARGS + [n + ".v"], cwd=CONST_DIR, capture_output=True,
                                   text=True, timeout=660)
                if p.returncode != 0:
                    return False, "coqc %s.v failed:\n%s" % (n, (p.stdout + p.stderr)[-2000:]), ""
                if n == "Summary":
                    with open(os.path.join(RUN_ROOT, "summary.txt"), "w") as f:
                        f.write(p.stdout)
        with open(os.path.join(RUN_ROOT, "summary.txt")) as f:
            return True, "", f.read()
    finally:
        fcntl.flock(lock, fcntl.LOCK_UN)
        lock.close()


FORBIDDEN = re.compile(r"\b(Admitted|admit|Axiom|Axioms|Parameter|Parameters|Conjecture|Admit Obligations)\b|Unset Guard|bypass_check|type-in-type|impredicative-set")


def grep_gate_const():
    bad = []
    for n in os.listdir(CONST_DIR):
        if n.endswith(".v"):
            txt = re.sub(r"\(\*.*?\*\)", "", open(os.path.join(CONST_DIR, n)).read(), flags=re.S)
            bad += ["%s: %s" % (n, m.group(0)) for m in FORBIDDEN.finditer(txt)]
    return bad


def axioms_of(out):
    ax = set(re.findall(r"^([A-Za-z_][\w.]*)\s*(?=:|$)", out, re.M))
    return {a for a in ax if "." in a and not a.startswith("File")}


def zl(n):
    return hex(n) if n >= 0 else "(-%s)" % hex(-n)


def coqc(path, timeout):
    d, b = os.path.dirname(path), os.path.basename(path)
    cmd = ["timeout", str(int(timeout)), "coqc"] + COQ_ARGS + ["-Q", d, "C17RUN", b]
    t0 = time.time()
    try:
        p = subprocess.run(cmd, cwd=d, capture_output=True, text=True, timeout=timeout + 30)
        rc, out = p.returncode, p.stdout + p.stderr
    except subprocess.TimeoutExpired:
        rc, out = 124, "python-side timeout"
    return {"rc": rc, "out": out, "secs": round(time.time() - t0, 1), "cmd": "cd %s && %s" % (d, " ".join(cmd)), "path": path}


def first_error_line(out):
    m = re.search(r'File "[^"]+", line (\d+), characters \d+-\d+:\s*\nError', out)
    return int(m.group(1)) if m else None


class VFile(object):
    """A generated .v file with named items; maps an error line back to the item that failed."""
    def __init__(self, path, header):
        self.path = path; self.lines = list(header); self.items = []     # (name, first, last, kind)

    def add(self, name, text, kind="lemma"):
        first = len(self.lines) + 1
        self.lines += text.split("\n")
        self.items.append((name, first, len(self.lines), kind))

    def write(self):
        with open(self.path, "w") as f:
            f.write("\n".join(self.lines) + "\n")

    def classify(self, res):
        """-> (proved item names, failed item name or None)"""
        lemmas = [it for it in self.items if it[3] == "lemma"]
        if res["rc"] == 0:
            return [it[0] for it in lemmas], None
        ln = first_error_line(res["out"])
        if ln is None:
            return [], "?"
        ok = [it[0] for it in lemmas if it[2] < ln]
        bad = next((it[0] for it in self.items if it[1] <= ln <= it[2]), "?")
        return ok, bad


HDR_T = ["From Coq Require Import ZArith List.", "Import ListNotations.", "Open Scope Z_scope."]
HDR_S = ["From Coq Require Import ZArith List Reals Lia.", "From Flocq Require Import Core.",
         "From MP Require Import Algo.Base Algo.Libmpf Spec.Round.", "From CONST Require Import Memo DefConst Check.",
         "Import ListNotations.", "Open Scope Z_scope."]
HDR_P = ["From Coq Require Import ZArith List Reals Lia.", "From Interval Require Import Tactic.", "From Flocq Require Import Core.",
         "From MP Require Import Algo.Base Algo.Libmpf Spec.Round.", "From CONST Require Import Memo DefConst Check.",
         "Import ListNotations.", "Open Scope Z_scope."]


# ======================================================================================================
# independent reference values (plain integer series; only used to pick A, K -- the enclosure is proved by Coq)
# ======================================================================================================

def _atan_inv(n, G):
    x = (1 << G) // n; s = x; n2 = n * n; k = 1; sg = -1
    while x:
        x //= n2; k += 2; s += sg * (x // k); sg = -sg
    return s


def _atanh_inv(n, G):
    x = (1 << G) // n; s = x; n2 = n * n; k = 1
    while x:
        x //= n2; k += 2; s += x // k
    return s


def ref_fixed(base, G):
    """~ c * 2^G (error a few thousand units) for the base constants pi, e, ln2, ln10, phi"""
    if base == "pi": return 16 * _atan_inv(5, G) - 4 * _atan_inv(239, G)
    if base == "e":
        t = 1 << G; v = 0; k = 0
        while t:
            v += t; k += 1; t //= k
        return v
    if base == "ln2": return 2 * _atanh_inv(3, G)
    if base == "ln10": return 6 * _atanh_inv(3, G) + 2 * _atanh_inv(9, G)
    if base == "phi": return ((1 << G) + math.isqrt(5 << (2 * G))) >> 1
    raise KeyError(base)


def pick_enclosure(base, K0):
    """K >= K0 with frac(c 2^K) in [1/4, 3/4) (so a (K+40)-bit interval evaluation proves A < c 2^K < A+1), A = floor."""
    G = K0 + 400
    v = ref_fixed(base, G)
    for K in range(K0, K0 + 300):
        if (v >> (G - K - 2)) & 3 in (1, 2):
            return K, v >> (G - K)
    raise RuntimeError("no suitable K")


# ======================================================================================================
# live code access
# ======================================================================================================

def inner_of(g):
    """the undecorated function inside constant_memo's wrapper g (closure introspection)"""
    for c in (g.__closure__ or ()):
        v = c.cell_contents
        if callable(v) and hasattr(v, "memo_prec"):
            return v
    for c in (g.__closure__ or ()):
        if callable(c.cell_contents):
            return c.cell_contents
    raise RuntimeError("cannot find the undecorated function of %r" % (g,))


def live(name):
    """-> (memoised g, undecorated f)"""
    from mpmath.libmp import libelefun, gammazeta
    mod = libelefun if hasattr(libelefun, name + "_fixed") else gammazeta
    g = getattr(mod, name + "_fixed")
    return g, inner_of(g)


def reset_memo(f):
    f.memo_prec = -1
    f.memo_val = None


def np_py(q):
    return int(q * 1.05 + 10)


def domain(M):
    Q = max(q for q in range(0, M + 1) if np_py(q) <= M)
    reach = sorted({np_py(q) for q in range(0, Q + 1)})
    return Q, reach


# ======================================================================================================
# Python mirrors of the Coq definitions (diagnosis + predicted values; never a verdict on their own)
# ======================================================================================================

def norm_model(v, exp, prec, r):
    """mirror of MP.Algo.Libmpf.normalize 0 v exp (bitcount v) prec r  (sign 0)"""
    if v == 0:
        return (0, 0, 0, 0)
    bc = v.bit_length(); n = bc - prec
    if n > 0:
        if r == "n":
            t = v >> (n - 1)
            if t & 1 and (t & 2 or v & ((1 << (n - 1)) - 1)): v = (t >> 1) + 1
            else: v = t >> 1
        elif r in "fd": v >>= n
        else: v = -((-v) >> n)
        exp += n; bc = prec
    if not v & 1:
        t = (v & -v).bit_length() - 1
        v >>= t; exp += t; bc -= t
    if v == 1: bc = 1
    return (0, v, exp, bc)


def mpf_const_v_model(v, p, r):
    if r in "uc": v += 1
    return norm_model(v, -(p + 20), p, r)


def floor_at(A, K, q):
    return A >> (K - q)


def expected_round(A, K, D, p, r):
    """RND r p (c/D) from the enclosure: c/D * 2^(p+20) in (fl, fl+1) -> sticky representative 2 fl + 1"""
    q = p + 20
    fl = floor_at(A, K, q) // D
    return norm_model(2 * fl + 1, -(q + 1), p, r)


def model_step(st, q, ftab):
    if st is not None and q <= st[0]:
        return st, st[1] >> (st[0] - q)
    m = np_py(q); v = ftab[m]
    return (m, v), v >> (m - q)


# ======================================================================================================
# (b) tables -> Coq
# ======================================================================================================

def read_tables(reach):
    tabs = {}
    for base in ("pi", "e", "ln2", "ln10", "phi"):
        g, f = live(base)
        tabs[base] = {m: int(f(m)) for m in reach}
    return tabs


def mirror_check(D, A, K, Q, tab):
    """mirror of check_const: -> dict(bad_entries, pairs_not_floor, failures=[...])"""
    bad = []; pairs = 0; fails = []
    for m, v in sorted(tab.items()):
        fl = floor_at(A, K, m)
        if v == fl:
            continue
        bad.append((m, v - fl))
        k = 0
        while (v >> k) != (fl >> k):
            q = m - k
            pairs += 1
            if k >= 64:
                fails.append({"kind": "fuel", "m": m, "q": q}); break
            if 21 <= q <= Q:
                for r in MODES:
                    if mpf_const_v_model((v >> k) // D, q - 20, r) != mpf_const_v_model((fl >> k) // D, q - 20, r):
                        fails.append({"kind": "final", "m": m, "q": q, "mode": r})
            k += 1
    ties = []
    for p in range(1, Q - 20 + 1):
        fl = floor_at(A, K, p + 20) // D
        if fl < (1 << p):
            fails.append({"kind": "magnitude", "p": p}); continue
        n = fl.bit_length() - p
        if fl & ((1 << n) - 1) == 1 << (n - 1):
            ties.append(p); fails.append({"kind": "tie", "p": p})
    return {"bad_entries": bad, "pairs_not_floor": pairs, "failures": fails, "ties": ties}


def emit_T(rundir, base, A, K, Q, tab):
    vf = VFile(os.path.join(rundir, "T_%s.v" % base), HDR_T)
    vf.add("A", "Definition A : Z := %s." % zl(A), "def")
    vf.add("K", "Definition K : Z := %d." % K, "def")
    vf.add("Q", "Definition Q : Z := %d." % Q, "def")
    vf.add("table", "Definition table : list (Z * Z) := [%s]." % ";\n ".join("(%d,%s)" % (m, zl(v)) for m, v in sorted(tab.items())), "def")
    vf.add("np_live", "Definition np_live : list Z := [%s]." % ";".join(str(np_py(q)) for q in range(Q + 1)), "def")
    vf.write()
    return vf


def emit_P(rundir, name, cterm, D, base, K, print_assumptions=True):
    vf = VFile(os.path.join(rundir, "P_%s.v" % name), HDR_P + ["From C17RUN Require Import T_%s." % base, "Set Default Timeout 900."])
    ip = K + 40
    vf.add("encl_lo", "Lemma encl_lo : (0 < %s - IZR A * / IZR (2 ^ %d))%%R.\nProof. unfold A. interval with (i_prec %d). Qed." % (cterm, K, ip))
    vf.add("encl_hi", "Lemma encl_hi : (%s - IZR (A + 1) * / IZR (2 ^ %d) < 0)%%R.\nProof. unfold A. interval with (i_prec %d). Qed." % (cterm, K, ip))
    vf.add("encl", "Lemma encl : (IZR A < %s * bpow radix2 K < IZR (A + 1))%%R.\nProof. apply encl_of_diffs; [unfold K; lia|exact encl_lo|exact encl_hi]. Qed." % cterm)
    vf.add("np_model", "Lemma np_model : map np105 (zrange 0 (Q + 1)) = np_live.\nProof. vm_compute; reflexivity. Qed.")
    vf.add("chk", "Lemma chk : check_const %d A K Q table = true.\nProof. vm_cast_no_check (eq_refl true). Qed." % D)
    vf.add("correct",
           "Theorem %s_correct : forall h p r, Forall (fun x => 0 <= x <= Q) h -> 1 <= p <= Q - 20 ->\n"
           "  rv (mpf_const (served %d table h) p r) = RND r p (%s / IZR %d).\n"
           "Proof. exact (const_all_histories _ %d A K Q table encl chk). Qed." % (name, D, cterm, D, D))
    vf.add("brackets",
           "Theorem %s_brackets : forall h p, Forall (fun x => 0 <= x <= Q) h -> 1 <= p <= Q - 20 ->\n"
           "  (rv (mpf_const (served %d table h) p RF) <= %s / IZR %d <= rv (mpf_const (served %d table h) p RC))%%R.\n"
           "Proof. exact (const_brackets _ %d A K Q table encl chk). Qed." % (name, D, cterm, D, D, D))
    if print_assumptions:          # ~7 s per theorem (walks Interval's dependencies): one representative in the quick tier
        vf.add("assumptions", "Print Assumptions %s_correct." % name, "cmd")
    vf.write()
    return vf


def emit_S(rundir, groups):
    """sample lemmas (one file): the Coq model evaluated by vm_compute against live traces / live tuples.
    groups: list of (name, D, base, corr, api)"""
    bases = sorted({g[2] for g in groups})
    vf = VFile(os.path.join(rundir, "S_all.v"), HDR_S + ["From C17RUN Require %s." % " ".join("T_" + b for b in bases), "Set Default Timeout 600."])
    for name, D, base, corr, api in groups:
        tb = "T_%s.table" % base
        for i, (h, tr) in enumerate(corr):
            vf.add("%s.corr_%d" % (name, i), "Lemma %s_corr_%d : trace (lookup %s) np105 [%s] =\n  [%s].\nProof. vm_compute; reflexivity. Qed." % (
                name, i, tb, ";".join(map(str, h)), ";\n   ".join("(%s,%d,%s)" % (zl(a), m, zl(v)) for a, m, v in tr)))
        for i, (h, p, r, t) in enumerate(api):
            vf.add("%s.api_%d" % (name, i), "Lemma %s_api_%d : mpf_eqb (mpf_const (served %d %s [%s]) %d %s) (Mpf %d %s %s %d) = true.\nProof. vm_compute; reflexivity. Qed." % (
                name, i, D, tb, ";".join(map(str, h)), p, RND_COQ[r], t[0], zl(t[1]), ("(%d)" % t[2]), t[3]))
    vf.write()
    return vf


def emit_O(rundir, oth):
    """consistency certificates of the seven constants without a formal definition (one file, one Module each)"""
    vf = VFile(os.path.join(rundir, "O_all.v"), HDR_S)
    for name, (Q, reach, tab, mtop, V) in oth.items():
        vf.add(name + ".defs", "Module %s.\nDefinition V : Z := %s.\nDefinition table : list (Z * Z) := [%s].\nDefinition np_live : list Z := [%s]." % (
            name, zl(V), ";\n ".join("(%d,%s)" % (m, zl(v)) for m, v in sorted(tab.items())), ";".join(str(np_py(q)) for q in range(Q + 1))), "def")
        vf.add(name + ".np_model", "Lemma np_model : map np105 (zrange 0 (%d + 1)) = np_live.\nProof. vm_compute; reflexivity. Qed." % Q)
        vf.add(name + ".cons", "Lemma cons : check_consistent V %d %d table = true.\nProof. vm_cast_no_check (eq_refl true). Qed." % (mtop, Q))
        vf.add(name + ".consistent",
               "Theorem consistent : forall h q, Forall (fun x => 0 <= x <= %d) h -> 0 <= q <= %d ->\n"
               "  near1 (answer (lookup table) np105 h q) (Z.shiftr V (%d - q)) = true.\n"
               "Proof. exact (memo_consistent V %d %d table cons). Qed.\nEnd %s." % (Q, Q, mtop, mtop, Q, name))
    vf.write()
    return vf


# ======================================================================================================
# (c) memo state machine vs the live decorated function
# ======================================================================================================

def gen_sequence(rng, Q, reach):
    n = rng.randint(6, 24)
    kind = rng.choice(["asc", "desc", "rand", "repeat", "boundary", "smallsteps"])
    hi = rng.choice([Q, Q, max(30, Q // 3), max(25, Q // 10)])
    if kind == "asc":
        return sorted(rng.randint(0, hi) for _ in range(n))
    if kind == "desc":
        return sorted((rng.randint(0, hi) for _ in range(n)), reverse=True)
    if kind == "repeat":
        base = [rng.randint(0, hi) for _ in range(4)]
        return [rng.choice(base) for _ in range(n)]
    if kind == "boundary":           # requests exactly at / next to the memo precision (shift 0, shift 1, miss by one)
        q0 = rng.randint(0, max(0, hi - 60)); m = np_py(q0)
        seq = [q0]
        for _ in range(n):
            c = rng.choice([m, m - 1, m + 1, m - rng.randint(0, 40), q0])
            c = max(0, min(Q, c)); seq.append(c)
            if c > m: m = np_py(c)
        return seq
    if kind == "smallsteps":
        q = rng.randint(0, hi); seq = []
        for _ in range(n):
            q = max(0, min(Q, q + rng.randint(-3, 8))); seq.append(q)
        return seq
    return [rng.randint(0, hi) for _ in range(n)]


def run_sequences(rep, rng, name, Q, reach, ftab, nseq):
    """-> (n_requests, n_distinct_states, traces for the Coq sample)"""
    g, f = live(name)
    traces = []; nreq = 0; states = set(); bad = 0
    for s in range(nseq):
        seq = gen_sequence(rng, Q, reach)
        reset_memo(f)
        st = None; tr = []
        for i, q in enumerate(seq):
            if rng.random() < 0.2:
                # a request that is aborted by an exception raised inside the generator (here: an unexpected keyword reaches the
                # undecorated function): the verified machine treats it as a no-op, the memo must be left as it was
                qa = min(Q, (f.memo_prec if f.memo_prec is not None else 0) + rng.randint(1, 200)) if rng.random() < 0.7 else rng.randint(0, Q)
                try:
                    g(qa, _verif_abort_=True)
                except TypeError:
                    pass
            try:
                a = int(g(q))
                got = (a, f.memo_prec, None if f.memo_val is None else int(f.memo_val))
            except Exception as ex:
                got = ("raised", repr(ex)[:80], None)
            st, ea = model_step(st, q, ftab)
            exp_ = (ea, st[0], st[1])
            nreq += 1; states.add((st[0], q <= st[0]))
            if got != exp_:
                bad += 1
                if bad <= 3:
                    rep.violation("C17 %s_fixed: memoised function disagrees with the verified state machine at request %d of the history "
                                  "(answer/memo_prec/memo_val)" % (name, i),
                                  {"fn": name + "_fixed", "regime": "memo-correspondence", "history": seq[:i + 1], "index": i,
                                   "got": [small(x) if isinstance(x, int) else x for x in got],
                                   "expected": [small(x) for x in exp_]})
                break
            tr.append(exp_)
        else:
            traces.append((seq, tr))
    reset_memo(f)
    return nreq, len(states), traces


# ======================================================================================================
# (d) public API
# ======================================================================================================

def api_sweep(rep, rng, name, D, base, A, K, Q, ftab, tier_, bad_entries):
    """every precision 1..P in random order, all five modes, through mp.<name>(prec=, rounding=), +mp.<name>, libmp.mpf_<name>,
    and iv.<name>; memo reset at random epochs, direct X_fixed requests interleaved.  -> stats, samples for Coq"""
    import mpmath
    from mpmath import mp, iv, libmp
    g, f = live(base)
    const = getattr(mp, name)
    lowlevel = getattr(libmp, "mpf_" + name)
    ivconst = getattr(iv, name, None)
    P = Q - 20
    order = list(range(1, P + 1)); rng.shuffle(order)
    nep = 8 if tier_ == "quick" else 20
    cuts = sorted(rng.sample(range(1, P), min(nep - 1, P - 1)))
    chunks = [order[a:b] for a, b in zip([0] + cuts, cuts + [P])]
    stats = {"calls": 0, "iv_checks": 0, "direct_requests": 0, "epochs": 0, "mismatch": 0, "targeted_bad_entries": 0}
    samples = []
    saved = (mp.prec, mp._prec_rounding[1], iv.prec)

    def check(p, r, t, how, hist):
        stats["calls"] += 1
        e = expected_round(A, K, D, p, r)
        if tuple(t) != e:
            stats["mismatch"] += 1
            if stats["mismatch"] <= 4:
                rep.violation("C17 %s: %s at prec %d rounding %r is not the correctly rounded value" % (name, how, p, r),
                              {"fn": "mp." + name, "regime": "api", "how": how, "prec": p, "rounding": r, "history": hist,
                               "got": [small(x) for x in t], "expected": [small(x) for x in e]})
            return False
        return True

    try:
        for ci, chunk in enumerate(chunks):
            reset_memo(f); st = None; hist = []
            stats["epochs"] += 1
            shape = rng.choice(["asc", "desc", "rand", "rand"])
            if shape == "asc": chunk = sorted(chunk)
            elif shape == "desc": chunk = sorted(chunk, reverse=True)
            for p in chunk:
                if rng.random() < 0.05:                      # an internal user of X_fixed
                    q = rng.randint(0, Q)
                    a = int(g(q)); st, ea = model_step(st, q, ftab); stats["direct_requests"] += 1
                    if not hist or q > max(hist): hist.append(q)
                    if a != ea:
                        rep.violation("C17 %s_fixed: direct request disagrees with the state machine" % base,
                                      {"fn": base + "_fixed", "regime": "memo-correspondence", "history": hist + [q], "index": len(hist)})
                modes = list(MODES); rng.shuffle(modes)
                for r in modes:
                    how = rng.random()
                    if how < 0.45:
                        t = const(prec=p, rounding=r)._mpf_; hw = "mp.%s(prec=,rounding=)" % name
                    elif how < 0.6:
                        # through the number constructor, under an unrelated context precision: the constant must be evaluated at
                        # the requested precision and mode, not taken from its value at the context precision
                        mp.prec = rng.choice([20, 53, 64, 300])
                        try:
                            t = mp.mpf(const, prec=p, rounding=r)._mpf_
                        finally:
                            mp.prec = saved[0]
                        hw = "mp.mpf(mp.%s, prec=, rounding=)" % name
                    elif how < 0.8:
                        mp.prec = p; mp._prec_rounding[1] = r
                        try:
                            t = (+const)._mpf_
                        finally:
                            mp.prec = saved[0]; mp._prec_rounding[1] = saved[1]
                        hw = "+mp.%s" % name
                    else:
                        t = lowlevel(p, r); hw = "libmp.mpf_%s" % name
                    ok = check(p, r, t, hw, list(hist))
                    if ok and len(samples) < (10 if tier_ == "quick" else 6) and rng.random() < 0.01 and max(hist + [p + 20]) <= Q:
                        samples.append((list(hist), p, r, tuple(t)))
                if not hist or p + 20 > max(hist): hist.append(p + 20)
                st, _ = model_step(st, p + 20, ftab)
                if ivconst is not None and rng.random() < (0.3 if tier_ == "quick" else 0.15):
                    iv.prec = p
                    a, b = ivconst._mpi_
                    stats["iv_checks"] += 1
                    ea, eb = expected_round(A, K, D, p, "f"), expected_round(A, K, D, p, "c")
                    # containment of the certified enclosure: a <= A/(D 2^K) and (A+1)/(D 2^K) <= b
                    lo_ok = mpf_value(a) * D * (1 << K) <= A if a[1] else True
                    hi_ok = mpf_value(b) * D * (1 << K) >= A + 1
                    if not (lo_ok and hi_ok) or tuple(a) != ea or tuple(b) != eb:
                        rep.violation("C17 iv.%s at prec %d does not tightly bracket the constant" % (name, p),
                                      {"fn": "iv." + name, "regime": "iv", "prec": p, "history": list(hist),
                                       "got": [[small(x) for x in a], [small(x) for x in b]]})
        # targeted: every table entry that is not the exact floor, requests served from it with shift 0..3
        for m, _d in bad_entries:
            q0 = next((q for q in range(0, Q + 1) if np_py(q) == m), None)
            if q0 is None: continue
            for k in range(0, 4):
                q = m - k; p = q - 20
                if not (1 <= p <= Q - 20) or q > Q: continue
                for r in MODES:
                    reset_memo(f)
                    g(q0)
                    t = lowlevel(p, r)
                    stats["targeted_bad_entries"] += 1
                    check(p, r, t, "libmp.mpf_%s after %s_fixed(%d)" % (name, base, q0), [q0])
    finally:
        mp.prec = saved[0]; mp._prec_rounding[1] = saved[1]; iv.prec = saved[2]
        reset_memo(f)
    return stats, samples


# ======================================================================================================
# (f) def_mpf_constant itself against its model, on synthetic fixed-point functions
# ======================================================================================================

def defconst_cases(rng, n):
    """(v, prec, mode): boundary-directed fixed-point values -- 20+ zero guard bits (where the `+1` of the upward modes decides
    the side of the bound), exact ties, all-ones (carry into the next binade), powers of two, short values, random"""
    out = []
    for i in range(n):
        p = rng.choice([1, 2, 3, 10, 24, 53, rng.randint(1, 200)])
        wp = p + 20
        bl = max(1, wp + rng.choice([0, 0, 0, 1, 2, -1, -5, -19, -20, -21, -rng.randint(0, wp)]))      # bit length of v
        kind = rng.choice(["rand", "zeros", "tie", "ones", "pow2", "zeros1", "rand"])
        top = rng.getrandbits(bl) | (1 << (bl - 1))
        low = max(0, bl - p)
        if kind == "zeros" and low: v = (top >> low) << low
        elif kind == "zeros1" and low: v = ((top >> low) << low) + rng.choice([1, 2, (1 << low) - 1])
        elif kind == "tie" and low: v = ((top >> low) << low) | (1 << (low - 1))
        elif kind == "ones": v = (1 << bl) - 1
        elif kind == "pow2": v = 1 << (bl - 1)
        else: v = top
        out.append((v, p, rng.choice(MODES)))
    return out


def defconst_correspondence(rep, rng, tier_, rundir):
    from mpmath.libmp import libelefun
    cases = defconst_cases(rng, 400 if tier_ == "quick" else 3000)
    rows = []; bad = 0
    for v, p, r in cases:
        try:
            t = tuple(int(x) for x in libelefun.def_mpf_constant(lambda wp, _v=v: _v)(p, r))
        except Exception as ex:
            t = ("raised", repr(ex)[:60])
        e = mpf_const_v_model(v, p, r)
        if t != e:
            bad += 1
            if bad <= 3:
                rep.violation("C17 def_mpf_constant: result for a fixed-point value v at prec %d rounding %r differs from the verified model "
                              "(for the upward modes the model adds one unit so that the bound lies above every c in (v, v+1) 2^-wp)" % (p, r),
                              {"fn": "def_mpf_constant", "regime": "model-correspondence", "v": v, "prec": p, "rounding": r,
                               "got": [small(x) if isinstance(x, int) else x for x in t], "expected": [small(x) for x in e]})
        else:
            rows.append((v, p, r, t))
    vf = VFile(os.path.join(rundir, "D_defconst.v"), HDR_S)
    vf.add("cases", "Definition cases : list (Z * Z * rnd * mpf) := [%s]." % ";\n ".join(
        "(%s,%d,%s,Mpf %d %s (%d) %d)" % (zl(v), p, RND_COQ[r], t[0], zl(t[1]), t[2], t[3]) for v, p, r, t in rows), "def")
    vf.add("defconst_live", "Lemma defconst_live : forallb (fun c => let '(v, p, r, t) := c in mpf_eqb (mpf_const_v v p r) t) cases = true.\n"
                            "Proof. vm_compute; reflexivity. Qed.")
    vf.write()
    return vf, {"cases": len(cases), "agree_with_mirror": len(rows), "mismatch": bad}


# ======================================================================================================
# (e) the seven constants without a formal definition
# ======================================================================================================

def others_tables(tier_):
    out = {}
    for name in OTHERS:
        M7 = CAP7[tier_][name]
        Q7, reach = domain(M7)
        g, f = live(name)
        tab = {m: int(f(m)) for m in reach}
        mtop = max(reach) + 64
        V = int(f(mtop))
        out[name] = (Q7, reach, tab, mtop, V)
    return out


def others_observe(rep, rng, name, Q7, reach, tab, mtop, V, tier_):
    """final values: fresh vs served from the top cache, and vs the top value taken as reference (observed, 1 ulp)"""
    from mpmath import libmp
    g, f = live(name)
    low = getattr(libmp, "mpf_" + name)
    P7 = Q7 - 20
    n = 0; worst = Fraction(0)
    ps = list(range(1, P7 + 1))
    if tier_ == "quick" and len(ps) > 100:
        ps = sorted(rng.sample(ps, 100))
    try:
        for p in ps:
            for r in ("n", rng.choice("fcdu")):
                reset_memo(f)
                fresh = low(p, r)                    # computed at np(p+20)
                reset_memo(f); g(Q7)                 # prime with the highest precision of the domain
                cached = low(p, r)
                n += 2
                vf_, vc = mpf_value(fresh), mpf_value(cached)
                refv = Fraction(V, 1 << mtop)
                ulp = Fraction(2) ** (math.floor(math.log2(float(refv))) + 1 - p) if refv > 0 else Fraction(1)
                for what, val in (("fresh", vf_), ("cached", vc)):
                    d = abs(val - refv) / ulp
                    worst = max(worst, d)
                    if d > 1:
                        rep.violation("C17 %s: value at prec %d (%s, rounding %r) is more than one ulp from the value computed at %d bits"
                                      % (name, p, what, r, mtop),
                                      {"fn": "mp." + name, "regime": "history-consistency", "prec": p, "rounding": r, "which": what,
                                       "ulps": float(d)})
    finally:
        reset_memo(f)
    return n, float(worst)


# ======================================================================================================
# run
# ======================================================================================================

def run(rep, tier_, rng):
    load_known_b4(rep)
    t0 = time.time()
    ok, log, summary = ensure_coq_const()
    gate = grep_gate_const()
    if gate:
        rep.violation("forbidden construct in /verif/coq_const", {"theorem": "grep gate", "hits": gate}, no_input=True)
    if not ok:
        rep.violation("C17: the Coq development /verif/coq_const no longer builds", {"theorem": "coq_const", "log": log}, no_input=True)
        rep.coverage = {"obligations": 1, "discharged": 0, "checker_cmd": "coqc (coq_const)", "trusted_base": [], "evaluations": 0,
                        "distinct_nontrivial": 0, "rule": "build failed", "samples": ["build failed"]}
        return
    static_ax = axioms_of(summary)
    static_thms = summary.count("Closed under the global context") + summary.count("Axioms:")
    M = 700 if tier_ == "quick" else 4700
    Q, reach = domain(M)
    P = Q - 20
    rundir = os.path.join(RUN_ROOT, "%s_s%d" % (tier_, seed()))
    if os.path.isdir(rundir):
        for n in os.listdir(rundir):
            os.remove(os.path.join(rundir, n))
    os.makedirs(rundir, exist_ok=True)

    # ---- (b) live tables and enclosures
    tabs = read_tables(reach)
    enc = {base: pick_enclosure(base, M + 32) for base in tabs}            # base -> (K, A)
    t_tab = time.time() - t0
    Tfiles = {base: emit_T(rundir, base, enc[base][1], enc[base][0], Q, tabs[base]) for base in tabs}
    mirrors = {}
    for name, cterm, D, base in ELEM:
        K, A = enc[base]
        mirrors[name] = mirror_check(D, A, K, Q, tabs[base])

    # ---- start compiling the table files while the Python-side checks run
    pool = ThreadPoolExecutor(NPROC)
    tmo = 300 if tier_ == "quick" else 1500
    Tfut = {base: pool.submit(coqc, Tfiles[base].path, tmo) for base in tabs}
    Pfiles = {name: emit_P(rundir, name, cterm, D, base, enc[base][0], print_assumptions=(tier_ != "quick" or name == "pi"))
              for name, cterm, D, base in ELEM}

    def after_T(base, path):
        r = Tfut[base].result()
        if r["rc"] != 0:
            return dict(r, skipped=True)
        return coqc(path, tmo)
    Pfut = {name: pool.submit(after_T, base, Pfiles[name].path) for name, cterm, D, base in ELEM}

    # ---- (e) tables of the other seven, their Coq files
    oth = others_tables(tier_)
    Ofile = emit_O(rundir, oth)
    Ofut = pool.submit(coqc, Ofile.path, tmo)

    T = {"tables_and_emit": round(time.time() - t0, 1)}; tm = time.time()
    # ---- (c) correspondence of the memo state machine
    nseq = 40 if tier_ == "quick" else 150
    corr_stats = {}; corr_samples = {}
    for base in tabs:
        nreq, nstates, traces = run_sequences(rep, rng, base, Q, reach, tabs[base], nseq)
        corr_stats[base] = {"sequences": nseq, "requests": nreq, "distinct_memo_states": nstates, "agreeing_sequences": len(traces)}
        k = 6 if tier_ == "quick" else 3
        short_ = [t for t in traces if max(t[0]) <= (Q if tier_ == "quick" else 1500)]
        corr_samples[base] = rng.sample(short_, min(k, len(short_)))

    T["memo_sequences"] = round(time.time() - tm, 1); tm = time.time()
    # ---- (d) public API
    api_stats = {}; api_samples = {}
    for name, cterm, D, base in ELEM:
        K, A = enc[base]
        st, smp = api_sweep(rep, rng, name, D, base, A, K, Q, tabs[base], tier_, mirrors[name]["bad_entries"])
        api_stats[name] = st; api_samples[name] = smp

    T["api_sweep"] = round(time.time() - tm, 1); tm = time.time()
    # ---- (f) def_mpf_constant against its model on synthetic fixed-point values
    Dfile, dstats = defconst_correspondence(rep, rng, tier_, rundir)
    Dfut = pool.submit(coqc, Dfile.path, tmo)

    # ---- sample files (Coq evaluates the model on the recorded histories)
    Sfile = emit_S(rundir, [(name, D, base, corr_samples.get(name, []) if D == 1 else [], api_samples[name]) for name, cterm, D, base in ELEM])

    def after_all_T(path):
        for b in tabs:
            r = Tfut[b].result()
            if r["rc"] != 0:
                return dict(r, skipped=True)
        return coqc(path, tmo)
    Sfut = pool.submit(after_all_T, Sfile.path)

    T["defconst_and_samples_emit"] = round(time.time() - tm, 1); tm = time.time()
    # ---- (e) observed final values of the other seven
    obs = {}
    for name, (Q7, reach7, tab, mtop, V) in oth.items():
        n, worst = others_observe(rep, rng, name, Q7, reach7, tab, mtop, V, tier_)
        obs[name] = {"evaluations": n, "max_ulps_from_top_value": round(worst, 4), "Q": Q7, "P": Q7 - 20, "table_entries": len(tab),
                     "top_precision": mtop}

    T["others_observe"] = round(time.time() - tm, 1); tm = time.time()
    # ---- collect Coq results
    obligations = static_thms; discharged = static_thms
    bad_static = sorted(a for a in static_ax if a not in ALLOWED_AXIOMS)
    if bad_static:
        discharged -= 1
        rep.violation("C17: unexpected axioms in /verif/coq_const", {"theorem": "Print Assumptions", "axioms": bad_static}, no_input=True)
    cmds = []; per_const = {}; run_axioms = set(); proved_theorems = []
    for name, cterm, D, base in ELEM:
        vf = Pfiles[name]; r = Pfut[name].result(); cmds.append(r["cmd"])
        lem = [it[0] for it in vf.items if it[3] == "lemma"]
        obligations += len(lem)
        okl, badl = vf.classify(r)
        if r.get("skipped"):
            okl, badl = [], "table file T_%s.v" % base
        discharged += len(okl)
        mir = mirrors[name]
        per_const[name] = {"K": enc[base][0], "i_prec": enc[base][0] + 40, "table_entries": len(tabs[base]), "coq_secs": r["secs"],
                           "proved": okl, "failed": badl, "entries_not_exact_floor": len(mir["bad_entries"]),
                           "entries_not_exact_floor_list": [m for m, _ in mir["bad_entries"]][:40],
                           "served_pairs_not_floor": mir["pairs_not_floor"], "tie_precisions": mir["ties"][:10]}
        if badl is None:
            proved_theorems.append("%s_correct" % name)
            ax = axioms_of(r["out"]); run_axioms |= ax
        else:
            diagnose(rep, name, cterm, D, base, enc[base], Q, tabs[base], mir, badl, r)
    r = Sfut.result(); cmds.append(r["cmd"])
    lem = [it[0] for it in Sfile.items if it[3] == "lemma"]
    obligations += len(lem)
    okl, badl = Sfile.classify(r)
    if r.get("skipped"):
        okl, badl = [], "table file"
    discharged += len(okl)
    for name, cterm, D, base in ELEM:
        per_const[name]["sample_lemmas"] = sum(1 for x in lem if x.startswith(name + "."))
        per_const[name]["sample_lemmas_proved"] = sum(1 for x in okl if x.startswith(name + "."))
    if badl is not None and lem:
        rep.violation("C17: the Coq model evaluated by vm_compute disagrees with a recorded live trace/tuple (%s) although the "
                      "Python mirror agreed" % badl, {"theorem": "S_all.v: %s" % badl, "log": r["out"][-1500:]}, no_input=True)
    rD = Dfut.result(); cmds.append(rD["cmd"])
    obligations += 1
    okl, badl = Dfile.classify(rD)
    discharged += len(okl)
    dstats["coq_checked"] = badl is None
    if badl is not None and not dstats["mismatch"]:
        rep.violation("C17 def_mpf_constant: the Coq model evaluated by vm_compute disagrees with live results although the Python mirror agreed",
                      {"theorem": "D_defconst.v: defconst_live", "log": rD["out"][-1500:]}, no_input=True)
    cons = {}
    r = Ofut.result(); cmds.append(r["cmd"])
    lemO = [it[0] for it in Ofile.items if it[3] == "lemma"]
    obligations += len(lemO)
    oklO, badO = Ofile.classify(r)
    discharged += len(oklO)
    for name in oth:
        okn = [x.split(".", 1)[1] for x in oklO if x.startswith(name + ".")]
        failed_here = None if len(okn) == 3 else (badO if badO and badO.startswith(name + ".") else "not reached (an earlier module failed)")
        cons[name] = dict(obs[name], proved=okn, failed=failed_here, coq_secs=r["secs"])
        Q7, reach7, tab, mtop, V = oth[name]
        worst = [(m, tab[m] - (V >> (mtop - m))) for m in sorted(tab) if abs(tab[m] - (V >> (mtop - m))) > 1]
        if worst:
            m, d = worst[0]
            rep.violation("C17 %s_fixed(%d) differs by %d units from the value computed at %d bits: answers depend on the history"
                          % (name, m, d, mtop), {"fn": name + "_fixed", "regime": "history-consistency", "m": m, "diff": d, "top": mtop})
        elif badO is not None and badO.startswith(name + "."):
            rep.violation("C17 %s: consistency certificate failed (%s)" % (name, badO),
                          {"theorem": "O_all.v: %s" % badO, "log": r["out"][-1500:]}, no_input=True)
    if badO == "?":
        rep.violation("C17: consistency certificates did not compile", {"theorem": "O_all.v", "log": r["out"][-1500:]}, no_input=True)
    pool.shutdown()
    T["waiting_for_coq"] = round(time.time() - tm, 1)
    bad_run = sorted(a for a in run_axioms if a not in ALLOWED_AXIOMS and not a.startswith(("Uint63.", "PrimInt63.", "PrimFloat.", "FloatAxioms.", "Sint63.")))
    if bad_run:
        rep.violation("C17: unexpected axioms under the per-run theorems", {"theorem": "Print Assumptions", "axioms": bad_run}, no_input=True)
    prim = sorted(a for a in run_axioms if a.startswith(("Uint63.", "PrimInt63.", "PrimFloat.", "FloatAxioms.", "Sint63.")))

    evaluations = dstats["cases"] + sum(s["calls"] + s["iv_checks"] + s["direct_requests"] + s["targeted_bad_entries"] for s in api_stats.values()) \
        + sum(s["requests"] for s in corr_stats.values()) + sum(len(t) for t in tabs.values()) + sum(o["evaluations"] for o in obs.values())
    distinct = sum(len(t) for t in tabs.values()) + 5 * P * len(ELEM)
    samples = []
    for name in ("pi", "ln10", "degree"):
        if api_samples.get(name):
            h, p, r, t = api_samples[name][0]
            samples.append({"fn": "mp." + name, "history_of_misses": h, "prec": p, "rounding": r, "live_tuple": [small(x) for x in t],
                            "coq": "mpf_eqb (mpf_const (served D table h) p r) (Mpf ...) = true by vm_compute"})
    samples.append({"theorem": "pi_correct : forall h p r, Forall (fun x => 0 <= x <= %d) h -> 1 <= p <= %d -> "
                               "rv (mpf_const (served 1 table h) p r) = RND r p (PI / IZR 1)" % (Q, P),
                    "status": "proved" if "pi_correct" in proved_theorems else "NOT proved in this run"})
    rep.coverage = {
        "obligations": obligations, "discharged": discharged,
        "checker_cmd": "coqc -Q /verif/coq_const CONST -Q /verif/coq MP (Memo.v DefConst.v Check.v Summary.v); per run: " + "; ".join(cmds[:2]) + " ... (%d files)" % len(cmds),
        "trusted_base": [
            "Coq 8.16.1 kernel incl. the vm_compute conversion machine",
            "Coq Interval (tactic `interval`, used for the six enclosures only), Coquelicot, Flocq, Coq standard library Reals",
            "axioms under the static theorems (Print Assumptions, Summary.v): " + (", ".join(sorted(static_ax)) or "none"),
            "axioms under the per-run theorems X_correct: the above + primitive 63-bit integer/float primitives of Interval's "
            "bignum back-end (%d names, e.g. %s)" % (len(prim), ", ".join(prim[:3])),
            "hand-written Gallina models Memo.step / DefConst.mpf_const / MP.Algo.Libmpf.normalize tied to the code by correspondence",
            "Python driver: closure introspection, printing of the live integers as hex Z literals, CPython int/float semantics",
        ],
        "evaluations": evaluations, "distinct_nontrivial": distinct,
        "rule": "proof domain: all request histories over 0..Q, all p in 1..P, five modes (Q=%d, P=%d, M=%d); evaluations = live table "
                "entries read + memo-trace requests + public API calls (every p in 1..P x 5 modes x 6 constants in random orders over "
                "randomly reset memo epochs, plus iv brackets and targeted requests served from every non-floor table entry) + observed "
                "values of the other seven; distinct non-trivial = table entries + (p, mode, constant) triples compared with the "
                "correct rounding derived from the Coq-checked enclosure" % (Q, P, M),
        "samples": samples,
        "domain": {"M": M, "Q": Q, "P": P, "reachable_memo_precisions": len(reach)},
        "proved_this_run": proved_theorems,
        "static_theorems": ["memo_inv", "memo_served", "memo_history_independent", "encl_floor", "encl_frac", "def_constant_round",
                            "def_constant_brackets", "const_all_histories", "const_brackets", "memo_consistent"],
        "per_constant": per_const, "memo_correspondence": corr_stats, "api": api_stats, "def_mpf_constant_correspondence": dstats,
        "other_seven": cons, "table_read_wall_s": round(t_tab, 1), "phase_wall_s": T, "wall_s": round(time.time() - t0, 1), "run_dir": rundir,
    }
    rep.assumptions = list(ASSUMPTIONS)


def diagnose(rep, name, cterm, D, base, encl, Q, tab, mir, badl, r):
    """a per-constant proof file failed: find the concrete failing input with the mirror and replay it on the live code"""
    K, A = encl
    if badl in ("encl_lo", "encl_hi", "encl"):
        rep.violation("C17 %s: the enclosure of the constant could not be proved by Interval (%s)" % (name, badl),
                      {"theorem": "P_%s.v: %s" % (name, badl), "log": r["out"][-1500:]}, no_input=True)
        return
    if badl == "np_model":
        rep.violation("C17: int(prec*1.05+10) evaluated by CPython differs from the integer model np105",
                      {"theorem": "P_%s.v: np_model" % name, "log": r["out"][-800:]}, no_input=True)
        return
    fails = mir["failures"]
    reported = 0
    from mpmath import libmp
    g, f = live(base)
    low = getattr(libmp, "mpf_" + name)
    for fl in fails:
        if fl["kind"] in ("final", "fuel"):
            m, q = fl["m"], fl["q"]
            q0 = next((x for x in range(0, Q + 1) if np_py(x) == m), None)
            modes = [fl["mode"]] if "mode" in fl else list(MODES)
            for k in range(0, 4):
                qq = q - k if fl["kind"] == "fuel" else q
                p = qq - 20
                if p < 1 or q0 is None: continue
                for md in modes:
                    reset_memo(f); g(q0); t = tuple(low(p, md)); reset_memo(f)
                    e = expected_round(A, K, D, p, md)
                    if t != e:
                        reported += 1
                        rep.violation("C17 %s: after the request history [%d, %d] the value at prec %d rounding %r is not correctly rounded "
                                      "(%s_fixed(%d) is not floor(c 2^%d))" % (name, q0, qq, p, md, base, m, m),
                                      {"fn": "mp." + name, "regime": "history", "history": [q0, qq], "prec": p, "rounding": md, "m_origin": m,
                                       "got": [small(x) for x in t], "expected": [small(x) for x in e]})
                if fl["kind"] == "final": break
        elif fl["kind"] in ("tie", "magnitude"):
            p = fl["p"]
            for md in MODES:
                reset_memo(f); t = tuple(low(p, md)); reset_memo(f)
                e = expected_round(A, K, D, p, md)
                if t != e:
                    reported += 1
                    rep.violation("C17 %s: value at prec %d rounding %r is not correctly rounded (%s case of def_mpf_constant)" % (name, p, md, fl["kind"]),
                                  {"fn": "mp." + name, "regime": "tie", "history": [], "prec": p, "rounding": md,
                                   "got": [small(x) for x in t], "expected": [small(x) for x in e]})
        if reported >= 5: break
    if not reported:
        rep.violation("C17 %s: the per-run proof failed at %s and no failing input was reproduced on the live code" % (name, badl),
                      {"theorem": "P_%s.v: %s" % (name, badl), "log": r["out"][-1500:], "mirror_failures": fails[:10]}, no_input=True)


# ======================================================================================================
# replay
# ======================================================================================================

def replay(rep, path):
    """re-run one recorded case on the current tree; the expected value is re-derived from a freshly Coq-checked enclosure"""
    load_known_b4(rep)
    with open(path) as f:
        d = json.load(f)
    r = d["replay"]
    ok, log, summary = ensure_coq_const()
    fn = r.get("fn", "")
    name = fn.split(".")[-1].replace("_fixed", "")
    cov = {"obligations": 0, "discharged": 0, "checker_cmd": "", "trusted_base": ["see ./check C17"], "evaluations": 1, "distinct_nontrivial": 0,
           "rule": "replay of one recorded case", "samples": [r]}
    if r.get("regime") == "model-correspondence" and fn == "def_mpf_constant":
        from mpmath.libmp import libelefun
        v, p, md = int(r["v"]), int(r["prec"]), r["rounding"]
        t = tuple(int(x) for x in libelefun.def_mpf_constant(lambda wp: v)(p, md))
        e = mpf_const_v_model(v, p, md)
        rundir = os.path.join(RUN_ROOT, "replay"); os.makedirs(rundir, exist_ok=True)
        vf = VFile(os.path.join(rundir, "D_replay.v"), HDR_S)
        vf.add("model", "Lemma model : mpf_eqb (mpf_const_v %s %d %s) (Mpf %d %s (%d) %d) = true.\nProof. vm_compute; reflexivity. Qed."
               % (zl(v), p, RND_COQ[md], e[0], zl(e[1]), e[2], e[3]))
        vf.write(); rc = coqc(vf.path, 300)
        cov.update(obligations=1, discharged=int(rc["rc"] == 0), checker_cmd=rc["cmd"])
        if rc["rc"] != 0:
            rep.violation("C17 replay: mirror and Coq model of def_mpf_constant disagree", {"theorem": "D_replay.v", "log": rc["out"][-800:]}, no_input=True)
        elif t != e:
            rep.violation("C17 def_mpf_constant: result for a fixed-point value v at prec %d rounding %r differs from the verified model" % (p, md), r)
        rep.coverage = cov
        return
    ent = next((e for e in ELEM if e[0] == name), None)
    if ent is None or r.get("regime") == "history-consistency":
        # one of the other seven / consistency: recompute the table entry against the top value
        nm = name if name in OTHERS else None
        if nm and "m" in r:
            g, f = live(nm); top = r.get("top", r["m"] + 64)
            dlt = int(f(r["m"])) - (int(f(top)) >> (top - r["m"]))
            if abs(dlt) > 1:
                rep.violation("C17 %s_fixed(%d) differs by %d units from the value computed at %d bits" % (nm, r["m"], dlt, top), r)
        rep.coverage = cov
        return
    name, cterm, D, base = ent
    hist = [int(x) for x in r.get("history", [])]
    M = max([700] + [np_py(q) for q in hist] + [np_py(int(r.get("prec", 1)) + 20)])
    Q, reach = domain(M)
    K, A = pick_enclosure(base, M + 32)
    g, f = live(base)
    tab = {m: int(f(m)) for m in reach}
    rundir = os.path.join(RUN_ROOT, "replay")
    os.makedirs(rundir, exist_ok=True)
    emit_T(rundir, base, A, K, Q, tab)
    vfP = emit_P(rundir, name, cterm, D, base, K)
    rt = coqc(os.path.join(rundir, "T_%s.v" % base), 1500)
    rp = coqc(vfP.path, 1500) if rt["rc"] == 0 else dict(rt)
    okl, badl = vfP.classify(rp)
    cov.update(obligations=len([i for i in vfP.items if i[3] == "lemma"]), discharged=len(okl), checker_cmd=rp["cmd"], per_run_failed=badl)
    if r.get("regime") == "memo-correspondence":
        reset_memo(f); st = None
        for i, q in enumerate(hist):
            a = int(g(q)); st, ea = model_step(st, q, tab)
            if (a, f.memo_prec, int(f.memo_val)) != (ea, st[0], st[1]):
                rep.violation("C17 %s_fixed: memoised function disagrees with the verified state machine at request %d" % (base, i), r)
                break
        reset_memo(f)
    elif "prec" in r:
        from mpmath import libmp
        low = getattr(libmp, "mpf_" + name)
        if "encl" not in okl:
            rep.violation("C17 replay: enclosure not proved", {"theorem": "P_%s.v" % name, "log": rp["out"][-800:]}, no_input=True)
        for md in ([r["rounding"]] if r.get("rounding") else ["f", "c"]):        # iv.<name>: floor and ceiling
            reset_memo(f)
            for q in hist:
                g(q)
            t = tuple(low(int(r["prec"]), md)); reset_memo(f)
            e = expected_round(A, K, D, int(r["prec"]), md)
            if t != e and "encl" in okl:
                rep.violation("C17 %s: value at prec %s rounding %r after history %s is not correctly rounded" % (name, r["prec"], md, hist), r)
    rep.coverage = cov
