"""C07 — decimal strings convert to correctly rounded binary values."""
from fractions import Fraction
from common import *
import allcases, strcases, gen
from props.enginea import run_engine_a

LEVEL = "proof"
FNS = ["from_str_parts"]
TAGS = {"C07"}


def spec(case, out):
    """attach branch/clause to the replay through the violation text (known findings match on them)"""
    return allcases.spec(case, out)


def api_level(rep, tier_, rng):
    """public conversions: mpf(str), mpmathify, p/q, case/whitespace/'l' suffix, specials, malformed literals,
    and iv.mpf(str) which converts with directed rounding"""
    import mpmath
    from mpmath import mp, iv
    n = 300 if tier_ == "quick" else 6000
    checked = 0
    p0 = mp.prec
    try:
        for _ in range(n):
            prec = rng.choice([10, 24, 53, 100, 200]); mp.prec = prec; iv.prec = prec
            text, man, exp = strcases.rand_literal(rng)
            value = Fraction(man) * Fraction(10) ** exp
            approx = abs(exp) > 400
            inrange = value != 0 and Fraction(1, 10**100) <= abs(value) <= Fraction(10**100)
            for nm, f in (("mpf(str)", lambda: mp.mpf(text)), ("mpmathify", lambda: mp.mpmathify(" " + text.upper() + " ")),
                          ("convert", lambda: mp.convert(text))):
                x = f(); checked += 1
                if (inrange or value == 0) and not value_eq_round(x._mpf_, value, prec, 'n'):
                    rep.violation("%s of a literal in [1e-100,1e100] is not correctly rounded" % nm,
                                  {"fn": nm, "text": text[:120], "prec": prec, "branch": "approx" if approx else "exact", "clause": "rounded"})
            v = iv.mpf(text); checked += 1
            a, b = v._mpi_
            lo = mpf_value(a) if a[1] else Fraction(0); hi = mpf_value(b) if b[1] else Fraction(0)
            if not (lo <= value <= hi):
                rep.violation("iv.mpf(str) does not contain the exact decimal value (directed conversion on the wrong side)",
                              {"fn": "iv.mpf(str)", "text": text[:120], "prec": prec, "branch": "approx" if approx else "exact", "clause": "directed"})
            # p/q
            p_, q_ = gen.small_int(rng), abs(gen.small_int(rng)) or 3
            x = mp.mpf("%d/%d" % (p_, q_)); checked += 1
            if not value_eq_round(x._mpf_, Fraction(p_, q_), prec, 'n'):
                rep.violation("mpf('p/q') not correctly rounded", {"fn": "mpf(p/q)", "text": "%d/%d" % (p_, q_), "prec": prec, "branch": "exact", "clause": "rounded"})
        # interval literals "a +- b", "a (b)", "a (b%)": the result must contain a - b and a + b.  Directed: the exact end point
        # lies 1e-70 outside a representable number, so any inward rounding of a or b at the working precision shows
        def dec(fr):
            """exact decimal expansion of a dyadic (or terminating) non-negative Fraction"""
            ip = fr.numerator // fr.denominator; fr -= ip; ds = ""
            while fr and len(ds) < 400:
                fr *= 10; d = fr.numerator // fr.denominator; ds += str(d); fr -= d
            return str(ip) + ("." + ds if ds else "")
        for _ in range(40 if tier_ == "quick" else 800):
            prec = rng.choice([10, 24, 53, 64, 100]); iv.prec = prec
            a = Fraction(rng.choice([1, 2, 3, 10, 1000, 5]) * rng.randint(1, 64), rng.choice([1, 4, 64]))
            wfrac = Fraction(rng.randint(1, 900), 1024)
            tgt = round_fraction(a * (1 - wfrac) if rng.random() < 0.5 else a * (1 + wfrac), prec, 'n')
            T = mpf_value((tgt[0], tgt[1], tgt[2], tgt[1].bit_length()))            # a representable number != a
            if T == a: continue
            tiny = Fraction(1, 10 ** rng.choice([40, 70, 120]))
            b = abs(a - T) + tiny if rng.random() < 0.8 else abs(a - T) - tiny      # end point just outside / just inside T
            form = rng.randrange(3)
            if form == 0: text = "%s +- %s" % (dec(a), dec(b))
            elif form == 1: text = "%s (%s)" % (dec(a), dec(b))
            else:
                pc = Fraction(rng.randint(1, 999), 10 ** rng.randint(0, 3)); b = a * pc / 100; text = "%s (%s%%)" % (dec(a), dec(pc))
            try:
                v = iv.mpf(text)
            except Exception as e:
                rep.violation("interval literal %r rejected (%s)" % (text[:80], type(e).__name__), {"fn": "iv.mpf(str)", "text": text[:200], "prec": prec, "branch": "exact", "clause": "interval-form"}); continue
            checked += 1
            lo_, hi_ = v._mpi_
            lo = mpf_value(lo_) if lo_[1] else Fraction(0); hi = mpf_value(hi_) if hi_[1] else Fraction(0)
            if not (lo <= a - b and a + b <= hi):
                rep.violation("interval literal 'a +- b' / 'a (b)' / 'a (b%%)' does not contain a - b and a + b",
                              {"fn": "iv.mpf(str)", "text": text[:300], "prec": prec, "branch": "exact", "clause": "interval-form"})
        for s, want in (("inf", mp.inf), ("+inf", mp.inf), ("-inf", mp.ninf), ("  INF ", mp.inf)):
            checked += 1
            if mp.mpf(s) != want: rep.violation("special string %r misparsed" % s, {"fn": "mpf(str)", "text": s, "branch": "special", "clause": "special"})
        if not mp.isnan(mp.mpf("nan")): rep.violation("'nan' misparsed", {"fn": "mpf(str)", "text": "nan", "branch": "special", "clause": "special"})
        for bad in ("", "1.2.3", "e5", "1e", "--1", "0x10", "1/2/3", "abc", "1 2"):
            checked += 1
            try:
                r = mp.mpf(bad)
                rep.violation("malformed literal %r accepted (returned %r)" % (bad, r), {"fn": "mpf(str)", "text": bad, "branch": "malformed", "clause": "reject"})
            except (ValueError, TypeError, ZeroDivisionError):
                pass
    finally:
        mp.prec = p0; iv.prec = p0
    return {"api_level_checks": checked, "api_level": "mpf(str)/mpmathify/convert, iv.mpf(str) containment, p/q, specials, case/whitespace, malformed literals rejected"}


def run(rep, tier_, rng):
    # spec failures carry (tag, text, branch, clause): wrap so that the replay gets branch and clause
    import mpfcases
    orig_replay = mpfcases.Case.replay
    def replay_with_branch(self):
        d = orig_replay(self)
        if self.exact is not None and self.exact[0] == "str":
            d["branch"] = "approx" if self.exact[2] else "exact"
        return d
    mpfcases.Case.replay = replay_with_branch
    try:
        run_engine_a(rep, "C07", tier_, rng, FNS, TAGS, n_quick=4000, n_thorough=60000, make=allcases.make, spec=allcases.spec, extra=api_level)
    finally:
        mpfcases.Case.replay = orig_replay
    rep.assumptions += ["str_to_man_exp (splitting the literal into integer mantissa and decimal exponent) is re-implemented in the generator and validated against the implementation through the correspondence of from_str on the same literal"]


def replay(rep, path):
    from props import c02
    c02.replay(rep, path)
