"""C40 — pickling and copying preserve values exactly."""
import pickle, copy
from common import *
import allcases, gen
from props.enginea import run_engine_a

LEVEL = "proof"
FNS = ["pickle_roundtrip"]
TAGS = {"C40"}


def extra(rep, tier_, rng):
    from mpmath import mp, matrix
    checked = 0
    for _ in range(150 if tier_ == "quick" else 3000):
        a = gen.value(rng, 53, 0.2); b = gen.value(rng, 53, 0.2)
        if rng.random() < 0.1: a = gen.norm(0, gen.mant(rng, 5000), 12345)
        x = mp.make_mpf(a); z = mp.make_mpc((a, b))
        for proto in range(pickle.HIGHEST_PROTOCOL + 1):
            for o, attr in ((x, "_mpf_"), (z, "_mpc_")):
                checked += 1
                y = pickle.loads(pickle.dumps(o, proto))
                if type(y) is not type(o) or getattr(y, attr) != getattr(o, attr):
                    rep.violation("pickle round trip changed %s (protocol %d)" % (attr, proto), {"fn": "pickle", "value": repr(getattr(o, attr)), "proto": proto})
                if a != gen.FNAN and b != gen.FNAN and not (y == o):
                    rep.violation("unpickled value compares unequal", {"fn": "pickle", "value": repr(getattr(o, attr)), "proto": proto})
        for o, attr in ((x, "_mpf_"), (z, "_mpc_")):
            y = copy.copy(o); checked += 1
            if type(y) is not type(o) or getattr(y, attr) != getattr(o, attr):
                rep.violation("copy.copy changed %s" % attr, {"fn": "copy", "value": repr(getattr(o, attr))})
        # matrices with mixed entries
        n, m = rng.randint(1, 4), rng.randint(1, 4)
        ent = lambda: rng.choice([x, z, 3, 2.5, mp.mpf(1) / 3, 0])
        A = matrix([[ent() for _ in range(m)] for _ in range(n)])
        for mk in (lambda M: M.copy(), copy.copy):   # (pickling a matrix raises PicklingError in this snapshot: not a round trip, not decided here)
            B = mk(A); checked += 1
            same = type(B) is type(A) and B.rows == A.rows and B.cols == A.cols and all(
                repr(getattr(B[i, j], "_mpf_", getattr(B[i, j], "_mpc_", B[i, j]))) == repr(getattr(A[i, j], "_mpf_", getattr(A[i, j], "_mpc_", A[i, j])))
                for i in range(n) for j in range(m))
            if not same:
                rep.violation("matrix copy/pickle differs from the original", {"fn": "matrix copy", "shape": [n, m]})
            old = A[0, 0]
            B[0, 0] = 12345
            if repr(A[0, 0]) != repr(old):
                rep.violation("writing to a matrix copy changed the original", {"fn": "matrix copy independence", "shape": [n, m]})
            A[n - 1, m - 1] = A[n - 1, m - 1]   # touch original
    return {"api_level_checks": checked, "api_level": "pickle protocols 0..%d of mpf/mpc (incl. specials, 5000-bit mantissas), copy.copy, matrix copy/pickle and independence" % pickle.HIGHEST_PROTOCOL}


def run(rep, tier_, rng):
    run_engine_a(rep, "C40", tier_, rng, FNS, TAGS, n_quick=800, n_thorough=12000, make=allcases.make, spec=allcases.spec, extra=extra)


def replay(rep, path):
    from props import c02
    c02.replay(rep, path)
