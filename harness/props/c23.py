"""C23 -- elliptic integrals, AGM, Lambert W accurate to 2^(8-p) relative (in modulus).
Engine B, sub-domain certificates (no theta / modular / q-function theory exists in the installed Coq libraries).

CERTIFIED per instance (one Coq lemma `Rabs (y - ref) <= 2^(8-p) * Rabs ref`; integrals are Coquelicot `RInt` terms enclosed
by Coq Interval's `integral_intro`):
  ellipk(m) = RInt 1/sqrt(1 - m sin^2 t) 0 (PI/2) and ellipe(m) = RInt sqrt(1 - m sin^2 t) 0 (PI/2) for dyadic m < 1 including
  negative m (mpmath takes the PARAMETER m = k^2, not the modulus); ellipe(1) = 1, ellipk(0) = ellipe(0) = PI/2;
  incomplete ellipf(phi, m), ellipe(phi, m), ellippi(n, phi, m) and complete ellippi(n, m) with dyadic 0 < phi < PI/2 (phi <= 3/2),
  m < 1, n < 1 (Legendre integrals);
  elliprc(x, y) (atan form x < y, atanh = ln form x > y, x = y, x = 0, and the Cauchy principal value for y < 0);
  degenerate symmetric integrals that are elementary: elliprf(x,y,y) = elliprc(x,y), elliprf(x,x,x) = x^(-1/2), elliprf(0,y,y),
  elliprd(x,x,x) = x^(-3/2), elliprd(0,y,y) = 3 PI/(4 y^(3/2)), elliprd(x,y,y) = 3/(2(y-x)) (R_C(x,y) - sqrt(x)/y),
  elliprj(x,x,x,x) = x^(-3/2), elliprj(x,y,y,y) = elliprd(x,y,y), elliprg(x,x,x) = sqrt x, elliprg(0,y,y) = PI sqrt(y)/4,
  elliprg(x,y,y) = (y R_C(x,y) + sqrt x)/2; general elliprf(x,y,z), 0 < x < y < z, through Legendre's form
  F(phi, m)/sqrt(z-x) with phi = atan sqrt((z-x)/x), m = (z-y)/(z-x);
  agm(a, b), a, b > 0, through Gauss: agm(a,b) = (PI/2) / RInt 1/sqrt(a^2 cos^2 t + b^2 sin^2 t) 0 (PI/2)  (assumed identity);
  lambertw(z) on the real branches k = 0 (z > -1/e) and k = -1 (-1/e < z < 0) through the monotone inverse: with f(w) = w e^w,
  f at the two ends of [w(1-e), w(1+e)] brackets z (elementary, every precision).
NOT DECIDED (only identities among themselves exist): jtheta and derivatives, ellipfun, kleinj, eta, qfrom/mfrom/kfrom/taufrom/
qbarfrom, qp, qgamma, qhyper, complex arguments of every function, lambertw on complex branches, elliprj/elliprd/elliprg at generic
arguments, elliptic integrals with m >= 1 or phi outside (0, PI/2)."""
import math
from fractions import Fraction
from common import *
import cert
from cert import Const, Cx, ZERO, ONE, HALF, PI, lift, sqrt, ln, exp, sin, cos, atan, powz, var, rint, Instance
from specb import *

LEVEL = "exploration"
PRECS_QUICK = [20, 53, 53, 53]
PRECS_THOROUGH = [20, 53, 53, 100, 100, 200]
PRECS_EL = [15, 53, 113, 400]              # elementary references
PRECS_EL_T = [15, 53, 113, 400, 1000, 3000]

NOT_DECIDED = [
    "jtheta (and derivatives), ellipfun, kleinj, eta, qfrom/mfrom/kfrom/taufrom/qbarfrom, qp, qgamma, qhyper: no formal reference "
    "(identities among themselves only) -- not covered",
    "complex arguments of every function; lambertw on complex branches / complex z; elliprj, elliprd, elliprg at generic arguments; "
    "elliptic integrals with m >= 1 or amplitude outside (0, PI/2); integral references above 53 bits (quick) / 200 bits (thorough)",
]

ASSUMPTIONS = [
    "Definitions (Legendre forms, parameter m): K(m) = RInt (1 - m sin^2 t)^(-1/2) 0 (PI/2), E(m) = RInt (1 - m sin^2 t)^(1/2) 0 (PI/2), "
    "F(phi,m), E(phi,m) the same integrals up to phi, Pi(n,phi,m) = RInt 1/((1 - n sin^2 t) sqrt(1 - m sin^2 t)) 0 phi; mpmath argument "
    "orders ellipf(phi, m), ellipe(phi, m), ellippi(n, phi, m), ellippi(n, m).",
    "Named identities (DLMF ch. 19, not proved in Coq): R_C(x,y) = atan(sqrt((y-x)/x))/sqrt(y-x) (0 <= x < y), "
    "= ln((1+u)/(1-u))/(2 sqrt(x-y)) with u = sqrt((x-y)/x) (0 < y < x), R_C(x,x) = x^(-1/2), R_C(0,y) = PI/(2 sqrt y), "
    "R_C(x,y) = sqrt(x/(x-y)) R_C(x-y,-y) for y < 0 (principal value); R_F(x,y,y) = R_C(x,y); R_D(x,y,y) = 3/(2(y-x)) (R_C(x,y) - sqrt(x)/y); "
    "R_J(x,y,y,y) = R_D(x,y,y); R_G(x,y,y) = (y R_C(x,y) + sqrt x)/2; R_D(0,y,y) = 3 PI/(4 y^(3/2)); R_G(0,y,y) = PI sqrt(y)/4; "
    "R_F(x,y,z) = F(phi,m)/sqrt(z-x), cos^2 phi = x/z, m = (z-y)/(z-x) (DLMF 19.25.5); Gauss: PI/(2 agm(a,b)) = "
    "RInt (a^2 cos^2 t + b^2 sin^2 t)^(-1/2) 0 (PI/2).",
    "Lambert W: f(w) = w e^w is increasing on [-1, inf) (branch 0) and decreasing on (-inf, -1] (branch -1); the returned w is within "
    "relative e of the true W_k(z) iff z lies between f(w(1-e)) and f(w(1+e)) (both ends on the same side of -1; certified as part of the lemma).",
    "Relative error in modulus, tolerance exactly 2^(8-p); inputs are exact dyadic rationals; only sampled instances are certified.",
]

T = var("t")


def C(x):
    return HC(Fraction(x))


def iparams(p):
    d = max(10, min(32, (p + 24) // 5))
    return {"i_degree": d, "i_fuel": 600, "margin": 22}


def delta(m):
    return 1 - C(m) * (sin(T) * sin(T))


def r_ellipk(m):
    if m == 0: return PI * HALF
    return rint("t", 1 / sqrt(delta(m)), 0, PI * HALF)


def r_ellipe(m):
    if m == 0: return PI * HALF
    if m == 1: return ONE
    return rint("t", sqrt(delta(m)), 0, PI * HALF)


def r_ellipf(phi, m):
    return rint("t", 1 / sqrt(delta(m)), 0, C(phi))


def r_ellipe_inc(phi, m):
    return rint("t", sqrt(delta(m)), 0, C(phi))


def r_ellippi(n, m):
    return rint("t", 1 / ((1 - C(n) * (sin(T) * sin(T))) * sqrt(delta(m))), 0, PI * HALF)


def r_ellippi_inc(n, phi, m):
    return rint("t", 1 / ((1 - C(n) * (sin(T) * sin(T))) * sqrt(delta(m))), 0, C(phi))


def rc(x, y):
    """R_C(x, y) for exact rationals x >= 0, y != 0"""
    x, y = Fraction(x), Fraction(y)
    if y < 0:
        return sqrt(C(x / (x - y))) * rc(x - y, -y)
    if x == y: return 1 / sqrt(C(x))
    if x == 0: return PI / (2 * sqrt(C(y)))
    if x < y:
        return atan(sqrt(C((y - x) / x))) / sqrt(C(y - x))
    u = sqrt(C((x - y) / x))
    return ln((1 + u) / (1 - u)) / (2 * sqrt(C(x - y)))


def r_rf_gen(x, y, z):
    x, y, z = sorted([Fraction(x), Fraction(y), Fraction(z)])
    if not (0 < x < y < z): raise Skip("degenerate")
    m = (z - y) / (z - x)
    phi = atan(sqrt(C((z - x) / x)))
    return rint("t", 1 / sqrt(delta(m)), 0, phi) / sqrt(C(z - x))


def r_rd_xyy(x, y):
    return C(Fraction(3) / (2 * (y - x))) * (rc(x, y) - sqrt(C(x)) / C(y))


def r_agm(a, b):
    a, b = Fraction(a), Fraction(b)
    if a == b: return C(a)
    return (PI * HALF) / rint("t", 1 / sqrt(C(a * a) * (cos(T) * cos(T)) + C(b * b) * (sin(T) * sin(T))), 0, PI * HALF)


def b_lambertw(cid, k, args, p, yvs, eps, meta, params):
    z, br = args
    yv = yvs[0]
    if yv[0] == "complex" and yv[2] == 0: yv = ("real", yv[1])
    if yv[0] != "real":
        return [], "real branch value expected, got a complex number"
    w = yv[1]
    if w == 0:
        return [], "lambertw returned 0 for z != 0"
    a, b = w * (1 - eps), w * (1 + eps)          # |a| < |b|
    f = lambda v: C(v) * exp(C(v))
    if br == 0:
        if w < -1 or (w > 0) != (z > 0):
            return [], "value %s is not on branch 0 for z = %s" % (float(w), z)
        lo, hi = (a, b) if w > 0 else (b, a)     # increasing f: f(lo) <= z <= f(hi), lo < hi
        if lo < -1: raise Skip("bracket crosses -1")
    else:
        if w > -1:
            return [], "value %s is not on branch -1" % (float(w),)
        if a > -1: raise Skip("bracket crosses -1")
        lo, hi = a, b                             # b < w < a <= -1; f decreasing on (-inf,-1]: f(a) <= z <= f(b)
    m = dict(meta); m["part"] = "inverse"
    return [bracket_instance(cid + "_inv", f(lo), C(z), f(hi), params=params, meta=m)], None


def gx(rng, lo, hi, bits=None):
    b = bits or rng.choice([3, 6, 12, 30])
    x = rand_dyadic(rng, lo, hi, b)
    return x if x != 0 else Fraction(1, 2 ** b)


def g_m(rng):
    u = rng.random()
    if u < 0.5: return gx(rng, Fraction(1, 64), Fraction(63, 64))
    if u < 0.65: return 1 - Fraction(1, 2 ** rng.randint(7, 20))
    if u < 0.9: return -gx(rng, Fraction(1, 16), 20)
    return rng.choice([1, -1]) * Fraction(rng.randint(1, 255), 2 ** rng.randint(10, 24))


def g_phi(rng):
    return gx(rng, Fraction(1, 8), Fraction(3, 2))


def g_n(rng):
    return gx(rng, Fraction(1, 16), Fraction(15, 16)) if rng.random() < .6 else -gx(rng, Fraction(1, 8), 6)


def g_pos(rng, hi=20):
    return gx(rng, Fraction(1, 16), hi)


def g_rc(rng, p):
    u = rng.random()
    x = g_pos(rng)
    if u < 0.1: return [Fraction(0), g_pos(rng)]
    if u < 0.2: return [x, x]
    if u < 0.35: return [x, -g_pos(rng)]
    y = g_pos(rng)
    return [x, y]


def near_branch_point(rng, p):
    """dyadic z slightly above -1/e: -(floor(2^k/e) - j)/2^k  (generator side only; z > -1/e by construction)"""
    import mpmath
    k = rng.randint(10, p + 6)
    with mpmath.workprec(k + 60):
        n = int(mpmath.floor(mpmath.ldexp(mpmath.exp(-1), k)))
    return -Fraction(n - rng.choice([0, 0, 1, 3, rng.randint(0, 1000)]), 2 ** k)


def g_lw0(rng, p):
    u = rng.random()
    if u < 0.4: return [gx(rng, Fraction(1, 16), 40), 0]
    if u < 0.55: return [gx(rng, 40, 10 ** 6, 3), 0]
    if u < 0.7: return [Fraction(rng.randint(1, 255), 2 ** rng.randint(10, 40)) * rng.choice([1, -1]), 0]
    # -1/e < z < 0, including close to the branch point -1/e = -0.36787944...
    if u < 0.85: return [-gx(rng, Fraction(1, 64), Fraction(11, 32)), 0]
    return [near_branch_point(rng, p), 0]


def g_lwm1(rng, p):
    if rng.random() < 0.7: return [-gx(rng, Fraction(1, 1024), Fraction(11, 32)), -1]
    return [near_branch_point(rng, p), -1]


K = []


def reg(*a, **kw):
    K.append(Kind(*a, **kw))


IQ = dict(precs=PRECS_QUICK, params=iparams)
EL = dict(precs=PRECS_EL)

reg("ellipk", "ellipk", lambda c, m: c.ellipk(M(c, m)), r_ellipk, lambda rng, p: [g_m(rng)], w=0.6, regime="integral", **IQ)
reg("ellipe", "ellipe", lambda c, m: c.ellipe(M(c, m)), r_ellipe, lambda rng, p: [g_m(rng)], w=0.6, regime="integral", **IQ)
reg("ellipf", "ellipf", lambda c, phi, m: c.ellipf(M(c, phi), M(c, m)), r_ellipf, lambda rng, p: [g_phi(rng), g_m(rng)], w=0.8, regime="integral", **IQ)
reg("ellipe_inc", "ellipe", lambda c, phi, m: c.ellipe(M(c, phi), M(c, m)), r_ellipe_inc, lambda rng, p: [g_phi(rng), g_m(rng)], w=0.8, regime="integral", **IQ)
reg("ellippi", "ellippi", lambda c, n, m: c.ellippi(M(c, n), M(c, m)), r_ellippi, lambda rng, p: [g_n(rng), g_m(rng)], w=0.6, regime="integral", **IQ)
reg("ellippi_inc", "ellippi", lambda c, n, phi, m: c.ellippi(M(c, n), M(c, phi), M(c, m)), r_ellippi_inc,
    lambda rng, p: [g_n(rng), g_phi(rng), g_m(rng)], w=0.6, regime="integral", **IQ)
reg("elliprc", "elliprc", lambda c, x, y: c.elliprc(M(c, x), M(c, y)), rc, g_rc, w=2.0, regime="elementary", **EL)
reg("elliprf_xyy", "elliprf", lambda c, x, y: c.elliprf(M(c, x), M(c, y), M(c, y)), rc, lambda rng, p: g_rc(rng, p)[:1] + [g_pos(rng)], w=1.0, regime="elementary", **EL)
reg("elliprf_xxx", "elliprf", lambda c, x: c.elliprf(M(c, x), M(c, x), M(c, x)), lambda x: 1 / sqrt(C(x)), lambda rng, p: [g_pos(rng)], w=0.4, regime="elementary", **EL)
reg("elliprd_xxx", "elliprd", lambda c, x: c.elliprd(M(c, x), M(c, x), M(c, x)), lambda x: 1 / (C(x) * sqrt(C(x))), lambda rng, p: [g_pos(rng)], w=0.4, regime="elementary", **EL)
reg("elliprd_0yy", "elliprd", lambda c, y: c.elliprd(0, M(c, y), M(c, y)), lambda y: 3 * PI / (4 * C(y) * sqrt(C(y))), lambda rng, p: [g_pos(rng)], w=0.4, regime="elementary", **EL)
reg("elliprd_xyy", "elliprd", lambda c, x, y: c.elliprd(M(c, x), M(c, y), M(c, y)), r_rd_xyy,
    lambda rng, p: [g_pos(rng), g_pos(rng) + 21], w=0.8, regime="elementary", **EL)
reg("elliprj_xxxx", "elliprj", lambda c, x: c.elliprj(M(c, x), M(c, x), M(c, x), M(c, x)), lambda x: 1 / (C(x) * sqrt(C(x))), lambda rng, p: [g_pos(rng)], w=0.4, regime="elementary", **EL)
reg("elliprj_xyyy", "elliprj", lambda c, x, y: c.elliprj(M(c, x), M(c, y), M(c, y), M(c, y)), r_rd_xyy,
    lambda rng, p: [g_pos(rng), g_pos(rng) + 21], w=0.6, regime="elementary", **EL)
reg("elliprg_xxx", "elliprg", lambda c, x: c.elliprg(M(c, x), M(c, x), M(c, x)), lambda x: sqrt(C(x)), lambda rng, p: [g_pos(rng)], w=0.4, regime="elementary", **EL)
reg("elliprg_0yy", "elliprg", lambda c, y: c.elliprg(0, M(c, y), M(c, y)), lambda y: PI * sqrt(C(y)) / 4, lambda rng, p: [g_pos(rng)], w=0.4, regime="elementary", **EL)
reg("elliprg_xyy", "elliprg", lambda c, x, y: c.elliprg(M(c, x), M(c, y), M(c, y)), lambda x, y: (C(y) * rc(x, y) + sqrt(C(x))) * HALF,
    lambda rng, p: [g_pos(rng), g_pos(rng)], w=0.8, regime="elementary", **EL)
reg("elliprf_gen", "elliprf", lambda c, x, y, z: c.elliprf(M(c, x), M(c, y), M(c, z)), r_rf_gen,
    lambda rng, p: [g_pos(rng), g_pos(rng), g_pos(rng)], w=0.8, regime="integral", **IQ)
reg("agm", "agm", lambda c, a, b: c.agm(M(c, a), M(c, b)), r_agm,
    lambda rng, p: [g_pos(rng, rng.choice([2, 20, 1000])), g_pos(rng, rng.choice([2, 20]))], w=0.8, regime="integral", **IQ)
reg("lambertw_0", "lambertw", lambda c, z, k: c.lambertw(M(c, z), 0), gen=g_lw0, build=b_lambertw, w=2.5, regime="branch0", **EL)
reg("lambertw_m1", "lambertw", lambda c, z, k: c.lambertw(M(c, z), -1), gen=g_lwm1, build=b_lambertw, w=1.5, regime="branch-1", **EL)

RULE = ("each evaluation = one call of the current /repo code; call form drawn from the %d-entry registry (every entry once, then by "
        "weight); arguments random short dyadic rationals: m in (-20, 1) incl. 1 - 2^-k, phi in [1/8, 3/2], n < 1, Carlson arguments in "
        "(0, 41], lambertw z in (-1/e, 10^6] incl. neighbours of the branch point; precisions 20/53 for integral references "
        "(200 thorough), 15..400 (3000 thorough) for elementary ones; non-trivial = a real Interval/integral proof; distinct = distinct "
        "lemma statements" % len(K))


def run(rep, tier_, rng):
    if tier_ == "thorough":
        for k in K:
            k.precs = PRECS_THOROUGH if k.precs is PRECS_QUICK else PRECS_EL_T
    run_kinds(rep, K, tier_, rng, n_quick=int(os.environ.get("VERIF_B3_N", 44)), n_thorough=180, precs_quick=PRECS_QUICK,
              precs_thorough=PRECS_THOROUGH, assumptions=ASSUMPTIONS, rule=RULE, not_decided=NOT_DECIDED,
              params={"sentence_timeout": 100 if tier_ == "quick" else 400, "single_timeout": 100 if tier_ == "quick" else 400,
                      "batch": 5, "ladder": [1]}, budget_quick=95)


def replay(rep, path):
    replay_kinds(rep, path, K)
