"""C13 -- exact cases and special values of the elementary functions (Engine B certificates + finite table).

(1) perfect powers: sqrt/cbrt/root(x, n) of x = q^n (mantissas up to 4000 bits, every rounding mode, precision >= bits(q))
    must return y with y^n = x *exactly*; the equality is a Coq lemma over Z with explicit exponents (vm_compute);
(2) sinpi/cospi at integers and half-integers (mantissas up to 4000 bits): the residue of 2x mod 4 is certified over Z
    and the result is compared with the exact value it determines;
(3) powm1(x, y) = 0 exactly when x**y = 1 (both directions; x**y != 1 is certified as `y*ln x <> 0` by Interval);
(4) special-value table (documented limits), enumerated exhaustively over rounding modes and a precision grid; the
    entries that are pi multiples are certified with Interval, on the correct side for directed rounding;
(5) tan/cot/sec/csc at p-bit neighbours of k*pi/2, k <= 10^6: finite and within the C12 tolerance (Interval)."""
import math
from fractions import Fraction
from common import *
import cert, sweep
from cert import Const, ZERO, PI, HALF, lift, ln, Instance, atoms_instance, rel_instance, sign_instance
from props.engineb import *
from props import c12

LEVEL = "exploration"
MODES = "nfcdu"

ASSUMPTIONS = [
    "Perfect powers: the harness only asks Coq whether the returned y satisfies y^n = x over Z (explicit exponents, "
    "vm_compute); no expected root is supplied, so the oracle is the definition of an exact n-th root.",
    "sinpi/cospi at half-integers: expected value read off (2x mod 4), residue certified over Z; periodicity of sin/cos "
    "is the identity used.",
    "powm1: x**y = 1 for real x>0 iff y*ln x = 0 (injectivity of exp); for x = -1 and even integer y, and y = 0, "
    "x**y = 1 by definition.  The non-unit cases certify y*ln x <> 0 with Interval and require a non-zero result.",
    "Special-value table: entries are the limits written in mpmath's docstrings (exp(-inf)=0, log(0)=-inf, "
    "atan(+-inf)=+-pi/2, sinh/cosh/tanh(+-inf), sqrt(inf)=inf, sin/cos/tan/sec/csc/cot(inf)=nan, sinc(inf)=0, "
    "asin(+-1)=+-pi/2, acos(-1)=pi, acos(0)=pi/2, ...) or the exact values named in the property (exp(0)=1, log(1)=0, "
    "sin(0)=0, cos(0)=1, atan(0)=0); nan arguments give nan.  Entries mpmath does not document (cbrt(-inf), 1**inf ...) "
    "are not in the table.",
    "pi-valued entries are checked as |y - c*pi| <= 2^(4-p)|c*pi| and, for directed rounding, on the mode's side of c*pi.",
    "Finiteness near k*pi/2 is an instance-wise statement (k <= 10^6 sampled, plus every k <= 40 at one precision).",
]


def ctx_call(ctx, prec, thunk):
    p0 = ctx.prec
    try:
        ctx.prec = prec
        return sweep.call_with_timeout(thunk, 60)
    finally:
        ctx.prec = p0


# ----------------------------------------------------------------------------------------- (1) perfect powers

def pow_eq_text(y, n, x):
    """Z statement of (y)^n = x for dyadic y = my*2^ey, x = mx*2^ex (exponents kept explicit; nothing expanded)."""
    my, ey = dyadic(y); mx, ex = dyadic(x)
    e0 = min(n * ey, ex)
    def lit(v): return "(%d)" % v if v < 0 else "%d" % v
    lhs = "%s ^ %d * 2 ^ %d" % (lit(my), n, n * ey - e0)
    rhs = "%s * 2 ^ %d" % (lit(mx), ex - e0)
    return "(%s =? %s) = true" % (lhs, rhs), "(%s =? %s) = false" % (lhs, rhs)


def gen_perfect_powers(rng, tier_, ncases, insts, calls, direct):
    from mpmath import mp, libmp
    for i in range(ncases):
        kind = rng.choice(["sqrt", "sqrt", "cbrt", "cbrt", "root", "root", "root"])
        n = {"sqrt": 2, "cbrt": 3}.get(kind) or rng.choice([2, 3, 4, 5, 6, 7, 9, 10, 12, 16, 25])
        maxb = max(1, 4000 // n)
        b = max(1, int(2 ** rng.uniform(0, math.log2(maxb))))
        if rng.random() < 0.1: b = maxb
        q = rng.getrandbits(b) | (1 << (b - 1)) | (1 if rng.random() < 0.7 else 0)
        s = rng.choice([0, 0, rng.randint(-40, 40), rng.randint(-2000, 2000)])
        if kind == "root" and rng.random() < 0.35:
            n = rng.randint(5, 20); jb = rng.randint(2, 12)
            q = (1 << jb) + rng.choice([1, 1, 3, 5]); s = -rng.randint(1, 30)
        xq = Fraction(q) * Fraction(2) ** s
        x = xq ** n
        qb = q.bit_length() - ((q & -q).bit_length() - 1)        # significant bits of the exact root
        prec = rng.choice([qb, qb, qb + 1, qb + rng.randint(2, 60), max(qb, 53), max(qb, 113), qb + 1000])
        prec = max(prec, 1 if kind != "sqrt" else 1)
        rnd = rng.choice(MODES)
        route = rng.choice(["api", "libmp"]) if kind != "root" else rng.choice(["api_n", "libmp", "libmp"])
        cid = "pp%05d_%s" % (i, kind)
        call = {"fn": kind, "regime": "perfect_power", "n": n, "prec": prec, "rnd": rnd, "route": route,
                "args": [enc_arg(x)], "root_bits": qb, "rnd_class": "nearest" if rnd == "n" or route == "api_n" else "directed",
                "n_class": "n>20" if n > 20 else "n<=20"}
        try:
            xm = mk_mpf(mp, x)
            if route == "api":
                y = ctx_call(mp, 53, lambda: getattr(mp, kind)(xm, prec=prec, rounding=rnd))
            elif route == "api_n":
                call["rnd"] = rnd = "n"; call["rnd_class"] = "nearest"
                y = ctx_call(mp, prec, lambda: mp.root(xm, n))
            else:
                f = {"sqrt": lambda: libmp.mpf_sqrt(xm._mpf_, prec, rnd), "cbrt": lambda: libmp.mpf_cbrt(xm._mpf_, prec, rnd),
                     "root": lambda: libmp.mpf_nthroot(xm._mpf_, n, prec, rnd)}[kind]
                y = mp.make_mpf(ctx_call(mp, 53, f))
        except (Exception, sweep.CallTimeout) as ex:
            direct.append(("perfect power: call raised %r" % (ex,), call)); calls[cid] = call; continue
        yv = value_of(y)
        calls[cid] = call
        if yv[0] != "real" or yv[1] <= 0:
            direct.append(("perfect power %s: result is not a positive finite real: %r" % (kind, yv[:1]), call)); continue
        call["result"] = list(dyadic(yv[1]))
        g, ng = pow_eq_text(yv[1], n, x)
        ok = yv[1] ** n == x
        insts.append(Instance(cid, g, [ng], kind="Z", hint="pass" if ok else "fail",
                              meta={"fn": kind, "regime": "perfect_power", "call": cid, "part": "re",
                                    "clause": "exact root of a perfect power (mode %s, prec %d)" % (rnd, prec)}))


# ----------------------------------------------------------------------------------------- (2) sinpi / cospi

SINPI_TAB = {0: 0, 1: 1, 2: 0, 3: -1}
COSPI_TAB = {0: 1, 1: 0, 2: -1, 3: 0}


def gen_sinpi(rng, tier_, ncases, insts, calls, direct):
    from mpmath import mp
    for i in range(ncases):
        b = max(1, int(2 ** rng.uniform(0, math.log2(4000))))
        N = rng.getrandbits(b) | (1 << (b - 1))
        if rng.random() < 0.6: N |= 1                      # half-integer
        if rng.random() < 0.5: N = -N
        x = Fraction(N, 2)
        prec = rng.choice([10, 24, 53, 113, 400, 1000, max(10, b), max(10, b // 2)])
        rnd = rng.choice(MODES)
        fn = rng.choice(["sinpi", "cospi"])
        cid = "sp%05d_%s" % (i, fn)
        call = {"fn": fn, "regime": "half_integer", "prec": prec, "rnd": rnd, "args": [enc_arg(x)]}
        calls[cid] = call
        try:
            xm = mk_mpf(mp, x)
            y = ctx_call(mp, 53, lambda: getattr(mp, fn)(xm, prec=prec, rounding=rnd))
        except (Exception, sweep.CallTimeout) as ex:
            direct.append(("%s at a half-integer raised %r" % (fn, ex), call)); continue
        r = N % 4
        want = (SINPI_TAB if fn == "sinpi" else COSPI_TAB)[r]
        yv = value_of(y)
        if yv[0] != "real" or yv[1] != want:
            direct.append(("%s(N/2) with N mod 4 = %d returned %s, exact value is %d" % (fn, r, short(yv, 80), want), call))
        lit = "(%d)" % N if N < 0 else "%d" % N
        insts.append(Instance(cid, "(%s mod 4 =? %d) = true" % (lit, r), ["(%s mod 4 =? %d) = false" % (lit, r)], kind="Z",
                              hint="pass", meta={"fn": fn, "regime": "half_integer", "call": cid,
                                                 "clause": "residue of 2x mod 4 (decides the exact value)"},
                              trivial=(b < 8)))


# ----------------------------------------------------------------------------------------- (3) powm1

def gen_powm1(rng, tier_, ncases, insts, calls, direct):
    from mpmath import mp
    for i in range(ncases):
        prec = rng.choice([10, 24, 53, 113, 400, 1000])
        u = rng.random()
        if u < 0.2:
            x = Fraction(1); y = c12.g_gen(rng, prec, -300, 300); unit = True; tag = "x=1"
        elif u < 0.4:
            x = c12.g_gen(rng, prec, -50, 50); y = Fraction(0); unit = True; tag = "y=0"
        elif u < 0.5:
            x = Fraction(-1); y = Fraction(2 * rng.randint(-10 ** 6, 10 ** 6)); unit = True; tag = "x=-1,y even"
        else:
            x = rng.choice([c12.g_near1(rng, prec), abs(c12.g_gen(rng, prec, -3, 3)), 1 + abs(c12.g_tiny(rng, prec))])
            y = rng.choice([c12.g_tiny(rng, prec), c12.g_gen(rng, prec, -5, 5), c12.g_pm_eps(rng, prec)])
            if x == 1 or y == 0: continue
            unit = False; tag = "x**y != 1"
        cid = "pm%05d_powm1" % i
        call = {"fn": "powm1", "regime": tag, "prec": prec, "args": [enc_arg(x), enc_arg(y)]}
        calls[cid] = call
        try:
            v = ctx_call(mp, prec, lambda: mp.powm1(mk_mpf(mp, x), mk_mpf(mp, y)))
        except (Exception, sweep.CallTimeout) as ex:
            direct.append(("powm1 raised %r" % (ex,), call)); continue
        yv = value_of(v)
        iszero = (yv[0] == "real" and yv[1] == 0) or (yv[0] == "complex" and yv[1] == 0 and yv[2] == 0)
        if unit and not iszero:
            direct.append(("powm1(x,y) with x**y = 1 (%s) returned %s, not exactly 0" % (tag, short(yv, 80)), call))
        if not unit:
            if iszero:
                direct.append(("powm1(x,y) returned exactly 0 although x**y != 1", call))
            t = Const(y) * ln(Const(x))
            ins = sign_instance(cid, t, ">0" if (y > 0) == (x > 1) else "<0",
                                meta={"fn": "powm1", "regime": tag, "call": cid, "clause": "x**y <> 1, i.e. y*ln x <> 0"})
            if "estimate_error" not in ins.meta:
                insts.append(ins)
        else:
            # the unit cases are identities on the inputs themselves; record them as (trivial) Z facts
            if tag == "x=-1,y even":
                n = int(y)
                insts.append(Instance(cid, "(%s mod 2 =? 0) = true" % ("(%d)" % n if n < 0 else n), [], kind="Z", hint="pass",
                                      meta={"fn": "powm1", "regime": tag, "call": cid, "clause": "y even"}, trivial=True))


# ----------------------------------------------------------------------------------------- (4) special values

INF, NINF, NAN = "inf", "-inf", "nan"
# (function, argument(s), expected): expected in {0,1,-1,"inf","-inf","nan", ("pi", Fraction c)} ; arguments are ints/specials
TABLE = [
    ("exp", [0], 1), ("exp", [INF], INF), ("exp", [NINF], 0),
    ("log", [1], 0), ("log", [0], NINF), ("log", [INF], INF),
    ("sqrt", [0], 0), ("sqrt", [1], 1), ("sqrt", [INF], INF), ("cbrt", [0], 0), ("cbrt", [1], 1),
    ("sin", [0], 0), ("cos", [0], 1), ("tan", [0], 0), ("sec", [0], 1),
    ("sin", [INF], NAN), ("cos", [INF], NAN), ("tan", [INF], NAN), ("sec", [INF], NAN), ("csc", [INF], NAN), ("cot", [INF], NAN),
    ("sinh", [0], 0), ("cosh", [0], 1), ("tanh", [0], 0),
    ("sinh", [INF], INF), ("sinh", [NINF], NINF), ("cosh", [INF], INF), ("cosh", [NINF], INF),
    ("tanh", [INF], 1), ("tanh", [NINF], -1),
    ("atan", [0], 0), ("atan", [INF], ("pi", Fraction(1, 2))), ("atan", [NINF], ("pi", Fraction(-1, 2))),
    ("atan", [1], ("pi", Fraction(1, 4))), ("atan", [-1], ("pi", Fraction(-1, 4))),
    ("asin", [0], 0), ("asin", [1], ("pi", Fraction(1, 2))), ("asin", [-1], ("pi", Fraction(-1, 2))),
    ("acos", [1], 0), ("acos", [0], ("pi", Fraction(1, 2))), ("acos", [-1], ("pi", Fraction(1))),
    ("asinh", [0], 0), ("acosh", [1], 0), ("atanh", [0], 0),
    ("expm1", [0], 0), ("log1p", [0], 0), ("sinc", [0], 1), ("sinc", [INF], 0),
    ("sinpi", [0], 0), ("sinpi", [1], 0), ("cospi", [0], 1), ("cospi", [1], -1),
    ("atan2", [0, 1], 0), ("atan2", [1, 0], ("pi", Fraction(1, 2))), ("atan2", [-1, 0], ("pi", Fraction(-1, 2))),
    ("atan2", [0, -1], ("pi", Fraction(1))), ("atan2", [1, 1], ("pi", Fraction(1, 4))), ("atan2", [-1, -1], ("pi", Fraction(-3, 4))),
    ("hypot", [0, 0], 0), ("hypot", [3, 4], 5), ("power", [0, 2], 0), ("power", [2, 0], 1), ("power", [2, NINF], 0),
    ("power", [2, INF], INF), ("power", [INF, 2], INF),
] + [(f, [NAN], NAN) for f in ("exp", "log", "sqrt", "cbrt", "sin", "cos", "tan", "sinh", "cosh", "tanh", "asin", "acos", "atan",
                                "asinh", "atanh", "expm1", "log1p", "sinpi", "cospi", "sec", "csc", "cot")]
KWARG_FNS = {"exp", "log", "sqrt", "cbrt", "sin", "cos", "tan", "sinh", "cosh", "tanh", "asin", "acos", "atan", "asinh", "acosh",
             "atanh", "sinpi", "cospi"}        # wrapped libmp functions: accept prec=/rounding=
PREC_GRID_Q = [10, 24, 53, 113, 400]
PREC_GRID_T = [1, 2, 3, 10, 24, 53, 64, 113, 400, 1000, 3000]


def gen_table(rng, tier_, insts, calls, direct):
    from mpmath import mp
    grid = PREC_GRID_Q if tier_ == "quick" else PREC_GRID_T
    sp = {INF: mp.inf, NINF: mp.ninf, NAN: mp.nan}
    nent = 0
    for ti, (fn, args, want) in enumerate(TABLE):
        f = getattr(mp, fn if fn != "log" else "ln") if fn in KWARG_FNS else getattr(mp, fn)
        for prec in grid:
            for rnd in (MODES if fn in KWARG_FNS else "n"):
                margs = [sp[a] if isinstance(a, str) else mp.mpf(a) for a in args]
                cid = "sv%03d_%s_%d_%s" % (ti, fn, prec, rnd)
                call = {"fn": fn, "regime": "special_value", "prec": prec, "rnd": rnd, "args": [str(a) for a in args], "want": str(want)}
                nent += 1
                try:
                    if fn in KWARG_FNS:
                        y = ctx_call(mp, 53, lambda: f(*margs, prec=prec, rounding=rnd))
                    else:
                        y = ctx_call(mp, prec, lambda: f(*margs))
                except (Exception, sweep.CallTimeout) as ex:
                    calls[cid] = call
                    direct.append(("special value %s%r raised %r" % (fn, args, ex), call)); continue
                if hasattr(y, "_mpc_"):
                    calls[cid] = call
                    direct.append(("special value %s%r returned a complex %r, documented value %s" % (fn, args, y, want), call)); continue
                t = y._mpf_
                from mpmath.libmp import fzero, fone, fnone, finf, fninf, fnan, from_int
                if isinstance(want, tuple):
                    if not finite_tuple(t):
                        calls[cid] = call
                        direct.append(("special value %s%r is not finite" % (fn, args), call)); continue
                    if prec < 10:
                        continue
                    calls[cid] = call
                    c = want[1]
                    yq = cert.mpf_fraction(t)
                    ref = PI * Const(c)
                    eps = Fraction(1, 2 ** (prec - 4))
                    atoms = [(abs(Const(yq) - ref), "<=", Const(eps) * abs(ref))]
                    side = {"f": "<=", "c": ">=", "d": "<=" if c > 0 else ">=", "u": ">=" if c > 0 else "<="}.get(rnd)
                    neg_side = []
                    if side == "<=": atoms.append((Const(yq), "<=", ref)); neg_side = [[(ref, "<", Const(yq))]]
                    if side == ">=": atoms.append((ref, "<=", Const(yq))); neg_side = [[(Const(yq), "<", ref)]]
                    negs = [[(Const(eps) * abs(ref), "<", abs(Const(yq) - ref))]] + neg_side
                    insts.append(atoms_instance(cid, atoms, negs, meta={"fn": fn, "regime": "special_value", "call": cid,
                                                                       "clause": "%s*pi, mode %s" % (c, rnd)}))
                else:
                    if isinstance(want, int) and want and (abs(want) >> ((want & -want).bit_length() - 1)).bit_length() > prec:
                        continue                      # the exact value is not representable at this precision
                    exp_t = {0: fzero, 1: fone, -1: fnone, INF: finf, NINF: fninf, NAN: fnan}.get(want) or from_int(want)
                    if tuple(t) != tuple(exp_t):
                        calls[cid] = call
                        direct.append(("special value %s(%s) = %r, documented value %s (prec %d, mode %s)"
                                       % (fn, ",".join(map(str, args)), y, want, prec, rnd), call))
    return nent


# ----------------------------------------------------------------------------------------- (5) finiteness near k*pi/2

def gen_poles(rng, tier_, ncases, insts, calls, direct):
    from mpmath import mp
    todo = []
    for i in range(ncases):
        prec = rng.choice([10, 24, 53, 53, 113, 400] + ([1000] if tier_ == "thorough" or rng.random() < 0.3 else []))
        k = rng.choice([rng.randint(1, 40), rng.randint(1, 10 ** 6), rng.randint(10 ** 5, 10 ** 6)])
        pp = prec
        if rng.random() < 0.4:
            # the argument is k*pi/2 computed at a much higher precision than the working one (long mantissa): the reduction
            # has to retry with more bits of the argument, the value is of order 2^pp
            pp = rng.choice([prec + 60, 300, 1000]); k = rng.randint(1, 40)
        x, _ = c12.near_multiple_of_half_pi(rng, prec, kmax_bits=20, pp=pp, k=k)
        todo.append((rng.choice(["tan", "cot", "sec", "csc"]), x, prec, k))
    if tier_ == "thorough":
        for k in range(1, 41):
            for fn in ("tan", "cot", "sec", "csc"):
                x, _ = c12.near_multiple_of_half_pi(rng, 53, kmax_bits=20, pp=53, k=k)
                todo.append((fn, x, 53, k))
    for i, (fn, x, prec, k) in enumerate(todo):
        cid = "po%05d_%s" % (i, fn)
        call = {"fn": fn, "regime": "kpi2_1e6", "prec": prec, "k": k, "args": [enc_arg(x)]}
        calls[cid] = call
        try:
            y = c12.do_call(mp, fn, [x], prec)
        except (Exception, sweep.CallTimeout) as ex:
            direct.append(("%s at a %d-bit neighbour of %d*pi/2 raised %r (the function is finite there)" % (fn, prec, k, ex), call)); continue
        yv = value_of(y)
        if yv[0] != "real":
            direct.append(("%s at a %d-bit neighbour of %d*pi/2 returned %s (finite real value expected)" % (fn, prec, k, short(yv, 60)), call)); continue
        try:
            new, viol = c12.build_instances(cid, fn, [x], prec, yv, "kpi2_1e6")
        except cert.EstimateError:
            continue
        if viol: direct.append((viol, call))
        for ins in new:
            ins.meta["clause"] = "finite and within 2^(4-p) at a neighbour of k*pi/2"
        insts += new


# ----------------------------------------------------------------------------------------- driver

def run(rep, tier_, rng):
    load_known_b(rep)
    q = tier_ == "quick"
    insts, calls, direct = [], {}, []
    t0 = time.time()
    gen_perfect_powers(rng, tier_, 110 if q else 2500, insts, calls, direct)
    gen_sinpi(rng, tier_, 50 if q else 800, insts, calls, direct)
    gen_powm1(rng, tier_, 40 if q else 600, insts, calls, direct)
    ntable = gen_table(rng, tier_, insts, calls, direct)
    gen_poles(rng, tier_, 60 if q else 900, insts, calls, direct)
    insts = [i for i in insts if "estimate_error" not in i.meta]
    tgen = time.time() - t0
    for viol, call in direct:
        c = dict(call); c.setdefault("clause", "exact/special value")
        rep.violation("C13 %s: %s" % (call["fn"], viol), c)
    params = {"sentence_timeout": 60 if q else 200, "single_timeout": 80 if q else 300}
    run_and_report(rep, insts, calls, tag="C13_%s" % tier_, params=params, budget=max(30, (120 if q else 1100) - tgen),
                   rule="perfect powers q^n (n in 2..25, q up to 4000/n bits, shifted by 2^(n*s)), precision >= bits(q), every rounding "
                        "mode, via mp.sqrt/cbrt(prec=,rounding=), mp.root and libmp.mpf_sqrt/cbrt/nthroot: lemma y^n = x over Z; "
                        "sinpi/cospi at N/2 with N up to 4000 bits: residue lemma + exact comparison; powm1 unit and non-unit cases; "
                        "documented special-value table x rounding modes x precision grid compared exactly in the harness "
                        "(pi multiples by Interval); tan/cot/sec/csc at p-bit neighbours of k*pi/2, k<=10^6. non-trivial = lemma "
                        "with a genuine vm_compute/Interval proof (residues of <8-bit numbers and parity facts are counted trivial)",
                   assumptions=ASSUMPTIONS,
                   extra_cov={"special_value_table_entries": len(TABLE), "special_value_evaluations": ntable,
                              "exact_comparison_failures": len(direct), "generation_wall_s": round(tgen, 1),
                              "evaluations_note": "evaluations = calls that produced a Coq lemma or a recorded failure; the "
                                                  "special-value enumeration adds special_value_evaluations exact comparisons"})
    rep.coverage["evaluations"] = len(calls) + ntable


def replay(rep, path):
    def rebuild(r):
        from mpmath import mp
        if r.get("regime") == "kpi2_1e6":
            args = [dec_arg(a) for a in r["args"]]
            y = c12.do_call(mp, r["fn"], args, r["prec"])
            cid = "replay_%s" % r["fn"]
            new, viol = c12.build_instances(cid, r["fn"], args, r["prec"], value_of(y), r["regime"])
            if viol: rep.violation("C13 %s: %s" % (r["fn"], viol), dict(r))
            return new, {cid: {k: r[k] for k in ("fn", "regime", "prec", "args")}}
        if r.get("regime") == "perfect_power":
            from mpmath import libmp
            x = dec_arg(r["args"][0]); n = r["n"]; xm = mk_mpf(mp, x)
            if r["route"] == "api": y = getattr(mp, r["fn"])(xm, prec=r["prec"], rounding=r["rnd"])
            elif r["route"] == "api_n": y = ctx_call(mp, r["prec"], lambda: mp.root(xm, n))
            else:
                y = mp.make_mpf({"sqrt": lambda: libmp.mpf_sqrt(xm._mpf_, r["prec"], r["rnd"]),
                                 "cbrt": lambda: libmp.mpf_cbrt(xm._mpf_, r["prec"], r["rnd"]),
                                 "root": lambda: libmp.mpf_nthroot(xm._mpf_, n, r["prec"], r["rnd"])}[r["fn"]]())
            yv = value_of(y)
            g, ng = pow_eq_text(yv[1], n, x)
            cid = "replay_pp"
            r2 = {k: v for k, v in r.items() if k not in ("coq_replay", "coq_file", "instance", "step")}
            r2["n_class"] = "n>20" if n > 20 else "n<=20"
            r2["rnd_class"] = "nearest" if r["rnd"] == "n" or r["route"] == "api_n" else "directed"
            return [Instance(cid, g, [ng], kind="Z", meta={"fn": r["fn"], "call": cid, "part": "re",
                                                           "clause": "exact root of a perfect power"})], {cid: r2}
        rep.violation("C13 replay: " + str(r.get("fn")), dict(r))      # table/direct failures: re-run the whole check
        return [], {}
    replay_generic(rep, path, rebuild)
