"""C39 — magnitude, nearest-integer and classification helpers are exact."""
from common import *
import allcases
from props.enginea import run_engine_a

LEVEL = "proof"
FNS = ["mpf_mag", "mpc_mag", "int_mag", "mpq_mag", "nint_distance_mpf", "nint_distance_mpc", "nint_distance_mpq",
       "mpf_isint", "mpf_isnpint", "mpc_isint", "mpf_class", "CTX_mpf_shift", "CTX_mpf_frexp"]
TAGS = {"C39"}


def make(rng, fn, n):
    import ctxcases
    if fn.startswith("CTX_"):
        return ctxcases.make_cases(rng, fn[4:], n)
    return allcases.make(rng, fn, n)


def extra(rep, tier_, rng):
    """other numeric types: float / python complex / int through the public functions"""
    from fractions import Fraction
    import math
    from mpmath import mp
    checked = 0
    for _ in range(200 if tier_ == "quick" else 4000):
        f = rng.choice([0.5, -0.75, 3.0, 1e300, 5e-324, -2.5, 1024.0, rng.uniform(-100, 100)])
        m = mp.mag(f); checked += 1
        if not (abs(Fraction(f)) <= Fraction(2) ** m and Fraction(2) ** (m - 3) < abs(Fraction(f))):
            rep.violation("mag(float) violates |x| <= 2^m <= 8|x|", {"fn": "mag", "x": f})
        n, d = mp.nint_distance(f); checked += 1
        if abs(Fraction(f) - n) > Fraction(1, 2):
            rep.violation("nint_distance(float): n not nearest", {"fn": "nint_distance", "x": f})
        for g, want in ((mp.isint, f == int(f)), (mp.isinf, False), (mp.isnan, False), (mp.isfinite, True)):
            checked += 1
            if bool(g(f)) != want:
                rep.violation("%s(float) wrong" % g.__name__, {"fn": g.__name__, "x": f})
        y, e = mp.frexp(mp.mpf(f)); checked += 1
        if mp.ldexp(y, e) != f or not (0.5 <= abs(y) < 1):
            rep.violation("frexp/ldexp do not reconstruct x", {"fn": "frexp", "x": f})
    for v, want in ((mp.inf, (False, True, False, False)), (mp.ninf, (False, True, False, False)), (mp.nan, (False, False, True, False)),
                    (float("inf"), (False, True, False, False)), (float("nan"), (False, False, True, False)), (3, (True, False, False, True)),
                    (mp.mpc(2, 0), (True, False, False, True)), (mp.mpc(2, 1), (False, False, False, True)), (mp.mpc(1, mp.inf), (False, True, False, False))):
        got = (bool(mp.isint(v)), bool(mp.isinf(v)), bool(mp.isnan(v)), bool(mp.isfinite(v))); checked += 1
        if got != want:
            rep.violation("classification of %r is %r, expected %r" % (v, got, want), {"fn": "classify", "x": repr(v)})
    if mp.mag(0) != mp.ninf or mp.mag(mp.inf) != mp.inf or mp.mag(mp.mpf(0)) != mp.ninf:
        rep.violation("mag of 0/inf wrong", {"fn": "mag", "x": "0/inf"})
    return {"api_level_checks": checked}


def run(rep, tier_, rng):
    run_engine_a(rep, "C39", tier_, rng, FNS, TAGS, n_quick=600, n_thorough=10000, make=make, spec=allcases.spec, extra=extra)


def replay(rep, path):
    from props import c02
    c02.replay(rep, path)
