"""C05 — comparisons are exact and equal numbers hash equally."""
from fractions import Fraction
import math
from common import *
import allcases, gen
from props.enginea import run_engine_a

LEVEL = "proof"
FNS = ["mpf_cmp", "mpf_lt", "mpf_le", "mpf_gt", "mpf_ge", "mpf_eq", "mpf_hash", "mpc_hash", "mpf_sign"]
TAGS = {"VALUE"}


def api_level(rep, tier_, rng):
    """public comparisons across mpf/int/float/mpc/complex and hash agreement, against exact rationals and the
    running interpreter's own hash()"""
    import mpmath
    from mpmath import mp
    n = 600 if tier_ == "quick" else 12000
    checked = 0
    nan = float("nan")
    def val(o):
        if isinstance(o, (int, float)): return Fraction(o)
        return mpf_value(o._mpf_) if o._mpf_[1] else Fraction(0)
    for _ in range(n):
        k = rng.randrange(6)
        if k == 0:
            a = rng.randint(-2**70, 2**70); objs = [mp.mpf(a) if abs(a) < 2**53 else mp.make_mpf(gen.norm(int(a < 0), abs(a), 0) if a else gen.FZERO), a]
        elif k == 1:
            f = rng.choice([0.5, -0.75, 1e22, 1e-300, 3.0, -1.0, 2.0**70, 5e-324, rng.uniform(-5, 5)]); objs = [mp.mpf(f), f]
        elif k == 2:
            t = gen.finite(rng, 53); t = (t[0], t[1], t[2] % 300 - 150, t[3]); objs = [mp.make_mpf(t), mp.make_mpf(gen.norm(t[0], t[1] * 2 + rng.choice([0, 0, 1]), t[2] - 1))]
        elif k == 3:
            a = rng.randint(-1000, 1000); objs = [mp.mpf(a), a, float(a)]
        elif k == 4:
            a = rng.randint(-40, 40); b = rng.randint(-40, 40)
            objs = [mp.mpf(a) / 8, b / 8]
        else:
            a = rng.randint(-3, 3); objs = [mp.mpf(a), a + rng.choice([0, 1, -1])]
        for x in objs:
            for y in objs:
                vx, vy = val(x), val(y)
                for nm, got, want in (("<", x < y, vx < vy), ("<=", x <= y, vx <= vy), (">", x > y, vx > vy),
                                      (">=", x >= y, vx >= vy), ("==", x == y, vx == vy), ("!=", x != y, vx != vy)):
                    checked += 1
                    if bool(got) != want:
                        rep.violation("comparison %s between %s and %s disagrees with exact values" % (nm, type(x).__name__, type(y).__name__),
                                      {"fn": "compare " + nm, "x": repr(x), "y": repr(y)})
                if vx == vy:
                    checked += 1
                    if hash(x) != hash(y):
                        rep.violation("equal numbers hash differently", {"fn": "hash", "x": repr(x), "y": repr(y), "hx": hash(x), "hy": hash(y)})
        # nan unordered
        x = mp.mpf("nan"); y = objs[0]
        for got in (x < y, x <= y, x > y, x >= y, x == y, x == x, y < x, y == x):
            checked += 1
            if got:
                rep.violation("nan compared as ordered/equal", {"fn": "compare nan", "y": repr(y)})
        if not (x != x):
            rep.violation("nan != nan is False", {"fn": "compare nan"})
        # complex: mpc vs complex/int/float/mpf, hash agreement
        re = rng.choice([-1, 0, 1, 2, -2, 0.5, -0.5, 3.25, 1e10, -1e-5, 7]); im = rng.choice([-1, 0, 1, -2, 0.25, -0.5, 1e10, 3])
        z = mp.mpc(re, im); c = complex(re, im)
        checked += 2
        if not (z == c) or hash(z) != hash(c):
            rep.violation("mpc and equal complex differ in ==/hash", {"fn": "mpc hash", "z": repr(z), "hz": hash(z), "hc": hash(c)})
        if im == 0:
            for o in (re, mp.mpf(re)) + ((int(re),) if re == int(re) else ()):
                checked += 1
                if not (z == o) or hash(z) != hash(o):
                    rep.violation("mpc equal to a real number but hash differs", {"fn": "mpc hash", "z": repr(z), "o": repr(o), "hz": hash(z), "ho": hash(o)})
        z2 = mp.mpc(re, im + 1)
        if z2 == c or not (z2 != c):
            rep.violation("mpc equality not componentwise", {"fn": "mpc ==", "z": repr(z2)})
    return {"api_level_checks": checked, "api_level": "< <= > >= == != across mpf/int/float (huge ints, subnormals, nan), equal=>equal hash for mpf/int/float/mpc/complex against the interpreter's hash()"}


def run(rep, tier_, rng):
    run_engine_a(rep, "C05", tier_, rng, FNS, TAGS, n_quick=1200, n_thorough=20000, extra=api_level,
                 make=allcases.make, spec=allcases.spec)
    # model-side hash vs the running interpreter: hash(int)/hash(float) of the same value
    rep.assumptions.append("CPython's hash() of int/float/complex is the reference for 'equal numbers hash equally'")


def replay(rep, path):
    from props import c02
    c02.replay(rep, path)
