"""C02 — basic real arithmetic is correctly rounded in every rounding mode."""
from common import *
import corr, mpfcases, api
from props.enginea import run_engine_a

LEVEL = "proof"
FNS = ["normalize", "normalize1", "from_man_exp", "from_int", "mpf_add", "mpf_sub", "mpf_mul", "gmpy_mpf_mul",
       "mpf_div", "mpf_sqrt", "mpf_pos", "mpf_neg", "mpf_abs", "mpf_mul_int", "mpf_rdiv_int", "from_rational",
       "mpf_sum", "mpf_perturb", "isqrt", "sqrtrem",
       # the pure-Python integer square roots behind mpf_sqrt, step by step (Algo/Isqrt.v; seeds taken from the live source)
       "isqrt_small_newton", "isqrt_fast_smallx", "isqrt_fast_bigx", "sqrtrem_fix"]
TAGS_EXTRA = {"VALUE"}
TAGS = {"ROUND", "VALUE"}


def make(rng, fn, n):
    if fn == "API_OPS":
        return api.api_cases(rng, n)
    if fn == "API_F":
        return api.fcases(rng, n)
    return mpfcases.make_cases(rng, fn, n)


def run(rep, tier_, rng):
    # addition/subtraction have by far the most intricate branch structure: give them 8x the cases
    run_engine_a(rep, "C02", tier_, rng, FNS + ["mpf_add", "mpf_sub"] * 7 + ["mpf_sqrt", "mpf_div"] * 2 + ["API_OPS", "API_F"], TAGS, n_quick=500, n_thorough=8000, make=make)
    rep.coverage["api_level"] = "operators + - * / % with int/float/mpf operand mixes under random context precision " \
        "and rounding; fadd/fsub/fmul/fdiv/fneg with prec/dps/rounding/exact keywords; mpf() from int/float/mpf; " \
        "convert/mpmathify of Fraction; fsum/fdot under the property's side condition; sqrt with keywords"


def replay(rep, path):
    import json
    d = json.load(open(path))["replay"]
    margs = [unhex(x) for x in d["args_hex"]]
    mo = run_model([(d["fn"], margs)])[0]
    print("model:", mo, "recorded impl:", d.get("impl_out"))
    if d.get("fn", "").startswith("from_str") and d.get("desc"):
        # re-run the implementation on the recorded literal and compare with the model and the exact rounding
        from fractions import Fraction
        import mpmath.libmp as L
        text = d["desc"][1]; man, exp = margs[0], margs[1]
        io = call_impl(L.from_str, text, d["prec"], d["rnd"])
        print("impl now:", io)
        if list(io) != list(mo):
            rep.violation("from_str(%r, %d, %r) differs from the model of from_str on the parsed pair" % (text, d["prec"], d["rnd"]), d)
    rep.coverage = {"obligations": 1, "discharged": 1, "checker_cmd": "replay", "trusted_base": [],
                    "evaluations": 1, "distinct_nontrivial": 1, "rule": "replay", "samples": [d]}
