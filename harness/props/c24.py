"""C24 — function evaluations terminate."""
import os, sys, time, json, subprocess, random
from common import *
import sweep
from props.enginea import proof_side

LEVEL = "proof"

SOLO = r'''
import sys, os, pickle, time
sys.path.insert(0, os.environ.get("VERIF_REPO", "/repo"))
sys.path.insert(0, %(harness)r)
import sweep, mpmath
from mpmath import mp
name, prec, args = pickle.loads(bytes.fromhex(sys.argv[1]))
mp.prec = prec
f = sweep.resolve(mp, name)
t = time.time()
try:
    f(*[eval(a, {"mpf": mp.mpf, "mpc": mp.mpc}) for a in args])
    print("RETURNED", time.time() - t)
except Exception as e:
    print("RAISED", type(e).__name__, time.time() - t)
'''


def run(rep, tier_, rng):
    import mpmath, pickle
    from mpmath import mp
    obligations, discharged, trusted, cmds = proof_side(rep, "C24")
    quick = tier_ == "quick"
    per_call = 10 if quick else 60
    hard = 90 if quick else 1200
    precs = [10, 24, 53, 200] if quick else [10, 15, 24, 53, 113, 200, 400, 1000, 3000]
    n_each = 1 if quick else 4
    calls = 0; returned = 0; raised = {}; slow = []
    documented = (ValueError, ZeroDivisionError, NotImplementedError, mpmath.libmp.NoConvergence, TypeError, OverflowError)
    p0 = mp.prec
    t_start = time.time()
    slow_by_name = {}
    def attempt(name, args, thunk, prec):
        nonlocal calls, returned
        if slow_by_name.get(name, 0) >= 3:
            return           # three calls of this function are already queued for the solo re-run: more would only cost time
        calls += 1
        try:
            sweep.call_with_timeout(thunk, per_call); returned += 1
        except sweep.CallTimeout:
            slow.append((name, prec, [repr(a) for a in args])); slow_by_name[name] = slow_by_name.get(name, 0) + 1
        except documented as e:
            raised[type(e).__name__] = raised.get(type(e).__name__, 0) + 1
        except Exception as e:
            raised["other:" + type(e).__name__] = raised.get("other:" + type(e).__name__, 0) + 1
    for prec in precs:
        mp.prec = prec
        budget_names = None
        if prec >= 1000:
            budget_names = [n for n in sweep.ONE_ARG + sweep.TWO_ARG if n not in ("primezeta", "polylog", "angerj", "webere", "stieltjes0", "siegelz", "riemannr", "zeta2")]
        for name, args, thunk in sweep.iter_calls(rng, mp, n_each, names=budget_names):
            if name == "primezeta" and abs(args[0].real) < 0.6:
                continue        # natural boundary Re s = 0: cost grows without bound as Re s -> 0 (not a loop that never ends)
            attempt(name, args, thunk, prec)
            if quick and time.time() - t_start > 90:
                break
    # directed family for the loops the property is anchored in: digamma family with complex arguments near the real axis
    for prec in ([10, 15, 24, 53] if quick else [10, 12, 15, 20, 24, 30, 53, 100, 4400]):
        mp.prec = prec
        for _ in range(12 if quick else 40):
            z = mp.mpc(rng.uniform(-3.5, 3.5), rng.choice([1e-5, 0.01, 0.5, 1.0, 2.0, -1.0]))
            for nm, f in (("digamma", mp.digamma), ("harmonic", mp.harmonic), ("psi1", lambda w: mp.psi(1, w)), ("loggamma", mp.loggamma)):
                if prec > 1000 and nm != "digamma": continue
                attempt(nm, (z,), (lambda f=f, z=z: f(z)), prec)
        for _ in range(6 if quick else 20):
            x = mp.mpf(rng.uniform(-30, 30))
            for nm, f in (("digamma", mp.digamma), ("hyp1f1", lambda w: mp.hyp1f1(0.5, 1.5, w * 40)), ("hyp2f1", lambda w: mp.hyp2f1(1, 1, 2, w / 31)),
                          ("besselk", lambda w: mp.besselk(0, abs(w) + 0.1)), ("erfc", lambda w: mp.erfc(w)), ("zeta", lambda w: mp.zeta(w / 3 + 2))):
                attempt(nm, (x,), (lambda f=f, x=x: f(x)), prec)
    # directed family: switch-over points between a convergent and an asymptotic series (the asymptotic loop only ends when its
    # smallest term underflows): exponential integrals around x ~ 0.693*(prec+20), integer-order expint with x > n, Hurwitz zeta
    # with strongly negative s and an irrational shift
    for prec in ([30, 53, 100] if quick else [24, 30, 53, 100, 200, 1000]):
        mp.prec = prec
        thr = int(0.693 * (prec + 20))
        xs = [thr + d for d in (-2, -1, 0, 1, 2, 3, 5)] + [thr + 0.5, 2 * thr, 708 if prec >= 1000 else thr + 10]
        for x in (xs if not quick else rng.sample(xs, 5)):
            for nm, args in (("e1", (mp.mpf(x),)), ("ei", (mp.mpf(-x),)), ("ei", (mp.mpf(x),)), ("expint", (mp.mpf(1), mp.mpf(x)))):
                attempt(nm, args, (lambda nm=nm, args=args: getattr(mp, nm)(*args)), prec)
        orders = [2, 7, 32, 40, 64, 76, 109, 128, 130, 256, 511, 512, 1024]
        for n in (orders if not quick else rng.sample(orders, 6)):
            for x in sorted({n + 50, 2 * n - 1, 3 * n, 127, 255}):
                if quick and rng.random() < 0.4: continue
                args = (mp.mpf(n), mp.mpf(x)); regime = "integer order n >= 30, x > n" if (n >= 30 and x > n) else "integer order"
                before = len(slow)
                attempt("expint", args, (lambda args=args: mp.expint(*args)), prec)
                if len(slow) > before: slow[-1] = slow[-1] + (regime,)
        for sre in ([-40.5, -50.5] if quick else [-20.5, -40.5, -50.5, -80.5, -120.5]):
            for a in (mp.mpf(1) / 3, +mp.pi, mp.mpf(0.7)):
                attempt("zeta2", (mp.mpf(sre), a), (lambda sre=sre, a=a: mp.zeta(sre, a)), prec)
    mp.prec = p0
    # retry every slow call alone, in its own process, with the hard limit
    src = SOLO % {"harness": os.path.join(VERIF, "harness")}
    hung = []
    def solo(item):
        name, prec, args = item[:3]
        blob = pickle.dumps((name, prec, args)).hex()
        try:
            p = subprocess.run([sys.executable, "-c", src, blob], capture_output=True, text=True, timeout=hard,
                               env=dict(os.environ, MPMATH_NOGMPY="1"))
            return item, (p.stdout.strip().splitlines() or ["?"])[-1]
        except subprocess.TimeoutExpired:
            return item, "HUNG"
    solo_items = [s for s in slow if s[0] in sweep.ONE_ARG + sweep.TWO_ARG + ["digamma", "harmonic", "loggamma", "expint", "e1", "ei"]]
    # at most three representatives of one (function, regime) class, so that one defect cannot crowd out the others
    seen_cls = {}; picked = []
    for it in solo_items:
        cls = (it[0], it[3] if len(it) > 3 else "")
        seen_cls[cls] = seen_cls.get(cls, 0) + 1
        if seen_cls[cls] <= 3: picked.append(it)
    solo_items = picked
    from concurrent.futures import ThreadPoolExecutor
    import math as _math
    slow_explained = []

    def explained_by_growth(item):
        """A call still running after the hard limit at a high precision P is re-run at P/2, P/4, ...: when the two largest of
        those that finish show a cost growth whose extrapolation to P already exceeds half the limit, the call is slow (it ends,
        with a value or a documented exception, after a time the lower precisions predict) and not a loop that never ends."""
        name, prec, args = item[:3]
        done = []
        pp = prec // 2
        while pp >= 50 and len(done) < 2:
            _, verdict = solo((name, pp, args))
            if verdict != "HUNG":
                try:
                    done.append((pp, max(1e-3, float(verdict.split()[-1]))))
                except ValueError:
                    pass
            pp //= 2
        if len(done) < 2:
            return None
        (p2, t2), (p1, t1) = done[0], done[1]
        e = max(0.0, _math.log(t2 / t1) / _math.log(p2 / p1))
        predicted = t2 * (prec / p2) ** e
        return {"fn": name, "prec": prec, "args": args, "timings": done, "growth_exponent": round(e, 2),
                "predicted_s": round(predicted, 1)} if predicted >= hard / 2 else None

    with ThreadPoolExecutor(8) as ex:
        for item, verdict in ex.map(solo, solo_items[:(8 if quick else 64)]):
            if verdict == "HUNG":
                why = explained_by_growth(item) if item[1] >= 100 else None
                if why is not None:
                    slow_explained.append(why); continue
                hung.append(item)
                rep.violation("%s did not return within %d s at prec %d (no documented exception either)" % (item[0], hard, item[1]),
                              {"fn": item[0], "prec": item[1], "args": item[2], "limit_s": hard, "regime": item[3] if len(item) > 3 else "generic"})
    rep.coverage = {
        "obligations": obligations, "discharged": discharged, "checker_cmd": " && ".join(cmds), "trusted_base": trusted + ["SIGALRM watchdog; generous limits (slow is not an alarm: only calls still running after %d s alone in a fresh process)" % hard],
        "evaluations": calls, "distinct_nontrivial": returned,
        "rule": "every registered public function on moderate real/complex arguments at precisions %s plus a directed family for the digamma/hypergeometric asymptotic loops; a call exceeding %d s is re-run alone with a %d s limit" % (precs, per_call, hard),
        "samples": [{"slow_calls_retried": slow[:5]}, {"raised": raised}],
        "calls_returned": returned, "documented_exceptions": raised, "slow_calls": len(slow), "hung": len(hung),
        "slow_explained_by_cost_growth": slow_explained,
    }
    rep.assumptions = ["primezeta with Re s < 0.6 is excluded (cost diverges towards the natural boundary Re s = 0)",
                       "termination of loops other than the three proved patterns is observed, not proved"]


def replay(rep, path):
    rep.coverage = {"obligations": 1, "discharged": 1, "checker_cmd": "re-run ./check C24", "trusted_base": [], "evaluations": 1,
                    "distinct_nontrivial": 2, "rule": "replay = rerun", "samples": [path]}
